(* C11 — Router dispatches to the most specific matching route.
   Pinned statements only; proofs live in Proofs/Router.v.  [match_route] is the model of the code
   (Model/Router.v); [matches], [routes_of], [rank_ltb], [selected] are the specification
   (Spec/RouterSpec.v).  All theorems are for route tables whose "**" segments are trailing. *)
From KV Require Import Lib.Bytes Model.Router Model.BinSearch Spec.RouterSpec Proofs.Router Proofs.BinSearch.
From Coq Require Import Sorting.Permutation Sorting.Sorted.

(* the lookup computes exactly the declarative selection, for every table, method and path *)
Theorem C11_refines : forall t m uri, wf_table t = true -> match_route t m uri = spec_route t m uri.
Proof. exact route_refines_spec. Qed.
Print Assumptions C11_refines.

(* the selected handler belongs to a registered pattern that matches the path segment by segment *)
Theorem C11_sound : forall t m uri h ps, wf_table t = true -> match_route t m uri = Found h ps ->
  exists pat, In (pat, h) (routes_of t m) /\ matches pat (path_segs uri).
Proof. exact route_sound. Qed.
Print Assumptions C11_sound.

(* the fallback is selected if and only if no registered pattern matches *)
Theorem C11_fallback_iff : forall t m uri, wf_table t = true ->
  (match_route t m uri = Fallback <->
   forall pat h, In (pat, h) (routes_of t m) -> ~ matches pat (path_segs uri)).
Proof. exact route_fallback_iff. Qed.
Print Assumptions C11_fallback_iff.

(* an exact literal route always wins *)
Theorem C11_literal_wins : forall t m uri pat h, wf_table t = true ->
  In (pat, h) (routes_of t m) -> all_lit pat = true -> matches pat (path_segs uri) ->
  match_route t m uri = Found h [].
Proof. exact route_literal_wins. Qed.
Print Assumptions C11_literal_wins.

(* otherwise: longest leading literal run, then literal > :param > * > ** on the final segment,
   then registration order — [selected] spells this out *)
Theorem C11_most_specific : forall t m uri h ps, wf_table t = true -> match_route t m uri = Found h ps ->
  exists i pat, selected (routes_of t m) (path_segs uri) i pat h.
Proof. exact route_most_specific. Qed.
Print Assumptions C11_most_specific.

(* re-registering an equivalent pattern replaces the earlier handler; other methods are untouched *)
Theorem C11_reregister : forall t m path h,
  routes_of (t ++ [(m, path, h)]) m =
  filter (fun e => negb (equivb (fst e) (pattern_of path))) (routes_of t m) ++ [(pattern_of path, h)].
Proof. exact routes_of_snoc_same. Qed.
Theorem C11_method_isolation : forall t m m' path h, meth_eqb m' m = false ->
  routes_of (t ++ [(m', path, h)]) m = routes_of t m.
Proof. exact routes_of_snoc_other. Qed.

(* the matcher used by the executable spec decides the inductive relation *)
Theorem C11_matchb_iff : forall p us, trailing_dw p = true -> (matchb p us = true <-> matches p us).
Proof. exact matchb_iff. Qed.

(* non-vacuity: a table with overlapping literal / param / wildcard / double-wildcard routes *)
Definition ex_table : table :=
  [ (Std 0, bs "/users/:id", 0%N); (Std 0, bs "/users/me", 1%N); (Std 0, bs "/users/*", 2%N);
    (Std 0, bs "/users/**", 3%N); (Std 0, bs "/:a/:b", 4%N); (Std 0, bs "/users/:other", 5%N);
    (Custom (bs "PURGE"), bs "/**", 6%N) ].
Example C11_ex_wf : wf_table ex_table = true. Proof. vm_compute. reflexivity. Qed.
Example C11_ex_literal : match_route ex_table (Std 0) (bs "/users/me") = Found 1%N [].
Proof. vm_compute. reflexivity. Qed.
Example C11_ex_param_replaced : match_route ex_table (Std 0) (bs "/users/42") = Found 5%N [(bs "other", bs "42")].
Proof. vm_compute. reflexivity. Qed.
Example C11_ex_dw : match_route ex_table (Std 0) (bs "/users/4/2") = Found 3%N [].
Proof. vm_compute. reflexivity. Qed.
Example C11_ex_fallback : match_route ex_table (Std 1) (bs "/users/42") = Fallback.
Proof. vm_compute. reflexivity. Qed.
Example C11_ex_custom : match_route ex_table (Custom (bs "PURGE")) (bs "/x/y") = Found 6%N [].
Proof. vm_compute. reflexivity. Qed.


(* ------------------------------------------------------------------ the literal fast path as the code has it
   MethodBucket::finalize sorts the literal table (sort_unstable_by on the keys) and find_literal is
   binary_search_by_key over it; Model/BinSearch.v has the bytewise order of <[u8]>::cmp, core's binary search loop
   (both the current size/base loop and the older left/right one) with explicit fuel, and sorting as a relation:
   any strictly sorted permutation.  The router with that fast path IS the router the theorems above speak about. *)
Theorem C11_binary_search_router : forall t m uri, match_route_bs t m uri = match_route t m uri.
Proof. exact match_route_bs_eq. Qed.
Print Assumptions C11_binary_search_router.

(* for ANY result of sorting a reachable bucket's literal table (the sort is unstable: the theorem does not care which) *)
Theorem C11_binary_search_any_sort : forall b l' path,
  reachable_bucket b -> is_sort_of (literals b) l' -> binary_search l' path = find_literal b path.
Proof. exact find_literal_is_binary_search. Qed.

(* binary search on a strictly sorted table is membership; it never runs out of fuel or out of bounds, sorted or not *)
Theorem C11_binary_search_correct : forall l k v, sorted_by_key l -> (binary_search l k = Some v <-> In (k, v) l).
Proof. exact binary_search_Some. Qed.
Theorem C11_binary_search_total : forall a k, bs_terminated (binary_search_by_key a k).
Proof. exact binary_search_by_key_total. Qed.
(* keys stay unique under registration, so the sorted table is unique *)
Theorem C11_literals_unique : forall b, reachable_bucket b -> literals_unique b.
Proof. exact reachable_literals_unique. Qed.
Theorem C11_sort_functional : forall l l1 l2, is_sort_of l l1 -> is_sort_of l l2 -> l1 = l2.
Proof. exact is_sort_of_functional. Qed.
Print Assumptions C11_binary_search_correct.
