(* C18 — Date header is the correct IMF-fixdate of the current second.
   This file contains only pinned statements; proofs live in Proofs/Date*.v. *)
From KV Require Import Lib.Bytes Model.Date Spec.Calendar Proofs.Date.
Local Open Scope Z_scope.

(* every second from 1970-01-01 00:00:00 through 9999-12-31 23:59:59 *)
Theorem C18_format : forall secs, 0 <= secs <= 253402300799 ->
  format_http_date secs =
  imf_fixdate_line (Nat.iter (Z.to_nat (secs / 86400)) next (1970, 1, 1, 4)) (secs mod 86400).
Proof. exact format_correct. Qed.
Print Assumptions C18_format.

(* per-thread cache: for every sequence of clock readings, each call returns the line of its reading *)
Theorem C18_cache : forall readings, Forall (fun t => t <> - 2 ^ 63) readings ->
  cache_run cache_init readings = map format_http_date readings.
Proof. exact cache_correct. Qed.
Print Assumptions C18_cache.

(* non-vacuity / sanity: concrete instants *)
Example C18_ex_epoch : format_http_date 0 = bs "date: Thu, 01 Jan 1970 00:00:00 GMT" ++ [x0d; x0a].
Proof. vm_compute. reflexivity. Qed.
Example C18_ex_leap : format_http_date 951782400 = bs "date: Tue, 29 Feb 2000 00:00:00 GMT" ++ [x0d; x0a].
Proof. vm_compute. reflexivity. Qed.
Example C18_ex_last : format_http_date 253402300799 = bs "date: Fri, 31 Dec 9999 23:59:59 GMT" ++ [x0d; x0a].
Proof. vm_compute. reflexivity. Qed.
Example C18_ex_spec : imf_fixdate_line (Nat.iter 59 next (1970, 1, 1, 4)) 86399 = bs "date: Sun, 01 Mar 1970 23:59:59 GMT" ++ [x0d; x0a].
Proof. vm_compute. reflexivity. Qed.
Example C18_ex_cache : cache_run cache_init [5; 5; 4; 6] = map format_http_date [5; 5; 4; 6].
Proof. vm_compute. reflexivity. Qed.
