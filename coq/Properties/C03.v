(* C03 — Interpretation of a message does not depend on stream segmentation.  Pinned statements.
   The receiver re-parses the growing prefix; these theorems say that once a prefix has been
   accepted or rejected, every extension is judged the same, with the same parsed head and the same
   position of the body. *)
From KV Require Import Lib.Bytes Model.Headers Model.Parser Model.ReadLoop Proofs.ParserMono.

Theorem C03_request_accept_stable : forall s t r, parse_request s = Ok r -> parse_request (s ++ t) = Ok r.
Proof. exact request_accept_stable. Qed.
Print Assumptions C03_request_accept_stable.

Theorem C03_request_reject_stable : forall s t e, parse_request s = Err e -> e <> EEof ->
  exists e', parse_request (s ++ t) = Err e' /\ e' <> EEof.
Proof. exact request_reject_stable. Qed.
Print Assumptions C03_request_reject_stable.

Theorem C03_response_accept_stable : forall s t r, parse_response s = Ok r -> parse_response (s ++ t) = Ok r.
Proof. exact response_accept_stable. Qed.
Print Assumptions C03_response_accept_stable.

Theorem C03_response_reject_stable : forall s t e, parse_response s = Err e -> e <> EEof ->
  exists e', parse_response (s ++ t) = Err e' /\ e' <> EEof.
Proof. exact response_reject_stable. Qed.
Print Assumptions C03_response_reject_stable.

(* consequence: the outcome of the re-parse loop depends only on the concatenation of the segments.
   [first_verdict] is what a receiver that parses after every segment sees first. *)
Theorem C03_segmentation_independent : forall segs,
  final_request_verdict segs = verdict_of (parse_request (concat segs)) /\
  final_response_verdict segs = verdict_of (parse_response (concat segs)).
Proof. exact segmentation_independent. Qed.
Print Assumptions C03_segmentation_independent.

Definition accepted (s : bytes) : bool := match parse_request s with Ok _ => true | _ => false end.
Example C03_ex_split_authority :
  parse_request (bs "CONNECT exam") = Err EEof /\
  accepted (bs "CONNECT example.com:443 HTTP/1.1" ++ [x0d;x0a;x0d;x0a]) = true.
Proof. split; vm_compute; reflexivity. Qed.
Example C03_ex_high_byte_any_alignment :
  parse_request (bs "GET /?a" ++ [x80]) = Err EStatus /\
  parse_request (bs "GET /?a" ++ [x80] ++ bs " HTTP/1.1" ++ [x0d;x0a;x0d;x0a]) = Err EStatus.
Proof. split; vm_compute; reflexivity. Qed.
