(* C03 — Interpretation of a message does not depend on stream segmentation.  Pinned statements.
   The receiver re-parses the growing prefix; these theorems say that once a prefix has been
   accepted or rejected, every extension is judged the same, with the same parsed head and the same
   position of the body. *)
From KV Require Import Lib.Bytes Model.Headers Model.Parser Model.ReadLoop Proofs.ParserMono.

Theorem C03_request_accept_stable : forall s t r, parse_request s = Ok r -> parse_request (s ++ t) = Ok r.
Proof. exact request_accept_stable. Qed.
Print Assumptions C03_request_accept_stable.

Theorem C03_request_reject_stable : forall s t e, parse_request s = Err e -> e <> EEof ->
  exists e', parse_request (s ++ t) = Err e' /\ e' <> EEof.
Proof. exact request_reject_stable. Qed.
Print Assumptions C03_request_reject_stable.

Theorem C03_response_accept_stable : forall s t r, parse_response s = Ok r -> parse_response (s ++ t) = Ok r.
Proof. exact response_accept_stable. Qed.
Print Assumptions C03_response_accept_stable.

Theorem C03_response_reject_stable : forall s t e, parse_response s = Err e -> e <> EEof ->
  exists e', parse_response (s ++ t) = Err e' /\ e' <> EEof.
Proof. exact response_reject_stable. Qed.
Print Assumptions C03_response_reject_stable.

(* consequence: the outcome of the re-parse loop depends only on the concatenation of the segments.
   [first_verdict] is what a receiver that parses after every segment sees first. *)
Theorem C03_segmentation_independent : forall segs,
  final_request_verdict segs = verdict_of (parse_request (concat segs)) /\
  final_response_verdict segs = verdict_of (parse_response (concat segs)).
Proof. exact segmentation_independent. Qed.
Print Assumptions C03_segmentation_independent.

Definition accepted (s : bytes) : bool := match parse_request s with Ok _ => true | _ => false end.
Example C03_ex_split_authority :
  parse_request (bs "CONNECT exam") = Err EEof /\
  accepted (bs "CONNECT example.com:443 HTTP/1.1" ++ [x0d;x0a;x0d;x0a]) = true.
Proof. split; vm_compute; reflexivity. Qed.
Example C03_ex_high_byte_any_alignment :
  parse_request (bs "GET /?a" ++ [x80]) = Err EStatus /\
  parse_request (bs "GET /?a" ++ [x80] ++ bs " HTTP/1.1" ++ [x0d;x0a;x0d;x0a]) = Err EStatus.
Proof. split; vm_compute; reflexivity. Qed.

(* The client side: what `Response::parse` accepts, and where it says the body starts, is bracketed from both sides by an
   independent status-head grammar (Spec/StatusGrammar.v), as C02 / C04 do for requests.  Together with accept-stability above:
   the position where a response body starts is the end of the literal head, for every segmentation. *)
From KV Require Import Spec.HttpGrammar Spec.StatusGrammar Proofs.ResponseSound Proofs.ResponseComplete.

Theorem C03_response_sound : forall s r, parse_response s = Ok r ->
  exists sh, strict_status_head s = Some (sh, r_offset r) /\
    r_version r = (if ss_minor sh then 1 else 0)%N /\ r_code r = ss_code sh /\
    r_reason r = ss_reason sh /\ r_hdrs r = headers_of (sfield_pairs (ss_fields sh)).
Proof. exact response_sound. Qed.
Print Assumptions C03_response_sound.

Theorem C03_response_exact : forall s sh n, strict_status_head s = Some (sh, n) ->
  firstn n s = bs "HTTP/1." ++ [if ss_minor sh then x31 else x30] ++ [x20] ++ code_digits (ss_code sh) ++ [x20] ++
               ss_reason sh ++ [x0d; x0a] ++
               flat_map (fun f => s_name f ++ [x3a] ++ s_raw f ++ [x0d; x0a]) (ss_fields sh) ++ [x0d; x0a]
  /\ n <= length s /\ (ss_code sh < 1000)%N /\ forallb is_reason_char (ss_reason sh) = true.
Proof. exact strict_status_exact. Qed.
Print Assumptions C03_response_exact.

Theorem C03_response_complete : forall h t,
  rfc_status_head h = true -> cl_consistent (status_field_pairs h) = true ->
  exists r, parse_response (render_status h ++ t) = Ok r /\
    r_version r = (if t_minor h then 1 else 0)%N /\ r_code r = status_code h /\ r_reason r = t_reason h /\
    r_hdrs r = headers_of (status_field_pairs h) /\ r_offset r = length (render_status h).
Proof. exact response_complete. Qed.
Print Assumptions C03_response_complete.

Theorem C03_response_bad_length_rejected : forall h t,
  rfc_status_head h = true -> cl_consistent (status_field_pairs h) = false ->
  parse_response (render_status h ++ t) = Err EHeader.
Proof. exact response_cl_inconsistent_rejected. Qed.
Print Assumptions C03_response_bad_length_rejected.
