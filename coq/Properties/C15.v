(* C15 — Epoll mode: connection resources released exactly once, never accumulate.  Pinned statements. *)
From KV Require Import Lib.Bytes Model.Epoll Proofs.Epoll.

Definition count_label (p : elabel -> bool) (tr : list elabel) : nat := length (filter p tr).
Definition is_free (c : nat) (l : elabel) : bool := match l with LFree c' => Nat.eqb c c' | _ => false end.
Definition is_drop (c : nat) (l : elabel) : bool := match l with LStreamDrop c' => Nat.eqb c c' | _ => false end.

(* memory safety of the raw-pointer hand-off: in every reachable state every enabled step is safe -
   the record is allocated whenever it is dereferenced or freed, the stream is open when it is used or dropped *)
Theorem C15_safe : forall tr s l s', run ep_init tr = Some s -> step s l = Some s' -> safe s l = true.
Proof. exact all_steps_safe. Qed.
Print Assumptions C15_safe.

(* hence: a record is freed at most once and a stream dropped at most once, in every execution *)
Theorem C15_at_most_once : forall tr s c, run ep_init tr = Some s ->
  count_label (is_free c) tr <= 1 /\ count_label (is_drop c) tr <= 1.
Proof. exact release_at_most_once. Qed.
Print Assumptions C15_at_most_once.

(* a freed record belongs to a connection that is completely dead *)
Theorem C15_freed_is_dead : forall tr s c k, run ep_init tr = Some s -> nth_error (e_conns s) c = Some k ->
  k_rec k = AFreed -> k_jobs k = [] /\ k_registered k = false /\ k_stream k = false /\ k_in_batch k = false.
Proof. exact freed_is_dead. Qed.

(* sockets: once every connection has ended and the server is quiescent no stream is open - also
   when EPOLL_CTL_ADD failed *)
Theorem C15_no_open_streams : forall tr s, run ep_init tr = Some s -> all_ended s = true -> open_streams s = 0.
Proof. exact no_open_streams. Qed.
Print Assumptions C15_no_open_streams.

(* records: the corresponding statement is FALSE of the faithful model (and of the code): finding F25.
   After EPOLL_CTL_DEL no event carries the token any more, so the record is freed only if an event
   for it was already in the loop's current batch *)
Definition f25_trace : list elabel :=
  [LAccept true; LClientSend 0; LWait [0]; LEvent 0 ODispatched; LBatchEnd; LJobStart 0; LDel 0; LStreamDrop 0; LClosedStore 0].
Theorem C15_no_leak_refuted : exists s, run ep_init f25_trace = Some s /\ all_ended s = true /\ live_records s = 1.
Proof. eexists. vm_compute. repeat split. Qed.
(* what does hold: records are freed when the loop happens to look at a stale event *)
Example C15_ex_freed :
  match run ep_init [LAccept true; LClientSend 0; LWait [0]; LEvent 0 ODispatched; LBatchEnd; LClientClose 0; LWait [0]; LJobStart 0;
                     LDel 0; LStreamDrop 0; LClosedStore 0; LEvent 0 OStale; LFree 0; LBatchEnd] with
  | Some s => Nat.eqb (live_records s) 0 && all_ended s
  | None => false
  end = true.
Proof. vm_compute. reflexivity. Qed.
