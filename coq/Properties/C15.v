(* C15 — Epoll mode: connection resources released exactly once, never accumulate.  Pinned statements.
   (Model/Epoll.v after the repair of finding F25: the worker hands the record of a closed connection back through a
   graveyard, the event loop frees what it finds there after it has looked at every event of a batch, and wakes up at
   least once per timeout period.) *)
From KV Require Import Lib.Bytes Model.Epoll Proofs.Epoll Proofs.EpollReclaim.

Definition count_label (p : elabel -> bool) (tr : list elabel) : nat := length (filter p tr).
Definition is_free (c : nat) (l : elabel) : bool := match l with LFree c' => Nat.eqb c c' | _ => false end.
Definition is_drop (c : nat) (l : elabel) : bool := match l with LStreamDrop c' => Nat.eqb c c' | _ => false end.

(* memory safety of the raw-pointer hand-off: in every reachable state every enabled step is safe -
   the record is allocated whenever it is dereferenced or freed, the stream is open when it is used or dropped *)
Theorem C15_safe : forall tr s l s', run ep_init tr = Some s -> step s l = Some s' -> safe s l = true.
Proof. exact all_steps_safe. Qed.
Print Assumptions C15_safe.

(* hence: a record is freed at most once and a stream dropped at most once, in every execution *)
Theorem C15_at_most_once : forall tr s c, run ep_init tr = Some s ->
  count_label (is_free c) tr <= 1 /\ count_label (is_drop c) tr <= 1.
Proof. exact release_at_most_once. Qed.
Print Assumptions C15_at_most_once.

(* a freed record belongs to a connection that is completely dead *)
Theorem C15_freed_is_dead : forall tr s c k, run ep_init tr = Some s -> nth_error (e_conns s) c = Some k ->
  k_rec k = AFreed -> k_jobs k = [] /\ k_registered k = false /\ k_stream k = false /\ k_in_batch k = false.
Proof. exact freed_is_dead. Qed.
Print Assumptions C15_freed_is_dead.

(* the loop frees only what a worker has handed back, when it has no unexamined event left: the record is allocated,
   its connection deregistered, the stream dropped, `closed` set, no job exists and no event for it is pending -
   nobody holds a way to reach the record any more *)
Theorem C15_freed_only_from_graveyard : forall tr s c s', run ep_init tr = Some s -> step s (LFree c) = Some s' ->
  e_loop s = EBatch /\ forallb (fun k => negb (k_in_batch k)) (e_conns s) = true /\
  exists k, nth_error (e_conns s) c = Some k /\ k_grave k = true /\
            k_rec k = ALive /\ k_registered k = false /\ k_stream k = false /\ k_closed k = true /\
            k_jobs k = [] /\ k_in_batch k = false.
Proof. exact freed_only_from_graveyard. Qed.
Print Assumptions C15_freed_only_from_graveyard.

(* never accessed after being freed: once LFree c has happened, no step that is enabled later, in any interleaving,
   is one whose code touches the record of c (the labels listed in [touches]) *)
Definition touches (l : elabel) (c : nat) : bool :=
  match l with
  | LEvent c' _ | LFree c' | LJobStart c' | LRearm c' | LDel c' | LStreamDrop c' | LClosedStore c' | LGrave c' => Nat.eqb c c'
  | LAccept _ | LClientSend _ | LClientClose _ | LWait _ | LBatchEnd => false
  end.
Theorem C15_never_accessed_after_free : forall tr c tr2 s l s',
  run ep_init (tr ++ LFree c :: tr2) = Some s -> step s l = Some s' -> touches l c = false.
Proof. exact no_access_after_free. Qed.
Print Assumptions C15_never_accessed_after_free.

(* sockets: once every connection has ended and the server is quiescent no stream is open - also
   when EPOLL_CTL_ADD failed *)
Theorem C15_no_open_streams : forall tr s, run ep_init tr = Some s -> all_ended s = true -> open_streams s = 0.
Proof. exact no_open_streams. Qed.
Print Assumptions C15_no_open_streams.

(* records (false before the repair, finding F25): quiescent, every connection ended, nothing waiting in the graveyard
   => no record is allocated *)
Theorem C15_no_leak : forall tr s, run ep_init tr = Some s -> all_ended s = true -> graveyard_empty s = true ->
  live_records s = 0.
Proof. exact no_leak. Qed.
Print Assumptions C15_no_leak.

(* and the graveyard does get emptied, by the loop alone.  A record in the graveyard: if the loop waits, the timeout
   wake-up [LWait []] followed by the free and the end of the batch is enabled; if the loop is in a batch and has
   looked at all its events, the free is enabled *)
Theorem C15_reclaim : forall tr s c k, run ep_init tr = Some s -> nth_error (e_conns s) c = Some k ->
  k_grave k = true ->
  match e_loop s with
  | EWaiting => exists s', run s [LWait []; LFree c; LBatchEnd] = Some s' /\ rec_live s' c = false /\ e_loop s' = EWaiting
  | EBatch => forallb (fun k => negb (k_in_batch k)) (e_conns s) = true ->
              exists s', step s (LFree c) = Some s' /\ rec_live s' c = false
  end.
Proof. exact reclaim_enabled. Qed.
Print Assumptions C15_reclaim.

(* one wake-up empties the whole graveyard: the timeout, one LFree per graveyard entry (in index order), end of batch *)
Definition in_graveyard (s : estate) (c : nat) : bool :=
  match nth_error (e_conns s) c with Some k => k_grave k | None => false end.
Definition wakeup (s : estate) : list elabel :=
  LWait [] :: map LFree (filter (in_graveyard s) (seq 0 (length (e_conns s)))) ++ [LBatchEnd].
Theorem C15_reclaim_all : forall tr s, run ep_init tr = Some s -> e_loop s = EWaiting ->
  exists s', run s (wakeup s) = Some s' /\ graveyard_empty s' = true /\ e_loop s' = EWaiting.
Proof. exact reclaim_sweep. Qed.
Print Assumptions C15_reclaim_all.
Theorem C15_wakeup_frees : forall s c, count_label (is_free c) (wakeup s) = if in_graveyard s c then 1 else 0.
Proof. exact reclaim_trace_frees. Qed.

(* "after connections have ended, no per-connection memory or descriptor remains held": from a quiescent state in which
   every connection has ended, that one wake-up (at most one timeout period away) leaves no record, no stream *)
Theorem C15_ended_reclaimed : forall tr s, run ep_init tr = Some s -> all_ended s = true ->
  exists s', run s (wakeup s) = Some s' /\
             all_ended s' = true /\ graveyard_empty s' = true /\ live_records s' = 0 /\ open_streams s' = 0.
Proof. exact all_ended_reclaimed. Qed.
Print Assumptions C15_ended_reclaimed.

(* the history of finding F25 (the connection is closed by its job while the loop waits: no event will ever carry its
   token again).  It no longer ends in a quiescent state - the job still has to hand the record back - and with the
   job's last step and the loop's next wake-up the record is freed *)
Definition f25_trace : list elabel :=
  [LAccept true; LClientSend 0; LWait [0]; LEvent 0 ODispatched; LBatchEnd; LJobStart 0; LDel 0; LStreamDrop 0; LClosedStore 0].
Example C15_f25_not_quiescent :
  match run ep_init f25_trace with Some s => all_ended s | None => true end = false.
Proof. vm_compute. reflexivity. Qed.
Example C15_f25_reclaimed :
  match run ep_init (f25_trace ++ [LGrave 0]) with
  | Some s => all_ended s && Nat.eqb (live_records s) 1 && negb (graveyard_empty s)
  | None => false
  end = true /\
  match run ep_init (f25_trace ++ [LGrave 0] ++ [LWait []; LFree 0; LBatchEnd]) with
  | Some s => all_ended s && graveyard_empty s && Nat.eqb (live_records s) 0
  | None => false
  end = true /\
  match run ep_init (f25_trace ++ [LGrave 0]) with Some s => wakeup s | None => [] end = [LWait []; LFree 0; LBatchEnd].
Proof. vm_compute. repeat split. Qed.
(* the stale-event path: the loop looks at the stale event (and skips it), then finds the record in the graveyard *)
Example C15_ex_freed :
  match run ep_init [LAccept true; LClientSend 0; LWait [0]; LEvent 0 ODispatched; LBatchEnd; LClientClose 0; LWait [0]; LJobStart 0;
                     LDel 0; LStreamDrop 0; LClosedStore 0; LGrave 0; LEvent 0 OStale; LFree 0; LBatchEnd] with
  | Some s => Nat.eqb (live_records s) 0 && all_ended s
  | None => false
  end = true.
Proof. vm_compute. reflexivity. Qed.
(* ... and not before: with the stale event still unexamined the free is not enabled *)
Example C15_ex_free_waits :
  match run ep_init [LAccept true; LClientSend 0; LWait [0]; LEvent 0 ODispatched; LBatchEnd; LClientClose 0; LWait [0]; LJobStart 0;
                     LDel 0; LStreamDrop 0; LClosedStore 0; LGrave 0] with
  | Some s => match step s (LFree 0) with Some _ => false | None => true end
  | None => false
  end = true.
Proof. vm_compute. reflexivity. Qed.
