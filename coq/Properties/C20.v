(* C20 — Bodies are streamed with bounded memory.  Pinned statements.
   Partial by nature: the theorems bound a LEDGER of buffer bytes defined from the models'
   own intermediate values (Model/Memory.v); the allocator's real behaviour is measured by the
   harness (counting global allocator) and compared with these constants. *)
From KV Require Import Lib.Bytes Model.Headers Model.Parser Model.Printer Model.Body Model.Server Model.Memory Proofs.Memory.

(* sending: whatever the reader delivers - any length, any pieces - the printer retains at most
   K_BODY = 8192 + 8192 + 131072 bytes besides the head *)
Theorem C20_response_bound : forall h r, body_ledger h r <= K_BODY.
Proof. exact body_ledger_bound. Qed.
Print Assumptions C20_response_bound.

(* the streaming copy used for the ledger is the data the printer model writes *)
Theorem C20_stream_copy_is_body : forall r limit,
  concat (stream_copy (reader_fuel r) limit r) = fst (take_all (reader_fuel r) limit r []).
Proof. exact stream_copy_data. Qed.
Theorem C20_chunk_pieces_are_body : forall r,
  write_chunked (reader_fuel r) r = flat_map chunk (chunk_pieces (reader_fuel r) r) ++ LAST_CHUNK.
Proof. exact chunk_pieces_data. Qed.
Print Assumptions C20_stream_copy_is_body.

(* receiving: after ANY sequence of read / fill_buf / consume calls on a body reader over any source,
   the reader retains at most the 4 KiB of its BufReader *)
Theorem C20_reader_bound : forall lo st ops b0,
  (b0 = new_chunked lo st \/ (exists n, b0 = new_fixed lo st n) \/ b0 = new_eof lo st \/ b0 = new_empty lo st) ->
  reader_retained (fold_left bstep ops b0) <= 4096.
Proof. exact reader_retained_bound. Qed.
Print Assumptions C20_reader_bound.
(* ... and dropping the reader with part of the body unread discards the rest within the same bound *)
Theorem C20_drain_bound : forall lo st ops b0 fuel,
  (b0 = new_chunked lo st \/ (exists n, b0 = new_fixed lo st n) \/ b0 = new_eof lo st \/ b0 = new_empty lo st) ->
  reader_retained (drain fuel (fold_left bstep ops b0)) <= 4096.
Proof. exact drain_retained_bound. Qed.
Print Assumptions C20_drain_bound.

(* a framing line (chunk size / trailer) is held only up to its own length *)
Theorem C20_line_bound : forall s line s', read_line s = (inl line, s') ->
  length line <= length (bbuf s) + length (lo s) + length (concat (segs s)) /\
  (forall i, i < length line - 1 -> nth_error line i <> Some x0a).
Proof. exact read_line_bound. Qed.

(* the request head: at most the configured limit (this is C10_buffer_bound) *)
Theorem C20_head_bound : forall fuel N filled segs buf r rest, length filled <= N ->
  read_request fuel N filled segs = (RParsed buf r, rest) -> length buf <= N.
Proof. exact head_buffer_bound. Qed.

Example C20_ex_constants : N.of_nat K_BODY = 147456%N /\ BUF_SIZE = 4096%N.
Proof. vm_compute. split; reflexivity. Qed.
