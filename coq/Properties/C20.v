(* C20 — Bodies are streamed with bounded memory.  Pinned statements.
   Partial by nature: the theorems bound a LEDGER of buffer bytes defined from the models'
   own intermediate values (Model/Memory.v); the allocator's real behaviour is measured by the
   harness (counting global allocator) and compared with these constants. *)
From KV Require Import Lib.Bytes Model.Headers Model.Parser Model.Printer Model.Body Model.Server Model.Memory Proofs.Memory Proofs.MemoryCarry.

(* sending: whatever the reader delivers - any length, any pieces - the printer retains at most
   K_BODY = 8192 + 8192 + 131072 bytes besides the head *)
Theorem C20_response_bound : forall h r, body_ledger h r <= K_BODY.
Proof. exact body_ledger_bound. Qed.
Print Assumptions C20_response_bound.

(* the streaming copy used for the ledger is the data the printer model writes *)
Theorem C20_stream_copy_is_body : forall r limit,
  concat (stream_copy (reader_fuel r) limit r) = fst (take_all (reader_fuel r) limit r []).
Proof. exact stream_copy_data. Qed.
Theorem C20_chunk_pieces_are_body : forall r,
  write_chunked (reader_fuel r) r = flat_map chunk (chunk_pieces (reader_fuel r) r) ++ LAST_CHUNK.
Proof. exact chunk_pieces_data. Qed.
Print Assumptions C20_stream_copy_is_body.

(* receiving: after ANY sequence of read / fill_buf / consume calls on a body reader over any source,
   the reader retains at most the 4 KiB of its BufReader *)
Theorem C20_reader_bound : forall lo st ops b0,
  (b0 = new_chunked lo st \/ (exists n, b0 = new_fixed lo st n) \/ b0 = new_eof lo st \/ b0 = new_empty lo st) ->
  reader_retained (fold_left bstep ops b0) <= 4096.
Proof. exact reader_retained_bound. Qed.
Print Assumptions C20_reader_bound.
(* ... and dropping the reader with part of the body unread discards the rest within the same bound *)
Theorem C20_drain_bound : forall lo st ops b0 fuel,
  (b0 = new_chunked lo st \/ (exists n, b0 = new_fixed lo st n) \/ b0 = new_eof lo st \/ b0 = new_empty lo st) ->
  reader_retained (drain fuel (fold_left bstep ops b0)) <= 4096.
Proof. exact drain_retained_bound. Qed.
Print Assumptions C20_drain_bound.

(* a framing line (chunk size / trailer) is held only up to its own length *)
Theorem C20_line_bound : forall s line s', read_line s = (inl line, s') ->
  length line <= length (bbuf s) + length (lo s) + length (concat (segs s)) /\
  (forall i, i < length line - 1 -> nth_error line i <> Some x0a).
Proof. exact read_line_bound. Qed.

(* the request head: at most the configured limit (this is C10_buffer_bound) *)
Theorem C20_head_bound : forall fuel N filled segs buf r rest, length filled <= N ->
  read_request fuel N filled segs = (RParsed buf r, rest) -> length buf <= N.
Proof. exact head_buffer_bound. Qed.

Example C20_ex_constants : N.of_nat K_BODY = 147456%N /\ BUF_SIZE = 4096%N.
Proof. vm_compute. split; reflexivity. Qed.

(* ---- the carry (fix F20c): the bytes the request loop keeps between two requests of a connection ----
   When the body reader is dropped, what it holds beyond the end of the body - the BufReader's buffer and the unread part
   of the leftover slice, [carry_of] - becomes the first segment the next read_request sees ([after_drop]).  After ANY
   sequence of read / fill_buf / consume calls and the final drain, on any reader from_request can build (chunked, fixed,
   empty; any headers, any leftover, any future segments): at most one BufReader buffer plus what arrived with the head *)
Theorem C20_carry_bound : forall leftover sg h ops fuel,
  length (carry_of (body_src (drain fuel (fold_left bstep ops (from_request leftover sg h))))) <= 4096 + length leftover.
Proof. exact carry_bound. Qed.
Print Assumptions C20_carry_bound.
(* ... in fact the larger of the two, not their sum: while part of the leftover is unread the BufReader holds bytes of the
   leftover only *)
Theorem C20_carry_bound_max : forall leftover sg h ops fuel,
  length (carry_of (body_src (drain fuel (fold_left bstep ops (from_request leftover sg h))))) <= Nat.max 4096 (length leftover).
Proof. exact carry_bound_max. Qed.
Print Assumptions C20_carry_bound_max.
(* the same for every kind of reader of C20_reader_bound (EOF-delimited too) *)
Theorem C20_carry_bound_gen : forall leftover st ops b0 fuel,
  (b0 = new_chunked leftover st \/ (exists n, b0 = new_fixed leftover st n) \/ b0 = new_eof leftover st \/ b0 = new_empty leftover st) ->
  length (carry_of (body_src (drain fuel (fold_left bstep ops b0)))) <= Nat.max 4096 (length leftover).
Proof. exact carry_bound_max_gen. Qed.
Print Assumptions C20_carry_bound_gen.

(* in the request loop: when a head was parsed and can be framed, what handle_one_request leaves for the next request is
   after_drop of the reader the hook / handler leaves ([conn_reader]: from_request on the bytes behind the head, then the
   handler's reads), i.e. its carry in front of the segments not yet read; and that carry is at most 4096 + N bytes for a head
   limit of N, whatever the lengths of the bodies: so is the head buffer the repaired code sizes as max(N, carry) *)
Theorem C20_carry_is_first_segment : forall b,
  after_drop b = with_carry (carry_at_drop b) (segs (body_src (drain (body_fuel b) b))).
Proof. exact after_drop_carry. Qed.
Theorem C20_carry_bound_conn : forall a N ka sg buf r sg',
  read_request (S (length sg) + length (concat sg)) N [] sg = (RParsed buf r, sg') ->
  te_present (q_hdrs r) && negb (te_final_chunked (q_hdrs r)) = false ->
  o_rest (handle_one_request a N ka sg) = after_drop (conn_reader a r buf sg') /\
  length (carry_at_drop (conn_reader a r buf sg')) <= 4096 + N.
Proof. exact carry_bound_conn. Qed.
Print Assumptions C20_carry_bound_conn.
Theorem C20_carry_bound_conn_max : forall a N ka sg buf r sg',
  read_request (S (length sg) + length (concat sg)) N [] sg = (RParsed buf r, sg') ->
  te_present (q_hdrs r) && negb (te_final_chunked (q_hdrs r)) = false ->
  o_rest (handle_one_request a N ka sg) = after_drop (conn_reader a r buf sg') /\
  length (carry_at_drop (conn_reader a r buf sg')) <= Nat.max 4096 N.
Proof. exact carry_bound_conn_max. Qed.
Print Assumptions C20_carry_bound_conn_max.
(* a parsed head that cannot be framed builds no reader and carries nothing: the connection is closed *)
Theorem C20_carry_none_unframed : forall a N ka sg buf r sg',
  read_request (S (length sg) + length (concat sg)) N [] sg = (RParsed buf r, sg') ->
  te_present (q_hdrs r) && negb (te_final_chunked (q_hdrs r)) = true ->
  o_rest (handle_one_request a N ka sg) = sg' /\ o_keep (handle_one_request a N ka sg) = false.
Proof. exact carry_none_unframed. Qed.

(* ---- examples ---- *)
Definition all_app : app :=
  {| behaviour_of := fun _ => BAll; hook_of := fun _ => HProceed; describe := fun _ b => b |}.
Definition hold_app : app :=
  {| behaviour_of := fun _ => BHold; hook_of := fun _ => HProceed; describe := fun _ b => b |}.
Definition crlf : bytes := [x0d; x0a].
Definition next_req : bytes := bs "GET /next HTTP/1.1" ++ crlf ++ crlf.
Definition chunked_head : bytes := bs "POST /u HTTP/1.1" ++ crlf ++ bs "Transfer-Encoding: chunked" ++ crlf ++ crlf.
Definition chunked_body : bytes := bs "5" ++ crlf ++ bs "hello" ++ crlf ++ bs "0" ++ crlf ++ crlf.
(* the carry of the request at the head of [sg] *)
Definition carry_after (a : app) (N : nat) (sg : list bytes) : option bytes :=
  match read_request (S (length sg) + length (concat sg)) N [] sg with
  | (RParsed buf r, sg') => Some (carry_at_drop (conn_reader a r buf sg'))
  | _ => None
  end.

(* a chunked body followed by a pipelined request in the same segment: the carry is that request, and it is all
   that is left of the stream.  Head, body and next request in ONE segment (the carry comes back from the leftover slice
   through the BufReader), and the head alone in a first segment (the carry is the BufReader's read-ahead); the handler
   reads the body to its end, or does not read at all (the drain does) *)
Example C20_ex_carry_pipelined :
  carry_after all_app 4096 [chunked_head ++ chunked_body ++ next_req] = Some next_req /\
  o_rest (handle_one_request all_app 4096 true [chunked_head ++ chunked_body ++ next_req]) = [next_req] /\
  carry_after all_app 4096 [chunked_head; chunked_body ++ next_req] = Some next_req /\
  o_rest (handle_one_request all_app 4096 true [chunked_head; chunked_body ++ next_req]) = [next_req] /\
  carry_after hold_app 4096 [chunked_head; chunked_body ++ next_req] = Some next_req /\
  o_rest (handle_one_request hold_app 4096 true [chunked_head; chunked_body ++ next_req]) = [next_req] /\
  (* nothing behind the body: nothing is carried, no empty segment is inserted *)
  carry_after all_app 4096 [chunked_head; chunked_body] = Some [] /\
  o_rest (handle_one_request all_app 4096 true [chunked_head; chunked_body]) = [].
Proof. vm_compute. repeat split. Qed.

(* the BufReader's capacity alone does NOT bound the carry: a head limit above 4096 lets more than 4096 bytes arrive
   with the head, and a request without a body carries all of them (so max(4096, N) is the right constant) *)
Definition long_tail : bytes := repeat x0a (N.to_nat 5000).
Example C20_carry_buf_only_refuted :
  ~ (forall a N sg c, carry_after a N sg = Some c -> length c <= 4096).
Proof.
  intros H. specialize (H all_app (N.to_nat 8192) [next_req ++ long_tail] long_tail).
  assert (carry_after all_app (N.to_nat 8192) [next_req ++ long_tail] = Some long_tail) as E by (vm_compute; reflexivity).
  specialize (H E). apply Nat.leb_le in H. vm_compute in H. discriminate H.
Qed.
Print Assumptions C20_ex_carry_pipelined.
Print Assumptions C20_carry_buf_only_refuted.
