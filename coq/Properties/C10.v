(* C10 — Request-head size limit is enforced exactly.  Pinned statements.
   [read_request fuel N [] segs] is the model of the server's bounded re-parse loop over the inbound
   segments (Model/Server.v); the statements are in terms of the first N bytes of the stream only. *)
From KV Require Import Lib.Bytes Model.Headers Model.Parser Model.Body Model.Server Proofs.ServerHead.

Definition rr_fuel (segs : list bytes) : nat := S (length segs) + length (concat segs).

(* a head that is complete within the first N bytes is parsed - the same result for EVERY segmentation *)
Theorem C10_within : forall N segs r, parse_request (firstn N (concat segs)) = Ok r ->
  exists buf, fst (read_request (rr_fuel segs) N [] segs) = RParsed buf r /\
              is_prefix buf (concat segs) = true /\ length buf <= N.
Proof. exact read_request_within. Qed.
Print Assumptions C10_within.

(* no complete head within the first N bytes: too large (or already malformed), whatever the segmentation *)
Theorem C10_over : forall N segs, parse_request (firstn N (concat segs)) = Err EEof ->
  N <= length (concat segs) -> fst (read_request (rr_fuel segs) N [] segs) = RTooLarge.
Proof. exact read_request_over. Qed.
Theorem C10_malformed : forall N segs e, parse_request (firstn N (concat segs)) = Err e -> e <> EEof ->
  fst (read_request (rr_fuel segs) N [] segs) = RInvalid.
Proof. exact read_request_malformed. Qed.
Theorem C10_incomplete : forall N segs, parse_request (firstn N (concat segs)) = Err EEof ->
  length (concat segs) < N -> fst (read_request (rr_fuel segs) N [] segs) = REof.
Proof. exact read_request_incomplete. Qed.
Print Assumptions C10_over.

(* the head buffer never holds more than N bytes, and no read asks for more than the room left *)
Theorem C10_buffer_bound : forall fuel N filled segs buf r rest, length filled <= N ->
  read_request fuel N filled segs = (RParsed buf r, rest) -> length buf <= N.
Proof. exact read_request_bound. Qed.
Print Assumptions C10_buffer_bound.

(* what the connection sees: 431 / 400 with connection: close, and the connection is not kept *)
Theorem C10_answers : forall a N ka segs,
  let o := handle_one_request a N ka segs in
  (fst (read_request (rr_fuel segs) N [] segs) = RTooLarge -> o_resps o = [close_resp 431] /\ o_keep o = false) /\
  (fst (read_request (rr_fuel segs) N [] segs) = RInvalid -> o_resps o = [close_resp 400] /\ o_keep o = false).
Proof. exact too_large_answers. Qed.

Definition head40 : bytes := bs "GET /aaaaaaaaaaaaaaaaaaaaaa HTTP/1.1" ++ [x0d; x0a; x0d; x0a].
Example C10_ex_len : length head40 = 40. Proof. reflexivity. Qed.
Example C10_ex_exact : match fst (read_request 100 40 [] [firstn 7 head40; skipn 7 head40]) with RParsed _ _ => true | _ => false end = true.
Proof. vm_compute. reflexivity. Qed.
Example C10_ex_over : fst (read_request 100 39 [] [head40]) = RTooLarge.
Proof. vm_compute. reflexivity. Qed.
