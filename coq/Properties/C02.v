(* C02 — Every well-formed request head is accepted and decoded exactly.  Pinned statements.
   [rfc_head] is the RFC 9112 / 3986 grammar on structured heads (alphabetic method; origin-,
   absolute-, authority- or asterisk-form target; version 1.0 / 1.1; field lines with OWS), [render]
   their wire form; the theorem holds whatever bytes [t] follow the head. *)
From KV Require Import Lib.Bytes Model.Headers Model.Parser Spec.HttpGrammar Spec.HeaderStore Spec.ClSpec Proofs.ParserComplete.

Theorem C02_complete : forall h t, rfc_head h = true -> cl_consistent (field_pairs h) = true ->
  exists r, parse_request (render h ++ t) = Ok r /\
    method_str (q_meth r) = h_method h /\
    full (q_target r) = render_target (h_target h) /\
    uri_path (q_target r) = Ok (target_path (h_target h)) /\
    uri_query (q_target r) = Ok (target_query (h_target h)) /\
    q_version r = (if h_minor h then 1 else 0)%N /\
    q_hdrs r = headers_of (field_pairs h) /\
    q_offset r = length (render h).
Proof. exact request_complete. Qed.
Print Assumptions C02_complete.

(* the same, with the Content-Length side condition stated by the independent value grammar of
   Spec/HeaderStore.v (OWS 1*DIGIT OWS below 2^64; any number of leading zeros) rather than by the model's parser *)
Theorem C02_complete_rfc : forall h t, rfc_head h = true -> cl_consistent_rfc (field_pairs h) = true ->
  exists r, parse_request (render h ++ t) = Ok r /\
    method_str (q_meth r) = h_method h /\
    full (q_target r) = render_target (h_target h) /\
    uri_path (q_target r) = Ok (target_path (h_target h)) /\
    uri_query (q_target r) = Ok (target_query (h_target h)) /\
    q_version r = (if h_minor h then 1 else 0)%N /\
    q_hdrs r = headers_of (field_pairs h) /\
    q_offset r = length (render h).
Proof. exact request_complete_rfc. Qed.
Print Assumptions C02_complete_rfc.
Example C02_ex_padded_length : cl_value (bs "000000000000000000000000005 ") = Some 5%N /\
  cl_value (bs "18446744073709551615") = Some 18446744073709551615%N /\ cl_value (bs "18446744073709551616") = None.
Proof. vm_compute. repeat split; reflexivity. Qed.

Definition ex_head : head :=
  {| h_method := bs "PATCH";
     h_target := Absolute (bs "https") (bs "user@example.com:8443") (bs "/a/b;c=1/d") (Some (bs "x=1&y=/?z=aaaaaaaaaaaaaaaaaaaaaaaaaaaaaaaa"));
     h_minor := true;
     h_fields := [ {| f_name := bs "Host"; f_ows := bs " "; f_value := bs "example.com" |};
                   {| f_name := bs "Content-Length"; f_ows := [x09]; f_value := bs "42 " |};
                   {| f_name := bs "X-Empty"; f_ows := []; f_value := [] |};
                   {| f_name := bs "Connection"; f_ows := bs "  "; f_value := bs "keep-alive, Close" |} ] |}.
Example C02_ex_wf : rfc_head ex_head = true /\ cl_consistent (field_pairs ex_head) = true.
Proof. vm_compute. split; reflexivity. Qed.
Example C02_ex_asterisk : rfc_head {| h_method := bs "OPTIONS"; h_target := Asterisk; h_minor := true; h_fields := [] |} = true.
Proof. vm_compute. reflexivity. Qed.
Example C02_ex_pathless_query :
  match parse_request (render {| h_method := bs "GET"; h_target := Absolute (bs "http") (bs "a") [] (Some (bs "x/y")); h_minor := true; h_fields := [] |}) with
  | Ok r => match uri_path (q_target r), uri_query (q_target r) with
            | Ok p, Ok (Some q) => bytes_eqb p [] && bytes_eqb q (bs "x/y")
            | _, _ => false
            end
  | _ => false
  end = true.
Proof. vm_compute. reflexivity. Qed.
