(* C14 — Epoll mode: one worker per connection, requests in order, no lost wakeups.  Pinned statements.
   [step]/[run] (Model/Epoll.v): kernel (interest set, level-triggered readiness), event loop, worker
   jobs and clients as one transition system; the theorems hold for every trace = every interleaving. *)
From KV Require Import Lib.Bytes Model.Epoll Proofs.Epoll.

(* never two jobs for one connection, queued or executing; a job exists only under the in_flight flag *)
Theorem C14_one_worker : forall tr s c k, run ep_init tr = Some s -> nth_error (e_conns s) c = Some k ->
  length (k_jobs k) <= 1 /\ (k_jobs k <> [] -> k_in_flight k = true).
Proof. exact one_worker. Qed.
Print Assumptions C14_one_worker.

(* requests of a connection are taken one by one in arrival order: the i-th job that read a request read request i *)
Theorem C14_in_order : forall tr s c k, run ep_init tr = Some s -> nth_error (e_conns s) c = Some k ->
  k_taken k = seq 0 (k_answered k).
Proof. exact in_order. Qed.
Print Assumptions C14_in_order.

(* no lost wakeup: a registered connection with pending input (or a peer close) is never stuck behind
   the in_flight flag without a job: either a job exists (it will clear the flag or close), or the flag
   is clear, and then epoll_wait is able to report it (or it already sits in the current batch) *)
Theorem C14_no_lost_wakeup : forall tr s c k, run ep_init tr = Some s -> nth_error (e_conns s) c = Some k ->
  ready k = true ->
  k_jobs k <> [] \/
  (k_in_flight k = false /\ k_closed k = false /\
   (k_in_batch k = true \/ (e_loop s = EWaiting -> exists s', step s (LWait [c]) = Some s'))).
Proof. exact no_lost_wakeup. Qed.
Print Assumptions C14_no_lost_wakeup.

(* and when the loop looks at such a connection it dispatches it *)
Theorem C14_dispatch : forall tr s c k, run ep_init tr = Some s -> nth_error (e_conns s) c = Some k ->
  e_loop s = EBatch -> k_in_batch k = true -> k_in_flight k = false -> k_closed k = false ->
  exists s', step s (LEvent c ODispatched) = Some s'.
Proof. exact dispatch_enabled. Qed.

Example C14_ex_run :
  match run ep_init [LAccept true; LClientSend 0; LWait [0]; LEvent 0 ODispatched; LBatchEnd; LClientSend 0; LWait [0];
                     LEvent 0 OBusy; LBatchEnd; LJobStart 0; LRearm 0; LWait [0]; LEvent 0 ODispatched; LBatchEnd; LJobStart 0; LRearm 0] with
  | Some s => match nth_error (e_conns s) 0 with Some k => Nat.eqb (k_answered k) 2 && negb (k_in_flight k) | None => false end
  | None => false
  end = true.
Proof. vm_compute. reflexivity. Qed.
