(* C14 — Epoll mode: one worker per connection, requests in order, no lost wakeups.  Pinned statements.
   [step]/[run] (Model/Epoll.v): kernel (interest set, level-triggered readiness), event loop, worker
   jobs and clients as one transition system; the theorems hold for every trace = every interleaving. *)
From KV Require Import Lib.Bytes Model.Epoll Proofs.Epoll Proofs.EpollLive.

(* never two jobs for one connection, queued or executing; a job exists only under the in_flight flag *)
Theorem C14_one_worker : forall tr s c k, run ep_init tr = Some s -> nth_error (e_conns s) c = Some k ->
  length (k_jobs k) <= 1 /\ (k_jobs k <> [] -> k_in_flight k = true).
Proof. exact one_worker. Qed.
Print Assumptions C14_one_worker.

(* requests of a connection are taken one by one in arrival order: the i-th job that read a request read request i *)
Theorem C14_in_order : forall tr s c k, run ep_init tr = Some s -> nth_error (e_conns s) c = Some k ->
  k_taken k = seq 0 (k_answered k).
Proof. exact in_order. Qed.
Print Assumptions C14_in_order.

(* no lost wakeup: a registered connection with pending input (or a peer close) is never stuck behind
   the in_flight flag without a job: either a job exists (it will clear the flag or close), or the flag
   is clear, and then epoll_wait is able to report it (or it already sits in the current batch) *)
Theorem C14_no_lost_wakeup : forall tr s c k, run ep_init tr = Some s -> nth_error (e_conns s) c = Some k ->
  ready k = true ->
  k_jobs k <> [] \/
  (k_in_flight k = false /\ k_closed k = false /\
   (k_in_batch k = true \/ (e_loop s = EWaiting -> exists s', step s (LWait [c]) = Some s'))).
Proof. exact no_lost_wakeup. Qed.
Print Assumptions C14_no_lost_wakeup.

(* and when the loop looks at such a connection it dispatches it *)
Theorem C14_dispatch : forall tr s c k, run ep_init tr = Some s -> nth_error (e_conns s) c = Some k ->
  e_loop s = EBatch -> k_in_batch k = true -> k_in_flight k = false -> k_closed k = false ->
  exists s', step s (LEvent c ODispatched) = Some s'.
Proof. exact dispatch_enabled. Qed.

Example C14_ex_run :
  match run ep_init [LAccept true; LClientSend 0; LWait [0]; LEvent 0 ODispatched; LBatchEnd; LClientSend 0; LWait [0];
                     LEvent 0 OBusy; LBatchEnd; LJobStart 0; LRearm 0; LWait [0]; LEvent 0 ODispatched; LBatchEnd; LJobStart 0; LRearm 0] with
  | Some s => match nth_error (e_conns s) 0 with Some k => Nat.eqb (k_answered k) 2 && negb (k_in_flight k) | None => false end
  | None => false
  end = true.
Proof. vm_compute. reflexivity. Qed.

(* ---- "eventually dispatched", beyond enabledness (Proofs/EpollLive.v) ---- *)

(* the loop cannot finish a batch without looking, exactly once, at every connection epoll_wait reported (and at no other) *)
Theorem C14_batch_exact : forall tr1 cs tr2 s',
  run ep_init (tr1 ++ LWait cs :: tr2 ++ [LBatchEnd]) = Some s' -> existsb isbatchend tr2 = false ->
  forall c, cnt (isevent c) tr2 = if existsb (Nat.eqb c) cs then 1 else 0.
Proof. exact batch_exact. Qed.
Print Assumptions C14_batch_exact.

(* a reported connection that has no job is dispatched (a job is queued, the flag set) before the batch ends: no other actor
   can change its flags in between *)
Theorem C14_reported_dispatched : forall tr1 cs tr2 s' s1 c k,
  run ep_init (tr1 ++ LWait cs :: tr2 ++ [LBatchEnd]) = Some s' -> existsb isbatchend tr2 = false ->
  run ep_init tr1 = Some s1 -> nth_error (e_conns s1) c = Some k -> In c cs ->
  k_in_flight k = false -> k_closed k = false ->
  exists pre post sm k',
    tr2 = pre ++ LEvent c ODispatched :: post /\
    existsb (isevent c) pre = false /\ existsb (isevent c) post = false /\
    run ep_init (tr1 ++ LWait cs :: pre ++ [LEvent c ODispatched]) = Some sm /\
    nth_error (e_conns sm) c = Some k' /\ k_jobs k' = [JQueued] /\ k_in_flight k' = true.
Proof. exact reported_idle_dispatched. Qed.
Print Assumptions C14_reported_dispatched.

(* no deadlock: inside a batch the loop always has a move; and while some connection is ready the server side (loop or a
   worker job - not a client, not an accept, not an empty wait) has an enabled step *)
Theorem C14_loop_never_blocks : forall s, e_loop s = EBatch ->
  exists l s', is_loop_label l = true /\ step s l = Some s'.
Proof. exact loop_never_blocks. Qed.
Theorem C14_server_can_move : forall s c k, reachable s -> nth_error (e_conns s) c = Some k -> ready k = true ->
  exists l s', server_move l = true /\ step s l = Some s'.
Proof. exact server_can_move. Qed.
Print Assumptions C14_server_can_move.

(* the server's own work is bounded by its input: dispatches, stale events, frees and job steps of any trace from the start
   are at most 10 per client send + 9 per client close + 3 per re-arm at end of input (busy events of a level-triggered
   loop while a job is in flight are NOT bounded: C14_busy_unbounded) *)
Theorem C14_work_bounded : forall tr s, run ep_init tr = Some s ->
  work tr <= 10 * cnt issend tr + 9 * cnt isclose tr + 3 * eof_rearms ep_init tr.
Proof. exact server_work_from_init. Qed.
Print Assumptions C14_work_bounded.
Theorem C14_busy_unbounded :
  ~ exists f, forall s tr s', reachable s -> existsb isenv tr = false -> run s tr = Some s' -> cnt isbusy tr <= f s.
Proof. exact busy_bound_refuted. Qed.
Print Assumptions C14_busy_unbounded.
