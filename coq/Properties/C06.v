(* C06 — Body decoding yields exactly the payload and never hides truncation.  Pinned statements.
   [read_all] / [bufread_all] drive the model of BodyReader (Model/Body.v) through its Read and
   BufRead faces over an arbitrary leftover|stream split, stream segmentation and sequence of
   buffer sizes; [spec_decode] / [spec_fixed] (Spec/ChunkedSpec.v) are the independent strict
   recognisers and [enc_chunked] the generator of valid chunked encodings. *)
From KV Require Import Lib.Bytes Model.Body Spec.ChunkedSpec Proofs.BodySpec Proofs.BodyRead Proofs.BodyBufRead.

Definition positive (sizes : list N) : Prop := Forall (fun k => (0 < k)%N) sizes.
Definition result3 (r : bytes * outcome * body) : bytes * outcome := fst r.

(* --- the generator is accepted by the recogniser; every strict prefix is "truncated" --- *)
Theorem C06_spec_generates : forall b rest, wf_cbody b = true ->
  spec_decode (enc_chunked b ++ rest) = Valid (payload_of b) rest.
Proof. exact spec_decode_enc. Qed.
Theorem C06_spec_prefix_truncated : forall b pre suf, wf_cbody b = true ->
  enc_chunked b = pre ++ suf -> suf <> [] -> spec_decode pre = Invalid Truncated.
Proof. exact spec_decode_prefix. Qed.
Print Assumptions C06_spec_generates.

(* --- Read: a valid encoding yields exactly the payload, then end-of-body --- *)
Theorem C06_chunked_read : forall lo st sizes p rest,
  spec_decode (lo ++ concat st) = Valid p rest -> positive sizes -> length p < length sizes ->
  result3 (read_all (new_chunked lo st) sizes []) = (p, AtEof).
Proof. exact chunked_read_valid. Qed.
Print Assumptions C06_chunked_read.
Theorem C06_fixed_read : forall lo st sizes n p rest,
  spec_fixed n (lo ++ concat st) = Valid p rest -> positive sizes -> length p < length sizes ->
  result3 (read_all (new_fixed lo st n) sizes []) = (p, AtEof).
Proof. exact fixed_read_valid. Qed.

(* --- Read: a truncated or malformed encoding never ends in a normal end-of-body --- *)
Theorem C06_chunked_read_invalid : forall lo st sizes w,
  spec_decode (lo ++ concat st) = Invalid w -> positive sizes ->
  snd (result3 (read_all (new_chunked lo st) sizes [])) <> AtEof.
Proof. exact chunked_read_invalid. Qed.
Print Assumptions C06_chunked_read_invalid.
Theorem C06_fixed_read_invalid : forall lo st sizes n w,
  spec_fixed n (lo ++ concat st) = Invalid w -> positive sizes ->
  snd (result3 (read_all (new_fixed lo st n) sizes [])) <> AtEof.
Proof. exact fixed_read_invalid. Qed.

(* --- BufRead: identical --- *)
Theorem C06_chunked_bufread : forall lo st amts p rest,
  spec_decode (lo ++ concat st) = Valid p rest -> positive amts -> length p < length amts ->
  result3 (bufread_all (new_chunked lo st) amts []) = (p, AtEof).
Proof. exact chunked_bufread_valid. Qed.
Print Assumptions C06_chunked_bufread.
Theorem C06_fixed_bufread : forall lo st amts n p rest,
  spec_fixed n (lo ++ concat st) = Valid p rest -> positive amts -> length p < length amts ->
  result3 (bufread_all (new_fixed lo st n) amts []) = (p, AtEof).
Proof. exact fixed_bufread_valid. Qed.
Theorem C06_chunked_bufread_invalid : forall lo st amts w,
  spec_decode (lo ++ concat st) = Invalid w -> positive amts ->
  snd (result3 (bufread_all (new_chunked lo st) amts [])) <> AtEof.
Proof. exact chunked_bufread_invalid. Qed.
Theorem C06_fixed_bufread_invalid : forall lo st amts n w,
  spec_fixed n (lo ++ concat st) = Invalid w -> positive amts ->
  snd (result3 (bufread_all (new_fixed lo st n) amts [])) <> AtEof.
Proof. exact fixed_bufread_invalid. Qed.

(* non-vacuity *)
Definition ex_body : cbody :=
  {| cb_chunks := [ {| k_size := bs "5"; k_ext := []; k_data := bs "hello" |};
                    {| k_size := bs "00B"; k_ext := bs ";x=1"; k_data := bs ", world" ++ [x0d; x0a; x30; x0d] |} ];
     cb_zeros := bs "0"; cb_ext := []; cb_trailers := [bs "X-T: v"] |}.
Example C06_ex_wf : wf_cbody ex_body = true. Proof. vm_compute. reflexivity. Qed.
Example C06_ex_read :
  result3 (read_all (new_chunked (firstn 7 (enc_chunked ex_body)) [skipn 7 (enc_chunked ex_body)]) [3; 1; 4096; 2; 7; 1; 1; 1; 1; 1; 1; 1; 1; 1; 1; 1; 1]%N [])
  = (payload_of ex_body, AtEof).
Proof. vm_compute. reflexivity. Qed.
Example C06_ex_cut_after_size_digit :
  (* "...\r\n0" cut out of "...\r\n05\r\nworld": not a complete body *)
  snd (result3 (read_all (new_chunked (bs "5" ++ [x0d;x0a] ++ bs "hello" ++ [x0d;x0a] ++ bs "0") []) [100; 100; 100]%N [])) = Failed EUnexpectedEof.
Proof. vm_compute. reflexivity. Qed.
Example C06_ex_plus_size :
  snd (result3 (read_all (new_chunked (bs "+5" ++ [x0d;x0a] ++ bs "hello" ++ [x0d;x0a] ++ bs "0" ++ [x0d;x0a;x0d;x0a]) []) [100; 100]%N [])) = Failed EInvalidData.
Proof. vm_compute. reflexivity. Qed.

(* --- both interfaces on ONE reader, in any interleaving, zero-sized requests included (Model/BodyOps.v: operations
   MRead k | MFill | MConsume n | MTake a; the driver [mrun0] records what every operation returned and stops at the first
   error; [delivered] = bytes returned by reads + bytes consumed after a fill_buf).  Proofs/BodyMixed.v *)
From KV Require Import Model.BodyOps Proofs.BodyMixed Proofs.BodyMixedPartial.

(* safety: whatever the caller does, what has been delivered is a prefix of the payload, no operation fails, and an empty read
   (k > 0) or an empty fill_buf slice is reported exactly when the whole payload has been delivered *)
Theorem C06_mixed_chunked_safe : forall lo st p rest ops pre ev post,
  spec_decode (lo ++ concat st) = Valid p rest ->
  mrun0 (new_chunked lo st) ops = pre ++ ev :: post ->
  prefix_of (delivered (pre ++ [ev])) p /\
  is_err ev = false /\
  (forall k out, ev = EvRead k out -> (0 < k)%N -> (out = [] <-> delivered pre = p)) /\
  (forall sl, ev = EvFill sl -> (sl = [] <-> delivered pre = p)) /\
  (forall n t, ev = EvConsume n t -> lenN t = n).
Proof. exact mixed_chunked_safe. Qed.
Print Assumptions C06_mixed_chunked_safe.
Theorem C06_mixed_fixed_safe : forall lo st n p rest ops pre ev post,
  spec_fixed n (lo ++ concat st) = Valid p rest ->
  mrun0 (new_fixed lo st n) ops = pre ++ ev :: post ->
  prefix_of (delivered (pre ++ [ev])) p /\
  is_err ev = false /\
  (forall k out, ev = EvRead k out -> (0 < k)%N -> (out = [] <-> delivered pre = p)) /\
  (forall sl, ev = EvFill sl -> (sl = [] <-> delivered pre = p)) /\
  (forall n t, ev = EvConsume n t -> lenN t = n).
Proof. exact mixed_fixed_safe. Qed.
Print Assumptions C06_mixed_fixed_safe.

(* the end, once reported, is reported by every later operation and nothing more is delivered *)
Theorem C06_mixed_chunked_sticky : forall lo st p rest ops pre ev post,
  spec_decode (lo ++ concat st) = Valid p rest ->
  mrun0 (new_chunked lo st) ops = pre ++ ev :: post -> is_end ev = true ->
  delivered pre = p /\ Forall quiet post.
Proof. exact mixed_chunked_sticky. Qed.
Theorem C06_mixed_fixed_sticky : forall lo st n p rest ops pre ev post,
  spec_fixed n (lo ++ concat st) = Valid p rest ->
  mrun0 (new_fixed lo st n) ops = pre ++ ev :: post -> is_end ev = true ->
  delivered pre = p /\ Forall quiet post.
Proof. exact mixed_fixed_sticky. Qed.

(* completeness: a caller that keeps asking (more asking operations than the payload is long, within the BufRead contract
   [mwf]: consume at most what fill_buf showed) gets the whole payload and then the end - mixed use loses nothing, repeats
   nothing and cannot get stuck *)
Theorem C06_mixed_chunked_complete : forall lo st p rest ops,
  spec_decode (lo ++ concat st) = Valid p rest ->
  mwf (mrun0 (new_chunked lo st) ops) -> (length p < asking_ops ops)%nat ->
  delivered (mrun0 (new_chunked lo st) ops) = p /\
  exists pre ev post, mrun0 (new_chunked lo st) ops = pre ++ ev :: post /\ is_end ev = true.
Proof. exact mixed_chunked_complete_ops. Qed.
Print Assumptions C06_mixed_chunked_complete.
Theorem C06_mixed_fixed_complete : forall lo st n p rest ops,
  spec_fixed n (lo ++ concat st) = Valid p rest ->
  mwf (mrun0 (new_fixed lo st n) ops) -> (length p < asking_ops ops)%nat ->
  delivered (mrun0 (new_fixed lo st n) ops) = p /\
  exists pre ev post, mrun0 (new_fixed lo st n) ops = pre ++ ev :: post /\ is_end ev = true.
Proof. exact mixed_fixed_complete_ops. Qed.
Print Assumptions C06_mixed_fixed_complete.

(* a cut or malformed encoding: no interleaving ever sees a normal end of body, and what is delivered before the error is a
   prefix of the data of the complete chunks (plus the bytes present of a cut chunk) *)
Theorem C06_mixed_chunked_invalid : forall lo st w ops e,
  spec_decode (lo ++ concat st) = Invalid w ->
  In e (mrun0 (new_chunked lo st) ops) -> is_end e = false.
Proof. exact mixed_chunked_invalid. Qed.
Theorem C06_mixed_fixed_invalid : forall lo st n w ops e,
  spec_fixed n (lo ++ concat st) = Invalid w ->
  In e (mrun0 (new_fixed lo st n) ops) -> is_end e = false.
Proof. exact mixed_fixed_invalid. Qed.
Theorem C06_mixed_chunked_partial : forall lo st ops, spec_decode (lo ++ concat st) <> Unspecified ->
  prefix_of (delivered (mrun0 (new_chunked lo st) ops)) (spec_partial (lo ++ concat st)).
Proof. exact mixed_chunked_partial. Qed.
Print Assumptions C06_mixed_chunked_invalid.
Print Assumptions C06_mixed_chunked_partial.

(* a zero-sized read (an empty caller buffer) on a fixed-length body returns nothing and changes nothing, in every state
   (repaired finding F38: it used to report the body as truncated) *)
Theorem C06_fixed_read0_ok : forall r, body_read 0 (BFixed r) = ROk [] (BFixed r).
Proof. exact fixed_read0_ok. Qed.

(* --- the client's CHOICE of decoder, for arbitrary responses (Spec/ResponseFraming.v: the decision over the raw field list of
   the accepted head, independent of the model's from_response; Proofs/ClientFraming.v).  For every response the parser
   accepts, every split of the bytes behind the head between buffer and stream segments, and every long enough sequence of
   positive read sizes: chunked -> the spec_decode payload, or a failure when the encoding is invalid; a declared length -> exactly
   that many bytes, or a failure when fewer arrive; neither -> everything up to the end of the stream. *)
From KV Require Import Model.Parser Model.Client Spec.HttpGrammar Spec.StatusGrammar Spec.ClSpec Spec.ResponseFraming Proofs.ClientRoundBase Proofs.ClientFraming.

Theorem C06_client_framing : forall wire r k stream sizes,
  parse_response wire = Ok r ->
  r_offset r <= k -> concat stream = skipn k wire ->
  positive_sizes sizes -> length (skipn (r_offset r) wire) < length sizes ->
  let raw := resp_raw_fields wire in
  let rest := skipn (r_offset r) wire in
  (exists sh, strict_status_head wire = Some (sh, r_offset r) /\
     r_version r = (if ss_minor sh then 1 else 0)%N /\ r_code r = ss_code sh /\ r_reason r = ss_reason sh) /\
  r_hdrs r = headers_of raw /\
  cl_consistent_rfc raw = true /\
  framing_clauses raw rest
    (fun p => client_receive_from (firstn k wire) stream sizes = Some (r_code r, r_reason r, r_hdrs r, p))
    (client_fails (firstn k wire) stream sizes).
Proof. exact client_framing. Qed.
Print Assumptions C06_client_framing.

(* --- a stream that fails transiently (Model/BodyIntr.v: the stream is a list of events, SData g | SIntr = one read fails with
   ErrorKind::Interrupted and consumes nothing; std's read_exact / read_until retry by themselves, Read::read and fill_buf pass
   the error on; a caller that retries takes one list entry per call).  Interruptions never lose, duplicate or reorder a byte
   and never turn a cut-short body into a complete one - for every placement of the interruptions (Proofs/BodyIntr.v; repaired
   finding F40: ChunkedReader::read dropped the bytes it had already delivered when a later read of the stream failed -
   Example f40_old_code_loses_bytes there runs the code before the repair).  On streams without SIntr the model is
   Model/Body.v (the embed_ lemmas). *)
From KV Require Import Model.BodyIntr Proofs.BodyIntr.

Theorem C06_intr_chunked_read : forall lo evs sizes p rest,
  spec_decode (lo ++ concat (strip evs)) = Valid p rest -> positive sizes ->
  length p + 1 * count_intr evs < length sizes ->
  fst (read_all_e (new_chunked_e lo evs) sizes []) = (p, AtEof).
Proof. exact intr_chunked_read_valid. Qed.
Print Assumptions C06_intr_chunked_read.
Theorem C06_intr_fixed_read : forall lo evs sizes n p rest,
  spec_fixed n (lo ++ concat (strip evs)) = Valid p rest -> positive sizes ->
  length p + 1 * count_intr evs < length sizes ->
  fst (read_all_e (new_fixed_e lo evs n) sizes []) = (p, AtEof).
Proof. exact intr_fixed_read_valid. Qed.
Theorem C06_intr_chunked_read_invalid : forall lo evs sizes w,
  spec_decode (lo ++ concat (strip evs)) = Invalid w -> positive sizes ->
  snd (fst (read_all_e (new_chunked_e lo evs) sizes [])) <> AtEof.
Proof. exact intr_chunked_read_invalid. Qed.
Theorem C06_intr_fixed_read_invalid : forall lo evs sizes n w,
  spec_fixed n (lo ++ concat (strip evs)) = Invalid w -> positive sizes ->
  snd (fst (read_all_e (new_fixed_e lo evs n) sizes [])) <> AtEof.
Proof. exact intr_fixed_read_invalid. Qed.
Theorem C06_intr_chunked_bufread : forall lo evs amts p rest,
  spec_decode (lo ++ concat (strip evs)) = Valid p rest -> positive amts ->
  length p + 1 * count_intr evs < length amts ->
  fst (bufread_all_e (new_chunked_e lo evs) amts []) = (p, AtEof).
Proof. exact intr_chunked_bufread_valid. Qed.
Theorem C06_intr_fixed_bufread : forall lo evs amts n p rest,
  spec_fixed n (lo ++ concat (strip evs)) = Valid p rest -> positive amts ->
  length p + 1 * count_intr evs < length amts ->
  fst (bufread_all_e (new_fixed_e lo evs n) amts []) = (p, AtEof).
Proof. exact intr_fixed_bufread_valid. Qed.
Theorem C06_intr_chunked_bufread_invalid : forall lo evs amts w,
  spec_decode (lo ++ concat (strip evs)) = Invalid w -> positive amts ->
  snd (fst (bufread_all_e (new_chunked_e lo evs) amts [])) <> AtEof.
Proof. exact intr_chunked_bufread_invalid. Qed.
Theorem C06_intr_fixed_bufread_invalid : forall lo evs amts n w,
  spec_fixed n (lo ++ concat (strip evs)) = Invalid w -> positive amts ->
  snd (fst (bufread_all_e (new_fixed_e lo evs n) amts [])) <> AtEof.
Proof. exact intr_fixed_bufread_invalid. Qed.
Print Assumptions C06_intr_fixed_read.
Print Assumptions C06_intr_chunked_read_invalid.
Print Assumptions C06_intr_chunked_bufread.
Print Assumptions C06_intr_fixed_bufread_invalid.
(* the extended model is the old one on streams that never fail *)
Theorem C06_intr_embeds_chunked : forall lo st sizes,
  fst (read_all_e (new_chunked_e lo (map SData st)) sizes []) = fst (read_all (new_chunked lo st) sizes []).
Proof. exact embed_chunked_read_result. Qed.
Theorem C06_intr_embeds_fixed : forall lo st n sizes,
  fst (read_all_e (new_fixed_e lo (map SData st) n) sizes []) = fst (read_all (new_fixed lo st n) sizes []).
Proof. exact embed_fixed_read_result. Qed.
Print Assumptions C06_intr_embeds_chunked.
