(* C12 — Route parameters are exactly the matched path segments.  Pinned statements only. *)
From KV Require Import Lib.Bytes Model.Router Spec.RouterSpec Proofs.Router.

(* the parameters handed over are the bindings of the *selected* pattern against this path:
   one (name, segment) pair per ":name" segment, in pattern order, and nothing else *)
Theorem C12_params : forall t m uri h ps, wf_table t = true -> match_route t m uri = Found h ps ->
  exists i pat, selected (routes_of t m) (path_segs uri) i pat h /\ ps = bindings pat (path_segs uri).
Proof. exact route_params. Qed.
Print Assumptions C12_params.

(* what [bindings] is: names in pattern order, each bound to the segment at the same position *)
Theorem C12_bindings_names : forall pat us, matches pat us ->
  map fst (bindings pat us) = param_names pat.
Proof. exact bindings_names. Qed.
Theorem C12_bindings_values : forall pat us k n, matches pat us -> nth_error pat k = Some (Param n) ->
  exists u, nth_error us k = Some u /\ In (n, u) (bindings pat us).
Proof. exact bindings_values. Qed.
Theorem C12_bindings_length : forall pat us, matches pat us ->
  length (bindings pat us) = length (param_names pat).
Proof. exact bindings_length. Qed.

(* routes without parameters receive none (the fallback carries none by construction of [rres]) *)
Theorem C12_no_params : forall pat us, param_names pat = [] -> bindings pat us = [].
Proof. exact bindings_none. Qed.
Print Assumptions C12_no_params.

Example C12_ex_late_fail :
  (* two parameterised candidates are tried and rejected late before the winner *)
  match_route [ (Std 0, bs "/:a/:b/x", 0%N); (Std 0, bs "/:c/:d/y", 1%N); (Std 0, bs "/:e/lit/:f", 2%N) ]
              (Std 0) (bs "/1/lit/3") = Found 2%N [(bs "e", bs "1"); (bs "f", bs "3")].
Proof. vm_compute. reflexivity. Qed.
Example C12_ex_loser_then_winner :
  match_route [ (Std 0, bs "/:a/:b", 0%N); (Std 0, bs "/:id/**", 1%N); (Std 0, bs "/users/:id", 2%N) ]
              (Std 0) (bs "/users/42") = Found 2%N [(bs "id", bs "42")].
Proof. vm_compute. reflexivity. Qed.
Example C12_ex_paramless_overtakes :
  match_route [ (Std 0, bs "/:a/:b", 0%N); (Std 0, bs "/files/*", 1%N) ] (Std 0) (bs "/files/readme") = Found 1%N [].
Proof. vm_compute. reflexivity. Qed.
