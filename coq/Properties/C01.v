(* C01 — Head parsers are total and memory-safe on arbitrary bytes.  Pinned statements only.
   [parse_request] / [parse_response] / [uri_*] are the checked-semantics models (Model/Parser.v):
   a [Fault] result stands for a panic, an out-of-bounds access or a non-ASCII &str. *)
From KV Require Import Lib.Bytes Lib.Swar Model.Headers Model.Parser Spec.Substr Proofs.SwarSpec Proofs.ParserSafe.

(* the word-at-a-time block tests find the first offending byte, for every 8-byte word *)
Theorem C01_swar_uri : forall bs, length bs = 8%nat -> Forall (fun b => (0 <= b < 256)%Z) bs ->
  offsetnz 8 (uri_hit 8 (word_of bs)) = find_first uri_bad bs.
Proof. intros bs H. apply uri_block_first_bad. exact H. Qed.
Theorem C01_swar_path : forall bs, length bs = 8%nat -> Forall (fun b => (0 <= b < 256)%Z) bs ->
  offsetnz 8 (path_hit 8 (word_of bs)) = find_first path_stop bs.
Proof. intros bs H. apply path_block_first_stop. exact H. Qed.
Print Assumptions C01_swar_uri.

(* hence the scanners equal their byte-at-a-time reading, for every input and every alignment *)
Theorem C01_scan_uri : forall l, match_uri_vectored l = uri_tail l.
Proof. exact match_uri_vectored_spec. Qed.
Theorem C01_scan_path : forall l, match_path_vectored l = path_tail l.
Proof. exact match_path_vectored_spec. Qed.
Print Assumptions C01_scan_uri.

(* total and memory-safe: no input makes either parser fault *)
Theorem C01_total : forall s,
  (forall f, parse_request s <> Fault f) /\ (forall f, parse_response s <> Fault f).
Proof. exact parsers_never_fault. Qed.
Print Assumptions C01_total.

(* an accepted request: ASCII text fields that are substrings of the input, offset within the input *)
Theorem C01_fields_request : forall s r, parse_request s = Ok r ->
  q_offset r <= length s /\
  forallb is_ascii (method_str (q_meth r)) = true /\ sublist (method_str (q_meth r)) s /\
  forallb is_ascii (full (q_target r)) = true /\ sublist (full (q_target r)) s /\
  Forall (fun nv => forallb is_ascii (fst nv) = true /\ sublist (fst nv) s /\ sublist (snd nv) s)
         (stored (q_hdrs r)).
Proof. exact request_fields_safe. Qed.
Print Assumptions C01_fields_request.

Theorem C01_fields_response : forall s r, parse_response s = Ok r ->
  r_offset r <= length s /\
  forallb is_ascii (r_reason r) = true /\ sublist (r_reason r) s /\
  Forall (fun nv => forallb is_ascii (fst nv) = true /\ sublist (fst nv) s /\ sublist (snd nv) s)
         (stored (r_hdrs r)).
Proof. exact response_fields_safe. Qed.
Print Assumptions C01_fields_response.

(* every accessor of a returned target is safe, and what it returns is a piece of the target *)
Theorem C01_accessors : forall s r, parse_request s = Ok r ->
  let u := q_target r in
  (exists p, uri_path u = Ok p /\ sublist p (full u)) /\
  (exists q, uri_query u = Ok q /\ match q with Some x => sublist x (full u) | None => True end) /\
  (exists q, uri_scheme u = Ok q /\ match q with Some x => sublist x (full u) | None => True end) /\
  (exists q, uri_authority u = Ok q /\ match q with Some x => sublist x (full u) | None => True end) /\
  (exists p, uri_path_and_query u = Ok p /\ sublist p (full u)).
Proof. exact accessors_safe. Qed.
Print Assumptions C01_accessors.

(* non-vacuity: concrete heads, evaluated *)
Definition path_is (s p : bytes) : bool :=
  match parse_request s with
  | Ok r => match uri_path (q_target r) with Ok x => bytes_eqb x p | _ => false end
  | _ => false
  end.
Definition authority_is (s a : bytes) : bool :=
  match parse_request s with
  | Ok r => match uri_authority (q_target r) with Ok (Some x) => bytes_eqb x a | _ => false end
  | _ => false
  end.
Example C01_ex_accept :
  path_is (bs "GET http://h:1/p?q HTTP/1.1" ++ [x0d;x0a] ++ bs "A: b" ++ [x0d;x0a;x0d;x0a]) (bs "/p") = true /\
  authority_is (bs "GET http://h:1/p?q HTTP/1.1" ++ [x0d;x0a] ++ bs "A: b" ++ [x0d;x0a;x0d;x0a]) (bs "h:1") = true.
Proof. split; vm_compute; reflexivity. Qed.
Example C01_ex_reject_high : parse_request (bs "GET /" ++ [xff; x01] ++ bs " HTTP/1.1" ++ [x0d;x0a;x0d;x0a]) = Err EStatus.
Proof. vm_compute. reflexivity. Qed.
Example C01_ex_slash_before_scheme :
  authority_is (bs "GET a/b://c HTTP/1.1" ++ [x0d;x0a;x0d;x0a]) (bs "a") = true.
Proof. vm_compute. reflexivity. Qed.
