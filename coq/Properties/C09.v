(* C09 — Connections persist or close exactly as signalled.  Pinned statements. *)
From KV Require Import Lib.Bytes Model.Headers Model.Parser Model.Body Model.Server
  Spec.HeaderStore Spec.HttpGrammar Proofs.ServerHead.

Definition rr_fuel (segs : list bytes) : nat := S (length segs) + length (concat segs).

(* a processed request: the connection is kept iff the handler succeeded, the request carried no
   close token, no response (now or earlier on this connection) carried one *)
Theorem C09_decision : forall a N ka segs buf r rest,
  read_request (rr_fuel segs) N [] segs = (RParsed buf r, rest) ->
  (te_present (q_hdrs r) && negb (te_final_chunked (q_hdrs r))) = false ->
  hook_of a r = HProceed ->
  let o := handle_one_request a N ka segs in
  o_keep o = (o_ok o && negb (connection_close (q_hdrs r)) && ka && negb (existsb rs_close (o_resps o))).
Proof. exact keep_decision. Qed.
Print Assumptions C09_decision.

(* when the pre-routing hook answers in place of the handler the same rule applies *)
Theorem C09_decision_hook : forall a N ka segs buf r rest,
  read_request (rr_fuel segs) N [] segs = (RParsed buf r, rest) ->
  (te_present (q_hdrs r) && negb (te_final_chunked (q_hdrs r))) = false ->
  hook_of a r <> HProceed ->
  let o := handle_one_request a N ka segs in
  o_keep o = (negb (connection_close (q_hdrs r)) && ka && negb (existsb rs_close (o_resps o))).
Proof. exact keep_decision_hook. Qed.

(* a rejected head (400 / 431) always carries connection: close and ends the connection *)
Theorem C09_rejected_closes : forall a N ka segs,
  (fst (read_request (rr_fuel segs) N [] segs) = RInvalid \/ fst (read_request (rr_fuel segs) N [] segs) = RTooLarge) ->
  let o := handle_one_request a N ka segs in
  o_keep o = false /\ forallb rs_close (o_resps o) = true /\ o_resps o <> [].
Proof. exact rejected_closes. Qed.
Print Assumptions C09_rejected_closes.

(* the close token: the cached flag of a parsed head is the token-wise reading of its Connection fields
   (case-insensitive, any position in comma lists, optional whitespace, repeated fields) *)
Theorem C09_token : forall fs,
  connection_close (headers_of fs) = eval_close (filter (fun f => negb (is_cl (fst f))) fs).
Proof. exact close_token. Qed.
Print Assumptions C09_token.

(* nothing further is read once the connection is not kept *)
Theorem C09_stops : forall fuel a N ka segs acc n,
  o_keep (handle_one_request a N ka segs) = false ->
  c_resps (handle_connection (S fuel) a N ka segs acc n) = acc ++ o_resps (handle_one_request a N ka segs) /\
  c_rest (handle_connection (S fuel) a N ka segs acc n) = o_rest (handle_one_request a N ka segs).
Proof. exact connection_stops. Qed.

Example C09_ex_token :
  eval_close [(bs "Connection", bs "keep-alive,	Close "); (bs "Host", bs "x")] = true /\
  eval_close [(bs "Connection", bs "closed"); (bs "X", bs "close")] = false.
Proof. vm_compute. split; reflexivity. Qed.
