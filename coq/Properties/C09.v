(* C09 — Connections persist or close exactly as signalled.  Pinned statements. *)
From KV Require Import Lib.Bytes Model.Headers Model.Parser Model.Body Model.Server
  Spec.HeaderStore Spec.HttpGrammar Spec.Framing Spec.ConnSpec Proofs.ServerHead Proofs.ServerConn.

Definition rr_fuel (segs : list bytes) : nat := S (length segs) + length (concat segs).

(* (fix F21) a fifth cause of closing: the end of the request's body could not be established.
   [located failed b] (Model/Server.v): the reader has seen no failed read and the discard of the unread rest of the
   body, when the reader [b] is dropped, reaches the end of the body.  [reader_after_handler]: what has become of the
   reader when the handler returns - whether one of the handler's reads failed, and the reader. *)
Definition read_failed {A} (res : A + ioerr) : bool := match res with inr _ => true | inl _ => false end.
Definition reader_after_handler (a : app) (r : request) (b : body) : bool * body :=
  match behaviour_of a r with
  | BAll | BFirst => let '(res, b') := read_to_end (body_fuel b) b [] in (read_failed res, b')
  | BReadK k => let '(res, b') := read_k (body_fuel b) k b [] in (read_failed res, b')
  | _ => (false, b)
  end.
Definition end_located (a : app) (r : request) (b : body) : bool :=
  let '(failed, b') := reader_after_handler a r b in located failed b'.

(* a processed request: the connection is kept iff the handler succeeded, the request carried no
   close token, no response (now or earlier on this connection) carried one, and the byte that follows
   the request's body has been located *)
Theorem C09_decision : forall a N ka segs buf r rest,
  read_request (rr_fuel segs) N [] segs = (RParsed buf r, rest) ->
  (te_present (q_hdrs r) && negb (te_final_chunked (q_hdrs r))) = false ->
  hook_of a r = HProceed ->
  let o := handle_one_request a N ka segs in
  o_keep o = (o_ok o && negb (connection_close (q_hdrs r)) && ka && negb (existsb rs_close (o_resps o)) &&
              end_located a r (from_request (skipn (q_offset r) buf) rest (q_hdrs r))).
Proof. exact keep_decision. Qed.
Print Assumptions C09_decision.

(* when the pre-routing hook answers in place of the handler the same rule applies (nothing of the body is read) *)
Theorem C09_decision_hook : forall a N ka segs buf r rest,
  read_request (rr_fuel segs) N [] segs = (RParsed buf r, rest) ->
  (te_present (q_hdrs r) && negb (te_final_chunked (q_hdrs r))) = false ->
  hook_of a r <> HProceed ->
  let o := handle_one_request a N ka segs in
  o_keep o = (negb (connection_close (q_hdrs r)) && ka && negb (existsb rs_close (o_resps o)) &&
              located false (from_request (skipn (q_offset r) buf) rest (q_hdrs r))).
Proof. exact keep_decision_hook. Qed.
Print Assumptions C09_decision_hook.

(* the fifth cause never applies to a well-framed request (head and body in segments of its own, whatever follows):
   the end of its body is located whatever the handler reads ... *)
Theorem C09_wellframed_located : forall a N reqsegs later r raw buf rest,
  parse_request (firstn N (concat reqsegs)) = Ok r ->
  raw = raw_fields (firstn N (concat reqsegs)) ->
  (exists payload, rfc_framing raw <> FReject /\
     view_body (rfc_framing raw) (skipn (q_offset r) (concat reqsegs)) = BodyOk payload []) ->
  read_request (rr_fuel (reqsegs ++ later)) N [] (reqsegs ++ later) = (RParsed buf r, rest) ->
  let b := from_request (skipn (q_offset r) buf) rest (q_hdrs r) in
  located false b = true /\ end_located a r b = true.
Proof. exact wellframed_located. Qed.
Print Assumptions C09_wellframed_located.

(* ... so that for well-framed requests the decision has exactly the four causes it had before the repair
   (whether the handler or the pre-routing hook answers: in the latter case [o_ok o = true]) *)
Theorem C09_decision_wellframed : forall a N ka reqsegs later r raw,
  parse_request (firstn N (concat reqsegs)) = Ok r ->
  raw = raw_fields (firstn N (concat reqsegs)) ->
  (exists payload, rfc_framing raw <> FReject /\
     view_body (rfc_framing raw) (skipn (q_offset r) (concat reqsegs)) = BodyOk payload []) ->
  let o := handle_one_request a N ka (reqsegs ++ later) in
  o_keep o = (o_ok o && negb (connection_close (q_hdrs r)) && ka && negb (existsb rs_close (o_resps o))).
Proof. exact keep_decision_wellframed. Qed.
Print Assumptions C09_decision_wellframed.

(* a rejected head (400 / 431) always carries connection: close and ends the connection *)
Theorem C09_rejected_closes : forall a N ka segs,
  (fst (read_request (rr_fuel segs) N [] segs) = RInvalid \/ fst (read_request (rr_fuel segs) N [] segs) = RTooLarge) ->
  let o := handle_one_request a N ka segs in
  o_keep o = false /\ forallb rs_close (o_resps o) = true /\ o_resps o <> [].
Proof. exact rejected_closes. Qed.
Print Assumptions C09_rejected_closes.

(* the close token: the cached flag of a parsed head is the token-wise reading of its Connection fields
   (case-insensitive, any position in comma lists, optional whitespace, repeated fields) *)
Theorem C09_token : forall fs,
  connection_close (headers_of fs) = eval_close (filter (fun f => negb (is_cl (fst f))) fs).
Proof. exact close_token. Qed.
Print Assumptions C09_token.

(* nothing further is read once the connection is not kept *)
Theorem C09_stops : forall fuel a N ka segs acc n,
  o_keep (handle_one_request a N ka segs) = false ->
  c_resps (handle_connection (S fuel) a N ka segs acc n) = acc ++ o_resps (handle_one_request a N ka segs) /\
  c_rest (handle_connection (S fuel) a N ka segs acc n) = o_rest (handle_one_request a N ka segs).
Proof. exact connection_stops. Qed.

Example C09_ex_token :
  eval_close [(bs "Connection", bs "keep-alive,	Close "); (bs "Host", bs "x")] = true /\
  eval_close [(bs "Connection", bs "closed"); (bs "X", bs "close")] = false.
Proof. vm_compute. split; reflexivity. Qed.
