(* Client round trip: what the printer writes (Model/Printer.v), the client's receive side
   (Model/Client.v: parse_response, BodyReader::from_response, read to the end) reads back as the
   same status code, reason phrase, header fields and body.
   The hypotheses are those of the C08 theorems (Spec/PrinterSpec.v: inputs_ok) plus the side
   conditions the response parser really needs (client_inputs_ok); the *_refuted lemmas at the end
   show with concrete witnesses that none of them can be dropped. *)
From KV Require Import Lib.Bytes Model.Headers Model.Parser Model.Body Model.Printer Model.Client
  Spec.HeaderStore Spec.ChunkedSpec Spec.MessageSpec Spec.PrinterSpec
  Proofs.Headers Proofs.BodySpec Proofs.PrinterRoundBase Proofs.PrinterRoundHead Proofs.PrinterRound
  Proofs.ClientRoundBase.
From KV Require Spec.HttpGrammar.

(* the side conditions of the receive side, on the inputs handed to the printer *)
Definition client_inputs_ok (reason : bytes) (fs : list (bytes * bytes)) (dv : bytes) : bool :=
  client_reason_ok reason && forallb client_field_ok fs.

(* ------------------------------------------------------------------ small facts *)
Lemma filter_neg_all {A} (p : A -> bool) l : filter p l = [] -> filter (fun x => negb (p x)) l = l.
Proof.
  induction l as [|a l IH]; intros H; [reflexivity|]. cbn [filter] in H |- *.
  destruct (p a); [discriminate H|]. cbn [negb]. rewrite (IH H). reflexivity.
Qed.

Lemma clf_filter X : filter (fun nv : bytes * bytes => eq_ic (fst nv) CONTENT_LENGTH) X = filter is_clf X.
Proof. apply filter_ext. intros a. apply eq_ic_same. Qed.

Lemma cl_consistent_none X : filter is_clf X = [] -> HttpGrammar.cl_consistent X = true.
Proof.
  intros H. unfold HttpGrammar.cl_consistent, HttpGrammar.cl_values. rewrite clf_filter, H. reflexivity.
Qed.

Lemma cl_consistent_one X n : filter is_clf X = [] -> (n < 2 ^ 64)%N ->
  HttpGrammar.cl_consistent (X ++ [(CLN, dec_of n)]) = true.
Proof.
  intros H Hn. unfold HttpGrammar.cl_consistent, HttpGrammar.cl_values.
  rewrite clf_filter, filter_app, H.
  change (filter is_clf [(CLN, dec_of n)]) with [(CLN, dec_of n)]. cbn [app map snd].
  rewrite parse_content_length_spec. unfold dec_of. rewrite (cl_value_u64 n Hn). reflexivity.
Qed.

Lemma ok_cl_field n : client_field_ok (CLN, dec_of n) = true.
Proof. vm_compute. reflexivity. Qed.

Lemma ok_date_field dv : client_field_ok (bs "date", dv) = true.
Proof. vm_compute. reflexivity. Qed.

Lemma ok_te_field : client_field_ok (TEN, bs "chunked") = true.
Proof. vm_compute. reflexivity. Qed.

(* ------------------------------------------------------------------ the three printed shapes *)
Section Shapes.
Variables (code : N) (reason : bytes) (dated : bool) (fs : list (bytes * bytes)) (dv : bytes).
Hypothesis Hc : (100 <= code <= 999)%N.
Hypothesis Hrk : client_reason_ok reason = true.
Hypothesis Hwf : wf_user_fields fs = true.
Hypothesis Hdv : wf_date_value dv = true.
Hypothesis Hfok : forallb client_field_ok fs = true.

Let S := shown_fields dated fs dv.

Lemma S_wf : forallb wf_field S = true.
Proof. destruct (wf_user_inv fs Hwf) as (H & _). apply shown_wf; assumption. Qed.

Lemma S_ok : forallb client_field_ok S = true.
Proof.
  unfold S, shown_fields. rewrite forallb_app, (forallb_filter _ _ fs Hfok).
  destruct dated; [|reflexivity]. cbn [forallb andb]. rewrite (ok_date_field dv). reflexivity.
Qed.

Lemma S_no_cl : filter is_clf S = [].
Proof. exact (shown_cl dated fs dv). Qed.

Lemma S_te : filter is_te S = filter is_te fs.
Proof. exact (shown_te dated fs dv). Qed.

(* what the receiver stores: the shown fields, then the framing field unless it is the content
   length (which Headers::add lifts into the collection's content_length, on both sides) *)
Lemma stored_received framing :
  stored (headers_of (S ++ framing)) = S ++ filter (fun f => negb (is_clf f)) framing.
Proof.
  destruct (headers_of_facts (S ++ framing)) as (F1 & _ & _).
  rewrite F1, filter_app, (filter_neg_all is_clf S S_no_cl). reflexivity.
Qed.

Lemma recv_cl_output n body : declared_chunked fs = false -> n = N.of_nat (length body) -> (n < 2 ^ 64)%N ->
  received (status_line code reason ++ flat_map render_field S ++ content_length_header n ++ PCRLF ++ PCRLF ++ body)
           (code, reason, headers_of (S ++ [(CLN, dec_of n)]), body).
Proof.
  intros Hdc Hn Hlt.
  destruct (declared_chunked_cases fs Hwf) as [(C & _)|(_ & HT)]; [congruence|].
  replace (status_line code reason ++ flat_map render_field S ++ content_length_header n ++ PCRLF ++ PCRLF ++ body)
    with (printed_head code reason (S ++ [(CLN, dec_of n)]) ++ body).
  2:{ unfold printed_head. rewrite render_fields_app. cbn [flat_map]. rewrite <- cl_line, !app_nil_r, <- !app_assoc.
      reflexivity. }
  apply received_of_shape; [|cbn [snd]; lia].
  intros pre stream sizes Hpre Hpos Hsz. cbn [snd] in Hsz.
  destruct (headers_of_facts (S ++ [(CLN, dec_of n)])) as (_ & F2 & F3).
  apply receive_cl; try assumption.
  - rewrite forallb_app, S_wf. cbn [forallb]. rewrite (wf_cl_field n Hlt). reflexivity.
  - rewrite forallb_app, S_ok. cbn [forallb]. rewrite (ok_cl_field n). reflexivity.
  - apply cl_consistent_one; [exact S_no_cl | exact Hlt].
  - rewrite F2, filter_app, S_te, HT. reflexivity.
  - rewrite F3, filter_app, S_no_cl.
    change (filter is_clf [(CLN, dec_of n)]) with [(CLN, dec_of n)]. cbn [app rev snd].
    unfold dec_of. rewrite (cl_value_u64 n Hlt), Hn. reflexivity.
Qed.

Lemma recv_te_output cs : declared_chunked fs = false ->
  Forall (fun c => c <> []) cs -> (N.of_nat (length (concat cs)) < 2 ^ 64)%N ->
  received (status_line code reason ++ flat_map render_field S ++ bs "transfer-encoding: chunked" ++ PCRLF ++ PCRLF ++
            flat_map Printer.chunk cs ++ LAST_CHUNK)
           (code, reason, headers_of (S ++ [(TEN, bs "chunked")]), concat cs).
Proof.
  intros Hdc Hne Hlt.
  destruct (declared_chunked_cases fs Hwf) as [(C & _)|(_ & HT)]; [congruence|].
  replace (status_line code reason ++ flat_map render_field S ++ bs "transfer-encoding: chunked" ++ PCRLF ++ PCRLF ++
           flat_map Printer.chunk cs ++ LAST_CHUNK)
    with (printed_head code reason (S ++ [(TEN, bs "chunked")]) ++ (flat_map Printer.chunk cs ++ LAST_CHUNK)).
  2:{ unfold printed_head. rewrite render_fields_app. cbn [flat_map]. rewrite <- te_line, !app_nil_r, <- !app_assoc.
      reflexivity. }
  apply received_of_shape; [|cbn [snd]; apply chunks_length].
  intros pre stream sizes Hpre Hpos Hsz. cbn [snd] in Hsz.
  destruct (headers_of_facts (S ++ [(TEN, bs "chunked")])) as (_ & F2 & _).
  apply receive_chunks; try assumption.
  - rewrite forallb_app, S_wf. cbn [forallb]. rewrite wf_te_field. reflexivity.
  - rewrite forallb_app, S_ok. cbn [forallb]. rewrite ok_te_field. reflexivity.
  - apply cl_consistent_none. rewrite filter_app, S_no_cl. reflexivity.
  - rewrite F2, filter_app, S_te, HT. vm_compute. reflexivity.
Qed.

Lemma recv_user_te_output cs : declared_chunked fs = true ->
  Forall (fun c => c <> []) cs -> (N.of_nat (length (concat cs)) < 2 ^ 64)%N ->
  received (status_line code reason ++ flat_map render_field S ++ PCRLF ++ flat_map Printer.chunk cs ++ LAST_CHUNK)
           (code, reason, headers_of (S ++ []), concat cs).
Proof.
  intros Hdc Hne Hlt.
  destruct (declared_chunked_cases fs Hwf) as [(_ & te & HT & Hv)|(C & _)]; [|congruence].
  rewrite app_nil_r.
  replace (status_line code reason ++ flat_map render_field S ++ PCRLF ++ flat_map Printer.chunk cs ++ LAST_CHUNK)
    with (printed_head code reason S ++ (flat_map Printer.chunk cs ++ LAST_CHUNK))
    by (unfold printed_head; rewrite <- !app_assoc; reflexivity).
  apply received_of_shape; [|cbn [snd]; apply chunks_length].
  intros pre stream sizes Hpre Hpos Hsz. cbn [snd] in Hsz.
  destruct (headers_of_facts S) as (_ & F2 & _).
  apply receive_chunks; try assumption.
  - exact S_wf.
  - exact S_ok.
  - apply cl_consistent_none. exact S_no_cl.
  - rewrite F2, S_te, HT. cbn [existsb]. rewrite (chunked_value_found _ Hv). reflexivity.
Qed.

(* ---- the body logic of write_response ---- *)
Let h := user_headers dated fs.

Lemma recv_with_body_declared pieces accepted d :
  declared_chunked fs = false -> declared_length fs = Some d -> (d <= N.of_nat (length (concat pieces)))%N ->
  received (out_of (with_body (status_line code reason) h (date_line dv) pieces accepted))
           (code, reason, headers_of (S ++ [(CLN, dec_of d)]), firstn (N.to_nat d) (concat pieces)).
Proof.
  intros Hdc Hdl Hle. pose proof (declared_length_lt fs d Hdl) as Hlt.
  destruct (user_headers_facts dated fs Hwf) as (_ & F2 & F3 & _). fold h in F2, F3.
  unfold with_body. rewrite F2, F3, Hdc, Hdl. unfold h. rewrite (head_fields_shown dated fs dv Hwf). fold S.
  pose proof (take_all_spec (reader_fuel pieces) (N.to_nat d) pieces [] (reader_fuel_measure pieces)) as TA.
  destruct (take_all (reader_fuel pieces) (N.to_nat d) pieces []) as [buf r2]. cbn [fst app] in TA. subst buf.
  assert (d = N.of_nat (length (firstn (N.to_nat d) (concat pieces)))) as Hlen.
  { rewrite firstn_length. lia. }
  destruct (d <=? N.of_nat PROBE_MAX)%N.
  - rewrite <- Hlen, N.eqb_refl. cbn [out_of]. rewrite PrinterRoundBase.vectored_independent, <- ?app_assoc.
    apply recv_cl_output; assumption.
  - rewrite <- Hlen, N.eqb_refl. cbn [out_of]. rewrite <- ?app_assoc.
    apply recv_cl_output; assumption.
Qed.

Lemma recv_with_body pieces accepted :
  (N.of_nat (length (concat pieces)) < 2 ^ 64)%N ->
  (declared_chunked fs = true \/ declared_length fs = None \/
   declared_length fs = Some (N.of_nat (length (concat pieces)))) ->
  exists framing,
    received (out_of (with_body (status_line code reason) h (date_line dv) pieces accepted))
             (code, reason, headers_of (S ++ framing), concat pieces)
    /\ framing_for fs (length (concat pieces)) framing.
Proof.
  intros Hlt Hdecl. unfold framing_for.
  destruct (declared_chunked fs) eqn:Hdc.
  - (* the user's own Transfer-Encoding: chunked *)
    exists []. destruct (user_headers_facts dated fs Hwf) as (_ & F2 & _ & _). fold h in F2.
    unfold with_body. rewrite F2, Hdc. unfold h. rewrite (head_fields_shown dated fs dv Hwf). fold S.
    destruct (write_chunked_spec (reader_fuel pieces) pieces (reader_fuel_measure pieces)) as (cs & W1 & W2 & W3).
    rewrite W1. cbn [out_of]. split; [|reflexivity].
    rewrite <- ?app_assoc, <- W2. apply recv_user_te_output; [exact Hdc | exact W3 | rewrite W2; exact Hlt].
  - destruct Hdecl as [C|[Hdl|Hdl]]; [discriminate C| |].
    + (* nothing declared: probe *)
      destruct (user_headers_facts dated fs Hwf) as (_ & F2 & F3 & _). fold h in F2, F3.
      unfold with_body. rewrite F2, F3, Hdc, Hdl. unfold h. rewrite (head_fields_shown dated fs dv Hwf). fold S.
      destruct (probe_body (reader_fuel pieces) pieces []) as [[prefix complete] r'] eqn:EP.
      destruct (probe_body_spec _ _ _ _ _ _ (reader_fuel_measure pieces) EP) as (P1 & P2 & P3).
      cbn [app] in P1. destruct complete.
      * exists [(CLN, dec_of (N.of_nat (length (concat pieces))))].
        rewrite (P2 eq_refl), app_nil_r in P1. subst prefix.
        cbn [out_of]. split; [|left; reflexivity].
        rewrite PrinterRoundBase.vectored_independent, <- ?app_assoc.
        apply recv_cl_output; [exact Hdc | reflexivity | exact Hlt].
      * exists [(TEN, bs "chunked")].
        destruct (write_chunked_spec (reader_fuel r') r' (reader_fuel_measure r')) as (cs & W1 & W2 & W3).
        rewrite W1. cbn [out_of]. split; [|right; split; reflexivity].
        assert (prefix <> []) as Hpne.
        { intros C. subst prefix. specialize (P3 eq_refl). cbn [length] in P3. pose proof PROBE_MAX_pos. lia. }
        replace (Printer.chunk prefix ++ flat_map Printer.chunk cs ++ LAST_CHUNK)
          with (flat_map Printer.chunk (prefix :: cs) ++ LAST_CHUNK)
          by (cbn [flat_map]; rewrite <- app_assoc; reflexivity).
        assert (concat (prefix :: cs) = concat pieces) as Hcc by (cbn [concat]; rewrite W2; symmetry; exact P1).
        rewrite <- ?app_assoc, <- Hcc. apply recv_te_output.
        -- exact Hdc.
        -- constructor; assumption.
        -- rewrite Hcc. exact Hlt.
    + (* the true length declared *)
      exists [(CLN, dec_of (N.of_nat (length (concat pieces))))].
      pose proof (recv_with_body_declared pieces accepted _ Hdc Hdl (N.le_refl _)) as D1.
      rewrite Nat2N.id, firstn_all in D1.
      split; [exact D1 | left; reflexivity].
Qed.

(* ---- fixed bodies ---- *)
Lemma recv_empty :
  exists framing,
    received (status_line code reason ++ head_fields h (date_line dv) ++
              (if Headers.chunked h then PCRLF ++ LAST_CHUNK else bs "content-length: 0" ++ PCRLF ++ PCRLF))
             (code, reason, headers_of (S ++ framing), [])
    /\ framing_for fs 0 framing.
Proof.
  destruct (user_headers_facts dated fs Hwf) as (_ & F2 & _ & _). fold h in F2.
  rewrite F2. unfold h. rewrite (head_fields_shown dated fs dv Hwf). fold S. unfold framing_for.
  destruct (declared_chunked fs) eqn:Hdc.
  - exists []. split; [|reflexivity].
    change (PCRLF ++ LAST_CHUNK) with (PCRLF ++ flat_map Printer.chunk [] ++ LAST_CHUNK).
    apply (recv_user_te_output [] Hdc); [constructor | vm_compute; reflexivity].
  - exists [(CLN, dec_of 0)]. split; [|left; reflexivity].
    change (bs "content-length: 0" ++ PCRLF ++ PCRLF) with (content_length_header 0 ++ PCRLF ++ PCRLF ++ []).
    apply (recv_cl_output 0 [] Hdc); [reflexivity | vm_compute; reflexivity].
Qed.

Lemma recv_bytes body accepted : (N.of_nat (length body) < 2 ^ 64)%N ->
  exists framing,
    received (out_of (
      if Headers.chunked h then
        WOk ((status_line code reason ++ head_fields h (date_line dv)) ++ PCRLF ++
             (match body with [] => [] | _ => Printer.chunk body end) ++ LAST_CHUNK)
      else
        WOk (write_vectored_bytes ((status_line code reason ++ head_fields h (date_line dv)) ++
               content_length_header (N.of_nat (length body)) ++ PCRLF ++ PCRLF) body accepted)))
      (code, reason, headers_of (S ++ framing), body)
    /\ framing_for fs (length body) framing.
Proof.
  intros Hlt.
  destruct (user_headers_facts dated fs Hwf) as (_ & F2 & _ & _). fold h in F2.
  rewrite F2. unfold h. rewrite (head_fields_shown dated fs dv Hwf). fold S. unfold framing_for.
  destruct (declared_chunked fs) eqn:Hdc; cbn [out_of].
  - exists []. split; [|reflexivity]. rewrite <- ?app_assoc.
    destruct body as [|b body].
    + change ([] ++ LAST_CHUNK) with (flat_map Printer.chunk [] ++ LAST_CHUNK).
      apply (recv_user_te_output [] Hdc); [constructor | vm_compute; reflexivity].
    + replace (Printer.chunk (b :: body) ++ LAST_CHUNK) with (flat_map Printer.chunk [b :: body] ++ LAST_CHUNK)
        by (cbn [flat_map]; rewrite app_nil_r; reflexivity).
      replace (b :: body) with (concat [b :: body]) at 2 by (cbn [concat]; apply app_nil_r).
      apply (recv_user_te_output [b :: body] Hdc).
      * constructor; [discriminate | constructor].
      * cbn [concat]. rewrite app_nil_r. exact Hlt.
  - exists [(CLN, dec_of (N.of_nat (length body)))]. split; [|left; reflexivity].
    rewrite PrinterRoundBase.vectored_independent, <- ?app_assoc.
    apply recv_cl_output; [exact Hdc | reflexivity | exact Hlt].
Qed.

End Shapes.

(* ------------------------------------------------------------------ the statements *)
Lemma client_inputs_inv reason fs dv : client_inputs_ok reason fs dv = true ->
  client_reason_ok reason = true /\ forallb client_field_ok fs = true.
Proof.
  unfold client_inputs_ok. intros H. apply andb_true_iff in H. exact H.
Qed.

(* [received] covers the one-read client_receive and every segmentation of the bytes behind the head *)
Theorem client_reads_response_bytes_segmented : forall code reason dated fs dv body accepted,
  inputs_ok code reason fs dv -> client_inputs_ok reason fs dv = true ->
  (N.of_nat (length body) < 2 ^ 64)%N ->
  exists r framing,
    received (out_of (write_response_bytes code reason (user_headers dated fs) (date_line dv) body accepted))
             (code, reason, r, body)
    /\ r = headers_of (shown_fields dated fs dv ++ framing)
    /\ stored r = shown_fields dated fs dv ++ filter (fun f => negb (is_clf f)) framing
    /\ framing_for fs (length body) framing.
Proof.
  intros code reason dated fs dv body accepted (Hc & _ & Hwf & Hdv) Hcl Hlt.
  destruct (client_inputs_inv reason fs dv Hcl) as (Hrk & Hfok).
  destruct (recv_bytes code reason dated fs dv Hc Hrk Hwf Hdv Hfok body accepted Hlt) as (framing & R & F).
  exists (headers_of (shown_fields dated fs dv ++ framing)), framing.
  split; [exact R|]. split; [reflexivity|]. split; [apply stored_received | exact F].
Qed.

Theorem client_reads_response_bytes : forall code reason dated fs dv body accepted,
  inputs_ok code reason fs dv -> client_inputs_ok reason fs dv = true ->
  (N.of_nat (length body) < 2 ^ 64)%N ->
  exists r framing,
    client_receive (out_of (write_response_bytes code reason (user_headers dated fs) (date_line dv) body accepted))
      = Some (code, reason, r, body)
    /\ r = headers_of (shown_fields dated fs dv ++ framing)
    /\ stored r = shown_fields dated fs dv ++ filter (fun f => negb (is_clf f)) framing
    /\ framing_for fs (length body) framing.
Proof.
  intros code reason dated fs dv body accepted Hin Hcl Hlt.
  destruct (client_reads_response_bytes_segmented code reason dated fs dv body accepted Hin Hcl Hlt)
    as (r & framing & (R & _) & E & St & F).
  exists r, framing. repeat split; assumption.
Qed.

Theorem client_reads_response_empty_segmented : forall code reason dated fs dv,
  inputs_ok code reason fs dv -> client_inputs_ok reason fs dv = true ->
  exists r framing,
    received (out_of (write_response_empty code reason (user_headers dated fs) (date_line dv)))
             (code, reason, r, [])
    /\ r = headers_of (shown_fields dated fs dv ++ framing)
    /\ stored r = shown_fields dated fs dv ++ filter (fun f => negb (is_clf f)) framing
    /\ framing_for fs 0 framing.
Proof.
  intros code reason dated fs dv (Hc & _ & Hwf & Hdv) Hcl.
  destruct (client_inputs_inv reason fs dv Hcl) as (Hrk & Hfok).
  destruct (recv_empty code reason dated fs dv Hc Hrk Hwf Hdv Hfok) as (framing & R & F).
  exists (headers_of (shown_fields dated fs dv ++ framing)), framing.
  unfold write_response_empty. cbn [out_of].
  split; [exact R|]. split; [reflexivity|]. split; [apply stored_received | exact F].
Qed.

Theorem client_reads_response_empty : forall code reason dated fs dv,
  inputs_ok code reason fs dv -> client_inputs_ok reason fs dv = true ->
  exists r framing,
    client_receive (out_of (write_response_empty code reason (user_headers dated fs) (date_line dv)))
      = Some (code, reason, r, [])
    /\ r = headers_of (shown_fields dated fs dv ++ framing)
    /\ stored r = shown_fields dated fs dv ++ filter (fun f => negb (is_clf f)) framing
    /\ framing_for fs 0 framing.
Proof.
  intros code reason dated fs dv Hin Hcl.
  destruct (client_reads_response_empty_segmented code reason dated fs dv Hin Hcl)
    as (r & framing & (R & _) & E & St & F).
  exists r, framing. repeat split; assumption.
Qed.

(* a reader delivering the body in arbitrary pieces; chunked declared, nothing declared, or the true length declared *)
Theorem client_reads_response_reader_segmented : forall code reason dated fs dv pieces accepted,
  inputs_ok code reason fs dv -> client_inputs_ok reason fs dv = true ->
  (N.of_nat (length (concat pieces)) < 2 ^ 64)%N ->
  (declared_chunked fs = true \/ declared_length fs = None \/ declared_length fs = Some (N.of_nat (length (concat pieces)))) ->
  exists r framing,
    received (out_of (write_response code reason (user_headers dated fs) (date_line dv) pieces accepted))
             (code, reason, r, concat pieces)
    /\ r = headers_of (shown_fields dated fs dv ++ framing)
    /\ stored r = shown_fields dated fs dv ++ filter (fun f => negb (is_clf f)) framing
    /\ framing_for fs (length (concat pieces)) framing.
Proof.
  intros code reason dated fs dv pieces accepted (Hc & _ & Hwf & Hdv) Hcl Hlt Hdecl.
  destruct (client_inputs_inv reason fs dv Hcl) as (Hrk & Hfok).
  destruct (recv_with_body code reason dated fs dv Hc Hrk Hwf Hdv Hfok pieces accepted Hlt Hdecl)
    as (framing & R & F).
  exists (headers_of (shown_fields dated fs dv ++ framing)), framing.
  split; [exact R|]. split; [reflexivity|]. split; [apply stored_received | exact F].
Qed.

Theorem client_reads_response_reader : forall code reason dated fs dv pieces accepted,
  inputs_ok code reason fs dv -> client_inputs_ok reason fs dv = true ->
  (N.of_nat (length (concat pieces)) < 2 ^ 64)%N ->
  (declared_chunked fs = true \/ declared_length fs = None \/ declared_length fs = Some (N.of_nat (length (concat pieces)))) ->
  exists r framing,
    client_receive (out_of (write_response code reason (user_headers dated fs) (date_line dv) pieces accepted))
      = Some (code, reason, r, concat pieces)
    /\ r = headers_of (shown_fields dated fs dv ++ framing)
    /\ stored r = shown_fields dated fs dv ++ filter (fun f => negb (is_clf f)) framing
    /\ framing_for fs (length (concat pieces)) framing.
Proof.
  intros code reason dated fs dv pieces accepted Hin Hcl Hlt Hdecl.
  destruct (client_reads_response_reader_segmented code reason dated fs dv pieces accepted Hin Hcl Hlt Hdecl)
    as (r & framing & (R & _) & E & St & F).
  exists r, framing. repeat split; assumption.
Qed.

(* a declared Content-Length shorter than what the reader holds: the client reads exactly the declared prefix *)
Theorem client_reads_declared_prefix : forall code reason dated fs dv pieces accepted d,
  inputs_ok code reason fs dv -> client_inputs_ok reason fs dv = true ->
  declared_chunked fs = false -> declared_length fs = Some d -> (d <= N.of_nat (length (concat pieces)))%N ->
  client_receive (out_of (write_response code reason (user_headers dated fs) (date_line dv) pieces accepted))
    = Some (code, reason, headers_of (shown_fields dated fs dv ++ [(bs "content-length", dec_of d)]),
            firstn (N.to_nat d) (concat pieces)).
Proof.
  intros code reason dated fs dv pieces accepted d (Hc & _ & Hwf & Hdv) Hcl Hdc Hdl Hle.
  destruct (client_inputs_inv reason fs dv Hcl) as (Hrk & Hfok).
  exact (proj1 (recv_with_body_declared code reason dated fs dv Hc Hrk Hwf Hdv Hfok pieces accepted d Hdc Hdl Hle)).
Qed.

(* ------------------------------------------------------------------ the side conditions cannot be dropped *)
(* Each witness satisfies the hypotheses of the C08 theorems (inputs_ok); the printer emits the
   response, and khttp's own client does not read it back. *)

(* a reason phrase outside HTAB / SP / VCHAR - here the UTF-8 string "Café", a legal &str for
   Status::owned - is printed as is and rejected by parse_response_status (MalformedStatusLine) *)
Lemma client_reason_refuted : exists code reason dated fs dv body accepted,
  inputs_ok code reason fs dv /\
  parse_response (out_of (write_response_bytes code reason (user_headers dated fs) (date_line dv) body accepted)) = Err EStatus /\
  client_receive (out_of (write_response_bytes code reason (user_headers dated fs) (date_line dv) body accepted)) = None.
Proof.
  exists 200%N, (bs "Caf" ++ [xc3; xa9]), false, [], (bs "Thu, 01 Jan 1970 00:00:00 GMT"), (bs "hello"), 0.
  split; [|split; vm_compute; reflexivity].
  unfold inputs_ok. repeat split; try (vm_compute; reflexivity); vm_compute; discriminate.
Qed.

(* a field name with a byte that is not a token character - here a space - is printed as is and
   rejected by parse_header_line (MalformedHeader) *)
Lemma client_field_name_refuted : exists code reason dated fs dv body accepted,
  inputs_ok code reason fs dv /\ client_reason_ok reason = true /\
  parse_response (out_of (write_response_bytes code reason (user_headers dated fs) (date_line dv) body accepted)) = Err EHeader /\
  client_receive (out_of (write_response_bytes code reason (user_headers dated fs) (date_line dv) body accepted)) = None.
Proof.
  exists 200%N, (bs "OK"), false, [(bs "my header", bs "v")], (bs "Thu, 01 Jan 1970 00:00:00 GMT"), (bs "hello"), 0.
  split; [|split; [|split]; vm_compute; reflexivity].
  unfold inputs_ok. repeat split; try (vm_compute; reflexivity); vm_compute; discriminate.
Qed.

(* a field value that starts with a form feed (not OWS, so printable for C08) is covered by the
   theorems above: parse_header_line strips only OWS, the form feed is read back *)
Example client_ex_formfeed_value :
  inputs_ok 200 (bs "OK") [(bs "x-note", x0c :: bs "v")] (bs "Thu, 01 Jan 1970 00:00:00 GMT") /\
  client_inputs_ok (bs "OK") [(bs "x-note", x0c :: bs "v")] (bs "Thu, 01 Jan 1970 00:00:00 GMT") = true /\
  match client_receive (out_of (write_response_bytes 200 (bs "OK") (user_headers false [(bs "x-note", x0c :: bs "v")])
                                  (date_line (bs "Thu, 01 Jan 1970 00:00:00 GMT")) (bs "hello") 0)) with
  | Some (code, reason, r, body) => Some (code, reason, stored r, content_length r, body)
  | None => None
  end = Some (200%N, bs "OK", [(bs "x-note", x0c :: bs "v")], Some 5%N, bs "hello").
Proof.
  split; [|split; vm_compute; reflexivity].
  unfold inputs_ok. repeat split; try (vm_compute; reflexivity); vm_compute; discriminate.
Qed.

(* the reason condition is exact: every printable reason phrase (no CR, LF) that violates it makes
   every response of the three entry points unreadable for the client *)
Lemma with_body_starts start h date r accepted :
  out_of (with_body start h date r accepted) = [] \/
  exists more, out_of (with_body start h date r accepted) = start ++ more.
Proof.
  unfold with_body. destruct (Headers.chunked h).
  - right. cbn [out_of]. eexists. reflexivity.
  - destruct (content_length h) as [cl|].
    + destruct (cl <=? N.of_nat PROBE_MAX)%N.
      * destruct (take_all (reader_fuel r) (N.to_nat cl) r []) as [buf r2].
        (* a reader shorter than a small declared length: an error, nothing written *)
        destruct (N.of_nat (length buf) =? cl)%N; cbn [out_of]; [right | left; reflexivity].
        rewrite PrinterRoundBase.vectored_independent, <- !app_assoc. eexists. reflexivity.
      * right. destruct (take_all (reader_fuel r) (N.to_nat cl) r []) as [data r2].
        destruct (N.of_nat (length data) =? cl)%N; cbn [out_of]; rewrite <- !app_assoc; eexists; reflexivity.
    + right. destruct (probe_body (reader_fuel r) r []) as [[prefix complete] r'].
      destruct complete; cbn [out_of].
      * rewrite PrinterRoundBase.vectored_independent, <- !app_assoc. eexists. reflexivity.
      * eexists. reflexivity.
Qed.

Lemma unparsed_not_received wire e : parse_response wire = Err e -> client_receive wire = None.
Proof. intros H. unfold client_receive, client_receive_from. rewrite H. reflexivity. Qed.

Theorem client_reason_needed : forall code reason h date,
  (100 <= code <= 999)%N -> no_crlf reason = true -> client_reason_ok reason = false ->
  (forall body accepted, client_receive (out_of (write_response_bytes code reason h date body accepted)) = None) /\
  client_receive (out_of (write_response_empty code reason h date)) = None /\
  (forall pieces accepted, client_receive (out_of (write_response code reason h date pieces accepted)) = None).
Proof.
  intros code reason h date Hc Hn Hr. split; [|split].
  - intros body accepted. apply (unparsed_not_received _ EStatus). unfold write_response_bytes.
    destruct (Headers.chunked h); cbn [out_of]; rewrite ?PrinterRoundBase.vectored_independent, <- !app_assoc;
      apply parse_bad_reason; assumption.
  - apply (unparsed_not_received _ EStatus). unfold write_response_empty. cbn [out_of].
    apply parse_bad_reason; assumption.
  - intros pieces accepted. unfold write_response.
    destruct (with_body_starts (status_line code reason) h date pieces accepted) as [E|[more E]]; rewrite E.
    + vm_compute. reflexivity.
    + apply (unparsed_not_received _ EStatus). apply parse_bad_reason; assumption.
Qed.

(* ------------------------------------------------------------------ the hypotheses are satisfiable *)
Example client_ex_inputs :
  inputs_ok 404 (bs "Not Found")
    [(bs "Content-Type", bs "text/plain; charset=utf-8"); (bs "X-Empty", []); (bs "Transfer-Encoding", bs "Chunked")]
    (bs "Thu, 01 Jan 1970 00:00:00 GMT") /\
  client_inputs_ok (bs "Not Found")
    [(bs "Content-Type", bs "text/plain; charset=utf-8"); (bs "X-Empty", []); (bs "Transfer-Encoding", bs "Chunked")]
    (bs "Thu, 01 Jan 1970 00:00:00 GMT") = true.
Proof.
  split; [|vm_compute; reflexivity].
  unfold inputs_ok. repeat split; try (vm_compute; reflexivity); vm_compute; discriminate.
Qed.

Example client_ex_inputs_length :
  inputs_ok 200 (bs "OK") [(bs "content-length", bs "5"); (bs "Server", bs "khttp")] (bs "Thu, 01 Jan 1970 00:00:00 GMT") /\
  client_inputs_ok (bs "OK") [(bs "content-length", bs "5"); (bs "Server", bs "khttp")] (bs "Thu, 01 Jan 1970 00:00:00 GMT") = true /\
  declared_length [(bs "content-length", bs "5"); (bs "Server", bs "khttp")] = Some (N.of_nat (length (concat [bs "hel"; []; bs "lo"]))).
Proof.
  split; [|split; vm_compute; reflexivity].
  unfold inputs_ok. repeat split; try (vm_compute; reflexivity); vm_compute; discriminate.
Qed.

(* the reader entry point with the user's own chunked declaration, pieces "hel" "" "lo" *)
Example client_ex_receive_chunked :
  match client_receive (out_of (write_response 404 (bs "Not Found")
          (user_headers true [(bs "Content-Type", bs "text/plain; charset=utf-8"); (bs "X-Empty", []);
                              (bs "Transfer-Encoding", bs "Chunked")])
          (date_line (bs "Thu, 01 Jan 1970 00:00:00 GMT")) [bs "hel"; []; bs "lo"] 3)) with
  | Some (code, reason, r, body) => Some (code, reason, stored r, content_length r, Headers.chunked r, body)
  | None => None
  end =
  Some (404%N, bs "Not Found",
        [(bs "Content-Type", bs "text/plain; charset=utf-8"); (bs "X-Empty", []); (bs "Transfer-Encoding", bs "Chunked");
         (bs "date", bs "Thu, 01 Jan 1970 00:00:00 GMT")],
        None, true, bs "hello").
Proof. vm_compute. reflexivity. Qed.

(* the bytes entry point: the content length is lifted into the collection, not stored *)
Example client_ex_receive_bytes :
  match client_receive (out_of (write_response_bytes 200 (bs "OK") (user_headers false [(bs "Server", bs "khttp")]) [] (bs "hello") 3)) with
  | Some (code, reason, r, body) => Some (code, reason, stored r, content_length r, Headers.chunked r, body)
  | None => None
  end = Some (200%N, bs "OK", [(bs "Server", bs "khttp")], Some 5%N, false, bs "hello").
Proof. vm_compute. reflexivity. Qed.

Print Assumptions client_reads_response_bytes.
Print Assumptions client_reads_response_empty.
Print Assumptions client_reads_response_reader.
Print Assumptions client_reads_response_bytes_segmented.
Print Assumptions client_reads_response_empty_segmented.
Print Assumptions client_reads_response_reader_segmented.
Print Assumptions client_reads_declared_prefix.
Print Assumptions client_reason_needed.
Print Assumptions client_reason_refuted.
Print Assumptions client_field_name_refuted.
