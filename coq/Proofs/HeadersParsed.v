(* C19, "and after parsing a head": the collection a parser reports is the result of an add-history, so the invariant of
   Proofs/Headers.v applies to it.  Uses C04 soundness (requests) and the response soundness theorem. *)
From Coq Require Import List.
Import ListNotations.
From KV Require Import Lib.Bytes Model.Headers Model.Parser Spec.HeaderStore Spec.HttpGrammar Spec.StatusGrammar
  Proofs.Headers Proofs.ParserSound Proofs.ResponseSound.

Definition add_ops (fs : list (bytes * bytes)) : list hop := map (fun nv => OAdd (fst nv) (snd nv)) fs.

Lemma fold_add_ops : forall fs h,
  fold_left (fun h nv => add h (fst nv) (snd nv)) fs h = fold_left hstep (add_ops fs) h.
Proof.
  induction fs as [|nv fs IH]; intro h; cbn [fold_left add_ops map]; [reflexivity|].
  rewrite IH. reflexivity.
Qed.

Lemma headers_of_hrun : forall fs, headers_of fs = hrun (add_ops fs).
Proof. intro fs. unfold headers_of, hrun. apply fold_add_ops. Qed.

Definition agrees (h : headers) (ops : list hop) : Prop :=
  stored h = spec_stored ops /\
  chunked h = eval_chunked (stored h) /\
  connection_close h = eval_close (stored h) /\
  content_length h = spec_cl ops.

Theorem parsed_request_headers_agree : forall s r, parse_request s = Ok r ->
  exists fs, q_hdrs r = hrun (add_ops fs) /\ agrees (q_hdrs r) (add_ops fs).
Proof.
  intros s r H. destruct (request_sound _ _ H) as (sh & _ & _ & _ & _ & Hh).
  exists (sfield_pairs (s_fields sh)). rewrite Hh, headers_of_hrun. split; [reflexivity|].
  exact (headers_inv (add_ops (sfield_pairs (s_fields sh)))).
Qed.

Theorem parsed_response_headers_agree : forall s r, parse_response s = Ok r ->
  exists fs, r_hdrs r = hrun (add_ops fs) /\ agrees (r_hdrs r) (add_ops fs).
Proof.
  intros s r H. destruct (response_sound _ _ H) as (sh & _ & _ & _ & _ & Hh).
  exists (sfield_pairs (ss_fields sh)). rewrite Hh, headers_of_hrun. split; [reflexivity|].
  exact (headers_inv (add_ops (sfield_pairs (ss_fields sh)))).
Qed.
