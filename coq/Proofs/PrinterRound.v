(* C08: every message the printer writes is read back by the strict decoder of Spec/MessageSpec.v as
   the start line, the user's fields (then the date), exactly one framing field, and the body. *)
From KV Require Import Lib.Bytes Model.Headers Model.Printer Spec.HeaderStore Spec.ChunkedSpec Spec.MessageSpec
  Spec.PrinterSpec Proofs.Headers Proofs.BodySpec Proofs.PrinterRoundBase Proofs.PrinterRoundHead.

Definition vectored_independent := PrinterRoundBase.vectored_independent.

Notation CLN := (bs "content-length").
Notation TEN := (bs "transfer-encoding").

(* ------------------------------------------------------------------ start lines *)
Lemma digit_nolf d : (d < 10)%N -> negb (Byte.eqb (n2b (48 + d)) x0a) = true.
Proof.
  intros Hd. destruct (is_digit_plain _ (digit_is_digit d Hd)) as (_ & _ & H). rewrite H. reflexivity.
Qed.

Lemma status_line_start code reason : (100 <= code <= 999)%N ->
  status_line code reason = response_start code reason ++ PCRLF.
Proof.
  intros Hc. unfold status_line, response_start, u16_to_ascii.
  assert (code / 100 < 10)%N as H1 by (apply N.div_lt_upper_bound; lia).
  rewrite (N.mod_small (code / 100) 256) by lia.
  rewrite <- !app_assoc. reflexivity.
Qed.

Lemma response_start_nolf code reason : (100 <= code <= 999)%N -> no_crlf reason = true ->
  nolf (response_start code reason) = true.
Proof.
  intros Hc Hr. unfold response_start.
  assert (code / 100 < 10)%N as H1 by (apply N.div_lt_upper_bound; lia).
  assert ((code / 10) mod 10 < 10)%N as H2 by (apply N.mod_lt; lia).
  assert (code mod 10 < 10)%N as H3 by (apply N.mod_lt; lia).
  rewrite !nolf_app, (no_crlf_nolf reason Hr). unfold nolf at 2. cbn [forallb].
  rewrite (digit_nolf _ H1), (digit_nolf _ H2), (digit_nolf _ H3). reflexivity.
Qed.

Lemma request_line_start method uri :
  method ++ [x20] ++ uri ++ [x20] ++ bs "HTTP/1.1" ++ PCRLF = request_start method uri ++ PCRLF.
Proof. unfold request_start. rewrite <- !app_assoc. reflexivity. Qed.

Lemma request_start_nolf method uri : no_crlf method = true -> no_crlf uri = true ->
  nolf (request_start method uri) = true.
Proof.
  intros Hm Hu. unfold request_start. rewrite !nolf_app, (no_crlf_nolf method Hm), (no_crlf_nolf uri Hu). reflexivity.
Qed.

(* ------------------------------------------------------------------ what the user declared *)
Lemma declared_chunked_cases fs : wf_user_fields fs = true ->
  (declared_chunked fs = true /\ exists te, filter is_te fs = [te] /\ same_name (snd te) (bs "chunked") = true) \/
  (declared_chunked fs = false /\ filter is_te fs = []).
Proof.
  intros Hwf. destruct (wf_user_inv fs Hwf) as (_ & [HT|(te & HT & Hv)] & _); unfold declared_chunked; rewrite HT.
  - right. split; reflexivity.
  - left. split; [reflexivity|]. exists te. split; [reflexivity | exact Hv].
Qed.

Lemma declared_length_lt fs d : declared_length fs = Some d -> (d < 2 ^ 64)%N.
Proof.
  unfold declared_length. destruct (filter is_clf fs) as [|cl [|cl2 l]]; try discriminate.
  apply cl_value_lt.
Qed.

Lemma filter_cl_cl v : filter (is_name CLN) [(CLN, v)] = [(CLN, v)].
Proof. reflexivity. Qed.
Lemma filter_te_cl v : filter (is_name TEN) [(CLN, v)] = [].
Proof. reflexivity. Qed.
Lemma filter_cl_te v : filter (is_name CLN) [(TEN, v)] = [].
Proof. reflexivity. Qed.
Lemma filter_te_te v : filter (is_name TEN) [(TEN, v)] = [(TEN, v)].
Proof. reflexivity. Qed.

(* ------------------------------------------------------------------ the three printed shapes *)
Section Shapes.
Variables (start : bytes) (dated : bool) (fs : list (bytes * bytes)) (dv : bytes).
Hypothesis Hstart : nolf start = true.
Hypothesis Hwf : wf_user_fields fs = true.
Hypothesis Hdv : wf_date_value dv = true.

Let S := shown_fields dated fs dv.

Lemma shown_ok : forallb wf_field S = true.
Proof. destruct (wf_user_inv fs Hwf) as (H & _). apply shown_wf; assumption. Qed.

Lemma decode_cl_output n body : declared_chunked fs = false -> n = N.of_nat (length body) -> (n < 2 ^ 64)%N ->
  decode_msg (start ++ PCRLF ++ flat_map render_field S ++ content_length_header n ++ PCRLF ++ PCRLF ++ body) =
    Some {| m_start := start; m_fields := S ++ [(CLN, dec_of n)]; m_body := body; m_rest := [] |}.
Proof.
  intros Hdc Hn Hlt.
  destruct (declared_chunked_cases fs Hwf) as [(C & _)|(_ & HT)]; [congruence|].
  replace (start ++ PCRLF ++ flat_map render_field S ++ content_length_header n ++ PCRLF ++ PCRLF ++ body)
    with (start ++ PCRLF ++ flat_map render_field (S ++ [(CLN, dec_of n)]) ++ PCRLF ++ body ++ []).
  2:{ rewrite render_fields_app. cbn [flat_map]. rewrite <- cl_line, !app_nil_r, <- !app_assoc. reflexivity. }
  apply (decode_with_length start _ CLN (dec_of n) n body []).
  - exact Hstart.
  - rewrite forallb_app, shown_ok. cbn [forallb]. rewrite (wf_cl_field n Hlt). reflexivity.
  - rewrite filter_app. unfold S. rewrite shown_cl, filter_cl_cl. reflexivity.
  - rewrite filter_app. unfold S. rewrite shown_te, HT, filter_te_cl. reflexivity.
  - apply cl_value_u64. exact Hlt.
  - exact Hn.
Qed.

Lemma decode_te_output cs : declared_chunked fs = false ->
  Forall (fun c => c <> []) cs -> (N.of_nat (length (concat cs)) < 2 ^ 64)%N ->
  decode_msg (start ++ PCRLF ++ flat_map render_field S ++ bs "transfer-encoding: chunked" ++ PCRLF ++ PCRLF ++
              flat_map Printer.chunk cs ++ LAST_CHUNK) =
    Some {| m_start := start; m_fields := S ++ [(TEN, bs "chunked")]; m_body := concat cs; m_rest := [] |}.
Proof.
  intros Hdc Hne Hlt.
  destruct (declared_chunked_cases fs Hwf) as [(C & _)|(_ & HT)]; [congruence|].
  replace (start ++ PCRLF ++ flat_map render_field S ++ bs "transfer-encoding: chunked" ++ PCRLF ++ PCRLF ++
           flat_map Printer.chunk cs ++ LAST_CHUNK)
    with (start ++ PCRLF ++ flat_map render_field (S ++ [(TEN, bs "chunked")]) ++ PCRLF ++
          (flat_map Printer.chunk cs ++ LAST_CHUNK) ++ []).
  2:{ rewrite render_fields_app. cbn [flat_map]. rewrite <- te_line, !app_nil_r, <- !app_assoc. reflexivity. }
  apply (decode_with_chunks start _ TEN (bs "chunked") cs []).
  - exact Hstart.
  - rewrite forallb_app, shown_ok. cbn [forallb]. rewrite wf_te_field. reflexivity.
  - rewrite filter_app. unfold S. rewrite shown_cl, filter_cl_te. reflexivity.
  - rewrite filter_app. unfold S. rewrite shown_te, HT, filter_te_te. reflexivity.
  - reflexivity.
  - exact Hne.
  - exact Hlt.
Qed.

Lemma decode_user_te_output cs : declared_chunked fs = true ->
  Forall (fun c => c <> []) cs -> (N.of_nat (length (concat cs)) < 2 ^ 64)%N ->
  decode_msg (start ++ PCRLF ++ flat_map render_field S ++ PCRLF ++ flat_map Printer.chunk cs ++ LAST_CHUNK) =
    Some {| m_start := start; m_fields := S ++ []; m_body := concat cs; m_rest := [] |}.
Proof.
  intros Hdc Hne Hlt.
  destruct (declared_chunked_cases fs Hwf) as [(_ & te & HT & Hv)|(C & _)]; [|congruence].
  replace (start ++ PCRLF ++ flat_map render_field S ++ PCRLF ++ flat_map Printer.chunk cs ++ LAST_CHUNK)
    with (start ++ PCRLF ++ flat_map render_field (S ++ []) ++ PCRLF ++ (flat_map Printer.chunk cs ++ LAST_CHUNK) ++ [])
    by (rewrite !app_nil_r; reflexivity).
  destruct te as [k v]. cbn [snd] in Hv.
  apply (decode_with_chunks start _ k v cs []).
  - exact Hstart.
  - rewrite app_nil_r. exact shown_ok.
  - rewrite app_nil_r. unfold S. apply shown_cl.
  - rewrite app_nil_r. unfold S. rewrite shown_te. exact HT.
  - exact Hv.
  - exact Hne.
  - exact Hlt.
Qed.

(* ---- the body logic shared by write_response and write_request ---- *)
Let h := user_headers dated fs.

Lemma with_body_declared pieces accepted d :
  declared_chunked fs = false -> declared_length fs = Some d -> (d <= N.of_nat (length (concat pieces)))%N ->
  decode_msg (out_of (with_body (start ++ PCRLF) h (date_line dv) pieces accepted)) =
    Some {| m_start := start; m_fields := S ++ [(CLN, dec_of d)];
            m_body := firstn (N.to_nat d) (concat pieces); m_rest := [] |} /\
  is_ok (with_body (start ++ PCRLF) h (date_line dv) pieces accepted) = true.
Proof.
  intros Hdc Hdl Hle. pose proof (declared_length_lt fs d Hdl) as Hlt.
  destruct (user_headers_facts dated fs Hwf) as (_ & F2 & F3 & _). fold h in F2, F3.
  unfold with_body. rewrite F2, F3, Hdc, Hdl. unfold h. rewrite (head_fields_shown dated fs dv Hwf). fold S.
  pose proof (take_all_spec (reader_fuel pieces) (N.to_nat d) pieces [] (reader_fuel_measure pieces)) as TA.
  destruct (take_all (reader_fuel pieces) (N.to_nat d) pieces []) as [buf r2]. cbn [fst app] in TA. subst buf.
  assert (d = N.of_nat (length (firstn (N.to_nat d) (concat pieces)))) as Hlen.
  { rewrite firstn_length. lia. }
  destruct (d <=? N.of_nat PROBE_MAX)%N.
  - rewrite <- Hlen, N.eqb_refl.
    cbn [out_of is_ok]. split; [|reflexivity]. rewrite PrinterRoundBase.vectored_independent, <- !app_assoc.
    apply decode_cl_output; assumption.
  - rewrite <- Hlen, N.eqb_refl. cbn [out_of is_ok]. split; [|reflexivity]. rewrite <- !app_assoc.
    apply decode_cl_output; assumption.
Qed.

Lemma with_body_roundtrip pieces accepted :
  (N.of_nat (length (concat pieces)) < 2 ^ 64)%N ->
  (declared_chunked fs = true \/ declared_length fs = None \/
   declared_length fs = Some (N.of_nat (length (concat pieces)))) ->
  exists framing,
    decode_msg (out_of (with_body (start ++ PCRLF) h (date_line dv) pieces accepted)) =
      Some {| m_start := start; m_fields := S ++ framing; m_body := concat pieces; m_rest := [] |}
    /\ framing_for fs (length (concat pieces)) framing
    /\ is_ok (with_body (start ++ PCRLF) h (date_line dv) pieces accepted) = true.
Proof.
  intros Hlt Hdecl. unfold framing_for.
  destruct (declared_chunked fs) eqn:Hdc.
  - (* the user's own Transfer-Encoding: chunked *)
    exists []. destruct (user_headers_facts dated fs Hwf) as (_ & F2 & _ & _). fold h in F2.
    unfold with_body. rewrite F2, Hdc. unfold h. rewrite (head_fields_shown dated fs dv Hwf). fold S.
    destruct (write_chunked_spec (reader_fuel pieces) pieces (reader_fuel_measure pieces)) as (cs & W1 & W2 & W3).
    rewrite W1. cbn [out_of is_ok]. split; [|split; reflexivity].
    rewrite <- !app_assoc, <- W2. apply decode_user_te_output; [exact Hdc | exact W3 | rewrite W2; exact Hlt].
  - destruct Hdecl as [C|[Hdl|Hdl]]; [discriminate C| |].
    + (* nothing declared: probe *)
      destruct (user_headers_facts dated fs Hwf) as (_ & F2 & F3 & _). fold h in F2, F3.
      unfold with_body. rewrite F2, F3, Hdc, Hdl. unfold h. rewrite (head_fields_shown dated fs dv Hwf). fold S.
      destruct (probe_body (reader_fuel pieces) pieces []) as [[prefix complete] r'] eqn:EP.
      destruct (probe_body_spec _ _ _ _ _ _ (reader_fuel_measure pieces) EP) as (P1 & P2 & P3).
      cbn [app] in P1. destruct complete.
      * exists [(CLN, dec_of (N.of_nat (length (concat pieces))))].
        rewrite (P2 eq_refl), app_nil_r in P1. subst prefix.
        cbn [out_of is_ok]. split; [|split; [left; reflexivity | reflexivity]].
        rewrite PrinterRoundBase.vectored_independent, <- !app_assoc.
        apply decode_cl_output; [exact Hdc | reflexivity | exact Hlt].
      * exists [(TEN, bs "chunked")].
        destruct (write_chunked_spec (reader_fuel r') r' (reader_fuel_measure r')) as (cs & W1 & W2 & W3).
        rewrite W1. cbn [out_of is_ok]. split; [|split; [right; split; reflexivity | reflexivity]].
        assert (prefix <> []) as Hpne.
        { intros C. subst prefix. specialize (P3 eq_refl). cbn [length] in P3. pose proof PROBE_MAX_pos. lia. }
        replace (Printer.chunk prefix ++ flat_map Printer.chunk cs ++ LAST_CHUNK)
          with (flat_map Printer.chunk (prefix :: cs) ++ LAST_CHUNK)
          by (cbn [flat_map]; rewrite <- app_assoc; reflexivity).
        assert (concat (prefix :: cs) = concat pieces) as Hcc by (cbn [concat]; rewrite W2; symmetry; exact P1).
        rewrite <- !app_assoc, <- Hcc. apply decode_te_output.
        -- exact Hdc.
        -- constructor; assumption.
        -- rewrite Hcc. exact Hlt.
    + (* the true length declared *)
      exists [(CLN, dec_of (N.of_nat (length (concat pieces))))].
      destruct (with_body_declared pieces accepted _ Hdc Hdl (N.le_refl _)) as [D1 D2].
      rewrite Nat2N.id, firstn_all in D1.
      split; [exact D1 | split; [left; reflexivity | exact D2]].
Qed.

Lemma with_body_short pieces accepted d :
  declared_chunked fs = false -> declared_length fs = Some d ->
  (N.of_nat (length (concat pieces)) < d)%N ->
  is_ok (with_body (start ++ PCRLF) h (date_line dv) pieces accepted) = false /\
  ((d <= N.of_nat PROBE_MAX)%N -> out_of (with_body (start ++ PCRLF) h (date_line dv) pieces accepted) = []).
Proof.
  intros Hdc Hdl Hshort.
  destruct (user_headers_facts dated fs Hwf) as (_ & F2 & F3 & _). fold h in F2, F3.
  unfold with_body. rewrite F2, F3, Hdc, Hdl.
  pose proof (take_all_spec (reader_fuel pieces) (N.to_nat d) pieces [] (reader_fuel_measure pieces)) as TA.
  destruct (take_all (reader_fuel pieces) (N.to_nat d) pieces []) as [data r2]. cbn [fst app] in TA. subst data.
  assert ((N.of_nat (length (firstn (N.to_nat d) (concat pieces))) =? d)%N = false) as E.
  { apply N.eqb_neq. rewrite firstn_length. lia. }
  rewrite E. destruct (N.leb_spec d (N.of_nat PROBE_MAX)) as [C|C]; cbn [is_ok out_of].
  - split; [reflexivity|]. intros _. reflexivity.
  - split; [reflexivity|]. intros C2. lia.
Qed.

(* ---- fixed bodies ---- *)
Lemma empty_output :
  exists framing,
    decode_msg (start ++ PCRLF ++ head_fields h (date_line dv) ++
                (if Headers.chunked h then PCRLF ++ LAST_CHUNK else bs "content-length: 0" ++ PCRLF ++ PCRLF)) =
      Some {| m_start := start; m_fields := S ++ framing; m_body := []; m_rest := [] |}
    /\ framing_for fs 0 framing.
Proof.
  destruct (user_headers_facts dated fs Hwf) as (_ & F2 & _ & _). fold h in F2.
  rewrite F2. unfold h. rewrite (head_fields_shown dated fs dv Hwf). fold S. unfold framing_for.
  destruct (declared_chunked fs) eqn:Hdc.
  - exists []. split; [|reflexivity].
    change (PCRLF ++ LAST_CHUNK) with (PCRLF ++ flat_map Printer.chunk [] ++ LAST_CHUNK).
    apply (decode_user_te_output [] Hdc); [constructor | vm_compute; reflexivity].
  - exists [(CLN, dec_of 0)]. split; [|left; reflexivity].
    change (bs "content-length: 0" ++ PCRLF ++ PCRLF) with (content_length_header 0 ++ PCRLF ++ PCRLF ++ []).
    apply (decode_cl_output 0 [] Hdc); [reflexivity | vm_compute; reflexivity].
Qed.

Lemma bytes_output body accepted : (N.of_nat (length body) < 2 ^ 64)%N ->
  exists framing,
    decode_msg (out_of (
      if Headers.chunked h then
        WOk ((start ++ PCRLF ++ head_fields h (date_line dv)) ++ PCRLF ++
             (match body with [] => [] | _ => Printer.chunk body end) ++ LAST_CHUNK)
      else
        WOk (write_vectored_bytes ((start ++ PCRLF ++ head_fields h (date_line dv)) ++
               content_length_header (N.of_nat (length body)) ++ PCRLF ++ PCRLF) body accepted))) =
      Some {| m_start := start; m_fields := S ++ framing; m_body := body; m_rest := [] |}
    /\ framing_for fs (length body) framing.
Proof.
  intros Hlt.
  destruct (user_headers_facts dated fs Hwf) as (_ & F2 & _ & _). fold h in F2.
  rewrite F2. unfold h. rewrite (head_fields_shown dated fs dv Hwf). fold S. unfold framing_for.
  destruct (declared_chunked fs) eqn:Hdc; cbn [out_of].
  - exists []. split; [|reflexivity]. rewrite <- !app_assoc.
    destruct body as [|b body].
    + change ([] ++ LAST_CHUNK) with (flat_map Printer.chunk [] ++ LAST_CHUNK).
      apply (decode_user_te_output [] Hdc); [constructor | vm_compute; reflexivity].
    + replace (Printer.chunk (b :: body) ++ LAST_CHUNK) with (flat_map Printer.chunk [b :: body] ++ LAST_CHUNK)
        by (cbn [flat_map]; rewrite app_nil_r; reflexivity).
      rewrite (decode_user_te_output [b :: body] Hdc).
      * cbn [concat]. rewrite !app_nil_r. reflexivity.
      * constructor; [discriminate | constructor].
      * cbn [concat]. rewrite app_nil_r. exact Hlt.
  - exists [(CLN, dec_of (N.of_nat (length body)))]. split; [|left; reflexivity].
    rewrite PrinterRoundBase.vectored_independent, <- !app_assoc.
    apply decode_cl_output; [exact Hdc | reflexivity | exact Hlt].
Qed.

End Shapes.

(* ------------------------------------------------------------------ the pinned statements *)
Theorem empty_roundtrip : forall code reason dated fs dv,
  ((100 <= code <= 999)%N /\ no_crlf reason = true /\ wf_user_fields fs = true /\ wf_date_value dv = true) ->
  exists framing,
    decode_msg (out_of (write_response_empty code reason (user_headers dated fs) (date_line dv))) =
      Some {| m_start := response_start code reason; m_fields := shown_fields dated fs dv ++ framing; m_body := []; m_rest := [] |}
    /\ framing_for fs 0 framing.
Proof.
  intros code reason dated fs dv (Hc & Hr & Hwf & Hdv).
  unfold write_response_empty. cbn [out_of]. rewrite (status_line_start code reason Hc), <- !app_assoc.
  apply (empty_output (response_start code reason) dated fs dv (response_start_nolf code reason Hc Hr) Hwf Hdv).
Qed.

Theorem bytes_roundtrip : forall code reason dated fs dv body accepted,
  ((100 <= code <= 999)%N /\ no_crlf reason = true /\ wf_user_fields fs = true /\ wf_date_value dv = true) ->
  (N.of_nat (length body) < 2 ^ 64)%N ->
  exists framing,
    decode_msg (out_of (write_response_bytes code reason (user_headers dated fs) (date_line dv) body accepted)) =
      Some {| m_start := response_start code reason; m_fields := shown_fields dated fs dv ++ framing; m_body := body; m_rest := [] |}
    /\ framing_for fs (length body) framing.
Proof.
  intros code reason dated fs dv body accepted (Hc & Hr & Hwf & Hdv) Hlt.
  unfold write_response_bytes. rewrite (status_line_start code reason Hc).
  rewrite <- (app_assoc (response_start code reason) PCRLF).
  apply (bytes_output (response_start code reason) dated fs dv (response_start_nolf code reason Hc Hr) Hwf Hdv
           body accepted Hlt).
Qed.

Theorem reader_roundtrip : forall code reason dated fs dv pieces accepted,
  ((100 <= code <= 999)%N /\ no_crlf reason = true /\ wf_user_fields fs = true /\ wf_date_value dv = true) ->
  (N.of_nat (length (concat pieces)) < 2 ^ 64)%N ->
  (declared_chunked fs = true \/ declared_length fs = None \/ declared_length fs = Some (N.of_nat (length (concat pieces)))) ->
  exists framing,
    decode_msg (out_of (write_response code reason (user_headers dated fs) (date_line dv) pieces accepted)) =
      Some {| m_start := response_start code reason; m_fields := shown_fields dated fs dv ++ framing;
              m_body := concat pieces; m_rest := [] |}
    /\ framing_for fs (length (concat pieces)) framing
    /\ is_ok (write_response code reason (user_headers dated fs) (date_line dv) pieces accepted) = true.
Proof.
  intros code reason dated fs dv pieces accepted (Hc & Hr & Hwf & Hdv) Hlt Hdecl.
  unfold write_response. rewrite (status_line_start code reason Hc).
  apply (with_body_roundtrip (response_start code reason) dated fs dv (response_start_nolf code reason Hc Hr) Hwf Hdv
           pieces accepted Hlt Hdecl).
Qed.

Theorem declared_not_exceeded : forall code reason dated fs dv pieces accepted d,
  ((100 <= code <= 999)%N /\ no_crlf reason = true /\ wf_user_fields fs = true /\ wf_date_value dv = true) ->
  declared_chunked fs = false -> declared_length fs = Some d -> (d <= N.of_nat (length (concat pieces)))%N ->
  decode_msg (out_of (write_response code reason (user_headers dated fs) (date_line dv) pieces accepted)) =
    Some {| m_start := response_start code reason;
            m_fields := shown_fields dated fs dv ++ [(bs "content-length", dec_of d)];
            m_body := firstn (N.to_nat d) (concat pieces); m_rest := [] |}.
Proof.
  intros code reason dated fs dv pieces accepted d (Hc & Hr & Hwf & Hdv) Hdc Hdl Hle.
  unfold write_response. rewrite (status_line_start code reason Hc).
  apply (with_body_declared (response_start code reason) dated fs dv (response_start_nolf code reason Hc Hr) Hwf Hdv
           pieces accepted d Hdc Hdl Hle).
Qed.

Theorem declared_short_error : forall code reason dated fs dv pieces accepted d,
  ((100 <= code <= 999)%N /\ no_crlf reason = true /\ wf_user_fields fs = true /\ wf_date_value dv = true) ->
  declared_chunked fs = false -> declared_length fs = Some d ->
  (N.of_nat (length (concat pieces)) < d)%N ->
  is_ok (write_response code reason (user_headers dated fs) (date_line dv) pieces accepted) = false.
Proof.
  intros code reason dated fs dv pieces accepted d (Hc & Hr & Hwf & Hdv) Hdc Hdl Hshort.
  unfold write_response. rewrite (status_line_start code reason Hc).
  apply (with_body_short (response_start code reason) dated fs dv Hwf pieces accepted d Hdc Hdl Hshort).
Qed.

(* ... and when the declared length is small (at most PROBE_MAX, the body is collected before the head is written)
   nothing at all reaches the wire *)
Theorem declared_short_error_small : forall code reason dated fs dv pieces accepted d,
  ((100 <= code <= 999)%N /\ no_crlf reason = true /\ wf_user_fields fs = true /\ wf_date_value dv = true) ->
  declared_chunked fs = false -> declared_length fs = Some d -> (d <= N.of_nat PROBE_MAX)%N ->
  (N.of_nat (length (concat pieces)) < d)%N ->
  is_ok (write_response code reason (user_headers dated fs) (date_line dv) pieces accepted) = false /\
  out_of (write_response code reason (user_headers dated fs) (date_line dv) pieces accepted) = [].
Proof.
  intros code reason dated fs dv pieces accepted d (Hc & Hr & Hwf & Hdv) Hdc Hdl Hsmall Hshort.
  unfold write_response. rewrite (status_line_start code reason Hc).
  destruct (with_body_short (response_start code reason) dated fs dv Hwf pieces accepted d Hdc Hdl Hshort) as [A B].
  split; [exact A | exact (B Hsmall)].
Qed.

Theorem request_declared_short_error : forall method uri dated fs dv pieces accepted d,
  wf_user_fields fs = true ->
  declared_chunked fs = false -> declared_length fs = Some d ->
  (N.of_nat (length (concat pieces)) < d)%N ->
  is_ok (write_request method uri (user_headers dated fs) (date_line dv) pieces accepted) = false /\
  ((d <= N.of_nat PROBE_MAX)%N ->
   out_of (write_request method uri (user_headers dated fs) (date_line dv) pieces accepted) = []).
Proof.
  intros method uri dated fs dv pieces accepted d Hwf Hdc Hdl Hshort.
  unfold write_request. rewrite request_line_start.
  apply (with_body_short (request_start method uri) dated fs dv Hwf pieces accepted d Hdc Hdl Hshort).
Qed.

Theorem request_roundtrip : forall method uri dated fs dv pieces accepted,
  no_crlf method = true -> no_crlf uri = true -> wf_user_fields fs = true -> wf_date_value dv = true ->
  (N.of_nat (length (concat pieces)) < 2 ^ 64)%N ->
  (declared_chunked fs = true \/ declared_length fs = None \/ declared_length fs = Some (N.of_nat (length (concat pieces)))) ->
  exists framing,
    decode_msg (out_of (write_request method uri (user_headers dated fs) (date_line dv) pieces accepted)) =
      Some {| m_start := request_start method uri; m_fields := shown_fields dated fs dv ++ framing;
              m_body := concat pieces; m_rest := [] |}
    /\ framing_for fs (length (concat pieces)) framing.
Proof.
  intros method uri dated fs dv pieces accepted Hm Hu Hwf Hdv Hlt Hdecl.
  unfold write_request. rewrite request_line_start.
  destruct (with_body_roundtrip (request_start method uri) dated fs dv (request_start_nolf method uri Hm Hu) Hwf Hdv
              pieces accepted Hlt Hdecl) as (framing & D1 & D2 & _).
  exists framing. split; assumption.
Qed.
