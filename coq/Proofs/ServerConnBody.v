(* C07, body layer: a body reader positioned on a valid encoding that ends exactly where [later]
   begins ([VB]): every read, read_to_end, read_k and the drain on drop behave over the stream followed
   by [later] as over the stream alone, deliver the payload, and leave [later] untouched. *)
From KV Require Import Lib.Bytes Lib.Utf8 Model.Headers Model.Parser Model.Body Model.Server
  Spec.ChunkedSpec Spec.Framing Spec.ConnSpec
  Proofs.BodyBase Proofs.BodyBaseChunk Proofs.BodyRead Proofs.ServerConnBase Proofs.ServerConnSrc.

Local Open Scope N_scope.

(* ------------------------------------------------------------------ payload length <= encoding length *)
Lemma decU_len n : forall l acc p rest, (length l <= n)%nat -> decU l acc = Valid p rest ->
  (length p <= length acc + length l)%nat.
Proof.
  induction n as [|n IH]; intros l acc p rest Hn H.
  - destruct l; [|cbn [length] in Hn; lia]. vm_compute in H. discriminate.
  - rewrite decU_unfold in H.
    destruct (line_crlf l) as [[[line|] r]|] eqn:Elc.
    + pose proof (line_crlf_shorter _ _ _ Elc) as Hsh.
      destruct (take_while hexdig line) as [sz ext] eqn:Etw.
      rewrite (dec_step_line decU l acc line r sz ext Elc Etw) in H.
      destruct (nonempty sz && ext_ok ext); [|discriminate].
      unfold size_good in H. destruct (negb (wf_ext ext)); [discriminate|].
      destruct (negb (hex_value sz <? 2 ^ 64)); [discriminate|].
      destruct (hex_value sz =? 0).
      * apply trailers_res_prefix in H. subst p. lia.
      * unfold data_res in H. destruct (take_n (hex_value sz) r) as [[d a]|] eqn:Et; [|discriminate].
        apply take_n_some in Et. destruct Et as [Et _].
        destruct (after_data_cases decU a (acc ++ d)) as [[r' [E1 E2]]|[N1 [w E2]]]; rewrite E2 in H; [|discriminate].
        apply IH in H.
        -- rewrite app_length in H. subst r a. rewrite app_length in Hsh. cbn [length] in Hsh. lia.
        -- subst r a. rewrite app_length in Hsh. cbn [length] in Hsh. lia.
    + unfold dec_step in H. rewrite Elc in H. discriminate.
    + destruct (dec_step_noline decU l acc Elc) as [w Hw]. rewrite Hw in H. discriminate.
Qed.

Lemma after_data_len a acc p rest : after_data decU a acc = Valid p rest ->
  (length p <= length acc + length a)%nat.
Proof.
  intros H. destruct (after_data_cases decU a acc) as [[r' [E1 E2]]|[N1 [w E2]]]; rewrite E2 in H; [|discriminate].
  apply (decU_len (length r')) in H; [|lia]. subst a. cbn [length]. lia.
Qed.

Lemma st_dec_len c acc p rest : st_dec c acc = Valid p rest ->
  (length p <= length acc + length (reach (c_src c)))%nat.
Proof.
  unfold st_dec. destruct (c_state c); cbv zeta; intros H.
  - exact (decU_len _ _ _ _ _ (le_n _) H).
  - unfold data_res in H. destruct (take_n (c_remaining c) (reach (c_src c))) as [[d a]|] eqn:Et; [|discriminate].
    apply take_n_some in Et. destruct Et as [Et _]. apply after_data_len in H.
    rewrite Et, !app_length in *. lia.
  - exact (after_data_len _ _ _ _ H).
  - apply trailers_res_prefix in H. subst p. lia.
  - inversion H. lia.
Qed.

(* ------------------------------------------------------------------ output of one chunked read *)
Lemma chunked_loop_len fuel : forall k c written out c', chunked_read_loop fuel k c written = ROk out c' ->
  exists more, out = written ++ more /\ lenN more <= k /\
    (length (reach (c_src c')) + length more <= length (reach (c_src c)))%nat.
Proof.
  induction fuel as [|fuel IH]; intros k c written out c' H.
  - cbn [chunked_read_loop] in H. inversion H. exists []. rewrite app_nil_r, lenN_nil. cbn [length].
    split; [reflexivity|]. split; lia.
  - cbn [chunked_read_loop] in H.
    pose proof (advance_R (adv_fuel c) c) as HA.
    destruct (advance (adv_fuel c) c) as [o c1|e c1]; [|discriminate]. cbn [rst] in HA. destruct HA as [_ HA].
    assert (Hstop : ROk written c1 = ROk out c' -> exists more, out = written ++ more /\ lenN more <= k /\
                      (length (reach (c_src c')) + length more <= length (reach (c_src c)))%nat).
    { intros E. inversion E. subst. exists []. rewrite app_nil_r, lenN_nil. cbn [length].
      split; [reflexivity|]. split; lia. }
    assert (Hgo : (if k =? 0 then ROk written c1
                   else let '(o2, s') := buf_read (N.min (c_remaining c1) k) (c_src c1) in
                        match o2 with
                        | [] => RErr EUnexpectedEof {| c_src := s'; c_state := c_state c1; c_remaining := c_remaining c1 |}
                        | _ => if (c_remaining c1 - lenN o2 =? 0) || (k - lenN o2 =? 0)
                               then ROk (written ++ o2) {| c_src := s'; c_state := c_state c1; c_remaining := c_remaining c1 - lenN o2 |}
                               else chunked_read_loop fuel (k - lenN o2) {| c_src := s'; c_state := c_state c1; c_remaining := c_remaining c1 - lenN o2 |} (written ++ o2)
                        end) = ROk out c' -> exists more, out = written ++ more /\ lenN more <= k /\
                      (length (reach (c_src c')) + length more <= length (reach (c_src c)))%nat).
    { destruct (k =? 0); [exact Hstop|].
      destruct (buf_read (N.min (c_remaining c1) k) (c_src c1)) as [o2 s'] eqn:Ebr.
      apply buf_read_spec in Ebr. destruct Ebr as [B1 [B2 _]].
      destruct o2 as [|x o2]; [discriminate|]. remember (x :: o2) as O eqn:EO.
      rewrite B1, app_length in HA.
      destruct ((c_remaining c1 - lenN O =? 0) || (k - lenN O =? 0)).
      - intros E. inversion E. subst out c'. exists O. cbn [c_src]. split; [reflexivity|]. split; lia.
      - intros E. apply IH in E. destruct E as [more [E1 [E2 E3]]]. exists (O ++ more). cbn [c_src] in E3.
        rewrite E1, app_assoc, lenN_app, app_length. split; [reflexivity|]. split; lia. }
    destruct (c_state c1) eqn:Est; try (exact (Hgo H)). exact (Hstop H).
Qed.

Lemma chunked_read_len k c out c' : chunked_read k c = ROk out c' ->
  lenN out <= k /\ (length (reach (c_src c')) + length out <= length (reach (c_src c)))%nat.
Proof.
  unfold chunked_read. intros H. apply chunked_loop_len in H. destruct H as [more [H1 [H2 H3]]].
  cbn [List.app] in H1. subst out. split; assumption.
Qed.

(* ------------------------------------------------------------------ bodies over [later] *)
Section Body.
Variable later : list bytes.

Definition bext (b : body) : body :=
  match b with
  | BFixed r => BFixed (fext later r)
  | BChunked c => BChunked (cext later c)
  | BEof s => BEof (ext later s)
  | BEmpty s => BEmpty (ext later s)
  end.

Lemma body_src_bext b : body_src (bext b) = ext later (body_src b).
Proof. destruct b; reflexivity. Qed.

Lemma body_fuel_bext b : body_fuel (bext b) = body_fuel b.
Proof. destruct b; reflexivity. Qed.

(* the reader [b] is positioned inside a valid body whose encoding is exactly what its source can still
   deliver; [acc] = payload already delivered, [p] = the whole payload *)
Definition VB (b : body) (acc p : bytes) : Prop :=
  match b with
  | BFixed r => Bound (f_src r) /\ exists d, take_n (f_remaining r) (reach (f_src r)) = Some (d, []) /\ p = acc ++ d
  | BChunked c => CB c /\ st_dec c acc = Valid p []
  | BEmpty s => Bound s /\ reach s = [] /\ p = acc
  | BEof _ => False
  end.

Lemma VB_rest b acc p : VB b acc p -> exists q, p = acc ++ q /\ (length q < body_fuel b)%nat.
Proof.
  unfold body_fuel. destruct b as [r|c|s|s]; cbn [VB body_src].
  - intros [Hb [d [Ht Hp]]]. exists d. split; [exact Hp|].
    apply take_n_some in Ht. destruct Ht as [Ht _]. apply Bound_fuel in Hb. destruct Hb as [Hb _].
    rewrite Ht, app_nil_r in Hb. exact Hb.
  - intros [Hb HD]. destruct (st_dec_prefix _ _ _ _ HD) as [q Hq]. exists q. split; [exact Hq|].
    apply st_dec_len in HD. apply Bound_fuel in Hb. destruct Hb as [Hb _].
    rewrite Hq, app_length in HD. lia.
  - intros [].
  - intros [Hb [_ Hp]]. exists []. rewrite app_nil_r. split; [exact Hp|].
    apply Bound_fuel in Hb. cbn [length]. lia.
Qed.

Lemma body_read_VB k b acc p : 0 < k -> VB b acc p ->
  exists out b', body_read k b = ROk out b' /\ body_read k (bext b) = ROk out (bext b') /\
    VB b' (acc ++ out) p /\ lenN out <= k /\ (out = [] -> p = acc /\ reach (body_src b') = []).
Proof.
  intros Hk. destruct b as [r|c|s|s]; cbn [VB].
  - intros [Hb [d [Ht Hp]]]. cbn [body_read bext].
    rewrite (fixed_read_ext later k r d [] Hk Ht). rewrite (fixed_read_pos k r Hk).
    destruct (N.eqb_spec (f_remaining r) 0) as [E|E].
    + exists [], (BFixed r). cbn [lift rmap bext]. rewrite E, take_n_0 in Ht. injection Ht as Hd Hreach. subst d.
      rewrite app_nil_r in Hp. subst p. rewrite app_nil_r, lenN_nil.
      split; [reflexivity|]. split; [reflexivity|]. split.
      * cbn [VB]. split; [exact Hb|]. exists []. rewrite E, take_n_0, Hreach, app_nil_r. split; reflexivity.
      * split; [lia|]. intros _. split; [reflexivity|]. exact Hreach.
    + destruct (buf_read (N.min (f_remaining r) k) (f_src r)) as [out s'] eqn:Ebr.
      apply buf_read_spec in Ebr. destruct Ebr as [B1 [B2 [B3 B4]]].
      destruct out as [|o out].
      * exfalso. rewrite B4 in Ht by (lia || reflexivity). rewrite take_n_nil in Ht by exact E. discriminate.
      * remember (o :: out) as O eqn:EO.
        exists O, (BFixed {| f_src := s'; f_remaining := f_remaining r - lenN O |}).
        rewrite EO. cbn [lift rmap bext]. rewrite <- EO.
        split; [reflexivity|]. split; [reflexivity|].
        rewrite B1, take_n_app in Ht by lia.
        destruct (take_n (f_remaining r - lenN O) (reach s')) as [[d' a]|] eqn:Et; [|discriminate].
        inversion Ht. subst d a. split.
        -- cbn [VB f_src f_remaining]. split; [apply (Bound_split (f_src r) s' O); assumption|].
           exists d'. split; [exact Et|]. rewrite Hp, app_assoc. reflexivity.
        -- split; [lia|]. intros C. subst O. discriminate.
  - intros [Hb HD]. cbn [body_read bext].
    rewrite (chunked_read_ext later k c acc p [] Hk Hb HD).
    assert (HU : Valid p [] <> Unspecified) by discriminate.
    destruct (chunked_read_spec k c acc _ Hk Hb HD HU)
      as [[e [c' [He [w Hw]]]]|[out [c' [Ho [Hd' [Hb' Hnil]]]]]]; [discriminate|].
    exists out, (BChunked c'). rewrite Ho. cbn [lift rmap bext].
    split; [reflexivity|]. split; [reflexivity|]. split; [cbn [VB]; split; assumption|].
    split; [exact (proj1 (chunked_read_len _ _ _ _ Ho))|].
    intros C. subst out. rewrite (done_dec c' _ (Hnil eq_refl)), app_nil_r in Hd'. inversion Hd'.
    split; [reflexivity|]. cbn [body_src]. reflexivity.
  - intros [].
  - intros [Hb [Hr Hp]]. exists [], (BEmpty s). cbn [body_read bext]. rewrite app_nil_r, lenN_nil.
    split; [reflexivity|]. split; [reflexivity|]. split; [cbn [VB]; repeat split; assumption|].
    split; [lia|]. intros _. split; [exact Hp|exact Hr].
Qed.

Lemma body_read_VB_R k b out b' : body_read k b = ROk out b' -> R (body_src b) (body_src b').
Proof. intros H. pose proof (body_read_R k b) as HR. rewrite H in HR. exact HR. Qed.

(* ------------------------------------------------------------------ read_to_end *)
Lemma read_to_end_VB fuel : forall b acc p q, VB b acc p -> p = acc ++ q -> (length q < fuel)%nat ->
  exists b', read_to_end fuel b acc = (inl p, b') /\ read_to_end fuel (bext b) acc = (inl p, bext b') /\
             VB b' p p /\ R (body_src b) (body_src b').
Proof.
  induction fuel as [|fuel IH]; intros b acc p q HV Hp Hf; [lia|].
  cbn [read_to_end].
  destruct (body_read_VB 8192 b acc p ltac:(lia) HV) as [out [b1 [H1 [H2 [HV1 [Hlen Hnil]]]]]].
  pose proof (body_read_VB_R _ _ _ _ H1) as HR1.
  rewrite H1, H2. destruct out as [|o out].
  - destruct (Hnil eq_refl) as [Hpa _]. subst acc. rewrite app_nil_r in HV1.
    exists b1. split; [reflexivity|]. split; [reflexivity|]. split; assumption.
  - remember (o :: out) as O eqn:EO.
    destruct (VB_rest _ _ _ HV1) as [q' [Hq' _]].
    assert (Hqq : q = O ++ q').
    { apply (app_inv_head acc). rewrite <- Hp, Hq', app_assoc. reflexivity. }
    destruct (IH b1 (acc ++ O) p q' HV1 Hq') as [b' [R1 [R2 [R3 R4]]]].
    { rewrite Hqq, app_length in Hf. subst O. cbn [length] in Hf. lia. }
    exists b'. rewrite EO. rewrite <- EO. split; [exact R1|]. split; [exact R2|]. split; [exact R3|].
    exact (R_trans _ _ _ HR1 R4).
Qed.

(* ------------------------------------------------------------------ read_k *)
Lemma firstn_bytes_nil k : firstn_bytes k [] = [].
Proof. unfold firstn_bytes. apply firstn_nil. Qed.

Lemma firstn_bytes_0 l : firstn_bytes 0 l = [].
Proof. unfold firstn_bytes. rewrite N.min_0_l. reflexivity. Qed.

Lemma firstn_bytes_app k out l : lenN out <= k ->
  firstn_bytes k (out ++ l) = out ++ firstn_bytes (k - lenN out) l.
Proof.
  intros H. unfold firstn_bytes, lenN in *. rewrite app_length.
  replace (N.to_nat (N.min k (N.of_nat (length out + length l))))
    with (length out + N.to_nat (N.min (k - N.of_nat (length out)) (N.of_nat (length l))))%nat by lia.
  apply firstn_app_2.
Qed.

Lemma read_k_VB fuel : forall k b acc p q, VB b acc p -> p = acc ++ q -> (length q < fuel)%nat ->
  exists b', read_k fuel k b acc = (inl (acc ++ firstn_bytes k q), b') /\
             read_k fuel k (bext b) acc = (inl (acc ++ firstn_bytes k q), bext b') /\
             VB b' (acc ++ firstn_bytes k q) p /\ R (body_src b) (body_src b').
Proof.
  induction fuel as [|fuel IH]; intros k b acc p q HV Hp Hf; [lia|].
  cbn [read_k]. destruct (N.eqb_spec k 0) as [Ek|Ek].
  - subst k. rewrite firstn_bytes_0, app_nil_r. exists b. split; [reflexivity|]. split; [reflexivity|]. split; [assumption|apply R_refl].
  - destruct (body_read_VB k b acc p ltac:(lia) HV) as [out [b1 [H1 [H2 [HV1 [Hlen Hnil]]]]]].
    pose proof (body_read_VB_R _ _ _ _ H1) as HR1.
    rewrite H1, H2. destruct out as [|o out].
    + destruct (Hnil eq_refl) as [Hpa _].
      assert (q = []). { apply (app_inv_head acc). rewrite <- Hp, app_nil_r. exact Hpa. }
      subst q. rewrite firstn_bytes_nil. rewrite app_nil_r in *. exists b1. split; [reflexivity|]. split; [reflexivity|]. split; assumption.
    + remember (o :: out) as O eqn:EO.
      destruct (VB_rest _ _ _ HV1) as [q' [Hq' _]].
      assert (Hqq : q = O ++ q').
      { apply (app_inv_head acc). rewrite <- Hp, Hq', app_assoc. reflexivity. }
      destruct (IH (k - lenN O) b1 (acc ++ O) p q' HV1 Hq') as [b' [R1 [R2 [R3 R4]]]].
      { rewrite Hqq, app_length in Hf. subst O. cbn [length] in Hf. lia. }
      exists b'. rewrite EO. rewrite <- EO. rewrite Hqq, (firstn_bytes_app k O q' Hlen), app_assoc.
      split; [exact R1|]. split; [exact R2|]. split; [exact R3|]. exact (R_trans _ _ _ HR1 R4).
Qed.

(* ------------------------------------------------------------------ drain *)
Lemma drain_step fuel b : match b with BEof _ | BEmpty _ => False | _ => True end ->
  drain (S fuel) b = match body_read 1024 b with
                     | RErr _ b' => b'
                     | ROk [] b' => b'
                     | ROk _ b' => drain fuel b'
                     end.
Proof. destruct b; intros H; try contradiction; reflexivity. Qed.

Lemma drain_VB fuel : forall b acc p q, VB b acc p -> p = acc ++ q -> (length q < fuel)%nat ->
  exists b', drain fuel (bext b) = bext b' /\ reach (body_src b') = [] /\ R (body_src b) (body_src b').
Proof.
  induction fuel as [|fuel IH]; intros b acc p q HV Hp Hf; [lia|].
  destruct b as [r|c|s|s].
  - destruct (body_read_VB 1024 (BFixed r) acc p ltac:(lia) HV) as [out [b1 [H1 [H2 [HV1 [Hlen Hnil]]]]]].
    pose proof (body_read_VB_R _ _ _ _ H1) as HR1.
    rewrite drain_step by exact I. rewrite H2. destruct out as [|o out].
    + exists b1. split; [reflexivity|]. split; [apply (Hnil eq_refl)|exact HR1].
    + remember (o :: out) as O eqn:EO.
      destruct (VB_rest _ _ _ HV1) as [q' [Hq' _]].
      assert (Hqq : q = O ++ q').
      { apply (app_inv_head acc). rewrite <- Hp, Hq', app_assoc. reflexivity. }
      destruct (IH b1 (acc ++ O) p q' HV1 Hq') as [b' [R1 [R2 R3]]].
      { rewrite Hqq, app_length in Hf. subst O. cbn [length] in Hf. lia. }
      exists b'. subst O. split; [exact R1|]. split; [exact R2|exact (R_trans _ _ _ HR1 R3)].
  - destruct (body_read_VB 1024 (BChunked c) acc p ltac:(lia) HV) as [out [b1 [H1 [H2 [HV1 [Hlen Hnil]]]]]].
    pose proof (body_read_VB_R _ _ _ _ H1) as HR1.
    rewrite drain_step by exact I. rewrite H2. destruct out as [|o out].
    + exists b1. split; [reflexivity|]. split; [apply (Hnil eq_refl)|exact HR1].
    + remember (o :: out) as O eqn:EO.
      destruct (VB_rest _ _ _ HV1) as [q' [Hq' _]].
      assert (Hqq : q = O ++ q').
      { apply (app_inv_head acc). rewrite <- Hp, Hq', app_assoc. reflexivity. }
      destruct (IH b1 (acc ++ O) p q' HV1 Hq') as [b' [R1 [R2 R3]]].
      { rewrite Hqq, app_length in Hf. subst O. cbn [length] in Hf. lia. }
      exists b'. subst O. split; [exact R1|]. split; [exact R2|exact (R_trans _ _ _ HR1 R3)].
  - destruct HV.
  - exists (BEmpty s). split; [reflexivity|]. destruct HV as [_ [Hr _]]. split; [exact Hr|apply R_refl].
Qed.

(* (fix F21) ... and the discard reports that it reached the end of the body *)
Lemma drain_ok_step fuel b : match b with BEof _ | BEmpty _ => False | _ => True end ->
  drain_ok (S fuel) b = match body_read 1024 b with
                        | RErr _ _ => false
                        | ROk [] _ => true
                        | ROk _ b' => drain_ok fuel b'
                        end.
Proof. destruct b; intros H; try contradiction; reflexivity. Qed.

Lemma drain_ok_VB fuel : forall b acc p q, VB b acc p -> p = acc ++ q -> (length q < fuel)%nat ->
  drain_ok fuel (bext b) = true.
Proof.
  induction fuel as [|fuel IH]; intros b acc p q HV Hp Hf; [lia|].
  destruct b as [r|c|s|s].
  - destruct (body_read_VB 1024 (BFixed r) acc p ltac:(lia) HV) as [out [b1 [H1 [H2 [HV1 [Hlen Hnil]]]]]].
    change (bext (BFixed r)) with (BFixed (fext later r)) in *.
    rewrite drain_ok_step by exact I. rewrite H2. destruct out as [|o out]; [reflexivity|].
    remember (o :: out) as O eqn:EO.
    destruct (VB_rest _ _ _ HV1) as [q' [Hq' _]].
    assert (Hqq : q = O ++ q').
    { apply (app_inv_head acc). rewrite <- Hp, Hq', app_assoc. reflexivity. }
    apply (IH b1 (acc ++ O) p q' HV1 Hq').
    rewrite Hqq, app_length in Hf. subst O. cbn [length] in Hf. lia.
  - destruct (body_read_VB 1024 (BChunked c) acc p ltac:(lia) HV) as [out [b1 [H1 [H2 [HV1 [Hlen Hnil]]]]]].
    change (bext (BChunked c)) with (BChunked (cext later c)) in *.
    rewrite drain_ok_step by exact I. rewrite H2. destruct out as [|o out]; [reflexivity|].
    remember (o :: out) as O eqn:EO.
    destruct (VB_rest _ _ _ HV1) as [q' [Hq' _]].
    assert (Hqq : q = O ++ q').
    { apply (app_inv_head acc). rewrite <- Hp, Hq', app_assoc. reflexivity. }
    apply (IH b1 (acc ++ O) p q' HV1 Hq').
    rewrite Hqq, app_length in Hf. subst O. cbn [length] in Hf. lia.
  - destruct HV.
  - reflexivity.
Qed.

Lemma located_VB b acc p : VB b acc p -> located false (bext b) = true.
Proof.
  intros HV. destruct (VB_rest _ _ _ HV) as [q [Hq Hlen]].
  unfold located. rewrite body_fuel_bext. cbn [negb andb].
  exact (drain_ok_VB (body_fuel b) b acc p q HV Hq Hlen).
Qed.

(* where the stream stands once the reader is dropped: only segments without bytes are left in front
   of [later] *)
Lemma after_drop_VB orig b acc p : VB b acc p -> Full (body_src b) -> TailOf orig (segs (body_src b)) ->
  exists z, after_drop (bext b) = z ++ later /\ concat z = [] /\ TailOf orig z.
Proof.
  intros HV Hfull Htail. destruct (VB_rest _ _ _ HV) as [q [Hq Hlen]].
  destruct (drain_VB (body_fuel b) b acc p q HV Hq Hlen) as [b' [D1 [D2 [[D3 D4] _]]]].
  exists (segs (body_src b')). unfold after_drop. rewrite body_fuel_bext, D1, body_src_bext. cbv zeta.
  (* (fix F20c) nothing is held beyond the body: the carry is empty *)
  assert (Hc : carry_of (ext later (body_src b')) = []).
  { pose proof (Full_reach _ (D4 Hfull)) as Hr. rewrite D2 in Hr. unfold src_rest in Hr. symmetry in Hr.
    apply app_eq_nil in Hr. destruct Hr as [Hr1 Hr2]. apply app_eq_nil in Hr2. destruct Hr2 as [Hr2 _].
    unfold carry_of, ext. cbn [bbuf lo]. rewrite Hr1, Hr2. reflexivity. }
  rewrite Hc. cbn [with_carry ext segs].
  split; [reflexivity|]. split.
  - apply Full_reach_nil; [exact (D4 Hfull)|exact D2].
  - exact (TailOf_trans _ _ _ Htail D3).
Qed.

End Body.

(* ------------------------------------------------------------------ a body that is cut short or malformed *)
(* the reader [b] is positioned inside an encoding that the recogniser rejects *)
Definition IB (b : body) (acc : bytes) : Prop :=
  match b with
  | BFixed r => lenN (reach (f_src r)) < f_remaining r
  | BChunked c => CB c /\ exists w, st_dec c acc = Invalid w
  | _ => False
  end.

Lemma read_to_end_invalid fuel : forall b acc, IB b acc -> (length (reach (body_src b)) < fuel)%nat ->
  exists e b', read_to_end fuel b acc = (inr e, b').
Proof.
  induction fuel as [|fuel IH]; intros b acc HI Hf; [lia|].
  cbn [read_to_end]. destruct b as [r|c|s|s]; cbn [IB body_src] in HI, Hf; try contradiction.
  - cbn [body_read]. rewrite (fixed_read_pos 8192 r) by lia.
    destruct (N.eqb_spec (f_remaining r) 0) as [E|E]; [lia|].
    destruct (buf_read (N.min (f_remaining r) 8192) (f_src r)) as [out s'] eqn:Ebr.
    apply buf_read_spec in Ebr. destruct Ebr as [B1 [B2 [B3 B4]]].
    destruct out as [|o out]; cbn [lift]; [eexists; eexists; reflexivity|].
    remember (o :: out) as O eqn:EO. rewrite EO. rewrite <- EO.
    apply IH.
    + cbn [IB f_src f_remaining]. rewrite B1, lenN_app in HI. lia.
    + cbn [body_src f_src]. rewrite B1, app_length in Hf. subst O. cbn [length] in Hf. lia.
  - destruct HI as [Hb [w HD]]. cbn [body_read].
    assert (HU : Invalid w <> Unspecified) by discriminate.
    destruct (chunked_read_spec 8192 c acc _ ltac:(lia) Hb HD HU)
      as [[e [c' [He _]]]|[out [c' [Ho [Hd' [Hb' Hnil]]]]]].
    + rewrite He. cbn [lift]. eexists; eexists; reflexivity.
    + rewrite Ho. cbn [lift]. destruct out as [|o out].
      * exfalso. rewrite (done_dec c' _ (Hnil eq_refl)) in Hd'. discriminate.
      * remember (o :: out) as O eqn:EO. rewrite EO. rewrite <- EO.
        apply IH.
        -- cbn [IB]. split; [exact Hb'|]. exists w. exact Hd'.
        -- cbn [body_src]. destruct (chunked_read_len _ _ _ _ Ho) as [_ Hl].
           subst O. cbn [length] in Hl. lia.
Qed.

(* (fix F21) the discard of such a body never reports that it reached the end - whatever the fuel *)
Lemma drain_ok_invalid fuel : forall b acc, IB b acc -> drain_ok fuel b = false.
Proof.
  induction fuel as [|fuel IH]; intros b acc HI; [reflexivity|].
  destruct b as [r|c|s|s]; cbn [IB] in HI; try contradiction.
  - cbn [drain_ok body_read]. rewrite (fixed_read_pos 1024 r) by lia.
    destruct (N.eqb_spec (f_remaining r) 0) as [E|E]; [lia|].
    destruct (buf_read (N.min (f_remaining r) 1024) (f_src r)) as [out s'] eqn:Ebr.
    apply buf_read_spec in Ebr. destruct Ebr as [B1 [B2 [B3 B4]]].
    destruct out as [|o out]; cbn [lift]; [reflexivity|].
    remember (o :: out) as O eqn:EO. rewrite EO. rewrite <- EO.
    apply (IH _ acc). cbn [IB f_src f_remaining]. rewrite B1, lenN_app in HI. lia.
  - destruct HI as [Hb [w HD]]. cbn [drain_ok body_read].
    assert (HU : Invalid w <> Unspecified) by discriminate.
    destruct (chunked_read_spec 1024 c acc _ ltac:(lia) Hb HD HU)
      as [[e [c' [He _]]]|[out [c' [Ho [Hd' [Hb' Hnil]]]]]].
    + rewrite He. reflexivity.
    + rewrite Ho. cbn [lift]. destruct out as [|o out].
      * exfalso. rewrite (done_dec c' _ (Hnil eq_refl)) in Hd'. discriminate.
      * apply (IH _ (acc ++ o :: out)). cbn [IB]. split; [exact Hb'|]. exists w. exact Hd'.
Qed.

Lemma located_invalid failed b acc : IB b acc -> located failed b = false.
Proof. intros HI. unfold located. rewrite (drain_ok_invalid _ b acc HI). apply andb_false_r. Qed.
