(* C02 helpers: the header loop on rendered field lines. *)
From KV Require Import Lib.Bytes Lib.Swar Model.Headers Model.Parser Spec.HttpGrammar
  Proofs.ParserCompleteBase.

(* ------------------------------------------------------------------ one field line *)
Lemma pc_drop_ows ows : forall value,
  forallb is_ows ows = true -> forallb is_field_vchar value = true ->
  match value with b :: _ => negb (is_ows b) | [] => true end = true ->
  drop_while is_ows (ows ++ value) = value.
Proof.
  induction ows as [|o ows IH]; intros value Ho Hv Hh.
  - cbn [app]. destruct value as [|b v]; [reflexivity|].
    cbn [drop_while]. apply negb_true_iff in Hh. rewrite Hh. reflexivity.
  - cbn [forallb] in Ho. apply andb_true_iff in Ho. destruct Ho as [Ho1 Ho].
    cbn [app drop_while]. rewrite Ho1. apply IH; assumption.
Qed.

Lemma pc_header_line f :
  rfc_field f = true ->
  parse_header_line (f_name f ++ x3a :: f_ows f ++ f_value f) = Ok (f_name f, f_value f).
Proof.
  intros Hf. unfold rfc_field in Hf.
  apply andb_true_iff in Hf. destruct Hf as [Hf Hhd].
  apply andb_true_iff in Hf. destruct Hf as [Hf Hval].
  apply andb_true_iff in Hf. destruct Hf as [Hf Hows].
  apply andb_true_iff in Hf. destruct Hf as [Hne Hname].
  unfold parse_header_line.
  rewrite (pc_find_index_skip (Byte.eqb x3a) (f_name f) x3a (f_ows f ++ f_value f)
             (pc_forallb_impl _ _ _ pc_tchar_ncolon Hname) (pc_eqb_refl x3a)).
  cbv zeta.
  rewrite (pc_firstn_mid (f_name f) (x3a :: f_ows f ++ f_value f) _ eq_refl).
  rewrite (pc_skipn_S_mid (f_name f) x3a (f_ows f ++ f_value f) _ eq_refl).
  rewrite (pc_forallb_impl _ _ _ pc_tchar_field Hname). cbn [negb].
  destruct (f_name f) as [|c nm] eqn:En; [discriminate Hne|].
  cbn [length Nat.eqb orb].
  unfold str_unchecked. rewrite (pc_forallb_impl _ _ _ pc_tchar_ascii Hname). cbn [bind].
  unfold trim_start. rewrite (pc_drop_ows (f_ows f) (f_value f) Hows Hval Hhd). reflexivity.
Qed.

(* ------------------------------------------------------------------ the content-length check *)
(* mirrors the check made by the loop, on the fields still to come and the current content_length *)
Fixpoint cl_ok (c : option N) (fs : list (bytes * bytes)) : bool :=
  match fs with
  | [] => true
  | nv :: r =>
      if eq_ic (fst nv) CONTENT_LENGTH then
        match parse_content_length (snd nv), c with
        | None, _ => false
        | Some x, Some m => N.eqb x m && cl_ok (Some x) r
        | Some x, None => cl_ok (Some x) r
        end
      else cl_ok c r
  end.

Definition all_eq (n : N) (vs : list (option N)) : bool :=
  forallb (fun o => match o with Some m => N.eqb m n | None => false end) vs.

Lemma pc_cl_values_cons nv r :
  cl_values (nv :: r) =
  if eq_ic (fst nv) CONTENT_LENGTH then parse_content_length (snd nv) :: cl_values r else cl_values r.
Proof. unfold cl_values. cbn [filter]. destruct (eq_ic (fst nv) CONTENT_LENGTH); reflexivity. Qed.

Lemma pc_all_eq_ok n fs : all_eq n (cl_values fs) = true -> cl_ok (Some n) fs = true.
Proof.
  induction fs as [|nv r IH]; intros H; [reflexivity|].
  rewrite pc_cl_values_cons in H. cbn [cl_ok].
  destruct (eq_ic (fst nv) CONTENT_LENGTH).
  - unfold all_eq in H. cbn [forallb] in H. apply andb_true_iff in H. destruct H as [H1 H2].
    destruct (parse_content_length (snd nv)) as [x|]; [|discriminate H1].
    rewrite H1. cbn [andb]. apply N.eqb_eq in H1. subst x. apply IH. exact H2.
  - apply IH. exact H.
Qed.

Lemma pc_cl_consistent_ok fs : cl_consistent fs = true -> cl_ok None fs = true.
Proof.
  unfold cl_consistent. induction fs as [|nv r IH]; intros H; [reflexivity|].
  rewrite pc_cl_values_cons in H. cbn [cl_ok].
  destruct (eq_ic (fst nv) CONTENT_LENGTH).
  - destruct (parse_content_length (snd nv)) as [x|]; [|discriminate H].
    apply pc_all_eq_ok. exact H.
  - apply IH. exact H.
Qed.

Lemma pc_add_cl h n v :
  content_length (add h n v) = if eq_ic n CONTENT_LENGTH then parse_content_length v else content_length h.
Proof.
  unfold add. destruct (eq_ic n CONTENT_LENGTH); [reflexivity|].
  destruct (eq_ic n TRANSFER_ENCODING); [reflexivity|].
  destruct (eq_ic n CONNECTION); reflexivity.
Qed.

(* ------------------------------------------------------------------ the loop *)
Definition pair_of (f : field) : bytes * bytes := (f_name f, f_value f).
Definition add_pair (h : headers) (nv : bytes * bytes) : headers := add h (fst nv) (snd nv).

Lemma pc_line_nlf f :
  rfc_field f = true ->
  forallb (nb x0a) ((f_name f ++ x3a :: f_ows f ++ f_value f) ++ [x0d]) = true.
Proof.
  intros Hf. unfold rfc_field in Hf.
  apply andb_true_iff in Hf. destruct Hf as [Hf Hhd].
  apply andb_true_iff in Hf. destruct Hf as [Hf Hval].
  apply andb_true_iff in Hf. destruct Hf as [Hf Hows].
  apply andb_true_iff in Hf. destruct Hf as [Hne Hname].
  rewrite !forallb_app. cbn [forallb]. rewrite forallb_app.
  rewrite (pc_forallb_impl _ _ _ pc_tchar_nlf Hname).
  rewrite (pc_forallb_impl _ _ _ pc_ows_nlf Hows).
  rewrite (pc_forallb_impl _ _ _ pc_fv_nlf Hval).
  reflexivity.
Qed.

Lemma pc_headers_loop : forall fs fuel acc t,
  forallb rfc_field fs = true ->
  cl_ok (content_length acc) (map pair_of fs) = true ->
  length fs < fuel ->
  parse_headers_f fuel acc (flat_map render_field fs ++ x0d :: x0a :: t) =
  Ok (fold_left add_pair (map pair_of fs) acc, t).
Proof.
  induction fs as [|f fs IH]; intros fuel acc t Hfs Hcl Hfuel.
  - destruct fuel as [|fuel]; [cbn [length] in Hfuel; lia|].
    cbn [flat_map app map fold_left parse_headers_f strip_prefix].
    rewrite !pc_eqb_refl. reflexivity.
  - destruct fuel as [|fuel]; [cbn [length] in Hfuel; lia|].
    cbn [forallb] in Hfs. apply andb_true_iff in Hfs. destruct Hfs as [Hf Hfs].
    cbn [flat_map map fold_left].
    set (more := flat_map render_field fs ++ x0d :: x0a :: t).
    set (line := f_name f ++ x3a :: f_ows f ++ f_value f).
    assert (Ebuf : (render_field f ++ flat_map render_field fs) ++ x0d :: x0a :: t
                   = (line ++ [x0d]) ++ x0a :: more).
    { unfold render_field, CRLF, line, more. rewrite <- !app_assoc. cbn [app].
      rewrite <- !app_assoc. cbn [app]. reflexivity. }
    rewrite Ebuf. clear Ebuf.
    cbn [parse_headers_f].
    (* no blank line here: the name is non-empty and starts with a tchar *)
    assert (Estrip : strip_prefix [x0d; x0a] ((line ++ [x0d]) ++ x0a :: more) = None).
    { unfold line. pose proof Hf as Hf'. unfold rfc_field in Hf'.
      apply andb_true_iff in Hf'. destruct Hf' as [Hf' _].
      apply andb_true_iff in Hf'. destruct Hf' as [Hf' _].
      apply andb_true_iff in Hf'. destruct Hf' as [Hf' _].
      apply andb_true_iff in Hf'. destruct Hf' as [Hne Hname].
      destruct (f_name f) as [|c nm]; [discriminate Hne|].
      cbn [forallb] in Hname. apply andb_true_iff in Hname. destruct Hname as [Hc _].
      cbn [app strip_prefix]. rewrite (pc_tchar_ncr c Hc). reflexivity. }
    rewrite Estrip. clear Estrip.
    rewrite (pc_find_index_skip (Byte.eqb x0a) (line ++ [x0d]) x0a more (pc_line_nlf f Hf) (pc_eqb_refl x0a)).
    rewrite app_length. cbn [length]. rewrite Nat.add_1_r.
    cbn [Nat.eqb Nat.sub]. rewrite Nat.sub_0_r.
    rewrite <- app_assoc. cbn [app].
    rewrite (pc_nth_mid line x0d (x0a :: more) _ eq_refl).
    rewrite pc_eqb_refl. cbn [negb].
    rewrite (pc_firstn_mid line (x0d :: x0a :: more) _ eq_refl).
    unfold line at 1. rewrite (pc_header_line f Hf). cbn [bind].
    cbn [map cl_ok pair_of fst snd] in Hcl. fold pair_of in Hcl.
    replace (skipn (S (S (length line))) (line ++ x0d :: x0a :: more)) with more.
    2:{ change (line ++ x0d :: x0a :: more) with (line ++ [x0d] ++ x0a :: more).
        rewrite app_assoc. symmetry. apply pc_skipn_S_mid. rewrite app_length. cbn [length]. lia. }
    assert (Hstep : eq_ic (f_name f) CONTENT_LENGTH &&
              match parse_content_length (f_value f), content_length acc with
              | None, _ => true
              | Some n, Some m => negb (N.eqb n m)
              | Some _, None => false
              end = false
            /\ cl_ok (content_length (add acc (f_name f) (f_value f))) (map pair_of fs) = true).
    { rewrite pc_add_cl. destruct (eq_ic (f_name f) CONTENT_LENGTH); cbn [andb].
      - destruct (parse_content_length (f_value f)) as [x|]; [|discriminate Hcl].
        destruct (content_length acc) as [m|].
        + apply andb_true_iff in Hcl. destruct Hcl as [H1 H2]. rewrite H1. split; [reflexivity|exact H2].
        + split; [reflexivity|exact Hcl].
      - split; [reflexivity|exact Hcl]. }
    destruct Hstep as [Hchk Hcl'].
    rewrite Hchk.
    unfold more. rewrite (IH fuel (add acc (f_name f) (f_value f)) t Hfs Hcl').
    + reflexivity.
    + cbn [length] in Hfuel. lia.
Qed.

Lemma pc_fields_length fs : length fs <= length (flat_map render_field fs).
Proof.
  induction fs as [|f fs IH]; cbn [flat_map length]; [lia|].
  rewrite app_length. unfold render_field at 1, CRLF. rewrite !app_length. cbn [length]. lia.
Qed.

Lemma pc_headers_of fs : headers_of fs = fold_left add_pair fs new_headers.
Proof. reflexivity. Qed.

Lemma pc_parse_headers fs t :
  forallb rfc_field fs = true -> cl_consistent (map pair_of fs) = true ->
  parse_headers (flat_map render_field fs ++ x0d :: x0a :: t) = Ok (headers_of (map pair_of fs), t).
Proof.
  intros Hfs Hcl. unfold parse_headers. rewrite pc_headers_of. apply pc_headers_loop.
  - exact Hfs.
  - apply pc_cl_consistent_ok. exact Hcl.
  - rewrite app_length. pose proof (pc_fields_length fs). lia.
Qed.
