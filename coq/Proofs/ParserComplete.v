(* C02: every RFC-conforming request head is accepted and decoded exactly.
   Sub-parser lemmas live in ParserCompleteBase / Method / Uri / Hdr; this file assembles them. *)
From KV Require Import Lib.Bytes Lib.Swar Model.Headers Model.Parser Spec.HttpGrammar
  Proofs.ParserCompleteBase Proofs.ParserCompleteMethod Proofs.ParserCompleteUri Proofs.ParserCompleteHdr.

Lemma pc_render_shape h t :
  render h ++ t =
  h_method h ++ x20 :: (render_target (h_target h) ++ x20 ::
    (bs "HTTP/1." ++ (if h_minor h then x31 else x30) :: x0d :: x0a ::
      (flat_map render_field (h_fields h) ++ x0d :: x0a :: t))).
Proof. unfold render, SP, CRLF. repeat rewrite <- app_assoc. reflexivity. Qed.

Lemma pc_offset l t : offset_of (l ++ t) t = Ok (length l).
Proof.
  unfold offset_of. rewrite app_length.
  rewrite (proj2 (Nat.leb_le (length t) (length l + length t))) by lia.
  rewrite Nat.add_sub. reflexivity.
Qed.

Theorem request_complete : forall h t,
  rfc_head h = true -> cl_consistent (field_pairs h) = true ->
  exists r, parse_request (render h ++ t) = Ok r /\
    method_str (q_meth r) = h_method h /\
    full (q_target r) = render_target (h_target h) /\
    uri_path (q_target r) = Ok (target_path (h_target h)) /\
    uri_query (q_target r) = Ok (target_query (h_target h)) /\
    q_version r = (if h_minor h then 1 else 0)%N /\
    q_hdrs r = headers_of (field_pairs h) /\
    q_offset r = length (render h).
Proof.
  intros h t Hh Hcl. unfold rfc_head in Hh.
  apply andb_true_iff in Hh. destruct Hh as [Hh Hfs].
  apply andb_true_iff in Hh. destruct Hh as [Hh Htg].
  apply andb_true_iff in Hh. destruct Hh as [Hne Halpha].
  set (r3 := flat_map render_field (h_fields h) ++ x0d :: x0a :: t).
  set (r2 := bs "HTTP/1." ++ (if h_minor h then x31 else x30) :: x0d :: x0a :: r3).
  set (r1 := render_target (h_target h) ++ x20 :: r2).
  destruct (pc_parse_method (h_method h) r1 Hne Halpha) as [mm [Hm Hms]].
  destruct (pc_parse_uri (h_target h) r2 Htg) as [u [Hu [Hfull [Hpath Hquery]]]].
  fold r1 in Hu.
  pose proof (pc_parse_version (h_minor h) (x0d :: x0a :: r3)) as Hv. fold r2 in Hv.
  change (field_pairs h) with (map pair_of (h_fields h)) in Hcl |- *.
  pose proof (pc_parse_headers (h_fields h) t Hfs Hcl) as Hhd. fold r3 in Hhd.
  exists {| q_meth := mm; q_target := u; q_version := (if h_minor h then 1 else 0)%N;
            q_hdrs := headers_of (map pair_of (h_fields h)); q_offset := length (render h) |}.
  split.
  - unfold parse_request.
    assert (Hm' : parse_method (render h ++ t) = Ok (mm, r1)).
    { rewrite pc_render_shape. exact Hm. }
    rewrite Hm'. cbn [bind]. rewrite Hu. cbn [bind]. rewrite Hv. cbn [bind].
    rewrite Hhd. cbn [bind]. rewrite pc_offset. cbn [bind]. reflexivity.
  - cbn [q_meth q_target q_version q_hdrs q_offset]. repeat split; assumption.
Qed.

(* the same with the Content-Length condition stated by the independent value grammar *)
From KV Require Import Spec.HeaderStore Spec.ClSpec Proofs.Headers.
Lemma cl_consistent_rfc_eq fs : cl_consistent_rfc fs = cl_consistent fs.
Proof.
  unfold cl_consistent_rfc, cl_consistent, cl_values_rfc, cl_values.
  rewrite (filter_ext (fun nv => eq_ic (fst nv) CONTENT_LENGTH) (fun nv => same_name (fst nv) (bs "content-length")))
    by (intros a; apply eq_ic_same).
  rewrite (map_ext (fun nv : bytes * bytes => parse_content_length (snd nv)) (fun nv => cl_value (snd nv)))
    by (intros a; apply parse_content_length_spec).
  reflexivity.
Qed.

Theorem request_complete_rfc : forall h t,
  rfc_head h = true -> cl_consistent_rfc (field_pairs h) = true ->
  exists r, parse_request (render h ++ t) = Ok r /\
    method_str (q_meth r) = h_method h /\
    full (q_target r) = render_target (h_target h) /\
    uri_path (q_target r) = Ok (target_path (h_target h)) /\
    uri_query (q_target r) = Ok (target_query (h_target h)) /\
    q_version r = (if h_minor h then 1 else 0)%N /\
    q_hdrs r = headers_of (field_pairs h) /\
    q_offset r = length (render h).
Proof. intros h t Hr Hc. rewrite cl_consistent_rfc_eq in Hc. exact (request_complete h t Hr Hc). Qed.
