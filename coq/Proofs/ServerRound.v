(* Server round trip: what the client's printer writes for a request (Model/Printer.v:
   write_request), the server's receive side (Model/ServerRecv.v: parse_request,
   BodyReader::from_request, read to the end) reads back as the same method, target, header fields
   and body, and the framing gate of handle_one_request lets it pass.
   The hypotheses are those of C08_request (printable fields and date; the CR/LF-freeness of method
   and target follows from the side conditions) plus the side conditions the request parser really
   needs (server_inputs_ok).  The conditions on method and target are exact
   (server_reports_need_conditions); the *_refuted lemmas at the end show with concrete witnesses
   that none of the three can be dropped. *)
From KV Require Import Lib.Bytes Model.Headers Model.Parser Model.Body Model.Printer Model.Client Model.ServerRecv
  Spec.HeaderStore Spec.ChunkedSpec Spec.MessageSpec Spec.PrinterSpec
  Proofs.Headers Proofs.BodySpec Proofs.PrinterRoundBase Proofs.PrinterRoundHead Proofs.PrinterRound
  Proofs.ParserCompleteBase Proofs.ClientRoundBase Proofs.ClientRound Proofs.ServerRoundBase.
From KV Require Model.Server Spec.HttpGrammar Proofs.ParserSound.

(* the side conditions of the receive side, on the inputs handed to the printer *)
Definition server_inputs_ok (method uri : bytes) (fs : list (bytes * bytes)) : bool :=
  server_method_ok method && server_uri_ok uri && forallb server_field_ok fs.

Lemma server_inputs_inv method uri fs : server_inputs_ok method uri fs = true ->
  server_method_ok method = true /\ server_uri_ok uri = true /\ forallb server_field_ok fs = true.
Proof.
  unfold server_inputs_ok. intros H. apply andb_true_iff in H. destruct H as [H H3].
  apply andb_true_iff in H. destruct H as [H1 H2]. repeat split; assumption.
Qed.

(* they imply what C08_request assumes of method and target *)
Lemma vchar_plain : forall b, is_vchar b = true -> negb (Byte.eqb b x0d || Byte.eqb b x0a) = true.
Proof. pc_bytes. Qed.
Lemma alpha_plain : forall b, is_alpha b = true -> negb (Byte.eqb b x0d || Byte.eqb b x0a) = true.
Proof. pc_bytes. Qed.

Lemma server_uri_vchar u : server_uri_ok u = true -> forallb is_vchar u = true.
Proof.
  intros H. destruct (sr_parse_uri u [] H) as (t & E1 & E2).
  destruct (ParserSound.parse_uri_sound _ _ _ E1) as (_ & _ & Hv). rewrite E2 in Hv. exact Hv.
Qed.

Lemma server_inputs_printable method uri fs : server_inputs_ok method uri fs = true ->
  no_crlf method = true /\ no_crlf uri = true.
Proof.
  intros H. destruct (server_inputs_inv method uri fs H) as (Hm & Hu & _).
  unfold server_method_ok in Hm. apply andb_true_iff in Hm. destruct Hm as [_ Ha].
  split; unfold no_crlf.
  - exact (pc_forallb_impl _ _ _ alpha_plain Ha).
  - exact (pc_forallb_impl _ _ _ vchar_plain (server_uri_vchar uri Hu)).
Qed.

(* ------------------------------------------------------------------ the three printed shapes *)
Section Shapes.
Variables (method uri : bytes) (dated : bool) (fs : list (bytes * bytes)) (dv : bytes).
Hypothesis Hm : server_method_ok method = true.
Hypothesis Hu : server_uri_ok uri = true.
Hypothesis Hwf : wf_user_fields fs = true.
Hypothesis Hdv : wf_date_value dv = true.
Hypothesis Hfok : forallb server_field_ok fs = true.

Let SF := shown_fields dated fs dv.
Let start := request_line method uri.

Lemma srv_cl_output n body : declared_chunked fs = false -> n = N.of_nat (length body) -> (n < 2 ^ 64)%N ->
  server_received (start ++ flat_map render_field SF ++ content_length_header n ++ PCRLF ++ PCRLF ++ body)
                  (method, uri, headers_of (SF ++ [(CLN, dec_of n)]), body).
Proof.
  intros Hdc Hn Hlt.
  destruct (declared_chunked_cases fs Hwf) as [(C & _)|(_ & HT)]; [congruence|].
  replace (start ++ flat_map render_field SF ++ content_length_header n ++ PCRLF ++ PCRLF ++ body)
    with (printed_request_head method uri (SF ++ [(CLN, dec_of n)]) ++ body).
  2:{ unfold printed_request_head, start. rewrite render_fields_app. cbn [flat_map].
      rewrite <- cl_line, !app_nil_r, <- !app_assoc. reflexivity. }
  apply server_received_of_shape; [|cbn [snd]; lia].
  intros pre stream sizes Hpre Hpos Hsz. cbn [snd] in Hsz.
  destruct (headers_of_facts (SF ++ [(CLN, dec_of n)])) as (_ & F2 & F3).
  apply srv_receive_cl; try assumption.
  - rewrite forallb_app. unfold SF. rewrite (S_wf dated fs dv Hwf Hdv). cbn [forallb].
    rewrite (wf_cl_field n Hlt). reflexivity.
  - rewrite forallb_app. unfold SF. rewrite (S_ok dated fs dv Hfok). cbn [forallb].
    rewrite (ok_cl_field n). reflexivity.
  - apply cl_consistent_one; [exact (S_no_cl dated fs dv) | exact Hlt].
  - rewrite F2, filter_app. unfold SF. rewrite S_te, HT. reflexivity.
  - rewrite F3, filter_app. unfold SF. rewrite S_no_cl.
    change (filter is_clf [(CLN, dec_of n)]) with [(CLN, dec_of n)]. cbn [List.app rev snd].
    unfold dec_of. rewrite (cl_value_u64 n Hlt), Hn. reflexivity.
Qed.

Lemma srv_te_output cs : declared_chunked fs = false ->
  Forall (fun c => c <> []) cs -> (N.of_nat (length (concat cs)) < 2 ^ 64)%N ->
  server_received (start ++ flat_map render_field SF ++ bs "transfer-encoding: chunked" ++ PCRLF ++ PCRLF ++
                   flat_map Printer.chunk cs ++ LAST_CHUNK)
                  (method, uri, headers_of (SF ++ [(TEN, bs "chunked")]), concat cs).
Proof.
  intros Hdc Hne Hlt.
  destruct (declared_chunked_cases fs Hwf) as [(C & _)|(_ & HT)]; [congruence|].
  replace (start ++ flat_map render_field SF ++ bs "transfer-encoding: chunked" ++ PCRLF ++ PCRLF ++
           flat_map Printer.chunk cs ++ LAST_CHUNK)
    with (printed_request_head method uri (SF ++ [(TEN, bs "chunked")]) ++ (flat_map Printer.chunk cs ++ LAST_CHUNK)).
  2:{ unfold printed_request_head, start. rewrite render_fields_app. cbn [flat_map].
      rewrite <- te_line, !app_nil_r, <- !app_assoc. reflexivity. }
  apply server_received_of_shape; [|cbn [snd]; apply chunks_length].
  intros pre stream sizes Hpre Hpos Hsz. cbn [snd] in Hsz.
  destruct (headers_of_facts (SF ++ [(TEN, bs "chunked")])) as (_ & F2 & _).
  apply srv_receive_chunks; try assumption.
  - rewrite forallb_app. unfold SF. rewrite (S_wf dated fs dv Hwf Hdv). cbn [forallb].
    rewrite wf_te_field. reflexivity.
  - rewrite forallb_app. unfold SF. rewrite (S_ok dated fs dv Hfok). cbn [forallb].
    rewrite ok_te_field. reflexivity.
  - apply cl_consistent_none. rewrite filter_app. unfold SF. rewrite S_no_cl. reflexivity.
  - rewrite F2, filter_app. unfold SF. rewrite S_te, HT. vm_compute. reflexivity.
Qed.

Lemma srv_user_te_output cs : declared_chunked fs = true ->
  Forall (fun c => c <> []) cs -> (N.of_nat (length (concat cs)) < 2 ^ 64)%N ->
  server_received (start ++ flat_map render_field SF ++ PCRLF ++ flat_map Printer.chunk cs ++ LAST_CHUNK)
                  (method, uri, headers_of (SF ++ []), concat cs).
Proof.
  intros Hdc Hne Hlt.
  destruct (declared_chunked_cases fs Hwf) as [(_ & te & HT & Hv)|(C & _)]; [|congruence].
  rewrite app_nil_r.
  replace (start ++ flat_map render_field SF ++ PCRLF ++ flat_map Printer.chunk cs ++ LAST_CHUNK)
    with (printed_request_head method uri SF ++ (flat_map Printer.chunk cs ++ LAST_CHUNK))
    by (unfold printed_request_head, start; rewrite <- !app_assoc; reflexivity).
  apply server_received_of_shape; [|cbn [snd]; apply chunks_length].
  intros pre stream sizes Hpre Hpos Hsz. cbn [snd] in Hsz.
  destruct (headers_of_facts SF) as (_ & F2 & _).
  apply srv_receive_chunks; try assumption.
  - exact (S_wf dated fs dv Hwf Hdv).
  - exact (S_ok dated fs dv Hfok).
  - apply cl_consistent_none. exact (S_no_cl dated fs dv).
  - rewrite F2. unfold SF. rewrite S_te, HT. cbn [existsb]. rewrite (chunked_value_found _ Hv). reflexivity.
Qed.

(* ---- the framing gate on what is read back ---- *)
Lemma gate_shown framing :
  (declared_chunked fs = true /\ framing = []) \/
  (declared_chunked fs = false /\ (filter is_te framing = [] \/ framing = [(TEN, bs "chunked")])) ->
  te_present (headers_of (SF ++ framing)) && negb (te_final_chunked (headers_of (SF ++ framing))) = false.
Proof.
  intros H. apply gate_passes. rewrite filter_app. unfold SF. rewrite S_te.
  destruct H as [(Hdc & Ef)|(Hdc & Ef)].
  - destruct (declared_chunked_cases fs Hwf) as [(_ & te & HT & Hv)|(C & _)]; [|congruence].
    subst framing. right. exists te. rewrite HT. split; [reflexivity|exact Hv].
  - destruct (declared_chunked_cases fs Hwf) as [(C & _)|(_ & HT)]; [congruence|]. rewrite HT.
    destruct Ef as [Ef|Ef].
    + left. rewrite Ef. reflexivity.
    + right. exists (TEN, bs "chunked"). rewrite Ef. split; reflexivity.
Qed.

Lemma gate_framing n framing : framing_for fs n framing ->
  te_present (headers_of (SF ++ framing)) && negb (te_final_chunked (headers_of (SF ++ framing))) = false.
Proof.
  unfold framing_for. intros F. apply gate_shown. destruct (declared_chunked fs).
  - left. split; [reflexivity|exact F].
  - right. split; [reflexivity|]. destruct F as [F|(_ & F)]; [left|right; exact F].
    rewrite F. reflexivity.
Qed.

(* ---- the body logic of write_request ---- *)
Let h := user_headers dated fs.

Lemma srv_with_body_declared pieces accepted d :
  declared_chunked fs = false -> declared_length fs = Some d -> (d <= N.of_nat (length (concat pieces)))%N ->
  server_received (out_of (with_body start h (date_line dv) pieces accepted))
                  (method, uri, headers_of (SF ++ [(CLN, dec_of d)]), firstn (N.to_nat d) (concat pieces)).
Proof.
  intros Hdc Hdl Hle. pose proof (declared_length_lt fs d Hdl) as Hlt.
  destruct (user_headers_facts dated fs Hwf) as (_ & F2 & F3 & _). fold h in F2, F3.
  unfold with_body. rewrite F2, F3, Hdc, Hdl. unfold h. rewrite (head_fields_shown dated fs dv Hwf). fold SF.
  pose proof (take_all_spec (reader_fuel pieces) (N.to_nat d) pieces [] (reader_fuel_measure pieces)) as TA.
  destruct (take_all (reader_fuel pieces) (N.to_nat d) pieces []) as [buf r2]. cbn [fst List.app] in TA. subst buf.
  assert (d = N.of_nat (length (firstn (N.to_nat d) (concat pieces)))) as Hlen.
  { rewrite firstn_length. lia. }
  destruct (d <=? N.of_nat PROBE_MAX)%N.
  - rewrite <- Hlen, N.eqb_refl. cbn [out_of]. rewrite PrinterRoundBase.vectored_independent, <- ?app_assoc.
    apply srv_cl_output; assumption.
  - rewrite <- Hlen, N.eqb_refl. cbn [out_of]. rewrite <- ?app_assoc.
    apply srv_cl_output; assumption.
Qed.

Lemma srv_with_body pieces accepted :
  (N.of_nat (length (concat pieces)) < 2 ^ 64)%N ->
  (declared_chunked fs = true \/ declared_length fs = None \/
   declared_length fs = Some (N.of_nat (length (concat pieces)))) ->
  exists framing,
    server_received (out_of (with_body start h (date_line dv) pieces accepted))
                    (method, uri, headers_of (SF ++ framing), concat pieces)
    /\ framing_for fs (length (concat pieces)) framing.
Proof.
  intros Hlt Hdecl. unfold framing_for.
  destruct (declared_chunked fs) eqn:Hdc.
  - (* the user's own Transfer-Encoding: chunked *)
    exists []. destruct (user_headers_facts dated fs Hwf) as (_ & F2 & _ & _). fold h in F2.
    unfold with_body. rewrite F2, Hdc. unfold h. rewrite (head_fields_shown dated fs dv Hwf). fold SF.
    destruct (write_chunked_spec (reader_fuel pieces) pieces (reader_fuel_measure pieces)) as (cs & W1 & W2 & W3).
    rewrite W1. cbn [out_of]. split; [|reflexivity].
    rewrite <- ?app_assoc, <- W2. apply srv_user_te_output; [exact Hdc | exact W3 | rewrite W2; exact Hlt].
  - destruct Hdecl as [C|[Hdl|Hdl]]; [discriminate C| |].
    + (* nothing declared: probe *)
      destruct (user_headers_facts dated fs Hwf) as (_ & F2 & F3 & _). fold h in F2, F3.
      unfold with_body. rewrite F2, F3, Hdc, Hdl. unfold h. rewrite (head_fields_shown dated fs dv Hwf). fold SF.
      destruct (probe_body (reader_fuel pieces) pieces []) as [[prefix complete] r'] eqn:EP.
      destruct (probe_body_spec _ _ _ _ _ _ (reader_fuel_measure pieces) EP) as (P1 & P2 & P3).
      cbn [List.app] in P1. destruct complete.
      * exists [(CLN, dec_of (N.of_nat (length (concat pieces))))].
        rewrite (P2 eq_refl), app_nil_r in P1. subst prefix.
        cbn [out_of]. split; [|left; reflexivity].
        rewrite PrinterRoundBase.vectored_independent, <- ?app_assoc.
        apply srv_cl_output; [exact Hdc | reflexivity | exact Hlt].
      * exists [(TEN, bs "chunked")].
        destruct (write_chunked_spec (reader_fuel r') r' (reader_fuel_measure r')) as (cs & W1 & W2 & W3).
        rewrite W1. cbn [out_of]. split; [|right; split; reflexivity].
        assert (prefix <> []) as Hpne.
        { intros C. subst prefix. specialize (P3 eq_refl). cbn [length] in P3. pose proof PROBE_MAX_pos. lia. }
        replace (Printer.chunk prefix ++ flat_map Printer.chunk cs ++ LAST_CHUNK)
          with (flat_map Printer.chunk (prefix :: cs) ++ LAST_CHUNK)
          by (cbn [flat_map]; rewrite <- app_assoc; reflexivity).
        assert (concat (prefix :: cs) = concat pieces) as Hcc by (cbn [concat]; rewrite W2; symmetry; exact P1).
        rewrite <- ?app_assoc, <- Hcc. apply srv_te_output.
        -- exact Hdc.
        -- constructor; assumption.
        -- rewrite Hcc. exact Hlt.
    + (* the true length declared *)
      exists [(CLN, dec_of (N.of_nat (length (concat pieces))))].
      pose proof (srv_with_body_declared pieces accepted _ Hdc Hdl (N.le_refl _)) as D1.
      rewrite Nat2N.id, firstn_all in D1.
      split; [exact D1 | left; reflexivity].
Qed.

End Shapes.

(* ------------------------------------------------------------------ the statements *)
(* [server_received] covers the one-read server_receive and every segmentation of the bytes behind the head.
   A reader delivering the body in arbitrary pieces; chunked declared, nothing declared, or the true length declared. *)
Theorem server_reads_request_reader_segmented : forall method uri dated fs dv pieces accepted,
  wf_user_fields fs = true -> wf_date_value dv = true -> server_inputs_ok method uri fs = true ->
  (N.of_nat (length (concat pieces)) < 2 ^ 64)%N ->
  (declared_chunked fs = true \/ declared_length fs = None \/ declared_length fs = Some (N.of_nat (length (concat pieces)))) ->
  exists r framing,
    server_received (out_of (write_request method uri (user_headers dated fs) (date_line dv) pieces accepted))
                    (method, uri, r, concat pieces)
    /\ r = headers_of (shown_fields dated fs dv ++ framing)
    /\ stored r = shown_fields dated fs dv ++ filter (fun f => negb (is_clf f)) framing
    /\ te_present r && negb (te_final_chunked r) = false
    /\ framing_for fs (length (concat pieces)) framing.
Proof.
  intros method uri dated fs dv pieces accepted Hwf Hdv Hin Hlt Hdecl.
  destruct (server_inputs_inv method uri fs Hin) as (Hm & Hu & Hfok).
  destruct (srv_with_body method uri dated fs dv Hm Hu Hwf Hdv Hfok pieces accepted Hlt Hdecl)
    as (framing & R & F).
  exists (headers_of (shown_fields dated fs dv ++ framing)), framing.
  split; [exact R|]. split; [reflexivity|]. split; [apply stored_received|].
  split; [exact (gate_framing dated fs dv Hwf _ framing F) | exact F].
Qed.

Theorem server_reads_request_reader : forall method uri dated fs dv pieces accepted,
  wf_user_fields fs = true -> wf_date_value dv = true -> server_inputs_ok method uri fs = true ->
  (N.of_nat (length (concat pieces)) < 2 ^ 64)%N ->
  (declared_chunked fs = true \/ declared_length fs = None \/ declared_length fs = Some (N.of_nat (length (concat pieces)))) ->
  exists r framing,
    server_receive (out_of (write_request method uri (user_headers dated fs) (date_line dv) pieces accepted))
      = Some (method, uri, r, concat pieces)
    /\ r = headers_of (shown_fields dated fs dv ++ framing)
    /\ stored r = shown_fields dated fs dv ++ filter (fun f => negb (is_clf f)) framing
    /\ te_present r && negb (te_final_chunked r) = false
    /\ framing_for fs (length (concat pieces)) framing.
Proof.
  intros method uri dated fs dv pieces accepted Hwf Hdv Hin Hlt Hdecl.
  destruct (server_reads_request_reader_segmented method uri dated fs dv pieces accepted Hwf Hdv Hin Hlt Hdecl)
    as (r & framing & (R & _) & E & St & G & F).
  exists r, framing. repeat split; assumption.
Qed.

(* a declared Content-Length shorter than what the reader holds: the server reads exactly the declared prefix *)
Theorem server_reads_declared_prefix_segmented : forall method uri dated fs dv pieces accepted d,
  wf_user_fields fs = true -> wf_date_value dv = true -> server_inputs_ok method uri fs = true ->
  declared_chunked fs = false -> declared_length fs = Some d -> (d <= N.of_nat (length (concat pieces)))%N ->
  exists r,
    server_received (out_of (write_request method uri (user_headers dated fs) (date_line dv) pieces accepted))
                    (method, uri, r, firstn (N.to_nat d) (concat pieces))
    /\ r = headers_of (shown_fields dated fs dv ++ [(bs "content-length", dec_of d)])
    /\ stored r = shown_fields dated fs dv
    /\ te_present r && negb (te_final_chunked r) = false.
Proof.
  intros method uri dated fs dv pieces accepted d Hwf Hdv Hin Hdc Hdl Hle.
  destruct (server_inputs_inv method uri fs Hin) as (Hm & Hu & Hfok).
  exists (headers_of (shown_fields dated fs dv ++ [(bs "content-length", dec_of d)])).
  split; [exact (srv_with_body_declared method uri dated fs dv Hm Hu Hwf Hdv Hfok pieces accepted d Hdc Hdl Hle)|].
  split; [reflexivity|]. split.
  - rewrite stored_received. cbn [filter]. change (is_clf (bs "content-length", dec_of d)) with true.
    cbn [negb]. apply app_nil_r.
  - apply (gate_shown dated fs dv Hwf). right. split; [exact Hdc|]. left. reflexivity.
Qed.

Theorem server_reads_declared_prefix : forall method uri dated fs dv pieces accepted d,
  wf_user_fields fs = true -> wf_date_value dv = true -> server_inputs_ok method uri fs = true ->
  declared_chunked fs = false -> declared_length fs = Some d -> (d <= N.of_nat (length (concat pieces)))%N ->
  server_receive (out_of (write_request method uri (user_headers dated fs) (date_line dv) pieces accepted))
    = Some (method, uri, headers_of (shown_fields dated fs dv ++ [(bs "content-length", dec_of d)]),
            firstn (N.to_nat d) (concat pieces)).
Proof.
  intros method uri dated fs dv pieces accepted d Hwf Hdv Hin Hdc Hdl Hle.
  destruct (server_reads_declared_prefix_segmented method uri dated fs dv pieces accepted d Hwf Hdv Hin Hdc Hdl Hle)
    as (r & (R & _) & E & _). rewrite <- E. exact R.
Qed.

(* the framing gate of handle_one_request (a Transfer-Encoding whose final coding is not chunked: 400)
   passes for the header collection the server reads back, in all the cases above *)
Theorem server_gate_passes : forall method uri dated fs dv pieces accepted m u r b,
  wf_user_fields fs = true -> wf_date_value dv = true -> server_inputs_ok method uri fs = true ->
  (N.of_nat (length (concat pieces)) < 2 ^ 64)%N ->
  (declared_chunked fs = true \/ declared_length fs = None \/
   exists d, declared_length fs = Some d /\ (d <= N.of_nat (length (concat pieces)))%N) ->
  server_receive (out_of (write_request method uri (user_headers dated fs) (date_line dv) pieces accepted)) = Some (m, u, r, b) ->
  te_present r && negb (te_final_chunked r) = false.
Proof.
  intros method uri dated fs dv pieces accepted m u r b Hwf Hdv Hin Hlt Hdecl Hrecv.
  destruct (declared_chunked fs) eqn:Hdc.
  - destruct (server_reads_request_reader method uri dated fs dv pieces accepted Hwf Hdv Hin Hlt (or_introl Hdc))
      as (r' & framing & R & _ & _ & G & _).
    rewrite R in Hrecv. inversion Hrecv; subst. exact G.
  - destruct Hdecl as [C|[Hdl|(d & Hdl & Hle)]]; [discriminate C| |].
    + destruct (server_reads_request_reader method uri dated fs dv pieces accepted Hwf Hdv Hin Hlt (or_intror (or_introl Hdl)))
        as (r' & framing & R & _ & _ & G & _).
      rewrite R in Hrecv. inversion Hrecv; subst. exact G.
    + destruct (server_reads_declared_prefix_segmented method uri dated fs dv pieces accepted d Hwf Hdv Hin Hdc Hdl Hle)
        as (r' & (R & _) & _ & _ & G).
      rewrite R in Hrecv. inversion Hrecv; subst. exact G.
Qed.

(* the handler's read_to_end loop (Model/Server.v) over the body reader of the parsed request returns
   the same body, with any fuel that allows one read per body byte and one more *)
Theorem server_handler_reads_request : forall method uri dated fs dv pieces accepted,
  wf_user_fields fs = true -> wf_date_value dv = true -> server_inputs_ok method uri fs = true ->
  (N.of_nat (length (concat pieces)) < 2 ^ 64)%N ->
  (declared_chunked fs = true \/ declared_length fs = None \/ declared_length fs = Some (N.of_nat (length (concat pieces)))) ->
  let wire := out_of (write_request method uri (user_headers dated fs) (date_line dv) pieces accepted) in
  exists r, parse_request wire = Ok r /\ method_str (q_meth r) = method /\ full (q_target r) = uri /\
    forall fuel, length (concat pieces) < fuel ->
      fst (read_to_end fuel (from_request (skipn (q_offset r) wire) [] (q_hdrs r)) []) = inl (concat pieces).
Proof.
  intros method uri dated fs dv pieces accepted Hwf Hdv Hin Hlt Hdecl wire.
  destruct (server_reads_request_reader_segmented method uri dated fs dv pieces accepted Hwf Hdv Hin Hlt Hdecl)
    as (r & framing & (_ & hl & Hhl & Hseg) & _). fold wire in Hhl, Hseg.
  specialize (Hseg (length wire) [] (repeat READ_SIZE (S (length (concat pieces)))) Hhl).
  rewrite firstn_all, skipn_all in Hseg. specialize (Hseg eq_refl).
  assert (positive_sizes (repeat READ_SIZE (S (length (concat pieces))))) as Hpos.
  { unfold positive_sizes. apply Forall_forall. intros k Hk. apply repeat_spec in Hk. subst k. reflexivity. }
  specialize (Hseg Hpos). cbn [snd] in Hseg. rewrite repeat_length in Hseg. specialize (Hseg (Nat.lt_succ_diag_r _)).
  unfold server_receive_from in Hseg.
  destruct (parse_request wire) as [q| |]; try discriminate Hseg. cbv zeta in Hseg.
  revert Hseg.
  match goal with |- context [read_all ?bb ?ss ?aa] => destruct (read_all bb ss aa) as [[data oc] b'] eqn:ER end.
  intros Hseg. destruct oc; try discriminate Hseg. injection Hseg as E1 E2 _ E4.
  exists q. split; [reflexivity|]. split; [exact E1|]. split; [exact E2|].
  intros fuel Hf. assert (S (length (concat pieces)) <= fuel) as Hf' by lia.
  pose proof (read_to_end_read_all _ _ _ _ _ fuel ER Hf') as RT. rewrite E4 in RT. exact (f_equal fst RT).
Qed.

(* ------------------------------------------------------------------ the conditions on method and target are exact *)
(* whatever bytes arrive: a method and a target the server reports satisfy the side conditions, and
   stand at the start of the bytes, each followed by SP *)
Theorem server_reports_need_conditions : forall buf stream sizes m u r b,
  server_receive_from buf stream sizes = Some (m, u, r, b) ->
  server_method_ok m = true /\ server_uri_ok u = true /\ exists rest, buf = m ++ x20 :: u ++ x20 :: rest.
Proof.
  intros buf stream sizes m u r b H. unfold server_receive_from in H.
  destruct (parse_request buf) as [q| |] eqn:Ep; try discriminate H. cbv zeta in H.
  destruct (read_all (from_request (skipn (q_offset q) buf) stream (q_hdrs q)) sizes []) as [[data oc] b'].
  destruct oc; try discriminate H. inversion H; subst.
  exact (parse_request_reports buf q Ep).
Qed.

(* hence: a printed request is read back with its method and target only if they satisfy them *)
Corollary server_conditions_needed : forall method uri h date pieces accepted r b,
  server_receive (out_of (write_request method uri h date pieces accepted)) = Some (method, uri, r, b) ->
  server_method_ok method = true /\ server_uri_ok uri = true.
Proof.
  intros method uri h date pieces accepted r b H. unfold server_receive in H.
  destruct (server_reports_need_conditions _ _ _ _ _ _ _ H) as (H1 & H2 & _). split; assumption.
Qed.

(* ------------------------------------------------------------------ the side conditions cannot be dropped *)
(* Each witness satisfies the hypotheses of C08_request (the printer emits the request, the strict
   decoder of Spec/MessageSpec.v reads it); khttp's own server does not read it back: it answers 400. *)

(* a method that is an RFC 9110 token but not alphabetic - here "M-SEARCH", which Method::from
   turns into Method::Custom - is printed as is and rejected by parse_method (MalformedStatusLine) *)
Lemma server_method_refuted : exists method uri dated fs dv pieces accepted,
  no_crlf method = true /\ no_crlf uri = true /\ wf_user_fields fs = true /\ wf_date_value dv = true /\
  forallb HttpGrammar.is_tchar method = true /\ server_uri_ok uri = true /\ forallb server_field_ok fs = true /\
  parse_request (out_of (write_request method uri (user_headers dated fs) (date_line dv) pieces accepted)) = Err EStatus /\
  server_receive (out_of (write_request method uri (user_headers dated fs) (date_line dv) pieces accepted)) = None.
Proof.
  exists (bs "M-SEARCH"), (bs "*"), false, [(bs "Host", bs "239.255.255.250:1900")],
         (bs "Thu, 01 Jan 1970 00:00:00 GMT"), [], 0.
  repeat (apply conj); vm_compute; reflexivity.
Qed.

(* a target with a byte outside visible ASCII - here the UTF-8 string "/café", a legal &str for
   Client::exchange - is printed as is and rejected by parse_uri (MalformedStatusLine) *)
Lemma server_uri_refuted : exists method uri dated fs dv pieces accepted,
  no_crlf method = true /\ no_crlf uri = true /\ wf_user_fields fs = true /\ wf_date_value dv = true /\
  server_method_ok method = true /\ forallb server_field_ok fs = true /\
  parse_request (out_of (write_request method uri (user_headers dated fs) (date_line dv) pieces accepted)) = Err EStatus /\
  server_receive (out_of (write_request method uri (user_headers dated fs) (date_line dv) pieces accepted)) = None.
Proof.
  exists (bs "GET"), (bs "/caf" ++ [xc3; xa9]), false, [(bs "Host", bs "example.com")],
         (bs "Thu, 01 Jan 1970 00:00:00 GMT"), [], 0.
  repeat (apply conj); vm_compute; reflexivity.
Qed.

(* a target with a space: the server takes "/a" for the target and fails on the version *)
Lemma server_uri_space_refuted : exists method uri dated fs dv pieces accepted,
  no_crlf method = true /\ no_crlf uri = true /\ wf_user_fields fs = true /\ wf_date_value dv = true /\
  server_method_ok method = true /\ forallb server_field_ok fs = true /\
  parse_request (out_of (write_request method uri (user_headers dated fs) (date_line dv) pieces accepted)) = Err EVersion /\
  server_receive (out_of (write_request method uri (user_headers dated fs) (date_line dv) pieces accepted)) = None.
Proof.
  exists (bs "GET"), (bs "/a b"), false, [(bs "Host", bs "example.com")],
         (bs "Thu, 01 Jan 1970 00:00:00 GMT"), [], 0.
  repeat (apply conj); vm_compute; reflexivity.
Qed.

(* the empty target (uri = "") *)
Lemma server_uri_empty_refuted : exists method uri dated fs dv pieces accepted,
  no_crlf method = true /\ no_crlf uri = true /\ wf_user_fields fs = true /\ wf_date_value dv = true /\
  server_method_ok method = true /\ forallb server_field_ok fs = true /\
  parse_request (out_of (write_request method uri (user_headers dated fs) (date_line dv) pieces accepted)) = Err EStatus /\
  server_receive (out_of (write_request method uri (user_headers dated fs) (date_line dv) pieces accepted)) = None.
Proof.
  exists (bs "GET"), [], false, [(bs "Host", bs "example.com")],
         (bs "Thu, 01 Jan 1970 00:00:00 GMT"), [], 0.
  repeat (apply conj); vm_compute; reflexivity.
Qed.

(* a field name with a byte that is not a token character - here a space - is printed as is and
   rejected by parse_header_line (MalformedHeader) *)
Lemma server_field_name_refuted : exists method uri dated fs dv pieces accepted,
  no_crlf method = true /\ no_crlf uri = true /\ wf_user_fields fs = true /\ wf_date_value dv = true /\
  server_method_ok method = true /\ server_uri_ok uri = true /\
  parse_request (out_of (write_request method uri (user_headers dated fs) (date_line dv) pieces accepted)) = Err EHeader /\
  server_receive (out_of (write_request method uri (user_headers dated fs) (date_line dv) pieces accepted)) = None.
Proof.
  exists (bs "POST"), (bs "/submit"), false, [(bs "my header", bs "v")],
         (bs "Thu, 01 Jan 1970 00:00:00 GMT"), [bs "hello"], 0.
  repeat (apply conj); vm_compute; reflexivity.
Qed.

(* server_uri_ok is wider than the URI bytes: a target that starts with '/' may carry any visible
   ASCII (here a double quote and angle brackets), and the server reports it unchanged *)
Example server_ex_wide_target :
  server_uri_ok (bs "/a""b<c>?x=^") = true /\ uri_bytes_ok (bs "/a""b<c>?x=^") = false /\
  match server_receive (out_of (write_request (bs "GET") (bs "/a""b<c>?x=^") (user_headers false []) [] [] 0)) with
  | Some (m, u, r, body) => Some (m, u, stored r, content_length r, body)
  | None => None
  end = Some (bs "GET", bs "/a""b<c>?x=^", [], Some 0%N, []).
Proof. repeat (apply conj); vm_compute; reflexivity. Qed.

(* ------------------------------------------------------------------ the hypotheses are satisfiable *)
(* the four target forms, the known and an extension method *)
Example server_ex_inputs :
  wf_user_fields [(bs "Host", bs "example.com:8080"); (bs "Content-Type", bs "application/json");
                  (bs "X-Empty", []); (bs "Transfer-Encoding", bs "Chunked")] = true /\
  wf_date_value (bs "Thu, 01 Jan 1970 00:00:00 GMT") = true /\
  server_inputs_ok (bs "PATCH") (bs "/items/42?verbose=1&q=a%20b#frag")
                  [(bs "Host", bs "example.com:8080"); (bs "Content-Type", bs "application/json");
                   (bs "X-Empty", []); (bs "Transfer-Encoding", bs "Chunked")] = true /\
  server_inputs_ok (bs "PROPFIND") (bs "http://user@example.com:8080/dav/?depth=1") [] = true /\
  server_inputs_ok (bs "CONNECT") (bs "example.com:443") [] = true /\
  server_inputs_ok (bs "OPTIONS") (bs "*") [] = true /\
  uri_bytes_ok (bs "http://[::1]:8080/a/b;c=1?x=y&z=%41") = true.
Proof. repeat (apply conj); vm_compute; reflexivity. Qed.

Example server_ex_inputs_length :
  wf_user_fields [(bs "content-length", bs "5"); (bs "Host", bs "h")] = true /\
  server_inputs_ok (bs "PUT") (bs "/f") [(bs "content-length", bs "5"); (bs "Host", bs "h")] = true /\
  declared_chunked [(bs "content-length", bs "5"); (bs "Host", bs "h")] = false /\
  declared_length [(bs "content-length", bs "5"); (bs "Host", bs "h")] = Some (N.of_nat (length (concat [bs "hel"; []; bs "lo"]))).
Proof. repeat (apply conj); vm_compute; reflexivity. Qed.

(* the user's own chunked declaration, pieces "hel" "" "lo", absolute-form target, Date line *)
Example server_ex_receive_chunked :
  match server_receive (out_of (write_request (bs "PATCH") (bs "http://example.com:8080/items/42?verbose=1")
          (user_headers true [(bs "Host", bs "example.com:8080"); (bs "X-Empty", []); (bs "Transfer-Encoding", bs "Chunked")])
          (date_line (bs "Thu, 01 Jan 1970 00:00:00 GMT")) [bs "hel"; []; bs "lo"] 3)) with
  | Some (m, u, r, body) =>
      Some (m, u, stored r, content_length r, Headers.chunked r, te_present r && negb (te_final_chunked r), body)
  | None => None
  end =
  Some (bs "PATCH", bs "http://example.com:8080/items/42?verbose=1",
        [(bs "Host", bs "example.com:8080"); (bs "X-Empty", []); (bs "Transfer-Encoding", bs "Chunked");
         (bs "date", bs "Thu, 01 Jan 1970 00:00:00 GMT")],
        None, true, false, bs "hello").
Proof. vm_compute. reflexivity. Qed.

(* nothing declared: the probe ends within PROBE_MAX, the printer adds the content length, which
   Headers::add lifts into the collection on the server side *)
Example server_ex_receive_probe :
  match server_receive (out_of (write_request (bs "POST") (bs "/submit?a=1") (user_headers false [(bs "Host", bs "h")]) []
                                  [bs "he"; bs "llo"] 3)) with
  | Some (m, u, r, body) => Some (m, u, stored r, content_length r, Headers.chunked r, body)
  | None => None
  end = Some (bs "POST", bs "/submit?a=1", [(bs "Host", bs "h")], Some 5%N, false, bs "hello").
Proof. vm_compute. reflexivity. Qed.

(* a declared length shorter than the reader: the declared prefix *)
Example server_ex_receive_prefix :
  match server_receive (out_of (write_request (bs "PUT") (bs "/f") (user_headers false [(bs "content-length", bs "3"); (bs "Host", bs "h")]) []
                                  [bs "he"; bs "llo"] 0)) with
  | Some (m, u, r, body) => Some (m, u, stored r, content_length r, body)
  | None => None
  end = Some (bs "PUT", bs "/f", [(bs "Host", bs "h")], Some 3%N, bs "hel").
Proof. vm_compute. reflexivity. Qed.

Print Assumptions server_reads_request_reader.
Print Assumptions server_reads_request_reader_segmented.
Print Assumptions server_reads_declared_prefix.
Print Assumptions server_reads_declared_prefix_segmented.
Print Assumptions server_gate_passes.
Print Assumptions server_handler_reads_request.
Print Assumptions server_reports_need_conditions.
Print Assumptions server_conditions_needed.
Print Assumptions server_uri_ok_exact.
Print Assumptions uri_bytes_server_ok.
Print Assumptions server_method_refuted.
Print Assumptions server_uri_refuted.
Print Assumptions server_uri_space_refuted.
Print Assumptions server_uri_empty_refuted.
Print Assumptions server_field_name_refuted.
Print Assumptions parse_printed_request.
Print Assumptions parse_request_reports.
Print Assumptions gate_passes.
