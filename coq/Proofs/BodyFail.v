(* A reader that has seen an error once (Model/BodyFail.v): if the discard run on drop reports that it reached the end of
   the body, the body was a valid encoding and the unread bytes are exactly the bytes behind it - whatever the handler did
   and wherever interruptions and failures of the stream fell.
   Method.  [tr] turns a failure into an interruption.  On every level below read_exact / read_until the model over
   sev2 IS the model of Model/BodyIntr.v over [tr] (equations, failures shown as interruptions); above, a call that
   returns Ok has seen no failure inside a retry loop, so it returns what the BodyIntr model returns (implications).
   A call that does not return Ok sets `failed`, after which drain answers false.  So a run whose drain answers true is an
   all-Ok run of the BodyIntr model, for which Proofs/BodyIntr.v gives the position in the recogniser's run. *)
From KV Require Import Lib.Bytes Lib.Utf8 Model.Body Model.BodyIntr Model.BodyFail Spec.ChunkedSpec
  Proofs.BodyBase Proofs.BodyBaseChunk Proofs.BodyIntr.

Local Open Scope N_scope.

(* ------------------------------------------------------------------ failures seen as interruptions *)
Definition tr1 (e : sev2) : sev := match e with S2Data g => SData g | _ => SIntr end.
Definition tr (evs : list sev2) : list sev := map tr1 evs.

Lemma strip_tr evs : strip (tr evs) = strip2 evs.
Proof. induction evs as [|[g| |] r IH]; [reflexivity|..]; cbn [tr map tr1 strip strip2]; fold (tr r); rewrite ?IH; reflexivity. Qed.
Lemma count_tr evs : count_intr (tr evs) = count_nd evs.
Proof. induction evs as [|[g| |] r IH]; [reflexivity|..]; cbn [tr map tr1 count_intr count_nd]; fold (tr r); rewrite ?IH; reflexivity. Qed.

Definition trs (s : src_f) : src_e :=
  {| bbuf_e := bbuf_f s; lo_e := lo_f s; evs_e := tr (evs_f s); sfuel_e := sfuel_f s; stake_e := stake_f s |}.
Definition trc (c : chunked_f) : chunked_e :=
  {| c_src_e := trs (c_src_f c); c_state_e := c_state_f c; c_remaining_e := c_remaining_f c |}.
Definition trf (r : fixed_f) : fixed_e := {| f_src_e := trs (f_src_f r); f_remaining_e := f_remaining_f r |}.

Definition fe {S} (r : fres S) : eres S :=
  match r with FOk o s => EOk o s | FErr e s => EErr e s | FIntr s => EIntr s | FFail s => EIntr s end.

Lemma fe_fmap {S T} (f : S -> T) (r : fres S) : fe (fmap f r) = emap f (fe r).
Proof. destruct r; reflexivity. Qed.

Lemma trs_mk lo evs : trs (mk_src_f lo evs) = mk_src_e lo (tr evs).
Proof. unfold trs, mk_src_f, mk_src_e. cbn [bbuf_f lo_f evs_f sfuel_f stake_f]. rewrite strip_tr, count_tr. reflexivity. Qed.
Lemma trs_mk_take lo evs n : trs (mk_src_take_f lo evs n) = mk_src_take_e lo (tr evs) n.
Proof. unfold trs, mk_src_take_f, mk_src_take_e. cbn [bbuf_f lo_f evs_f sfuel_f stake_f]. rewrite strip_tr, count_tr. reflexivity. Qed.

(* ---- equations below the retry loops *)
Lemma tr_stream_read k ev : stream_read_e k (tr ev) = fe (fmap tr (stream_read_f k ev)).
Proof.
  induction ev as [|[g| |] rest IH]; try reflexivity.
  destruct g as [|x g].
  - cbn [tr map tr1 stream_read_e stream_read_f]. exact IH.
  - cbn [tr map tr1 stream_read_e stream_read_f]. destruct (skipnN k (x :: g)); reflexivity.
Qed.

Definition tr_t (t : bytes * list sev2) : bytes * list sev := (fst t, tr (snd t)).
Definition tr_t3 (t : bytes * list sev2 * option N) : bytes * list sev * option N :=
  let '(l, ev, tk) := t in (l, tr ev, tk).

Lemma tr_inner_read k l ev : inner_read_e k l (tr ev) = fe (fmap tr_t (inner_read_f k l ev)).
Proof.
  unfold inner_read_e, inner_read_f. destruct l as [|x l]; [|reflexivity].
  rewrite tr_stream_read. destruct (stream_read_f k ev); reflexivity.
Qed.

Lemma tr_take_read k s : take_read_e k (trs s) = fe (fmap tr_t3 (take_read_f k s)).
Proof.
  unfold take_read_e, take_read_f.
  change (stake_e (trs s)) with (stake_f s). change (lo_e (trs s)) with (lo_f s).
  change (evs_e (trs s)) with (tr (evs_f s)).
  destruct (stake_f s) as [lim|].
  - destruct (N.eqb lim 0); [reflexivity|]. rewrite tr_inner_read.
    destruct (inner_read_f (N.min k lim) (lo_f s) (evs_f s)) as [o [l' ev']|e [l' ev']|[l' ev']|[l' ev']]; reflexivity.
  - rewrite tr_inner_read.
    destruct (inner_read_f k (lo_f s) (evs_f s)) as [o [l' ev']|e [l' ev']|[l' ev']|[l' ev']]; reflexivity.
Qed.

Lemma tr_with_tail s b t : with_tail (trs s) b (tr_t3 t) = trs (with_tail_f s b t).
Proof. destruct t as [[l ev] tk]. reflexivity. Qed.

Lemma tr_fill_buf s : fill_buf_e (trs s) = fe (fmap trs (fill_buf_f s)).
Proof.
  unfold fill_buf_e, fill_buf_f. change (bbuf_e (trs s)) with (bbuf_f s).
  destruct (bbuf_f s) as [|x b] eqn:Eb.
  - rewrite tr_take_read. destruct (take_read_f BUF_SIZE s) as [o t|e t|t|t]; cbn [fmap fe]; rewrite tr_with_tail; reflexivity.
  - reflexivity.
Qed.

Lemma tr_consume n s : consume_e n (trs s) = trs (consume_f n s).
Proof. reflexivity. Qed.

Lemma tr_buf_read k s : buf_read_e k (trs s) = fe (fmap trs (buf_read_f k s)).
Proof.
  unfold buf_read_e, buf_read_f. change (bbuf_e (trs s)) with (bbuf_f s).
  destruct (bbuf_f s) as [|x b] eqn:Eb.
  - destruct (N.leb BUF_SIZE k).
    + rewrite tr_take_read. destruct (take_read_f k s) as [o t|e t|t|t]; cbn [fmap fe]; rewrite tr_with_tail; reflexivity.
    + rewrite tr_fill_buf. destruct (fill_buf_f s) as [o s'|e s'|s'|s']; reflexivity.
  - reflexivity.
Qed.

(* ---- a retry loop that returns Ok has met no failure *)
Lemma tr_read_exact_loop fuel : forall n s acc x s',
  read_exact_loop_f fuel n s acc = FOk x s' -> read_exact_loop_e fuel n (trs s) acc = Some (x, trs s').
Proof.
  induction fuel as [|fuel IH]; intros n s acc x s' H; cbn [read_exact_loop_f read_exact_loop_e] in *.
  - destruct (N.eqb n 0); [|discriminate]. inversion H. reflexivity.
  - destruct (N.eqb n 0); [inversion H; reflexivity|].
    rewrite tr_buf_read. destruct (buf_read_f n s) as [o s1|e s1|s1|s1]; cbn [fmap fe]; try discriminate.
    + destruct o as [|o0 o]; [discriminate|]. apply IH. exact H.
    + apply IH. exact H.
Qed.

Lemma tr_read_exact n s x s' : read_exact_f n s = FOk x s' -> read_exact_e n (trs s) = Some (x, trs s').
Proof.
  unfold read_exact_f, read_exact_e. change (bbuf_e (trs s)) with (bbuf_f s).
  destruct (N.leb n (lenN (firstnN n (bbuf_f s)))).
  - intros H. inversion H. reflexivity.
  - change (evs_e (trs s)) with (tr (evs_f s)). rewrite count_tr. apply tr_read_exact_loop.
Qed.

Lemma tr_read_until_lf fuel : forall s acc l s',
  read_until_lf_f fuel s acc = FOk l s' -> read_until_lf_e fuel (trs s) acc = (l, trs s').
Proof.
  induction fuel as [|fuel IH]; intros s acc l s' H; cbn [read_until_lf_f read_until_lf_e] in *.
  - inversion H. reflexivity.
  - rewrite tr_fill_buf. destruct (fill_buf_f s) as [avail s1|e s1|s1|s1]; cbn [fmap fe]; try discriminate.
    + destruct (find_index (Byte.eqb x0a) avail) as [i|].
      * inversion H. reflexivity.
      * destruct avail as [|a0 avail]; [inversion H; reflexivity|].
        rewrite tr_consume. apply IH. exact H.
    + apply IH. exact H.
Qed.

Lemma tr_read_line s l s' : read_line_f s = FOk l s' -> read_line_e (trs s) = (inl l, trs s').
Proof.
  unfold read_line_f, read_line_e. change (sfuel_e (trs s)) with (sfuel_f s).
  destruct (read_until_lf_f (sfuel_f s) s []) as [line s1|e s1|s1|s1] eqn:E; try discriminate.
  rewrite (tr_read_until_lf _ _ _ _ _ E).
  destruct (utf8_valid line); [|discriminate]. intros H. inversion H. reflexivity.
Qed.

Lemma read_chunk_size_f_eq c :
  read_chunk_size_f c =
  let back s' := {| c_src_f := s'; c_state_f := c_state_f c; c_remaining_f := c_remaining_f c |} in
  match read_line_f (c_src_f c) with
  | FErr e s' => FErr e (back s')
  | FIntr s' => FIntr (back s')
  | FFail s' => FFail (back s')
  | FOk line s' =>
      match parse_size_line line with
      | inl e => FErr e (back s')
      | inr n => FOk [] {| c_src_f := s'; c_state_f := size_state n; c_remaining_f := n |}
      end
  end.
Proof.
  unfold read_chunk_size_f, parse_size_line, hd_split, size_state. cbv zeta.
  destruct (read_line_f (c_src_f c)) as [line s'|e s'|s'|s']; try reflexivity.
  destruct line as [|b line]; [reflexivity|].
  destruct (strip_suffix_byte x0a (b :: line)) as [l1|]; [|reflexivity].
  remember (match strip_suffix_byte x0d l1 with Some x => x | None => l1 end) as l2 eqn:El2.
  destruct (split_on x3b l2) as [|hx tl]; [reflexivity|].
  destruct hx as [|h0 hex]; [reflexivity|].
  destruct (forallb is_hexdigit (h0 :: hex)); [|reflexivity].
  destruct (parse_hex 0 (h0 :: hex)); reflexivity.
Qed.

Lemma tr_read_chunk_size c o c' : read_chunk_size_f c = FOk o c' -> read_chunk_size_e (trc c) = ROk o (trc c').
Proof.
  rewrite read_chunk_size_f_eq, read_chunk_size_e_eq. cbv zeta.
  change (c_src_e (trc c)) with (trs (c_src_f c)).
  destruct (read_line_f (c_src_f c)) as [line s'|e s'|s'|s'] eqn:E; try discriminate.
  rewrite (tr_read_line _ _ _ E).
  destruct (parse_size_line line); [discriminate|]. intros H. inversion H. reflexivity.
Qed.

Lemma tr_trailer_loop fuel : forall s o s', trailer_loop_f fuel s = FOk o s' -> trailer_loop_e fuel (trs s) = (None, trs s').
Proof.
  induction fuel as [|fuel IH]; intros s o s' H; cbn [trailer_loop_f trailer_loop_e] in *; [discriminate|].
  destruct (read_line_f s) as [line s1|e s1|s1|s1] eqn:E; try discriminate.
  rewrite (tr_read_line _ _ _ E).
  destruct line as [|l0 line]; [discriminate|].
  destruct (bytes_eqb (l0 :: line) [x0d; x0a] || bytes_eqb (l0 :: line) [x0a]).
  - inversion H. reflexivity.
  - apply (IH _ o). exact H.
Qed.

Lemma tr_advance fuel : forall c o c', advance_f fuel c = FOk o c' -> advance_e fuel (trc c) = ROk o (trc c').
Proof.
  induction fuel as [|fuel IH]; intros c o c' H; cbn [advance_f advance_e] in *; [discriminate|].
  change (c_state_e (trc c)) with (c_state_f c). destruct (c_state_f c) eqn:Est.
  - destruct (read_chunk_size_f c) as [o1 c1|e c1|c1|c1] eqn:E; try discriminate.
    rewrite (tr_read_chunk_size _ _ _ E). apply IH. exact H.
  - change (c_remaining_e (trc c)) with (c_remaining_f c).
    destruct (N.eqb (c_remaining_f c) 0).
    + apply (IH _ _ _ H).
    + inversion H. reflexivity.
  - cbv zeta in H. change (c_src_e (trc c)) with (trs (c_src_f c)).
    destruct (read_exact_f 2 (c_src_f c)) as [crlf s1|e s1|s1|s1] eqn:E; try discriminate.
    rewrite (tr_read_exact _ _ _ _ E).
    destruct (bytes_eqb crlf [x0d; x0a]); [|discriminate].
    apply (IH _ _ _ H).
  - cbv zeta in H. change (c_src_e (trc c)) with (trs (c_src_f c)).
    change (sfuel_e (trs (c_src_f c))) with (sfuel_f (c_src_f c)).
    destruct (trailer_loop_f (sfuel_f (c_src_f c)) (c_src_f c)) as [o1 s1|e s1|s1|s1] eqn:E; try discriminate.
    rewrite (tr_trailer_loop _ _ _ _ E).
    apply (IH _ _ _ H).
  - inversion H. reflexivity.
Qed.

Ltac trc_norm c1 :=
  change (c_state_e (trc c1)) with (c_state_f c1); change (c_remaining_e (trc c1)) with (c_remaining_f c1);
  change (c_src_e (trc c1)) with (trs (c_src_f c1)).

Lemma tr_chunked_read_loop fuel : forall k c w out c',
  chunked_read_loop_f fuel k c w = FOk out c' -> chunked_read_loop_e fuel k (trc c) w = EOk out (trc c').
Proof.
  induction fuel as [|fuel IH]; intros k c w out c' H; cbn [chunked_read_loop_f chunked_read_loop_e] in *.
  - inversion H. reflexivity.
  - change (adv_fuel_e (trc c)) with (adv_fuel_f c).
    destruct (advance_f (adv_fuel_f c) c) as [o1 c1|e c1|c1|c1] eqn:E; try discriminate.
    rewrite (tr_advance _ _ _ _ E). trc_norm c1. cbv zeta in *.
    assert (G : forall st, (if N.eqb k 0 then FOk w c1 else
                let to_read := N.min (c_remaining_f c1) k in
                let back s' := {| c_src_f := s'; c_state_f := st; c_remaining_f := c_remaining_f c1 |} in
                match buf_read_f to_read (c_src_f c1) with
                | FIntr s' => match w with [] => FIntr (back s') | _ => FOk w (back s') end
                | FFail s' => match w with [] => FFail (back s') | _ => FOk w (back s') end
                | FErr e s' => match w with [] => FErr e (back s') | _ => FOk w (back s') end
                | FOk [] s' => FErr EUnexpectedEof (back s')
                | FOk out s' =>
                    let n := lenN out in
                    let c2 := {| c_src_f := s'; c_state_f := st; c_remaining_f := (c_remaining_f c1 - n)%N |} in
                    if N.eqb (c_remaining_f c2) 0 || N.eqb (k - n) 0 then FOk (w ++ out) c2
                    else chunked_read_loop_f fuel (k - n)%N c2 (w ++ out)
                end) = FOk out c' ->
            (if N.eqb k 0 then EOk w (trc c1) else
                let to_read := N.min (c_remaining_f c1) k in
                let back s' := {| c_src_e := s'; c_state_e := st; c_remaining_e := c_remaining_f c1 |} in
                match buf_read_e to_read (trs (c_src_f c1)) with
                | EIntr s' => match w with [] => EIntr (back s') | _ => EOk w (back s') end
                | EErr e s' => match w with [] => EErr e (back s') | _ => EOk w (back s') end
                | EOk [] s' => EErr EUnexpectedEof (back s')
                | EOk out s' =>
                    let n := lenN out in
                    let c2 := {| c_src_e := s'; c_state_e := st; c_remaining_e := (c_remaining_f c1 - n)%N |} in
                    if N.eqb (c_remaining_e c2) 0 || N.eqb (k - n) 0 then EOk (w ++ out) c2
                    else chunked_read_loop_e fuel (k - n)%N c2 (w ++ out)
                end) = EOk out (trc c')).
    { intros st. destruct (N.eqb k 0); [intros G; inversion G; reflexivity|]. cbv zeta.
      rewrite tr_buf_read.
      destruct (buf_read_f (N.min (c_remaining_f c1) k) (c_src_f c1)) as [o s1|e s1|s1|s1]; cbn [fmap fe].
      - destruct o as [|o0 o]; [discriminate|].
        cbn [c_remaining_f c_remaining_e].
        destruct (N.eqb (c_remaining_f c1 - lenN (o0 :: o)) 0 || N.eqb (k - lenN (o0 :: o)) 0).
        + intros G; inversion G; reflexivity.
        + intros G. apply IH in G. exact G.
      - destruct w; [discriminate|]. intros G; inversion G; reflexivity.
      - destruct w; [discriminate|]. intros G; inversion G; reflexivity.
      - destruct w; [discriminate|]. intros G; inversion G; reflexivity. }
    destruct (c_state_f c1) eqn:Est; try (exact (G _ H)).
    inversion H. reflexivity.
Qed.

Lemma tr_chunked_read k c out c' : chunked_read_f k c = FOk out c' -> chunked_read_e k (trc c) = EOk out (trc c').
Proof. unfold chunked_read_f, chunked_read_e. apply tr_chunked_read_loop. Qed.

Lemma tr_chunked_fill_buf c sl c' : chunked_fill_buf_f c = FOk sl c' -> chunked_fill_buf_e (trc c) = EOk sl (trc c').
Proof.
  unfold chunked_fill_buf_f, chunked_fill_buf_e. change (adv_fuel_e (trc c)) with (adv_fuel_f c).
  destruct (advance_f (adv_fuel_f c) c) as [o1 c1|e c1|c1|c1] eqn:E; try discriminate.
  rewrite (tr_advance _ _ _ _ E). trc_norm c1. cbv zeta.
  assert (G : forall st,
              (let back s' := {| c_src_f := s'; c_state_f := st; c_remaining_f := c_remaining_f c1 |} in
               match fill_buf_f (c_src_f c1) with
               | FIntr s' => FIntr (back s')
               | FFail s' => FFail (back s')
               | FErr e s' => FErr e (back s')
               | FOk [] s' => FErr EUnexpectedEof (back s')
               | FOk b s' => FOk (firstnN (c_remaining_f c1) b) (back s')
               end) = FOk sl c' ->
              (let back s' := {| c_src_e := s'; c_state_e := st; c_remaining_e := c_remaining_f c1 |} in
               match fill_buf_e (trs (c_src_f c1)) with
               | EIntr s' => EIntr (back s')
               | EErr e s' => EErr e (back s')
               | EOk [] s' => EErr EUnexpectedEof (back s')
               | EOk b s' => EOk (firstnN (c_remaining_f c1) b) (back s')
               end) = EOk sl (trc c')).
  { intros st. cbv zeta. rewrite tr_fill_buf. destruct (fill_buf_f (c_src_f c1)) as [o s1|e s1|s1|s1]; cbn [fmap fe]; try discriminate.
    destruct o as [|b0 b]; [discriminate|]. intros G; inversion G; reflexivity. }
  destruct (c_state_f c1) eqn:Est; try (exact (G _)).
  intros H. inversion H. reflexivity.
Qed.

Lemma tr_chunked_consume n c : chunked_consume_e n (trc c) = trc (chunked_consume_f n c).
Proof. reflexivity. Qed.

(* ------------------------------------------------------------------ no Take in front of a chunked body: stake stays None *)
Lemma st_take_read k s : stake_f s = None -> snd (res_st (take_read_f k s)) = None.
Proof. unfold take_read_f. intros ->. destruct (inner_read_f k (lo_f s) (evs_f s)); reflexivity. Qed.

Lemma st_with_tail s b t : stake_f (with_tail_f s b t) = snd t.
Proof. destruct t as [[l ev] tk]. reflexivity. Qed.

Lemma st_fill_buf s : stake_f s = None -> stake_f (res_st (fill_buf_f s)) = None.
Proof.
  intros H. unfold fill_buf_f. destruct (bbuf_f s); [|exact H].
  pose proof (st_take_read BUF_SIZE s H) as T.
  destruct (take_read_f BUF_SIZE s); cbn [res_st] in *; rewrite st_with_tail; exact T.
Qed.

Lemma st_buf_read k s : stake_f s = None -> stake_f (res_st (buf_read_f k s)) = None.
Proof.
  intros H. unfold buf_read_f. destruct (bbuf_f s); [|exact H]. destruct (N.leb BUF_SIZE k).
  - pose proof (st_take_read k s H) as T.
    destruct (take_read_f k s); cbn [res_st] in *; rewrite st_with_tail; exact T.
  - pose proof (st_fill_buf s H) as T. destruct (fill_buf_f s); cbn [res_st] in *; exact T.
Qed.

Lemma st_read_exact_loop fuel : forall n s acc, stake_f s = None ->
  stake_f (res_st (read_exact_loop_f fuel n s acc)) = None.
Proof.
  induction fuel as [|fuel IH]; intros n s acc H; cbn [read_exact_loop_f]; destruct (N.eqb n 0); try exact H.
  pose proof (st_buf_read n s H) as T.
  destruct (buf_read_f n s) as [o s1|e s1|s1|s1]; cbn [res_st] in *; try exact T.
  - destruct o; [exact T|apply IH; exact T].
  - apply IH; exact T.
Qed.

Lemma st_read_exact n s : stake_f s = None -> stake_f (res_st (read_exact_f n s)) = None.
Proof.
  intros H. unfold read_exact_f. destruct (N.leb n (lenN (firstnN n (bbuf_f s)))); [exact H|].
  apply st_read_exact_loop. exact H.
Qed.

Lemma st_read_until_lf fuel : forall s acc, stake_f s = None ->
  stake_f (res_st (read_until_lf_f fuel s acc)) = None.
Proof.
  induction fuel as [|fuel IH]; intros s acc H; cbn [read_until_lf_f]; [exact H|].
  pose proof (st_fill_buf s H) as T.
  destruct (fill_buf_f s) as [o s1|e s1|s1|s1]; cbn [res_st] in *; try exact T.
  - destruct (find_index (Byte.eqb x0a) o); [exact T|]. destruct o; [exact T|]. apply IH. exact T.
  - apply IH; exact T.
Qed.

Lemma st_read_line s : stake_f s = None -> stake_f (res_st (read_line_f s)) = None.
Proof.
  intros H. unfold read_line_f. pose proof (st_read_until_lf (sfuel_f s) s [] H) as T.
  destruct (read_until_lf_f (sfuel_f s) s []) as [o s1|e s1|s1|s1]; cbn [res_st] in *; try exact T.
  destruct (utf8_valid o); exact T.
Qed.

Lemma st_read_chunk_size c : stake_f (c_src_f c) = None -> stake_f (c_src_f (res_st (read_chunk_size_f c))) = None.
Proof.
  intros H. rewrite read_chunk_size_f_eq. cbv zeta. pose proof (st_read_line _ H) as T.
  destruct (read_line_f (c_src_f c)) as [o s1|e s1|s1|s1]; cbn [res_st] in *; try exact T.
  destruct (parse_size_line o); exact T.
Qed.

Lemma st_trailer_loop fuel : forall s, stake_f s = None -> stake_f (res_st (trailer_loop_f fuel s)) = None.
Proof.
  induction fuel as [|fuel IH]; intros s H; cbn [trailer_loop_f]; [exact H|].
  pose proof (st_read_line _ H) as T.
  destruct (read_line_f s) as [o s1|e s1|s1|s1]; cbn [res_st] in *; try exact T.
  destruct o as [|o0 o]; [exact T|].
  destruct (bytes_eqb (o0 :: o) [x0d; x0a] || bytes_eqb (o0 :: o) [x0a]); [exact T|]. apply IH. exact T.
Qed.

Lemma st_advance fuel : forall c, stake_f (c_src_f c) = None -> stake_f (c_src_f (res_st (advance_f fuel c))) = None.
Proof.
  induction fuel as [|fuel IH]; intros c H; cbn [advance_f]; [exact H|].
  destruct (c_state_f c).
  - pose proof (st_read_chunk_size c H) as T.
    destruct (read_chunk_size_f c) as [o c1|e c1|c1|c1]; cbn [res_st] in *; try exact T. apply IH. exact T.
  - destruct (N.eqb (c_remaining_f c) 0); [apply IH; exact H|exact H].
  - cbv zeta. pose proof (st_read_exact 2 _ H) as T.
    destruct (read_exact_f 2 (c_src_f c)) as [o s1|e s1|s1|s1]; cbn [res_st] in *; try exact T.
    destruct (bytes_eqb o [x0d; x0a]); [apply IH|]; exact T.
  - cbv zeta. pose proof (st_trailer_loop (sfuel_f (c_src_f c)) _ H) as T.
    destruct (trailer_loop_f (sfuel_f (c_src_f c)) (c_src_f c)) as [o s1|e s1|s1|s1]; cbn [res_st] in *; try exact T.
    apply IH. exact T.
  - exact H.
Qed.

Lemma st_chunked_read_loop fuel : forall k c w, stake_f (c_src_f c) = None ->
  stake_f (c_src_f (res_st (chunked_read_loop_f fuel k c w))) = None.
Proof.
  induction fuel as [|fuel IH]; intros k c w H; cbn [chunked_read_loop_f]; [exact H|].
  pose proof (st_advance (adv_fuel_f c) c H) as T.
  destruct (advance_f (adv_fuel_f c) c) as [o1 c1|e c1|c1|c1]; cbn [res_st] in *; try exact T.
  assert (G : stake_f (c_src_f (res_st (if N.eqb k 0 then FOk w c1 else
              let to_read := N.min (c_remaining_f c1) k in
              let back s' := {| c_src_f := s'; c_state_f := c_state_f c1; c_remaining_f := c_remaining_f c1 |} in
              match buf_read_f to_read (c_src_f c1) with
              | FIntr s' => match w with [] => FIntr (back s') | _ => FOk w (back s') end
              | FFail s' => match w with [] => FFail (back s') | _ => FOk w (back s') end
              | FErr e s' => match w with [] => FErr e (back s') | _ => FOk w (back s') end
              | FOk [] s' => FErr EUnexpectedEof (back s')
              | FOk out s' =>
                  let n := lenN out in
                  let c2 := {| c_src_f := s'; c_state_f := c_state_f c1; c_remaining_f := (c_remaining_f c1 - n)%N |} in
                  if N.eqb (c_remaining_f c2) 0 || N.eqb (k - n) 0 then FOk (w ++ out) c2
                  else chunked_read_loop_f fuel (k - n)%N c2 (w ++ out)
              end))) = None).
  { destruct (N.eqb k 0); [exact T|]. cbv zeta.
    pose proof (st_buf_read (N.min (c_remaining_f c1) k) _ T) as T2.
    destruct (buf_read_f (N.min (c_remaining_f c1) k) (c_src_f c1)) as [o s1|e s1|s1|s1]; cbn [res_st] in *.
    - destruct o as [|o0 o]; [exact T2|]. cbn [c_remaining_f].
      destruct (N.eqb (c_remaining_f c1 - lenN (o0 :: o)) 0 || N.eqb (k - lenN (o0 :: o)) 0); [exact T2|].
      apply IH. exact T2.
    - destruct w; exact T2.
    - destruct w; exact T2.
    - destruct w; exact T2. }
  destruct (c_state_f c1); try exact G. exact T.
Qed.

Lemma st_chunked_read k c : stake_f (c_src_f c) = None -> stake_f (c_src_f (res_st (chunked_read_f k c))) = None.
Proof. apply st_chunked_read_loop. Qed.

Lemma st_chunked_fill_buf c : stake_f (c_src_f c) = None -> stake_f (c_src_f (res_st (chunked_fill_buf_f c))) = None.
Proof.
  intros H. unfold chunked_fill_buf_f.
  pose proof (st_advance (adv_fuel_f c) c H) as T.
  destruct (advance_f (adv_fuel_f c) c) as [o1 c1|e c1|c1|c1]; cbn [res_st] in *; try exact T.
  assert (G : stake_f (c_src_f (res_st (
              let back s' := {| c_src_f := s'; c_state_f := c_state_f c1; c_remaining_f := c_remaining_f c1 |} in
              match fill_buf_f (c_src_f c1) with
              | FIntr s' => FIntr (back s')
              | FFail s' => FFail (back s')
              | FErr e s' => FErr e (back s')
              | FOk [] s' => FErr EUnexpectedEof (back s')
              | FOk b s' => FOk (firstnN (c_remaining_f c1) b) (back s')
              end))) = None).
  { cbv zeta. pose proof (st_fill_buf _ T) as T2.
    destruct (fill_buf_f (c_src_f c1)) as [o s1|e s1|s1|s1]; cbn [res_st] in *; try exact T2.
    destruct o; exact T2. }
  destruct (c_state_f c1); try exact G. exact T.
Qed.

(* ------------------------------------------------------------------ the wrapper: errors set `failed`, `failed` stays *)
Definition is_ok {S} (r : fres S) : bool := match r with FOk _ _ => true | _ => false end.

Lemma br_read_g_failed nf k b :
  br_failed (res_st (br_read_g nf k b)) = br_failed b || sets_failed nf (body_read_f k (br_enc b)).
Proof. unfold br_read_g. destruct (body_read_f k (br_enc b)); reflexivity. Qed.
Lemma br_fill_buf_g_failed nf b :
  br_failed (res_st (br_fill_buf_g nf b)) = br_failed b || sets_failed nf (body_fill_buf_f (br_enc b)).
Proof. unfold br_fill_buf_g. destruct (body_fill_buf_f (br_enc b)); reflexivity. Qed.
Lemma br_read_g_enc nf k b : br_enc (res_st (br_read_g nf k b)) = res_st (body_read_f k (br_enc b)).
Proof. unfold br_read_g. destruct (body_read_f k (br_enc b)); reflexivity. Qed.
Lemma br_fill_buf_g_enc nf b : br_enc (res_st (br_fill_buf_g nf b)) = res_st (body_fill_buf_f (br_enc b)).
Proof. unfold br_fill_buf_g. destruct (body_fill_buf_f (br_enc b)); reflexivity. Qed.

Theorem error_sets_failed : forall k b,
  (is_ok (br_read k b) = false -> br_failed (res_st (br_read k b)) = true) /\
  (is_ok (br_fill_buf b) = false -> br_failed (res_st (br_fill_buf b)) = true).
Proof.
  intros k b. split; intros H.
  - unfold br_read in *. rewrite br_read_g_failed. unfold br_read_g in H.
    destruct (body_read_f k (br_enc b)); cbn [fmap is_ok sets_failed] in *; try discriminate; apply Bool.orb_true_r.
  - unfold br_fill_buf in *. rewrite br_fill_buf_g_failed. unfold br_fill_buf_g in H.
    destruct (body_fill_buf_f (br_enc b)); cbn [fmap is_ok sets_failed] in *; try discriminate; apply Bool.orb_true_r.
Qed.
Print Assumptions error_sets_failed.

Theorem failed_never_located : forall b fuel, br_failed b = true -> fst (br_drain fuel b) = false.
Proof. intros b fuel H. unfold br_drain. rewrite H. reflexivity. Qed.
Print Assumptions failed_never_located.

(* `failed` is never reset *)
Lemma hrun_g_failed nf : forall ops b shown, br_failed b = true -> br_failed (hrun_g nf b shown ops) = true.
Proof.
  induction ops as [|[k| |n] ops IH]; intros b shown H; cbn [hrun_g]; [exact H|..]; apply IH.
  - rewrite br_read_g_failed, H. reflexivity.
  - rewrite br_fill_buf_g_failed, H. reflexivity.
  - exact H.
Qed.

Theorem failed_stays_failed : forall ops b fuel, br_failed b = true -> fst (br_drain fuel (hrun b ops)) = false.
Proof. intros ops b fuel H. apply failed_never_located. apply hrun_g_failed. exact H. Qed.

(* ------------------------------------------------------------------ list facts *)
Lemma skipnN_firstnN : forall b n r, skipnN n (firstnN r b) = firstnN (r - n) (skipnN n b).
Proof.
  induction b as [|x b IH]; intros n r; [reflexivity|].
  destruct (N.eq_dec r 0) as [->|Hr].
  - rewrite firstnN_0. cbn [skipnN]. rewrite N.sub_0_l, firstnN_0. reflexivity.
  - rewrite (firstnN_cons r x b Hr).
    destruct (N.eq_dec n 0) as [->|Hn].
    + rewrite !skipnN_0, N.sub_0_r. rewrite (firstnN_cons r x b Hr). reflexivity.
    + rewrite (skipnN_cons n x _ Hn), (skipnN_cons n x _ Hn), IH.
      replace (N.pred r - N.pred n) with (r - n) by lia. reflexivity.
Qed.

Lemma lenN_firstnN_eq : forall l n, n <= lenN l -> lenN (firstnN n l) = n.
Proof.
  induction l as [|x l IH]; intros n H.
  - rewrite lenN_nil in H. cbn [firstnN]. rewrite lenN_nil. lia.
  - destruct (N.eq_dec n 0) as [->|Hn]; [rewrite firstnN_0; apply lenN_nil|].
    rewrite (firstnN_cons n x l Hn), lenN_cons, IH; [lia|]. rewrite lenN_cons in H. lia.
Qed.

Lemma consume_f_0 s : consume_f 0 s = s.
Proof. destruct s as [bb l ev fu tk]. unfold consume_f. cbn [bbuf_f lo_f evs_f sfuel_f stake_f]. rewrite skipnN_0. reflexivity. Qed.
Lemma chunked_consume_f_0 c : chunked_consume_f 0 c = c.
Proof. destruct c as [s st r]. unfold chunked_consume_f. cbn [c_src_f c_state_f c_remaining_f]. rewrite consume_f_0, N.sub_0_r. reflexivity. Qed.

(* ------------------------------------------------------------------ chunked: the invariant of an error-free run *)
(* D: the verdict of the recogniser on the whole input.  The reader sits at a position of the recogniser's run (sd), the
   fuel bound holds, there is no Take, and the slice the handler still holds is the front of the BufReader's buffer *)
Definition GoodC (D : dres) (c : chunked_f) (shown : bytes) : Prop :=
  stake_f (c_src_f c) = None /\ CBe (trc c) /\ (exists acc, sd (trc c) acc = D) /\
  (shown = [] \/ (shown = firstnN (c_remaining_f c) (bbuf_f (c_src_f c)) /\ c_state_f c = CData)).

Lemma good_read D k c shown out c' : D <> Unspecified -> GoodC D c shown -> chunked_read_f k c = FOk out c' ->
  GoodC D c' [] /\ (0 < k -> out = [] -> c_state_f c' = CDone).
Proof.
  intros HU [Hs [Hb [[acc Hd] _]]] H.
  pose proof (st_chunked_read k c Hs) as Hs'. rewrite H in Hs'. cbn [res_st] in Hs'.
  apply tr_chunked_read in H.
  destruct (N.eq_dec k 0) as [->|Hk].
  - unfold chunked_read_e in H.
    pose proof (Bound_e_fuel _ Hb) as [_ H12].
    destruct (sfuel_e (c_src_e (trc c))) as [|fu] eqn:Ef; [lia|].
    cbn [chunked_read_loop_e] in H.
    pose proof (advance_e_ok (trc c) acc Hb) as Hadv. rewrite Hd in Hadv.
    destruct (step_ok_e_inv _ _ _ _ Hadv HU) as [[e [c1 [He Hw]]]|[c1 [Hc1 [Hd1 [Hb1 _]]]]].
    + rewrite He in H. discriminate.
    + rewrite Hc1 in H.
      assert (E : c1 = trc c') by (destruct (c_state_e c1); cbn [N.eqb] in H; inversion H; reflexivity).
      subst c1. split; [|lia].
      split; [exact Hs'|]. split; [exact Hb1|]. split; [exists acc; exact Hd1|left; reflexivity].
  - assert (Hk' : 0 < k) by lia.
    destruct (chunked_read_e_spec k (trc c) acc D Hk' Hb Hd HU)
      as [[e [c2 [E _]]]|[[out2 [c2 [E [Hd2 [Hb2 [_ Hdone]]]]]]|[c2 [E _]]]]; rewrite E in H; try discriminate.
    inversion H. subst out2 c2. split.
    + split; [exact Hs'|]. split; [exact Hb2|]. split; [exists (acc ++ out); exact Hd2|left; reflexivity].
    + intros _ Ho. exact (Hdone Ho).
Qed.

Lemma good_fill D c shown sl c' : D <> Unspecified -> GoodC D c shown -> chunked_fill_buf_f c = FOk sl c' -> GoodC D c' sl.
Proof.
  intros HU [Hs [Hb [[acc Hd] _]]] H.
  pose proof (st_chunked_fill_buf c Hs) as Hs'. rewrite H in Hs'. cbn [res_st] in Hs'.
  apply tr_chunked_fill_buf in H.
  destruct (chunked_fill_buf_e_spec (trc c) acc D Hb Hd HU)
    as [[e [c2 [E _]]]|[[c2 [E [_ [Hd2 [Hb2 _]]]]]|[[c2 [E [_ [Hst [_ [Hd2 [Hb2 _]]]]]]]|[c2 [E _]]]]];
    rewrite E in H; try discriminate.
  - inversion H. subst c2.
    split; [exact Hs'|]. split; [exact Hb2|]. split; [exists acc; exact Hd2|left; reflexivity].
  - inversion H. subst c2.
    split; [exact Hs'|]. split; [exact Hb2|]. split; [exists acc; exact Hd2|].
    right. split; [reflexivity|exact Hst].
Qed.

Lemma good_consume D c shown n : GoodC D c shown ->
  GoodC D (chunked_consume_f (N.min n (lenN shown)) c) (skipnN (N.min n (lenN shown)) shown).
Proof.
  intros [Hs [Hb [[acc Hd] Hsh]]]. set (n' := N.min n (lenN shown)).
  destruct (N.eq_dec n' 0) as [E|E].
  - rewrite E, chunked_consume_f_0, skipnN_0.
    split; [exact Hs|]. split; [exact Hb|]. split; [exists acc; exact Hd|exact Hsh].
  - destruct Hsh as [Hnil|[Esh Est]].
    { exfalso. apply E. unfold n'. rewrite Hnil, lenN_nil. lia. }
    assert (Hne : bbuf_f (c_src_f c) <> []).
    { intros Hn. apply E. unfold n'. rewrite Esh, Hn. cbn [firstnN]. rewrite lenN_nil. lia. }
    assert (Hrem : c_remaining_f c <> 0).
    { intros Hn. apply E. unfold n'. rewrite Esh, Hn, firstnN_0, lenN_nil. lia. }
    assert (Hn' : 0 < n') by lia.
    destruct (chunked_consume_e_step (trc c) acc n' Hn' Hb Hne Est Hrem) as [_ [_ [P3 [P4 _]]]].
    cbv zeta in P3, P4.
    change (c_remaining_e (trc c)) with (c_remaining_f c) in P3, P4.
    change (c_src_e (trc c)) with (trs (c_src_f c)) in P3, P4.
    change (bbuf_e (trs (c_src_f c))) with (bbuf_f (c_src_f c)) in P3, P4.
    rewrite <- Esh in P3, P4.
    assert (Hl : lenN (firstnN n' shown) = n') by (apply lenN_firstnN_eq; unfold n'; lia).
    rewrite Hl in P3, P4.
    split; [exact Hs|]. split; [exact P4|]. split.
    + exists (acc ++ firstnN n' shown). rewrite <- Hd. exact P3.
    + right. split; [|exact Est].
      rewrite Esh at 1. rewrite skipnN_firstnN. reflexivity.
Qed.

Definition InvC (D : dres) (b : breader) (shown : bytes) : Prop :=
  br_failed b = true \/ exists c, br_enc b = BChunked_f c /\ GoodC D c shown.

Lemma inv_hrun D : D <> Unspecified -> forall ops b shown, InvC D b shown ->
  exists sh', InvC D (hrun_g true b shown ops) sh'.
Proof.
  intros HU. induction ops as [|[k| |n] ops IH]; intros b shown HI; cbn [hrun_g].
  - exists shown. exact HI.
  - apply IH. destruct HI as [Hf|[c [He HG]]].
    + left. rewrite br_read_g_failed, Hf. reflexivity.
    + destruct (chunked_read_f k c) as [out c'|e c'|c'|c'] eqn:E.
      * right. exists c'. split.
        -- rewrite br_read_g_enc, He. cbn [body_read_f]. rewrite E. reflexivity.
        -- exact (proj1 (good_read D k c shown out c' HU HG E)).
      * left. rewrite br_read_g_failed, He. cbn [body_read_f]. rewrite E. apply Bool.orb_true_r.
      * left. rewrite br_read_g_failed, He. cbn [body_read_f]. rewrite E. apply Bool.orb_true_r.
      * left. rewrite br_read_g_failed, He. cbn [body_read_f]. rewrite E. apply Bool.orb_true_r.
  - apply IH. destruct HI as [Hf|[c [He HG]]].
    + left. rewrite br_fill_buf_g_failed, Hf. reflexivity.
    + destruct (chunked_fill_buf_f c) as [sl c'|e c'|c'|c'] eqn:E.
      * right. exists c'. split.
        -- rewrite br_fill_buf_g_enc, He. cbn [body_fill_buf_f]. rewrite E. reflexivity.
        -- unfold br_fill_buf_g. rewrite He. cbn [body_fill_buf_f]. rewrite E. cbn [fmap].
           exact (good_fill D c shown sl c' HU HG E).
      * left. rewrite br_fill_buf_g_failed, He. cbn [body_fill_buf_f]. rewrite E. apply Bool.orb_true_r.
      * left. rewrite br_fill_buf_g_failed, He. cbn [body_fill_buf_f]. rewrite E. apply Bool.orb_true_r.
      * left. rewrite br_fill_buf_g_failed, He. cbn [body_fill_buf_f]. rewrite E. apply Bool.orb_true_r.
  - apply IH. destruct HI as [Hf|[c [He HG]]].
    + left. exact Hf.
    + right. exists (chunked_consume_f (N.min n (lenN shown)) c). split.
      * unfold br_consume. cbn [br_enc]. rewrite He. reflexivity.
      * apply good_consume. exact HG.
Qed.

Lemma drain_good D : D <> Unspecified -> forall fuel c shown e', GoodC D c shown ->
  drain_f fuel (BChunked_f c) = (true, e') ->
  exists c', e' = BChunked_f c' /\ GoodC D c' [] /\ c_state_f c' = CDone.
Proof.
  intros HU. induction fuel as [|fuel IH]; intros c shown e' HG H; cbn [drain_f] in H; [discriminate|].
  cbn [body_read_f] in H.
  destruct (chunked_read_f 1024 c) as [out c1|e c1|c1|c1] eqn:E; cbn [fmap] in H; try discriminate.
  destruct (good_read D 1024 c shown out c1 HU HG E) as [G1 G2].
  destruct out as [|o0 out].
  - inversion H. subst e'. exists c1. split; [reflexivity|]. split; [exact G1|]. apply G2; [lia|reflexivity].
  - exact (IH c1 [] e' G1 H).
Qed.

(* Full statement asked for (FALSE as it stands, counterexample [unspecified_can_be_located]):
     forall lo evs ops fuel b', let b0 := {| br_enc := new_chunked_f lo evs; br_failed := false |} in
       br_drain fuel (hrun b0 ops) = (true, b') ->
       exists p rest, spec_decode (lo ++ concat (strip2 evs)) = Valid p rest /\ br_beyond b' ++ br_ahead b' = rest.
   Proved: the same with one hypothesis added: the input is one the property speaks about.  On inputs the
   recogniser leaves Unspecified (bare-LF line ends, ...) khttp's reader is more lenient than the grammar and drain can
   answer true - see [unspecified_can_be_located] below; Proofs/BodyIntr.v and Proofs/BodyRead.v exclude them likewise. *)
Theorem located_is_right_chunked : forall lo evs ops fuel b',
  let b0 := {| br_enc := new_chunked_f lo evs; br_failed := false |} in
  spec_decode (lo ++ concat (strip2 evs)) <> Unspecified ->
  br_drain fuel (hrun b0 ops) = (true, b') ->
  exists p rest, spec_decode (lo ++ concat (strip2 evs)) = Valid p rest /\ br_beyond b' ++ br_ahead b' = rest.
Proof.
  intros lo evs ops fuel b' b0 HU H.
  set (D := spec_decode (lo ++ concat (strip2 evs))) in *.
  assert (H0 : InvC D b0 []).
  { right. eexists. split; [reflexivity|].
    split; [reflexivity|]. split; [|split; [exists []|left; reflexivity]].
    - unfold CBe, trc. cbn [c_src_e c_src_f]. rewrite trs_mk. apply Bound_e_mk.
    - unfold trc. cbn [c_src_f c_state_f c_remaining_f]. rewrite trs_mk, sd_new, strip_tr. reflexivity. }
  destruct (inv_hrun D HU ops b0 [] H0) as [sh HI]. fold (hrun b0 ops) in HI.
  unfold br_drain in H. destruct HI as [Hf|[c [He HG]]]; [rewrite Hf in H; discriminate|].
  destruct (br_failed (hrun b0 ops)) eqn:Ef; [discriminate|].
  rewrite He in H. destruct (drain_f fuel (BChunked_f c)) as [ok e'] eqn:Ed.
  inversion H. subst ok b'. clear H.
  destruct (drain_good D HU fuel c sh e' HG Ed) as [c' [Ee [[Hs [_ [[acc Hd] _]]] Hdone]]]. subst e'.
  rewrite sd_eq in Hd. change (c_state_e (trc c')) with (c_state_f c') in Hd. rewrite Hdone in Hd.
  exists acc, (reach_e (c_src_e (trc c'))). split; [symmetry; exact Hd|].
  rewrite reach_e_eq. unfold br_beyond, br_ahead. cbn [br_enc body_src_f].
  change (c_src_e (trc c')) with (trs (c_src_f c')).
  unfold trs. cbn [bbuf_e lo_e evs_e stake_e]. rewrite Hs, strip_tr. unfold tail3. rewrite app_assoc. reflexivity.
Qed.
Print Assumptions located_is_right_chunked.

(* ------------------------------------------------------------------ fixed length: conservation of the input *)
Definition ahead (s : src_f) : bytes := lo_f s ++ concat (strip2 (evs_f s)).

Lemma inner_read_f_ok k l ev out l' ev' : inner_read_f k l ev = FOk out (l', ev') ->
  l ++ concat (strip2 ev) = out ++ l' ++ concat (strip2 ev') /\ lenN out <= k.
Proof.
  intros H. pose proof (tr_inner_read k l ev) as T. rewrite H in T. cbn [fmap fe tr_t fst snd] in T.
  destruct (inner_read_e_spec k l (tr ev)) as [[o [l2 [ev2 [E [A [B _]]]]]]|[l2 [ev2 [E _]]]]; rewrite E in T; [|discriminate].
  inversion T. subst o l2 ev2. rewrite !strip_tr in A. split; assumption.
Qed.

Lemma take_read_f_ok k s lim out l' ev' tk' : stake_f s = Some lim -> take_read_f k s = FOk out (l', ev', tk') ->
  ahead s = out ++ l' ++ concat (strip2 ev') /\ lenN out <= k /\ lenN out <= lim /\ tk' = Some (lim - lenN out).
Proof.
  intros Hs H. unfold take_read_f in H. rewrite Hs in H. unfold ahead.
  destruct (N.eqb_spec lim 0) as [E|E].
  - inversion H. subst. rewrite lenN_nil. cbn [app]. repeat split; try lia. 
  - destruct (inner_read_f (N.min k lim) (lo_f s) (evs_f s)) as [o [l2 ev2]|e t|t|t] eqn:Ei; try discriminate.
    inversion H. subst o l2 ev2 tk'.
    destruct (inner_read_f_ok _ _ _ _ _ _ Ei) as [A B]. repeat split; try assumption; lia.
Qed.

(* what is in front of the reader: the buffer, then the rest *)
Definition front (s : src_f) : bytes := bbuf_f s ++ ahead s.

Lemma fill_buf_f_ok s tk sl s' : stake_f s = Some tk -> fill_buf_f s = FOk sl s' ->
  sl = bbuf_f s' /\ front s = front s' /\
  exists tk', stake_f s' = Some tk' /\ tk' + lenN (bbuf_f s') = tk + lenN (bbuf_f s).
Proof.
  intros Hs H. unfold fill_buf_f in H. destruct (bbuf_f s) as [|x b] eqn:Eb.
  - destruct (take_read_f BUF_SIZE s) as [o [[l2 ev2] tk2]|e t|t|t] eqn:Et; try discriminate.
    inversion H. subst sl s'. destruct (take_read_f_ok _ _ _ _ _ _ _ Hs Et) as [A [_ [C D]]].
    cbn [with_tail_f bbuf_f]. split; [reflexivity|]. split.
    + unfold front at 1. rewrite Eb. cbn [app]. rewrite A. reflexivity.
    + exists (tk - lenN o). split; [exact D|]. rewrite lenN_nil. lia.
  - inversion H. subst s'. split; [symmetry; exact Eb|]. split; [reflexivity|].
    exists tk. split; [exact Hs|]. rewrite Eb. reflexivity.
Qed.

Lemma consume_f_front k s : front s = firstnN k (bbuf_f s) ++ front (consume_f k s) /\
  lenN (bbuf_f s) = lenN (firstnN k (bbuf_f s)) + lenN (bbuf_f (consume_f k s)).
Proof.
  unfold front, consume_f, ahead. cbn [bbuf_f lo_f evs_f]. split.
  - rewrite <- (firstnN_skipnN k (bbuf_f s)) at 1. rewrite <- app_assoc. reflexivity.
  - rewrite <- lenN_app, firstnN_skipnN. reflexivity.
Qed.

Lemma buf_read_f_ok k s tk out s' : stake_f s = Some tk -> buf_read_f k s = FOk out s' ->
  front s = out ++ front s' /\ lenN out <= k /\
  exists tk', stake_f s' = Some tk' /\ tk' + lenN (bbuf_f s') + lenN out = tk + lenN (bbuf_f s).
Proof.
  intros Hs H. unfold buf_read_f in H. destruct (bbuf_f s) as [|x b] eqn:Eb.
  - destruct (N.leb BUF_SIZE k).
    + destruct (take_read_f k s) as [o [[l2 ev2] tk2]|e t|t|t] eqn:Et; try discriminate.
      inversion H. subst out s'. destruct (take_read_f_ok _ _ _ _ _ _ _ Hs Et) as [A [B [C D]]].
      cbn [with_tail_f bbuf_f]. split; [|split; [exact B|]].
      * unfold front at 1. rewrite Eb. cbn [app]. rewrite A. reflexivity.
      * exists (tk - lenN o). split; [exact D|]. rewrite lenN_nil. lia.
    + destruct (fill_buf_f s) as [sl s1|e s1|s1|s1] eqn:Ef; try discriminate.
      inversion H. subst out s'.
      destruct (fill_buf_f_ok _ _ _ _ Hs Ef) as [_ [A [tk1 [B C]]]].
      destruct (consume_f_front k s1) as [F1 F2].
      split; [rewrite A; exact F1|]. split; [apply lenN_firstnN_le|].
      exists tk1. split; [exact B|]. rewrite Eb, lenN_nil in C. rewrite ?lenN_nil. lia.
  - rewrite <- Eb in *. injection H as E1 E2. subst out s'.
    destruct (consume_f_front k s) as [F1 F2].
    split; [exact F1|]. split; [apply lenN_firstnN_le|].
    exists tk. split; [exact Hs|]. lia.
Qed.

(* [total]: the whole input; [n]: the declared length.  What the reader has passed (consumed) plus what is in front of it
   is the input; consumed + remaining = n; the Take's allowance and the buffer make up `remaining` *)
Definition GoodF (total : bytes) (n : N) (r : fixed_f) (shown : bytes) : Prop :=
  exists consumed tk,
    total = consumed ++ front (f_src_f r) /\ lenN consumed + f_remaining_f r = n /\
    stake_f (f_src_f r) = Some tk /\ tk + lenN (bbuf_f (f_src_f r)) = f_remaining_f r /\
    (shown = [] \/ shown = firstnN (f_remaining_f r) (bbuf_f (f_src_f r))).

Lemma goodf_read total n k r shown out r' : GoodF total n r shown -> fixed_read_f k r = FOk out r' ->
  GoodF total n r' [] /\ (0 < k -> out = [] -> f_remaining_f r' = 0).
Proof.
  intros [cs [tk [Ht [Hn [Hs [Hk _]]]]]] H. unfold fixed_read_f in H.
  destruct (N.eqb_spec (f_remaining_f r) 0) as [E0|E0]; cbn [orb] in H.
  - inversion H. subst r' out. split; [|intros _ _; exact E0].
    exists cs, tk. repeat split; try assumption. left; reflexivity.
  - destruct (N.eqb_spec k 0) as [Ek|Ek].
    + inversion H. subst r' out. split; [|lia].
      exists cs, tk. repeat split; try assumption. left; reflexivity.
    + cbv zeta in H.
      destruct (buf_read_f (N.min (f_remaining_f r) k) (f_src_f r)) as [o s1|e s1|s1|s1] eqn:Eb; try discriminate.
      destruct o as [|o0 o]; [discriminate|]. inversion H. subst out r'. clear H.
      destruct (buf_read_f_ok _ _ _ _ _ Hs Eb) as [A [B [tk1 [C D]]]].
      split; [|intros _ Hx; discriminate].
      exists (cs ++ o0 :: o), tk1. cbn [f_src_f f_remaining_f].
      split; [rewrite Ht, A, app_assoc; reflexivity|].
      split; [rewrite lenN_app; lia|]. split; [exact C|]. split; [lia|left; reflexivity].
Qed.

Lemma goodf_fill total n r shown sl r' : GoodF total n r shown -> fixed_fill_buf_f r = FOk sl r' -> GoodF total n r' sl.
Proof.
  intros [cs [tk [Ht [Hn [Hs [Hk _]]]]]] H. unfold fixed_fill_buf_f in H.
  destruct (N.eqb_spec (f_remaining_f r) 0) as [E0|E0].
  - inversion H. subst r' sl. exists cs, tk. repeat split; try assumption. left; reflexivity.
  - cbv zeta in H.
    destruct (fill_buf_f (f_src_f r)) as [o s1|e s1|s1|s1] eqn:Ef; try discriminate.
    destruct o as [|o0 o1] eqn:Eo; [discriminate|]. rewrite <- Eo in *. injection H as E1 E2. subst sl r'.
    destruct (fill_buf_f_ok _ _ _ _ Hs Ef) as [A [B [tk1 [C D]]]].
    exists cs, tk1. cbn [f_src_f f_remaining_f].
    split; [rewrite Ht, B; reflexivity|]. split; [exact Hn|]. split; [exact C|]. split; [lia|].
    right. rewrite A. reflexivity.
Qed.

Lemma fixed_consume_f_0 r : fixed_consume_f 0 r = r.
Proof. destruct r as [s rem]. unfold fixed_consume_f. cbn [f_src_f f_remaining_f]. rewrite consume_f_0, N.sub_0_r. reflexivity. Qed.

Lemma goodf_consume total n r shown a : GoodF total n r shown ->
  GoodF total n (fixed_consume_f (N.min a (lenN shown)) r) (skipnN (N.min a (lenN shown)) shown).
Proof.
  intros [cs [tk [Ht [Hn [Hs [Hk Hsh]]]]]]. set (n' := N.min a (lenN shown)).
  destruct (N.eq_dec n' 0) as [E|E].
  - rewrite E, fixed_consume_f_0, skipnN_0. exists cs, tk. repeat split; assumption.
  - destruct Hsh as [Hnil|Esh].
    { exfalso. apply E. unfold n'. rewrite Hnil, lenN_nil. lia. }
    assert (L1 : n' <= lenN shown) by (unfold n'; lia).
    assert (L2 : lenN shown <= f_remaining_f r) by (rewrite Esh; apply lenN_firstnN_le).
    assert (L3 : lenN shown <= lenN (bbuf_f (f_src_f r))) by (rewrite Esh; apply lenN_firstnN_le_len).
    destruct (consume_f_front n' (f_src_f r)) as [F1 F2].
    assert (L4 : lenN (firstnN n' (bbuf_f (f_src_f r))) = n') by (apply lenN_firstnN_eq; lia).
    exists (cs ++ firstnN n' (bbuf_f (f_src_f r))), tk. unfold fixed_consume_f. cbn [f_src_f f_remaining_f].
    split; [rewrite Ht, F1, app_assoc; reflexivity|].
    split; [rewrite lenN_app, L4; lia|]. split; [exact Hs|]. split; [lia|].
    right. rewrite Esh at 1. rewrite skipnN_firstnN. reflexivity.
Qed.

Definition InvF (total : bytes) (n : N) (b : breader) (shown : bytes) : Prop :=
  br_failed b = true \/ exists r, br_enc b = BFixed_f r /\ GoodF total n r shown.

Lemma invf_hrun total n : forall ops b shown, InvF total n b shown ->
  exists sh', InvF total n (hrun_g true b shown ops) sh'.
Proof.
  induction ops as [|[k| |a] ops IH]; intros b shown HI; cbn [hrun_g].
  - exists shown. exact HI.
  - apply IH. destruct HI as [Hf|[r [He HG]]].
    + left. rewrite br_read_g_failed, Hf. reflexivity.
    + destruct (fixed_read_f k r) as [out r'|e r'|r'|r'] eqn:E.
      * right. exists r'. split.
        -- rewrite br_read_g_enc, He. cbn [body_read_f]. rewrite E. reflexivity.
        -- exact (proj1 (goodf_read total n k r shown out r' HG E)).
      * left. rewrite br_read_g_failed, He. cbn [body_read_f]. rewrite E. apply Bool.orb_true_r.
      * left. rewrite br_read_g_failed, He. cbn [body_read_f]. rewrite E. apply Bool.orb_true_r.
      * left. rewrite br_read_g_failed, He. cbn [body_read_f]. rewrite E. apply Bool.orb_true_r.
  - apply IH. destruct HI as [Hf|[r [He HG]]].
    + left. rewrite br_fill_buf_g_failed, Hf. reflexivity.
    + destruct (fixed_fill_buf_f r) as [sl r'|e r'|r'|r'] eqn:E.
      * right. exists r'. split.
        -- rewrite br_fill_buf_g_enc, He. cbn [body_fill_buf_f]. rewrite E. reflexivity.
        -- unfold br_fill_buf_g. rewrite He. cbn [body_fill_buf_f]. rewrite E. cbn [fmap].
           exact (goodf_fill total n r shown sl r' HG E).
      * left. rewrite br_fill_buf_g_failed, He. cbn [body_fill_buf_f]. rewrite E. apply Bool.orb_true_r.
      * left. rewrite br_fill_buf_g_failed, He. cbn [body_fill_buf_f]. rewrite E. apply Bool.orb_true_r.
      * left. rewrite br_fill_buf_g_failed, He. cbn [body_fill_buf_f]. rewrite E. apply Bool.orb_true_r.
  - apply IH. destruct HI as [Hf|[r [He HG]]].
    + left. exact Hf.
    + right. exists (fixed_consume_f (N.min a (lenN shown)) r). split.
      * unfold br_consume. cbn [br_enc]. rewrite He. reflexivity.
      * apply goodf_consume. exact HG.
Qed.

Lemma drain_goodf total n : forall fuel r shown e', GoodF total n r shown ->
  drain_f fuel (BFixed_f r) = (true, e') ->
  exists r', e' = BFixed_f r' /\ GoodF total n r' [] /\ f_remaining_f r' = 0.
Proof.
  induction fuel as [|fuel IH]; intros r shown e' HG H; cbn [drain_f] in H; [discriminate|].
  cbn [body_read_f] in H.
  destruct (fixed_read_f 1024 r) as [out r1|e r1|r1|r1] eqn:E; cbn [fmap] in H; try discriminate.
  destruct (goodf_read total n 1024 r shown out r1 HG E) as [G1 G2].
  destruct out as [|o0 out].
  - inversion H. subst e'. exists r1. split; [reflexivity|]. split; [exact G1|]. apply G2; [lia|reflexivity].
  - exact (IH r1 [] e' G1 H).
Qed.

Theorem located_is_right_fixed : forall lo evs n ops fuel b',
  let b0 := {| br_enc := new_fixed_f lo evs n; br_failed := false |} in
  br_drain fuel (hrun b0 ops) = (true, b') ->
  exists p rest, spec_fixed n (lo ++ concat (strip2 evs)) = Valid p rest /\ br_beyond b' ++ br_ahead b' = rest.
Proof.
  intros lo evs n ops fuel b' b0 H.
  set (total := lo ++ concat (strip2 evs)) in *.
  assert (H0 : InvF total n b0 []).
  { right. eexists. split; [reflexivity|]. exists [], n. cbn [f_src_f f_remaining_f].
    split; [reflexivity|]. split; [rewrite lenN_nil; lia|]. split; [reflexivity|].
    split; [cbn [mk_src_take_f bbuf_f]; rewrite lenN_nil; lia|left; reflexivity]. }
  destruct (invf_hrun total n ops b0 [] H0) as [sh HI]. fold (hrun b0 ops) in HI.
  unfold br_drain in H. destruct HI as [Hf|[r [He HG]]]; [rewrite Hf in H; discriminate|].
  destruct (br_failed (hrun b0 ops)) eqn:Ef; [discriminate|].
  rewrite He in H. destruct (drain_f fuel (BFixed_f r)) as [ok e'] eqn:Ed.
  inversion H. subst ok b'. clear H.
  destruct (drain_goodf total n fuel r sh e' HG Ed) as [r' [Ee [[cs [tk [Ht [Hn [Hs [Hk _]]]]]] Hz]]]. subst e'.
  assert (Hb : bbuf_f (f_src_f r') = []) by (apply lenN_0; lia).
  exists cs, (front (f_src_f r')). split.
  - unfold spec_fixed. rewrite Ht. rewrite take_n_app by lia.
    replace (n - lenN cs) with 0 by lia. rewrite take_n_0, app_nil_r. reflexivity.
  - unfold br_beyond, br_ahead, front, ahead. cbn [br_enc body_src_f]. rewrite app_assoc. reflexivity.
Qed.
Print Assumptions located_is_right_fixed.

(* ------------------------------------------------------------------ examples *)
(* seed C05-l: chunked body "30\r\n" + 48 data bytes that begin with "\r\nGET /none?smuggled HTTP/1.1\r\n\r\n" + "\r\n0\r\n\r\n".
   The first byte of the size line arrives, then a read of the socket fails (read timeout), then the rest.  The handler
   calls read once (the call fails: the "3" that read_line had taken is lost) and swallows the error. *)
Definition c05_data : bytes :=
  [x0d; x0a] ++ bs "GET /none?smuggled HTTP/1.1" ++ [x0d; x0a; x0d; x0a] ++ repeat x58 15.
Definition c05_wire : bytes := bs "30" ++ [x0d; x0a] ++ c05_data ++ [x0d; x0a] ++ bs "0" ++ [x0d; x0a; x0d; x0a].
Definition c05_evs : list sev2 := [S2Data (bs "3"); S2Fail; S2Data (skipn 1 c05_wire)].
Definition c05_b0 : breader := {| br_enc := new_chunked_f [] c05_evs; br_failed := false |}.
Definition c05_ops : list hop := [HRead 8192].

Example c05_input : length c05_data = 48%nat /\ concat (strip2 c05_evs) = c05_wire /\
  spec_decode c05_wire = Valid c05_data [].
Proof. vm_compute. repeat split; reflexivity. Qed.

(* the handler's read returns the failure *)
Example c05_read_fails : match br_read 8192 c05_b0 with FFail b => br_failed b = true | _ => False end.
Proof. vm_compute. reflexivity. Qed.

(* the code: the reader remembers the error, the discard answers false, the connection is closed after the response *)
Example c05_not_located :
  let b1 := hrun c05_b0 c05_ops in fst (br_drain (drain_fuel b1) b1) = false.
Proof. vm_compute. reflexivity. Qed.

(* the mutant: note() does not count the failure.  The discard reads on from the "0\r\n" it now finds where it expects a
   size line, takes the "\r\n" at the head of the chunk data for the end of the trailer section, and reports the end of the
   body 50 bytes early: the next "request" is the smuggled one.  [located_is_right_chunked] is false of this wrapper. *)
Example mutant_locates_wrong_place :
  let b1 := hrun_g false c05_b0 [] c05_ops in
  exists b',
    br_drain (drain_fuel b1) b1 = (true, b') /\
    firstn 18 (br_beyond b' ++ br_ahead b') = bs "GET /none?smuggled" /\
    spec_decode ([] ++ concat (strip2 c05_evs)) = Valid c05_data [] /\
    br_beyond b' ++ br_ahead b' <> [].
Proof.
  cbv zeta. eexists. split; [vm_compute; reflexivity|].
  split; [vm_compute; reflexivity|]. split; [vm_compute; reflexivity|]. vm_compute. discriminate.
Qed.

(* why [located_is_right_chunked] excludes the inputs the recogniser leaves Unspecified: "0\n\n" (bare LF line ends) is read
   to its end by khttp although it is outside the grammar; no error, no handler call, no failure of the stream involved *)
Example unspecified_can_be_located :
  let lo := bs "0" ++ [x0a; x0a] in
  let b0 := {| br_enc := new_chunked_f lo []; br_failed := false |} in
  spec_decode (lo ++ concat (strip2 [])) = Unspecified /\ fst (br_drain (drain_fuel b0) (hrun b0 [])) = true.
Proof. vm_compute. split; reflexivity. Qed.

(* the theorems at work on an input with an interruption and a failure that do no harm: the failure falls on a read of
   chunk data after bytes of the same call have been copied (F40 rule: Ok), so no call returns an error *)
Example harmless_failure_located :
  let evs := [S2Data (bs "5" ++ [x0d; x0a] ++ bs "hel"); S2Fail; S2Data (bs "lo" ++ [x0d; x0a]); S2Intr;
              S2Data (bs "0" ++ [x0d; x0a; x0d; x0a] ++ bs "NEXT")] in
  let b0 := {| br_enc := new_chunked_f [] evs; br_failed := false |} in
  let b1 := hrun b0 [HRead 100] in
  exists b', br_drain (drain_fuel b1) b1 = (true, b') /\ br_beyond b' ++ br_ahead b' = bs "NEXT".
Proof. cbv zeta. eexists. split; vm_compute; reflexivity. Qed.
