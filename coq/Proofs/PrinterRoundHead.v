(* C08 groundwork: the strict decoder reads a printed head back field by field; what the header
   collection built by Headers::add stores and caches, in terms of the user's field list; and the
   two shapes of a decodable message (length-delimited, chunked). *)
From KV Require Import Lib.Bytes Model.Headers Model.Printer Spec.HeaderStore Spec.ChunkedSpec Spec.MessageSpec
  Spec.PrinterSpec Proofs.Headers Proofs.BodySpec Proofs.PrinterRoundBase.

Notation PCRLF := Printer.CRLF.

Definition render_field (f : bytes * bytes) : bytes := fst f ++ bs ": " ++ snd f ++ PCRLF.

Lemma byte_eqb_comm a b : Byte.eqb a b = Byte.eqb b a.
Proof.
  destruct (Byte.eqb a b) eqn:E1, (Byte.eqb b a) eqn:E2; try reflexivity.
  - apply byte_eqb_eq in E1. subst b. rewrite (proj2 (byte_eqb_eq a a) eq_refl) in E2. discriminate E2.
  - apply byte_eqb_eq in E2. subst b. rewrite (proj2 (byte_eqb_eq a a) eq_refl) in E1. discriminate E1.
Qed.

Lemma no_crlf_nolf l : no_crlf l = true -> nolf l = true.
Proof.
  unfold no_crlf, nolf. apply forallb_impl. intros b Hb.
  apply negb_true_iff in Hb. apply orb_false_iff in Hb. destruct Hb as [_ Hb]. rewrite Hb. reflexivity.
Qed.

(* ------------------------------------------------------------------ one printable field *)
Lemma wf_field_inv f : wf_field f = true ->
  fst f <> [] /\
  forallb (fun b => negb (Byte.eqb b x3a) && negb (Byte.eqb b x0d) && negb (Byte.eqb b x0a)) (fst f) = true /\
  no_crlf (snd f) = true /\ no_outer_ows (snd f).
Proof.
  unfold wf_field. intros H.
  apply andb_true_iff in H. destruct H as [H H5]. apply andb_true_iff in H. destruct H as [H H4].
  apply andb_true_iff in H. destruct H as [H H3]. apply andb_true_iff in H. destruct H as [H1 H2].
  split; [|split; [exact H2|split; [exact H3|]]].
  - intros C. rewrite C in H1. discriminate H1.
  - split.
    + destruct (snd f) as [|b r]; [exact I|]. apply negb_true_iff. exact H4.
    + destruct (rev (snd f)) as [|b r]; [exact I|]. apply negb_true_iff. exact H5.
Qed.

Lemma find_colon name : forall more,
  forallb (fun b => negb (Byte.eqb b x3a) && negb (Byte.eqb b x0d) && negb (Byte.eqb b x0a)) name = true ->
  find_index (Byte.eqb x3a) (name ++ x3a :: more) = Some (length name).
Proof.
  induction name as [|a name IH]; intros more H.
  - reflexivity.
  - cbn [forallb] in H. apply andb_true_iff in H. destruct H as [Ha H].
    apply andb_true_iff in Ha. destruct Ha as [Ha _]. apply andb_true_iff in Ha. destruct Ha as [Ha _].
    apply negb_true_iff in Ha. rewrite byte_eqb_comm in Ha.
    cbn [app find_index length]. rewrite Ha, (IH more H). reflexivity.
Qed.

Lemma name_nolf name :
  forallb (fun b => negb (Byte.eqb b x3a) && negb (Byte.eqb b x0d) && negb (Byte.eqb b x0a)) name = true ->
  nolf name = true.
Proof.
  unfold nolf. apply forallb_impl. intros b Hb. apply andb_true_iff in Hb. apply Hb.
Qed.

Lemma colon_sp : bs ": " = [x3a; x20].
Proof. reflexivity. Qed.

Lemma dec_fields_S f l : dec_fields (S f) l =
  match line_crlf l with
  | Some (Some [], rest) => Some ([], rest)
  | Some (Some line, rest) =>
      match find_index (Byte.eqb x3a) line with
      | None => None
      | Some i =>
          match dec_fields f rest with
          | Some (fs, rest') => Some ((firstn i line, strip_ows (skipn (S i) line)) :: fs, rest')
          | None => None
          end
      end
  | _ => None
  end.
Proof. reflexivity. Qed.

Lemma field_line name value more :
  forallb (fun b => negb (Byte.eqb b x3a) && negb (Byte.eqb b x0d) && negb (Byte.eqb b x0a)) name = true ->
  no_crlf value = true ->
  line_crlf (render_field (name, value) ++ more) = Some (Some (name ++ x3a :: x20 :: value), more).
Proof.
  intros N2 V1. unfold render_field. cbn [fst snd]. rewrite colon_sp.
  replace ((name ++ [x3a; x20] ++ value ++ PCRLF) ++ more)
    with ((name ++ x3a :: x20 :: value) ++ ChunkedSpec.CRLF ++ more)
    by (rewrite <- !app_assoc; reflexivity).
  apply line_crlf_app. rewrite nolf_app, (name_nolf name N2).
  change (x3a :: x20 :: value) with ([x3a; x20] ++ value). rewrite nolf_app, (no_crlf_nolf value V1). reflexivity.
Qed.

Lemma skipn_field name value : skipn (S (length name)) (name ++ x3a :: x20 :: value) = x20 :: value.
Proof.
  induction name as [|a name IH]; [reflexivity|]. cbn [length app]. rewrite skipn_cons. exact IH.
Qed.

Lemma firstn_field name (more : bytes) : firstn (length name) (name ++ more) = name.
Proof.
  rewrite firstn_app, Nat.sub_diag, firstn_all. cbn [firstn]. apply app_nil_r.
Qed.

Lemma dec_fields_render : forall fs fuel rest, forallb wf_field fs = true -> length fs < fuel ->
  dec_fields fuel (flat_map render_field fs ++ PCRLF ++ rest) = Some (fs, rest).
Proof.
  induction fs as [|f fs IH]; intros fuel rest Hwf Hfuel.
  - destruct fuel as [|fuel]; [inversion Hfuel|]. rewrite dec_fields_S. cbn [flat_map app].
    change (PCRLF ++ rest) with ([] ++ ChunkedSpec.CRLF ++ rest).
    rewrite line_crlf_app by reflexivity. reflexivity.
  - destruct fuel as [|fuel]; [inversion Hfuel|]. cbn [length] in Hfuel.
    cbn [forallb] in Hwf. apply andb_true_iff in Hwf. destruct Hwf as [Hf Hwf].
    destruct (wf_field_inv f Hf) as (N1 & N2 & V1 & V2).
    destruct f as [name value]. cbn [fst snd] in *.
    rewrite dec_fields_S. cbn [flat_map]. rewrite <- app_assoc.
    rewrite (field_line name value _ N2 V1).
    destruct (name ++ x3a :: x20 :: value) as [|l0 lr] eqn:EL.
    { apply app_eq_nil in EL. destruct EL as [_ EL]. discriminate EL. }
    rewrite <- EL. clear EL l0 lr.
    rewrite (find_colon name (x20 :: value) N2).
    rewrite (IH fuel rest Hwf ltac:(lia)).
    rewrite firstn_field, skipn_field, (strip_ows_sp value V2). reflexivity.
Qed.

Lemma render_fields_length fs : length fs <= length (flat_map render_field fs).
Proof.
  induction fs as [|f fs IH]; [apply le_n|].
  cbn [flat_map]. unfold render_field at 1. rewrite !app_length. cbn [length PCRLF]. lia.
Qed.

Lemma render_fields_app a b : flat_map render_field (a ++ b) = flat_map render_field a ++ flat_map render_field b.
Proof. apply flat_map_app. Qed.

(* ------------------------------------------------------------------ the two decodable shapes *)
Lemma decode_head start fields rest : nolf start = true -> forallb wf_field fields = true ->
  line_crlf (start ++ PCRLF ++ flat_map render_field fields ++ PCRLF ++ rest) =
    Some (Some start, flat_map render_field fields ++ PCRLF ++ rest) /\
  dec_fields (S (length (flat_map render_field fields ++ PCRLF ++ rest)))
             (flat_map render_field fields ++ PCRLF ++ rest) = Some (fields, rest).
Proof.
  intros Hs Hf. split.
  - apply (line_crlf_app start _ Hs).
  - apply dec_fields_render; [exact Hf|]. rewrite app_length. pose proof (render_fields_length fields). lia.
Qed.

Theorem decode_with_length start fields k v n body rest :
  nolf start = true -> forallb wf_field fields = true ->
  filter (is_name (bs "content-length")) fields = [(k, v)] ->
  filter (is_name (bs "transfer-encoding")) fields = [] ->
  cl_value v = Some n -> n = N.of_nat (length body) ->
  decode_msg (start ++ PCRLF ++ flat_map render_field fields ++ PCRLF ++ body ++ rest) =
    Some {| m_start := start; m_fields := fields; m_body := body; m_rest := rest |}.
Proof.
  intros Hs Hf Hcl Hte Hv Hn. unfold decode_msg.
  destruct (decode_head start fields (body ++ rest) Hs Hf) as [E1 E2].
  rewrite E1, E2, Hcl, Hte. cbn [snd]. rewrite Hv, Hn, take_n_app. reflexivity.
Qed.

Theorem decode_with_chunks start fields k v cs rest :
  nolf start = true -> forallb wf_field fields = true ->
  filter (is_name (bs "content-length")) fields = [] ->
  filter (is_name (bs "transfer-encoding")) fields = [(k, v)] ->
  same_name v (bs "chunked") = true ->
  Forall (fun c => c <> []) cs -> (N.of_nat (length (concat cs)) < 2 ^ 64)%N ->
  decode_msg (start ++ PCRLF ++ flat_map render_field fields ++ PCRLF ++
              (flat_map Printer.chunk cs ++ LAST_CHUNK) ++ rest) =
    Some {| m_start := start; m_fields := fields; m_body := concat cs; m_rest := rest |}.
Proof.
  intros Hs Hf Hcl Hte Hv Hne Hlt. unfold decode_msg.
  destruct (decode_head start fields ((flat_map Printer.chunk cs ++ LAST_CHUNK) ++ rest) Hs Hf) as [E1 E2].
  rewrite E1, E2, Hcl, Hte. cbn [snd]. rewrite Hv, (chunks_decode cs rest Hne Hlt). reflexivity.
Qed.

(* ------------------------------------------------------------------ the collection built by add *)
Lemma add_facts h n v :
  stored (add h n v) = stored h ++ (if same_name n (bs "content-length") then [] else [(n, v)]) /\
  Headers.chunked (add h n v) =
    Headers.chunked h || (same_name n (bs "transfer-encoding") && has_token_loop (bs "chunked") v) /\
  content_length (add h n v) = (if same_name n (bs "content-length") then cl_value v else content_length h) /\
  print_date (add h n v) = print_date h.
Proof.
  unfold add. rewrite !eq_ic_same. unfold CONTENT_LENGTH, TRANSFER_ENCODING, CONNECTION.
  destruct (name_cases n) as [(A & B & C)|[(A & B & C)|[(A & B & C)|(A & B & C)]]]; rewrite A, ?B, ?C;
    cbn [stored Headers.chunked content_length print_date andb];
    rewrite ?app_nil_r, ?orb_false_r, ?parse_content_length_spec; repeat split; reflexivity.
Qed.

Definition add_field (h : headers) (nv : bytes * bytes) : headers := add h (fst nv) (snd nv).

Lemma fold_add_facts : forall fs h,
  stored (fold_left add_field fs h) = stored h ++ filter (fun f => negb (is_clf f)) fs /\
  Headers.chunked (fold_left add_field fs h) =
    Headers.chunked h || existsb (fun f => has_token_loop (bs "chunked") (snd f)) (filter is_te fs) /\
  content_length (fold_left add_field fs h) =
    match rev (filter is_clf fs) with [] => content_length h | cl :: _ => cl_value (snd cl) end /\
  print_date (fold_left add_field fs h) = print_date h.
Proof.
  induction fs as [|f fs IH]; intros h.
  - cbn [fold_left filter existsb rev]. rewrite app_nil_r, orb_false_r. repeat split; reflexivity.
  - cbn [fold_left]. destruct (IH (add_field h f)) as (I1 & I2 & I3 & I4).
    destruct (add_facts h (fst f) (snd f)) as (A1 & A2 & A3 & A4). fold (add_field h f) in A1, A2, A3, A4.
    rewrite I1, I2, I3, I4, A1, A2, A3, A4. cbn [filter].
    change (is_clf f) with (same_name (fst f) (bs "content-length")).
    change (is_te f) with (same_name (fst f) (bs "transfer-encoding")).
    destruct (same_name (fst f) (bs "content-length")) eqn:EC;
      destruct (same_name (fst f) (bs "transfer-encoding")) eqn:ET; cbn [negb andb existsb rev];
      rewrite ?app_nil_r, ?orb_false_r, <- ?app_assoc, <- ?orb_assoc; cbn [app];
      repeat split; try reflexivity;
      try (destruct f; reflexivity);
      try (destruct (rev (filter is_clf fs)) as [|c l]; reflexivity).
Qed.

(* a value spelled "chunked" in any case is found by the token loop *)
Lemma lower_plain_byte b :
  negb (Byte.eqb (to_lower b) x2c) && negb (is_ows (to_lower b)) = true ->
  negb (Byte.eqb b x2c) && negb (is_ows b) = true.
Proof. destruct b; vm_compute; intros H; try reflexivity; discriminate H. Qed.

Lemma split_on_plain v : forallb (fun b => negb (Byte.eqb b x2c) && negb (is_ows b)) v = true ->
  split_on x2c v = [v].
Proof.
  induction v as [|a v IH]; intros H; [reflexivity|].
  cbn [forallb] in H. apply andb_true_iff in H. destruct H as [Ha H].
  apply andb_true_iff in Ha. destruct Ha as [Ha _]. apply negb_true_iff in Ha.
  cbn [split_on]. rewrite Ha, (IH H). reflexivity.
Qed.

Lemma plain_no_outer v : forallb (fun b => negb (Byte.eqb b x2c) && negb (is_ows b)) v = true -> no_outer_ows v.
Proof.
  intros H. assert (forall b, In b v -> is_ows b = false) as K.
  { intros b Hb. rewrite forallb_forall in H. specialize (H b Hb).
    apply andb_true_iff in H. destruct H as [_ H]. apply negb_true_iff. exact H. }
  split.
  - destruct v as [|b r]; [exact I|]. apply K. left. reflexivity.
  - destruct (rev v) as [|b r] eqn:E; [exact I|]. apply K. apply in_rev. rewrite E. left. reflexivity.
Qed.

Lemma chunked_value_found v : same_name v (bs "chunked") = true -> has_token_loop (bs "chunked") v = true.
Proof.
  intros H.
  assert (forallb (fun b => negb (Byte.eqb b x2c) && negb (is_ows b)) v = true) as P.
  { apply same_name_iff in H. unfold lower in H.
    assert (forallb (fun b => negb (Byte.eqb b x2c) && negb (is_ows b)) (map to_lower v) = true) as Q
      by (rewrite H; vm_compute; reflexivity).
    clear H. induction v as [|a v IH]; [reflexivity|].
    cbn [map forallb] in Q |- *. apply andb_true_iff in Q. destruct Q as [Q1 Q2].
    rewrite (lower_plain_byte a Q1), (IH Q2). reflexivity. }
  unfold has_token_loop. rewrite (split_on_plain v P). cbn [existsb]. rewrite orb_false_r.
  rewrite trim_ows_strip, (strip_ows_id v (plain_no_outer v P)), eq_ic_same. exact H.
Qed.

(* ------------------------------------------------------------------ the user's field list *)
Lemma wf_user_inv fs : wf_user_fields fs = true ->
  forallb wf_field fs = true /\
  (filter is_te fs = [] \/ exists te, filter is_te fs = [te] /\ same_name (snd te) (bs "chunked") = true) /\
  (filter is_clf fs = [] \/ exists cl n, filter is_clf fs = [cl] /\ cl_value (snd cl) = Some n).
Proof.
  unfold wf_user_fields. intros H. apply andb_true_iff in H. destruct H as [H H3].
  apply andb_true_iff in H. destruct H as [H1 H2]. split; [exact H1|]. split.
  - destruct (filter is_te fs) as [|te [|te2 l]]; [left; reflexivity | right | discriminate H2].
    exists te. split; [reflexivity | exact H2].
  - destruct (filter is_clf fs) as [|cl [|cl2 l]]; [left; reflexivity | right | discriminate H3].
    destruct (cl_value (snd cl)) as [n|] eqn:E; [|discriminate H3]. exists cl, n. split; [reflexivity | exact E].
Qed.

Lemma user_headers_fold dated fs :
  user_headers dated fs = fold_left add_field fs (if dated then new_headers else new_nodate).
Proof. reflexivity. Qed.

Lemma user_headers_facts dated fs : wf_user_fields fs = true ->
  stored (user_headers dated fs) = filter (fun f => negb (is_clf f)) fs /\
  Headers.chunked (user_headers dated fs) = declared_chunked fs /\
  content_length (user_headers dated fs) = declared_length fs /\
  print_date (user_headers dated fs) = dated.
Proof.
  intros Hwf. destruct (wf_user_inv fs Hwf) as (_ & HT & HC).
  rewrite user_headers_fold.
  destruct (fold_add_facts fs (if dated then new_headers else new_nodate)) as (F1 & F2 & F3 & F4).
  rewrite F1, F2, F3, F4. unfold declared_chunked, declared_length.
  split; [destruct dated; reflexivity|]. split; [|split; [|destruct dated; reflexivity]].
  - destruct HT as [HT|(te & HT & Hv)]; rewrite HT; cbn [existsb].
    + destruct dated; reflexivity.
    + rewrite (chunked_value_found _ Hv). destruct dated; reflexivity.
  - destruct HC as [HC|(cl & n & HC & Hv)]; rewrite HC; cbn [rev app].
    + destruct dated; reflexivity.
    + reflexivity.
Qed.

(* ------------------------------------------------------------------ counting the framing fields *)
Lemma filter_none {A} (p q : A -> bool) l : (forall x, q x = true -> p x = false) -> filter p (filter q l) = [].
Proof.
  intros H. induction l as [|a l IH]; [reflexivity|]. cbn [filter]. destruct (q a) eqn:E; [|exact IH].
  cbn [filter]. rewrite (H a E). exact IH.
Qed.

Lemma filter_keep {A} (p q : A -> bool) l : (forall x, p x = true -> q x = true) -> filter p (filter q l) = filter p l.
Proof.
  intros H. induction l as [|a l IH]; [reflexivity|]. cbn [filter]. destruct (q a) eqn:E.
  - cbn [filter]. rewrite IH. reflexivity.
  - destruct (p a) eqn:E2; [rewrite (H a E2) in E; discriminate E | exact IH].
Qed.

Lemma forallb_filter {A} (p q : A -> bool) l : forallb p l = true -> forallb p (filter q l) = true.
Proof.
  induction l as [|a l IH]; intros H; [reflexivity|]. cbn [forallb] in H. apply andb_true_iff in H.
  destruct H as [H1 H2]. cbn [filter]. destruct (q a); [cbn [forallb]; rewrite H1|]; apply IH; exact H2.
Qed.

Lemma shown_cl dated fs dv : filter (is_name (bs "content-length")) (shown_fields dated fs dv) = [].
Proof.
  unfold shown_fields. rewrite filter_app, filter_none.
  - destruct dated; reflexivity.
  - intros x Hx. apply negb_true_iff in Hx. exact Hx.
Qed.

Lemma shown_te dated fs dv : filter (is_name (bs "transfer-encoding")) (shown_fields dated fs dv) = filter is_te fs.
Proof.
  unfold shown_fields. rewrite filter_app, filter_keep.
  - replace (filter (is_name (bs "transfer-encoding")) (if dated then [(bs "date", dv)] else [])) with (@nil (bytes * bytes))
      by (destruct dated; reflexivity).
    apply app_nil_r.
  - intros x Hx. unfold is_name in Hx. unfold is_clf.
    destruct (name_cases (fst x)) as [(A & B & C)|[(A & B & C)|[(A & B & C)|(A & B & C)]]]; rewrite A; try reflexivity.
    rewrite B in Hx. discriminate Hx.
Qed.

Lemma shown_wf dated fs dv : forallb wf_field fs = true -> wf_date_value dv = true ->
  forallb wf_field (shown_fields dated fs dv) = true.
Proof.
  intros H1 H2. unfold shown_fields. rewrite forallb_app, (forallb_filter _ _ fs H1).
  destruct dated; [|reflexivity]. cbn [forallb andb]. unfold wf_date_value in H2. rewrite H2. reflexivity.
Qed.

(* the printed head fields *)
Lemma head_fields_shown dated fs dv : wf_user_fields fs = true ->
  head_fields (user_headers dated fs) (date_line dv) = flat_map render_field (shown_fields dated fs dv).
Proof.
  intros Hwf. destruct (user_headers_facts dated fs Hwf) as (F1 & _ & _ & F4).
  unfold head_fields, header_lines, shown_fields. rewrite F1, F4, render_fields_app. f_equal.
  destruct dated; [|reflexivity]. cbn [flat_map]. rewrite app_nil_r. reflexivity.
Qed.

(* the framing lines the printer adds *)
Lemma cl_line n : content_length_header n ++ PCRLF = render_field (bs "content-length", dec_of n).
Proof. unfold content_length_header, render_field, dec_of. cbn [fst snd]. rewrite <- !app_assoc. reflexivity. Qed.

Lemma te_line : bs "transfer-encoding: chunked" ++ PCRLF = render_field (bs "transfer-encoding", bs "chunked").
Proof. reflexivity. Qed.

Lemma cl0_line : bs "content-length: 0" ++ PCRLF = render_field (bs "content-length", dec_of 0).
Proof. reflexivity. Qed.

Lemma wf_cl_field n : (n < 2 ^ 64)%N -> wf_field (bs "content-length", dec_of n) = true.
Proof.
  intros Hn. destruct (u64_digits n Hn) as (_ & D & _). unfold dec_of.
  destruct (digits_no_outer _ D) as [O1 O2].
  unfold wf_field. cbn [fst snd].
  replace (no_crlf (u64_to_ascii n)) with true.
  2:{ symmetry. unfold no_crlf. revert D. apply forallb_impl. intros b Hb.
      destruct (is_digit_plain b Hb) as (_ & P1 & P2). rewrite P1, P2. reflexivity. }
  destruct (u64_to_ascii n) as [|b r]; [reflexivity|]. rewrite O1.
  destruct (rev (b :: r)) as [|c q]; [reflexivity|]. rewrite O2. reflexivity.
Qed.

Lemma wf_te_field : wf_field (bs "transfer-encoding", bs "chunked") = true.
Proof. vm_compute. reflexivity. Qed.
