(* Liveness side of the epoll transition system (Model/Epoll.v), beyond the enabledness facts of Proofs/Epoll.v:
     1. batch completeness: between [LWait cs] and the closing [LBatchEnd] the loop looks at every reported
        connection exactly once (and at no other), with the outcome determined by the record's flags;
     2. a reported connection without a job is dispatched before the batch ends (no other actor can interfere);
     3. progress: a ready connection always has a server-side move that concerns it; inside a batch a loop label is
        always enabled;
     4. a measure [MU] on states: every server-side label that does work decreases it by at least one, the
        bookkeeping labels do not increase it, client input increases it by a constant - EXCEPT [LRearm] of a
        connection whose peer has closed and whose input is drained (the model lets the job re-arm it), which is
        refuted as a bound ([dispatch_bound_refuted]) and charged explicitly in the amortized theorem;
        [LEvent c OBusy] is unbounded under level-triggered epoll ([busy_bound_refuted]).
   Method: the per-connection "modes" of Proofs/Epoll.v; [step] is hidden behind [step_conn] (a mode-level
   transition function [mstep]) and [step_accept] / [step_wait] / [step_batchend]. *)
From KV Require Import Lib.Bytes Model.Epoll Proofs.Epoll.

(* ------------------------------------------------------------------------------------------ *)
(* traces and reachability                                                                      *)

Definition reachable (s : estate) : Prop := exists tr, run ep_init tr = Some s.

Lemma run_app_gen : forall t1 t2 s,
  run s (t1 ++ t2) = match run s t1 with Some s1 => run s1 t2 | None => None end.
Proof.
  intros t1. induction t1 as [|a r IH]; intros t2 s.
  - reflexivity.
  - cbn [app run]. destruct (step s a) as [s1|]; [apply IH | reflexivity].
Qed.

Lemma run_split : forall t1 t2 s s', run s (t1 ++ t2) = Some s' ->
  exists s1, run s t1 = Some s1 /\ run s1 t2 = Some s'.
Proof.
  intros t1 t2 s s' Hrun. rewrite run_app_gen in Hrun.
  destruct (run s t1) as [s1|]; [|discriminate Hrun].
  exists s1. split; [reflexivity | exact Hrun].
Qed.

Lemma run_cons : forall l r s s', run s (l :: r) = Some s' ->
  exists s1, step s l = Some s1 /\ run s1 r = Some s'.
Proof.
  intros l r s s' Hrun. cbn [run] in Hrun.
  destruct (step s l) as [s1|]; [|discriminate Hrun].
  exists s1. split; [reflexivity | exact Hrun].
Qed.

Lemma reachable_init : reachable ep_init.
Proof. exists []. reflexivity. Qed.

Lemma reachable_run : forall s tr s', reachable s -> run s tr = Some s' -> reachable s'.
Proof.
  intros s tr s' [tr0 Hr0] Hrun. exists (tr0 ++ tr). rewrite run_app_gen, Hr0. exact Hrun.
Qed.

Lemma reachable_step : forall s l s', reachable s -> step s l = Some s' -> reachable s'.
Proof.
  intros s l s' Hreach Hstep. apply (reachable_run s [l] s' Hreach). cbn [run]. rewrite Hstep. reflexivity.
Qed.

(* every connection of a reachable state is [mk] of a mode *)
Lemma reachable_mk : forall s c k, reachable s -> nth_error (e_conns s) c = Some k ->
  exists m p peer b a, k = mk m p peer b a /\
    (b = true -> e_loop s = EBatch /\ m_inb_ok m = true).
Proof.
  intros s c k [tr Hrun] Hn. pose proof (run_cinv tr s c k Hrun Hn) as Hc.
  inversion Hc as [m pend peer inb ans Hinb Hnf Hnd Hk].
  exists m, pend, peer, inb, ans. split; [reflexivity|]. assumption.
Qed.

(* ------------------------------------------------------------------------------------------ *)
(* counting                                                                                     *)

Lemma cnt_cons : forall p (l : elabel) r, cnt p (l :: r) = bn (p l) + cnt p r.
Proof. intros p l r. unfold cnt. cbn [filter]. destruct (p l); reflexivity. Qed.

Lemma cnt_app : forall p (a b : list elabel), cnt p (a ++ b) = cnt p a + cnt p b.
Proof. intros p a b. unfold cnt. rewrite filter_app, app_length. reflexivity. Qed.

Lemma cnt0_existsb : forall p (l : list elabel), cnt p l = 0 -> existsb p l = false.
Proof.
  intros p l. induction l as [|x r IH]; intros Hc.
  - reflexivity.
  - rewrite cnt_cons in Hc. cbn [existsb]. destruct (p x); cbn [bn] in Hc; [discriminate Hc|].
    apply IH. exact Hc.
Qed.

Lemma cnt1_split : forall p (l : list elabel), cnt p l = 1 ->
  exists pre x post, l = pre ++ x :: post /\ p x = true /\ existsb p pre = false /\ existsb p post = false.
Proof.
  intros p l. induction l as [|y r IH]; intros Hc.
  - discriminate Hc.
  - rewrite cnt_cons in Hc. destruct (p y) eqn:Hy; cbn [bn] in Hc.
    + exists [], y, r. split; [reflexivity|]. split; [exact Hy|]. split; [reflexivity|].
      apply cnt0_existsb. lia.
    + destruct (IH Hc) as [pre [x [post [Hl [Hx [Hpre Hpost]]]]]].
      exists (y :: pre), x, post. split; [rewrite Hl; reflexivity|]. split; [exact Hx|].
      split; [cbn [existsb]; rewrite Hy; exact Hpre | exact Hpost].
Qed.

Lemma forallb_false_ex : forall {A} (f : A -> bool) l, forallb f l = false -> exists x, In x l /\ f x = false.
Proof.
  intros A f l. induction l as [|y r IH]; intros Hf.
  - discriminate Hf.
  - cbn [forallb] in Hf. destruct (f y) eqn:Hy.
    + destruct (IH Hf) as [x [Hin Hx]]. exists x. split; [right; exact Hin | exact Hx].
    + exists y. split; [left; reflexivity | exact Hy].
Qed.

(* ------------------------------------------------------------------------------------------ *)
(* [step] behind inversion lemmas                                                               *)

(* the connection a label acts on through [with_conn] *)
Definition target (l : elabel) : option nat :=
  match l with
  | LClientSend c | LClientClose c | LEvent c _ | LFree c | LJobStart c | LRearm c | LDel c | LStreamDrop c
  | LClosedStore c | LGrave c => Some c
  | LAccept _ | LWait _ | LBatchEnd => None
  end.

Definition loop_ok (lp : elstate) (l : elabel) : bool :=
  match l with
  | LEvent _ _ | LFree _ => match lp with EBatch => true | EWaiting => false end
  | _ => true
  end.

(* the transition of one connection at the level of modes: (mode, pending, peer_closed, in_batch, answered) *)
Definition mstep (l : elabel) (m : mode) (p : nat) (peer b : bool) (a : nat)
  : option (mode * nat * bool * bool * nat) :=
  match l with
  | LClientSend _ => if peer then None else Some (m, S p, false, b, a)
  | LClientClose _ => Some (m, p, true, b, a)
  | LEvent _ o =>
      if b then
        match m, o with
        | M1, ODispatched => Some (M2, p, peer, false, a)
        | M2, OBusy | M3, OBusy | M4, OBusy | M5, OBusy => Some (m, p, peer, false, a)
        | M6, OStale | M7, OStale => Some (m, p, peer, false, a)
        | _, _ => None
        end
      else None
  | LFree _ => match m with M7 => Some (M8, p, peer, b, a) | _ => None end
  | LJobStart _ => match m with
                   | M2 => Some (M3, pred p, peer, b, match p with O => a | S _ => S a end)
                   | _ => None
                   end
  | LRearm _ => match m with M3 => Some (M1, p, peer, b, a) | _ => None end
  | LDel _ => match m with M3 => Some (M4, p, peer, b, a) | _ => None end
  | LStreamDrop _ => match m with M4 => Some (M5, p, peer, b, a) | _ => None end
  | LClosedStore _ => match m with M5 => Some (M6, p, peer, b, a) | _ => None end
  | LGrave _ => match m with M6 => Some (M7, p, peer, b, a) | _ => None end
  | LAccept _ | LWait _ | LBatchEnd => None
  end.

Ltac mk_done := do 5 eexists; split; reflexivity.

Lemma step_conn : forall s l c s', reachable s -> target l = Some c -> step s l = Some s' ->
  exists m p peer b a m' p' peer' b' a',
    nth_error (e_conns s) c = Some (mk m p peer b a) /\
    (b = true -> e_loop s = EBatch /\ m_inb_ok m = true) /\
    loop_ok (e_loop s) l = true /\
    mstep l m p peer b a = Some (m', p', peer', b', a') /\
    s' = {| e_conns := set_nth (e_conns s) c (mk m' p' peer' b' a'); e_loop := e_loop s |}.
Proof.
  intros s l c s' Hreach Ht Hstep.
  assert (Hgen : exists f, loop_ok (e_loop s) l = true /\ with_conn s c f = Some s' /\
            forall m p peer b a k', (b = true -> m_inb_ok m = true) -> f (mk m p peer b a) = Some k' ->
              exists m' p' peer' b' a',
                mstep l m p peer b a = Some (m', p', peer', b', a') /\ k' = mk m' p' peer' b' a').
  { destruct l as [ok|c0|c0|batch|c0 o|c0| |c0|c0|c0|c0|c0|c0]; cbn [target] in Ht; try discriminate Ht;
      inversion Ht; subst c0; clear Ht; unfold step in Hstep;
      try (destruct (e_loop s) eqn:Hloop; [discriminate Hstep|]);
      try (destruct (forallb (fun k => negb (k_in_batch k)) (e_conns s)) eqn:Hall; [cbn [negb] in Hstep|discriminate Hstep]);
      (eexists; split; [reflexivity|]; split; [exact Hstep|]);
      intros m p peer b a k' Hinb Hf.
    - (* LClientSend *)
      cbn in Hf. destruct peer; [discriminate Hf|]. inversion Hf. mk_done.
    - (* LClientClose *)
      cbn in Hf. inversion Hf. mk_done.
    - (* LEvent *)
      destruct b; [|cbn in Hf; discriminate Hf]. specialize (Hinb eq_refl).
      destruct m; try discriminate Hinb; destruct o; cbn in Hf; try discriminate Hf; inversion Hf; mk_done.
    - (* LFree *)
      destruct m; cbn in Hf; try discriminate Hf. inversion Hf. mk_done.
    - (* LJobStart *)
      destruct m; cbn in Hf; try discriminate Hf.
      destruct p as [|p]; cbn in Hf; inversion Hf.
      + mk_done.
      + do 5 eexists. split; [reflexivity|]. unfold mk. rewrite seq_S. reflexivity.
    - (* LRearm *)
      destruct m; cbn in Hf; try discriminate Hf. inversion Hf. mk_done.
    - (* LDel *)
      destruct m; cbn in Hf; try discriminate Hf. inversion Hf. mk_done.
    - (* LStreamDrop *)
      destruct m; cbn in Hf; try discriminate Hf. inversion Hf. mk_done.
    - (* LClosedStore *)
      destruct m; cbn in Hf; try discriminate Hf. inversion Hf. mk_done.
    - (* LGrave *)
      destruct m; cbn in Hf; try discriminate Hf. inversion Hf. mk_done. }
  destruct Hgen as [f [Hlk [Hw Hchar]]].
  apply with_conn_inv in Hw. destruct Hw as [k [k' [Hn [Hf Hs']]]].
  destruct (reachable_mk s c k Hreach Hn) as [m [p [peer [b [a [Hk Hinb]]]]]]. subst k.
  assert (Hinb' : b = true -> m_inb_ok m = true) by (intro Hb; apply (Hinb Hb)).
  destruct (Hchar m p peer b a k' Hinb' Hf) as [m' [p' [peer' [b' [a' [Hm Hk']]]]]]. subst k'.
  exists m, p, peer, b, a, m', p', peer', b', a'.
  split; [exact Hn|]. split; [exact Hinb|]. split; [exact Hlk|]. split; [exact Hm|exact Hs'].
Qed.

Lemma step_accept : forall s ok s', step s (LAccept ok) = Some s' ->
  s' = {| e_conns := e_conns s ++ [new_conn ok]; e_loop := e_loop s |}.
Proof. intros s ok s' Hstep. cbn [step] in Hstep. inversion Hstep. reflexivity. Qed.

Definition set_inb (k : conn) : conn :=
  {| k_rec := k_rec k; k_stream := k_stream k; k_registered := k_registered k; k_in_flight := k_in_flight k;
     k_closed := k_closed k; k_pending := k_pending k; k_peer_closed := k_peer_closed k; k_jobs := k_jobs k;
     k_in_batch := true; k_grave := k_grave k; k_answered := k_answered k; k_taken := k_taken k |}.

Lemma step_wait : forall s cs s', step s (LWait cs) = Some s' ->
  e_loop s = EWaiting /\ e_loop s' = EBatch /\
  (forall c, In c cs -> exists k, nth_error (e_conns s) c = Some k /\ ready k = true) /\
  (forall c, nth_error (e_conns s') c =
     match nth_error (e_conns s) c with
     | Some k => Some (if existsb (Nat.eqb c) cs then set_inb k else k)
     | None => None
     end).
Proof.
  intros s cs s' Hstep. unfold step in Hstep.
  destruct (e_loop s) eqn:Hloop; [|discriminate Hstep].
  match type of Hstep with (if ?b then _ else _) = _ => destruct b eqn:Hcond; [|discriminate Hstep] end.
  inversion Hstep; subst s'; clear Hstep.
  apply andb_true_iff in Hcond. destruct Hcond as [_ Hall].
  split; [reflexivity|]. split; [reflexivity|]. split.
  - intros c Hin. pose proof (proj1 (forallb_forall _ _) Hall c Hin) as Hr. cbn beta in Hr.
    destruct (nth_error (e_conns s) c) as [k|]; [|discriminate Hr].
    exists k. split; [reflexivity | exact Hr].
  - intros c. cbn [e_conns]. rewrite nth_error_map_combine_seq. reflexivity.
Qed.

Lemma step_batchend : forall s s', step s LBatchEnd = Some s' ->
  e_loop s = EBatch /\ s' = {| e_conns := e_conns s; e_loop := EWaiting |} /\
  forall c k, nth_error (e_conns s) c = Some k -> k_in_batch k = false.
Proof.
  intros s s' Hstep. unfold step in Hstep.
  destruct (e_loop s) eqn:Hloop; [discriminate Hstep|].
  match type of Hstep with (if ?b then _ else _) = _ => destruct b eqn:Hcond; [|discriminate Hstep] end.
  inversion Hstep; subst s'; clear Hstep.
  split; [reflexivity|]. split; [reflexivity|].
  intros c k Hn. apply nth_error_In in Hn.
  pose proof (proj1 (forallb_forall _ _) Hcond k Hn) as Hb. cbn beta in Hb.
  apply negb_true_iff in Hb. exact Hb.
Qed.

Definition outcome_of (k : conn) : outcome :=
  if k_closed k then OStale else if k_in_flight k then OBusy else ODispatched.

(* no reachability needed: what the loop does with an event is a function of the flags it reads *)
Lemma step_event : forall s c o s', step s (LEvent c o) = Some s' ->
  e_loop s = EBatch /\ exists k, nth_error (e_conns s) c = Some k /\ k_in_batch k = true /\ o = outcome_of k.
Proof.
  intros s c o s' Hstep. unfold step in Hstep.
  destruct (e_loop s) eqn:Hloop; [discriminate Hstep|].
  apply with_conn_inv in Hstep. destruct Hstep as [k [k' [Hn [Hf _]]]].
  split; [reflexivity|]. exists k. split; [exact Hn|].
  destruct (k_in_batch k); [|discriminate Hf]. split; [reflexivity|].
  unfold outcome_of. cbn [negb] in Hf.
  destruct (k_closed k); [|destruct (k_in_flight k)]; destruct o; cbn in Hf; try discriminate Hf; reflexivity.
Qed.

Lemma target_other : forall l c0 c, target l = Some c0 -> c <> c0 ->
  forall s x, nth_error (e_conns {| e_conns := set_nth (e_conns s) c0 x; e_loop := e_loop s |}) c = nth_error (e_conns s) c.
Proof.
  intros l c0 c _ Hne s x. cbn [e_conns]. apply nth_error_set_nth_neq.
  intro Heq. apply Hne. symmetry. exact Heq.
Qed.

(* ------------------------------------------------------------------------------------------ *)
(* 1. batch completeness                                                                        *)

Definition isevent (c : nat) (l : elabel) : bool := match l with LEvent c' _ => Nat.eqb c c' | _ => false end.
Definition isbatchend (l : elabel) : bool := match l with LBatchEnd => true | _ => false end.

Lemma isevent_inv : forall c l, isevent c l = true -> exists o, l = LEvent c o.
Proof.
  intros c l Hl. destruct l; try discriminate Hl. cbn [isevent] in Hl.
  apply Nat.eqb_eq in Hl. subst. eexists. reflexivity.
Qed.

Lemma isevent_target : forall c l, isevent c l = true -> target l = Some c.
Proof. intros c l Hl. destruct (isevent_inv c l Hl) as [o Ho]. subst l. reflexivity. Qed.

(* in_batch flag of connection c as a number *)
Definition inb (s : estate) (c : nat) : nat :=
  match nth_error (e_conns s) c with Some k => bn (k_in_batch k) | None => 0 end.

Lemma mstep_inb : forall l c m p peer b a m' p' peer' b' a',
  target l = Some c -> mstep l m p peer b a = Some (m', p', peer', b', a') ->
  bn b' + bn (isevent c l) = bn b.
Proof.
  intros l c m p peer b a m' p' peer' b' a' Ht Hm.
  destruct l as [ok|c0|c0|batch|c0 o|c0| |c0|c0|c0|c0|c0|c0]; cbn [target] in Ht; try discriminate Ht;
    inversion Ht; subst c0; clear Ht; cbn [mstep isevent] in *.
  - destruct peer; [discriminate Hm|]. inversion Hm; subst. cbn [bn]. lia.
  - inversion Hm; subst. cbn [bn]. lia.
  - rewrite Nat.eqb_refl. destruct b; [|discriminate Hm].
    destruct m; destruct o; try discriminate Hm; inversion Hm; reflexivity.
  - destruct m; try discriminate Hm. inversion Hm; subst. cbn [bn]. lia.
  - destruct m; try discriminate Hm. inversion Hm; subst. cbn [bn]. lia.
  - destruct m; try discriminate Hm. inversion Hm; subst. cbn [bn]. lia.
  - destruct m; try discriminate Hm. inversion Hm; subst. cbn [bn]. lia.
  - destruct m; try discriminate Hm. inversion Hm; subst. cbn [bn]. lia.
  - destruct m; try discriminate Hm. inversion Hm; subst. cbn [bn]. lia.
  - destruct m; try discriminate Hm. inversion Hm; subst. cbn [bn]. lia.
Qed.

Lemma nth_error_snoc_new : forall (l : list conn) x c,
  nth_error (l ++ [x]) c = match nth_error l c with
                           | Some k => Some k
                           | None => if Nat.eqb c (length l) then Some x else None
                           end.
Proof.
  intros l x c. destruct (Nat.lt_ge_cases c (length l)) as [Hlt|Hge].
  - rewrite nth_error_app1 by exact Hlt.
    destruct (nth_error l c) eqn:Hn; [reflexivity|]. apply nth_error_None in Hn. lia.
  - rewrite nth_error_app2 by exact Hge.
    assert (Hnone : nth_error l c = None) by (apply nth_error_None; exact Hge). rewrite Hnone.
    destruct (Nat.eqb c (length l)) eqn:He.
    + apply Nat.eqb_eq in He. rewrite He, Nat.sub_diag. reflexivity.
    + apply Nat.eqb_neq in He. destruct (c - length l) as [|d] eqn:Hd; [lia|]. cbn [nth_error]. destruct d; reflexivity.
Qed.

Lemma step_inb : forall s l s', reachable s -> e_loop s = EBatch -> step s l = Some s' -> isbatchend l = false ->
  e_loop s' = EBatch /\ forall c, inb s' c + bn (isevent c l) = inb s c.
Proof.
  intros s l s' Hreach Hl Hstep Hnb.
  destruct (target l) as [c0|] eqn:Ht.
  - destruct (step_conn s l c0 s' Hreach Ht Hstep)
      as (m & p & peer & b & a & m' & p' & peer' & b' & a' & Hn & _ & _ & Hm & Hs').
    subst s'. split; [exact Hl|]. intros c. unfold inb.
    destruct (Nat.eq_dec c c0) as [Heq|Hne].
    + subst c. cbn [e_conns]. rewrite (nth_error_set_nth_eq _ _ _ _ Hn), Hn. cbn [mk k_in_batch].
      eapply mstep_inb; eassumption.
    + rewrite (target_other l c0 c Ht Hne).
      destruct (isevent c l) eqn:He.
      * apply isevent_target in He. rewrite Ht in He. inversion He. exfalso. apply Hne. symmetry. assumption.
      * cbn [bn]. lia.
  - destruct l as [ok|c0|c0|batch|c0 o|c0| |c0|c0|c0|c0|c0|c0]; try discriminate Ht.
    + apply step_accept in Hstep. subst s'. split; [exact Hl|]. intros c. unfold inb. cbn [e_conns isevent bn].
      rewrite nth_error_snoc_new. destruct (nth_error (e_conns s) c) as [k|]; [lia|].
      destruct (Nat.eqb c (length (e_conns s))); reflexivity.
    + apply step_wait in Hstep. destruct Hstep as [Hw _]. rewrite Hw in Hl. discriminate Hl.
    + discriminate Hnb.
Qed.

Lemma batch_segment : forall tr s s', reachable s -> e_loop s = EBatch -> run s tr = Some s' ->
  existsb isbatchend tr = false ->
  e_loop s' = EBatch /\ forall c, inb s' c + cnt (isevent c) tr = inb s c.
Proof.
  intros tr. induction tr as [|l r IH]; intros s s' Hreach Hl Hrun Hnb.
  - cbn [run] in Hrun. inversion Hrun; subst s'. split; [exact Hl|]. intros c. cbn. lia.
  - apply run_cons in Hrun. destruct Hrun as [s1 [Hstep Hrun]].
    cbn [existsb] in Hnb. apply orb_false_iff in Hnb. destruct Hnb as [Hnl Hnr].
    destruct (step_inb s l s1 Hreach Hl Hstep Hnl) as [Hl1 Hinb1].
    destruct (IH s1 s' (reachable_step s l s1 Hreach Hstep) Hl1 Hrun Hnr) as [Hl' Hinb'].
    split; [exact Hl'|]. intros c. rewrite cnt_cons. specialize (Hinb1 c). specialize (Hinb' c). lia.
Qed.

Lemma waiting_inb0 : forall s c, reachable s -> e_loop s = EWaiting -> inb s c = 0.
Proof.
  intros s c Hreach Hl. unfold inb. destruct (nth_error (e_conns s) c) as [k|] eqn:Hn; [|reflexivity].
  destruct (reachable_mk s c k Hreach Hn) as [m [p [peer [b [a [Hk Hinb]]]]]]. subst k. cbn [mk k_in_batch].
  destruct b; [|reflexivity]. destruct (Hinb eq_refl) as [Hx _]. rewrite Hl in Hx. discriminate Hx.
Qed.

(* the states of a batch: before the wait, after it, before and after the closing LBatchEnd *)
Lemma batch_core : forall tr1 cs tr2 s',
  run ep_init (tr1 ++ LWait cs :: tr2 ++ [LBatchEnd]) = Some s' -> existsb isbatchend tr2 = false ->
  exists s1 s2 s3,
    run ep_init tr1 = Some s1 /\ step s1 (LWait cs) = Some s2 /\ run s2 tr2 = Some s3 /\
    step s3 LBatchEnd = Some s' /\
    forall c, cnt (isevent c) tr2 = bn (existsb (Nat.eqb c) cs).
Proof.
  intros tr1 cs tr2 s' Hrun Hnb.
  apply run_split in Hrun. destruct Hrun as [s1 [Hr1 Hrun]].
  apply run_cons in Hrun. destruct Hrun as [s2 [Hwait Hrun]].
  apply run_split in Hrun. destruct Hrun as [s3 [Hr2 Hrun]].
  apply run_cons in Hrun. destruct Hrun as [s4 [Hend Hrun]]. cbn [run] in Hrun. inversion Hrun; subst s4; clear Hrun.
  exists s1, s2, s3. repeat (split; [assumption|]).
  assert (Hreach1 : reachable s1) by (exists tr1; exact Hr1).
  assert (Hreach2 : reachable s2) by (eapply reachable_step; eassumption).
  pose proof (step_wait s1 cs s2 Hwait) as [Hl1 [Hl2 [Hready Hnth]]].
  destruct (batch_segment tr2 s2 s3 Hreach2 Hl2 Hr2 Hnb) as [_ Hcount].
  pose proof (step_batchend s3 s' Hend) as [_ [_ Hclean]].
  intros c. specialize (Hcount c).
  assert (H3 : inb s3 c = 0).
  { unfold inb. destruct (nth_error (e_conns s3) c) as [k|] eqn:Hn; [|reflexivity].
    rewrite (Hclean c k Hn). reflexivity. }
  assert (H2 : inb s2 c = bn (existsb (Nat.eqb c) cs)).
  { pose proof (waiting_inb0 s1 c Hreach1 Hl1) as H1. unfold inb in *. rewrite Hnth.
    destruct (nth_error (e_conns s1) c) as [k|] eqn:Hn.
    - destruct (existsb (Nat.eqb c) cs); [reflexivity | exact H1].
    - destruct (existsb (Nat.eqb c) cs) eqn:Hex; [|reflexivity].
      apply existsb_eqb_In in Hex. destruct (Hready c Hex) as [k [Hk _]]. rewrite Hn in Hk. discriminate Hk. }
  lia.
Qed.

Lemma In_existsb_eqb : forall c (l : list nat), In c l -> existsb (Nat.eqb c) l = true.
Proof. intros c l Hin. apply existsb_exists. exists c. split; [exact Hin | apply Nat.eqb_refl]. Qed.

(* the loop looks at every connection epoll_wait reported exactly once, and at no other, before it ends the batch *)
Theorem batch_exact : forall tr1 cs tr2 s',
  run ep_init (tr1 ++ LWait cs :: tr2 ++ [LBatchEnd]) = Some s' -> existsb isbatchend tr2 = false ->
  forall c, cnt (isevent c) tr2 = if existsb (Nat.eqb c) cs then 1 else 0.
Proof.
  intros tr1 cs tr2 s' Hrun Hnb c.
  destruct (batch_core tr1 cs tr2 s' Hrun Hnb) as (s1 & s2 & s3 & _ & _ & _ & _ & Hcount).
  rewrite Hcount. reflexivity.
Qed.

(* ... and what it does with it is determined by the flags at that moment *)
Theorem batch_complete : forall tr1 cs tr2 s',
  run ep_init (tr1 ++ LWait cs :: tr2 ++ [LBatchEnd]) = Some s' -> existsb isbatchend tr2 = false ->
  forall c, In c cs ->
    exists pre o post sm k,
      tr2 = pre ++ LEvent c o :: post /\
      existsb (isevent c) pre = false /\ existsb (isevent c) post = false /\
      run ep_init (tr1 ++ LWait cs :: pre) = Some sm /\
      nth_error (e_conns sm) c = Some k /\
      o = outcome_of k /\
      (o = ODispatched <-> k_closed k = false /\ k_in_flight k = false).
Proof.
  intros tr1 cs tr2 s' Hrun Hnb c Hin.
  destruct (batch_core tr1 cs tr2 s' Hrun Hnb) as (s1 & s2 & s3 & Hr1 & Hwait & Hr2 & _ & Hcount).
  specialize (Hcount c). rewrite (In_existsb_eqb c cs Hin) in Hcount. cbn [bn] in Hcount.
  destruct (cnt1_split _ _ Hcount) as [pre [x [post [Htr [Hx [Hpre Hpost]]]]]].
  destruct (isevent_inv c x Hx) as [o Ho]. subst x.
  rewrite Htr in Hr2. apply run_split in Hr2. destruct Hr2 as [sm [Hrm Hr2]].
  apply run_cons in Hr2. destruct Hr2 as [sm' [Hev _]].
  destruct (step_event sm c o sm' Hev) as [_ [k [Hn [_ Ho]]]].
  exists pre, o, post, sm, k.
  split; [exact Htr|]. split; [exact Hpre|]. split; [exact Hpost|].
  split; [rewrite run_app_gen, Hr1; cbn [run]; rewrite Hwait; exact Hrm|].
  split; [exact Hn|]. split; [exact Ho|].
  rewrite Ho. unfold outcome_of. destruct (k_closed k); destruct (k_in_flight k); split;
    try (intro Hx0; discriminate Hx0); try (intros [Hx0 Hx1]; try discriminate Hx0; discriminate Hx1);
    try (intros _; split; reflexivity); intros _; reflexivity.
Qed.

Corollary batch_complete_In : forall tr1 cs tr2 s',
  run ep_init (tr1 ++ LWait cs :: tr2 ++ [LBatchEnd]) = Some s' -> existsb isbatchend tr2 = false ->
  forall c, In c cs -> exists o, In (LEvent c o) tr2.
Proof.
  intros tr1 cs tr2 s' Hrun Hnb c Hin.
  destruct (batch_complete tr1 cs tr2 s' Hrun Hnb c Hin) as (pre & o & post & _ & _ & Htr & _).
  exists o. rewrite Htr. apply in_or_app. right. left. reflexivity.
Qed.

(* ------------------------------------------------------------------------------------------ *)
(* 2. a reported connection without a job is dispatched before the batch ends                    *)

(* in_flight clear and not closed: by the invariant this is "no job" (modes M0, M1); only the loop's own
   [LEvent c] leaves it - no other actor can: the job labels of c need a job, other connections' labels
   do not touch c *)
Definition idle (k : conn) : Prop := k_in_flight k = false /\ k_closed k = false.

Lemma mstep_idle : forall l c m p peer b a m' p' peer' b' a',
  target l = Some c -> isevent c l = false -> m_infl m = false ->
  mstep l m p peer b a = Some (m', p', peer', b', a') -> m' = m.
Proof.
  intros l c m p peer b a m' p' peer' b' a' Ht Hne Hfl Hm.
  destruct l as [ok|c0|c0|batch|c0 o|c0| |c0|c0|c0|c0|c0|c0]; cbn [target] in Ht; try discriminate Ht;
    inversion Ht; subst c0; clear Ht; cbn [mstep isevent] in *.
  - destruct peer; [discriminate Hm|]. inversion Hm. reflexivity.
  - inversion Hm. reflexivity.
  - rewrite Nat.eqb_refl in Hne. discriminate Hne.
  - destruct m; try discriminate Hm; discriminate Hfl.
  - destruct m; try discriminate Hm; discriminate Hfl.
  - destruct m; try discriminate Hm; discriminate Hfl.
  - destruct m; try discriminate Hm; discriminate Hfl.
  - destruct m; try discriminate Hm; discriminate Hfl.
  - destruct m; try discriminate Hm; discriminate Hfl.
  - destruct m; try discriminate Hm; discriminate Hfl.
Qed.

Lemma idle_set_inb : forall k, idle k -> idle (set_inb k).
Proof. intros k Hk. exact Hk. Qed.

Lemma step_idle : forall s l s' c k, reachable s -> step s l = Some s' ->
  nth_error (e_conns s) c = Some k -> idle k -> isevent c l = false ->
  exists k', nth_error (e_conns s') c = Some k' /\ idle k'.
Proof.
  intros s l s' c k Hreach Hstep Hn [Hfl Hcl] Hne.
  destruct (target l) as [c0|] eqn:Ht.
  - destruct (step_conn s l c0 s' Hreach Ht Hstep)
      as (m & p & peer & b & a & m' & p' & peer' & b' & a' & Hn0 & _ & _ & Hm & Hs').
    subst s'. destruct (Nat.eq_dec c c0) as [Heq|Hneq].
    + subst c0. rewrite Hn in Hn0. inversion Hn0; subst k; clear Hn0. cbn [mk k_in_flight k_closed] in Hfl, Hcl.
      assert (Hmm : m' = m) by (eapply mstep_idle; eassumption). subst m'.
      exists (mk m p' peer' b' a'). split; [cbn [e_conns]; eapply nth_error_set_nth_eq; exact Hn|].
      split; assumption.
    + exists k. split; [rewrite (target_other l c0 c Ht Hneq); exact Hn | split; assumption].
  - destruct l as [ok|c0|c0|batch|c0 o|c0| |c0|c0|c0|c0|c0|c0]; try discriminate Ht.
    + apply step_accept in Hstep. subst s'. exists k. split; [|split; assumption].
      cbn [e_conns]. rewrite nth_error_snoc_new, Hn. reflexivity.
    + apply step_wait in Hstep. destruct Hstep as [_ [_ [_ Hnth]]]. rewrite Hnth, Hn.
      eexists. split; [reflexivity|]. destruct (existsb (Nat.eqb c) batch); split; assumption.
    + apply step_batchend in Hstep. destruct Hstep as [_ [Hs' _]]. subst s'.
      exists k. split; [exact Hn | split; assumption].
Qed.

Lemma run_idle : forall tr s s' c k, reachable s -> run s tr = Some s' ->
  nth_error (e_conns s) c = Some k -> idle k -> existsb (isevent c) tr = false ->
  exists k', nth_error (e_conns s') c = Some k' /\ idle k'.
Proof.
  intros tr. induction tr as [|l r IH]; intros s s' c k Hreach Hrun Hn Hk Hne.
  - cbn [run] in Hrun. inversion Hrun; subst s'. exists k. split; assumption.
  - apply run_cons in Hrun. destruct Hrun as [s1 [Hstep Hrun]].
    cbn [existsb] in Hne. apply orb_false_iff in Hne. destruct Hne as [Hnl Hnr].
    destruct (step_idle s l s1 c k Hreach Hstep Hn Hk Hnl) as [k1 [Hn1 Hk1]].
    exact (IH s1 s' c k1 (reachable_step s l s1 Hreach Hstep) Hrun Hn1 Hk1 Hnr).
Qed.

(* full strength: no side condition on the other actors.  If, when epoll_wait returns [cs], the record of c in cs
   has in_flight clear and is not closed, then inside the batch there is exactly one event for c, its outcome is
   ODispatched, and right after it c has exactly the one queued job, under the in_flight flag. *)
Theorem reported_idle_dispatched : forall tr1 cs tr2 s' s1 c k,
  run ep_init (tr1 ++ LWait cs :: tr2 ++ [LBatchEnd]) = Some s' -> existsb isbatchend tr2 = false ->
  run ep_init tr1 = Some s1 -> nth_error (e_conns s1) c = Some k -> In c cs ->
  k_in_flight k = false -> k_closed k = false ->
  exists pre post sm k',
    tr2 = pre ++ LEvent c ODispatched :: post /\
    existsb (isevent c) pre = false /\ existsb (isevent c) post = false /\
    run ep_init (tr1 ++ LWait cs :: pre ++ [LEvent c ODispatched]) = Some sm /\
    nth_error (e_conns sm) c = Some k' /\ k_jobs k' = [JQueued] /\ k_in_flight k' = true.
Proof.
  intros tr1 cs tr2 s' s1 c k Hrun Hnb Hr1 Hn Hin Hfl Hcl.
  destruct (batch_complete tr1 cs tr2 s' Hrun Hnb c Hin)
    as (pre & o & post & sm & km & Htr & Hpre & Hpost & Hrm & Hnm & Ho & Hiff).
  (* the flags of c are untouched between the wait and the event *)
  assert (Hreach1 : reachable s1) by (exists tr1; exact Hr1).
  pose proof Hrm as Hrm'. rewrite run_app_gen, Hr1 in Hrm'.
  assert (Hne : existsb (isevent c) (LWait cs :: pre) = false) by (cbn [existsb isevent orb]; exact Hpre).
  destruct (run_idle _ s1 sm c k Hreach1 Hrm' Hn (conj Hfl Hcl) Hne) as [km' [Hnm' [Hflm Hclm]]].
  rewrite Hnm in Hnm'. inversion Hnm'; subst km'; clear Hnm'.
  assert (Hod : o = ODispatched) by (apply Hiff; split; assumption). clear Ho Hiff. subst o.
  (* the state right after the event *)
  rewrite Htr in Hrun.
  assert (Hrun' : run ep_init ((tr1 ++ LWait cs :: pre) ++ LEvent c ODispatched :: post ++ [LBatchEnd]) = Some s').
  { rewrite <- Hrun. f_equal. repeat (rewrite <- app_assoc; cbn [app]). reflexivity. }
  rewrite run_app_gen, Hrm in Hrun'. apply run_cons in Hrun'. destruct Hrun' as [sm' [Hev _]].
  assert (Hreachm : reachable sm) by (eexists; exact Hrm).
  destruct (step_conn sm (LEvent c ODispatched) c sm' Hreachm eq_refl Hev)
    as (m & p & peer & b & a & m' & p' & peer' & b' & a' & Hn0 & _ & _ & Hm & Hs').
  exists pre, post, sm', (mk m' p' peer' b' a').
  split; [exact Htr|]. split; [exact Hpre|]. split; [exact Hpost|].
  split.
  { replace (tr1 ++ LWait cs :: pre ++ [LEvent c ODispatched]) with ((tr1 ++ LWait cs :: pre) ++ [LEvent c ODispatched])
      by (rewrite <- app_assoc; reflexivity).
    rewrite run_app_gen, Hrm. cbn [run]. rewrite Hev. reflexivity. }
  split; [subst sm'; cbn [e_conns]; eapply nth_error_set_nth_eq; exact Hn0|].
  cbn [mstep] in Hm. destruct b; [|discriminate Hm].
  destruct m; try discriminate Hm; inversion Hm; split; reflexivity.
Qed.

Lemma ready_registered : forall k, ready k = true -> k_registered k = true.
Proof. intros k Hr. unfold ready in Hr. apply andb_true_iff in Hr. exact (proj1 Hr). Qed.

(* a registered connection of a reachable state is not closed; without a job its in_flight flag is clear *)
Lemma registered_not_closed : forall s c k, reachable s -> nth_error (e_conns s) c = Some k ->
  k_registered k = true -> k_closed k = false /\ (k_jobs k = [] -> k_in_flight k = false).
Proof.
  intros s c k Hreach Hn Hreg.
  destruct (reachable_mk s c k Hreach Hn) as [m [p [peer [b [a [Hk _]]]]]]. subst k.
  cbn [mk k_registered k_closed k_jobs k_in_flight] in *.
  destruct m; try discriminate Hreg; split; try reflexivity; intro Hj; discriminate Hj.
Qed.

(* the same in the vocabulary of the property: a connection epoll_wait reported that has no job gets one *)
Theorem reported_without_job_dispatched : forall tr1 cs tr2 s' s1 c k,
  run ep_init (tr1 ++ LWait cs :: tr2 ++ [LBatchEnd]) = Some s' -> existsb isbatchend tr2 = false ->
  run ep_init tr1 = Some s1 -> nth_error (e_conns s1) c = Some k -> In c cs -> k_jobs k = [] ->
  exists pre post sm k',
    tr2 = pre ++ LEvent c ODispatched :: post /\
    existsb (isevent c) pre = false /\ existsb (isevent c) post = false /\
    run ep_init (tr1 ++ LWait cs :: pre ++ [LEvent c ODispatched]) = Some sm /\
    nth_error (e_conns sm) c = Some k' /\ k_jobs k' = [JQueued] /\ k_in_flight k' = true.
Proof.
  intros tr1 cs tr2 s' s1 c k Hrun Hnb Hr1 Hn Hin Hj.
  assert (Hreach1 : reachable s1) by (exists tr1; exact Hr1).
  pose proof Hrun as Hrun0. apply run_split in Hrun0. destruct Hrun0 as [s1' [Hr1' Hrun0]].
  rewrite Hr1 in Hr1'. inversion Hr1'; subst s1'; clear Hr1'.
  apply run_cons in Hrun0. destruct Hrun0 as [s2 [Hwait _]].
  pose proof (step_wait s1 cs s2 Hwait) as [_ [_ [Hready _]]].
  destruct (Hready c Hin) as [k0 [Hn0 Hr]]. rewrite Hn in Hn0. inversion Hn0; subst k0; clear Hn0.
  destruct (registered_not_closed s1 c k Hreach1 Hn (ready_registered k Hr)) as [Hcl Hfl].
  eapply reported_idle_dispatched; try eassumption. apply Hfl. exact Hj.
Qed.

(* ------------------------------------------------------------------------------------------ *)
(* 3. progress                                                                                  *)

Definition is_loop_label (l : elabel) : bool :=
  match l with LEvent _ _ | LFree _ | LBatchEnd => true | _ => false end.

(* inside a batch the loop never blocks: it can look at a pending event, else end the batch (emptying the graveyard
   first is possible - Proofs/EpollReclaim.v - but not needed to go on).  (Holds in every state, reachable or not.) *)
Theorem loop_never_blocks : forall s, e_loop s = EBatch ->
  exists l s', is_loop_label l = true /\ step s l = Some s'.
Proof.
  intros s Hl.
  destruct (forallb (fun k => negb (k_in_batch k)) (e_conns s)) eqn:Hb.
  - exists LBatchEnd. unfold step. rewrite Hl, Hb. eexists. split; reflexivity.
  - apply forallb_false_ex in Hb. destruct Hb as [k [Hin Hk]]. apply negb_false_iff in Hk.
    apply In_nth_error in Hin. destruct Hin as [c Hn].
    exists (LEvent c (outcome_of k)). unfold step. rewrite Hl. unfold with_conn. rewrite Hn, Hk. cbn [negb].
    unfold outcome_of. destruct (k_closed k); [|destruct (k_in_flight k)]; eexists; split; reflexivity.
Qed.

(* a ready connection always has a server-side move that concerns it: its job can move, or (no job, flags
   clear) epoll_wait can report it / the loop can dispatch it / the loop can advance the batch it is not part of *)
Theorem ready_conn_progress : forall s c k, reachable s -> nth_error (e_conns s) c = Some k -> ready k = true ->
  (exists s', step s (LJobStart c) = Some s') \/
  ((exists s', step s (LRearm c) = Some s') /\ (exists s', step s (LDel c) = Some s')) \/
  (k_jobs k = [] /\ k_in_flight k = false /\ k_closed k = false /\
   match e_loop s with
   | EWaiting => exists s', step s (LWait [c]) = Some s'
   | EBatch => if k_in_batch k then exists s', step s (LEvent c ODispatched) = Some s'
               else exists l s', is_loop_label l = true /\ step s l = Some s'
   end).
Proof.
  intros s c k Hreach Hn Hready.
  destruct (reachable_mk s c k Hreach Hn) as [m [p [peer [b [a [Hk _]]]]]].
  pose proof (ready_registered k Hready) as Hreg. subst k. cbn [mk k_registered] in Hreg.
  destruct m; try discriminate Hreg.
  - (* M1: no job *)
    right. right. cbn [mk k_jobs k_in_flight k_closed k_in_batch m_jobs m_infl m_closed].
    split; [reflexivity|]. split; [reflexivity|]. split; [reflexivity|].
    destruct (e_loop s) eqn:Hl.
    + unfold step. rewrite Hl.
      assert (Hcond : all_distinct [c] &&
                forallb (fun c0 => match nth_error (e_conns s) c0 with Some k0 => ready k0 | None => false end) [c] = true).
      { cbn [all_distinct existsb negb forallb andb]. rewrite Hn, Hready. reflexivity. }
      rewrite Hcond. eexists. reflexivity.
    + destruct b.
      * unfold step. rewrite Hl. unfold with_conn. rewrite Hn. eexists. reflexivity.
      * apply loop_never_blocks. exact Hl.
  - (* M2: queued *)
    left. unfold step, with_conn. rewrite Hn. eexists. reflexivity.
  - (* M3: running *)
    right. left. split; unfold step, with_conn; rewrite Hn; eexists; reflexivity.
Qed.

(* a move of the server itself: not a client label, not an accept, not a wakeup that reports nothing *)
Definition server_move (l : elabel) : bool :=
  match l with LAccept _ | LClientSend _ | LClientClose _ | LWait [] => false | _ => true end.

Theorem server_can_move : forall s c k, reachable s -> nth_error (e_conns s) c = Some k -> ready k = true ->
  exists l s', server_move l = true /\ step s l = Some s'.
Proof.
  intros s c k Hreach Hn Hready.
  destruct (ready_conn_progress s c k Hreach Hn Hready) as [[s' Hs]|[[[s' Hs] _]|[_ [_ [_ Hloop]]]]].
  - exists (LJobStart c), s'. split; [reflexivity | exact Hs].
  - exists (LRearm c), s'. split; [reflexivity | exact Hs].
  - destruct (e_loop s) eqn:Hl.
    + destruct Hloop as [s' Hs]. exists (LWait [c]), s'. split; [reflexivity | exact Hs].
    + destruct (k_in_batch k).
      * destruct Hloop as [s' Hs]. exists (LEvent c ODispatched), s'. split; [reflexivity | exact Hs].
      * destruct Hloop as [l [s' [Hll Hs]]]. exists l, s'. split; [|exact Hs].
        destruct l; try discriminate Hll; reflexivity.
Qed.

(* ------------------------------------------------------------------------------------------ *)
(* 4. a measure: the server's own work is bounded by its input                                   *)

(* the mode of a record, read off its fields *)
Definition mode_of (k : conn) : mode :=
  match k_jobs k with
  | [JQueued] => M2
  | [JRunning] => M3
  | [JDeleted] => M4
  | [JDropped] => M5
  | [JStored] => M6
  | _ => if k_grave k then M7
         else if k_closed k then M8
         else if k_registered k then M1 else M0
  end.

Lemma mode_of_mk : forall m p peer b a, mode_of (mk m p peer b a) = m.
Proof. intros m p peer b a. destruct m; reflexivity. Qed.

(* potential of one connection: an upper bound on the work labels it can still cause without new client input.
   Per pending request: dispatch, job start, re-arm (3).  A connection that is still reportable (pending input, peer
   closed, or an event for it already sits in the batch) can cause one more round that finds nothing to read, and the
   close path (del, drop, closed.store, push to the graveyard, free; and a stale event when one sits in the batch). *)
Definition mu (m : mode) (p : nat) (peer b : bool) : nat :=
  match m with
  | M0 | M8 => 0
  | M7 => if b then 2 else 1
  | M6 => if b then 3 else 2
  | M5 => if b then 4 else 3
  | M4 => if b then 5 else 4
  | M1 => match p with S _ => 3 * p + 7 | O => if peer then 9 else if b then 7 else 0 end
  | M2 => match p with S _ => 3 * p + 6 | O => if peer then 8 else if b then 9 else 6 end
  | M3 => match p with S _ => 3 * p + 8 | O => if peer then 7 else if b then 8 else 5 end
  end.

Definition cmu (k : conn) : nat := mu (mode_of k) (k_pending k) (k_peer_closed k) (k_in_batch k).
Definition MU (s : estate) : nat := list_sum (map cmu (e_conns s)).

Lemma cmu_mk : forall m p peer b a, cmu (mk m p peer b a) = mu m p peer b.
Proof. intros m p peer b a. unfold cmu. rewrite mode_of_mk. reflexivity. Qed.

(* work labels: everything the server does except the bookkeeping LWait / LBatchEnd (and LAccept), and except
   LEvent c OBusy, which level-triggered epoll can repeat without bound while a job is in flight *)
Definition wk (l : elabel) : nat :=
  match l with
  | LEvent _ OBusy => 0
  | LEvent _ _ | LFree _ | LJobStart _ | LRearm _ | LDel _ | LStreamDrop _ | LClosedStore _ | LGrave _ => 1
  | LAccept _ | LClientSend _ | LClientClose _ | LWait _ | LBatchEnd => 0
  end.
Fixpoint work (tr : list elabel) : nat := match tr with [] => 0 | l :: r => wk l + work r end.

Definition issend (l : elabel) : bool := match l with LClientSend _ => true | _ => false end.
Definition isclose (l : elabel) : bool := match l with LClientClose _ => true | _ => false end.
Definition isclient (l : elabel) : bool := issend l || isclose l.

(* the one way the model can spin: the job re-arms a connection whose peer has closed and whose input is drained
   (the real job reads EOF there and takes the close path; the model leaves the choice open) *)
Definition eof_rearm (s : estate) (l : elabel) : bool :=
  match l with
  | LRearm c => match nth_error (e_conns s) c with
                | Some k => k_peer_closed k && Nat.eqb (k_pending k) 0
                | None => false
                end
  | _ => false
  end.
Fixpoint eof_rearms (s : estate) (tr : list elabel) : nat :=
  match tr with
  | [] => 0
  | l :: r => bn (eof_rearm s l) + match step s l with Some s1 => eof_rearms s1 r | None => 0 end
  end.

Definition credit (s : estate) (l : elabel) : nat :=
  10 * bn (issend l) + 9 * bn (isclose l) + 3 * bn (eof_rearm s l).

Definition mcredit (l : elabel) (p : nat) (peer : bool) : nat :=
  match l with
  | LClientSend _ => 10
  | LClientClose _ => 9
  | LRearm _ => if peer && Nat.eqb p 0 then 3 else 0
  | _ => 0
  end.

Lemma mstep_amortized : forall l m p peer b a m' p' peer' b' a',
  mstep l m p peer b a = Some (m', p', peer', b', a') ->
  wk l + mu m' p' peer' b' <= mu m p peer b + mcredit l p peer.
Proof.
  intros l m p peer b a m' p' peer' b' a' Hm.
  destruct l as [ok|c0|c0|batch|c0 o|c0| |c0|c0|c0|c0|c0|c0]; cbn [mstep] in Hm; try discriminate Hm.
  - destruct peer; [discriminate Hm|]. inversion Hm; subst; clear Hm.
    destruct m'; destruct b'; destruct p as [|[|q]]; cbn [wk mu mcredit]; lia.
  - inversion Hm; subst; clear Hm.
    destruct m'; destruct peer; destruct b'; destruct p' as [|[|q]]; cbn [wk mu mcredit]; lia.
  - destruct b; [|discriminate Hm].
    destruct m; destruct o; try discriminate Hm; inversion Hm; subst; clear Hm;
      destruct peer'; destruct p' as [|[|q]]; cbn [wk mu mcredit]; lia.
  - destruct m; try discriminate Hm. inversion Hm; subst; clear Hm.
    destruct b'; cbn [wk mu mcredit]; lia.
  - destruct m; try discriminate Hm. inversion Hm; subst; clear Hm.
    destruct peer'; destruct b'; destruct p as [|[|[|q]]]; cbn [wk mu mcredit pred]; lia.
  - destruct m; try discriminate Hm. inversion Hm; subst; clear Hm.
    destruct peer'; destruct b'; destruct p' as [|[|q]]; cbn [wk mu mcredit andb Nat.eqb]; lia.
  - destruct m; try discriminate Hm. inversion Hm; subst; clear Hm.
    destruct peer'; destruct b'; destruct p' as [|[|q]]; cbn [wk mu mcredit]; lia.
  - destruct m; try discriminate Hm. inversion Hm; subst; clear Hm.
    destruct b'; cbn [wk mu mcredit]; lia.
  - destruct m; try discriminate Hm. inversion Hm; subst; clear Hm.
    destruct b'; cbn [wk mu mcredit]; lia.
  - destruct m; try discriminate Hm. inversion Hm; subst; clear Hm.
    destruct b'; cbn [wk mu mcredit]; lia.
Qed.

Lemma mu_ready : forall m p peer b1 b2, m_reg m = true -> Nat.ltb 0 p || peer = true ->
  mu m p peer b1 = mu m p peer b2.
Proof.
  intros m p peer b1 b2 Hreg Hr.
  destruct m; try discriminate Hreg; destruct p; cbn [mu]; try reflexivity;
    destruct peer; try reflexivity; discriminate Hr.
Qed.

Lemma list_sum_cons : forall a l, list_sum (a :: l) = a + list_sum l.
Proof. reflexivity. Qed.

Lemma list_sum_set_nth : forall (f : conn -> nat) l c k x, nth_error l c = Some k ->
  list_sum (map f (set_nth l c x)) + f k = list_sum (map f l) + f x.
Proof.
  intros f l. induction l as [|y r IH]; intros c k x Hn.
  - destruct c; discriminate Hn.
  - destruct c as [|c]; cbn [nth_error] in Hn; cbn [set_nth map]; rewrite !list_sum_cons.
    + inversion Hn; subst y. lia.
    + specialize (IH c k x Hn). lia.
Qed.

Lemma list_sum_pointwise : forall (f : conn -> nat) l1 l2,
  (forall c, match nth_error l2 c with
             | Some y => exists x, nth_error l1 c = Some x /\ f y = f x
             | None => nth_error l1 c = None
             end) ->
  list_sum (map f l2) = list_sum (map f l1).
Proof.
  intros f l1. induction l1 as [|x r IH]; intros l2 Hpw.
  - destruct l2 as [|y r2]; [reflexivity|].
    specialize (Hpw 0). cbn [nth_error] in Hpw. destruct Hpw as [x [Hx _]]. discriminate Hx.
  - destruct l2 as [|y r2].
    + specialize (Hpw 0). cbn [nth_error] in Hpw. discriminate Hpw.
    + pose proof (Hpw 0) as H0. cbn [nth_error] in H0. destruct H0 as [x0 [Hx0 Hf]].
      inversion Hx0; subst x0. cbn [map]. rewrite !list_sum_cons. rewrite Hf. f_equal.
      apply IH. intros c. exact (Hpw (S c)).
Qed.

Lemma credit_conn : forall s l c m p peer b a, target l = Some c ->
  nth_error (e_conns s) c = Some (mk m p peer b a) -> credit s l = mcredit l p peer.
Proof.
  intros s l c m p peer b a Ht Hn. unfold credit.
  destruct l as [ok|c0|c0|batch|c0 o|c0| |c0|c0|c0|c0|c0|c0]; cbn [target] in Ht; try discriminate Ht;
    inversion Ht; subst c0; clear Ht; cbn [issend isclose eof_rearm mcredit bn]; try lia.
  rewrite Hn. cbn [mk k_peer_closed k_pending]. destruct (peer && Nat.eqb p 0); cbn [bn]; lia.
Qed.

(* one step: work done + new potential <= old potential + credit of the label *)
Lemma step_amortized : forall s l s', reachable s -> step s l = Some s' ->
  wk l + MU s' <= MU s + credit s l.
Proof.
  intros s l s' Hreach Hstep.
  destruct (target l) as [c0|] eqn:Ht.
  - destruct (step_conn s l c0 s' Hreach Ht Hstep)
      as (m & p & peer & b & a & m' & p' & peer' & b' & a' & Hn & _ & _ & Hm & Hs').
    rewrite (credit_conn s l c0 m p peer b a Ht Hn).
    pose proof (mstep_amortized _ _ _ _ _ _ _ _ _ _ _ Hm) as Ham.
    pose proof (list_sum_set_nth cmu (e_conns s) c0 _ (mk m' p' peer' b' a') Hn) as Hsum.
    rewrite !cmu_mk in Hsum. subst s'. unfold MU. cbn [e_conns]. lia.
  - destruct l as [ok|c0|c0|batch|c0 o|c0| |c0|c0|c0|c0|c0|c0]; try discriminate Ht; cbn [wk].
    + apply step_accept in Hstep. subst s'. unfold MU. cbn [e_conns].
      rewrite map_app, list_sum_app. cbn [map list_sum fold_right].
      assert (H0 : cmu (new_conn ok) = 0) by (destruct ok; reflexivity). lia.
    + pose proof (step_wait s batch s' Hstep) as [_ [_ [Hready Hnth]]].
      assert (Heq : MU s' = MU s).
      { unfold MU. apply list_sum_pointwise. intros c. rewrite Hnth.
        destruct (nth_error (e_conns s) c) as [k|] eqn:Hn; [|reflexivity].
        exists k. split; [reflexivity|].
        destruct (existsb (Nat.eqb c) batch) eqn:Hex; [|reflexivity].
        apply existsb_eqb_In in Hex. destruct (Hready c Hex) as [k0 [Hn0 Hr]].
        rewrite Hn in Hn0. inversion Hn0; subst k0; clear Hn0.
        destruct (reachable_mk s c k Hreach Hn) as [m [p [peer [b [a [Hk _]]]]]]. subst k.
        change (set_inb (mk m p peer b a)) with (mk m p peer true a). rewrite !cmu_mk.
        unfold ready in Hr. cbn [mk k_registered k_pending k_peer_closed] in Hr.
        apply andb_true_iff in Hr. destruct Hr as [Hreg Hr]. apply mu_ready; assumption. }
      lia.
    + apply step_batchend in Hstep. destruct Hstep as [_ [Hs' _]]. subst s'. unfold MU. cbn [e_conns]. lia.
Qed.

(* THE amortized bound, for every interleaving: along any run from a reachable state, the number of work labels
   is at most the potential of the start state, plus 10 per request sent, 9 per client close, 3 per EOF re-arm *)
Theorem server_work_amortized : forall tr s s', reachable s -> run s tr = Some s' ->
  work tr + MU s' <= MU s + 10 * cnt issend tr + 9 * cnt isclose tr + 3 * eof_rearms s tr.
Proof.
  intros tr. induction tr as [|l r IH]; intros s s' Hreach Hrun.
  - cbn [run] in Hrun. inversion Hrun; subst s'. cbn. lia.
  - apply run_cons in Hrun. destruct Hrun as [s1 [Hstep Hrun]].
    pose proof (step_amortized s l s1 Hreach Hstep) as H1.
    pose proof (IH s1 s' (reachable_step s l s1 Hreach Hstep) Hrun) as H2.
    rewrite !cnt_cons. cbn [work eof_rearms]. rewrite Hstep. unfold credit in H1. lia.
Qed.

Lemma MU_init : MU ep_init = 0.
Proof. reflexivity. Qed.

Corollary server_work_from_init : forall tr s, run ep_init tr = Some s ->
  work tr <= 10 * cnt issend tr + 9 * cnt isclose tr + 3 * eof_rearms ep_init tr.
Proof.
  intros tr s Hrun. pose proof (server_work_amortized tr ep_init s reachable_init Hrun) as H.
  rewrite MU_init in H. lia.
Qed.

(* the measure, label by label: without client input and without an EOF re-arm, a work label strictly decreases MU
   and every other label (LAccept, LWait, LBatchEnd, LEvent c OBusy) does not increase it *)
Theorem server_step_measure : forall s l s', reachable s -> step s l = Some s' ->
  isclient l = false -> eof_rearm s l = false -> wk l + MU s' <= MU s.
Proof.
  intros s l s' Hreach Hstep Hcl Heof.
  pose proof (step_amortized s l s' Hreach Hstep) as H. unfold credit in H.
  unfold isclient in Hcl. apply orb_false_iff in Hcl. destruct Hcl as [Hs Hc].
  rewrite Hs, Hc, Heof in H. cbn [bn] in H. lia.
Qed.

Lemma cnt_existsb0 : forall p (tr : list elabel), existsb p tr = false -> cnt p tr = 0.
Proof.
  intros p tr. induction tr as [|l r IH]; intros Hex.
  - reflexivity.
  - cbn [existsb] in Hex. apply orb_false_iff in Hex. destruct Hex as [Hl Hr].
    rewrite cnt_cons, Hl, (IH Hr). reflexivity.
Qed.

(* the labels counted by [work], separately *)
Definition isjob (l : elabel) : bool :=
  match l with LJobStart _ | LRearm _ | LDel _ | LStreamDrop _ | LClosedStore _ | LGrave _ => true | _ => false end.
Definition isdispatch (l : elabel) : bool := match l with LEvent _ ODispatched => true | _ => false end.
Definition isbusy (l : elabel) : bool := match l with LEvent _ OBusy => true | _ => false end.

Lemma work_counts : forall tr, cnt isjob tr + cnt isdispatch tr <= work tr.
Proof.
  intros tr. induction tr as [|l r IH].
  - cbn. lia.
  - rewrite !cnt_cons. cbn [work].
    destruct l as [ok|c0|c0|batch|c0 o|c0| |c0|c0|c0|c0|c0|c0]; try destruct o; cbn [isjob isdispatch wk bn]; lia.
Qed.

Lemma no_client_counts : forall tr, existsb isclient tr = false -> cnt issend tr = 0 /\ cnt isclose tr = 0.
Proof.
  intros tr. induction tr as [|l r IH]; intros Hcl.
  - split; reflexivity.
  - cbn [existsb] in Hcl. apply orb_false_iff in Hcl. destruct Hcl as [Hl Hr].
    unfold isclient in Hl. apply orb_false_iff in Hl. destruct Hl as [Hs Hc].
    destruct (IH Hr) as [IHs IHc]. rewrite !cnt_cons, Hs, Hc, IHs, IHc. split; reflexivity.
Qed.

(* a trace segment without client labels (LAccept is allowed) and without EOF re-arms does at most MU s work:
   at most MU s job-side labels, at most MU s dispatches *)
Theorem server_work_bounded : forall tr s s', reachable s -> run s tr = Some s' ->
  existsb isclient tr = false -> eof_rearms s tr = 0 ->
  work tr <= MU s /\ cnt isjob tr + cnt isdispatch tr <= MU s.
Proof.
  intros tr s s' Hreach Hrun Hcl Heof.
  pose proof (server_work_amortized tr s s' Hreach Hrun) as H.
  pose proof (work_counts tr) as Hw.
  destruct (no_client_counts tr Hcl) as [Hs Hc]. split; lia.
Qed.

(* no peer-closed connection: no EOF re-arm is possible, the bound is unconditional *)
Definition npc (s : estate) : Prop := forall c k, nth_error (e_conns s) c = Some k -> k_peer_closed k = false.

Lemma mstep_peer : forall l m p peer b a m' p' peer' b' a',
  isclient l = false -> mstep l m p peer b a = Some (m', p', peer', b', a') -> peer' = peer.
Proof.
  intros l m p peer b a m' p' peer' b' a' Hcl Hm.
  destruct l as [ok|c0|c0|batch|c0 o|c0| |c0|c0|c0|c0|c0|c0]; try discriminate Hcl; cbn [mstep] in Hm;
    try discriminate Hm.
  - destruct b; [|discriminate Hm]. destruct m; destruct o; try discriminate Hm; inversion Hm; reflexivity.
  - destruct m; try discriminate Hm; inversion Hm; reflexivity.
  - destruct m; try discriminate Hm; inversion Hm; reflexivity.
  - destruct m; try discriminate Hm; inversion Hm; reflexivity.
  - destruct m; try discriminate Hm; inversion Hm; reflexivity.
  - destruct m; try discriminate Hm; inversion Hm; reflexivity.
  - destruct m; try discriminate Hm; inversion Hm; reflexivity.
  - destruct m; try discriminate Hm; inversion Hm; reflexivity.
Qed.

Lemma step_npc : forall s l s', reachable s -> npc s -> isclient l = false -> step s l = Some s' -> npc s'.
Proof.
  intros s l s' Hreach Hnpc Hcl Hstep c k' Hn'.
  destruct (target l) as [c0|] eqn:Ht.
  - destruct (step_conn s l c0 s' Hreach Ht Hstep)
      as (m & p & peer & b & a & m' & p' & peer' & b' & a' & Hn & _ & _ & Hm & Hs').
    subst s'. destruct (Nat.eq_dec c c0) as [Heq|Hneq].
    + subst c0. cbn [e_conns] in Hn'. rewrite (nth_error_set_nth_eq _ _ _ _ Hn) in Hn'.
      inversion Hn'; subst k'. cbn [mk k_peer_closed].
      rewrite (mstep_peer _ _ _ _ _ _ _ _ _ _ _ Hcl Hm). exact (Hnpc c _ Hn).
    + rewrite (target_other l c0 c Ht Hneq) in Hn'. exact (Hnpc c k' Hn').
  - destruct l as [ok|c0|c0|batch|c0 o|c0| |c0|c0|c0|c0|c0|c0]; try discriminate Ht.
    + apply step_accept in Hstep. subst s'. cbn [e_conns] in Hn'. rewrite nth_error_snoc_new in Hn'.
      destruct (nth_error (e_conns s) c) as [k|] eqn:Hn.
      * inversion Hn'; subst k'. exact (Hnpc c k Hn).
      * destruct (Nat.eqb c (length (e_conns s))); [|discriminate Hn'].
        inversion Hn'; subst k'. reflexivity.
    + apply step_wait in Hstep. destruct Hstep as [_ [_ [_ Hnth]]]. rewrite Hnth in Hn'.
      destruct (nth_error (e_conns s) c) as [k|] eqn:Hn; [|discriminate Hn'].
      inversion Hn'; subst k'. destruct (existsb (Nat.eqb c) batch); exact (Hnpc c k Hn).
    + apply step_batchend in Hstep. destruct Hstep as [_ [Hs' _]]. subst s'. exact (Hnpc c k' Hn').
Qed.

Lemma npc_no_eof : forall s l, npc s -> eof_rearm s l = false.
Proof.
  intros s l Hnpc. destruct l; try reflexivity. cbn [eof_rearm].
  destruct (nth_error (e_conns s) c) as [k|] eqn:Hn; [|reflexivity].
  rewrite (Hnpc c k Hn). reflexivity.
Qed.

Lemma npc_eof_rearms : forall tr s s', reachable s -> npc s -> existsb isclient tr = false ->
  run s tr = Some s' -> eof_rearms s tr = 0.
Proof.
  intros tr. induction tr as [|l r IH]; intros s s' Hreach Hnpc Hcl Hrun.
  - reflexivity.
  - apply run_cons in Hrun. destruct Hrun as [s1 [Hstep Hrun]].
    cbn [existsb] in Hcl. apply orb_false_iff in Hcl. destruct Hcl as [Hl Hr].
    cbn [eof_rearms]. rewrite Hstep, (npc_no_eof s l Hnpc). cbn [bn Nat.add].
    exact (IH s1 s' (reachable_step s l s1 Hreach Hstep) (step_npc s l s1 Hreach Hnpc Hl Hstep) Hr Hrun).
Qed.

Theorem server_work_bounded_open : forall tr s s', reachable s -> run s tr = Some s' ->
  existsb isclient tr = false -> npc s ->
  work tr <= MU s /\ cnt isjob tr + cnt isdispatch tr <= MU s.
Proof.
  intros tr s s' Hreach Hrun Hcl Hnpc.
  exact (server_work_bounded tr s s' Hreach Hrun Hcl (npc_eof_rearms tr s s' Hreach Hnpc Hcl Hrun)).
Qed.

(* ------------------------------------------------------------------------------------------ *)
(* refuted variants                                                                             *)

Fixpoint rep (cyc : list elabel) (n : nat) : list elabel := match n with O => [] | S n' => cyc ++ rep cyc n' end.

Lemma run_rep : forall cyc s n, run s cyc = Some s -> run s (rep cyc n) = Some s.
Proof.
  intros cyc s n Hcyc. induction n as [|n IH]; [reflexivity|].
  cbn [rep]. rewrite run_app_gen, Hcyc. exact IH.
Qed.

Lemma cnt_rep : forall p cyc n, cnt p (rep cyc n) = n * cnt p cyc.
Proof.
  intros p cyc n. induction n as [|n IH]; [reflexivity|].
  cbn [rep]. rewrite cnt_app, IH. lia.
Qed.

Lemma existsb_rep : forall p cyc n, existsb p cyc = false -> existsb p (rep cyc n) = false.
Proof.
  intros p cyc n Hc. induction n as [|n IH]; [reflexivity|].
  cbn [rep]. rewrite existsb_app, Hc, IH. reflexivity.
Qed.

Lemma eof_rearms_app : forall a b s,
  eof_rearms s (a ++ b) = eof_rearms s a + match run s a with Some s1 => eof_rearms s1 b | None => 0 end.
Proof.
  intros a. induction a as [|l r IH]; intros b s.
  - reflexivity.
  - cbn [app eof_rearms run]. destruct (step s l) as [s1|]; [rewrite IH|]; lia.
Qed.

Lemma eof_rearms_rep : forall cyc s n, run s cyc = Some s -> eof_rearms s (rep cyc n) = n * eof_rearms s cyc.
Proof.
  intros cyc s n Hcyc. induction n as [|n IH]; [reflexivity|].
  cbn [rep]. rewrite eof_rearms_app, Hcyc, IH. lia.
Qed.

Definition isenv (l : elabel) : bool := match l with LAccept _ | LClientSend _ | LClientClose _ => true | _ => false end.

(* (a) EOF re-arm spin.  One connection whose peer has closed and that has no pending request: the model lets its
   job re-arm instead of closing; the connection stays ready, is reported and dispatched again, forever. *)
Definition s_eof : estate := {| e_conns := [mk M1 0 true false 0]; e_loop := EWaiting |}.
Definition cyc_eof : list elabel := [LWait [0]; LEvent 0 ODispatched; LBatchEnd; LJobStart 0; LRearm 0].

Lemma s_eof_reachable : run ep_init [LAccept true; LClientClose 0] = Some s_eof.
Proof. vm_compute. reflexivity. Qed.
Lemma cyc_eof_loops : run s_eof cyc_eof = Some s_eof.
Proof. vm_compute. reflexivity. Qed.

Theorem eof_rearm_spin : forall n, exists tr,
  existsb isenv tr = false /\ run s_eof tr = Some s_eof /\
  cnt isdispatch tr = n /\ cnt isjob tr = 2 * n /\ eof_rearms s_eof tr = n.
Proof.
  intros n. exists (rep cyc_eof n).
  split; [apply existsb_rep; reflexivity|].
  split; [apply run_rep; exact cyc_eof_loops|].
  split; [rewrite cnt_rep; cbn; lia|].
  split; [rewrite cnt_rep; cbn; lia|].
  rewrite (eof_rearms_rep cyc_eof s_eof n cyc_eof_loops). vm_compute (eof_rearms s_eof cyc_eof). lia.
Qed.

(* the natural bound "a segment without client labels and without LAccept from a reachable state s contains at
   most f(s) dispatches (or job labels)" is FALSE of the model *)
Theorem dispatch_bound_refuted :
  ~ exists f : estate -> nat, forall s tr s', reachable s -> existsb isenv tr = false -> run s tr = Some s' ->
      cnt isdispatch tr <= f s.
Proof.
  intros [f Hf].
  destruct (eof_rearm_spin (S (f s_eof))) as [tr [Henv [Hrun [Hd _]]]].
  assert (Hreach : reachable s_eof) by (eexists; exact s_eof_reachable).
  pose proof (Hf s_eof tr s_eof Hreach Henv Hrun) as H. lia.
Qed.

Theorem job_bound_refuted :
  ~ exists f : estate -> nat, forall s tr s', reachable s -> existsb isenv tr = false -> run s tr = Some s' ->
      cnt isjob tr <= f s.
Proof.
  intros [f Hf].
  destruct (eof_rearm_spin (S (f s_eof))) as [tr [Henv [Hrun [_ [Hj _]]]]].
  assert (Hreach : reachable s_eof) by (eexists; exact s_eof_reachable).
  pose proof (Hf s_eof tr s_eof Hreach Henv Hrun) as H. lia.
Qed.

(* (b) busy spin.  Level-triggered epoll keeps reporting a connection with unread input while its job is queued or
   running; the loop looks at it, fails the CAS, ends the batch, and epoll_wait returns at once again. *)
Definition s_busy : estate := {| e_conns := [mk M2 1 false false 0]; e_loop := EWaiting |}.
Definition cyc_busy : list elabel := [LWait [0]; LEvent 0 OBusy; LBatchEnd].

Lemma s_busy_reachable :
  run ep_init [LAccept true; LClientSend 0; LWait [0]; LEvent 0 ODispatched; LBatchEnd] = Some s_busy.
Proof. vm_compute. reflexivity. Qed.
Lemma cyc_busy_loops : run s_busy cyc_busy = Some s_busy.
Proof. vm_compute. reflexivity. Qed.

Theorem busy_bound_refuted :
  ~ exists f : estate -> nat, forall s tr s', reachable s -> existsb isenv tr = false -> run s tr = Some s' ->
      cnt isbusy tr <= f s.
Proof.
  intros [f Hf].
  assert (Hreach : reachable s_busy) by (eexists; exact s_busy_reachable).
  pose proof (Hf s_busy (rep cyc_busy (S (f s_busy))) s_busy Hreach
                (existsb_rep isenv cyc_busy _ eq_refl) (run_rep cyc_busy s_busy _ cyc_busy_loops)) as H.
  rewrite cnt_rep in H. cbn in H. lia.
Qed.

(* ------------------------------------------------------------------------------------------ *)
(* concrete instances                                                                           *)

(* two connections, both with a request; the second is dispatched first, its job starts inside the batch *)
Definition ex_tr1 : list elabel := [LAccept true; LAccept true; LClientSend 0; LClientSend 1; LClientSend 1].
Definition ex_cs : list nat := [0; 1].
Definition ex_tr2 : list elabel := [LEvent 1 ODispatched; LJobStart 1; LClientClose 0; LEvent 0 ODispatched].

Example ex_batch_hyp :
  exists s', run ep_init (ex_tr1 ++ LWait ex_cs :: ex_tr2 ++ [LBatchEnd]) = Some s' /\
             existsb isbatchend ex_tr2 = false.
Proof. vm_compute. eexists. split; reflexivity. Qed.

Example ex_batch_exact : cnt (isevent 0) ex_tr2 = 1 /\ cnt (isevent 1) ex_tr2 = 1 /\ cnt (isevent 2) ex_tr2 = 0.
Proof.
  destruct ex_batch_hyp as [s' [Hrun Hnb]].
  pose proof (batch_exact _ _ _ _ Hrun Hnb) as H.
  split; [exact (H 0)|]. split; [exact (H 1) | exact (H 2)].
Qed.

Example ex_batch_complete : exists o, In (LEvent 1 o) ex_tr2.
Proof.
  destruct ex_batch_hyp as [s' [Hrun Hnb]].
  exact (batch_complete_In _ _ _ _ Hrun Hnb 1 (or_intror (or_introl eq_refl))).
Qed.

Example ex_idle_hyp :
  exists s1 k, run ep_init ex_tr1 = Some s1 /\ nth_error (e_conns s1) 0 = Some k /\
               k_in_flight k = false /\ k_closed k = false /\ k_jobs k = [].
Proof. vm_compute. do 2 eexists. repeat split; reflexivity. Qed.

Example ex_idle_dispatched : exists pre post, ex_tr2 = pre ++ LEvent 0 ODispatched :: post.
Proof.
  destruct ex_batch_hyp as [s' [Hrun Hnb]].
  destruct ex_idle_hyp as [s1 [k [Hr1 [Hn [Hfl [Hcl _]]]]]].
  destruct (reported_idle_dispatched _ _ _ _ s1 0 k Hrun Hnb Hr1 Hn (or_introl eq_refl) Hfl Hcl)
    as (pre & post & _ & _ & Htr & _).
  exists pre, post. exact Htr.
Qed.

(* progress: mid-batch, connection 0 is ready, has no job and is not part of the batch; the loop can move *)
Definition ex_tr3 : list elabel :=
  [LAccept true; LAccept true; LClientSend 1; LWait [1]; LClientSend 0].

Example ex_progress_hyp :
  exists s k, run ep_init ex_tr3 = Some s /\ nth_error (e_conns s) 0 = Some k /\ ready k = true /\
              e_loop s = EBatch /\ k_in_batch k = false.
Proof. vm_compute. do 2 eexists. repeat split; reflexivity. Qed.

Example ex_progress : exists s, run ep_init ex_tr3 = Some s /\ exists l s', server_move l = true /\ step s l = Some s'.
Proof.
  destruct ex_progress_hyp as [s [k [Hrun [Hn [Hr _]]]]].
  exists s. split; [exact Hrun|].
  exact (server_can_move s 0 k (ex_intro _ _ Hrun) Hn Hr).
Qed.

(* the bound: after two requests on one connection and one on another (none peer-closed), MU = 23;
   a client-free continuation that serves all three requests, closes connection 1 and reclaims its record does 13 units
   of work *)
Definition ex_tr4 : list elabel := [LAccept true; LAccept true; LClientSend 0; LClientSend 0; LClientSend 1].
Definition ex_tr5 : list elabel :=
  [LWait [0; 1]; LEvent 0 ODispatched; LEvent 1 ODispatched; LBatchEnd; LJobStart 1; LJobStart 0; LRearm 0;
   LWait [0]; LEvent 0 ODispatched; LBatchEnd; LJobStart 0; LDel 1; LStreamDrop 1; LRearm 0; LClosedStore 1;
   LGrave 1; LWait []; LFree 1; LBatchEnd].

Example ex_bound_hyp :
  exists s s', run ep_init ex_tr4 = Some s /\ run s ex_tr5 = Some s' /\ existsb isclient ex_tr5 = false /\
               forallb (fun k => negb (k_peer_closed k)) (e_conns s) = true /\
               MU s = 23 /\ work ex_tr5 = 13 /\ MU s' = 0.
Proof. vm_compute. do 2 eexists. repeat split; reflexivity. Qed.

Example ex_bound : exists s, run ep_init ex_tr4 = Some s /\ work ex_tr5 <= MU s.
Proof.
  destruct ex_bound_hyp as [s [s' [Hr4 [Hr5 [Hcl [Hnp _]]]]]].
  exists s. split; [exact Hr4|].
  apply (server_work_bounded_open ex_tr5 s s' (ex_intro _ _ Hr4) Hr5 Hcl).
  intros c k Hn. apply nth_error_In in Hn.
  pose proof (proj1 (forallb_forall _ _) Hnp k Hn) as Hk. apply negb_true_iff in Hk. exact Hk.
Qed.

(* the amortized theorem on a run with client input and EOF re-arms (the first re-arm follows a job that did take a
   request; the state does not record that, so it is charged too) *)
Example ex_amortized :
  let tr := [LAccept true; LClientSend 0; LClientClose 0] ++ rep cyc_eof 2 in
  exists s, run ep_init tr = Some s /\ work tr = 6 /\ cnt issend tr = 1 /\ cnt isclose tr = 1 /\
            eof_rearms ep_init tr = 2.
Proof. vm_compute. eexists. repeat split; reflexivity. Qed.

(* a spurious dispatch (accounted for in [mu]): the event for connection 0 sits in the batch while the running job
   drains the input and re-arms; the loop then dispatches a job for a connection with nothing to read and an open
   peer.  (In the Rust code the stream is blocking: that job sits in read() until the client sends or closes.) *)
Example ex_spurious_dispatch :
  match run ep_init [LAccept true; LClientSend 0; LWait [0]; LEvent 0 ODispatched; LBatchEnd; LWait [0];
                     LJobStart 0; LRearm 0; LEvent 0 ODispatched; LBatchEnd; LJobStart 0] with
  | Some s => match nth_error (e_conns s) 0 with
              | Some k => Nat.eqb (k_pending k) 0 && negb (k_peer_closed k) &&
                          match k_jobs k with [JRunning] => true | _ => false end && Nat.eqb (k_answered k) 1
              | None => false
              end
  | None => false
  end = true.
Proof. vm_compute. reflexivity. Qed.

Print Assumptions batch_exact.
Print Assumptions batch_complete.
Print Assumptions reported_idle_dispatched.
Print Assumptions reported_without_job_dispatched.
Print Assumptions loop_never_blocks.
Print Assumptions ready_conn_progress.
Print Assumptions server_can_move.
Print Assumptions server_work_amortized.
Print Assumptions server_work_from_init.
Print Assumptions server_step_measure.
Print Assumptions server_work_bounded.
Print Assumptions server_work_bounded_open.
Print Assumptions eof_rearm_spin.
Print Assumptions dispatch_bound_refuted.
Print Assumptions job_bound_refuted.
Print Assumptions busy_bound_refuted.
