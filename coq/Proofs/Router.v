(* C11/C12: the router model (Model/Router.v) computes the declarative selection of
   Spec/RouterSpec.v, and the consequences pinned in Properties/C11.v and Properties/C12.v. *)
From KV Require Import Lib.Bytes Model.Router Spec.RouterSpec.
From Coq Require Import Arith.

(* ================================================================== *)
(* 1. booleans, byte strings, split/join                               *)
(* ================================================================== *)

Lemma bool_iff_eq (a b : bool) : (a = true <-> b = true) -> a = b.
Proof.
  destruct a, b; intros [H1 H2]; try reflexivity.
  - symmetry. apply H1. reflexivity.
  - apply H2. reflexivity.
Qed.

Lemma bytes_eqb_refl a : bytes_eqb a a = true.
Proof.
  induction a as [|x a IH]; [reflexivity|].
  cbn [bytes_eqb]. rewrite IH, andb_true_r. apply byte_eqb_eq. reflexivity.
Qed.

Lemma bytes_eqb_true a : forall b, bytes_eqb a b = true -> a = b.
Proof.
  induction a as [|x a IH]; intros [|y b] H; cbn [bytes_eqb] in H; try discriminate; [reflexivity|].
  apply andb_true_iff in H. destruct H as [H1 H2].
  apply byte_eqb_eq in H1. subst. f_equal. apply IH, H2.
Qed.

Lemma bytes_eqb_iff a b : bytes_eqb a b = true <-> a = b.
Proof. split; [apply bytes_eqb_true | intros ->; apply bytes_eqb_refl]. Qed.

(* inverse of split_on x2f *)
Fixpoint join (l : list bytes) : bytes :=
  match l with
  | [] => []
  | a :: r => match r with [] => a | _ :: _ => a ++ x2f :: join r end
  end.

Lemma join_cons2 a b r : join (a :: b :: r) = a ++ x2f :: join (b :: r).
Proof. reflexivity. Qed.

Lemma join_cons_cons x p ps : join ((x :: p) :: ps) = x :: join (p :: ps).
Proof. destruct ps; reflexivity. Qed.

Lemma split_on_nonnil sep l : split_on sep l <> [].
Proof.
  destruct l as [|x r]; cbn [split_on]; [discriminate|].
  destruct (Byte.eqb x sep); [discriminate|]. destruct (split_on sep r); discriminate.
Qed.

Lemma join_split s : join (split_on x2f s) = s.
Proof.
  induction s as [|x r IH]; [reflexivity|].
  cbn [split_on]. pose proof (split_on_nonnil x2f r) as Hn.
  destruct (split_on x2f r) as [|p ps] eqn:Es; [contradiction|].
  clear Hn. destruct (Byte.eqb x x2f) eqn:E.
  - apply byte_eqb_eq in E. subst x. rewrite join_cons2. cbn [app]. f_equal. exact IH.
  - rewrite join_cons_cons. f_equal. exact IH.
Qed.

Lemma split_inj a b : split_on x2f a = split_on x2f b -> a = b.
Proof.
  intros H. transitivity (join (split_on x2f a)); [symmetry; apply join_split|].
  rewrite H. apply join_split.
Qed.

(* ================================================================== *)
(* 2. generic list facts                                               *)
(* ================================================================== *)

Lemma filter_map_comm {A B} (g : B -> bool) (f : A -> B) l :
  filter g (map f l) = map f (filter (fun x => g (f x)) l).
Proof.
  induction l as [|a l IH]; [reflexivity|].
  cbn [map filter]. destruct (g (f a)); cbn [map]; rewrite IH; reflexivity.
Qed.

Lemma filter_filter {A} (a b : A -> bool) l :
  filter a (filter b l) = filter (fun x => b x && a x) l.
Proof.
  induction l as [|x l IH]; [reflexivity|].
  cbn [filter]. destruct (b x); cbn [filter andb]; [destruct (a x)|]; rewrite IH; reflexivity.
Qed.

Lemma filter_comm {A} (a b : A -> bool) l : filter a (filter b l) = filter b (filter a l).
Proof.
  rewrite !filter_filter. apply filter_ext. intros x. apply andb_comm.
Qed.

Lemma filter_true_in {A} (f : A -> bool) l : (forall x, In x l -> f x = true) -> filter f l = l.
Proof.
  induction l as [|x l IH]; intros H; [reflexivity|].
  cbn [filter]. rewrite (H x (or_introl eq_refl)). f_equal. apply IH.
  intros y Hy. apply H. right. exact Hy.
Qed.

Lemma find_map {A B} (g : B -> bool) (f : A -> B) l :
  find g (map f l) = option_map f (find (fun x => g (f x)) l).
Proof.
  induction l as [|a l IH]; [reflexivity|].
  cbn [map find]. destruct (g (f a)); [reflexivity | exact IH].
Qed.

Lemma find_filter {A} (p q : A -> bool) l :
  find p (filter q l) = find (fun x => q x && p x) l.
Proof.
  induction l as [|a l IH]; [reflexivity|].
  cbn [filter find]. destruct (q a); cbn [find andb]; [destruct (p a); [reflexivity | exact IH] | exact IH].
Qed.

Lemma find_ext {A} (p q : A -> bool) l : (forall x, p x = q x) -> find p l = find q l.
Proof.
  intros H. induction l as [|a l IH]; [reflexivity|].
  cbn [find]. rewrite H, IH. reflexivity.
Qed.

Lemma find_exists {A} (p : A -> bool) l x : In x l -> p x = true -> exists y, find p l = Some y.
Proof.
  intros Hin Hp. destruct (find p l) as [y|] eqn:F; [exists y; reflexivity|].
  rewrite (find_none _ _ F x Hin) in Hp. discriminate.
Qed.

Lemma nth_error_app_l {A} (l l' : list A) i e : nth_error l i = Some e -> nth_error (l ++ l') i = Some e.
Proof.
  intros H. rewrite nth_error_app1; [exact H|]. apply nth_error_Some. rewrite H. discriminate.
Qed.

Lemma nth_error_snoc_inv {A} (l : list A) x j e :
  nth_error (l ++ [x]) j = Some e -> (j < length l /\ nth_error l j = Some e) \/ (j = length l /\ e = x).
Proof.
  intros H. destruct (Nat.lt_ge_cases j (length l)) as [Hlt|Hge].
  - left. rewrite nth_error_app1 in H by exact Hlt. split; assumption.
  - right. rewrite nth_error_app2 in H by exact Hge.
    destruct (j - length l) as [|k] eqn:Ek.
    + cbn [nth_error] in H. injection H as H. split; [lia | symmetry; exact H].
    + cbn [nth_error] in H. destruct k; discriminate.
Qed.

Lemma last_opt_cons2 {A} (x y : A) l : last_opt (x :: y :: l) = last_opt (y :: l).
Proof.
  unfold last_opt. cbn [rev]. destruct (rev l ++ [y]) as [|a r] eqn:E.
  - destruct (rev l); discriminate.
  - reflexivity.
Qed.

(* ================================================================== *)
(* 3. segment classification                                           *)
(* ================================================================== *)

Lemma classify_parse s : parse_route_segment s = classify s.
Proof.
  destruct s as [|b [|c [|d s]]].
  - reflexivity.
  - destruct b; reflexivity.
  - destruct b; try reflexivity. destruct c; reflexivity.
  - destruct b; try reflexivity. destruct c; reflexivity.
Qed.

Lemma classify_lit s : is_lit (classify s) = true -> classify s = Lit s.
Proof.
  rewrite <- classify_parse. unfold parse_route_segment.
  destruct (bytes_eqb s [x2a]); [cbn [is_lit]; discriminate|].
  destruct (bytes_eqb s [x2a; x2a]); [cbn [is_lit]; discriminate|].
  destruct s as [|b r]; [reflexivity|].
  destruct b; try reflexivity. cbn [is_lit]. discriminate.
Qed.

Definition pat (n : bytes) : list seg := map classify (split_on x2f n).
Definition mkp (p : list seg) : pattern := {| segs := p; last_prec := precedence_of (last_opt p) |}.

Lemma segs_mkp p : segs (mkp p) = p.
Proof. reflexivity. Qed.
Lemma last_prec_mkp p : last_prec (mkp p) = precedence_of (last_opt p).
Proof. reflexivity. Qed.

Lemma parse_route_eq path : parse_route path = (strip_slash path, mkp (pat (strip_slash path))).
Proof. unfold parse_route, mkp, pat. rewrite (map_ext _ _ classify_parse). reflexivity. Qed.

Lemma pattern_of_eq path : pattern_of path = pat (strip_slash path).
Proof. reflexivity. Qed.

Lemma path_segs_eq uri : path_segs uri = split_on x2f (strip_slash uri).
Proof. reflexivity. Qed.

Lemma pat_nonnil n : pat n <> [].
Proof.
  unfold pat. pose proof (split_on_nonnil x2f n) as H.
  destruct (split_on x2f n); [contradiction | discriminate].
Qed.

(* ================================================================== *)
(* 4. all-literal patterns, equivalence                                *)
(* ================================================================== *)

Lemma all_lit_map l : all_lit (map classify l) = true -> map classify l = map Lit l.
Proof.
  unfold all_lit. induction l as [|a l IH]; intros H; [reflexivity|].
  cbn [map forallb] in *. apply andb_true_iff in H. destruct H as [H1 H2].
  rewrite (classify_lit _ H1). f_equal. apply IH. exact H2.
Qed.

Lemma matchb_lits l : forall us, matchb (map Lit l) us = true <-> l = us.
Proof.
  induction l as [|a l IH]; intros [|u us]; cbn [map matchb].
  - split; reflexivity.
  - split; discriminate.
  - split; discriminate.
  - rewrite andb_true_iff, bytes_eqb_iff, IH. split.
    + intros [-> ->]. reflexivity.
    + intros H. injection H as -> ->. split; reflexivity.
Qed.

Lemma equivb_lits l : forall l', equivb (map Lit l) (map Lit l') = true <-> l = l'.
Proof.
  induction l as [|a l IH]; intros [|u us]; cbn [map equivb].
  - split; reflexivity.
  - split; discriminate.
  - split; discriminate.
  - rewrite andb_true_iff, bytes_eqb_iff, IH. split.
    + intros [-> ->]. reflexivity.
    + intros H. injection H as -> ->. split; reflexivity.
Qed.

Lemma equivb_refl p : equivb p p = true.
Proof.
  induction p as [|a p IH]; [reflexivity|].
  destruct a; cbn [equivb]; rewrite ?bytes_eqb_refl; exact IH.
Qed.

Definition seg_kind (s : seg) : prec := precedence_of (Some s).

Lemma equivb_kinds p : forall q, equivb p q = true ->
  map seg_kind p = map seg_kind q /\ all_lit p = all_lit q.
Proof.
  unfold all_lit.
  induction p as [|a p IH]; intros [|b q] H.
  - split; reflexivity.
  - discriminate.
  - destruct a; discriminate.
  - destruct a, b; cbn [equivb] in H; try discriminate;
      try (apply andb_true_iff in H; destruct H as [_ H]);
      destruct (IH q H) as [H1 H2]; cbn [map forallb is_lit seg_kind precedence_of andb];
      fold seg_kind; rewrite H1, ?H2; split; reflexivity.
Qed.

Lemma equivb_all_lit p q : equivb p q = true -> all_lit p = all_lit q.
Proof. intros H. apply (equivb_kinds p q H). Qed.

Lemma prec_last_kind p : precedence_of (last_opt p) = last (map seg_kind p) PDW.
Proof.
  induction p as [|a p IH]; [reflexivity|].
  destruct p as [|b p]; [destruct a; reflexivity|].
  rewrite last_opt_cons2, IH. reflexivity.
Qed.

Lemma equivb_last p q : equivb p q = true -> precedence_of (last_opt p) = precedence_of (last_opt q).
Proof.
  intros H. rewrite !prec_last_kind. destruct (equivb_kinds p q H) as [H1 _]. rewrite H1. reflexivity.
Qed.

Lemma segs_eqb_equivb p : forall q, segs_eqb p q = equivb p q.
Proof.
  induction p as [|a p IH]; intros [|b q]; try reflexivity.
  - destruct a; reflexivity.
  - destruct a, b; cbn [segs_eqb seg_eqb equivb andb]; rewrite ?IH; reflexivity.
Qed.

Lemma pattern_eqb_mkp p q : pattern_eqb (mkp p) (mkp q) = equivb p q.
Proof.
  unfold pattern_eqb. rewrite !segs_mkp, !last_prec_mkp, segs_eqb_equivb.
  destruct (equivb p q) eqn:E; [|reflexivity].
  rewrite (equivb_last _ _ E). cbn [andb]. unfold prec_eqb. apply Nat.eqb_refl.
Qed.

Lemma lit_equiv a b : all_lit (pat a) = true -> all_lit (pat b) = true ->
  equivb (pat a) (pat b) = bytes_eqb a b.
Proof.
  intros Ha Hb. unfold pat in *. rewrite (all_lit_map _ Ha), (all_lit_map _ Hb).
  apply bool_iff_eq. rewrite equivb_lits, bytes_eqb_iff. split.
  - apply split_inj.
  - intros ->. reflexivity.
Qed.

Lemma lit_match a b : all_lit (pat a) = true ->
  matchb (pat a) (split_on x2f b) = bytes_eqb a b.
Proof.
  intros Ha. unfold pat in *. rewrite (all_lit_map _ Ha).
  apply bool_iff_eq. rewrite matchb_lits, bytes_eqb_iff. split.
  - apply split_inj.
  - intros ->. reflexivity.
Qed.

Lemma all_lit_matchb p : forall us, all_lit p = true -> matchb p us = true -> p = map Lit us.
Proof.
  unfold all_lit.
  induction p as [|a p IH]; intros [|u us] HL HM.
  - reflexivity.
  - discriminate.
  - destruct a; discriminate.
  - destruct a; cbn [forallb is_lit andb] in HL; try discriminate.
    cbn [matchb] in HM. apply andb_true_iff in HM. destruct HM as [H1 H2].
    apply bytes_eqb_true in H1. subst. cbn [map]. f_equal. apply IH; assumption.
Qed.

Lemma all_lit_bindings p : forall us, all_lit p = true -> bindings p us = [].
Proof.
  unfold all_lit.
  induction p as [|a p IH]; intros us HL; [destruct us; reflexivity|].
  destruct a; cbn [forallb is_lit andb] in HL; try discriminate.
  destruct us as [|u us]; [reflexivity|]. cbn [bindings]. apply IH. exact HL.
Qed.

(* ================================================================== *)
(* 5. the registrations in force, keyed by normalised path             *)
(* ================================================================== *)

Definition nent := (bytes * N)%type.
Definition isL (e : nent) : bool := all_lit (pat (fst e)).
Definition notL (e : nent) : bool := negb (isL e).
Definition toR (e : nent) : route := (pat (fst e), snd e).
Definition toP (e : nent) : pattern * N := (mkp (pat (fst e)), snd e).
Definition nequiv (n : bytes) (e : nent) : bool := negb (equivb (pat (fst e)) (pat n)).

Definition stepN (m : meth) (acc : list nent) (r : meth * bytes * N) : list nent :=
  let '(m', path, h) := r in
  if meth_eqb m' m then filter (nequiv (strip_slash path)) acc ++ [(strip_slash path, h)] else acc.

Definition nroutes (t : table) (m : meth) : list nent := fold_left (stepN m) t [].

Definition bk (nr : list nent) : bucket :=
  {| literals := filter isL nr; patterns := map toP (filter notL nr) |}.

Definition stepR (m : meth) (rs : list route) (r : meth * bytes * N) : list route :=
  let '(m', path, h) := r in if meth_eqb m' m then register rs (pattern_of path) h else rs.

Definition stepB (m : meth) (b : bucket) (r : meth * bytes * N) : bucket :=
  let '(m', path, h) := r in if meth_eqb m' m then add_route b path h else b.

Lemma routes_of_fold t m : routes_of t m = fold_left (stepR m) t [].
Proof. reflexivity. Qed.

Lemma bucket_of_fold t m : bucket_of t m = fold_left (stepB m) t empty_bucket.
Proof. reflexivity. Qed.

Lemma routes_of_gen m : forall t acc,
  fold_left (stepR m) t (map toR acc) = map toR (fold_left (stepN m) t acc).
Proof.
  induction t as [|[[m' path] h] t IH]; intros acc; [reflexivity|].
  cbn [fold_left stepR stepN]. destruct (meth_eqb m' m); [|apply IH].
  rewrite <- IH. f_equal. unfold register. rewrite map_app, filter_map_comm. reflexivity.
Qed.

Lemma routes_of_nroutes t m : routes_of t m = map toR (nroutes t m).
Proof. rewrite routes_of_fold. apply (routes_of_gen m t []). Qed.

Lemma add_route_bk acc path h :
  add_route (bk acc) path h = bk (filter (nequiv (strip_slash path)) acc ++ [(strip_slash path, h)]).
Proof.
  unfold add_route. rewrite parse_route_eq. cbv beta iota. rewrite segs_mkp.
  set (n := strip_slash path).
  change (forallb is_lit (pat n)) with (all_lit (pat n)).
  assert (isL (n, h) = all_lit (pat n)) as HnL by reflexivity.
  destruct (all_lit (pat n)) eqn:HL; unfold bk; cbn [literals patterns]; f_equal.
  - rewrite filter_app. cbn [filter]. rewrite HnL. f_equal.
    rewrite (filter_comm isL). apply filter_ext_in. intros e He.
    apply filter_In in He. destruct He as [_ He]. unfold nequiv. f_equal. symmetry.
    apply lit_equiv; assumption.
  - f_equal. rewrite filter_app. cbn [filter]. unfold notL at 3. rewrite HnL. cbn [negb].
    rewrite app_nil_r, filter_comm. symmetry. apply filter_true_in. intros e He.
    apply filter_In in He. destruct He as [_ He]. unfold nequiv.
    destruct (equivb (pat (fst e)) (pat n)) eqn:E; [|reflexivity].
    apply equivb_all_lit in E. unfold notL, isL in He. rewrite E, HL in He. discriminate.
  - rewrite filter_app. cbn [filter]. rewrite HnL. rewrite app_nil_r, filter_comm.
    symmetry. apply filter_true_in. intros e He.
    apply filter_In in He. destruct He as [_ He]. unfold nequiv.
    destruct (equivb (pat (fst e)) (pat n)) eqn:E; [|reflexivity].
    apply equivb_all_lit in E. unfold isL in He. rewrite E, HL in He. discriminate.
  - rewrite filter_app, map_app. cbn [filter]. unfold notL at 3. rewrite HnL. cbn [negb map].
    f_equal. rewrite filter_map_comm. f_equal. rewrite (filter_comm notL).
    apply filter_ext. intros e. unfold nequiv, toP. cbn [fst]. f_equal. apply pattern_eqb_mkp.
Qed.

Lemma bucket_of_gen m : forall t acc,
  fold_left (stepB m) t (bk acc) = bk (fold_left (stepN m) t acc).
Proof.
  induction t as [|[[m' path] h] t IH]; intros acc; [reflexivity|].
  cbn [fold_left stepB stepN]. destruct (meth_eqb m' m); [|apply IH].
  rewrite add_route_bk. apply IH.
Qed.

Lemma bucket_of_nroutes t m : bucket_of t m = bk (nroutes t m).
Proof. rewrite bucket_of_fold. apply (bucket_of_gen m t []). Qed.

Lemma nroutes_wf_gen m : forall t acc, wf_table t = true ->
  (forall e, In e acc -> trailing_dw (pat (fst e)) = true) ->
  forall e, In e (fold_left (stepN m) t acc) -> trailing_dw (pat (fst e)) = true.
Proof.
  induction t as [|[[m' path] h] t IH]; intros acc Hwf Hacc; [exact Hacc|].
  unfold wf_table in Hwf. cbn [forallb] in Hwf. apply andb_true_iff in Hwf. destruct Hwf as [Hp Hwf].
  cbn [fold_left stepN]. apply IH; [exact Hwf|].
  destruct (meth_eqb m' m); [|exact Hacc].
  intros e He. apply in_app_or in He. destruct He as [He|He].
  - apply filter_In in He. apply Hacc. apply He.
  - destruct He as [<-|[]]. exact Hp.
Qed.

Lemma nroutes_wf t m : wf_table t = true ->
  forall e, In e (nroutes t m) -> trailing_dw (pat (fst e)) = true.
Proof. intros Hwf. apply (nroutes_wf_gen m t [] Hwf). intros e []. Qed.

(* ================================================================== *)
(* 6. one candidate: scan / try_pattern = matchb, lead_lits, bindings  *)
(* ================================================================== *)

Definition finish (p : list seg) (r : option (nat * params * list bytes)) : option (nat * params) :=
  match r with
  | None => None
  | Some (lml, ps, rest) =>
      match rest with
      | [] => Some (lml, ps)
      | _ :: _ => if prec_eqb (precedence_of (last_opt p)) PDW then Some (lml, ps) else None
      end
  end.

Lemma scan_spec : forall p, p <> [] -> trailing_dw p = true -> forall us lml c ps,
  finish p (scan p us lml c ps) =
  if matchb p us then Some ((if c then lead_lits p + lml else lml), ps ++ bindings p us) else None.
Proof.
  induction p as [|s p IH]; intros Hne Htd us lml c ps; [contradiction|].
  destruct p as [|s' p'].
  - (* last segment *)
    destruct s, us as [|u us]; cbn [scan matchb bindings lead_lits]; rewrite ?app_nil_r;
      try (destruct (bytes_eqb s u)); cbn [andb];
      try (destruct us); cbn [finish last_opt rev app precedence_of prec_eqb prec_rank Nat.eqb];
      destruct c; reflexivity.
  - (* inner segment *)
    assert (s' :: p' <> []) as Hne' by discriminate.
    assert (forall r, finish (s :: s' :: p') r = finish (s' :: p') r) as Hfin.
    { intros r. unfold finish. rewrite last_opt_cons2. reflexivity. }
    rewrite Hfin. clear Hfin.
    remember (s' :: p') as q eqn:Eq. clear Eq.
    destruct s; cbn [trailing_dw] in Htd;
      [ | | | destruct q; [contradiction | discriminate] ];
      (destruct us as [|u us]; [reflexivity|]).
    + cbn [scan matchb bindings lead_lits].
      destruct (bytes_eqb s u); cbn [andb]; [|reflexivity].
      rewrite (IH Hne' Htd). destruct (matchb q us); [|reflexivity].
      destruct c; [|reflexivity]. do 2 f_equal. lia.
    + cbn [scan matchb bindings lead_lits].
      rewrite (IH Hne' Htd). destruct (matchb q us); [|reflexivity].
      rewrite <- app_assoc. cbn [app]. destruct c; reflexivity.
    + cbn [scan matchb bindings lead_lits].
      rewrite (IH Hne' Htd). destruct (matchb q us); [|reflexivity].
      destruct c; reflexivity.
Qed.

Lemma try_pattern_spec p us : p <> [] -> trailing_dw p = true ->
  try_pattern (mkp p) us = if matchb p us then Some (lead_lits p, bindings p us) else None.
Proof.
  intros Hne Htd. pose proof (scan_spec p Hne Htd us 0 true []) as H.
  rewrite Nat.add_0_r in H. cbn [app] in H. exact H.
Qed.

(* ================================================================== *)
(* 7. ranking: better = rank_ltb; the candidate loop = best_of         *)
(* ================================================================== *)

Definition rkey (p : list seg) : nat := lead_lits p * 4 + final_rank p.

Lemma final_rank_le p : final_rank p <= 3.
Proof. unfold final_rank. destruct (last_opt p) as [[| | |]|]; lia. Qed.

Lemma rank_ltb_key p q : rank_ltb p q = Nat.ltb (rkey p) (rkey q).
Proof.
  pose proof (final_rank_le p) as Hp. pose proof (final_rank_le q) as Hq.
  apply bool_iff_eq. unfold rank_ltb, rkey.
  rewrite orb_true_iff, andb_true_iff, !Nat.ltb_lt, Nat.eqb_eq. lia.
Qed.

Lemma prec_rank_final p : prec_rank (precedence_of (last_opt p)) = final_rank p.
Proof. unfold final_rank. destruct (last_opt p) as [[| | |]|]; reflexivity. Qed.

Lemma better_rank p q h ps :
  better (lead_lits p) (precedence_of (last_opt p))
         (Some (lead_lits q, precedence_of (last_opt q), h, ps)) = rank_ltb q p.
Proof.
  unfold better, rank_ltb, prec_gtb. rewrite !prec_rank_final.
  rewrite (Nat.eqb_sym (lead_lits p)). reflexivity.
Qed.

Definition tobest (us : list bytes) (cur : option route) : best :=
  match cur with
  | None => None
  | Some c => Some (lead_lits (fst c), precedence_of (last_opt (fst c)), snd c, bindings (fst c) us)
  end.

Lemma step_pattern_toP us b a : trailing_dw (pat (fst a)) = true ->
  step_pattern us b (toP a) =
  if matchb (pat (fst a)) us
  then (if better (lead_lits (pat (fst a))) (precedence_of (last_opt (pat (fst a)))) b
        then Some (lead_lits (pat (fst a)), precedence_of (last_opt (pat (fst a))), snd a,
                   bindings (pat (fst a)) us)
        else b)
  else b.
Proof.
  intros Htd. unfold step_pattern, toP. rewrite (try_pattern_spec _ us (pat_nonnil _) Htd).
  destruct (matchb (pat (fst a)) us); reflexivity.
Qed.

Lemma fold_best us : forall l cur,
  (forall e, In e l -> trailing_dw (pat (fst e)) = true) ->
  fold_left (step_pattern us) (map toP l) (tobest us cur) =
  tobest us (best_of cur (filter (fun e => matchb (fst e) us) (map toR l))).
Proof.
  induction l as [|a l IH]; intros cur Hl; [reflexivity|].
  assert (forall e, In e l -> trailing_dw (pat (fst e)) = true) as Hl'.
  { intros e He. apply Hl. right. exact He. }
  cbn [map fold_left filter]. rewrite step_pattern_toP by (apply Hl; left; reflexivity).
  change (toR a) with (pat (fst a), snd a). cbn [fst]. destruct (matchb (pat (fst a)) us) eqn:M.
  - destruct cur as [c|].
    + cbn [tobest best_of]. rewrite better_rank. cbn [fst].
      destruct (rank_ltb (fst c) (pat (fst a))).
      * apply (IH (Some (pat (fst a), snd a)) Hl').
      * apply (IH (Some c) Hl').
    + cbn [tobest best_of better]. apply (IH (Some (pat (fst a), snd a)) Hl').
  - apply (IH cur Hl').
Qed.

(* ================================================================== *)
(* 8. refinement                                                       *)
(* ================================================================== *)

Theorem route_refines_spec : forall t m uri, wf_table t = true -> match_route t m uri = spec_route t m uri.
Proof.
  intros t m uri Hwf. unfold match_route, spec_route.
  rewrite bucket_of_nroutes, routes_of_nroutes, path_segs_eq.
  pose proof (nroutes_wf t m Hwf) as Htd.
  set (nr := nroutes t m) in *. set (u := strip_slash uri). set (us := split_on x2f u).
  unfold find_literal, bk. cbn [literals patterns].
  rewrite find_filter, find_map.
  rewrite (find_ext (fun x => isL x && bytes_eqb (fst x) u)
                    (fun x => all_lit (fst (toR x)) && matchb (fst (toR x)) us)).
  2:{ intros e. unfold isL, toR. cbn [fst]. destruct (all_lit (pat (fst e))) eqn:HL; [|reflexivity].
      cbn [andb]. symmetry. apply lit_match. exact HL. }
  destruct (find (fun x => all_lit (fst (toR x)) && matchb (fst (toR x)) us) nr) as [e|] eqn:F;
    cbn [option_map]; [reflexivity|].
  assert (filter (fun e => matchb (fst e) us) (map toR nr) =
          filter (fun e => matchb (fst e) us) (map toR (filter notL nr))) as Hf.
  { rewrite !filter_map_comm. f_equal. rewrite filter_filter. apply filter_ext_in.
    intros e He. pose proof (find_none _ _ F e He) as Hn. cbv beta in Hn.
    unfold notL, isL. unfold toR in Hn at 1. cbn [fst] in Hn.
    destruct (all_lit (pat (fst e))); [|reflexivity]. cbn [andb negb] in *. exact Hn. }
  rewrite Hf.
  pose proof (fold_best us (filter notL nr) None) as HB. cbn [tobest] in HB. rewrite HB.
  2:{ intros e He. apply filter_In in He. apply Htd. apply He. }
  destruct (best_of None _) as [c|]; reflexivity.
Qed.

(* ================================================================== *)
(* 9. the boolean matcher decides [matches]                            *)
(* ================================================================== *)

Lemma matchb_matches : forall p us, matchb p us = true -> matches p us.
Proof.
  induction p as [|a p IH]; intros us H.
  - destruct us; [constructor | discriminate].
  - destruct a.
    + destruct us as [|u us]; cbn [matchb] in H; [discriminate|].
      apply andb_true_iff in H. destruct H as [H1 H2]. apply bytes_eqb_true in H1. subst u.
      constructor. apply IH. exact H2.
    + destruct us as [|u us]; cbn [matchb] in H; [discriminate|]. constructor. apply IH. exact H.
    + destruct us as [|u us]; cbn [matchb] in H; [discriminate|]. constructor. apply IH. exact H.
    + cbn [matchb] in H. destruct p; [constructor | discriminate].
Qed.

Lemma matches_matchb : forall p us, matches p us -> matchb p us = true.
Proof.
  intros p us H. induction H as [|s p u H IH|n p x u H IH|p x u H IH|u]; cbn [matchb];
    rewrite ?bytes_eqb_refl; try reflexivity; exact IH.
Qed.

Theorem matchb_iff : forall p us, trailing_dw p = true -> (matchb p us = true <-> matches p us).
Proof. intros p us _. split; [apply matchb_matches | apply matches_matchb]. Qed.

(* ================================================================== *)
(* 10. best_of: first element of maximal rank                          *)
(* ================================================================== *)

Lemma best_of_snoc : forall l cur x,
  best_of cur (l ++ [x]) =
  match best_of cur l with
  | None => Some x
  | Some c => if rank_ltb (fst c) (fst x) then Some x else Some c
  end.
Proof.
  induction l as [|e l IH]; intros cur x.
  - cbn [app best_of]. destruct cur as [c|]; [|reflexivity]. destruct (rank_ltb (fst c) (fst x)); reflexivity.
  - cbn [app best_of]. destruct cur as [c|]; [destruct (rank_ltb (fst c) (fst e))|]; apply IH.
Qed.

Definition best_ok (g : route -> bool) (rs : list route) (r : option route) : Prop :=
  match r with
  | None => forall e, In e rs -> g e = false
  | Some e => exists i, nth_error rs i = Some e /\ g e = true /\
       forall j e', nth_error rs j = Some e' -> g e' = true ->
          rkey (fst e') <= rkey (fst e) /\ (rkey (fst e') < rkey (fst e) \/ i <= j)
  end.

Lemma best_first_max (g : route -> bool) : forall rs, best_ok g rs (best_of None (filter g rs)).
Proof.
  unfold best_ok. induction rs as [|x rs IH] using rev_ind.
  - cbn [filter best_of]. intros e [].
  - rewrite filter_app. cbn [filter]. destruct (g x) eqn:G.
    + rewrite best_of_snoc. destruct (best_of None (filter g rs)) as [c|].
      * destruct IH as (i & Hi & Hg & Hmax). rewrite rank_ltb_key.
        destruct (Nat.ltb_spec (rkey (fst c)) (rkey (fst x))) as [Hlt|Hge].
        -- exists (length rs). split; [|split; [exact G|]].
           { rewrite nth_error_app2 by lia. rewrite Nat.sub_diag. reflexivity. }
           intros j e' Hj Hg'. apply nth_error_snoc_inv in Hj.
           destruct Hj as [[Hj1 Hj2]|[Hj1 Hj2]].
           ++ destruct (Hmax j e' Hj2 Hg') as [H1 _]. split; [lia | left; lia].
           ++ subst. split; [lia | right; lia].
        -- exists i. split; [apply nth_error_app_l; exact Hi | split; [exact Hg|]].
           intros j e' Hj Hg'. apply nth_error_snoc_inv in Hj.
           destruct Hj as [[Hj1 Hj2]|[Hj1 Hj2]].
           ++ apply (Hmax j e' Hj2 Hg').
           ++ subst. split; [lia|]. right.
              assert (i < length rs) as Hil by (apply nth_error_Some; rewrite Hi; discriminate). lia.
      * exists (length rs). split; [|split; [exact G|]].
        { rewrite nth_error_app2 by lia. rewrite Nat.sub_diag. reflexivity. }
        intros j e' Hj Hg'. apply nth_error_snoc_inv in Hj.
        destruct Hj as [[Hj1 Hj2]|[Hj1 Hj2]].
        -- apply nth_error_In in Hj2. rewrite (IH e' Hj2) in Hg'. discriminate.
        -- subst. split; [lia | right; lia].
    + rewrite app_nil_r. destruct (best_of None (filter g rs)) as [c|].
      * destruct IH as (i & Hi & Hg & Hmax).
        exists i. split; [apply nth_error_app_l; exact Hi | split; [exact Hg|]].
        intros j e' Hj Hg'. apply nth_error_snoc_inv in Hj.
        destruct Hj as [[Hj1 Hj2]|[Hj1 Hj2]].
        -- apply (Hmax j e' Hj2 Hg').
        -- subst. rewrite G in Hg'. discriminate.
      * intros e He. apply in_app_or in He. destruct He as [He|[<-|[]]]; [apply IH; exact He | exact G].
Qed.

(* ================================================================== *)
(* 11. registered patterns are pairwise non-equivalent                 *)
(* ================================================================== *)

Fixpoint uniq (rs : list route) : Prop :=
  match rs with
  | [] => True
  | e :: r => (forall e', In e' r -> equivb (fst e) (fst e') = false) /\ uniq r
  end.

Lemma uniq_filter g : forall rs, uniq rs -> uniq (filter g rs).
Proof.
  induction rs as [|e rs IH]; intros H; [exact I|].
  destruct H as [H1 H2]. cbn [filter]. destruct (g e); [|apply IH; exact H2].
  split; [|apply IH; exact H2]. intros e' He'. apply filter_In in He'. apply H1. apply He'.
Qed.

Lemma uniq_snoc e : forall rs, uniq rs -> (forall e', In e' rs -> equivb (fst e') (fst e) = false) ->
  uniq (rs ++ [e]).
Proof.
  induction rs as [|a rs IH]; intros H Hne.
  - split; [intros e' [] | exact I].
  - destruct H as [H1 H2]. cbn [app]. split.
    + intros e' He'. apply in_app_or in He'. destruct He' as [He'|[<-|[]]].
      * apply H1. exact He'.
      * apply Hne. left. reflexivity.
    + apply IH; [exact H2|]. intros e' He'. apply Hne. right. exact He'.
Qed.

Lemma uniq_register rs p h : uniq rs -> uniq (register rs p h).
Proof.
  intros H. unfold register. apply uniq_snoc; [apply uniq_filter; exact H|].
  intros e' He'. apply filter_In in He'. destruct He' as [_ He']. cbn [fst].
  destruct (equivb (fst e') p); [discriminate | reflexivity].
Qed.

Lemma uniq_fold m : forall t acc, uniq acc -> uniq (fold_left (stepR m) t acc).
Proof.
  induction t as [|[[m' path] h] t IH]; intros acc H; [exact H|].
  cbn [fold_left stepR]. apply IH. destruct (meth_eqb m' m); [apply uniq_register|]; exact H.
Qed.

Lemma routes_of_uniq t m : uniq (routes_of t m).
Proof. rewrite routes_of_fold. apply uniq_fold. exact I. Qed.

Lemma uniq_handler : forall rs p h h', uniq rs -> In (p, h) rs -> In (p, h') rs -> h = h'.
Proof.
  induction rs as [|e rs IH]; intros p h h' H H1 H2; [destruct H1|].
  destruct H as [Hu Hr]. destruct H1 as [H1|H1], H2 as [H2|H2].
  - rewrite H1 in H2. injection H2 as H2. exact H2.
  - subst e. specialize (Hu _ H2). cbn [fst] in Hu. rewrite equivb_refl in Hu. discriminate.
  - subst e. specialize (Hu _ H1). cbn [fst] in Hu. rewrite equivb_refl in Hu. discriminate.
  - apply (IH p h h' Hr H1 H2).
Qed.

(* ================================================================== *)
(* 12. C12: bindings                                                   *)
(* ================================================================== *)

Theorem bindings_names : forall pat us, matches pat us ->
  map fst (bindings pat us) = param_names pat.
Proof.
  intros p us H. induction H as [|s p u H IH|n p x u H IH|p x u H IH|u];
    cbn [bindings param_names map fst]; try reflexivity; try exact IH.
  f_equal. exact IH.
Qed.

Theorem bindings_length : forall pat us, matches pat us ->
  length (bindings pat us) = length (param_names pat).
Proof.
  intros p us H. rewrite <- (bindings_names p us H). symmetry. apply map_length.
Qed.

Theorem bindings_values : forall pat us k n, matches pat us -> nth_error pat k = Some (Param n) ->
  exists u, nth_error us k = Some u /\ In (n, u) (bindings pat us).
Proof.
  intros p us k n H. revert k.
  induction H as [|s p u H IH|n' p x u H IH|p x u H IH|u]; intros k Hk.
  - destruct k; discriminate.
  - destruct k as [|k]; [discriminate|]. cbn [nth_error] in *. cbn [bindings]. apply IH. exact Hk.
  - destruct k as [|k]; cbn [nth_error] in *; cbn [bindings].
    + injection Hk as ->. exists x. split; [reflexivity | left; reflexivity].
    + destruct (IH k Hk) as (v & Hv1 & Hv2). exists v. split; [exact Hv1 | right; exact Hv2].
  - destruct k as [|k]; [discriminate|]. cbn [nth_error] in *. cbn [bindings]. apply IH. exact Hk.
  - destruct k as [|[|k]]; discriminate.
Qed.

Theorem bindings_none : forall pat us, param_names pat = [] -> bindings pat us = [].
Proof.
  intros p. induction p as [|a p IH]; intros us H; [destruct us; reflexivity|].
  destruct a; cbn [param_names] in H; try discriminate;
    destruct us as [|u us]; cbn [bindings]; try reflexivity; apply IH; exact H.
Qed.

(* ================================================================== *)
(* 13. registration                                                    *)
(* ================================================================== *)

Lemma meth_eqb_refl m : meth_eqb m m = true.
Proof. destruct m; cbn [meth_eqb]; [apply N.eqb_refl | apply bytes_eqb_refl]. Qed.

Theorem routes_of_snoc_same : forall t m path h,
  routes_of (t ++ [(m, path, h)]) m =
  filter (fun e => negb (equivb (fst e) (pattern_of path))) (routes_of t m) ++ [(pattern_of path, h)].
Proof.
  intros t m path h. rewrite !routes_of_fold, fold_left_app. cbn [fold_left stepR].
  rewrite meth_eqb_refl. reflexivity.
Qed.

Theorem routes_of_snoc_other : forall t m m' path h, meth_eqb m' m = false ->
  routes_of (t ++ [(m', path, h)]) m = routes_of t m.
Proof.
  intros t m m' path h Hm. rewrite !routes_of_fold, fold_left_app. cbn [fold_left stepR].
  rewrite Hm. reflexivity.
Qed.

(* ================================================================== *)
(* 14. C11/C12 consequences                                            *)
(* ================================================================== *)

Definition gL (us : list bytes) (e : route) : bool := all_lit (fst e) && matchb (fst e) us.
Definition gM (us : list bytes) (e : route) : bool := matchb (fst e) us.

Lemma spec_route_cases t m uri : exists fo r,
  find (gL (path_segs uri)) (routes_of t m) = fo /\
  best_ok (gM (path_segs uri)) (routes_of t m) r /\
  spec_route t m uri =
  match fo with
  | Some e => Found (snd e) []
  | None => match r with
            | Some e => Found (snd e) (bindings (fst e) (path_segs uri))
            | None => Fallback
            end
  end.
Proof.
  exists (find (gL (path_segs uri)) (routes_of t m)),
         (best_of None (filter (gM (path_segs uri)) (routes_of t m))).
  split; [reflexivity | split; [apply best_first_max | reflexivity]].
Qed.

Theorem route_params : forall t m uri h ps, wf_table t = true -> match_route t m uri = Found h ps ->
  exists i pat, selected (routes_of t m) (path_segs uri) i pat h /\ ps = bindings pat (path_segs uri).
Proof.
  intros t m uri h ps Hwf H. rewrite (route_refines_spec t m uri Hwf) in H.
  destruct (spec_route_cases t m uri) as (fo & r & F & HB & Hs). rewrite Hs in H. clear Hs.
  set (us := path_segs uri) in *. set (rs := routes_of t m) in *.
  destruct fo as [e|].
  - apply find_some in F. destruct F as [Hin Hg]. unfold gL in Hg.
    apply andb_true_iff in Hg. destruct Hg as [HL HM].
    destruct e as [p h0]. cbn [fst snd] in *. injection H as <- <-.
    destruct (In_nth_error _ _ Hin) as [i Hi]. exists i, p. split.
    + split; [exact Hi | split; [apply matchb_matches; exact HM | left; exact HL]].
    + symmetry. apply all_lit_bindings. exact HL.
  - destruct r as [e|]; [|discriminate]. unfold best_ok, gM in HB.
    destruct HB as (i & Hi & HM & Hmax). destruct e as [p h0]. cbn [fst snd] in *.
    injection H as <- <-. exists i, p. split; [|reflexivity].
    split; [exact Hi | split; [apply matchb_matches; exact HM | right]]. split.
    + intros p' h' Hin HL HM'. apply matches_matchb in HM'.
      pose proof (find_none _ _ F (p', h') Hin) as Hn. unfold gL in Hn. cbn [fst] in Hn.
      rewrite HL, HM' in Hn. discriminate.
    + intros j p' h' Hj HM'. apply matches_matchb in HM'.
      destruct (Hmax j (p', h') Hj HM') as [H1 H2]. cbn [fst] in *. rewrite !rank_ltb_key. split.
      * apply Nat.ltb_ge. exact H1.
      * destruct H2 as [H2|H2]; [left; apply Nat.ltb_lt; exact H2 | right; exact H2].
Qed.

Theorem route_most_specific : forall t m uri h ps, wf_table t = true -> match_route t m uri = Found h ps ->
  exists i pat, selected (routes_of t m) (path_segs uri) i pat h.
Proof.
  intros t m uri h ps Hwf H. destruct (route_params t m uri h ps Hwf H) as (i & p & Hs & _).
  exists i, p. exact Hs.
Qed.

Theorem route_sound : forall t m uri h ps, wf_table t = true -> match_route t m uri = Found h ps ->
  exists pat, In (pat, h) (routes_of t m) /\ matches pat (path_segs uri).
Proof.
  intros t m uri h ps Hwf H. destruct (route_params t m uri h ps Hwf H) as (i & p & Hs & _).
  destruct Hs as (Hi & HM & _). exists p. split; [apply (nth_error_In _ i); exact Hi | exact HM].
Qed.

Theorem route_fallback_iff : forall t m uri, wf_table t = true ->
  (match_route t m uri = Fallback <->
   forall pat h, In (pat, h) (routes_of t m) -> ~ matches pat (path_segs uri)).
Proof.
  intros t m uri Hwf. rewrite (route_refines_spec t m uri Hwf).
  destruct (spec_route_cases t m uri) as (fo & r & F & HB & Hs). rewrite Hs. clear Hs.
  set (us := path_segs uri) in *. set (rs := routes_of t m) in *.
  split.
  - intros H p h Hin HM. apply matches_matchb in HM.
    destruct fo as [e|]; [discriminate|]. destruct r as [e|]; [discriminate|].
    unfold best_ok, gM in HB. specialize (HB (p, h) Hin). cbn [fst] in HB. rewrite HM in HB. discriminate.
  - intros H. destruct fo as [e|].
    + apply find_some in F. destruct F as [Hin Hg]. unfold gL in Hg.
      apply andb_true_iff in Hg. destruct Hg as [_ HM].
      destruct e as [p h]. exfalso. apply (H p h Hin). apply matchb_matches. exact HM.
    + destruct r as [e|]; [|reflexivity]. unfold best_ok, gM in HB.
      destruct HB as (i & Hi & HM & _). destruct e as [p h]. exfalso.
      apply (H p h); [apply (nth_error_In _ i); exact Hi | apply matchb_matches; exact HM].
Qed.

Theorem route_literal_wins : forall t m uri pat h, wf_table t = true ->
  In (pat, h) (routes_of t m) -> all_lit pat = true -> matches pat (path_segs uri) ->
  match_route t m uri = Found h [].
Proof.
  intros t m uri p h Hwf Hin HL HM. rewrite (route_refines_spec t m uri Hwf).
  destruct (spec_route_cases t m uri) as (fo & r & F & _ & Hs). rewrite Hs. clear Hs.
  pose proof (routes_of_uniq t m) as Hu.
  set (us := path_segs uri) in *. set (rs := routes_of t m) in *.
  apply matches_matchb in HM.
  destruct fo as [e|].
  - apply find_some in F. destruct F as [Hin' Hg]. unfold gL in Hg.
    apply andb_true_iff in Hg. destruct Hg as [HL' HM'].
    destruct e as [p' h']. cbn [fst snd] in *.
    assert (p' = p) as ->.
    { rewrite (all_lit_matchb p' us HL' HM'), (all_lit_matchb p us HL HM). reflexivity. }
    rewrite (uniq_handler rs p h' h Hu Hin' Hin). reflexivity.
  - pose proof (find_none _ _ F (p, h) Hin) as Hn. unfold gL in Hn. cbn [fst] in Hn.
    rewrite HL, HM in Hn. discriminate.
Qed.
