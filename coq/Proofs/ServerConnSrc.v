(* C07, source layer: reads over a stream followed by [later] ([ext later s]) coincide with reads over
   [s] as long as they find data; and the structural relation [R] between a source and a later state
   of it (the stream is a tail of the earlier one; a take-limit that does not cut stays that way). *)
From KV Require Import Lib.Bytes Lib.Utf8 Model.Body Spec.ChunkedSpec Proofs.BodyBase Proofs.BodyBaseChunk
  Proofs.ServerConnBase.

Local Open Scope N_scope.

Definition rmap {S T} (f : S -> T) (r : rres S) : rres T :=
  match r with ROk o s => ROk o (f s) | RErr e s => RErr e (f s) end.
Definition rst {S} (r : rres S) : S := match r with ROk _ s => s | RErr _ s => s end.

Section Sim.
Variable later : list bytes.

Lemma inner_read_ext k l sg out l' sg' : inner_read k l sg = (out, l', sg') -> out <> [] ->
  inner_read k l (sg ++ later) = (out, l', sg' ++ later).
Proof.
  unfold inner_read. destruct l as [|x l].
  - destruct (stream_read k sg) as [o s2] eqn:E. intros H Hne. inversion H. subst.
    rewrite (stream_read_ext k later sg out sg' E Hne). reflexivity.
  - intros H _. inversion H. reflexivity.
Qed.

Lemma take_read_ext k s out l' sg' tk : take_read k s = (out, l', sg', tk) -> out <> [] ->
  take_read k (ext later s) = (out, l', sg' ++ later, tk).
Proof.
  unfold take_read. change (stake (ext later s)) with (stake s). change (lo (ext later s)) with (lo s).
  change (segs (ext later s)) with (segs s ++ later). destruct (stake s) as [lim|].
  - destruct (N.eqb lim 0).
    + intros H Hne. inversion H. subst. congruence.
    + destruct (inner_read (N.min k lim) (lo s) (segs s)) as [[o l1] sg1] eqn:E. intros H Hne. inversion H. subst.
      rewrite (inner_read_ext _ _ _ _ _ _ E Hne). reflexivity.
  - destruct (inner_read k (lo s) (segs s)) as [[o l1] sg1] eqn:E. intros H Hne. inversion H. subst.
    rewrite (inner_read_ext _ _ _ _ _ _ E Hne). reflexivity.
Qed.

Lemma fill_buf_ext s : bbuf (fill_buf s) <> [] -> fill_buf (ext later s) = ext later (fill_buf s).
Proof.
  unfold fill_buf. change (bbuf (ext later s)) with (bbuf s). destruct (bbuf s) as [|x b] eqn:Eb.
  - destruct (take_read BUF_SIZE s) as [[[out l'] sg'] tk] eqn:E. cbn [bbuf]. intros Hne.
    rewrite (take_read_ext _ _ _ _ _ _ E Hne). reflexivity.
  - intros _. reflexivity.
Qed.

Lemma buf_read_ext k s out s' : buf_read k s = (out, s') -> out <> [] ->
  buf_read k (ext later s) = (out, ext later s').
Proof.
  unfold buf_read. change (bbuf (ext later s)) with (bbuf s). destruct (bbuf s) as [|x b] eqn:Eb.
  - destruct (N.leb BUF_SIZE k).
    + destruct (take_read k s) as [[[o l'] sg'] tk] eqn:E. intros H Hne. inversion H. subst.
      rewrite (take_read_ext _ _ _ _ _ _ E Hne). reflexivity.
    + intros H Hne. injection H as H1 H2. subst out s'.
      assert (Hb : bbuf (fill_buf s) <> []).
      { intro C. rewrite C in Hne. apply Hne. reflexivity. }
      rewrite (fill_buf_ext s Hb). reflexivity.
  - intros H _. inversion H. subst. unfold consume, ext. cbn [bbuf lo segs sfuel stake]. rewrite Eb. reflexivity.
Qed.

Lemma read_exact_loop_ext fuel : forall n s acc x s', read_exact_loop fuel n s acc = Some (x, s') ->
  read_exact_loop fuel n (ext later s) acc = Some (x, ext later s').
Proof.
  induction fuel as [|fuel IH]; intros n s acc x s' H; cbn [read_exact_loop] in *.
  - destruct (N.eqb n 0); [inversion H; reflexivity | discriminate].
  - destruct (N.eqb n 0); [inversion H; reflexivity|].
    destruct (buf_read n s) as [out s1] eqn:E. destruct out as [|o out]; [discriminate|].
    rewrite (buf_read_ext _ _ _ _ E) by discriminate. apply IH. exact H.
Qed.

Lemma read_exact_ext n s x s' : read_exact n s = Some (x, s') ->
  read_exact n (ext later s) = Some (x, ext later s').
Proof.
  unfold read_exact. change (bbuf (ext later s)) with (bbuf s).
  destruct (N.leb n (lenN (firstnN n (bbuf s)))).
  - intros H. inversion H. reflexivity.
  - apply read_exact_loop_ext.
Qed.

Lemma read_until_lf_ext fuel : forall s acc, to_lf (reach s) <> None -> (length (reach s) < fuel)%nat ->
  read_until_lf fuel (ext later s) acc =
  (fst (read_until_lf fuel s acc), ext later (snd (read_until_lf fuel s acc))).
Proof.
  induction fuel as [|fuel IH]; intros s acc Hlf Hf; [lia|]. cbn [read_until_lf].
  destruct (fill_buf_spec s) as [F1 [F2 F3]].
  assert (Hne : bbuf (fill_buf s) <> []). { intro C. apply Hlf. rewrite (F3 C). reflexivity. }
  rewrite (fill_buf_ext s Hne). change (bbuf (ext later (fill_buf s))) with (bbuf (fill_buf s)).
  remember (fill_buf s) as s1 eqn:Es1.
  destruct (find_index (Byte.eqb x0a) (bbuf s1)) as [i|] eqn:Efi; [reflexivity|].
  apply find_index_lf_none in Efi.
  destruct (bbuf s1) as [|x b] eqn:Eb; [congruence|].
  destruct (consume_prefix s1 (x :: b) [] ltac:(rewrite app_nil_r; exact Eb)) as [C1 C2].
  change (consume (lenN (x :: b)) (ext later s1)) with (ext later (consume (lenN (x :: b)) s1)).
  apply IH.
  - intro C. apply Hlf. rewrite <- F1, C1, (to_lf_app_nolf _ _ Efi), C. reflexivity.
  - rewrite <- F1, C1, app_length in Hf. cbn [length] in Hf. lia.
Qed.

Lemma read_line_ext s : Bound s -> to_lf (reach s) <> None ->
  read_line (ext later s) = (fst (read_line s), ext later (snd (read_line s))).
Proof.
  intros Hb Hlf. unfold read_line. change (sfuel (ext later s)) with (sfuel s).
  rewrite read_until_lf_ext by (assumption || apply Bound_fuel, Hb).
  destruct (read_until_lf (sfuel s) s []) as [line s']. cbn [fst snd]. destruct (utf8_valid line); reflexivity.
Qed.

(* ------------------------------------------------------------------ chunked reader *)
Definition cext (c : chunked) : chunked :=
  {| c_src := ext later (c_src c); c_state := c_state c; c_remaining := c_remaining c |}.

Lemma read_chunk_size_ext c : CB c -> to_lf (reach (c_src c)) <> None ->
  read_chunk_size (cext c) = rmap cext (read_chunk_size c).
Proof.
  intros Hb Hlf. rewrite !read_chunk_size_eq. change (c_src (cext c)) with (ext later (c_src c)).
  rewrite read_line_ext by assumption.
  destruct (read_line (c_src c)) as [r s']. cbn [fst snd]. destruct r as [line|e]; [|reflexivity].
  destruct (parse_size_line line); reflexivity.
Qed.

Lemma trailer_loop_ext fuel : forall s rest, Bound s -> dect (reach s) = Some (Some rest) ->
  trailer_loop fuel (ext later s) = (fst (trailer_loop fuel s), ext later (snd (trailer_loop fuel s))).
Proof.
  induction fuel as [|fuel IH]; intros s rest Hb Hd; [reflexivity|]. cbn [trailer_loop].
  rewrite dect_unfold in Hd. unfold dect_step in Hd.
  destruct (line_crlf (reach s)) as [[[line|] r']|] eqn:Elc; try discriminate.
  pose proof (line_crlf_some _ _ _ Elc) as Etl.
  rewrite read_line_ext; [|exact Hb|rewrite Etl; discriminate].
  destruct (read_line_spec s Hb) as [L [s' [Hrl [Hfu Hlo]]]].
  pose proof (line_of_shrink _ _ _ Hlo) as Hsplit.
  assert (Hb' : Bound s') by (apply (Bound_split s s' L); assumption).
  rewrite Hrl. cbn [fst snd]. destruct (utf8_valid L); [|reflexivity].
  destruct L as [|l0 L]; [reflexivity|].
  destruct (bytes_eqb (l0 :: L) [x0d; x0a] || bytes_eqb (l0 :: L) [x0a]) eqn:Eb; [reflexivity|].
  apply (IH s' rest Hb').
  unfold line_of in Hlo. rewrite Etl in Hlo. destruct Hlo as [HL Hrest]. rewrite Hrest.
  destruct line as [|t0 t].
  - exfalso. cbn [app] in HL. rewrite HL in Eb. cbn in Eb. discriminate.
  - destruct (forallb text_byte (t0 :: t)); [exact Hd|discriminate].
Qed.

Lemma valid_size_lf c acc p rest : c_state c = CSize -> st_dec c acc = Valid p rest ->
  to_lf (reach (c_src c)) <> None.
Proof.
  intros Est HD. unfold st_dec in HD. rewrite Est in HD. cbv zeta in HD. rewrite decU_unfold in HD.
  destruct (line_crlf (reach (c_src c))) as [[[line|] r]|] eqn:Elc.
  - rewrite (line_crlf_some _ _ _ Elc). discriminate.
  - unfold dec_step in HD. rewrite Elc in HD. discriminate.
  - destruct (dec_step_noline decU _ acc Elc) as [w Hw]. rewrite Hw in HD. discriminate.
Qed.

Lemma advance_ext fuel : forall c acc p rest, CB c -> st_dec c acc = Valid p rest ->
  advance fuel (cext c) = rmap cext (advance fuel c).
Proof.
  induction fuel as [|fuel IH]; intros c acc p rest Hb HD; [reflexivity|]. cbn [advance].
  change (c_state (cext c)) with (c_state c). destruct (c_state c) eqn:Est.
  - (* CSize *)
    rewrite read_chunk_size_ext; [|exact Hb|exact (valid_size_lf c acc p rest Est HD)].
    destruct (read_chunk_size_spec c acc Hb Est) as [HU|[[e [c' [He [w Hw]]]]|[c' [Hc' [Hd [Hb' Hst']]]]]].
    + rewrite HD in HU. discriminate.
    + rewrite HD in Hw. discriminate.
    + rewrite Hc'. cbn [rmap]. apply (IH c' acc p rest Hb'). rewrite Hd. exact HD.
  - (* CData *)
    change (c_remaining (cext c)) with (c_remaining c).
    destruct (N.eqb_spec (c_remaining c) 0) as [E0|E0]; [|reflexivity].
    apply (IH {| c_src := c_src c; c_state := CCrlf; c_remaining := 0 |} acc p rest); [exact Hb|].
    rewrite <- HD. unfold st_dec. rewrite Est. cbn [c_src c_state c_remaining]. cbv zeta.
    unfold data_res. rewrite E0, take_n_0, app_nil_r. reflexivity.
  - (* CCrlf *)
    change (c_src (cext c)) with (ext later (c_src c)).
    pose proof (read_exact_spec 2 (c_src c)) as Hre.
    assert (HD' : st_dec c acc = after_data decU (reach (c_src c)) acc) by (unfold st_dec; rewrite Est; reflexivity).
    destruct (read_exact 2 (c_src c)) as [[crlf s']|] eqn:Ere.
    + rewrite (read_exact_ext _ _ _ _ Ere). destruct Hre as [R1 [R2 R3]].
      change (c_remaining (cext c)) with (c_remaining c).
      destruct (bytes_eqb crlf [x0d; x0a]) eqn:Ecr; [|reflexivity].
      apply bytes_eqb_eq in Ecr. subst crlf.
      apply (IH {| c_src := s'; c_state := CSize; c_remaining := c_remaining c |} acc p rest).
      * unfold CB. cbn [c_src]. apply (Bound_split (c_src c) s' [x0d; x0a]); assumption.
      * rewrite <- HD, HD', R1. unfold st_dec. cbn [c_src c_state app after_data]. reflexivity.
    + exfalso. rewrite HD' in HD.
      destruct (after_data_cases decU (reach (c_src c)) acc) as [[r [E1 E2]]|[N1 [w E2]]].
      * rewrite E1, !lenN_cons in Hre. lia.
      * rewrite E2 in HD. discriminate.
  - (* CTrailer *)
    change (c_src (cext c)) with (ext later (c_src c)). change (sfuel (ext later (c_src c))) with (sfuel (c_src c)).
    change (c_remaining (cext c)) with (c_remaining c).
    assert (HD' : st_dec c acc = trailers_res (reach (c_src c)) acc (dect (reach (c_src c))))
      by (unfold st_dec; rewrite Est; reflexivity).
    pose proof (trailer_loop_spec (sfuel (c_src c)) (c_src c) Hb (proj1 (Bound_fuel _ Hb))) as Ht.
    destruct (dect (reach (c_src c))) as [[rest'|]|] eqn:Edt; try (rewrite HD' in HD; discriminate).
    rewrite (trailer_loop_ext _ _ rest' Hb Edt).
    destruct Ht as [s' [T1 [T2 T3]]]. rewrite T1. cbn [fst snd].
    apply (IH {| c_src := s'; c_state := CDone; c_remaining := c_remaining c |} acc p rest T3).
    rewrite <- HD, HD'. unfold st_dec. cbn [c_src c_state trailers_res]. rewrite T2. reflexivity.
  - reflexivity.
Qed.

Lemma chunked_loop_ext fuel : forall k c written acc p rest, 0 < k -> CB c -> st_dec c acc = Valid p rest ->
  chunked_read_loop fuel k (cext c) written = rmap cext (chunked_read_loop fuel k c written).
Proof.
  induction fuel as [|fuel IH]; intros k c written acc p rest Hk Hb HD; [reflexivity|].
  cbn [chunked_read_loop]. change (adv_fuel (cext c)) with (adv_fuel c).
  rewrite (advance_ext _ c acc p rest Hb HD).
  pose proof (advance_ok c acc Hb) as Hadv. rewrite HD in Hadv.
  assert (HU : Valid p rest <> Unspecified) by discriminate.
  destruct (step_ok_inv _ _ _ _ Hadv HU) as [[e [c' [He [w Hw]]]]|[c1 [Hc1 [Hd1 [Hb1 Hr1]]]]]; [discriminate|].
  rewrite Hc1. cbn [rmap]. change (c_state (cext c1)) with (c_state c1).
  destruct Hr1 as [Hdone|[Hdata Hrem]].
  - rewrite Hdone. reflexivity.
  - rewrite Hdata. destruct (N.eqb_spec k 0) as [Ek|Ek]; [lia|].
    change (c_remaining (cext c1)) with (c_remaining c1). change (c_src (cext c1)) with (ext later (c_src c1)).
    destruct (buf_read (N.min (c_remaining c1) k) (c_src c1)) as [out s'] eqn:Ebr.
    pose proof (buf_read_spec _ _ _ _ Ebr) as [B1 [B2 [B3 B4]]].
    destruct out as [|o out].
    + exfalso. rewrite data_eof in Hd1; [discriminate|exact Hdata|exact Hrem|].
      apply B4; [lia|reflexivity].
    + rewrite (buf_read_ext _ _ _ _ Ebr) by discriminate.
      remember (o :: out) as O eqn:EO.
      pose (c2 := {| c_src := s'; c_state := CData; c_remaining := c_remaining c1 - lenN O |}).
      assert (Hd2 : st_dec c2 (acc ++ O) = Valid p rest).
      { rewrite <- Hd1. apply data_step; [exact Hdata|reflexivity|exact B1|lia|reflexivity]. }
      assert (Hb2 : CB c2).
      { unfold CB, c2. cbn [c_src]. apply (Bound_split (c_src c1) s' O); assumption. }
      rewrite EO. rewrite <- EO. cbn [c_remaining].
      destruct ((c_remaining c1 - lenN O =? 0) || (k - lenN O =? 0)) eqn:Estop; [reflexivity|].
      apply orb_false_iff in Estop. destruct Estop as [_ Ek2]. apply N.eqb_neq in Ek2.
      apply (IH (k - lenN O) c2 (written ++ O) (acc ++ O) p rest ltac:(lia) Hb2 Hd2).
Qed.

Lemma chunked_read_ext k c acc p rest : 0 < k -> CB c -> st_dec c acc = Valid p rest ->
  chunked_read k (cext c) = rmap cext (chunked_read k c).
Proof. intros. unfold chunked_read. apply (chunked_loop_ext _ k c [] acc p rest); assumption. Qed.

(* ------------------------------------------------------------------ fixed reader *)
Definition fext (r : fixed) : fixed := {| f_src := ext later (f_src r); f_remaining := f_remaining r |}.

Lemma fixed_read_ext k r d rest : 0 < k -> take_n (f_remaining r) (reach (f_src r)) = Some (d, rest) ->
  fixed_read k (fext r) = rmap fext (fixed_read k r).
Proof.
  intros Hk Ht. rewrite !fixed_read_pos by exact Hk. change (f_remaining (fext r)) with (f_remaining r).
  change (f_src (fext r)) with (ext later (f_src r)).
  destruct (N.eqb_spec (f_remaining r) 0) as [E|E]; [reflexivity|].
  destruct (buf_read (N.min (f_remaining r) k) (f_src r)) as [out s'] eqn:Ebr.
  pose proof (buf_read_spec _ _ _ _ Ebr) as [B1 [B2 [B3 B4]]].
  destruct out as [|o out].
  - exfalso. rewrite B4 in Ht by (lia || reflexivity). rewrite take_n_nil in Ht by exact E. discriminate.
  - rewrite (buf_read_ext _ _ _ _ Ebr) by discriminate. reflexivity.
Qed.

End Sim.

(* ------------------------------------------------------------------ the structural relation *)
(* a take-limit that is not below the number of bytes behind it: the limit never cuts *)
Definition Full (s : src) : Prop :=
  match stake s with None => True | Some lim => lenN (lo s ++ concat (segs s)) <= lim end.

Lemma Full_reach s : Full s -> reach s = src_rest s.
Proof.
  unfold Full, reach, src_rest, tail3. destruct (stake s) as [lim|]; [|reflexivity].
  intros H. rewrite firstnN_all by exact H. reflexivity.
Qed.

Lemma Full_reach_nil s : Full s -> reach s = [] -> concat (segs s) = [].
Proof.
  intros Hf Hr. rewrite (Full_reach s Hf) in Hr. unfold src_rest in Hr.
  apply app_eq_nil in Hr. destruct Hr as [_ Hr]. apply app_eq_nil in Hr. apply Hr.
Qed.

Definition R0 (s s' : src) : Prop := TailOf (segs s) (segs s') /\ (Full s -> Full s').

Lemma R0_refl s : R0 s s.
Proof. split; [apply TailOf_refl|exact (fun H => H)]. Qed.

Lemma R0_trans a b c : R0 a b -> R0 b c -> R0 a c.
Proof. intros [H1 H2] [H3 H4]. split; [exact (TailOf_trans _ _ _ H1 H3)|exact (fun H => H4 (H2 H))]. Qed.

(* R0 looks at lo, segs and stake only *)
Lemma R0_same a b b' : lo b' = lo b -> segs b' = segs b -> stake b' = stake b -> R0 a b -> R0 a b'.
Proof. intros E1 E2 E3 [H1 H2]. unfold R0, Full. rewrite E1, E2, E3. split; assumption. Qed.

Lemma inner_read_tail k l sg out l' sg' : inner_read k l sg = (out, l', sg') -> TailOf sg sg'.
Proof.
  unfold inner_read. destruct l as [|x l].
  - destruct (stream_read k sg) as [o s2] eqn:E. intros H. inversion H. subst.
    exact (stream_read_tail k sg sg out sg' (TailOf_refl sg) E).
  - intros H. inversion H. apply TailOf_refl.
Qed.

Lemma take_read_R0 k s out l' sg' tk b f : take_read k s = (out, l', sg', tk) ->
  R0 s {| bbuf := b; lo := l'; segs := sg'; sfuel := f; stake := tk |}.
Proof.
  unfold take_read, R0, Full. cbn [lo segs stake]. destruct (stake s) as [lim|].
  - destruct (N.eqb_spec lim 0) as [E0|E0].
    + intros H. inversion H. subst. split; [apply TailOf_refl|exact (fun H => H)].
    + destruct (inner_read (N.min k lim) (lo s) (segs s)) as [[o l1] sg1] eqn:E. intros H. inversion H. subst.
      split; [exact (inner_read_tail _ _ _ _ _ _ E)|].
      apply inner_read_spec in E. destruct E as [E1 [E2 _]]. intros Hf.
      rewrite E1, lenN_app in Hf. lia.
  - destruct (inner_read k (lo s) (segs s)) as [[o l1] sg1] eqn:E. intros H. inversion H. subst.
    split; [exact (inner_read_tail _ _ _ _ _ _ E)|exact (fun H => H)].
Qed.

Lemma fill_buf_R0 s : R0 s (fill_buf s).
Proof.
  unfold fill_buf. destruct (bbuf s); [|apply R0_refl].
  destruct (take_read BUF_SIZE s) as [[[out l'] sg'] tk] eqn:E. exact (take_read_R0 _ _ _ _ _ _ _ _ E).
Qed.

Lemma consume_R0 n s : R0 s (consume n s).
Proof. apply (R0_same s s); try reflexivity. apply R0_refl. Qed.

Lemma buf_read_R0 k s out s' : buf_read k s = (out, s') -> R0 s s'.
Proof.
  unfold buf_read. destruct (bbuf s).
  - destruct (N.leb BUF_SIZE k).
    + destruct (take_read k s) as [[[o l'] sg'] tk] eqn:E. intros H. inversion H. subst.
      exact (take_read_R0 _ _ _ _ _ _ _ _ E).
    + intros H. inversion H. subst. exact (R0_trans _ _ _ (fill_buf_R0 s) (consume_R0 k _)).
  - intros H. inversion H. apply consume_R0.
Qed.

(* the relation threaded through all layers: R0, and nothing becomes reachable that was not *)
Definition R (s s' : src) : Prop := R0 s s' /\ (length (reach s') <= length (reach s))%nat.

Lemma R_refl s : R s s.
Proof. split; [apply R0_refl|lia]. Qed.

Lemma R_trans a b c : R a b -> R b c -> R a c.
Proof. intros [H1 H2] [H3 H4]. split; [exact (R0_trans _ _ _ H1 H3)|lia]. Qed.

Lemma fill_buf_R s : R s (fill_buf s).
Proof. split; [apply fill_buf_R0|rewrite fill_buf_rest; lia]. Qed.

Lemma consume_R n s : R s (consume n s).
Proof.
  split; [apply consume_R0|]. destruct (consume_firstnN s n) as [C _].
  apply (f_equal (@length byte)) in C. rewrite app_length in C. lia.
Qed.

Lemma buf_read_R k s out s' : buf_read k s = (out, s') -> R s s'.
Proof.
  intros H. split; [exact (buf_read_R0 _ _ _ _ H)|].
  apply buf_read_spec in H. destruct H as [B1 _]. rewrite B1, app_length. lia.
Qed.

Lemma read_exact_loop_R fuel : forall n s acc x s', read_exact_loop fuel n s acc = Some (x, s') -> R s s'.
Proof.
  induction fuel as [|fuel IH]; intros n s acc x s' H; cbn [read_exact_loop] in H.
  - destruct (N.eqb n 0); [inversion H; apply R_refl | discriminate].
  - destruct (N.eqb n 0); [inversion H; apply R_refl|].
    destruct (buf_read n s) as [out s1] eqn:E. destruct out as [|o out]; [discriminate|].
    exact (R_trans _ _ _ (buf_read_R _ _ _ _ E) (IH _ _ _ _ _ H)).
Qed.

Lemma read_exact_R n s x s' : read_exact n s = Some (x, s') -> R s s'.
Proof.
  unfold read_exact. destruct (N.leb n (lenN (firstnN n (bbuf s)))).
  - intros H. inversion H. apply consume_R.
  - apply read_exact_loop_R.
Qed.

Lemma read_until_lf_R fuel : forall s acc, R s (snd (read_until_lf fuel s acc)).
Proof.
  induction fuel as [|fuel IH]; intros s acc; [apply R_refl|]. cbn [read_until_lf].
  destruct (find_index (Byte.eqb x0a) (bbuf (fill_buf s))).
  - cbn [snd]. exact (R_trans _ _ _ (fill_buf_R s) (consume_R _ _)).
  - destruct (bbuf (fill_buf s)); [apply fill_buf_R|].
    exact (R_trans _ _ _ (R_trans _ _ _ (fill_buf_R s) (consume_R _ _)) (IH _ _)).
Qed.

Lemma read_line_R s : R s (snd (read_line s)).
Proof.
  unfold read_line. pose proof (read_until_lf_R (sfuel s) s []) as H.
  destruct (read_until_lf (sfuel s) s []) as [line s']. destruct (utf8_valid line); exact H.
Qed.

Lemma read_chunk_size_R c : R (c_src c) (c_src (rst (read_chunk_size c))).
Proof.
  rewrite read_chunk_size_eq. pose proof (read_line_R (c_src c)) as H.
  destruct (read_line (c_src c)) as [r s']. cbn [snd] in H. destruct r as [line|e]; [|exact H].
  destruct (parse_size_line line); exact H.
Qed.

Lemma trailer_loop_R fuel : forall s, R s (snd (trailer_loop fuel s)).
Proof.
  induction fuel as [|fuel IH]; intros s; [apply R_refl|]. cbn [trailer_loop].
  pose proof (read_line_R s) as H. destruct (read_line s) as [r s']. cbn [snd] in H.
  destruct r as [line|e]; [|exact H]. destruct line as [|l0 line]; [exact H|].
  destruct (bytes_eqb (l0 :: line) [x0d; x0a] || bytes_eqb (l0 :: line) [x0a]); [exact H|].
  exact (R_trans _ _ _ H (IH s')).
Qed.

Lemma advance_R fuel : forall c, R (c_src c) (c_src (rst (advance fuel c))).
Proof.
  induction fuel as [|fuel IH]; intros c; [apply R_refl|]. cbn [advance].
  destruct (c_state c).
  - pose proof (read_chunk_size_R c) as H. destruct (read_chunk_size c) as [o c'|e c']; cbn [rst] in H |- *; [|exact H].
    exact (R_trans _ _ _ H (IH c')).
  - destruct (N.eqb (c_remaining c) 0); [|apply R_refl]. apply (IH {| c_src := c_src c; c_state := CCrlf; c_remaining := 0 |}).
  - destruct (read_exact 2 (c_src c)) as [[crlf s']|] eqn:E; [|apply R_refl].
    pose proof (read_exact_R _ _ _ _ E) as H.
    destruct (bytes_eqb crlf [x0d; x0a]); [|exact H].
    exact (R_trans _ _ _ H (IH {| c_src := s'; c_state := CSize; c_remaining := c_remaining c |})).
  - pose proof (trailer_loop_R (sfuel (c_src c)) (c_src c)) as H.
    destruct (trailer_loop (sfuel (c_src c)) (c_src c)) as [[e|] s']; cbn [snd] in H; [exact H|].
    exact (R_trans _ _ _ H (IH {| c_src := s'; c_state := CDone; c_remaining := c_remaining c |})).
  - apply R_refl.
Qed.

Lemma chunked_loop_R fuel : forall k c written, R (c_src c) (c_src (rst (chunked_read_loop fuel k c written))).
Proof.
  induction fuel as [|fuel IH]; intros k c written; [apply R_refl|]. cbn [chunked_read_loop].
  pose proof (advance_R (adv_fuel c) c) as H.
  destruct (advance (adv_fuel c) c) as [o c1|e c1]; cbn [rst] in H |- *; [|exact H].
  destruct (c_state c1); try exact H.
  - destruct (N.eqb k 0); [exact H|].
    destruct (buf_read (N.min (c_remaining c1) k) (c_src c1)) as [out s'] eqn:E.
    pose proof (R_trans _ _ _ H (buf_read_R _ _ _ _ E)) as H2.
    destruct out as [|o1 out]; [exact H2|]. cbn [c_remaining].
    destruct ((c_remaining c1 - lenN (o1 :: out) =? 0) || (k - lenN (o1 :: out) =? 0)); [exact H2|].
    refine (R_trans _ _ _ H2 _).
    exact (IH _ {| c_src := s'; c_state := _; c_remaining := _ |} _).
  - destruct (N.eqb k 0); [exact H|].
    destruct (buf_read (N.min (c_remaining c1) k) (c_src c1)) as [out s'] eqn:E.
    pose proof (R_trans _ _ _ H (buf_read_R _ _ _ _ E)) as H2.
    destruct out as [|o1 out]; [exact H2|]. cbn [c_remaining].
    destruct ((c_remaining c1 - lenN (o1 :: out) =? 0) || (k - lenN (o1 :: out) =? 0)); [exact H2|].
    refine (R_trans _ _ _ H2 _).
    exact (IH _ {| c_src := s'; c_state := _; c_remaining := _ |} _).
  - destruct (N.eqb k 0); [exact H|].
    destruct (buf_read (N.min (c_remaining c1) k) (c_src c1)) as [out s'] eqn:E.
    pose proof (R_trans _ _ _ H (buf_read_R _ _ _ _ E)) as H2.
    destruct out as [|o1 out]; [exact H2|]. cbn [c_remaining].
    destruct ((c_remaining c1 - lenN (o1 :: out) =? 0) || (k - lenN (o1 :: out) =? 0)); [exact H2|].
    refine (R_trans _ _ _ H2 _).
    exact (IH _ {| c_src := s'; c_state := _; c_remaining := _ |} _).
  - destruct (N.eqb k 0); [exact H|].
    destruct (buf_read (N.min (c_remaining c1) k) (c_src c1)) as [out s'] eqn:E.
    pose proof (R_trans _ _ _ H (buf_read_R _ _ _ _ E)) as H2.
    destruct out as [|o1 out]; [exact H2|]. cbn [c_remaining].
    destruct ((c_remaining c1 - lenN (o1 :: out) =? 0) || (k - lenN (o1 :: out) =? 0)); [exact H2|].
    refine (R_trans _ _ _ H2 _).
    exact (IH _ {| c_src := s'; c_state := _; c_remaining := _ |} _).
Qed.

Lemma chunked_read_R k c : R (c_src c) (c_src (rst (chunked_read k c))).
Proof. apply chunked_loop_R. Qed.

Lemma fixed_read_R k r : R (f_src r) (f_src (rst (fixed_read k r))).
Proof.
  unfold fixed_read. destruct (N.eqb (f_remaining r) 0 || N.eqb k 0)%bool; [apply R_refl|].
  destruct (buf_read (N.min (f_remaining r) k) (f_src r)) as [out s'] eqn:E.
  pose proof (buf_read_R _ _ _ _ E) as H. destruct out; exact H.
Qed.

Lemma body_read_R k b : R (body_src b) (body_src (rst (body_read k b))).
Proof.
  destruct b as [r|c|s|s]; cbn [body_read body_src].
  - pose proof (fixed_read_R k r) as H. destruct (fixed_read k r); exact H.
  - pose proof (chunked_read_R k c) as H. destruct (chunked_read k c); exact H.
  - destruct (buf_read k s) as [out s'] eqn:E. exact (buf_read_R _ _ _ _ E).
  - apply R_refl.
Qed.
