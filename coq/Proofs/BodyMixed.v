(* C06, mixed use of the Read and BufRead faces of the body reader (driver: Model/BodyOps.v).
   Every reader state reached by an arbitrary interleaving of read / fill_buf / consume keeps an
   abstract position [pos] in the strict recogniser's run (Spec/ChunkedSpec.v) relative to the bytes
   delivered so far; the theorems on traces follow from four per-operation lemmas over [pos]. *)
From KV Require Import Lib.Bytes Lib.Utf8 Model.Body Model.BodyOps Spec.ChunkedSpec
  Proofs.BodyBase Proofs.BodyBaseChunk Proofs.BodyRead Proofs.BodyBufRead.

Local Open Scope N_scope.

(* ------------------------------------------------------------------ counted lists *)
Lemma lenN_firstnN_eq n l : n <= lenN l -> lenN (firstnN n l) = n.
Proof.
  revert n. induction l as [|x r IH]; intros n Hn.
  - rewrite lenN_nil in Hn. assert (E : n = 0) by lia. subst n. reflexivity.
  - destruct (N.eq_dec n 0) as [E|E].
    + subst n. rewrite firstnN_0. reflexivity.
    + rewrite lenN_cons in Hn. rewrite firstnN_cons by exact E. rewrite lenN_cons, IH by lia. lia.
Qed.

Lemma lenN_split n l : lenN l = lenN (firstnN n l) + lenN (skipnN n l).
Proof. rewrite <- lenN_app, firstnN_skipnN. reflexivity. Qed.

Lemma firstnN_min a l : firstnN (N.min a (lenN l)) l = firstnN a l.
Proof.
  destruct (N.le_ge_cases a (lenN l)) as [H|H].
  - rewrite N.min_l by exact H. reflexivity.
  - rewrite N.min_r by exact H. rewrite !firstnN_all by lia. reflexivity.
Qed.

Lemma lenN_firstnN_min a l : lenN (firstnN a l) = N.min a (lenN l).
Proof.
  destruct (N.le_ge_cases a (lenN l)) as [H|H].
  - rewrite N.min_l by exact H. apply lenN_firstnN_eq. exact H.
  - rewrite N.min_r by exact H. rewrite firstnN_all by lia. reflexivity.
Qed.

Lemma take_n_short n : forall l, lenN l < n -> take_n n l = None.
Proof.
  induction n as [|n IH] using N.peano_ind; intros l H; [lia|].
  destruct l as [|b r].
  - apply take_n_nil. lia.
  - rewrite lenN_cons in H. rewrite take_n_cons by lia. rewrite N.pred_succ, IH by lia. reflexivity.
Qed.

Lemma app_self_nil (p a q : bytes) : p = (p ++ a) ++ q -> a = [].
Proof.
  intros H. apply (f_equal (@length byte)) in H. rewrite !app_length in H.
  destruct a; [reflexivity|]. cbn [length] in H. lia.
Qed.

Lemma app_self_nil2 (p a q : bytes) : p = (p ++ a) ++ q -> a = [] /\ q = [].
Proof.
  intros H. apply (f_equal (@length byte)) in H. rewrite !app_length in H.
  destruct a; [|cbn [length] in H; lia]. destruct q; [|cbn [length] in H; lia]. split; reflexivity.
Qed.

(* ------------------------------------------------------------------ the abstract position *)
Definition fx_dec (r : fixed) (acc : bytes) : dres :=
  match take_n (f_remaining r) (reach (f_src r)) with
  | Some (d, a) => Valid (acc ++ d) a
  | None => Invalid Truncated
  end.

(* where the reader stands in the recogniser's run, given the bytes [acc] delivered so far *)
Definition pos (b : body) (acc : bytes) : dres :=
  match b with
  | BFixed r => fx_dec r acc
  | BChunked c => st_dec c acc
  | _ => Unspecified
  end.

(* the slice still visible to the caller is a prefix of the BufReader's buffer, within the chunk / body *)
Definition shown_ok (s : src) (rem : N) (shown : bytes) : Prop :=
  lenN shown <= rem /\ exists t, bbuf s = shown ++ t.

Definition binv (b : body) (shown : bytes) : Prop :=
  match b with
  | BFixed r => shown_ok (f_src r) (f_remaining r) shown
  | BChunked c => CB c /\ (shown = [] \/ (c_state c = CData /\ shown_ok (c_src c) (c_remaining c) shown))
  | _ => False
  end.

Lemma shown_ok_nil s rem : shown_ok s rem [].
Proof. split; [rewrite lenN_nil; lia|]. exists (bbuf s). reflexivity. Qed.

Lemma shown_ok_consume s rem shown n : n <= lenN shown -> shown_ok s rem shown ->
  reach s = firstnN n shown ++ reach (consume n s) /\ sfuel (consume n s) = sfuel s /\
  lenN (firstnN n shown) = n /\ n <= rem /\ shown_ok (consume n s) (rem - n) (skipnN n shown).
Proof.
  intros Hn [Hle [t Ht]].
  pose proof (lenN_firstnN_eq n shown Hn) as Hlen.
  assert (Hb : bbuf s = firstnN n shown ++ (skipnN n shown ++ t)).
  { rewrite app_assoc, firstnN_skipnN. exact Ht. }
  destruct (consume_prefix s _ _ Hb) as [C1 C2]. rewrite Hlen in C1, C2.
  split; [exact C1|]. split; [exact C2|]. split; [exact Hlen|]. split; [lia|]. split.
  - pose proof (lenN_split n shown) as Hs. lia.
  - exists t. unfold consume. cbn [bbuf]. rewrite Hb.
    pose proof (skipnN_app_len (firstnN n shown) (skipnN n shown ++ t)) as H. rewrite Hlen in H. exact H.
Qed.

Lemma fx_dec_prefix r acc p rest : fx_dec r acc = Valid p rest -> exists q, p = acc ++ q.
Proof.
  unfold fx_dec. destruct (take_n (f_remaining r) (reach (f_src r))) as [[d a]|]; [|discriminate].
  intros H. inversion H. exists d. reflexivity.
Qed.

Lemma pos_prefix b acc p rest : pos b acc = Valid p rest -> exists q, p = acc ++ q.
Proof.
  destruct b as [r|c|s|s]; cbn [pos]; intros H; try discriminate.
  - exact (fx_dec_prefix _ _ _ _ H).
  - exact (st_dec_prefix _ _ _ _ H).
Qed.

Lemma st_dec_ext c c' acc : reach (c_src c') = reach (c_src c) -> c_state c' = c_state c ->
  c_remaining c' = c_remaining c -> st_dec c' acc = st_dec c acc.
Proof. unfold st_dec. intros -> -> ->. reflexivity. Qed.

(* ------------------------------------------------------------------ read, non-empty buffer *)
Lemma step_read b shown acc D k : 0 < k -> binv b shown -> pos b acc = D -> D <> Unspecified ->
  (exists e b', body_read k b = RErr e b' /\ exists w, D = Invalid w) \/
  (exists out b', body_read k b = ROk out b' /\ pos b' (acc ++ out) = D /\ binv b' [] /\
                  (out = [] -> exists rest, D = Valid acc rest)).
Proof.
  intros Hk Hi HD HU. subst D. destruct b as [r|c|s|s]; cbn [binv] in Hi; try contradiction.
  - (* fixed *)
    cbn [body_read pos] in *. rewrite (fixed_read_pos k r Hk).
    destruct (N.eqb_spec (f_remaining r) 0) as [E|E].
    + right. exists [], (BFixed r). cbn [lift]. split; [reflexivity|]. rewrite app_nil_r.
      split; [reflexivity|]. split; [apply shown_ok_nil|]. intros _.
      unfold fx_dec. rewrite E, take_n_0, app_nil_r. eexists. reflexivity.
    + destruct (buf_read (N.min (f_remaining r) k) (f_src r)) as [out s'] eqn:Ebr.
      apply buf_read_spec in Ebr. destruct Ebr as [B1 [B2 [B3 B4]]].
      destruct out as [|o out].
      * left. cbn [lift]. eexists. eexists. split; [reflexivity|]. exists Truncated.
        unfold fx_dec. rewrite B4 by (lia || reflexivity). rewrite take_n_nil by exact E. reflexivity.
      * right. remember (o :: out) as O eqn:EO.
        exists O, (BFixed {| f_src := s'; f_remaining := f_remaining r - lenN O |}).
        split; [subst O; reflexivity|]. split.
        -- cbn [pos]. unfold fx_dec. cbn [f_src f_remaining]. rewrite B1, (take_n_app O) by lia.
           destruct (take_n (f_remaining r - lenN O) (reach s')) as [[d a]|]; [|reflexivity].
           rewrite <- app_assoc. reflexivity.
        -- split; [apply shown_ok_nil|]. intros HO. subst O. discriminate.
  - (* chunked *)
    destruct Hi as [Hb _]. cbn [body_read pos] in *.
    destruct (chunked_read_spec k c acc _ Hk Hb eq_refl HU)
      as [[e [c' [He Hw]]]|[out [c' [Ho [Hd' [Hb' Hnil]]]]]].
    + left. rewrite He. cbn [lift]. eexists. eexists. split; [reflexivity|exact Hw].
    + right. rewrite Ho. cbn [lift]. exists out, (BChunked c'). split; [reflexivity|].
      cbn [pos binv]. split; [exact Hd'|]. split; [split; [exact Hb'|left; reflexivity]|].
      intros HO. subst out. rewrite app_nil_r in Hd'.
      rewrite (done_dec c' acc (Hnil eq_refl)) in Hd'. eexists. symmetry. exact Hd'.
Qed.

(* ------------------------------------------------------------------ read, empty buffer *)
Lemma chunked_read0_spec c acc D : CB c -> st_dec c acc = D -> D <> Unspecified ->
  (exists e c', chunked_read 0 c = RErr e c' /\ exists w, D = Invalid w) \/
  (exists c', chunked_read 0 c = ROk [] c' /\ st_dec c' acc = D /\ CB c').
Proof.
  intros Hb HD HU. unfold chunked_read.
  pose proof (Bound_fuel _ Hb) as [_ H12].
  destruct (sfuel (c_src c)) as [|fuel] eqn:Ef; [lia|].
  cbn [chunked_read_loop].
  pose proof (advance_ok c acc Hb) as Hadv. rewrite HD in Hadv.
  destruct (step_ok_inv _ _ _ _ Hadv HU) as [[e [c' [He Hw]]]|[c1 [Hc1 [Hd1 [Hb1 Hr1]]]]].
  - left. rewrite He. exists e, c'. split; [reflexivity|exact Hw].
  - right. rewrite Hc1. exists c1. split; [|split; assumption].
    destruct (c_state c1); reflexivity.
Qed.

Lemma step_read0 b shown acc D : binv b shown -> pos b acc = D -> D <> Unspecified ->
  (exists e b', body_read 0 b = RErr e b' /\ exists w, D = Invalid w) \/
  (exists b', body_read 0 b = ROk [] b' /\ pos b' acc = D /\ binv b' []).
Proof.
  intros Hi HD HU. subst D. destruct b as [r|c|s|s]; cbn [binv] in Hi; try contradiction.
  - (* fixed (fix F38): nothing read, nothing reported, state untouched *)
    right. exists (BFixed r). cbn [body_read]. rewrite fixed_read_0. cbn [lift].
    split; [reflexivity|]. split; [reflexivity|apply shown_ok_nil].
  - destruct Hi as [Hb _]. cbn [body_read pos] in *.
    destruct (chunked_read0_spec c acc _ Hb eq_refl HU) as [[e [c' [He Hw]]]|[c' [Ho [Hd' Hb']]]].
    + left. rewrite He. cbn [lift]. eexists. eexists. split; [reflexivity|exact Hw].
    + right. rewrite Ho. cbn [lift]. exists (BChunked c'). split; [reflexivity|].
      cbn [pos binv]. split; [exact Hd'|]. split; [exact Hb'|left; reflexivity].
Qed.

(* ------------------------------------------------------------------ fill_buf *)
Lemma step_fill b shown acc D : binv b shown -> pos b acc = D -> D <> Unspecified ->
  (exists e b', body_fill_buf b = RErr e b' /\ exists w, D = Invalid w) \/
  (exists b', body_fill_buf b = ROk [] b' /\ pos b' acc = D /\ binv b' [] /\
              exists rest, D = Valid acc rest) \/
  (exists sl b', body_fill_buf b = ROk sl b' /\ sl <> [] /\ pos b' acc = D /\ binv b' sl).
Proof.
  intros Hi HD HU. subst D. destruct b as [r|c|s|s]; cbn [binv] in Hi; try contradiction.
  - cbn [body_fill_buf pos] in *.
    destruct (N.eq_dec (f_remaining r) 0) as [E|E].
    + right. left. exists (BFixed r). unfold fixed_fill_buf. rewrite E. cbn [N.eqb lift].
      split; [reflexivity|]. split; [reflexivity|]. split; [apply shown_ok_nil|].
      unfold fx_dec. rewrite E, take_n_0, app_nil_r. eexists. reflexivity.
    + destruct (fill_buf_spec (f_src r)) as [F1 [F2 F3]].
      rewrite (fixed_fill_buf_eq r E).
      destruct (bbuf (fill_buf (f_src r))) as [|x bb] eqn:Eb.
      * left. cbn [lift]. eexists. eexists. split; [reflexivity|]. exists Truncated.
        unfold fx_dec. rewrite (F3 eq_refl), take_n_nil by exact E. reflexivity.
      * right. right. cbn [lift]. eexists. eexists. split; [reflexivity|].
        split; [apply firstnN_nonempty; [lia|discriminate]|].
        cbn [pos binv]. unfold fx_dec. cbn [f_src f_remaining]. rewrite F1.
        split; [reflexivity|].
        split; [apply lenN_firstnN_le|]. exists (skipnN (f_remaining r) (x :: bb)).
        rewrite Eb, firstnN_skipnN. reflexivity.
  - destruct Hi as [Hb _]. cbn [body_fill_buf pos] in *.
    destruct (chunked_fill_buf_spec c acc _ Hb eq_refl HU)
      as [[e [c' [He Hw]]]|[[c' [Ho [Hdone [Hd' Hb']]]]|[c' [Ho [Hne [Hst [Hrem [Hd' Hb']]]]]]]].
    + left. rewrite He. cbn [lift]. eexists. eexists. split; [reflexivity|exact Hw].
    + right. left. rewrite Ho. cbn [lift]. exists (BChunked c'). split; [reflexivity|].
      cbn [pos binv]. split; [exact Hd'|]. split; [split; [exact Hb'|left; reflexivity]|].
      rewrite (done_dec c' acc Hdone) in Hd'. eexists. symmetry. exact Hd'.
    + right. right. rewrite Ho. cbn [lift]. eexists. exists (BChunked c'). split; [reflexivity|].
      split; [apply firstnN_nonempty; [lia|exact Hne]|].
      cbn [pos binv]. split; [exact Hd'|].
      split; [exact Hb'|]. right. split; [exact Hst|]. split; [apply lenN_firstnN_le|].
      exists (skipnN (c_remaining c') (bbuf (c_src c'))). rewrite firstnN_skipnN. reflexivity.
Qed.

(* ------------------------------------------------------------------ consume *)
Lemma consume_0 s : consume 0 s = s.
Proof. destruct s as [bb l sg fu tk]. unfold consume. cbn [bbuf lo segs sfuel stake]. rewrite skipnN_0. reflexivity. Qed.

Lemma step_consume b shown acc n : n <= lenN shown -> binv b shown ->
  pos (body_consume n b) (acc ++ firstnN n shown) = pos b acc /\
  binv (body_consume n b) (skipnN n shown) /\ lenN (firstnN n shown) = n.
Proof.
  intros Hn Hi. destruct b as [r|c|s|s]; cbn [binv] in Hi; try contradiction.
  - destruct (shown_ok_consume _ _ _ n Hn Hi) as [C1 [C2 [C3 [C4 C5]]]].
    cbn [body_consume pos binv]. unfold fixed_consume, fx_dec. cbn [f_src f_remaining].
    split; [|split; [exact C5|exact C3]].
    rewrite C1. rewrite (take_n_app (firstnN n shown)) by lia. rewrite C3.
    destruct (take_n (f_remaining r - n) (reach (consume n (f_src r)))) as [[d a]|]; [|reflexivity].
    rewrite <- app_assoc. reflexivity.
  - destruct Hi as [Hb [Hs|[Hst Hs]]].
    + subst shown. rewrite lenN_nil in Hn. assert (n = 0) by lia. subst n.
      cbn [body_consume pos binv firstnN skipnN]. rewrite app_nil_r.
      unfold chunked_consume. rewrite consume_0, N.sub_0_r.
      split; [apply st_dec_ext; reflexivity|]. split; [|reflexivity].
      split; [exact Hb|left; reflexivity].
    + destruct (shown_ok_consume _ _ _ n Hn Hs) as [C1 [C2 [C3 [C4 C5]]]].
      cbn [body_consume pos binv].
      split; [|split; [|exact C3]].
      * apply data_step; [exact Hst|exact Hst|exact C1|lia|].
        unfold chunked_consume. cbn [c_remaining]. rewrite C3. reflexivity.
      * split.
        -- unfold CB, chunked_consume. cbn [c_src]. exact (Bound_split _ _ _ C2 C1 Hb).
        -- right. unfold chunked_consume. cbn [c_src c_state c_remaining]. split; [exact Hst|exact C5].
Qed.

(* ------------------------------------------------------------------ traces over a valid encoding *)
Definition prefix_of (a p : bytes) : Prop := exists q, p = a ++ q.

(* what one event may be, given the bytes [acc] delivered before it *)
Definition ev_valid (p acc : bytes) (ev : mev) : Prop :=
  match ev with
  | EvRead k out => 0 < k -> (out = [] <-> acc = p)
  | EvFill sl => sl = [] <-> acc = p
  | EvConsume n taken => lenN taken = n
  | EvErr o e => False                      (* no operation fails on a valid encoding *)
  | EvMisuse n shown => lenN shown < n
  end.

Fixpoint vtrace (p acc : bytes) (evs : list mev) : Prop :=
  match evs with
  | [] => True
  | ev :: rest =>
      ev_valid p acc ev /\ prefix_of (acc ++ ev_bytes ev) p /\ vtrace p (acc ++ ev_bytes ev) rest
  end.

Lemma mrun_vtrace : forall ops b shown acc p rest,
  binv b shown -> pos b acc = Valid p rest -> vtrace p acc (mrun b shown ops).
Proof.
  induction ops as [|o ops IH]; intros b shown acc p rest Hi HD; [exact I|].
  assert (HU : Valid p rest <> Unspecified) by discriminate.
  assert (Hcons : forall n, n <= lenN shown ->
     vtrace p acc
       (EvConsume n (firstnN n shown) :: mrun (body_consume n b) (skipnN n shown) ops)).
  { intros n Hn. destruct (step_consume b shown acc n Hn Hi) as [S1 [S2 S4]].
    rewrite HD in S1. cbn [vtrace ev_valid ev_bytes].
    split; [exact S4|]. split; [exact (pos_prefix _ _ _ _ S1)|].
    exact (IH _ _ _ _ _ S2 S1). }
  destruct o as [k| |n|a]; cbn [mrun].
  - (* read *)
    destruct (N.eq_dec k 0) as [Ek|Ek].
    + subst k. destruct (step_read0 b shown acc _ Hi HD HU)
        as [[e [b' [He [w Hw]]]]|[b' [Ho [Hd' Hi']]]]; [discriminate|].
      rewrite Ho. cbn [vtrace ev_valid ev_bytes]. rewrite app_nil_r.
      split; [intros H0; lia|]. split; [exact (pos_prefix _ _ _ _ HD)|].
      exact (IH _ _ _ _ _ Hi' Hd').
    + assert (Hk : 0 < k) by lia.
      destruct (step_read b shown acc _ k Hk Hi HD HU)
        as [[e [b' [He [w Hw]]]]|[out [b' [Ho [Hd' [Hi' Hnil]]]]]]; [discriminate|].
      rewrite Ho. cbn [vtrace ev_valid ev_bytes].
      split; [|split; [exact (pos_prefix _ _ _ _ Hd')|exact (IH _ _ _ _ _ Hi' Hd')]].
      intros _. split.
      * intros HO. destruct (Hnil HO) as [r' Hr']. inversion Hr'. reflexivity.
      * intros Hp. rewrite Hp in Hd'. destruct (pos_prefix _ _ _ _ Hd') as [q Hq].
        exact (app_self_nil _ _ _ Hq).
  - (* fill_buf *)
    destruct (step_fill b shown acc _ Hi HD HU)
      as [[e [b' [He [w Hw]]]]|[[b' [Ho [Hd' [Hi' [r' Hr']]]]]|[sl [b' [Ho [Hne [Hd' Hi']]]]]]];
      [discriminate| |].
    + assert (Hp : acc = p) by (inversion Hr'; reflexivity).
      rewrite Ho. cbn [vtrace ev_valid ev_bytes]. rewrite app_nil_r.
      split; [split; intros _; [exact Hp|reflexivity]|].
      split; [exact (pos_prefix _ _ _ _ HD)|]. exact (IH _ _ _ _ _ Hi' Hd').
    + rewrite Ho. cbn [vtrace ev_valid ev_bytes]. rewrite app_nil_r.
      split; [|split; [exact (pos_prefix _ _ _ _ HD)|exact (IH _ _ _ _ _ Hi' Hd')]].
      split; [intros Hs; contradiction|]. intros Hp. exfalso.
      assert (H1 : 1 <= lenN sl) by (pose proof (lenN_pos sl Hne); lia).
      destruct (step_consume b' sl acc 1 H1 Hi') as [S1 _]. rewrite Hd', Hp in S1.
      destruct (pos_prefix _ _ _ _ S1) as [q Hq]. apply app_self_nil in Hq.
      revert Hq. apply firstnN_nonempty; [lia|exact Hne].
  - (* consume *)
    destruct (N.leb_spec n (lenN shown)) as [Hn|Hn]; [exact (Hcons n Hn)|].
    cbn [vtrace ev_valid ev_bytes]. rewrite app_nil_r.
    split; [exact Hn|]. split; [exact (pos_prefix _ _ _ _ HD)|exact I].
  - (* take *)
    cbv zeta. apply Hcons. apply N.le_min_r.
Qed.

Lemma delivered_app a b : delivered (a ++ b) = delivered a ++ delivered b.
Proof. unfold delivered. apply flat_map_app. Qed.

Lemma delivered_snoc pre ev : delivered (pre ++ [ev]) = delivered pre ++ ev_bytes ev.
Proof. rewrite delivered_app. unfold delivered at 2. cbn [flat_map]. rewrite app_nil_r. reflexivity. Qed.

Lemma vtrace_split p : forall pre acc ev post, vtrace p acc (pre ++ ev :: post) ->
  ev_valid p (acc ++ delivered pre) ev /\ prefix_of (acc ++ delivered (pre ++ [ev])) p /\
  vtrace p (acc ++ delivered (pre ++ [ev])) post.
Proof.
  induction pre as [|e pre IH]; intros acc ev post H.
  - cbn [app vtrace] in H. cbn [app delivered flat_map]. rewrite !app_nil_r. exact H.
  - cbn [app vtrace] in H. destruct H as [_ [_ H]]. specialize (IH _ _ _ H).
    rewrite <- !app_assoc in IH. exact IH.
Qed.

Lemma vtrace_prefix p : forall evs acc, prefix_of acc p -> vtrace p acc evs ->
  prefix_of (acc ++ delivered evs) p.
Proof.
  induction evs as [|ev evs IH]; intros acc Ha H.
  - cbn [delivered flat_map]. rewrite app_nil_r. exact Ha.
  - cbn [vtrace] in H. destruct H as [_ [H2 H3]]. specialize (IH _ H2 H3).
    rewrite <- app_assoc in IH. exact IH.
Qed.

Lemma vtrace_quiet p : forall evs, vtrace p p evs -> Forall quiet evs.
Proof.
  induction evs as [|ev evs IH]; intros H; [constructor|].
  cbn [vtrace] in H. destruct H as [H1 [[q Hq] H3]].
  pose proof (app_self_nil _ _ _ Hq) as Hb. rewrite Hb, app_nil_r in H3.
  constructor; [|exact (IH H3)].
  destruct ev as [k out|sl|n t|o e|n s]; cbn [quiet ev_valid ev_bytes] in *.
  - exact Hb.
  - apply H1. reflexivity.
  - exact Hb.
  - exact H1.
  - exact I.
Qed.

Lemma is_end_inv ev : is_end ev = true ->
  (exists k, 0 < k /\ ev = EvRead k []) \/ ev = EvFill [].
Proof.
  destruct ev as [k out|sl|n t|o e|n s]; cbn [is_end]; intros H; try discriminate.
  - destruct out; [|discriminate]. left. exists k. apply N.ltb_lt in H. split; [exact H|reflexivity].
  - destruct sl; [|discriminate]. right. reflexivity.
Qed.

Lemma is_end_bytes ev : is_end ev = true -> ev_bytes ev = [].
Proof. intros H. destruct (is_end_inv ev H) as [[k [_ E]]|E]; subst ev; reflexivity. Qed.

(* ------------------------------------------------------------------ the theorems, for any reader state at a valid position *)
Section Valid.
Variables (b : body) (p rest : bytes).
Hypothesis Hinv : binv b [].
Hypothesis Hpos : pos b [] = Valid p rest.

(* prefix safety, for every interleaving and at every point of it *)
Theorem mixed_safe ops pre ev post : mrun0 b ops = pre ++ ev :: post ->
  prefix_of (delivered (pre ++ [ev])) p /\
  (forall k out, ev = EvRead k out -> 0 < k -> (out = [] <-> delivered pre = p)) /\
  (forall sl, ev = EvFill sl -> (sl = [] <-> delivered pre = p)) /\
  (forall n t, ev = EvConsume n t -> lenN t = n) /\
  is_err ev = false.
Proof.
  intros Hrun. pose proof (mrun_vtrace ops b [] [] p rest Hinv Hpos) as H.
  fold (mrun0 b ops) in H. rewrite Hrun in H.
  apply vtrace_split in H. cbn [app] in H. destruct H as [H1 [H2 _]].
  split; [exact H2|]. split; [|split; [|split]].
  - intros k out E. subst ev. exact H1.
  - intros sl E. subst ev. exact H1.
  - intros n t E. subst ev. exact H1.
  - destruct ev as [k out|sl|n t|o e|n s]; try reflexivity. contradiction.
Qed.

(* once the end has been reported, nothing more is delivered and every request reports it again *)
Theorem mixed_sticky ops pre ev post : mrun0 b ops = pre ++ ev :: post -> is_end ev = true ->
  delivered pre = p /\ Forall quiet post.
Proof.
  intros Hrun Hend. pose proof (mrun_vtrace ops b [] [] p rest Hinv Hpos) as H.
  fold (mrun0 b ops) in H. rewrite Hrun in H.
  apply vtrace_split in H. cbn [app] in H. destruct H as [H1 [_ H3]].
  rewrite delivered_snoc, (is_end_bytes ev Hend), app_nil_r in H3.
  assert (Hp : delivered pre = p).
  { destruct (is_end_inv ev Hend) as [[k [Hk E]]|E]; subst ev; cbn [ev_valid] in H1.
    - apply (H1 Hk). reflexivity.
    - apply H1. reflexivity. }
  split; [exact Hp|]. rewrite Hp in H3. exact (vtrace_quiet _ _ H3).
Qed.

Lemma mixed_prefix_all ops : prefix_of (delivered (mrun0 b ops)) p.
Proof.
  pose proof (mrun_vtrace ops b [] [] p rest Hinv Hpos) as H.
  apply vtrace_prefix in H; [exact H|]. exists p. reflexivity.
Qed.

Lemma mixed_end_all ops pre ev post : mrun0 b ops = pre ++ ev :: post -> is_end ev = true ->
  delivered (mrun0 b ops) = p.
Proof.
  intros Hrun Hend. destruct (mixed_sticky ops pre ev post Hrun Hend) as [Hp _].
  destruct (mixed_prefix_all ops) as [q Hq]. rewrite Hrun in *.
  rewrite delivered_app, Hp in *. apply app_self_nil2 in Hq. destruct Hq as [Hq _].
  rewrite Hq. apply app_nil_r.
Qed.
End Valid.

(* ------------------------------------------------------------------ completeness *)
Lemma counts_bytes ev : counts ev = true -> is_end ev = false -> ev_bytes ev <> [].
Proof.
  destruct ev as [k out|sl|n t|o e|n s]; cbn [counts is_end ev_bytes]; intros H1 H2; try discriminate.
  - destruct out; [congruence|discriminate].
  - destruct sl; discriminate.
  - destruct t; discriminate.
Qed.

Lemma asks_no_end : forall evs, (forall e, In e evs -> is_end e = false) ->
  (asks evs <= length (delivered evs))%nat.
Proof.
  induction evs as [|ev evs IH]; intros H; [apply le_n|].
  assert (IH' : (asks evs <= length (delivered evs))%nat) by (apply IH; intros e He; apply H; right; exact He).
  unfold asks in *. cbn [filter delivered flat_map]. fold (delivered evs). rewrite app_length.
  destruct (counts ev) eqn:Ec; [|lia].
  pose proof (counts_bytes ev Ec (H ev (or_introl eq_refl))) as Hne.
  destruct (ev_bytes ev); [congruence|]. cbn [length]. lia.
Qed.

Lemma no_end_dec evs : (exists pre ev post, evs = pre ++ ev :: post /\ is_end ev = true) \/
  (forall e, In e evs -> is_end e = false).
Proof.
  destruct (existsb is_end evs) eqn:E.
  - left. apply existsb_exists in E. destruct E as [ev [Hin Hev]].
    apply in_split in Hin. destruct Hin as [pre [post Hs]]. exists pre, ev, post. split; assumption.
  - right. intros e He. destruct (is_end e) eqn:Ee; [|reflexivity].
    assert (Ht : existsb is_end evs = true) by (apply existsb_exists; exists e; split; assumption).
    congruence.
Qed.

Section Valid2.
Variables (b : body) (p rest : bytes).
Hypothesis Hinv : binv b [].
Hypothesis Hpos : pos b [] = Valid p rest.

(* [asks]: answered reads into a non-empty buffer, consumes of at least one byte, end-reporting
   fill_bufs.  More than |p| of them: everything was delivered and the end was reported. *)
Theorem mixed_complete ops : (length p < asks (mrun0 b ops))%nat ->
  delivered (mrun0 b ops) = p /\
  exists pre ev post, mrun0 b ops = pre ++ ev :: post /\ is_end ev = true.
Proof.
  intros Hlen. destruct (no_end_dec (mrun0 b ops)) as [[pre [ev [post [Hs He]]]]|Hno].
  - split; [exact (mixed_end_all b p rest Hinv Hpos ops pre ev post Hs He)|].
    exists pre, ev, post. split; assumption.
  - exfalso. pose proof (asks_no_end _ Hno) as H1.
    destruct (mixed_prefix_all b p rest Hinv Hpos ops) as [q Hq].
    apply (f_equal (@length byte)) in Hq. rewrite app_length in Hq. lia.
Qed.

(* no operation fails on a valid body, zero-sized reads included *)
Theorem mixed_no_error ops : forall e, In e (mrun0 b ops) -> is_err e = false.
Proof.
  intros e He. apply in_split in He. destruct He as [pre [post Hs]].
  destruct (mixed_safe b p rest Hinv Hpos ops pre _ post Hs) as [_ [_ [_ [_ H]]]]. exact H.
Qed.
End Valid2.

(* on the operations: every asking operation of a run without error or misuse is answered *)
Lemma asking_le : forall ops b shown,
  (forall e, In e (mrun b shown ops) -> is_err e = false /\ is_misuse e = false) ->
  (asking_ops ops <= asks (mrun b shown ops))%nat.
Proof.
  induction ops as [|o ops IH]; intros b shown H; [apply le_n|].
  unfold asking_ops, asks in *. destruct o as [k| |n|a]; cbn [mrun filter asking] in *.
  - destruct (body_read k b) as [out b'|e b'].
    + assert (IH' := IH b' [] (fun e He => H e (or_intror He))).
      cbn [filter counts]. destruct (0 <? k); cbn [length]; lia.
    + destruct (H _ (or_introl eq_refl)) as [H1 _]. discriminate.
  - destruct (body_fill_buf b) as [sl b'|e b'].
    + assert (IH' := IH b' sl (fun e He => H e (or_intror He))).
      cbn [filter]. destruct (counts (EvFill sl)); cbn [length]; lia.
    + destruct (H _ (or_introl eq_refl)) as [H1 _]. discriminate.
  - destruct (N.leb_spec n (lenN shown)) as [Hn|Hn].
    + assert (IH' := IH (body_consume n b) (skipnN n shown) (fun e He => H e (or_intror He))).
      cbn [filter counts]. destruct (N.ltb_spec 0 n) as [H0|H0].
      * destruct (firstnN n shown) as [|x t] eqn:Ef; [|cbn [length]; lia].
        exfalso. revert Ef. apply firstnN_nonempty; [exact H0|]. intros Hs. subst shown.
        rewrite lenN_nil in Hn. lia.
      * destruct (firstnN n shown); cbn [length]; lia.
    + destruct (H _ (or_introl eq_refl)) as [_ H1]. discriminate.
  - cbv zeta in *.
    assert (IH' := IH _ _ (fun e He => H e (or_intror He))).
    cbn [filter]. destruct (counts (EvConsume _ _)); cbn [length]; lia.
Qed.

Theorem mixed_complete_ops b p rest ops : binv b [] -> pos b [] = Valid p rest ->
  mwf (mrun0 b ops) -> (length p < asking_ops ops)%nat ->
  delivered (mrun0 b ops) = p /\
  exists pre ev post, mrun0 b ops = pre ++ ev :: post /\ is_end ev = true.
Proof.
  intros Hi Hp Hwf Hlen. apply (mixed_complete b p rest Hi Hp).
  assert (H : (asking_ops ops <= asks (mrun0 b ops))%nat).
  { apply asking_le. intros e He. split; [exact (mixed_no_error b p rest Hi Hp ops e He)|exact (Hwf e He)]. }
  lia.
Qed.

(* ------------------------------------------------------------------ invalid encodings *)
Lemma mrun_invalid : forall ops b shown acc w, binv b shown -> pos b acc = Invalid w ->
  forall e, In e (mrun b shown ops) -> is_end e = false.
Proof.
  induction ops as [|o ops IH]; intros b shown acc w Hi HD e He; [contradiction|].
  assert (HU : Invalid w <> Unspecified) by discriminate.
  assert (Hcons : forall n, n <= lenN shown ->
     In e (EvConsume n (firstnN n shown) :: mrun (body_consume n b) (skipnN n shown) ops) ->
     is_end e = false).
  { intros n Hn [H|H]; [subst e; reflexivity|].
    destruct (step_consume b shown acc n Hn Hi) as [S1 [S2 _]]. rewrite HD in S1.
    exact (IH _ _ _ _ S2 S1 e H). }
  destruct o as [k| |n|a]; cbn [mrun] in He.
  - destruct (N.eq_dec k 0) as [Ek|Ek].
    + subst k. destruct (step_read0 b shown acc _ Hi HD HU) as [[er [b' [Hr _]]]|[b' [Ho [Hd' Hi']]]].
      * rewrite Hr in He. destruct He as [He|[]]. subst e. reflexivity.
      * rewrite Ho in He. destruct He as [He|He]; [subst e; reflexivity|].
        exact (IH _ _ _ _ Hi' Hd' e He).
    + assert (Hk : 0 < k) by lia.
      destruct (step_read b shown acc _ k Hk Hi HD HU)
        as [[er [b' [Hr _]]]|[out [b' [Ho [Hd' [Hi' Hnil]]]]]].
      * rewrite Hr in He. destruct He as [He|[]]. subst e. reflexivity.
      * rewrite Ho in He. destruct He as [He|He]; [|exact (IH _ _ _ _ Hi' Hd' e He)].
        subst e. destruct out as [|x out]; [|reflexivity].
        destruct (Hnil eq_refl) as [r' Hr']. discriminate.
  - destruct (step_fill b shown acc _ Hi HD HU)
      as [[er [b' [Hr _]]]|[[b' [Ho [_ [_ [r' Hr']]]]]|[sl [b' [Ho [Hne [Hd' Hi']]]]]]].
    + rewrite Hr in He. destruct He as [He|[]]. subst e. reflexivity.
    + discriminate.
    + rewrite Ho in He. destruct He as [He|He]; [|exact (IH _ _ _ _ Hi' Hd' e He)].
      subst e. destruct sl; [congruence|reflexivity].
  - destruct (N.leb_spec n (lenN shown)) as [Hn|Hn]; [exact (Hcons n Hn He)|].
    destruct He as [He|[]]. subst e. reflexivity.
  - cbv zeta in He. exact (Hcons _ (N.le_min_r _ _) He).
Qed.

Theorem mixed_invalid b w ops : binv b [] -> pos b [] = Invalid w ->
  forall e, In e (mrun0 b ops) -> is_end e = false.
Proof. intros Hi Hp. exact (mrun_invalid ops b [] [] w Hi Hp). Qed.

(* ------------------------------------------------------------------ a fresh reader over lo ++ concat st *)
Lemma start_chunked lo st :
  binv (new_chunked lo st) [] /\ pos (new_chunked lo st) [] = spec_decode (lo ++ concat st).
Proof.
  split.
  - cbn [new_chunked binv]. split; [apply Bound_mk|left; reflexivity].
  - reflexivity.
Qed.

Lemma start_fixed lo st n : binv (new_fixed lo st n) [] /\
  match spec_fixed n (lo ++ concat st) with
  | Valid p _ => pos (new_fixed lo st n) [] = Valid p []
  | Invalid _ => pos (new_fixed lo st n) [] = Invalid Truncated
  | Unspecified => True
  end.
Proof.
  split; [apply shown_ok_nil|].
  unfold spec_fixed, new_fixed. cbn [pos]. unfold fx_dec. cbn [f_src f_remaining]. rewrite reach_mk_take.
  destruct (take_n n (lo ++ concat st)) as [[d a]|] eqn:Et.
  - rewrite (take_n_firstnN _ _ _ _ Et). reflexivity.
  - apply take_n_none in Et. rewrite take_n_short; [reflexivity|].
    pose proof (lenN_firstnN_le_len n (lo ++ concat st)). lia.
Qed.

(* ------------------------------------------------------------------ the pure-interface drivers as special cases *)
Lemma read_all_verdict : forall sizes b shown acc,
  fst (read_all b sizes acc) = verdict acc (mrun b shown (read_ops sizes)).
Proof.
  induction sizes as [|k sizes IH]; intros b shown acc; [reflexivity|].
  cbn [read_ops map mrun read_all]. destruct (body_read k b) as [out b'|e b'].
  - destruct out as [|x out]; [reflexivity|]. cbn [verdict ev_bytes]. apply IH.
  - reflexivity.
Qed.

Lemma bufread_all_verdict : forall amts b shown acc,
  fst (bufread_all b amts acc) = verdict acc (mrun b shown (bufread_ops amts)).
Proof.
  induction amts as [|a amts IH]; intros b shown acc; [reflexivity|].
  cbn [bufread_ops flat_map app mrun bufread_all]. destruct (body_fill_buf b) as [avail b'|e b'].
  - destruct avail as [|x avail]; [reflexivity|].
    cbn [verdict ev_bytes]. rewrite app_nil_r, firstnN_min, <- lenN_firstnN_min. apply IH.
  - reflexivity.
Qed.

Lemma mrun_read_in : forall ops b shown k out, In (EvRead k out) (mrun b shown ops) -> In (MRead k) ops.
Proof.
  induction ops as [|o ops IH]; intros b shown k out H; [contradiction|].
  destruct o as [k'| |n|a]; cbn [mrun] in H.
  - destruct (body_read k' b) as [out' b'|e' b'].
    + destruct H as [H|H]; [inversion H; left; reflexivity|]. right. exact (IH _ _ _ _ H).
    + destruct H as [H|H]; [discriminate|contradiction].
  - destruct (body_fill_buf b) as [sl b'|e' b'].
    + destruct H as [H|H]; [discriminate|]. right. exact (IH _ _ _ _ H).
    + destruct H as [H|H]; [discriminate|contradiction].
  - destruct (n <=? lenN shown).
    + destruct H as [H|H]; [discriminate|]. right. exact (IH _ _ _ _ H).
    + destruct H as [H|H]; [discriminate|contradiction].
  - cbv zeta in H. destruct H as [H|H]; [discriminate|]. right. exact (IH _ _ _ _ H).
Qed.

Lemma mrun_misuse_in : forall ops b shown n s, In (EvMisuse n s) (mrun b shown ops) -> In (MConsume n) ops.
Proof.
  induction ops as [|o ops IH]; intros b shown n s H; [contradiction|].
  destruct o as [k'| |n'|a]; cbn [mrun] in H.
  - destruct (body_read k' b) as [out' b'|e' b'].
    + destruct H as [H|H]; [discriminate|]. right. exact (IH _ _ _ _ H).
    + destruct H as [H|H]; [discriminate|contradiction].
  - destruct (body_fill_buf b) as [sl b'|e' b'].
    + destruct H as [H|H]; [discriminate|]. right. exact (IH _ _ _ _ H).
    + destruct H as [H|H]; [discriminate|contradiction].
  - destruct (n' <=? lenN shown).
    + destruct H as [H|H]; [discriminate|]. right. exact (IH _ _ _ _ H).
    + destruct H as [H|H]; [inversion H; left; reflexivity|contradiction].
  - cbv zeta in H. destruct H as [H|H]; [discriminate|]. right. exact (IH _ _ _ _ H).
Qed.

Lemma verdict_valid p : forall evs acc, vtrace p acc evs ->
  (forall k out, In (EvRead k out) evs -> 0 < k) -> (forall e, In e evs -> is_err e = false) ->
  (exists e, In e evs /\ is_end e = true) -> verdict acc evs = (p, AtEof).
Proof.
  induction evs as [|ev evs IH]; intros acc H Hk Herr [e [Hin He]]; [contradiction|].
  cbn [vtrace] in H. destruct H as [H1 [_ H3]].
  assert (Hrest : is_end ev = false -> verdict (acc ++ ev_bytes ev) evs = (p, AtEof)).
  { intros Hne. apply IH; [exact H3| | |].
    - intros k out Hi. apply (Hk k out). right. exact Hi.
    - intros e' Hi. apply Herr. right. exact Hi.
    - destruct Hin as [Hin|Hin]; [subst e; congruence|]. exists e. split; assumption. }
  destruct ev as [k out|sl|n t|o er|n s]; cbn [verdict].
  - destruct out as [|x out].
    + cbn [ev_valid] in H1. assert (Hk0 : 0 < k) by (apply (Hk k []); left; reflexivity).
      rewrite (proj1 (H1 Hk0) eq_refl). reflexivity.
    + apply Hrest. reflexivity.
  - destruct sl as [|x sl].
    + cbn [ev_valid] in H1. rewrite (proj1 H1 eq_refl). reflexivity.
    + apply Hrest. reflexivity.
  - apply Hrest. reflexivity.
  - pose proof (Herr _ (or_introl eq_refl)) as Hx. discriminate.
  - apply Hrest. reflexivity.
Qed.

Lemma verdict_no_eof : forall evs acc, (forall e, In e evs -> is_end e = false) ->
  (forall k out, In (EvRead k out) evs -> 0 < k) -> snd (verdict acc evs) <> AtEof.
Proof.
  induction evs as [|ev evs IH]; intros acc H Hk; [cbn; discriminate|].
  assert (Hrest : snd (verdict (acc ++ ev_bytes ev) evs) <> AtEof).
  { apply IH; [intros e Hi; apply H; right; exact Hi|intros k out Hi; apply (Hk k out); right; exact Hi]. }
  pose proof (H ev (or_introl eq_refl)) as He.
  destruct ev as [k out|sl|n t|o er|n s]; cbn [verdict].
  - destruct out as [|x out]; [|exact Hrest]. cbn [is_end] in He.
    assert (Hk0 : 0 < k) by (apply (Hk k []); left; reflexivity). apply N.ltb_lt in Hk0. congruence.
  - destruct sl as [|x sl]; [discriminate He|exact Hrest].
  - exact Hrest.
  - cbn. discriminate.
  - exact Hrest.
Qed.

Lemma read_ops_in o sizes : In o (read_ops sizes) -> exists k, o = MRead k /\ In k sizes.
Proof.
  unfold read_ops. intros H. apply in_map_iff in H. destruct H as [k [E Hin]]. exists k. split; [symmetry; exact E|exact Hin].
Qed.

Lemma bufread_ops_in o amts : In o (bufread_ops amts) -> o = MFill \/ exists a, o = MTake a.
Proof.
  unfold bufread_ops. intros H. apply in_flat_map in H. destruct H as [a [_ [H|[H|[]]]]].
  - left. symmetry. exact H.
  - right. exists a. symmetry. exact H.
Qed.

Lemma asking_read_ops sizes : Forall (fun k => 0 < k) sizes -> asking_ops (read_ops sizes) = length sizes.
Proof.
  induction 1 as [|k sizes Hk _ IH]; [reflexivity|].
  unfold asking_ops, read_ops in *. cbn [map filter asking].
  apply N.ltb_lt in Hk. rewrite Hk. cbn [length]. rewrite IH. reflexivity.
Qed.

Lemma bufread_asks : forall amts b shown, Forall (fun a => 0 < a) amts ->
  (forall e, In e (mrun b shown (bufread_ops amts)) -> is_err e = false) ->
  (length amts <= asks (mrun b shown (bufread_ops amts)))%nat.
Proof.
  induction amts as [|a amts IH]; intros b shown Hpos Herr; [apply le_n|].
  inversion Hpos as [|a' am' Ha Hpos']. subst a' am'.
  cbn [bufread_ops flat_map app mrun] in *. destruct (body_fill_buf b) as [sl b'|e b'].
  - cbv zeta in *.
    assert (IH' := IH (body_consume (N.min a (lenN sl)) b') (skipnN (N.min a (lenN sl)) sl) Hpos'
                      (fun e He => Herr e (or_intror (or_intror He)))).
    unfold asks, bufread_ops in *. destruct sl as [|x sl].
    + cbn [filter counts]. destruct (firstnN _ _); cbn [length]; lia.
    + rewrite (firstnN_cons (N.min a (lenN (x :: sl)))) by (rewrite lenN_cons; lia).
      cbn [filter counts length]. lia.
  - pose proof (Herr _ (or_introl eq_refl)) as Hx. discriminate.
Qed.

Section Corollaries.
Variables (b : body) (p rest : bytes).
Hypothesis Hinv : binv b [].
Hypothesis Hpos : pos b [] = Valid p rest.

Corollary mixed_read_all sizes : Forall (fun k => 0 < k) sizes -> (length p < length sizes)%nat ->
  fst (read_all b sizes []) = (p, AtEof).
Proof.
  intros Hsz Hlen. rewrite (read_all_verdict sizes b [] []). fold (mrun0 b (read_ops sizes)).
  pose proof (mixed_no_error b p rest Hinv Hpos (read_ops sizes)) as Herr.
  assert (Hwf : mwf (mrun0 b (read_ops sizes))).
  { intros e He. destruct e as [k out|sl|n t|o er|n s]; try reflexivity. exfalso.
    apply mrun_misuse_in in He. apply read_ops_in in He. destruct He as [k [E _]]. discriminate. }
  destruct (mixed_complete_ops b p rest _ Hinv Hpos Hwf) as [_ [pre [ev [post [Hs He]]]]].
  { rewrite asking_read_ops by exact Hsz. exact Hlen. }
  apply (verdict_valid p).
  - exact (mrun_vtrace _ _ _ _ _ _ Hinv Hpos).
  - intros k out Hi. apply mrun_read_in in Hi. apply read_ops_in in Hi. destruct Hi as [k' [E Hin]].
    inversion E. subst k'. rewrite Forall_forall in Hsz. exact (Hsz _ Hin).
  - exact Herr.
  - exists ev. split; [|exact He]. fold (mrun0 b (read_ops sizes)). rewrite Hs. apply in_elt.
Qed.

Corollary mixed_bufread_all amts : Forall (fun a => 0 < a) amts -> (length p < length amts)%nat ->
  fst (bufread_all b amts []) = (p, AtEof).
Proof.
  intros Hsz Hlen. rewrite (bufread_all_verdict amts b [] []). fold (mrun0 b (bufread_ops amts)).
  pose proof (mixed_no_error b p rest Hinv Hpos (bufread_ops amts)) as Herr.
  destruct (mixed_complete b p rest Hinv Hpos (bufread_ops amts)) as [_ [pre [ev [post [Hs He]]]]].
  { pose proof (bufread_asks amts b [] Hsz Herr) as H. unfold mrun0. lia. }
  apply (verdict_valid p).
  - exact (mrun_vtrace _ _ _ _ _ _ Hinv Hpos).
  - intros k out Hi. exfalso. apply mrun_read_in in Hi. apply bufread_ops_in in Hi.
    destruct Hi as [H|[a H]]; discriminate.
  - exact Herr.
  - exists ev. split; [|exact He]. fold (mrun0 b (bufread_ops amts)). rewrite Hs. apply in_elt.
Qed.
End Corollaries.

Corollary mixed_read_all_invalid b w sizes : binv b [] -> pos b [] = Invalid w ->
  Forall (fun k => 0 < k) sizes -> snd (fst (read_all b sizes [])) <> AtEof.
Proof.
  intros Hi Hp Hsz. rewrite (read_all_verdict sizes b [] []). apply verdict_no_eof.
  - exact (mixed_invalid b w _ Hi Hp).
  - intros k out Hin. apply mrun_read_in in Hin. apply read_ops_in in Hin. destruct Hin as [k' [E Hin]].
    inversion E. subst k'. rewrite Forall_forall in Hsz. exact (Hsz _ Hin).
Qed.

Corollary mixed_bufread_all_invalid b w amts : binv b [] -> pos b [] = Invalid w ->
  snd (fst (bufread_all b amts [])) <> AtEof.
Proof.
  intros Hi Hp. rewrite (bufread_all_verdict amts b [] []). apply verdict_no_eof.
  - exact (mixed_invalid b w _ Hi Hp).
  - intros k out Hin. exfalso. apply mrun_read_in in Hin. apply bufread_ops_in in Hin.
    destruct Hin as [H|[a H]]; discriminate.
Qed.

(* ================================================================== a fresh reader: chunked *)
Theorem mixed_chunked_safe : forall lo st p rest ops pre ev post,
  spec_decode (lo ++ concat st) = Valid p rest ->
  mrun0 (new_chunked lo st) ops = pre ++ ev :: post ->
  prefix_of (delivered (pre ++ [ev])) p /\
  is_err ev = false /\
  (forall k out, ev = EvRead k out -> 0 < k -> (out = [] <-> delivered pre = p)) /\
  (forall sl, ev = EvFill sl -> (sl = [] <-> delivered pre = p)) /\
  (forall n t, ev = EvConsume n t -> lenN t = n).
Proof.
  intros lo st p rest ops pre ev post Hs Hrun. destruct (start_chunked lo st) as [Hi Hp]. rewrite Hs in Hp.
  destruct (mixed_safe _ _ _ Hi Hp ops pre ev post Hrun) as [H1 [H2 [H3 [H4 H5]]]].
  split; [exact H1|]. split; [exact H5|]. split; [exact H2|split; [exact H3|exact H4]].
Qed.

Theorem mixed_chunked_no_error : forall lo st p rest ops e,
  spec_decode (lo ++ concat st) = Valid p rest ->
  In e (mrun0 (new_chunked lo st) ops) -> is_err e = false.
Proof.
  intros lo st p rest ops e Hs. destruct (start_chunked lo st) as [Hi Hp]. rewrite Hs in Hp.
  exact (mixed_no_error _ _ _ Hi Hp ops e).
Qed.

Theorem mixed_chunked_sticky : forall lo st p rest ops pre ev post,
  spec_decode (lo ++ concat st) = Valid p rest ->
  mrun0 (new_chunked lo st) ops = pre ++ ev :: post -> is_end ev = true ->
  delivered pre = p /\ Forall quiet post.
Proof.
  intros lo st p rest ops pre ev post Hs. destruct (start_chunked lo st) as [Hi Hp]. rewrite Hs in Hp.
  exact (mixed_sticky _ _ _ Hi Hp ops pre ev post).
Qed.

Theorem mixed_chunked_complete : forall lo st p rest ops,
  spec_decode (lo ++ concat st) = Valid p rest ->
  (length p < asks (mrun0 (new_chunked lo st) ops))%nat ->
  delivered (mrun0 (new_chunked lo st) ops) = p /\
  exists pre ev post, mrun0 (new_chunked lo st) ops = pre ++ ev :: post /\ is_end ev = true.
Proof.
  intros lo st p rest ops Hs. destruct (start_chunked lo st) as [Hi Hp]. rewrite Hs in Hp.
  exact (mixed_complete _ _ _ Hi Hp ops).
Qed.

Theorem mixed_chunked_complete_ops : forall lo st p rest ops,
  spec_decode (lo ++ concat st) = Valid p rest ->
  mwf (mrun0 (new_chunked lo st) ops) -> (length p < asking_ops ops)%nat ->
  delivered (mrun0 (new_chunked lo st) ops) = p /\
  exists pre ev post, mrun0 (new_chunked lo st) ops = pre ++ ev :: post /\ is_end ev = true.
Proof.
  intros lo st p rest ops Hs. destruct (start_chunked lo st) as [Hi Hp]. rewrite Hs in Hp.
  exact (mixed_complete_ops _ _ _ ops Hi Hp).
Qed.

Theorem mixed_chunked_invalid : forall lo st w ops e,
  spec_decode (lo ++ concat st) = Invalid w ->
  In e (mrun0 (new_chunked lo st) ops) -> is_end e = false.
Proof.
  intros lo st w ops e Hs. destruct (start_chunked lo st) as [Hi Hp]. rewrite Hs in Hp.
  exact (mixed_invalid _ _ ops Hi Hp e).
Qed.

(* ================================================================== a fresh reader: fixed length *)
Lemma start_fixed_valid lo st n p rest : spec_fixed n (lo ++ concat st) = Valid p rest ->
  binv (new_fixed lo st n) [] /\ pos (new_fixed lo st n) [] = Valid p [].
Proof. intros Hs. destruct (start_fixed lo st n) as [Hi Hp]. rewrite Hs in Hp. split; assumption. Qed.

Lemma start_fixed_invalid lo st n w : spec_fixed n (lo ++ concat st) = Invalid w ->
  binv (new_fixed lo st n) [] /\ pos (new_fixed lo st n) [] = Invalid Truncated.
Proof. intros Hs. destruct (start_fixed lo st n) as [Hi Hp]. rewrite Hs in Hp. split; assumption. Qed.

Theorem mixed_fixed_safe : forall lo st n p rest ops pre ev post,
  spec_fixed n (lo ++ concat st) = Valid p rest ->
  mrun0 (new_fixed lo st n) ops = pre ++ ev :: post ->
  prefix_of (delivered (pre ++ [ev])) p /\
  is_err ev = false /\
  (forall k out, ev = EvRead k out -> 0 < k -> (out = [] <-> delivered pre = p)) /\
  (forall sl, ev = EvFill sl -> (sl = [] <-> delivered pre = p)) /\
  (forall n t, ev = EvConsume n t -> lenN t = n).
Proof.
  intros lo st n p rest ops pre ev post Hs Hrun. destruct (start_fixed_valid _ _ _ _ _ Hs) as [Hi Hp].
  destruct (mixed_safe _ _ _ Hi Hp ops pre ev post Hrun) as [H1 [H2 [H3 [H4 H5]]]].
  split; [exact H1|]. split; [exact H5|]. split; [exact H2|split; [exact H3|exact H4]].
Qed.

(* (fix F38) zero-sized reads included *)
Theorem mixed_fixed_no_error : forall lo st n p rest ops e,
  spec_fixed n (lo ++ concat st) = Valid p rest ->
  In e (mrun0 (new_fixed lo st n) ops) -> is_err e = false.
Proof.
  intros lo st n p rest ops e Hs. destruct (start_fixed_valid _ _ _ _ _ Hs) as [Hi Hp].
  exact (mixed_no_error _ _ _ Hi Hp ops e).
Qed.

Theorem mixed_fixed_sticky : forall lo st n p rest ops pre ev post,
  spec_fixed n (lo ++ concat st) = Valid p rest ->
  mrun0 (new_fixed lo st n) ops = pre ++ ev :: post -> is_end ev = true ->
  delivered pre = p /\ Forall quiet post.
Proof.
  intros lo st n p rest ops pre ev post Hs. destruct (start_fixed_valid _ _ _ _ _ Hs) as [Hi Hp].
  exact (mixed_sticky _ _ _ Hi Hp ops pre ev post).
Qed.

Theorem mixed_fixed_complete : forall lo st n p rest ops,
  spec_fixed n (lo ++ concat st) = Valid p rest ->
  (length p < asks (mrun0 (new_fixed lo st n) ops))%nat ->
  delivered (mrun0 (new_fixed lo st n) ops) = p /\
  exists pre ev post, mrun0 (new_fixed lo st n) ops = pre ++ ev :: post /\ is_end ev = true.
Proof.
  intros lo st n p rest ops Hs. destruct (start_fixed_valid _ _ _ _ _ Hs) as [Hi Hp].
  exact (mixed_complete _ _ _ Hi Hp ops).
Qed.

Theorem mixed_fixed_complete_ops : forall lo st n p rest ops,
  spec_fixed n (lo ++ concat st) = Valid p rest ->
  mwf (mrun0 (new_fixed lo st n) ops) -> (length p < asking_ops ops)%nat ->
  delivered (mrun0 (new_fixed lo st n) ops) = p /\
  exists pre ev post, mrun0 (new_fixed lo st n) ops = pre ++ ev :: post /\ is_end ev = true.
Proof.
  intros lo st n p rest ops Hs. destruct (start_fixed_valid _ _ _ _ _ Hs) as [Hi Hp].
  exact (mixed_complete_ops _ _ _ ops Hi Hp).
Qed.

Theorem mixed_fixed_invalid : forall lo st n w ops e,
  spec_fixed n (lo ++ concat st) = Invalid w ->
  In e (mrun0 (new_fixed lo st n) ops) -> is_end e = false.
Proof.
  intros lo st n w ops e Hs. destruct (start_fixed_invalid _ _ _ _ Hs) as [Hi Hp].
  exact (mixed_invalid _ _ ops Hi Hp e).
Qed.

(* ================================================================== the pinned pure-interface statements, re-derived *)
Corollary mixed_gives_chunked_read : forall lo st sizes p rest,
  spec_decode (lo ++ concat st) = Valid p rest -> Forall (fun k => 0 < k) sizes ->
  (length p < length sizes)%nat -> fst (read_all (new_chunked lo st) sizes []) = (p, AtEof).
Proof.
  intros lo st sizes p rest Hs. destruct (start_chunked lo st) as [Hi Hp]. rewrite Hs in Hp.
  exact (mixed_read_all _ _ _ Hi Hp sizes).
Qed.

Corollary mixed_gives_chunked_bufread : forall lo st amts p rest,
  spec_decode (lo ++ concat st) = Valid p rest -> Forall (fun k => 0 < k) amts ->
  (length p < length amts)%nat -> fst (bufread_all (new_chunked lo st) amts []) = (p, AtEof).
Proof.
  intros lo st amts p rest Hs. destruct (start_chunked lo st) as [Hi Hp]. rewrite Hs in Hp.
  exact (mixed_bufread_all _ _ _ Hi Hp amts).
Qed.

Corollary mixed_gives_fixed_read : forall lo st sizes n p rest,
  spec_fixed n (lo ++ concat st) = Valid p rest -> Forall (fun k => 0 < k) sizes ->
  (length p < length sizes)%nat -> fst (read_all (new_fixed lo st n) sizes []) = (p, AtEof).
Proof.
  intros lo st sizes n p rest Hs. destruct (start_fixed_valid _ _ _ _ _ Hs) as [Hi Hp].
  exact (mixed_read_all _ _ _ Hi Hp sizes).
Qed.

Corollary mixed_gives_fixed_bufread : forall lo st amts n p rest,
  spec_fixed n (lo ++ concat st) = Valid p rest -> Forall (fun k => 0 < k) amts ->
  (length p < length amts)%nat -> fst (bufread_all (new_fixed lo st n) amts []) = (p, AtEof).
Proof.
  intros lo st amts n p rest Hs. destruct (start_fixed_valid _ _ _ _ _ Hs) as [Hi Hp].
  exact (mixed_bufread_all _ _ _ Hi Hp amts).
Qed.

Corollary mixed_gives_chunked_read_invalid : forall lo st sizes w,
  spec_decode (lo ++ concat st) = Invalid w -> Forall (fun k => 0 < k) sizes ->
  snd (fst (read_all (new_chunked lo st) sizes [])) <> AtEof.
Proof.
  intros lo st sizes w Hs. destruct (start_chunked lo st) as [Hi Hp]. rewrite Hs in Hp.
  exact (mixed_read_all_invalid _ _ sizes Hi Hp).
Qed.

Corollary mixed_gives_chunked_bufread_invalid : forall lo st amts w,
  spec_decode (lo ++ concat st) = Invalid w ->
  snd (fst (bufread_all (new_chunked lo st) amts [])) <> AtEof.
Proof.
  intros lo st amts w Hs. destruct (start_chunked lo st) as [Hi Hp]. rewrite Hs in Hp.
  exact (mixed_bufread_all_invalid _ _ amts Hi Hp).
Qed.

Corollary mixed_gives_fixed_read_invalid : forall lo st sizes n w,
  spec_fixed n (lo ++ concat st) = Invalid w -> Forall (fun k => 0 < k) sizes ->
  snd (fst (read_all (new_fixed lo st n) sizes [])) <> AtEof.
Proof.
  intros lo st sizes n w Hs. destruct (start_fixed_invalid _ _ _ _ Hs) as [Hi Hp].
  exact (mixed_read_all_invalid _ _ sizes Hi Hp).
Qed.

Corollary mixed_gives_fixed_bufread_invalid : forall lo st amts n w,
  spec_fixed n (lo ++ concat st) = Invalid w ->
  snd (fst (bufread_all (new_fixed lo st n) amts [])) <> AtEof.
Proof.
  intros lo st amts n w Hs. destruct (start_fixed_invalid _ _ _ _ Hs) as [Hi Hp].
  exact (mixed_bufread_all_invalid _ _ amts Hi Hp).
Qed.

(* ================================================================== zero-sized reads *)
(* in any reachable state at a specified position: read(&mut []) that succeeds delivers nothing and
   keeps the position (it may move past framing bytes, never past payload) *)
Theorem mixed_read0 b shown acc D out b' : binv b shown -> pos b acc = D -> D <> Unspecified ->
  body_read 0 b = ROk out b' -> out = [] /\ pos b' acc = D /\ binv b' [].
Proof.
  intros Hi HD HU Hr.
  destruct (step_read0 b shown acc D Hi HD HU) as [[e [b1 [He _]]]|[b1 [Ho [Hd' Hi']]]].
  - rewrite He in Hr. discriminate.
  - rewrite Ho in Hr. inversion Hr. subst out b1. repeat split; assumption.
Qed.

(* in the middle of a chunk the reader is not touched at all *)
Theorem chunked_read0_midchunk c : CB c -> c_state c = CData -> c_remaining c <> 0 ->
  chunked_read 0 c = ROk [] c.
Proof.
  intros Hb Hst Hrem. unfold chunked_read.
  pose proof (Bound_fuel _ Hb) as [_ H12].
  destruct (sfuel (c_src c)) as [|fuel] eqn:Ef; [lia|]. cbn [chunked_read_loop].
  unfold adv_fuel. rewrite Ef. cbn [advance]. rewrite Hst.
  destruct (N.eqb_spec (c_remaining c) 0) as [E|E]; [contradiction|]. rewrite Hst. reflexivity.
Qed.

(* (fix F38; was [fixed_read0_no_error_refuted]) the fixed-length reader answers read(&mut []) with
   Ok(0) and is not touched at all, in EVERY state -- also while body bytes remain *)
Theorem fixed_read0_ok r : body_read 0 (BFixed r) = ROk [] (BFixed r).
Proof. cbn [body_read]. rewrite fixed_read_0. reflexivity. Qed.

Theorem fixed_read0_ok_run : forall lo st n ops,
  mrun0 (new_fixed lo st n) (MRead 0 :: ops) = EvRead 0 [] :: mrun0 (new_fixed lo st n) ops.
Proof. intros lo st n ops. unfold mrun0, new_fixed. cbn [mrun]. rewrite fixed_read0_ok. reflexivity. Qed.

(* ================================================================== refuted full-strength variants (benign) *)
Definition crlf : bytes := [x0d; x0a].

(* "a zero-sized read does not disturb the state" is FALSE at a chunk boundary: the size line is
   consumed from the source (the abstract position is kept, see [mixed_read0]) *)
Theorem chunked_read0_state_unchanged_refuted :
  exists lo b', body_read 0 (new_chunked lo []) = ROk [] b' /\
    src_rest (body_src (new_chunked lo [])) = lo /\ src_rest (body_src b') = skipn 3 lo.
Proof.
  exists (bs "5" ++ crlf ++ bs "hello" ++ crlf ++ bs "0" ++ crlf ++ crlf). eexists.
  split; [vm_compute; reflexivity|]. split; vm_compute; reflexivity.
Qed.

(* [ROk []] from a zero-sized read says nothing about the end of the body *)
Theorem read0_empty_is_not_end_refuted :
  exists lo p rest, spec_decode lo = Valid p rest /\ p <> [] /\
    mrun0 (new_chunked lo []) [MRead 0; MRead 9] = [EvRead 0 []; EvRead 9 p].
Proof.
  exists (bs "5" ++ crlf ++ bs "hello" ++ crlf ++ bs "0" ++ crlf ++ crlf), (bs "hello"), [].
  split; [vm_compute; reflexivity|]. split; [discriminate|vm_compute; reflexivity].
Qed.

(* without the consume contract nothing holds: consuming one byte more than the slice shown makes
   the next read fail on a valid body (the driver records EvMisuse and stops instead) *)
Theorem consume_beyond_slice_breaks :
  exists lo p rest sl b1, spec_decode lo = Valid p rest /\
    body_fill_buf (new_chunked lo []) = ROk sl b1 /\ sl = bs "ab" /\
    (exists b2, body_read 10 (body_consume 3 b1) = RErr EInvalidData b2) /\
    mrun0 (new_chunked lo []) [MFill; MConsume 3; MRead 10] = [EvFill (bs "ab"); EvMisuse 3 (bs "ab")].
Proof.
  exists (bs "2" ++ crlf ++ bs "ab" ++ crlf ++ bs "3" ++ crlf ++ bs "cde" ++ crlf ++ bs "0" ++ crlf ++ crlf),
         (bs "abcde"), []. eexists. eexists.
  split; [vm_compute; reflexivity|]. split; [vm_compute; reflexivity|]. split; [reflexivity|].
  split; [eexists; vm_compute; reflexivity|vm_compute; reflexivity].
Qed.

(* ================================================================== examples *)
Definition ex_body : cbody :=
  {| cb_chunks := [ {| k_size := bs "5"; k_ext := []; k_data := bs "hello" |};
                    {| k_size := bs "00B"; k_ext := bs ";x=1"; k_data := bs ", world" ++ [x0d; x0a; x30; x0d] |};
                    {| k_size := bs "3"; k_ext := bs ";last;q=""z"""; k_data := bs "!?." |} ];
     cb_zeros := bs "00"; cb_ext := bs ";done"; cb_trailers := [bs "X-T: v"; bs "Y: 2"] |}.
Definition ex_enc : bytes := enc_chunked ex_body.
(* 7 bytes of leftover, then two stream segments *)
Definition ex_reader : body := new_chunked (firstn 7 ex_enc) [firstn 9 (skipn 7 ex_enc); skipn 16 ex_enc].
Definition ex_ops : list mop :=
  [MRead 0; MRead 2; MFill; MConsume 1; MFill; MFill; MConsume 0; MRead 3; MFill; MTake 4; MRead 0;
   MRead 100; MFill; MConsume 2; MRead 1; MConsume 0; MFill; MTake 100; MRead 7; MFill; MConsume 0;
   MRead 0; MRead 5; MFill].

Example ex_wf : wf_cbody ex_body = true /\ length ex_enc = 76%nat /\
  spec_decode ex_enc = Valid (payload_of ex_body) [].
Proof. vm_compute. repeat split. Qed.

Example ex_mixed_trace : mrun0 ex_reader ex_ops =
  [EvRead 0 []; EvRead 2 (bs "he"); EvFill (bs "ll"); EvConsume 1 (bs "l"); EvFill (bs "l"); EvFill (bs "l");
   EvConsume 0 []; EvRead 3 (bs "lo"); EvFill (bs ", world" ++ [x0d; x0a; x30; x0d]); EvConsume 4 (bs ", wo");
   EvRead 0 []; EvRead 100 (bs "rld" ++ [x0d; x0a; x30; x0d]); EvFill (bs "!?."); EvConsume 2 (bs "!?");
   EvRead 1 (bs "."); EvConsume 0 []; EvFill []; EvConsume 0 []; EvRead 7 []; EvFill []; EvConsume 0 [];
   EvRead 0 []; EvRead 5 []; EvFill []].
Proof. vm_compute. reflexivity. Qed.

Example ex_mixed_delivered : delivered (mrun0 ex_reader ex_ops) = payload_of ex_body.
Proof. vm_compute. reflexivity. Qed.

(* the same body cut after 40 bytes: whatever the interleaving does, it ends in an error *)
Example ex_mixed_truncated :
  spec_decode (firstn 40 ex_enc) = Invalid Truncated /\
  mrun0 (new_chunked (firstn 7 ex_enc) [firstn 9 (skipn 7 ex_enc); firstn 24 (skipn 16 ex_enc)])
        [MRead 2; MFill; MConsume 2; MRead 0; MFill; MTake 100; MRead 100; MFill; MRead 1; MFill] =
  [EvRead 2 (bs "he"); EvFill (bs "ll"); EvConsume 2 (bs "ll"); EvRead 0 []; EvFill (bs "o"); EvConsume 1 (bs "o");
   EvRead 100 (bs ", world" ++ [x0d; x0a; x30; x0d]); EvErr MFill EUnexpectedEof].
Proof. split; vm_compute; reflexivity. Qed.

(* fixed length, zero-sized reads in the middle of the body included (fix F38) *)
Example ex_mixed_fixed :
  mrun0 (new_fixed (bs "abc") [bs "defg"; bs "hijNEXT"] 10)
        [MRead 0; MFill; MConsume 2; MRead 0; MRead 4; MFill; MTake 1; MRead 100; MRead 1; MFill; MConsume 0;
         MRead 0; MRead 9; MRead 0; MRead 3; MFill] =
  [EvRead 0 []; EvFill (bs "abc"); EvConsume 2 (bs "ab"); EvRead 0 []; EvRead 4 (bs "c"); EvFill (bs "defg");
   EvConsume 1 (bs "d"); EvRead 100 (bs "efg"); EvRead 1 (bs "h"); EvFill (bs "ij"); EvConsume 0 [];
   EvRead 0 []; EvRead 9 (bs "ij"); EvRead 0 []; EvRead 3 []; EvFill []].
Proof. vm_compute. reflexivity. Qed.

Print Assumptions mixed_chunked_safe.
Print Assumptions mixed_chunked_sticky.
Print Assumptions mixed_chunked_complete.
Print Assumptions mixed_chunked_complete_ops.
Print Assumptions mixed_chunked_invalid.
Print Assumptions mixed_fixed_safe.
Print Assumptions mixed_fixed_no_error.
Print Assumptions mixed_fixed_sticky.
Print Assumptions mixed_fixed_complete.
Print Assumptions mixed_fixed_complete_ops.
Print Assumptions mixed_fixed_invalid.
Print Assumptions mixed_gives_chunked_read.
Print Assumptions mixed_gives_chunked_bufread.
Print Assumptions mixed_gives_fixed_read.
Print Assumptions mixed_gives_fixed_bufread.
Print Assumptions mixed_read0.
Print Assumptions fixed_read0_ok.
Print Assumptions mixed_chunked_no_error.
Print Assumptions chunked_read0_state_unchanged_refuted.
