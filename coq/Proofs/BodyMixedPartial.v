(* C06, mixed use, invalid encodings: the bytes delivered before the error are a prefix of the
   longest valid payload prefix [spec_partial] (Model/BodyOps.v), whatever the interleaving; hence
   the error IS reported once the caller has asked more often than that prefix is long. *)
From KV Require Import Lib.Bytes Lib.Utf8 Model.Body Model.BodyOps Spec.ChunkedSpec
  Proofs.BodyBase Proofs.BodyBaseChunk Proofs.BodyRead Proofs.BodyBufRead Proofs.BodyMixed.

Local Open Scope N_scope.

(* ------------------------------------------------------------------ the partial payload, one step *)
Lemma part_chunks_S f l acc : part_chunks (S f) l acc = part_step (part_chunks f) l acc.
Proof. reflexivity. Qed.

Lemma part_after_crlf rec r acc : part_after rec (x0d :: x0a :: r) acc = rec r acc.
Proof. reflexivity. Qed.

Lemma part_after_ext r1 r2 after acc :
  (forall l a, (length l < length after)%nat -> r1 l a = r2 l a) ->
  part_after r1 after acc = part_after r2 after acc.
Proof.
  intros H. destruct after as [|a [|b r]]; try reflexivity. cbn [part_after].
  destruct (Byte.eqb a x0d && Byte.eqb b x0a); [|reflexivity]. apply H. cbn [length]. lia.
Qed.

Lemma part_data_ext r1 r2 n rest acc :
  (forall l a, (length l < S (length rest))%nat -> r1 l a = r2 l a) ->
  part_data r1 n rest acc = part_data r2 n rest acc.
Proof.
  intros H. unfold part_data. destruct (take_n n rest) as [[d a]|] eqn:E; [|reflexivity].
  apply take_n_some in E. destruct E as [E _]. apply part_after_ext.
  intros l a' Hl. apply H. subst rest. rewrite app_length. lia.
Qed.

Lemma part_step_ext r1 r2 l acc :
  (forall l' a, (length l' < length l)%nat -> r1 l' a = r2 l' a) ->
  part_step r1 l acc = part_step r2 l acc.
Proof.
  intros H. unfold part_step. destruct (line_crlf l) as [[[line|] rest]|] eqn:E; try reflexivity.
  apply line_crlf_shorter in E. destruct (take_while hexdig line) as [sz ext].
  destruct (nonempty sz && wf_ext ext && (hex_value sz <? 2 ^ 64) && negb (hex_value sz =? 0)); [|reflexivity].
  apply part_data_ext. intros l' a Hl. apply H. lia.
Qed.

Lemma part_chunks_fuel f1 : forall f2 l acc, (length l < f1)%nat -> (length l < f2)%nat ->
  part_chunks f1 l acc = part_chunks f2 l acc.
Proof.
  induction f1 as [|f1 IH]; intros f2 l acc H1 H2; [lia|].
  destruct f2 as [|f2]; [lia|].
  rewrite !part_chunks_S. apply part_step_ext. intros l' a Hl. apply IH; lia.
Qed.

Definition partU (l acc : bytes) : bytes := part_chunks (S (length l)) l acc.

Lemma partU_unfold l acc : partU l acc = part_step partU l acc.
Proof.
  unfold partU at 1. rewrite part_chunks_S. apply part_step_ext.
  intros l' a Hl. unfold partU. apply part_chunks_fuel; lia.
Qed.

(* the partial payload extends the accumulator *)
Definition ext_part (rec : bytes -> bytes -> bytes) : Prop := forall l a, exists q, rec l a = a ++ q.

Lemma part_after_prefix rec after acc : ext_part rec -> exists q, part_after rec after acc = acc ++ q.
Proof.
  intros Hrec. destruct after as [|a [|b r]]; try (exists []; rewrite app_nil_r; reflexivity).
  cbn [part_after]. destruct (Byte.eqb a x0d && Byte.eqb b x0a); [apply Hrec|].
  exists []. rewrite app_nil_r. reflexivity.
Qed.

Lemma part_data_prefix rec n l acc : ext_part rec -> exists q, part_data rec n l acc = acc ++ q.
Proof.
  intros Hrec. unfold part_data. destruct (take_n n l) as [[d a]|]; [|exists l; reflexivity].
  destruct (part_after_prefix rec a (acc ++ d) Hrec) as [q Hq]. exists (d ++ q).
  rewrite Hq, app_assoc. reflexivity.
Qed.

Lemma part_step_prefix rec l acc : ext_part rec -> exists q, part_step rec l acc = acc ++ q.
Proof.
  intros Hrec. unfold part_step.
  destruct (line_crlf l) as [[[line|] rest]|]; try (exists []; rewrite app_nil_r; reflexivity).
  destruct (take_while hexdig line) as [sz ext].
  destruct (nonempty sz && wf_ext ext && (hex_value sz <? 2 ^ 64) && negb (hex_value sz =? 0)).
  - apply part_data_prefix. exact Hrec.
  - exists []. rewrite app_nil_r. reflexivity.
Qed.

Lemma part_chunks_prefix f : ext_part (part_chunks f).
Proof.
  induction f as [|f IH]; intros l a; [exists []; rewrite app_nil_r; reflexivity|].
  rewrite part_chunks_S. apply part_step_prefix. exact IH.
Qed.

Lemma partU_prefix : ext_part partU.
Proof. intros l a. apply part_chunks_prefix. Qed.

(* on a valid encoding the partial payload is the payload *)
Lemma part_chunks_valid f : forall l acc p rest,
  dec_chunks f l acc = Valid p rest -> part_chunks f l acc = p.
Proof.
  induction f as [|f IH]; intros l acc p rest H; [discriminate|].
  rewrite dec_chunks_S in H. rewrite part_chunks_S. unfold part_step.
  destruct (line_crlf l) as [[[line|] r]|] eqn:Elc.
  - destruct (take_while hexdig line) as [sz ext] eqn:Etw.
    rewrite (dec_step_line _ l acc line r sz ext Elc Etw) in H.
    destruct (nonempty sz && ext_ok ext) eqn:Eok; [|discriminate].
    apply andb_true_iff in Eok. destruct Eok as [Hne _]. rewrite Hne.
    unfold size_good in H. destruct (wf_ext ext); cbn [negb andb] in *; [|discriminate].
    destruct (hex_value sz <? 2 ^ 64); cbn [negb andb] in *; [|discriminate].
    destruct (hex_value sz =? 0); cbn [negb] in *.
    + apply trailers_res_prefix in H. symmetry. exact H.
    + unfold data_res in H. unfold part_data.
      destruct (take_n (hex_value sz) r) as [[d a]|]; [|discriminate].
      destruct (after_data_cases (dec_chunks f) a (acc ++ d)) as [[r' [E1 E2]]|[_ [w E2]]].
      * rewrite E2 in H. subst a. rewrite part_after_crlf. exact (IH _ _ _ _ H).
      * rewrite E2 in H. discriminate.
  - unfold dec_step in H. rewrite Elc in H. discriminate.
  - destruct (dec_step_noline (dec_chunks f) l acc Elc) as [w Hw]. rewrite Hw in H. discriminate.
Qed.

Theorem spec_partial_valid l p rest : spec_decode l = Valid p rest -> spec_partial l = p.
Proof. apply part_chunks_valid. Qed.

(* ------------------------------------------------------------------ the partial payload seen from a reader state *)
Definition st_part (c : chunked) (acc : bytes) : bytes :=
  let U := reach (c_src c) in
  match c_state c with
  | CSize => partU U acc
  | CData => part_data partU (c_remaining c) U acc
  | CCrlf => part_after partU U acc
  | CTrailer => acc
  | CDone => acc
  end.

Lemma st_part_ext c c' acc : reach (c_src c') = reach (c_src c) -> c_state c' = c_state c ->
  c_remaining c' = c_remaining c -> st_part c' acc = st_part c acc.
Proof. unfold st_part. intros -> -> ->. reflexivity. Qed.

Lemma st_part_prefix c acc : exists q, st_part c acc = acc ++ q.
Proof.
  unfold st_part. destruct (c_state c); cbv zeta.
  - apply partU_prefix.
  - apply part_data_prefix. exact partU_prefix.
  - apply part_after_prefix. exact partU_prefix.
  - exists []. rewrite app_nil_r. reflexivity.
  - exists []. rewrite app_nil_r. reflexivity.
Qed.

(* the size line *)
Lemma read_chunk_size_part c acc out c' : CB c -> c_state c = CSize -> st_dec c acc <> Unspecified ->
  read_chunk_size c = ROk out c' -> st_part c' acc = st_part c acc.
Proof.
  intros Hb Hst HU Hr. unfold st_dec in HU. rewrite Hst in HU. cbv zeta in HU. rewrite decU_unfold in HU.
  unfold st_part at 2. rewrite Hst. cbv zeta. rewrite partU_unfold. unfold part_step.
  destruct (read_line_spec (c_src c) Hb) as [L [s' [Hrl [Hfu Hlo]]]].
  unfold line_of in Hlo.
  destruct (line_crlf (reach (c_src c))) as [[[line|] rest]|] eqn:Elc.
  - pose proof (line_crlf_some _ _ _ Elc) as Etl. rewrite Etl in Hlo. destruct Hlo as [HL Hrest].
    destruct (take_while hexdig line) as [sz ext] eqn:Etw.
    rewrite (dec_step_line decU _ acc line rest sz ext Elc Etw) in HU.
    destruct (nonempty sz && ext_ok ext) eqn:Eok.
    + unfold size_good in HU.
      destruct (wf_ext ext) eqn:Ewf; cbn [negb] in HU; [|congruence].
      pose proof (parse_size_line_good line sz ext Etw Eok) as Hps. rewrite <- HL in Hps.
      apply andb_true_iff in Eok. destruct Eok as [Hne Eok].
      pose proof (size_line_utf8 line sz ext Etw Eok Ewf) as Hu. rewrite <- HL in Hu.
      rewrite Hne. cbn [andb].
      destruct (hex_value sz <? 2 ^ 64) eqn:Elt; cbn [andb].
      * rewrite read_chunk_size_eq, Hrl, Hu, Hps in Hr. inversion Hr. subst out c'.
        unfold st_part, size_state. cbn [c_src c_state c_remaining]. rewrite Hrest.
        destruct (hex_value sz =? 0); reflexivity.
      * exfalso. destruct (rcs_err c L s' Hrl) as [e [c'' He]]; [rewrite Hps; eexists; reflexivity|].
        congruence.
    + exfalso. destruct (rcs_err c L s' Hrl) as [e [c'' He]].
      * rewrite HL. exact (parse_size_line_bad line sz ext Etw Eok).
      * congruence.
  - exfalso. apply HU. unfold dec_step. rewrite Elc. reflexivity.
  - exfalso. pose proof (line_crlf_none _ Elc) as Etl. rewrite Etl in Hlo. destruct Hlo as [HL _].
    destruct (rcs_err c L s' Hrl) as [e [c'' He]].
    + rewrite HL, (parse_size_line_nolf _ Etl). eexists; reflexivity.
    + congruence.
Qed.

(* advance *)
Lemma advance_part fuel : forall c acc out c', CB c -> st_dec c acc <> Unspecified ->
  advance fuel c = ROk out c' -> st_part c' acc = st_part c acc.
Proof.
  induction fuel as [|fuel IH]; intros c acc out c' Hb HU H; [discriminate|].
  cbn [advance] in H. destruct (c_state c) eqn:Est.
  - (* CSize *)
    destruct (read_chunk_size c) as [o c1|e c1] eqn:Er; [|discriminate].
    destruct (step_ok_inv _ _ _ _ (read_chunk_size_spec c acc Hb Est) HU)
      as [[e [c2 [He _]]]|[c2 [Hc2 [Hd [Hb2 _]]]]]; [congruence|].
    rewrite Er in Hc2. inversion Hc2. subst o c2.
    assert (HU1 : st_dec c1 acc <> Unspecified) by (rewrite Hd; exact HU).
    rewrite (IH c1 acc out c' Hb2 HU1 H).
    exact (read_chunk_size_part c acc [] c1 Hb Est HU Er).
  - (* CData *)
    destruct (N.eqb_spec (c_remaining c) 0) as [E0|E0].
    + set (c1 := {| c_src := c_src c; c_state := CCrlf; c_remaining := 0 |}) in *.
      assert (Hd : st_dec c1 acc = st_dec c acc).
      { unfold st_dec, c1. rewrite Est. cbn [c_src c_state c_remaining]. cbv zeta.
        unfold data_res. rewrite E0, take_n_0, app_nil_r. reflexivity. }
      assert (HU1 : st_dec c1 acc <> Unspecified) by (rewrite Hd; exact HU).
      rewrite (IH c1 acc out c' Hb HU1 H).
      unfold st_part, c1. rewrite Est. cbn [c_src c_state c_remaining]. cbv zeta.
      unfold part_data. rewrite E0, take_n_0, app_nil_r. reflexivity.
    + inversion H. reflexivity.
  - (* CCrlf *)
    pose proof (read_exact_spec 2 (c_src c)) as Hre.
    destruct (read_exact 2 (c_src c)) as [[cr s']|]; [|discriminate].
    destruct Hre as [R1 [R2 R3]].
    destruct (bytes_eqb cr [x0d; x0a]) eqn:Ecr; [|discriminate].
    apply bytes_eqb_eq in Ecr. subst cr.
    set (c1 := {| c_src := s'; c_state := CSize; c_remaining := c_remaining c |}) in *.
    assert (Hd : st_dec c1 acc = st_dec c acc).
    { unfold st_dec, c1. rewrite Est. cbn [c_src c_state c_remaining]. cbv zeta. rewrite R1. reflexivity. }
    assert (HU1 : st_dec c1 acc <> Unspecified) by (rewrite Hd; exact HU).
    assert (Hb1 : CB c1) by (unfold CB, c1; cbn [c_src]; exact (Bound_split _ _ _ R3 R1 Hb)).
    rewrite (IH c1 acc out c' Hb1 HU1 H).
    unfold st_part, c1. rewrite Est. cbn [c_src c_state c_remaining]. cbv zeta. rewrite R1. reflexivity.
  - (* CTrailer *)
    destruct (trailer_loop (sfuel (c_src c)) (c_src c)) as [[e|] s']; [discriminate|].
    destruct fuel as [|fuel]; [discriminate|]. cbn [advance c_state] in H. inversion H.
    unfold st_part. rewrite Est. reflexivity.
  - (* CDone *)
    inversion H. reflexivity.
Qed.

Lemma advance_part_ok c acc out c' : CB c -> st_dec c acc <> Unspecified ->
  advance (adv_fuel c) c = ROk out c' ->
  st_part c' acc = st_part c acc /\ st_dec c' acc = st_dec c acc /\ CB c' /\ ready c'.
Proof.
  intros Hb HU H. split; [exact (advance_part _ c acc out c' Hb HU H)|].
  destruct (step_ok_inv _ _ _ _ (advance_ok c acc Hb) HU) as [[e [c2 [He _]]]|[c2 [Hc2 [Hd [Hb2 Hr]]]]]; [congruence|].
  rewrite H in Hc2. inversion Hc2. subst out c2. repeat split; assumption.
Qed.

(* chunk data *)
Lemma data_step_part c c' acc out : c_state c = CData -> c_state c' = CData ->
  reach (c_src c) = out ++ reach (c_src c') -> lenN out <= c_remaining c ->
  c_remaining c' = c_remaining c - lenN out -> st_part c' (acc ++ out) = st_part c acc.
Proof.
  intros H1 H2 H3 H4 H5. unfold st_part. rewrite H1, H2. cbv zeta. unfold part_data.
  rewrite H3, take_n_app by exact H4. rewrite H5.
  destruct (take_n (c_remaining c - lenN out) (reach (c_src c'))) as [[d a]|].
  - rewrite app_assoc. reflexivity.
  - rewrite app_assoc. reflexivity.
Qed.

Lemma chunked_loop_part fuel : forall k c written acc res c', CB c -> st_dec c acc <> Unspecified ->
  chunked_read_loop fuel k c written = ROk res c' ->
  exists more, res = written ++ more /\ st_part c' (acc ++ more) = st_part c acc.
Proof.
  induction fuel as [|fuel IH]; intros k c written acc res c' Hb HU H.
  - cbn [chunked_read_loop] in H. inversion H. exists []. rewrite !app_nil_r. split; reflexivity.
  - cbn [chunked_read_loop] in H.
    destruct (advance (adv_fuel c) c) as [o c1|e c1] eqn:Ea; [|discriminate].
    destruct (advance_part_ok c acc o c1 Hb HU Ea) as [P1 [D1 [Hb1 Hr1]]].
    assert (Hstop : ROk written c1 = ROk res c' ->
                    exists more, res = written ++ more /\ st_part c' (acc ++ more) = st_part c acc).
    { intros E. inversion E. subst res c'. exists []. rewrite !app_nil_r. split; [reflexivity|exact P1]. }
    destruct Hr1 as [Hdone|[Hdata Hrem]].
    + rewrite Hdone in H. exact (Hstop H).
    + rewrite Hdata in H. destruct (N.eqb_spec k 0) as [Ek|Ek]; [exact (Hstop H)|].
      destruct (buf_read (N.min (c_remaining c1) k) (c_src c1)) as [out s'] eqn:Ebr.
      apply buf_read_spec in Ebr. destruct Ebr as [B1 [B2 [B3 B4]]].
      destruct out as [|x out]; [discriminate|].
      remember (x :: out) as O eqn:EO.
      set (c2 := {| c_src := s'; c_state := CData; c_remaining := c_remaining c1 - lenN O |}) in *.
      assert (P2 : st_part c2 (acc ++ O) = st_part c acc).
      { rewrite <- P1. apply data_step_part; [exact Hdata|reflexivity|exact B1|lia|reflexivity]. }
      assert (D2 : st_dec c2 (acc ++ O) = st_dec c acc).
      { rewrite <- D1. apply data_step; [exact Hdata|reflexivity|exact B1|lia|reflexivity]. }
      assert (Hb2 : CB c2) by (unfold CB, c2; cbn [c_src]; exact (Bound_split _ _ _ B3 B1 Hb1)).
      rewrite EO in H. rewrite <- EO in H. cbn [c_remaining] in H. fold c2 in H.
      destruct ((c_remaining c2 =? 0) || (k - lenN O =? 0)).
      * inversion H. subst res c'. exists O. split; [reflexivity|exact P2].
      * assert (HU2 : st_dec c2 (acc ++ O) <> Unspecified) by (rewrite D2; exact HU).
        destruct (IH _ _ _ _ _ _ Hb2 HU2 H) as [more [Hm Hp]].
        exists (O ++ more). rewrite !app_assoc. split; [exact Hm|]. rewrite Hp. exact P2.
Qed.

(* ------------------------------------------------------------------ the partial payload of any reader *)
Definition ppay (b : body) (acc : bytes) : bytes :=
  match b with
  | BFixed r => acc ++ firstnN (f_remaining r) (reach (f_src r))
  | BChunked c => st_part c acc
  | _ => acc
  end.

Lemma ppay_prefix b acc : prefix_of acc (ppay b acc).
Proof.
  destruct b as [r|c|s|s]; cbn [ppay]; try (exists []; rewrite app_nil_r; reflexivity).
  - eexists. reflexivity.
  - destruct (st_part_prefix c acc) as [q Hq]. exists q. exact Hq.
Qed.

Lemma ppay_read b shown acc k out b' : binv b shown -> pos b acc <> Unspecified ->
  body_read k b = ROk out b' -> ppay b' (acc ++ out) = ppay b acc.
Proof.
  intros Hi HU H. destruct b as [r|c|s|s]; cbn [binv] in Hi; try contradiction.
  - cbn [body_read] in H. destruct (N.eq_dec k 0) as [Ek|Ek].
    { subst k. rewrite fixed_read_0 in H. cbn [lift] in H. inversion H. rewrite app_nil_r. reflexivity. }
    rewrite (fixed_read_pos k r) in H by lia.
    destruct (N.eqb_spec (f_remaining r) 0) as [E|E].
    + cbn [lift] in H. inversion H. rewrite app_nil_r. reflexivity.
    + destruct (buf_read (N.min (f_remaining r) k) (f_src r)) as [o s'] eqn:Ebr.
      apply buf_read_spec in Ebr. destruct Ebr as [B1 [B2 [B3 B4]]].
      destruct o as [|x o]; [discriminate|]. remember (x :: o) as O eqn:EO.
      rewrite EO in H. rewrite <- EO in H. cbn [lift] in H. inversion H. subst out b'.
      cbn [ppay f_src f_remaining]. rewrite B1, (firstnN_app_le (f_remaining r) O) by lia.
      rewrite app_assoc. reflexivity.
  - destruct Hi as [Hb _]. cbn [body_read pos] in *. unfold chunked_read in H.
    destruct (chunked_read_loop (sfuel (c_src c)) k c []) as [res c'|e c'] eqn:El; [|discriminate].
    cbn [lift] in H. inversion H. subst out b'.
    destruct (chunked_loop_part _ _ _ _ acc _ _ Hb HU El) as [more [Hm Hp]].
    cbn [app] in Hm. subst more. exact Hp.
Qed.

Lemma ppay_fill b shown acc sl b' : binv b shown -> pos b acc <> Unspecified ->
  body_fill_buf b = ROk sl b' -> ppay b' acc = ppay b acc.
Proof.
  intros Hi HU H. destruct b as [r|c|s|s]; cbn [binv] in Hi; try contradiction.
  - cbn [body_fill_buf] in H. unfold fixed_fill_buf in H.
    destruct (N.eqb_spec (f_remaining r) 0) as [E|E].
    + cbn [lift] in H. inversion H. reflexivity.
    + destruct (bbuf (fill_buf (f_src r))); cbn [lift] in H; [discriminate|].
      inversion H. cbn [ppay f_src f_remaining]. rewrite fill_buf_rest. reflexivity.
  - destruct Hi as [Hb _]. cbn [body_fill_buf pos] in *. unfold chunked_fill_buf in H.
    destruct (advance (adv_fuel c) c) as [o c1|e c1] eqn:Ea; [|discriminate].
    destruct (advance_part_ok c acc o c1 Hb HU Ea) as [P1 [_ [_ Hr1]]].
    destruct Hr1 as [Hdone|[Hdata _]].
    + rewrite Hdone in H. cbn [lift] in H. inversion H. cbn [ppay]. exact P1.
    + rewrite Hdata in H.
      destruct (bbuf (fill_buf (c_src c1))) as [|x bb]; cbn [lift] in H; [discriminate|].
      inversion H. cbn [ppay]. rewrite <- P1. apply st_part_ext; cbn [c_src c_state c_remaining].
      * apply fill_buf_rest.
      * symmetry. exact Hdata.
      * reflexivity.
Qed.

Lemma ppay_consume b shown acc n : n <= lenN shown -> binv b shown ->
  ppay (body_consume n b) (acc ++ firstnN n shown) = ppay b acc.
Proof.
  intros Hn Hi. destruct b as [r|c|s|s]; cbn [binv] in Hi; try contradiction.
  - destruct (shown_ok_consume _ _ _ n Hn Hi) as [C1 [C2 [C3 [C4 C5]]]].
    cbn [body_consume ppay]. unfold fixed_consume. cbn [f_src f_remaining].
    rewrite C1, (firstnN_app_le (f_remaining r) (firstnN n shown)) by lia. rewrite C3, app_assoc. reflexivity.
  - destruct Hi as [Hb [Hs|[Hst Hs]]].
    + subst shown. rewrite lenN_nil in Hn. assert (n = 0) by lia. subst n.
      cbn [body_consume ppay firstnN]. rewrite app_nil_r. unfold chunked_consume.
      rewrite consume_0, N.sub_0_r. apply st_part_ext; reflexivity.
    + destruct (shown_ok_consume _ _ _ n Hn Hs) as [C1 [C2 [C3 [C4 C5]]]].
      cbn [body_consume ppay]. apply data_step_part; [exact Hst|exact Hst|exact C1|lia|].
      unfold chunked_consume. cbn [c_remaining]. rewrite C3. reflexivity.
Qed.

(* ------------------------------------------------------------------ every interleaving stays below the partial payload *)
Lemma mrun_ppay : forall ops b shown acc, binv b shown -> pos b acc <> Unspecified ->
  prefix_of (acc ++ delivered (mrun b shown ops)) (ppay b acc).
Proof.
  induction ops as [|o ops IH]; intros b shown acc Hi HU.
  - cbn [mrun delivered flat_map]. rewrite app_nil_r. apply ppay_prefix.
  - assert (Hstop : forall ev, ev_bytes ev = [] -> prefix_of (acc ++ delivered [ev]) (ppay b acc)).
    { intros ev Hev. cbn [delivered flat_map]. rewrite Hev, !app_nil_r. apply ppay_prefix. }
    assert (Hcons : forall n, n <= lenN shown ->
       prefix_of (acc ++ delivered (EvConsume n (firstnN n shown) :: mrun (body_consume n b) (skipnN n shown) ops))
                 (ppay b acc)).
    { intros n Hn. destruct (step_consume b shown acc n Hn Hi) as [S1 [S2 _]].
      rewrite <- (ppay_consume b shown acc n Hn Hi).
      change (delivered (EvConsume n (firstnN n shown) :: ?l)) with (firstnN n shown ++ delivered l).
      rewrite app_assoc. apply IH; [exact S2|]. rewrite S1. exact HU. }
    destruct o as [k| |n|a]; cbn [mrun].
    + destruct (body_read k b) as [out b'|e b'] eqn:Er; [|apply Hstop; reflexivity].
      change (delivered (EvRead k out :: ?l)) with (out ++ delivered l).
      rewrite app_assoc, <- (ppay_read b shown acc k out b' Hi HU Er).
      destruct (N.eq_dec k 0) as [Ek|Ek].
      * subst k. destruct (mixed_read0 b shown acc _ out b' Hi eq_refl HU Er) as [Ho [Hd Hi']].
        subst out. rewrite app_nil_r in *. apply IH; [exact Hi'|]. rewrite Hd. exact HU.
      * assert (Hk : 0 < k) by lia.
        destruct (step_read b shown acc _ k Hk Hi eq_refl HU)
          as [[e [b1 [He _]]]|[out1 [b1 [Ho [Hd [Hi' _]]]]]]; [congruence|].
        rewrite Er in Ho. inversion Ho. subst out1 b1. apply IH; [exact Hi'|]. rewrite Hd. exact HU.
    + destruct (body_fill_buf b) as [sl b'|e b'] eqn:Er; [|apply Hstop; reflexivity].
      change (delivered (EvFill sl :: ?l)) with (delivered l).
      rewrite <- (ppay_fill b shown acc sl b' Hi HU Er).
      destruct (step_fill b shown acc _ Hi eq_refl HU)
        as [[e [b1 [He _]]]|[[b1 [Ho [Hd [Hi' _]]]]|[sl1 [b1 [Ho [_ [Hd Hi']]]]]]]; [congruence| |].
      * rewrite Er in Ho. inversion Ho. subst sl b1. apply IH; [exact Hi'|]. rewrite Hd. exact HU.
      * rewrite Er in Ho. inversion Ho. subst sl1 b1. apply IH; [exact Hi'|]. rewrite Hd. exact HU.
    + destruct (N.leb_spec n (lenN shown)) as [Hn|Hn]; [exact (Hcons n Hn)|apply Hstop; reflexivity].
    + cbv zeta. apply Hcons. apply N.le_min_r.
Qed.

(* ------------------------------------------------------------------ invalid encodings: the statements *)
Lemma firstnN_idem n l : firstnN n (firstnN n l) = firstnN n l.
Proof. apply firstnN_all. apply lenN_firstnN_le. Qed.

Theorem mixed_chunked_partial : forall lo st ops,
  spec_decode (lo ++ concat st) <> Unspecified ->
  prefix_of (delivered (mrun0 (new_chunked lo st) ops)) (spec_partial (lo ++ concat st)).
Proof.
  intros lo st ops HU. destruct (start_chunked lo st) as [Hi Hp].
  assert (HU' : pos (new_chunked lo st) [] <> Unspecified) by (rewrite Hp; exact HU).
  exact (mrun_ppay ops _ [] [] Hi HU').
Qed.

Theorem mixed_fixed_partial : forall lo st n ops,
  prefix_of (delivered (mrun0 (new_fixed lo st n) ops)) (spec_fixed_partial n (lo ++ concat st)).
Proof.
  intros lo st n ops. destruct (start_fixed lo st n) as [Hi Hp].
  assert (HU' : pos (new_fixed lo st n) [] <> Unspecified).
  { unfold spec_fixed in Hp. destruct (take_n n (lo ++ concat st)) as [[d a]|]; rewrite Hp; discriminate. }
  pose proof (mrun_ppay ops _ [] [] Hi HU') as H.
  cbn [ppay new_fixed f_src f_remaining app] in H. rewrite reach_mk_take, firstnN_idem in H. exact H.
Qed.

(* the error IS reported: a run that asks more often than the partial payload is long has hit it *)
Lemma invalid_reports_error b w ops P : binv b [] -> pos b [] = Invalid w ->
  prefix_of (delivered (mrun0 b ops)) P -> mwf (mrun0 b ops) ->
  (length P < asking_ops ops)%nat -> exists o e, In (EvErr o e) (mrun0 b ops).
Proof.
  intros Hi Hp [q Hq] Hwf Hlen.
  destruct (existsb is_err (mrun0 b ops)) eqn:E.
  - apply existsb_exists in E. destruct E as [ev [Hin Hev]].
    destruct ev as [k out|sl|n t|o e|n s]; try discriminate. exists o, e. exact Hin.
  - exfalso.
    assert (Hne : forall e, In e (mrun0 b ops) -> is_err e = false /\ is_misuse e = false).
    { intros e He. split; [|exact (Hwf e He)]. destruct (is_err e) eqn:Ee; [|reflexivity].
      assert (Ht : existsb is_err (mrun0 b ops) = true) by (apply existsb_exists; exists e; split; assumption).
      congruence. }
    pose proof (asking_le ops b [] Hne) as H1. fold (mrun0 b ops) in H1.
    pose proof (asks_no_end _ (mixed_invalid b w ops Hi Hp)) as H2.
    apply (f_equal (@length byte)) in Hq. rewrite app_length in Hq. lia.
Qed.

Theorem mixed_chunked_invalid_error : forall lo st w ops,
  spec_decode (lo ++ concat st) = Invalid w -> mwf (mrun0 (new_chunked lo st) ops) ->
  (length (spec_partial (lo ++ concat st)) < asking_ops ops)%nat ->
  exists o e, In (EvErr o e) (mrun0 (new_chunked lo st) ops).
Proof.
  intros lo st w ops Hs Hwf Hlen. destruct (start_chunked lo st) as [Hi Hp]. rewrite Hs in Hp.
  apply (invalid_reports_error _ w ops (spec_partial (lo ++ concat st)) Hi Hp); [|exact Hwf|exact Hlen].
  apply mixed_chunked_partial. rewrite Hs. discriminate.
Qed.

Theorem mixed_fixed_invalid_error : forall lo st n w ops,
  spec_fixed n (lo ++ concat st) = Invalid w -> mwf (mrun0 (new_fixed lo st n) ops) ->
  (length (lo ++ concat st) < asking_ops ops)%nat ->
  exists o e, In (EvErr o e) (mrun0 (new_fixed lo st n) ops).
Proof.
  intros lo st n w ops Hs Hwf Hlen. destruct (start_fixed_invalid _ _ _ _ Hs) as [Hi Hp].
  apply (invalid_reports_error _ Truncated ops (spec_fixed_partial n (lo ++ concat st)) Hi Hp);
    [apply mixed_fixed_partial|exact Hwf|].
  pose proof (lenN_firstnN_le_len n (lo ++ concat st)) as H. unfold spec_fixed_partial, lenN in *. lia.
Qed.

(* ------------------------------------------------------------------ examples *)
Example ex_partial_cut40 : spec_partial (firstn 40 ex_enc) = bs "hello, world" ++ [x0d; x0a; x30; x0d].
Proof. vm_compute. reflexivity. Qed.
Example ex_partial_cut25 : spec_decode (firstn 25 ex_enc) = Invalid Truncated /\
  spec_partial (firstn 25 ex_enc) = bs "hello, worl".
Proof. split; vm_compute; reflexivity. Qed.
Example ex_partial_bad_chunk_end :
  let l := bs "5" ++ crlf ++ bs "helloXX" ++ bs "0" ++ crlf ++ crlf in
  spec_decode l = Invalid BadChunkEnd /\ spec_partial l = bs "hello" /\
  mrun0 (new_chunked l []) [MRead 3; MFill; MTake 9; MFill] =
    [EvRead 3 (bs "hel"); EvFill (bs "lo"); EvConsume 2 (bs "lo"); EvErr MFill EInvalidData].
Proof. cbv zeta. split; [|split]; vm_compute; reflexivity. Qed.

Print Assumptions spec_partial_valid.
Print Assumptions mixed_chunked_partial.
Print Assumptions mixed_fixed_partial.
Print Assumptions mixed_chunked_invalid_error.
Print Assumptions mixed_fixed_invalid_error.
