(* C07, the head of a request on a connection: [read_request] (Model/Server.v) over a stream of the
   form [reqsegs ++ later].  The bounded re-parse loop is characterised by the parse of the first
   [N] bytes of the stream: parsed (reading segments of the request only), too large, invalid, eof.
   Also: leading segments without bytes are skipped, and the fuel is irrelevant once it exceeds the
   number of bytes. *)
From KV Require Import Lib.Bytes Model.Headers Model.Parser Model.Body Model.Server
  Proofs.BodyBase Proofs.ParserMono Proofs.ParserSafe Proofs.ServerConnBase.

(* ------------------------------------------------------------------ unfolding *)
Lemma read_request_0 N filled sg : read_request 0 N filled sg = (REof, sg).
Proof. reflexivity. Qed.

Lemma read_request_S fuel N filled sg :
  read_request (S fuel) N filled sg =
  if Nat.eqb (length filled) N then (RTooLarge, sg)
  else
    let '(out, sg') := stream_read (N.of_nat (N - length filled)) sg in
    match out with
    | [] => (REof, sg')
    | _ =>
        let buf := filled ++ out in
        match parse_request buf with
        | Ok r => (RParsed buf r, sg')
        | Err EEof => read_request fuel N buf sg'
        | Err _ => (RInvalid, sg')
        | Fault _ => (RInvalid, sg')
        end
    end.
Proof. reflexivity. Qed.

Lemma parse_request_nil : parse_request [] = Err EEof.
Proof. vm_compute. reflexivity. Qed.

(* ------------------------------------------------------------------ list facts *)
Lemma firstn_exact (A : Type) (a b : list A) : firstn (length a) (a ++ b) = a.
Proof.
  rewrite firstn_app, Nat.sub_diag, firstn_O, app_nil_r. apply firstn_all.
Qed.

Lemma firstn_prefix (A : Type) n (a b : list A) : length a <= n ->
  firstn n (a ++ b) = a ++ firstn (n - length a) b.
Proof.
  intros H. rewrite firstn_app. rewrite firstn_all2 by exact H. reflexivity.
Qed.

(* what one read of the loop gives *)
Lemma stream_read_step N filled sg out sg' : length filled < N ->
  stream_read (N.of_nat (N - length filled)) sg = (out, sg') ->
  concat sg = out ++ concat sg' /\ length (filled ++ out) <= N /\ (out = [] -> concat sg = []).
Proof.
  intros Hl H. apply stream_read_spec in H. destruct H as [H1 [H2 H3]].
  split; [exact H1|]. split.
  - rewrite app_length. unfold lenN in H2. lia.
  - apply H3. lia.
Qed.

(* ------------------------------------------------------------------ the loop invariant *)
(* [filled] is an incomplete head, shorter than the limit; the result of the loop is determined by
   the parse of the first N bytes of [filled ++ concat sg] *)
Lemma read_request_gen : forall fuel N filled sg,
  length filled <= N -> parse_request filled = Err EEof -> length (concat sg) < fuel ->
  (forall r, parse_request (firstn N (filled ++ concat sg)) = Ok r ->
     exists buf unread,
       read_request fuel N filled sg = (RParsed buf r, unread) /\
       buf ++ concat unread = filled ++ concat sg /\
       TailOf sg unread /\ length buf <= N /\ parse_request buf = Ok r) /\
  (parse_request (firstn N (filled ++ concat sg)) = Err EEof ->
     N <= length (filled ++ concat sg) -> fst (read_request fuel N filled sg) = RTooLarge) /\
  (parse_request (firstn N (filled ++ concat sg)) = Err EEof ->
     length (filled ++ concat sg) < N -> fst (read_request fuel N filled sg) = REof) /\
  ((forall r, parse_request (firstn N (filled ++ concat sg)) <> Ok r) ->
     parse_request (firstn N (filled ++ concat sg)) <> Err EEof ->
     fst (read_request fuel N filled sg) = RInvalid).
Proof.
  induction fuel as [|fuel IH]; intros N filled sg Hlen Hp Hfuel; [lia|].
  rewrite read_request_S.
  destruct (Nat.eqb_spec (length filled) N) as [EN|EN].
  - (* the limit is reached *)
    assert (HT : firstn N (filled ++ concat sg) = filled) by (subst N; apply firstn_exact).
    rewrite HT. split; [|split; [|split]].
    + intros r Hr. congruence.
    + intros _ _. reflexivity.
    + intros _ Hl. rewrite app_length in Hl. lia.
    + intros _ He. congruence.
  - assert (Hlt : length filled < N) by lia.
    destruct (stream_read (N.of_nat (N - length filled)) sg) as [out sg1] eqn:Er.
    pose proof (stream_read_step N filled sg out sg1 Hlt Er) as [Hc [Hb Hnil]].
    destruct out as [|b o].
    + (* nothing more *)
      specialize (Hnil eq_refl).
      assert (HT : firstn N (filled ++ concat sg) = filled).
      { rewrite Hnil, app_nil_r. apply firstn_all2. lia. }
      rewrite HT, Hnil, app_nil_r. split; [|split; [|split]].
      * intros r Hr. congruence.
      * intros _ Hl. lia.
      * intros _ _. reflexivity.
      * intros _ He. congruence.
    + set (buf := filled ++ b :: o) in *.
      assert (Hall : filled ++ concat sg = buf ++ concat sg1).
      { unfold buf. rewrite Hc, app_assoc. reflexivity. }
      assert (HT : firstn N (filled ++ concat sg) = buf ++ firstn (N - length buf) (concat sg1)).
      { rewrite Hall. apply firstn_prefix. exact Hb. }
      assert (Hfuel1 : length (concat sg1) < fuel).
      { rewrite Hc, app_length in Hfuel. cbn [length] in Hfuel. lia. }
      assert (Htl : TailOf sg sg1) by (eapply stream_read_tail; [apply TailOf_refl|exact Er]).
      cbv zeta.
      destruct (parse_request buf) as [r0|e|f] eqn:Ep.
      * (* complete *)
        assert (Hs : parse_request (firstn N (filled ++ concat sg)) = Ok r0).
        { rewrite HT, request_stable; [exact Ep|congruence]. }
        rewrite Hs. split; [|split; [|split]].
        -- intros r Hr. inversion Hr. subst r0. exists buf, sg1.
           repeat split; [symmetry; exact Hall|exact Htl|exact Hb|exact Ep].
        -- intros Hr. discriminate.
        -- intros Hr. discriminate.
        -- intros Hr _. exfalso. apply (Hr r0). reflexivity.
      * destruct e.
        4:{ (* still incomplete: iterate *)
            destruct (IH N buf sg1 Hb Ep Hfuel1) as [I1 [I2 [I3 I4]]].
            rewrite Hall. split; [|split; [|split]].
            - intros r Hr. destruct (I1 r Hr) as [buf' [unread [R1 [R2 [R3 [R4 R5]]]]]].
              exists buf', unread. repeat split; try assumption.
              eapply TailOf_trans; eassumption.
            - exact I2.
            - exact I3.
            - exact I4. }
        all: match type of Ep with
             | _ = Err ?e0 =>
                 assert (Hs : parse_request (firstn N (filled ++ concat sg)) = Err e0)
                   by (rewrite HT, request_stable; [exact Ep|congruence])
             end; rewrite Hs; (split; [|split; [|split]]);
             [intros r Hr; discriminate|intros Hr; discriminate|intros Hr; discriminate|intros _ _; reflexivity].
      * assert (Hs : parse_request (firstn N (filled ++ concat sg)) = Fault f).
        { rewrite HT, request_stable; [exact Ep|congruence]. }
        rewrite Hs. split; [|split; [|split]];
          [intros r Hr; discriminate|intros Hr; discriminate|intros Hr; discriminate|intros _ _; reflexivity].
Qed.

(* ------------------------------------------------------------------ a stream followed by [later] *)
(* unless the loop runs out of input, what follows the stream is not looked at *)
Lemma read_request_ext later : forall fuel N filled sg res sg',
  read_request fuel N filled sg = (res, sg') -> res <> REof ->
  read_request fuel N filled (sg ++ later) = (res, sg' ++ later).
Proof.
  induction fuel as [|fuel IH]; intros N filled sg res sg' H Hne.
  - rewrite read_request_0 in H. inversion H. subst. congruence.
  - rewrite read_request_S in *.
    destruct (Nat.eqb (length filled) N).
    + inversion H. reflexivity.
    + destruct (stream_read (N.of_nat (N - length filled)) sg) as [out sg1] eqn:Er.
      destruct out as [|b o].
      * inversion H. subst. congruence.
      * rewrite (stream_read_ext _ later sg (b :: o) sg1 Er) by discriminate.
        cbv zeta in *.
        destruct (parse_request (filled ++ b :: o)) as [r0|e|f].
        -- inversion H. reflexivity.
        -- destruct e; try (inversion H; reflexivity). apply IH; assumption.
        -- inversion H. reflexivity.
Qed.

(* ------------------------------------------------------------------ the required lemmas *)
(* the head of a request that is complete within the first N bytes of concat reqsegs is parsed while
   reading segments of reqsegs only; [later] is untouched *)
Lemma read_request_split : forall fuel N reqsegs later r,
  parse_request (firstn N (concat reqsegs)) = Ok r ->
  length (concat reqsegs) < fuel ->
  exists buf unread,
    read_request fuel N [] (reqsegs ++ later) = (RParsed buf r, unread ++ later) /\
    buf ++ concat unread = concat reqsegs /\
    TailOf reqsegs unread /\ length buf <= N /\ parse_request buf = Ok r.
Proof.
  intros fuel N reqsegs later r Hp Hfuel.
  destruct (read_request_gen fuel N [] reqsegs (Nat.le_0_l N) parse_request_nil Hfuel) as [I1 _].
  destruct (I1 r Hp) as [buf [unread [R1 [R2 [R3 [R4 R5]]]]]].
  exists buf, unread. repeat split; try assumption.
  apply read_request_ext; [exact R1|discriminate].
Qed.

Lemma read_request_too_large : forall fuel N sg,
  parse_request (firstn N (concat sg)) = Err EEof -> N <= length (concat sg) -> length (concat sg) < fuel ->
  fst (read_request fuel N [] sg) = RTooLarge.
Proof.
  intros fuel N sg Hp Hl Hfuel.
  destruct (read_request_gen fuel N [] sg (Nat.le_0_l N) parse_request_nil Hfuel) as [_ [I2 _]].
  apply I2; assumption.
Qed.

Lemma read_request_invalid : forall fuel N sg,
  (forall r, parse_request (firstn N (concat sg)) <> Ok r) -> parse_request (firstn N (concat sg)) <> Err EEof ->
  length (concat sg) < fuel -> fst (read_request fuel N [] sg) = RInvalid.
Proof.
  intros fuel N sg Hp He Hfuel.
  destruct (read_request_gen fuel N [] sg (Nat.le_0_l N) parse_request_nil Hfuel) as [_ [_ [_ I4]]].
  apply I4; assumption.
Qed.

Lemma read_request_eof : forall fuel N sg,
  parse_request (firstn N (concat sg)) = Err EEof -> length (concat sg) < N -> length (concat sg) < fuel ->
  fst (read_request fuel N [] sg) = REof.
Proof.
  intros fuel N sg Hp Hl Hfuel.
  destruct (read_request_gen fuel N [] sg (Nat.le_0_l N) parse_request_nil Hfuel) as [_ [_ [I3 _]]].
  apply I3; assumption.
Qed.

(* leading segments without bytes are skipped by every read *)
Lemma stream_read_skip_empty k : forall z sg, concat z = [] -> stream_read k (z ++ sg) = stream_read k sg.
Proof.
  induction z as [|g z IH]; intros sg Hz; [reflexivity|].
  cbn [concat] in Hz. apply app_eq_nil in Hz. destruct Hz as [Hg Hz]. subst g.
  cbn [List.app stream_read]. apply IH. exact Hz.
Qed.

Lemma read_request_skip_empty : forall fuel N z sg, concat z = [] -> 0 < N -> 0 < fuel ->
  read_request fuel N [] (z ++ sg) = read_request fuel N [] sg.
Proof.
  intros fuel N z sg Hz HN Hf. destruct fuel as [|fuel]; [lia|].
  rewrite !read_request_S. cbn [length].
  destruct (Nat.eqb_spec 0 N) as [E|E]; [lia|].
  rewrite stream_read_skip_empty by exact Hz. reflexivity.
Qed.

(* more fuel than bytes: the result does not depend on the fuel *)
Lemma read_request_fuel_gen : forall f1 f2 N filled sg, length (concat sg) < f1 -> length (concat sg) < f2 ->
  read_request f1 N filled sg = read_request f2 N filled sg.
Proof.
  induction f1 as [|f1 IH]; intros f2 N filled sg H1 H2; [lia|].
  destruct f2 as [|f2]; [lia|].
  rewrite !read_request_S.
  destruct (Nat.eqb (length filled) N); [reflexivity|].
  destruct (stream_read (N.of_nat (N - length filled)) sg) as [out sg1] eqn:Er.
  destruct out as [|b o]; [reflexivity|].
  apply stream_read_spec in Er. destruct Er as [Hc _].
  rewrite Hc, app_length in H1, H2. cbn [length] in H1, H2.
  cbv zeta. destruct (parse_request (filled ++ b :: o)) as [r0|e|f]; try reflexivity.
  destruct e; try reflexivity. apply IH; lia.
Qed.

Lemma read_request_fuel : forall f1 f2 N sg, length (concat sg) < f1 -> length (concat sg) < f2 ->
  read_request f1 N [] sg = read_request f2 N [] sg.
Proof. intros. apply read_request_fuel_gen; assumption. Qed.

Print Assumptions read_request_split.
Print Assumptions read_request_too_large.
Print Assumptions read_request_invalid.
Print Assumptions read_request_eof.
Print Assumptions read_request_skip_empty.
Print Assumptions read_request_fuel.
