(* C19: the cached facts of the header collection always equal a fresh evaluation of what is stored. *)
From KV Require Import Lib.Bytes Model.Headers Spec.HeaderStore.

Lemma bytes_eqb_iff a : forall b, bytes_eqb a b = true <-> a = b.
Proof.
  induction a as [|x a IH]; intros [|y b]; cbn [bytes_eqb]; split; intros H; try discriminate; try reflexivity.
  - apply andb_true_iff in H. destruct H as [H1 H2]. apply byte_eqb_eq in H1. apply IH in H2. subst. reflexivity.
  - inversion H; subst. apply andb_true_iff. split; [apply byte_eqb_eq; reflexivity | apply IH; reflexivity].
Qed.

Lemma eq_ic_same a : forall b, eq_ic a b = same_name a b.
Proof.
  unfold same_name, lower.
  induction a as [|x a IH]; intros [|y b]; cbn [eq_ic map bytes_eqb]; try reflexivity.
  rewrite IH. reflexivity.
Qed.

Lemma same_name_iff a b : same_name a b = true <-> lower a = lower b.
Proof. unfold same_name. apply bytes_eqb_iff. Qed.

Lemma same_name_trans_false f n m : same_name f n = true -> same_name n m = false -> same_name f m = false.
Proof.
  intros H1 H2. destruct (same_name f m) eqn:E; [|reflexivity].
  apply same_name_iff in H1. apply same_name_iff in E.
  assert (same_name n m = true) as C by (apply same_name_iff; congruence). congruence.
Qed.

Lemma same_name_sym a b : same_name a b = same_name b a.
Proof.
  destruct (same_name a b) eqn:E1, (same_name b a) eqn:E2; try reflexivity.
  - apply same_name_iff in E1. symmetry in E1. apply same_name_iff in E1. congruence.
  - apply same_name_iff in E2. symmetry in E2. apply same_name_iff in E2. congruence.
Qed.

Lemma trim_ows_strip v : trim_ows v = strip_ows v.
Proof. reflexivity. Qed.

Lemma has_token_loop_spec tok v :
  has_token_loop tok v = existsb (fun t => same_name t tok) (tokens v).
Proof.
  unfold has_token_loop, tokens. induction (split_on x2c v) as [|p ps IH]; [reflexivity|].
  cbn [existsb map]. rewrite IH, eq_ic_same, trim_ows_strip. reflexivity.
Qed.

(* ---- content-length value ---- *)
Lemma dec_value_ge l : forall acc, (acc <= dec_value acc l)%N.
Proof.
  induction l as [|b r IH]; intros acc; cbn [dec_value]; [lia|].
  specialize (IH (acc * 10 + (b2n b - 48))%N). lia.
Qed.

Lemma parse_digits_spec l : forall acc, (acc <= U64_MAX)%N ->
  parse_digits acc l =
  if forallb is_digit l && (dec_value acc l <? 2 ^ 64)%N then Some (dec_value acc l) else None.
Proof.
  induction l as [|b r IH]; intros acc Hacc; cbn [parse_digits forallb dec_value].
  - replace (acc <? 2 ^ 64)%N with true; [reflexivity|].
    symmetry. apply N.ltb_lt. unfold U64_MAX in Hacc. lia.
  - destruct (is_digit b); cbn [andb]; [|reflexivity].
    destruct (N.leb_spec (acc * 10 + (b2n b - 48)) U64_MAX) as [Hle|Hgt].
    + apply IH. exact Hle.
    + pose proof (dec_value_ge r (acc * 10 + (b2n b - 48))%N) as Hge.
      replace (dec_value (acc * 10 + (b2n b - 48)) r <? 2 ^ 64)%N with false.
      * rewrite andb_false_r. reflexivity.
      * symmetry. apply N.ltb_ge. unfold U64_MAX in Hgt. lia.
Qed.

Lemma parse_content_length_spec v : parse_content_length v = cl_value v.
Proof.
  unfold parse_content_length, cl_value. rewrite trim_ows_strip.
  destruct (strip_ows v) as [|b r] eqn:E; [reflexivity|].
  apply parse_digits_spec. unfold U64_MAX. lia.
Qed.

(* ---- fresh evaluation under the store operations ---- *)
Lemma eval_app name tok fs f :
  existsb (field_has_token name tok) (fs ++ [f]) =
  existsb (field_has_token name tok) fs || field_has_token name tok f.
Proof. rewrite existsb_app. cbn [existsb]. rewrite orb_false_r. reflexivity. Qed.

Lemma eval_filter_same name tok n fs : same_name n name = true ->
  existsb (field_has_token name tok) (filter (fun f => negb (same_name (fst f) n)) fs) = false.
Proof.
  intros Hn. induction fs as [|f fs IH]; [reflexivity|]. cbn [filter].
  destruct (same_name (fst f) n) eqn:E; cbn [negb]; [exact IH|].
  cbn [existsb]. rewrite IH, orb_false_r. unfold field_has_token.
  replace (same_name (fst f) name) with false; [reflexivity|].
  symmetry. destruct (same_name (fst f) name) eqn:E2; [|reflexivity].
  apply same_name_iff in E2. apply same_name_iff in Hn.
  assert (same_name (fst f) n = true) as C by (apply same_name_iff; congruence). congruence.
Qed.

Lemma eval_filter_other name tok n fs : same_name n name = false ->
  existsb (field_has_token name tok) (filter (fun f => negb (same_name (fst f) n)) fs) =
  existsb (field_has_token name tok) fs.
Proof.
  intros Hn. induction fs as [|f fs IH]; [reflexivity|]. cbn [filter existsb].
  destruct (same_name (fst f) n) eqn:E; cbn [negb existsb]; rewrite IH; [|reflexivity].
  unfold field_has_token. rewrite (same_name_trans_false _ _ _ E Hn). reflexivity.
Qed.

Lemma field_other name tok n v : same_name n name = false -> field_has_token name tok (n, v) = false.
Proof. intros H. unfold field_has_token. cbn [fst]. rewrite H. reflexivity. Qed.

Lemma field_same name tok n v : same_name n name = true ->
  field_has_token name tok (n, v) = existsb (fun t => same_name t tok) (tokens v).
Proof. intros H. unfold field_has_token. cbn [fst snd]. rewrite H. reflexivity. Qed.

Definition Inv (h : headers) (ops : list hop) : Prop :=
  stored h = spec_stored ops /\
  chunked h = eval_chunked (stored h) /\
  connection_close h = eval_close (stored h) /\
  content_length h = spec_cl ops.

Lemma spec_stored_snoc ops o : spec_stored (ops ++ [o]) = store_step (spec_stored ops) o.
Proof. unfold spec_stored. rewrite fold_left_app. reflexivity. Qed.
Lemma spec_cl_snoc ops o : spec_cl (ops ++ [o]) = spec_cl_rev (o :: rev ops).
Proof. unfold spec_cl. rewrite rev_unit. reflexivity. Qed.
Lemma hrun_snoc ops o : hrun (ops ++ [o]) = hstep (hrun ops) o.
Proof. unfold hrun. rewrite fold_left_app. reflexivity. Qed.

Lemma name_cases n :
  (same_name n (bs "content-length") = true /\ same_name n (bs "transfer-encoding") = false /\ same_name n (bs "connection") = false) \/
  (same_name n (bs "content-length") = false /\ same_name n (bs "transfer-encoding") = true /\ same_name n (bs "connection") = false) \/
  (same_name n (bs "content-length") = false /\ same_name n (bs "transfer-encoding") = false /\ same_name n (bs "connection") = true) \/
  (same_name n (bs "content-length") = false /\ same_name n (bs "transfer-encoding") = false /\ same_name n (bs "connection") = false).
Proof.
  assert (forall x y, lower x <> lower y -> same_name n x = true -> same_name n y = true -> False) as K.
  { intros x y Hne H1 H2. apply same_name_iff in H1. apply same_name_iff in H2. congruence. }
  destruct (same_name n (bs "content-length")) eqn:A, (same_name n (bs "transfer-encoding")) eqn:B,
           (same_name n (bs "connection")) eqn:C;
    try (left; repeat split; reflexivity); try (right; left; repeat split; reflexivity);
    try (right; right; left; repeat split; reflexivity); try (right; right; right; repeat split; reflexivity); exfalso.
  - eapply K; [|exact A|exact B]. intro E; vm_compute in E; discriminate E.
  - eapply K; [|exact A|exact B]. intro E; vm_compute in E; discriminate E.
  - eapply K; [|exact A|exact C]. intro E; vm_compute in E; discriminate E.
  - eapply K; [|exact B|exact C]. intro E; vm_compute in E; discriminate E.
Qed.

Lemma add_inv h ops n v : Inv h ops -> Inv (add h n v) (ops ++ [OAdd n v]).
Proof.
  intros (Hs & Hc & Hk & Hl). unfold Inv, add. rewrite !eq_ic_same.
  rewrite spec_stored_snoc, spec_cl_snoc. cbn [store_step spec_cl_rev]. unfold is_cl, eval_chunked, eval_close in *.
  unfold CONTENT_LENGTH, TRANSFER_ENCODING, CONNECTION.
  destruct (name_cases n) as [(A & B & C)|[(A & B & C)|[(A & B & C)|(A & B & C)]]]; rewrite A, ?B, ?C; cbn [stored chunked connection_close content_length].
  - repeat split; try assumption. apply parse_content_length_spec.
  - rewrite !eval_app, (field_same _ _ _ _ B), (field_other _ _ _ _ C), has_token_loop_spec, orb_false_r, <- Hs, <- Hc.
    repeat split; assumption.
  - rewrite !eval_app, (field_same _ _ _ _ C), (field_other _ _ _ _ B), has_token_loop_spec, orb_false_r, <- Hs, <- Hk.
    repeat split; assumption.
  - rewrite !eval_app, (field_other _ _ _ _ C), (field_other _ _ _ _ B), !orb_false_r, <- Hs.
    repeat split; assumption.
Qed.

Lemma filter_ext_ic (fs : list (bytes * bytes)) n :
  filter (fun kv => negb (eq_ic (fst kv) n)) fs = filter (fun f => negb (same_name (fst f) n)) fs.
Proof. apply filter_ext. intros a. rewrite eq_ic_same. reflexivity. Qed.

Lemma remove_inv h ops n : Inv h ops -> Inv (remove h n) (ops ++ [ORemove n]).
Proof.
  intros (Hs & Hc & Hk & Hl). unfold Inv, remove. rewrite !eq_ic_same, filter_ext_ic.
  rewrite spec_stored_snoc, spec_cl_snoc. cbn [store_step spec_cl_rev]. unfold is_cl, eval_chunked, eval_close in *.
  unfold CONTENT_LENGTH, TRANSFER_ENCODING, CONNECTION.
  destruct (name_cases n) as [(A & B & C)|[(A & B & C)|[(A & B & C)|(A & B & C)]]]; rewrite A, ?B, ?C; cbn [stored chunked connection_close content_length];
    rewrite <- Hs.
  - rewrite !eval_filter_other by assumption. repeat split; assumption.
  - rewrite (eval_filter_same _ _ _ _ B), (eval_filter_other _ _ _ _ C). repeat split; assumption.
  - rewrite (eval_filter_same _ _ _ _ C), (eval_filter_other _ _ _ _ B). repeat split; assumption.
  - rewrite !eval_filter_other by assumption. repeat split; assumption.
Qed.

Lemma replace_inv h ops n v : Inv h ops -> Inv (replace h n v) (ops ++ [OReplace n v]).
Proof.
  intros H. unfold replace.
  pose proof (add_inv _ _ n v (remove_inv _ _ n H)) as (Hs & Hc & Hk & Hl).
  unfold Inv. rewrite Hc, Hk. rewrite Hs, Hl.
  rewrite !spec_stored_snoc, !spec_cl_snoc, rev_unit. cbn [store_step spec_cl_rev].
  destruct (is_cl n); repeat split; reflexivity.
Qed.

Lemma step_inv h ops o : Inv h ops -> Inv (hstep h o) (ops ++ [o]).
Proof.
  intros H. destruct o as [n v|n v|n|l| |]; cbn [hstep].
  - apply add_inv, H.
  - apply replace_inv, H.
  - apply remove_inv, H.
  - destruct H as (Hs & Hc & Hk & Hl). unfold Inv, set_content_length. cbn [stored chunked connection_close content_length].
    rewrite spec_stored_snoc, spec_cl_snoc. cbn [store_step spec_cl_rev]. repeat split; assumption.
  - destruct H as (Hs & Hc & Hk & Hl). unfold Inv, set_transfer_encoding_chunked.
    rewrite spec_stored_snoc, spec_cl_snoc. cbn [store_step spec_cl_rev]. rewrite <- Hs, <- Hc.
    destruct (chunked h) eqn:Hch.
    { repeat split; try assumption. rewrite Hch. exact Hc. }
    cbn [stored chunked connection_close content_length]. unfold eval_chunked, eval_close in *.
    rewrite !eval_app, <- Hk. repeat split; try assumption.
    + replace (field_has_token (bs "transfer-encoding") (bs "chunked") (TRANSFER_ENCODING, bs "chunked")) with true by (vm_compute; reflexivity).
      rewrite orb_true_r. reflexivity.
    + replace (field_has_token (bs "connection") (bs "close") (TRANSFER_ENCODING, bs "chunked")) with false by (vm_compute; reflexivity).
      rewrite orb_false_r. reflexivity.
  - destruct H as (Hs & Hc & Hk & Hl). unfold Inv, set_connection_close. cbn [stored chunked connection_close content_length].
    rewrite spec_stored_snoc, spec_cl_snoc. cbn [store_step spec_cl_rev]. unfold eval_chunked, eval_close in *.
    rewrite !eval_app, <- Hs, <- Hc. repeat split; try assumption.
    + replace (field_has_token (bs "transfer-encoding") (bs "chunked") (CONNECTION, bs "close")) with false by (vm_compute; reflexivity).
      rewrite orb_false_r. reflexivity.
    + replace (field_has_token (bs "connection") (bs "close") (CONNECTION, bs "close")) with true by (vm_compute; reflexivity).
      rewrite orb_true_r. reflexivity.
Qed.

Theorem headers_inv ops : Inv (hrun ops) ops.
Proof.
  induction ops as [|o ops IH] using rev_ind.
  - unfold Inv, hrun, spec_stored, spec_cl. cbn. repeat split; reflexivity.
  - rewrite hrun_snoc. apply step_inv, IH.
Qed.

(* lookups: case-insensitive, return what was stored, in order *)
Lemma get_all_spec h name : get_all h name = lookup_all (stored h) name.
Proof. unfold get_all, lookup_all. apply filter_ext. intros a. apply eq_ic_same. Qed.

Lemma find_rev_filter {A} (p : A -> bool) (l : list A) :
  find p l = match filter p l with x :: _ => Some x | [] => None end.
Proof. induction l as [|x l IH]; [reflexivity|]. cbn [find filter]. destruct (p x); [reflexivity|exact IH]. Qed.

Lemma filter_rev {A} (p : A -> bool) (l : list A) : filter p (rev l) = rev (filter p l).
Proof.
  induction l as [|x l IH]; [reflexivity|]. cbn [rev filter]. rewrite filter_app, IH. cbn [filter].
  destruct (p x); cbn [rev]; [reflexivity|rewrite app_nil_r; reflexivity].
Qed.

Lemma get_spec h name : get h name = lookup_last (stored h) name.
Proof.
  unfold get, lookup_last, lookup_all. rewrite find_rev_filter, filter_rev.
  rewrite (filter_ext _ (fun f => same_name (fst f) name)) by (intros a; apply eq_ic_same).
  destruct (rev (filter _ (stored h))); reflexivity.
Qed.
