(* C03: verdicts of the head parsers are stable under extension of the input.
   Every sub-parser P satisfies the "same result" form
       P s <> Err EEof  ->  P (s ++ t) = ext t (P s)
   (the unconsumed rest grows by t, everything else -- value, error, even a Fault -- is identical);
   parse_request / parse_response then satisfy  P s <> Err EEof -> P (s ++ t) = P s. *)
From KV Require Import Lib.Bytes Lib.Swar Model.Headers Model.Parser Model.ReadLoop Proofs.SwarSpec.

(* ------------------------------------------------------------------ generic list facts *)
Lemma nth_some_lt {A} (l : list A) k c : nth_error l k = Some c -> k < length l.
Proof. intros H. apply nth_error_Some. congruence. Qed.

Lemma nth_app_some {A} (l t : list A) k c : nth_error l k = Some c -> nth_error (l ++ t) k = Some c.
Proof. intros H. rewrite nth_error_app1; [exact H | eapply nth_some_lt; eauto]. Qed.

Lemma firstn_app_le {A} (l t : list A) k : k <= length l -> firstn k (l ++ t) = firstn k l.
Proof.
  intros H. rewrite firstn_app. replace (k - length l) with 0 by lia.
  cbn [firstn]. apply app_nil_r.
Qed.

Lemma skipn_app_le {A} (l t : list A) k : k <= length l -> skipn k (l ++ t) = skipn k l ++ t.
Proof.
  intros H. rewrite skipn_app. replace (k - length l) with 0 by lia. reflexivity.
Qed.

Lemma find_index_lt {A} (p : A -> bool) l i : find_index p l = Some i -> i < length l.
Proof.
  revert i. induction l as [|x r IH]; intros i H; cbn [find_index] in H; [discriminate|].
  destruct (p x).
  - injection H as <-. cbn [length]. lia.
  - destruct (find_index p r) as [j|]; cbn [option_map] in H; [|discriminate].
    injection H as <-. specialize (IH j eq_refl). cbn [length]. lia.
Qed.

Lemma find_index_app {A} (p : A -> bool) l t i : find_index p l = Some i -> find_index p (l ++ t) = Some i.
Proof.
  revert i. induction l as [|x r IH]; intros i H; cbn [find_index app] in *; [discriminate|].
  destruct (p x); [exact H|].
  destruct (find_index p r) as [j|]; cbn [option_map] in H; [|discriminate].
  rewrite (IH j eq_refl). exact H.
Qed.

Lemma strip_prefix_app p : forall l t rest, strip_prefix p l = Some rest -> strip_prefix p (l ++ t) = Some (rest ++ t).
Proof.
  induction p as [|x p IH]; intros l t rest H.
  - destruct l; cbn [strip_prefix] in *; injection H as <-; reflexivity.
  - destruct l as [|y l]; cbn [strip_prefix app] in *; [discriminate|].
    destruct (Byte.eqb x y); [apply IH; exact H | discriminate].
Qed.

(* a failed strip_prefix that could still succeed on a longer input: the input is a proper prefix *)
Lemma strip_prefix_none_app p : forall l t, strip_prefix p l = None ->
  strip_prefix p (l ++ t) = None \/ (l = firstn (length l) p /\ length l < length p).
Proof.
  induction p as [|x p IH]; intros l t H.
  - destruct l; discriminate.
  - destruct l as [|y l]; cbn [strip_prefix app length firstn] in *.
    + right. split; [reflexivity | lia].
    + destruct (Byte.eqb x y) eqn:E; [|left; reflexivity].
      apply byte_eqb_eq in E. subst y.
      destruct (IH l t H) as [H1 | [H1 H2]]; [left; exact H1 | right].
      split; [f_equal; exact H1 | lia].
Qed.

(* ------------------------------------------------------------------ result extension *)
Definition ext {A} (t : bytes) (r : res (A * bytes)) : res (A * bytes) :=
  match r with Ok (x, rest) => Ok (x, rest ++ t) | Err e => Err e | Fault f => Fault f end.

Definition mono {A} (P : bytes -> res (A * bytes)) : Prop :=
  forall s t, P s <> Err EEof -> P (s ++ t) = ext t (P s).

(* ------------------------------------------------------------------ parse_method *)
Lemma short_prefix_no_sp p s i :
  s = firstn (length s) p -> length s < length p ->
  find_index (Byte.eqb x20) s = Some i ->
  find_index (Byte.eqb x20) (removelast p) = None -> False.
Proof.
  intros Hs Hl Hi Hp.
  assert (Hs' : s = firstn (length s) (removelast p)).
  { rewrite Hs at 1. clear Hs Hi Hp. revert p Hl. generalize (length s) as n.
    induction n as [|n IH]; intros p Hl; [reflexivity|].
    destruct p as [|x p]; cbn [length] in Hl; [lia|].
    destruct p as [|y p]; [cbn [length] in Hl; lia|].
    change (removelast (x :: y :: p)) with (x :: removelast (y :: p)).
    cbn [firstn]. f_equal. apply IH. cbn [length] in *. lia. }
  set (q := removelast p) in *. clearbody q.
  assert (G : forall (n : nat) (q : bytes) j, find_index (Byte.eqb x20) (firstn n q) = Some j ->
              find_index (Byte.eqb x20) q <> None).
  { clear. induction n as [|n IH]; intros q j H; [discriminate|].
    destruct q as [|x q]; [discriminate|]. cbn [firstn find_index] in *.
    destruct (Byte.eqb x20 x); [discriminate|].
    destruct (find_index (Byte.eqb x20) (firstn n q)) as [k|] eqn:E; [|discriminate].
    specialize (IH q k E). destruct (find_index (Byte.eqb x20) q); [discriminate | congruence]. }
  rewrite Hs' in Hi. exact (G _ _ _ Hi Hp).
Qed.

Lemma parse_method_mono : mono parse_method.
Proof.
  intros s t H. unfold parse_method in *.
  destruct (strip_prefix (bs "GET ") s) as [r|] eqn:E1.
  { rewrite (strip_prefix_app _ _ t _ E1). reflexivity. }
  destruct (strip_prefix (bs "POST ") s) as [r|] eqn:E2.
  { destruct (strip_prefix_none_app _ _ t E1) as [-> | [Ha Hb]].
    - rewrite (strip_prefix_app _ _ t _ E2). reflexivity.
    - exfalso. (* s is a proper prefix of "GET " and starts with "POST " *)
      destruct s as [|a s]; [discriminate|].
      change (bs "GET ") with (x47 :: bs "ET ") in Ha.
      cbn [length firstn] in Ha. injection Ha as Ha _. subst a.
      discriminate E2. }
  destruct (find_index (Byte.eqb x20) s) as [i|] eqn:E3; [|congruence].
  assert (N1 : strip_prefix (bs "GET ") (s ++ t) = None).
  { destruct (strip_prefix_none_app _ _ t E1) as [-> | [Ha Hb]]; [reflexivity|].
    exfalso. eapply short_prefix_no_sp; eauto. }
  assert (N2 : strip_prefix (bs "POST ") (s ++ t) = None).
  { destruct (strip_prefix_none_app _ _ t E2) as [-> | [Ha Hb]]; [reflexivity|].
    exfalso. eapply short_prefix_no_sp; eauto. }
  rewrite N1, N2, (find_index_app _ _ t _ E3).
  pose proof (find_index_lt _ _ _ E3) as Hlt.
  rewrite (firstn_app_le s t i) by lia.
  rewrite (skipn_app_le s t (S i)) by lia.
  set (mb := firstn i s) in *. set (rest := skipn (S i) s) in *.
  repeat match goal with |- context [if ?c then _ else _] => destruct c; [reflexivity|] end.
  destruct (str_unchecked mb); reflexivity.
Qed.

(* ------------------------------------------------------------------ parse_version *)
Lemma is_prefix_firstn_false : forall n s p t,
  is_prefix (firstn n s) p = false -> is_prefix (firstn n (s ++ t)) p = false.
Proof.
  induction n as [|n IH]; intros s p t H; [discriminate|].
  destruct s as [|x s]; [discriminate|].
  cbn [firstn app is_prefix] in *.
  destruct p as [|y p]; [reflexivity|].
  destruct (Byte.eqb x y); cbn [andb] in *; [apply IH; exact H | reflexivity].
Qed.

Lemma is_prefix_firstn_false_strip : forall p s t,
  is_prefix (firstn (length p) s) p = false -> strip_prefix p (s ++ t) = None.
Proof.
  induction p as [|y p IH]; intros s t H; [discriminate|].
  destruct s as [|x s]; [discriminate|].
  cbn [length firstn app is_prefix strip_prefix] in *.
  destruct (Byte.eqb y x) eqn:E.
  - apply byte_eqb_eq in E. subst y.
    replace (Byte.eqb x x) with true in H by (symmetry; apply byte_eqb_eq; reflexivity).
    cbn [andb] in H. apply IH. exact H.
  - reflexivity.
Qed.

Lemma parse_version_mono : mono parse_version.
Proof.
  intros s t H. unfold parse_version in *.
  destruct (strip_prefix (bs "HTTP/1.") s) as [rest|] eqn:E1.
  - rewrite (strip_prefix_app _ _ t _ E1).
    destruct rest as [|c r]; [congruence|].
    cbn [app]. destruct c; reflexivity.
  - destruct (is_prefix (firstn 7 s) (bs "HTTP/1.")) eqn:E2; [congruence|].
    rewrite (is_prefix_firstn_false_strip (bs "HTTP/1.") s t E2).
    rewrite (is_prefix_firstn_false 7 s _ t E2). reflexivity.
Qed.

(* ------------------------------------------------------------------ scanners *)
Lemma uri_tail_le l : uri_tail l <= length l.
Proof. induction l as [|b r IH]; cbn [uri_tail length]; [lia|]. destruct (is_vchar b); lia. Qed.

Lemma path_tail_le l : path_tail l <= length l.
Proof. induction l as [|b r IH]; cbn [path_tail length]; [lia|]. destruct (is_q_or_sp b); lia. Qed.

Lemma uri_tail_app_lt l t : uri_tail l < length l -> uri_tail (l ++ t) = uri_tail l.
Proof.
  induction l as [|b r IH]; cbn [uri_tail length app]; [lia|].
  destruct (is_vchar b); [|reflexivity]. intros H. rewrite IH by lia. reflexivity.
Qed.

Lemma path_tail_app_lt l t : path_tail l < length l -> path_tail (l ++ t) = path_tail l.
Proof.
  induction l as [|b r IH]; cbn [path_tail length app]; [lia|].
  destruct (is_q_or_sp b); [reflexivity|]. intros H. rewrite IH by lia. reflexivity.
Qed.

Lemma path_tail_app_ge l t : path_tail l <= path_tail (l ++ t).
Proof.
  induction l as [|b r IH]; cbn [path_tail app]; [lia|].
  destruct (is_q_or_sp b); lia.
Qed.

(* a bad byte found strictly inside the window stays the first bad byte of any larger window *)
Lemma uri_tail_window : forall l n m t,
  uri_tail (firstn n l) < n -> n <= length l -> n <= m ->
  uri_tail (firstn m (l ++ t)) = uri_tail (firstn n l).
Proof.
  induction l as [|b r IH]; intros n m t H Hn Hm.
  - cbn [length] in Hn. assert (n = 0) by lia. subst n. cbn [firstn uri_tail] in H. lia.
  - destruct n as [|n]; [cbn [firstn uri_tail] in H; lia|].
    destruct m as [|m]; [lia|].
    cbn [firstn app uri_tail length] in *.
    destruct (is_vchar b); [|reflexivity].
    f_equal. apply IH; lia.
Qed.

(* ------------------------------------------------------------------ step2 *)
Definition ss (r : bytes) : bool := match r with x2f :: x2f :: _ => true | _ => false end.

Lemma step2_eq seen b r i :
  step2 seen (b :: r) i =
  if Byte.eqb b x3a then
    (if ss r then (if seen then step2 seen r (i + 1) else step2 true (skipn 2 r) (i + 3))
     else step2 seen r (i + 1))
  else if Byte.eqb b x2f then S2Path i
  else if Byte.eqb b x20 || Byte.eqb b x3f then S2End i
  else if is_valid_uri_byte b then step2 seen r (i + 1) else S2Err.
Proof.
  destruct b; try reflexivity.
  destruct r as [|c r]; [reflexivity|].
  destruct c; try reflexivity.
  destruct r as [|d r]; [reflexivity|].
  destruct d; reflexivity.
Qed.

Lemma ss_app_true r t : ss r = true -> ss (r ++ t) = true /\ skipn 2 (r ++ t) = skipn 2 r ++ t /\ 2 <= length r.
Proof.
  intros H. destruct r as [|c r]; [discriminate|].
  destruct r as [|d r]; [destruct c; discriminate|].
  cbn [app length skipn]. repeat split; [|lia].
  destruct c; try discriminate; destruct d; try discriminate; reflexivity.
Qed.

Lemma ss_app_false r t : ss r = false -> 2 <= length r -> ss (r ++ t) = false.
Proof.
  intros H L. destruct r as [|c r]; [cbn [length] in L; lia|].
  destruct r as [|d r]; [cbn [length] in L; lia|].
  cbn [app]. destruct c; try reflexivity; destruct d; try reflexivity; discriminate.
Qed.
