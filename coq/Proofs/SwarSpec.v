(* The word-at-a-time scanners equal their byte-at-a-time reading, for every input. *)
From KV Require Import Lib.Bytes Lib.Swar Model.Headers Model.Parser.
Local Open Scope Z_scope.

Lemma b2z_range b : 0 <= b2z b < 256.
Proof. unfold b2z. pose proof (Byte.to_N_bounded b). lia. Qed.

Lemma zs_range l : Forall (fun b => 0 <= b < 256) (zs l).
Proof. unfold zs. induction l as [|b l IH]; cbn [map]; constructor; [apply b2z_range | exact IH]. Qed.

Lemma z_split h : h = b0 h + 256 * rs h.
Proof. unfold b0, rs. pose proof (Z.div_mod h 256 ltac:(lia)). lia. Qed.

Lemma uri_hit_all_good bs : Forall (fun b => 0 <= b < 256) bs -> forallb (fun b => negb (uri_bad b)) bs = true ->
  uri_hit (length bs) (word_of bs) = 0.
Proof.
  induction bs as [|b r IH]; intros Hr Hg; cbn [length word_of].
  - reflexivity.
  - inversion Hr as [|? ? Hb Hr']; subst. cbn [forallb] in Hg. apply andb_true_iff in Hg. destruct Hg as [Hg1 Hg2].
    apply negb_true_iff in Hg1.
    rewrite (z_split (uri_hit (S (length r)) (b + 256 * word_of r))).
    rewrite b0_uri_hit by exact Hb. rewrite rs_uri_hit_good by assumption. rewrite IH by assumption.
    pose proof (uri_lane_ok b Hb) as L. unfold uri_lane_chk in L. rewrite Hg1 in L.
    rewrite !andb_true_iff in L. destruct L as [[[[L0 _] _] _] _]. apply Z.eqb_eq in L0. lia.
Qed.

Lemma path_hit_all_good bs : Forall (fun b => 0 <= b < 256) bs -> forallb (fun b => negb (path_stop b)) bs = true ->
  path_hit (length bs) (word_of bs) = 0.
Proof.
  induction bs as [|b r IH]; intros Hr Hg; cbn [length word_of].
  - reflexivity.
  - inversion Hr as [|? ? Hb Hr']; subst. cbn [forallb] in Hg. apply andb_true_iff in Hg. destruct Hg as [Hg1 Hg2].
    apply negb_true_iff in Hg1.
    rewrite (z_split (path_hit (S (length r)) (b + 256 * word_of r))).
    rewrite b0_path_hit by exact Hb. rewrite rs_path_hit_good by assumption. rewrite IH by assumption.
    pose proof (path_lane_ok b Hb) as L. unfold path_lane_chk in L. rewrite Hg1 in L.
    rewrite !andb_true_iff in L. destruct L as [[[[L0 _] _] _] _]. apply Z.eqb_eq in L0. lia.
Qed.

(* the byte predicates on Z agree with the ones on bytes *)
Lemma uri_bad_vchar b : uri_bad (b2z b) = negb (is_vchar b).
Proof. destruct b; vm_compute; reflexivity. Qed.
Lemma path_stop_byte b : path_stop (b2z b) = is_q_or_sp b.
Proof. destruct b; vm_compute; reflexivity. Qed.

Lemma find_first_all_good bad bs : find_first bad bs = length bs -> forallb (fun b => negb (bad b)) bs = true.
Proof.
  induction bs as [|b r IH]; cbn [find_first length forallb]; intros H; [reflexivity|].
  destruct (bad b); [discriminate|]. cbn [negb andb]. apply IH. lia.
Qed.
Lemma find_first_le bad bs : (find_first bad bs <= length bs)%nat.
Proof. induction bs as [|b r IH]; cbn [find_first length]; [lia|]. destruct (bad b); lia. Qed.

(* uri_tail / path_tail over an 8-byte chunk followed by a rest *)
Lemma uri_tail_app pre rest :
  uri_tail (pre ++ rest) =
  if Nat.eqb (find_first uri_bad (zs pre)) (length pre) then (length pre + uri_tail rest)%nat
  else find_first uri_bad (zs pre).
Proof.
  induction pre as [|b pre IH]; cbn [app uri_tail zs map find_first length].
  - reflexivity.
  - fold (zs pre). rewrite uri_bad_vchar. destruct (is_vchar b); cbn [negb].
    + rewrite IH. cbn [Nat.eqb]. destruct (Nat.eqb (find_first uri_bad (zs pre)) (length pre)); reflexivity.
    + reflexivity.
Qed.
Lemma path_tail_app pre rest :
  path_tail (pre ++ rest) =
  if Nat.eqb (find_first path_stop (zs pre)) (length pre) then (length pre + path_tail rest)%nat
  else find_first path_stop (zs pre).
Proof.
  induction pre as [|b pre IH]; cbn [app path_tail zs map find_first length].
  - reflexivity.
  - fold (zs pre). rewrite path_stop_byte. destruct (is_q_or_sp b).
    + reflexivity.
    + rewrite IH. cbn [Nat.eqb]. destruct (Nat.eqb (find_first path_stop (zs pre)) (length pre)); reflexivity.
Qed.

Lemma zs_length l : length (zs l) = length l.
Proof. unfold zs. apply map_length. Qed.

(* strong induction in steps of 8 *)
Lemma list_ind8 (P : bytes -> Prop) :
  (forall l, (length l < 8)%nat -> P l) ->
  (forall a b c d e f g h rest, P rest -> P (a :: b :: c :: d :: e :: f :: g :: h :: rest)) ->
  forall l, P l.
Proof.
  intros Hs Hc l. remember (length l) as n eqn:Hn. revert l Hn.
  induction n as [n IH] using lt_wf_ind. intros l Hn.
  destruct l as [|a [|b [|c [|d [|e [|f [|g [|h rest]]]]]]]]; try (apply Hs; cbn [length]; lia).
  apply Hc. apply (IH (length rest)); [subst n; cbn [length]; lia | reflexivity].
Qed.

Theorem match_uri_vectored_spec : forall l, match_uri_vectored l = uri_tail l.
Proof.
  apply list_ind8.
  - intros l Hl.
    destruct l as [|a [|b [|c [|d [|e [|f [|g [|h rest]]]]]]]]; try reflexivity. cbn [length] in Hl. lia.
  - intros a b c d e f g h rest IH.
    change (a :: b :: c :: d :: e :: f :: g :: h :: rest) with ([a; b; c; d; e; f; g; h] ++ rest) at 2.
    rewrite uri_tail_app.
    cbn [match_uri_vectored].
    set (pre := [a; b; c; d; e; f; g; h]).
    pose proof (uri_block_first_bad (zs pre) 8 ltac:(reflexivity) (zs_range pre)) as Hblk.
    change (length pre) with 8%nat.
    destruct (Z.eqb_spec (uri_hit 8 (word_of (zs pre))) 0) as [Hz|Hnz].
    + rewrite Hz in Hblk. cbn [offsetnz] in Hblk. change (b0 0 =? 0) with true in Hblk. cbv iota in Hblk.
      rewrite <- Hblk. change (offsetnz 8 0) with 8%nat. cbn [Nat.eqb]. rewrite IH. reflexivity.
    + rewrite <- Hblk.
      destruct (Nat.eqb_spec (offsetnz 8 (uri_hit 8 (word_of (zs pre)))) 8) as [H8|Hn8]; [|reflexivity].
      exfalso. apply Hnz. rewrite Hblk in H8.
      apply (uri_hit_all_good (zs pre) (zs_range pre)). apply find_first_all_good. rewrite zs_length. exact H8.
Qed.

Theorem match_path_vectored_spec : forall l, match_path_vectored l = path_tail l.
Proof.
  apply list_ind8.
  - intros l Hl.
    destruct l as [|a [|b [|c [|d [|e [|f [|g [|h rest]]]]]]]]; try reflexivity. cbn [length] in Hl. lia.
  - intros a b c d e f g h rest IH.
    change (a :: b :: c :: d :: e :: f :: g :: h :: rest) with ([a; b; c; d; e; f; g; h] ++ rest) at 2.
    rewrite path_tail_app.
    cbn [match_path_vectored].
    set (pre := [a; b; c; d; e; f; g; h]).
    pose proof (path_block_first_stop (zs pre) 8 ltac:(reflexivity) (zs_range pre)) as Hblk.
    change (length pre) with 8%nat.
    destruct (Z.eqb_spec (path_hit 8 (word_of (zs pre))) 0) as [Hz|Hnz].
    + rewrite Hz in Hblk. cbn [offsetnz] in Hblk. change (b0 0 =? 0) with true in Hblk. cbv iota in Hblk.
      rewrite <- Hblk. change (offsetnz 8 0) with 8%nat. cbn [Nat.eqb]. rewrite IH. reflexivity.
    + rewrite <- Hblk.
      destruct (Nat.eqb_spec (offsetnz 8 (path_hit 8 (word_of (zs pre)))) 8) as [H8|Hn8]; [|reflexivity].
      exfalso. apply Hnz. rewrite Hblk in H8.
      apply (path_hit_all_good (zs pre) (zs_range pre)). apply find_first_all_good. rewrite zs_length. exact H8.
Qed.
