(* C07, shared material: the inbound stream seen as "segments of this request ++ later segments".
   [ext later s] is a byte source whose stream is followed by [later]; every read that finds data in
   front of [later] behaves on [ext later s] exactly as on [s] (the simulation lemmas), and the stream
   that a sequence of reads leaves behind is always a "tail" of the original one ([TailOf]). *)
From KV Require Import Lib.Bytes Lib.Utf8 Model.Body Spec.ChunkedSpec Proofs.BodyBase.

Local Open Scope N_scope.

(* ------------------------------------------------------------------ tails of a segment list *)
(* what stream_read can leave of [orig]: a suffix, or a suffix whose first segment was partly read *)
Definition TailOf (orig sg : list bytes) : Prop :=
  (exists pre, orig = pre ++ sg) \/
  (exists pre g g' tl, g' <> [] /\ orig = pre ++ g :: tl /\ sg = g' :: tl).

Lemma TailOf_refl sg : TailOf sg sg.
Proof. left. exists []. reflexivity. Qed.

Lemma stream_read_tail_suffix k : forall sg orig pre out sg', orig = pre ++ sg ->
  stream_read k sg = (out, sg') -> TailOf orig sg'.
Proof.
  induction sg as [|g rest IH]; intros orig pre out sg' Ho H.
  - cbn [stream_read] in H. inversion H. subst. left. exists pre. reflexivity.
  - destruct g as [|x g].
    + cbn [stream_read] in H. apply (IH orig (pre ++ [[]]) out sg'); [|exact H].
      rewrite <- app_assoc. exact Ho.
    + cbn [stream_read] in H. destruct (skipnN k (x :: g)) as [|y g'] eqn:Es; inversion H; subst.
      * left. exists (pre ++ [x :: g]). rewrite <- app_assoc. reflexivity.
      * right. exists pre, (x :: g), (y :: g'), rest. split; [discriminate|]. split; reflexivity.
Qed.

Lemma stream_read_tail k orig sg out sg' : TailOf orig sg -> stream_read k sg = (out, sg') -> TailOf orig sg'.
Proof.
  intros [[pre Ho]|[pre [g [g' [tl [Hg [Ho Hs]]]]]]] H.
  - exact (stream_read_tail_suffix k sg orig pre out sg' Ho H).
  - subst sg. destruct g' as [|x g']; [congruence|]. cbn [stream_read] in H.
    destruct (skipnN k (x :: g')) as [|y g''] eqn:Es; inversion H; subst.
    + left. exists (pre ++ [g]). rewrite <- app_assoc. reflexivity.
    + right. exists pre, g, (y :: g''), tl. split; [discriminate|]. split; reflexivity.
Qed.

Lemma TailOf_trans a b c : TailOf a b -> TailOf b c -> TailOf a c.
Proof.
  intros [[p1 H1]|[p1 [g1 [g1' [t1 [Hg1 [H1 H1']]]]]]] [[p2 H2]|[p2 [g2 [g2' [t2 [Hg2 [H2 H2']]]]]]].
  - left. exists (p1 ++ p2). subst. rewrite app_assoc. reflexivity.
  - right. exists (p1 ++ p2), g2, g2', t2. split; [exact Hg2|]. subst. rewrite <- app_assoc. split; reflexivity.
  - subst b. destruct p2 as [|x p2]; cbn [app] in H2.
    + subst c. right. exists p1, g1, g1', t1. repeat split; assumption.
    + inversion H2. subst. left. exists (p1 ++ g1 :: p2). rewrite <- app_assoc. reflexivity.
  - subst b. destruct p2 as [|x p2]; cbn [app] in H2.
    + inversion H2. subst. right. exists p1, g1, g2', t2. repeat split; assumption.
    + inversion H2. subst. right. exists (p1 ++ g1 :: p2), g2, g2', t2. split; [exact Hg2|].
      rewrite <- app_assoc. split; reflexivity.
Qed.

(* a tail without bytes is a suffix made of empty segments *)
Lemma TailOf_empty orig z : TailOf orig z -> concat z = [] -> exists pre, orig = pre ++ z.
Proof.
  intros [[pre H]|[pre [g [g' [tl [Hg [H1 H2]]]]]]] Hc.
  - exists pre. exact H.
  - exfalso. subst z. cbn [concat] in Hc. apply app_eq_nil in Hc. destruct Hc as [Hc _]. contradiction.
Qed.

Lemma concat_nil_nonempty (z : list bytes) : Forall (fun g => g <> []) z -> concat z = [] -> z = [].
Proof.
  intros Hf Hc. destruct z as [|g z]; [reflexivity|]. exfalso.
  inversion Hf as [|g0 z0 Hg Hz]. subst. cbn [concat] in Hc. apply app_eq_nil in Hc. destruct Hc as [Hc _]. contradiction.
Qed.

(* ------------------------------------------------------------------ a stream followed by [later] *)
Lemma stream_read_ext k later : forall pre out pre', stream_read k pre = (out, pre') -> out <> [] ->
  stream_read k (pre ++ later) = (out, pre' ++ later).
Proof.
  induction pre as [|g rest IH]; intros out pre' H Hne.
  - cbn [stream_read] in H. inversion H. subst. congruence.
  - destruct g as [|x g].
    + cbn [stream_read app] in *. apply IH; assumption.
    + cbn [stream_read app] in *. destruct (skipnN k (x :: g)) as [|y g'] eqn:Es; inversion H; subst; reflexivity.
Qed.

(* reading with k > 0 from a stream that has bytes returns some *)
Lemma stream_read_nonempty k sg out sg' : 0 < k -> concat sg <> [] -> stream_read k sg = (out, sg') -> out <> [].
Proof.
  intros Hk Hc H Ho. apply stream_read_spec in H. destruct H as [_ [_ H3]]. apply Hc, H3; assumption.
Qed.

Definition ext (later : list bytes) (s : src) : src :=
  {| bbuf := bbuf s; lo := lo s; segs := segs s ++ later; sfuel := sfuel s; stake := stake s |}.
