(* C06, Read face: the body reader model refines the strict recogniser. *)
From KV Require Import Lib.Bytes Lib.Utf8 Model.Body Spec.ChunkedSpec Proofs.BodyBase Proofs.BodyBaseChunk.

Local Open Scope N_scope.

(* ------------------------------------------------------------------ fixed length *)
Lemma fixed_read_all_valid : forall sizes r acc d rest,
  take_n (f_remaining r) (reach (f_src r)) = Some (d, rest) ->
  Forall (fun k => 0 < k) sizes -> (length d < length sizes)%nat ->
  fst (read_all (BFixed r) sizes acc) = (acc ++ d, AtEof).
Proof.
  induction sizes as [|k sizes IH]; intros r acc d rest Ht Hpos Hlen; [cbn [length] in Hlen; lia|].
  inversion Hpos as [|k' sz' Hk Hpos']. subst k' sz'.
  cbn [read_all body_read]. rewrite (fixed_read_pos k r Hk).
  destruct (N.eqb_spec (f_remaining r) 0) as [E|E].
  - rewrite E, take_n_0 in Ht. inversion Ht. subst d rest. cbn [lift fst]. rewrite app_nil_r. reflexivity.
  - destruct (buf_read (N.min (f_remaining r) k) (f_src r)) as [out s'] eqn:Ebr.
    apply buf_read_spec in Ebr. destruct Ebr as [B1 [B2 [B3 B4]]].
    destruct out as [|o out].
    + rewrite B4 in Ht by (lia || reflexivity). rewrite take_n_nil in Ht by exact E. discriminate.
    + cbn [lift]. remember (o :: out) as O eqn:EO.
      rewrite B1, take_n_app in Ht by lia.
      destruct (take_n (f_remaining r - lenN O) (reach s')) as [[d' a]|] eqn:Et; [|discriminate].
      inversion Ht. subst d a.
      rewrite EO. rewrite <- EO.
      rewrite (IH {| f_src := s'; f_remaining := f_remaining r - lenN O |} (acc ++ O) d' rest).
      * rewrite app_assoc. reflexivity.
      * exact Et.
      * exact Hpos'.
      * rewrite app_length in Hlen. cbn [length] in Hlen. subst O. cbn [length] in Hlen. lia.
Qed.

Lemma fixed_read_valid : forall lo st sizes n p rest,
  spec_fixed n (lo ++ concat st) = Valid p rest -> Forall (fun k => 0 < k) sizes ->
  (length p < length sizes)%nat ->
  fst (read_all (new_fixed lo st n) sizes []) = (p, AtEof).
Proof.
  intros lo st sizes n p rest Hs Hpos Hlen. unfold spec_fixed in Hs.
  destruct (take_n n (lo ++ concat st)) as [[d a]|] eqn:Et; [|discriminate]. inversion Hs. subst d a.
  unfold new_fixed. rewrite (fixed_read_all_valid sizes _ [] p []); [reflexivity| |exact Hpos|exact Hlen].
  cbn [f_remaining f_src]. rewrite reach_mk_take. exact (take_n_firstnN _ _ _ _ Et).
Qed.

Lemma fixed_read_all_invalid : forall sizes r acc,
  lenN (reach (f_src r)) < f_remaining r -> Forall (fun k => 0 < k) sizes ->
  snd (fst (read_all (BFixed r) sizes acc)) <> AtEof.
Proof.
  induction sizes as [|k sizes IH]; intros r acc Hlt Hpos; [cbn; discriminate|].
  inversion Hpos as [|k' sz' Hk Hpos']. subst k' sz'.
  cbn [read_all body_read]. rewrite (fixed_read_pos k r Hk).
  destruct (N.eqb_spec (f_remaining r) 0) as [E|E]; [lia|].
  destruct (buf_read (N.min (f_remaining r) k) (f_src r)) as [out s'] eqn:Ebr.
  apply buf_read_spec in Ebr. destruct Ebr as [B1 [B2 [B3 B4]]].
  destruct out as [|o out].
  - cbn [lift fst snd]. discriminate.
  - cbn [lift]. apply IH; [|exact Hpos'].
    cbn [f_src f_remaining]. rewrite B1, lenN_app in Hlt. lia.
Qed.

Lemma fixed_read_invalid : forall lo st sizes n w,
  spec_fixed n (lo ++ concat st) = Invalid w -> Forall (fun k => 0 < k) sizes ->
  snd (fst (read_all (new_fixed lo st n) sizes [])) <> AtEof.
Proof.
  intros lo st sizes n w Hs Hpos. unfold spec_fixed in Hs.
  destruct (take_n n (lo ++ concat st)) as [[d a]|] eqn:Et; [discriminate|].
  apply take_n_none in Et. unfold new_fixed. apply fixed_read_all_invalid; [|exact Hpos].
  cbn [f_remaining f_src]. rewrite reach_mk_take.
  pose proof (lenN_firstnN_le_len n (lo ++ concat st)) as Hle. lia.
Qed.

(* ------------------------------------------------------------------ chunked *)
Lemma chunked_loop_spec fuel : forall k c written acc D, 0 < k -> CB c ->
  st_dec c acc = D -> D <> Unspecified ->
  (exists e c', chunked_read_loop fuel k c written = RErr e c' /\ exists w, D = Invalid w) \/
  (exists more c', chunked_read_loop fuel k c written = ROk (written ++ more) c' /\
                   st_dec c' (acc ++ more) = D /\ CB c' /\
                   (more = [] -> fuel = 0%nat \/ c_state c' = CDone)).
Proof.
  induction fuel as [|fuel IH]; intros k c written acc D Hk Hb HD HU.
  - right. exists [], c. rewrite !app_nil_r. cbn [chunked_read_loop].
    repeat split; try assumption. intros _. left. reflexivity.
  - cbn [chunked_read_loop].
    pose proof (advance_ok c acc Hb) as Hadv. rewrite HD in Hadv.
    destruct (step_ok_inv _ _ _ _ Hadv HU) as [[e [c' [He Hw]]]|[c1 [Hc1 [Hd1 [Hb1 Hr1]]]]].
    + left. rewrite He. exists e, c'. split; [reflexivity|exact Hw].
    + rewrite Hc1. destruct Hr1 as [Hdone|[Hdata Hrem]].
      * rewrite Hdone. right. exists [], c1. rewrite !app_nil_r.
        repeat split; try assumption. intros _. right. exact Hdone.
      * rewrite Hdata. destruct (N.eqb_spec k 0) as [Ek|Ek]; [lia|].
        destruct (buf_read (N.min (c_remaining c1) k) (c_src c1)) as [out s'] eqn:Ebr.
        apply buf_read_spec in Ebr. destruct Ebr as [B1 [B2 [B3 B4]]].
        destruct out as [|o out].
        -- left. eexists. eexists. split; [reflexivity|]. exists Truncated.
           rewrite <- Hd1. apply data_eof; [exact Hdata|exact Hrem|].
           apply B4; [lia|reflexivity].
        -- remember (o :: out) as O eqn:EO.
           set (c2 := {| c_src := s'; c_state := CData; c_remaining := c_remaining c1 - lenN O |}).
           assert (Hd2 : st_dec c2 (acc ++ O) = D).
           { rewrite <- Hd1. apply data_step; [exact Hdata|reflexivity|exact B1|lia|reflexivity]. }
           assert (Hb2 : CB c2).
           { unfold CB, c2. cbn [c_src]. apply (Bound_split (c_src c1) s' O); assumption. }
           assert (HO : O <> []) by (subst O; discriminate).
           rewrite EO. rewrite <- EO. cbn [c_remaining].
           destruct ((c_remaining c2 =? 0) || (k - lenN O =? 0)) eqn:Estop.
           ++ right. exists O, c2. split; [reflexivity|]. split; [exact Hd2|]. split; [exact Hb2|].
              intros HO'. contradiction.
           ++ apply orb_false_iff in Estop. destruct Estop as [_ Ek2]. apply N.eqb_neq in Ek2.
              fold c2.
              destruct (IH (k - lenN O) c2 (written ++ O) (acc ++ O) D ltac:(lia) Hb2 Hd2 HU)
                as [[e [c' [He Hw]]]|[more [c' [Hm [Hd' [Hb' Hm']]]]]].
              ** left. exists e, c'. split; [exact He|exact Hw].
              ** right. exists (O ++ more), c'. rewrite !app_assoc.
                 split; [exact Hm|]. split; [exact Hd'|]. split; [exact Hb'|].
                 intros Hnil. exfalso. destruct O; [congruence|discriminate].
Qed.

Lemma chunked_read_spec k c acc D : 0 < k -> CB c -> st_dec c acc = D -> D <> Unspecified ->
  (exists e c', chunked_read k c = RErr e c' /\ exists w, D = Invalid w) \/
  (exists out c', chunked_read k c = ROk out c' /\ st_dec c' (acc ++ out) = D /\ CB c' /\
                  (out = [] -> c_state c' = CDone)).
Proof.
  intros Hk Hb HD HU. unfold chunked_read.
  destruct (chunked_loop_spec (sfuel (c_src c)) k c [] acc D Hk Hb HD HU)
    as [H|[more [c' [Hm [Hd' [Hb' Hm']]]]]]; [left; exact H|].
  right. exists more, c'. cbn [app] in Hm. split; [exact Hm|]. split; [exact Hd'|]. split; [exact Hb'|].
  intros Hnil. destruct (Hm' Hnil) as [H0|H0]; [|exact H0].
  exfalso. pose proof (Bound_fuel _ Hb) as [_ H12]. lia.
Qed.

Lemma chunked_read_all_valid : forall sizes c acc p rest q, CB c ->
  st_dec c acc = Valid p rest -> p = acc ++ q ->
  Forall (fun k => 0 < k) sizes -> (length q < length sizes)%nat ->
  fst (read_all (BChunked c) sizes acc) = (p, AtEof).
Proof.
  induction sizes as [|k sizes IH]; intros c acc p rest q Hb HD Hp Hpos Hlen; [cbn [length] in Hlen; lia|].
  inversion Hpos as [|k' sz' Hk Hpos']. subst k' sz'.
  destruct (chunked_read_spec k c acc _ Hk Hb HD ltac:(discriminate))
    as [[e [c' [He [w Hw]]]]|[out [c' [Ho [Hd' [Hb' Hnil]]]]]]; [discriminate|].
  destruct out as [|o out].
  - rewrite (read_all_eof _ k sizes acc (BChunked c')); [|cbn [body_read]; rewrite Ho; reflexivity].
    rewrite (done_dec c' _ (Hnil eq_refl)), app_nil_r in Hd'. inversion Hd'. reflexivity.
  - remember (o :: out) as O eqn:EO.
    rewrite (read_all_more _ k sizes acc O (BChunked c'));
      [|cbn [body_read]; rewrite Ho; reflexivity|subst O; discriminate].
    destruct (st_dec_prefix _ _ _ _ Hd') as [q' Hq'].
    apply (IH c' (acc ++ O) p rest q' Hb' Hd' Hq' Hpos').
    assert (Hqq : q = O ++ q').
    { apply (app_inv_head acc). rewrite <- Hp, Hq', app_assoc. reflexivity. }
    rewrite Hqq, app_length in Hlen. subst O. cbn [length] in Hlen. lia.
Qed.

Lemma chunked_read_valid : forall lo st sizes p rest,
  spec_decode (lo ++ concat st) = Valid p rest -> Forall (fun k => 0 < k) sizes ->
  (length p < length sizes)%nat ->
  fst (read_all (new_chunked lo st) sizes []) = (p, AtEof).
Proof.
  intros lo st sizes p rest Hs Hpos Hlen. unfold new_chunked.
  apply (chunked_read_all_valid sizes _ [] p rest p); try assumption.
  - apply Bound_mk.
  - reflexivity.
Qed.

Lemma chunked_read_all_invalid : forall sizes c acc w, CB c ->
  st_dec c acc = Invalid w -> Forall (fun k => 0 < k) sizes ->
  snd (fst (read_all (BChunked c) sizes acc)) <> AtEof.
Proof.
  induction sizes as [|k sizes IH]; intros c acc w Hb HD Hpos; [cbn; discriminate|].
  inversion Hpos as [|k' sz' Hk Hpos']. subst k' sz'.
  destruct (chunked_read_spec k c acc _ Hk Hb HD ltac:(discriminate))
    as [[e [c' [He _]]]|[out [c' [Ho [Hd' [Hb' Hnil]]]]]].
  - rewrite (read_all_err _ k sizes acc e (BChunked c')); [|cbn [body_read]; rewrite He; reflexivity].
    cbn [fst snd]. discriminate.
  - destruct out as [|o out].
    + exfalso. rewrite (done_dec c' _ (Hnil eq_refl)) in Hd'. discriminate.
    + remember (o :: out) as O eqn:EO.
      rewrite (read_all_more _ k sizes acc O (BChunked c'));
        [|cbn [body_read]; rewrite Ho; reflexivity|subst O; discriminate].
      exact (IH c' (acc ++ O) w Hb' Hd' Hpos').
Qed.

Lemma chunked_read_invalid : forall lo st sizes w,
  spec_decode (lo ++ concat st) = Invalid w -> Forall (fun k => 0 < k) sizes ->
  snd (fst (read_all (new_chunked lo st) sizes [])) <> AtEof.
Proof.
  intros lo st sizes w Hs Hpos. unfold new_chunked.
  apply (chunked_read_all_invalid sizes _ [] w); try assumption. apply Bound_mk.
Qed.
