From KV Require Import Lib.Bytes Lib.Swar Model.Headers Model.Parser Model.ReadLoop Proofs.SwarSpec Proofs.ParserMonoBase.

Definition s2post (l : bytes) (i : nat) (x x' : scan2) : Prop :=
  match x with
  | S2Err => x' = S2Err
  | S2Path k => i <= k /\ nth_error l (k - i) = Some x2f /\ (S (k - i) < length l -> x' = S2Path k)
  | S2End k => i <= k /\ k - i <= length l /\ (k - i < length l -> x' = S2End k)
  end.

Lemma s2post_shift pre r i x x' :
  s2post r (i + length pre) x x' -> s2post (pre ++ r) i x x'.
Proof.
  unfold s2post. destruct x as [|k|k]; [trivial| |].
  - intros (H1 & H2 & H3). split; [lia|]. split.
    + rewrite nth_error_app2 by lia. replace (k - i - length pre) with (k - (i + length pre)) by lia. exact H2.
    + rewrite app_length. intros H. apply H3. lia.
  - intros (H1 & H2 & H3). rewrite app_length. split; [lia|]. split; [lia|].
    intros H. apply H3. lia.
Qed.

Lemma ss_flip r t : ss r = false -> ss (r ++ t) = true -> r = [] \/ r = [x2f].
Proof.
  intros H1 H2. destruct r as [|c r]; [left; reflexivity|].
  destruct r as [|d r].
  - right. destruct c; try discriminate H2. reflexivity.
  - exfalso. cbn [app] in H2. destruct c; try discriminate H2; destruct d; discriminate.
Qed.

Lemma step2_app : forall n l, length l <= n -> forall seen i t,
  s2post l i (step2 seen l i) (step2 seen (l ++ t) i).
Proof.
  induction n as [|n IH]; intros l Hl seen i t.
  { destruct l; [|cbn [length] in Hl; lia]. cbn [step2 app s2post length]. repeat split; lia. }
  destruct l as [|b r].
  { cbn [step2 app s2post length]. repeat split; lia. }
  cbn [length] in Hl. cbn [app]. rewrite !step2_eq.
  destruct (Byte.eqb b x3a) eqn:Ec.
  { destruct (ss r) eqn:Ess.
    - destruct (ss_app_true r t Ess) as (-> & Hsk & Hlen). rewrite Hsk.
      destruct seen.
      + apply (s2post_shift [b] r i). apply IH. lia.
      + destruct r as [|c [|d r']]; try (cbn [length] in Hlen; lia).
        cbn [skipn]. apply (s2post_shift [b; c; d] r' i). apply IH. cbn [length] in Hl. lia.
    - destruct (ss (r ++ t)) eqn:Ess'.
      + destruct (ss_flip r t Ess Ess') as [-> | ->].
        * cbn [step2 s2post length]. repeat split; lia.
        * cbn [step2 s2post length]. repeat split; try lia.
          replace (i + 1 - i) with 1 by lia. reflexivity.
      + apply (s2post_shift [b] r i). apply IH. lia. }
  destruct (Byte.eqb b x2f) eqn:Es.
  { apply byte_eqb_eq in Es. subst b. cbn [s2post]. replace (i - i) with 0 by lia.
    repeat split. lia. }
  destruct (Byte.eqb b x20 || Byte.eqb b x3f).
  { cbn [s2post length]. repeat split; lia. }
  destruct (is_valid_uri_byte b).
  - apply (s2post_shift [b] r i). apply IH. lia.
  - reflexivity.
Qed.

(* ------------------------------------------------------------------ parse_uri *)
Lemma finish_uri_app s t k ps pe : k < length s ->
  finish_uri (s ++ t) k ps pe = ext t (finish_uri s k ps pe).
Proof.
  intros H. unfold finish_uri. rewrite firstn_app_le by lia. rewrite skipn_app_le by lia.
  destruct (str_unchecked (firstn k s)); reflexivity.
Qed.

Lemma skipn_last_one {A} (l : list A) k c : nth_error l k = Some c -> S k = length l -> skipn k l = [c].
Proof.
  revert k. induction l as [|x r IH]; intros k H L; [destruct k; discriminate|].
  destruct k as [|k]; cbn [nth_error skipn length] in *.
  - injection H as ->. destruct r; [reflexivity | cbn [length] in L; lia].
  - apply IH; [exact H | lia].
Qed.

Lemma parse_uri_mono : mono parse_uri.
Proof.
  intros s t H.
  destruct s as [|first s']; [exfalso; apply H; reflexivity|].
  unfold parse_uri in *. cbn [app]. cbv beta iota zeta in *.
  set (buf := first :: s') in *. change (first :: s' ++ t) with (buf ++ t).
  destruct (Byte.eqb first x2a).
  { destruct (nth_error buf 1) as [c|] eqn:E1; [|congruence].
    pose proof (nth_some_lt _ _ _ E1) as L1.
    rewrite (nth_app_some _ t _ _ E1). rewrite skipn_app_le by lia.
    destruct c; reflexivity. }
  set (X := if Byte.eqb first x2f then S2Path 0 else step2 false buf 0) in *.
  set (X' := if Byte.eqb first x2f then S2Path 0 else step2 false (buf ++ t) 0).
  assert (HX : s2post buf 0 X X').
  { subst X X'. destruct (Byte.eqb first x2f) eqn:E.
    - apply byte_eqb_eq in E. subst first. cbn [s2post]. repeat split. lia.
    - apply (step2_app (length buf)). lia. }
  clearbody X X'.
  destruct X as [|ps|k]; cbn [s2post] in HX.
  - subst X'. reflexivity.
  - destruct HX as (_ & H2 & H3). rewrite Nat.sub_0_r in *.
    rewrite !match_path_vectored_spec, !match_uri_vectored_spec in *.
    pose proof (nth_some_lt _ _ _ H2) as Lps.
    assert (Hc : S ps = length buf \/ S ps < length buf) by lia.
    destruct Hc as [Hc | Hc].
    { exfalso. apply H. rewrite (skipn_last_one _ _ _ H2 Hc).
      cbn [path_tail is_q_or_sp]. replace (ps + 1 - ps) with 1 by lia.
      cbn [firstn uri_tail]. change (is_vchar x2f) with true. cbv iota.
      rewrite Nat.ltb_irrefl.
      assert (E : nth_error buf (ps + 1) = None) by (apply nth_error_None; lia).
      rewrite E. reflexivity. }
    rewrite (H3 Hc). clear H3.
    rewrite !match_path_vectored_spec, !match_uri_vectored_spec.
    rewrite (skipn_app_le buf t ps) by lia.
    set (P := skipn ps buf) in *.
    assert (LP : ps + length P = length buf) by (subst P; rewrite skipn_length; lia).
    pose proof (path_tail_le P) as Ln.
    pose proof (path_tail_app_ge P t) as Ln'.
    set (n := path_tail P) in *. set (n' := path_tail (P ++ t)) in *.
    replace (ps + n - ps) with n in * by lia.
    replace (ps + n' - ps) with n' by lia.
    destruct (Nat.ltb (ps + uri_tail (firstn n P)) (ps + n)) eqn:Elt.
    + apply Nat.ltb_lt in Elt.
      rewrite (uri_tail_window P n n' t) by lia.
      replace (Nat.ltb (ps + uri_tail (firstn n P)) (ps + n')) with true
        by (symmetry; apply Nat.ltb_lt; lia).
      destruct (nth_error buf (ps + uri_tail (firstn n P))) as [b|] eqn:Eb.
      * rewrite (nth_app_some _ t _ _ Eb). destruct (is_crlf_byte b); reflexivity.
      * exfalso. apply nth_error_None in Eb. lia.
    + destruct (nth_error buf (ps + n)) as [c|] eqn:En; [|congruence].
      pose proof (nth_some_lt _ _ _ En) as Li.
      assert (En' : n' = n) by (subst n n'; apply path_tail_app_lt; lia).
      rewrite En'. rewrite (firstn_app_le P t n) by lia. rewrite Elt.
      rewrite (nth_app_some _ t _ _ En).
      rewrite (finish_uri_app buf t (ps + n) ps (ps + n)) by lia.
      destruct c; try reflexivity.
      cbv iota in *.
      destruct (nth_error buf (S (ps + n) + uri_tail (skipn (S (ps + n)) buf))) as [d|] eqn:Ed;
        [|congruence].
      pose proof (nth_some_lt _ _ _ Ed) as Ld.
      rewrite (skipn_app_le buf t (S (ps + n))) by lia.
      rewrite uri_tail_app_lt by (rewrite skipn_length; lia).
      rewrite (nth_app_some _ t _ _ Ed).
      rewrite finish_uri_app by lia.
      destruct d; reflexivity.
  - destruct HX as (_ & H2 & H3). rewrite Nat.sub_0_r in *.
    rewrite !match_uri_vectored_spec in *.
    assert (Hc : k = length buf \/ k < length buf) by lia.
    destruct Hc as [Hc | Hc].
    { exfalso. apply H. subst k. rewrite skipn_all. cbn [uri_tail].
      assert (E : nth_error buf (length buf + 0) = None) by (apply nth_error_None; lia).
      rewrite E. reflexivity. }
    rewrite (H3 Hc). clear H3.
    rewrite !match_uri_vectored_spec.
    rewrite (skipn_app_le buf t k) by lia.
    destruct (nth_error buf (k + uri_tail (skipn k buf))) as [c|] eqn:Ec; [|congruence].
    pose proof (nth_some_lt _ _ _ Ec) as Lc.
    rewrite uri_tail_app_lt by (rewrite skipn_length; lia).
    rewrite (nth_app_some _ t _ _ Ec).
    rewrite finish_uri_app by lia.
    destruct (Nat.eqb (k + uri_tail (skipn k buf)) 0); destruct c; reflexivity.
Qed.

(* ------------------------------------------------------------------ parse_headers *)
Lemma strip_crlf_none_app s t nl :
  strip_prefix [x0d; x0a] s = None -> find_index (Byte.eqb x0a) s = Some nl ->
  strip_prefix [x0d; x0a] (s ++ t) = None.
Proof.
  intros H1 H2.
  destruct (strip_prefix_none_app _ _ t H1) as [H | [Ha Hb]]; [exact H|].
  exfalso. cbn [length] in Hb.
  destruct s as [|c s]; [discriminate|].
  destruct s as [|d s]; [|cbn [length] in Hb; lia].
  cbn [length firstn] in Ha. injection Ha as ->. discriminate.
Qed.

(* same fuel: extension of the input *)
Lemma parse_headers_f_app : forall fuel h s t,
  parse_headers_f fuel h s <> Err EEof ->
  parse_headers_f fuel h (s ++ t) = ext t (parse_headers_f fuel h s).
Proof.
  induction fuel as [|fuel IH]; intros h s t H; [reflexivity|].
  cbn [parse_headers_f] in *.
  destruct (strip_prefix [x0d; x0a] s) as [rest|] eqn:E1.
  { rewrite (strip_prefix_app _ _ t _ E1). reflexivity. }
  destruct (find_index (Byte.eqb x0a) s) as [nl|] eqn:E2; [|congruence].
  rewrite (strip_crlf_none_app s t nl E1 E2), (find_index_app _ _ t _ E2).
  pose proof (find_index_lt _ _ _ E2) as Lnl.
  destruct (Nat.eqb nl 0); [reflexivity|].
  destruct (nth_error s (nl - 1)) as [c|] eqn:E3.
  2:{ exfalso. apply nth_error_None in E3. lia. }
  rewrite (nth_app_some _ t _ _ E3).
  destruct (negb (Byte.eqb c x0d)); [reflexivity|].
  rewrite (firstn_app_le s t (nl - 1)) by lia.
  rewrite (skipn_app_le s t (S nl)) by lia.
  destruct (parse_header_line (firstn (nl - 1) s)) as [[name value]|e|f]; cbn [bind] in *;
    [|reflexivity|reflexivity].
  match goal with |- (if ?c then _ else _) = _ => destruct c; [reflexivity|] end.
  apply IH. exact H.
Qed.

(* more fuel does not change a result other than "out of fuel" *)
Lemma parse_headers_f_fuel : forall n h s m,
  parse_headers_f n h s <> Fault FFuel -> n <= m ->
  parse_headers_f m h s = parse_headers_f n h s.
Proof.
  induction n as [|n IH]; intros h s m H Hm; [exfalso; apply H; reflexivity|].
  destruct m as [|m]; [lia|].
  cbn [parse_headers_f] in *.
  destruct (strip_prefix [x0d; x0a] s); [reflexivity|].
  destruct (find_index (Byte.eqb x0a) s) as [nl|]; [|reflexivity].
  destruct (Nat.eqb nl 0); [reflexivity|].
  destruct (nth_error s (nl - 1)) as [c|]; [|reflexivity].
  destruct (negb (Byte.eqb c x0d)); [reflexivity|].
  destruct (parse_header_line (firstn (nl - 1) s)) as [[name value]|e|f]; cbn [bind] in *;
    [|reflexivity|reflexivity].
  match goal with |- (if ?c then _ else _) = _ => destruct c; [reflexivity|] end.
  apply IH; [exact H | lia].
Qed.

Lemma parse_header_line_no_fuel l : parse_header_line l <> Fault FFuel.
Proof.
  unfold parse_header_line. destruct (find_index (Byte.eqb x3a) l) as [colon|]; [|discriminate].
  match goal with |- (if ?c then _ else _) <> _ => destruct c; [discriminate|] end.
  unfold str_unchecked. destruct (forallb is_ascii (firstn colon l)); discriminate.
Qed.

Lemma parse_headers_f_enough : forall n h s, length s < n -> parse_headers_f n h s <> Fault FFuel.
Proof.
  induction n as [|n IH]; intros h s L; [lia|].
  cbn [parse_headers_f].
  destruct (strip_prefix [x0d; x0a] s); [discriminate|].
  destruct (find_index (Byte.eqb x0a) s) as [nl|] eqn:E2; [|discriminate].
  pose proof (find_index_lt _ _ _ E2) as Lnl.
  destruct (Nat.eqb nl 0); [discriminate|].
  destruct (nth_error s (nl - 1)) as [c|]; [|discriminate].
  destruct (negb (Byte.eqb c x0d)); [discriminate|].
  pose proof (parse_header_line_no_fuel (firstn (nl - 1) s)) as HL.
  destruct (parse_header_line (firstn (nl - 1) s)) as [[name value]|e|f]; cbn [bind];
    [|discriminate|congruence].
  match goal with |- (if ?c then _ else _) <> _ => destruct c; [discriminate|] end.
  apply IH. rewrite skipn_length. lia.
Qed.

Lemma parse_headers_mono : mono parse_headers.
Proof.
  intros s t H. unfold parse_headers in *.
  pose proof (parse_headers_f_enough (S (length s)) new_headers s ltac:(lia)) as HF.
  rewrite <- (parse_headers_f_fuel (S (length s)) new_headers s (S (length (s ++ t))) HF)
    by (rewrite app_length; lia).
  apply parse_headers_f_app.
  rewrite (parse_headers_f_fuel (S (length s)) new_headers s (S (length (s ++ t))) HF)
    by (rewrite app_length; lia).
  exact H.
Qed.

Lemma offset_of_app s rest t : offset_of (s ++ t) (rest ++ t) = offset_of s rest.
Proof.
  unfold offset_of. rewrite !app_length.
  destruct (Nat.leb (length rest) (length s)) eqn:E.
  - apply Nat.leb_le in E.
    replace (Nat.leb (length rest + length t) (length s + length t)) with true
      by (symmetry; apply Nat.leb_le; lia).
    f_equal. lia.
  - apply Nat.leb_gt in E.
    replace (Nat.leb (length rest + length t) (length s + length t)) with false
      by (symmetry; apply Nat.leb_gt; lia).
    reflexivity.
Qed.
