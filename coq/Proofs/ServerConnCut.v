(* Cut lemmas for the strict body recognisers: a recognised body [Valid payload rest] leaves a
   suffix [rest] of its input, and the bytes before that suffix are recognised on their own (and in
   front of any other continuation) with the same payload. *)
From KV Require Import Lib.Bytes Model.Headers Model.Parser Model.Body Model.Server
  Spec.ChunkedSpec Spec.Framing Spec.ConnSpec Proofs.BodyBase Proofs.BodyBaseChunk.

Local Open Scope N_scope.

(* ------------------------------------------------------------------ lines *)
Lemma to_lf_cut l bf r : to_lf l = Some (bf, r) ->
  l = (bf ++ [x0a]) ++ r /\ forall t, to_lf ((bf ++ [x0a]) ++ t) = Some (bf, t).
Proof.
  intros H. apply to_lf_some in H. destruct H as [Hl Hn]. split.
  - rewrite <- app_assoc. exact Hl.
  - intros t. rewrite <- app_assoc. rewrite (to_lf_app_nolf bf _ Hn).
    cbn [List.app to_lf]. rewrite byte_eqb_refl, app_nil_r. reflexivity.
Qed.

Lemma to_lf_app_some a b x y : to_lf a = Some (x, y) -> to_lf (a ++ b) = Some (x, y ++ b).
Proof.
  intros H. destruct (to_lf_cut _ _ _ H) as [Hl Ht]. rewrite Hl at 1.
  rewrite <- app_assoc. apply Ht.
Qed.

Lemma line_crlf_cut l o r : line_crlf l = Some (o, r) ->
  exists pre, l = pre ++ r /\ pre <> [] /\ forall t, line_crlf (pre ++ t) = Some (o, t).
Proof.
  rewrite line_crlf_unfold. destruct (to_lf l) as [[bf r0]|] eqn:E; [|discriminate].
  intros H. destruct (to_lf_cut _ _ _ E) as [Hl Ht].
  assert (Hr : r = r0).
  { destruct (rev bf) as [|x rb]; [inversion H; reflexivity|]. destruct x; inversion H; reflexivity. }
  subst r0. exists (bf ++ [x0a]). split; [exact Hl|]. split.
  - destruct bf; discriminate.
  - intros t. rewrite line_crlf_unfold, Ht.
    destruct (rev bf) as [|x rb]; [inversion H; reflexivity|]. destruct x; inversion H; reflexivity.
Qed.

Lemma line_crlf_app_some a b o y : line_crlf a = Some (o, y) -> line_crlf (a ++ b) = Some (o, y ++ b).
Proof.
  intros H. destruct (line_crlf_cut _ _ _ H) as [pre [Hl [_ Ht]]]. rewrite Hl at 1.
  rewrite <- app_assoc. apply Ht.
Qed.

(* ------------------------------------------------------------------ take_n *)
Lemma take_n_cut n l d a : take_n n l = Some (d, a) ->
  l = d ++ a /\ forall t, take_n n (d ++ t) = Some (d, t).
Proof.
  intros H. apply take_n_some in H. destruct H as [Hl Hn]. split; [exact Hl|].
  intros t. rewrite take_n_app by lia. replace (n - lenN d) with 0 by lia.
  rewrite take_n_0, app_nil_r. reflexivity.
Qed.

Lemma take_n_app_some n a b d y : take_n n a = Some (d, y) -> take_n n (a ++ b) = Some (d, y ++ b).
Proof.
  intros H. destruct (take_n_cut _ _ _ _ H) as [Hl Ht]. rewrite Hl at 1.
  rewrite <- app_assoc. apply Ht.
Qed.

(* ------------------------------------------------------------------ trailer section *)
Lemma dect_cut_n k : forall r rest, (length r <= k)%nat -> dect r = Some (Some rest) ->
  exists pre, r = pre ++ rest /\ pre <> [] /\ forall t, dect (pre ++ t) = Some (Some t).
Proof.
  induction k as [|k IH]; intros r rest Hk H.
  - destruct r; [|cbn [length] in Hk; lia]. vm_compute in H. discriminate.
  - rewrite dect_unfold in H. unfold dect_step in H.
    destruct (line_crlf r) as [[[line|] r1]|] eqn:Elc; try discriminate.
    pose proof (line_crlf_shorter _ _ _ Elc) as Hsh.
    destruct (line_crlf_cut _ _ _ Elc) as [pre [Hl [Hne Ht]]].
    destruct line as [|t0 tl].
    + inversion H. subst r1. exists pre. split; [exact Hl|]. split; [exact Hne|].
      intros t. rewrite dect_unfold. unfold dect_step. rewrite Ht. reflexivity.
    + destruct (forallb text_byte (t0 :: tl)) eqn:Etx; [|discriminate].
      destruct (IH r1 rest ltac:(lia) H) as [pre2 [Hl2 [_ Ht2]]].
      exists (pre ++ pre2). split; [rewrite <- app_assoc, <- Hl2; exact Hl|]. split.
      * destruct pre; [congruence|discriminate].
      * intros t. rewrite dect_unfold. unfold dect_step. rewrite <- app_assoc, Ht, Etx. apply Ht2.
Qed.

Lemma dect_cut r rest : dect r = Some (Some rest) ->
  exists pre, r = pre ++ rest /\ pre <> [] /\ forall t, dect (pre ++ t) = Some (Some t).
Proof. apply (dect_cut_n (length r)). lia. Qed.

(* ------------------------------------------------------------------ chunked *)
Lemma decU_cut_n k : forall l acc p rest, (length l <= k)%nat -> decU l acc = Valid p rest ->
  exists pre, l = pre ++ rest /\ pre <> [] /\ forall t, decU (pre ++ t) acc = Valid p t.
Proof.
  induction k as [|k IH]; intros l acc p rest Hk H.
  - destruct l; [|cbn [length] in Hk; lia]. vm_compute in H. discriminate.
  - rewrite decU_unfold in H.
    destruct (line_crlf l) as [[[line|] r]|] eqn:Elc.
    + pose proof (line_crlf_shorter _ _ _ Elc) as Hsh.
      destruct (line_crlf_cut _ _ _ Elc) as [pre [Hl [Hne Ht]]].
      destruct (take_while hexdig line) as [sz ext] eqn:Etw.
      rewrite (dec_step_line decU l acc line r sz ext Elc Etw) in H.
      destruct (nonempty sz && ext_ok ext) eqn:Eok; [|discriminate].
      unfold size_good in H.
      destruct (negb (wf_ext ext)) eqn:Ewf; [discriminate|].
      destruct (negb (hex_value sz <? 2 ^ 64)) eqn:Elt; [discriminate|].
      destruct (hex_value sz =? 0) eqn:E0.
      * (* last chunk, trailer section *)
        destruct (dect r) as [[r'|]|] eqn:Edt; cbn [trailers_res] in H; try discriminate.
        inversion H. subst p r'.
        destruct (dect_cut _ _ Edt) as [pre2 [Hl2 [_ Ht2]]].
        exists (pre ++ pre2). split; [rewrite <- app_assoc, <- Hl2; exact Hl|]. split.
        -- destruct pre; [congruence|discriminate].
        -- intros t. rewrite decU_unfold.
           rewrite (dec_step_line decU _ acc line (pre2 ++ t) sz ext); [|rewrite <- app_assoc; apply Ht|exact Etw].
           rewrite Eok. unfold size_good. rewrite Ewf, Elt, E0, Ht2. reflexivity.
      * (* chunk data *)
        unfold data_res in H. destruct (take_n (hex_value sz) r) as [[d a]|] eqn:Etn; [|discriminate].
        destruct (take_n_cut _ _ _ _ Etn) as [Hr Htn].
        destruct (after_data_cases decU a (acc ++ d)) as [[r2 [Ea E2]]|[_ [w E2]]];
          rewrite E2 in H; [|discriminate].
        assert (Hlen : (length r2 <= k)%nat).
        { subst a. rewrite Hr, app_length in Hsh. cbn [length] in Hsh. lia. }
        destruct (IH r2 (acc ++ d) p rest Hlen H) as [pre3 [Hl3 [_ Ht3]]].
        exists (pre ++ d ++ x0d :: x0a :: pre3). split; [|split].
        -- rewrite Hl, Hr, Ea, Hl3. rewrite <- !app_assoc. reflexivity.
        -- destruct pre; [congruence|discriminate].
        -- intros t. rewrite decU_unfold.
           rewrite (dec_step_line decU _ acc line (d ++ x0d :: x0a :: pre3 ++ t) sz ext);
             [|rewrite <- !app_assoc; apply Ht|exact Etw].
           rewrite Eok. unfold size_good. rewrite Ewf, Elt, E0. unfold data_res.
           rewrite Htn. cbn [after_data]. apply Ht3.
    + unfold dec_step in H. rewrite Elc in H. discriminate.
    + destruct (dec_step_noline decU l acc Elc) as [w Hw]. rewrite Hw in H. discriminate.
Qed.

Lemma decU_cut l acc p rest : decU l acc = Valid p rest ->
  exists pre, l = pre ++ rest /\ pre <> [] /\ forall t, decU (pre ++ t) acc = Valid p t.
Proof. apply (decU_cut_n (length l)). lia. Qed.

Lemma spec_decode_decU l : spec_decode l = decU l [].
Proof. reflexivity. Qed.

(* the strong form: the body's own bytes are recognised in front of any continuation *)
Lemma spec_decode_cut_app : forall l p rest, spec_decode l = Valid p rest ->
  exists l', l = l' ++ rest /\ l' <> [] /\ forall t, spec_decode (l' ++ t) = Valid p t.
Proof.
  intros l p rest H. rewrite spec_decode_decU in H.
  destruct (decU_cut _ _ _ _ H) as [pre [Hl [Hne Ht]]].
  exists pre. split; [exact Hl|]. split; [exact Hne|].
  intros t. rewrite spec_decode_decU. apply Ht.
Qed.

Lemma spec_decode_cut : forall l p rest, spec_decode l = Valid p rest ->
  exists l', l = l' ++ rest /\ spec_decode l' = Valid p [].
Proof.
  intros l p rest H. destruct (spec_decode_cut_app _ _ _ H) as [l' [Hl [_ Ht]]].
  exists l'. split; [exact Hl|]. specialize (Ht []). rewrite app_nil_r in Ht. exact Ht.
Qed.

Lemma spec_decode_nonempty : forall l p rest, spec_decode l = Valid p rest -> l <> [].
Proof.
  intros l p rest H. destruct (spec_decode_cut_app _ _ _ H) as [l' [Hl [Hne _]]].
  subst l. destruct l'; [congruence|discriminate].
Qed.

(* ------------------------------------------------------------------ fixed length *)
Lemma spec_fixed_cut_app : forall n l p rest, spec_fixed n l = Valid p rest ->
  l = p ++ rest /\ forall t, spec_fixed n (p ++ t) = Valid p t.
Proof.
  intros n l p rest H. unfold spec_fixed in H.
  destruct (take_n n l) as [[d a]|] eqn:E; [|discriminate]. inversion H. subst d a.
  destruct (take_n_cut _ _ _ _ E) as [Hl Ht]. split; [exact Hl|].
  intros t. unfold spec_fixed. rewrite Ht. reflexivity.
Qed.

Lemma spec_fixed_cut : forall n l p rest, spec_fixed n l = Valid p rest ->
  exists l', l = l' ++ rest /\ spec_fixed n l' = Valid p [].
Proof.
  intros n l p rest H. destruct (spec_fixed_cut_app _ _ _ _ H) as [Hl Ht].
  exists p. split; [exact Hl|]. specialize (Ht []). rewrite app_nil_r in Ht. exact Ht.
Qed.

(* ------------------------------------------------------------------ view_body *)
Lemma view_body_cut_app : forall f ah p rest, view_body f ah = BodyOk p rest ->
  exists ah', ah = ah' ++ rest /\ forall t, view_body f (ah' ++ t) = BodyOk p t.
Proof.
  intros f ah p rest H. destruct f as [| n | |]; cbn [view_body] in H.
  - destruct (spec_decode ah) as [p' r'| |] eqn:E; try discriminate. inversion H. subst p' r'.
    destruct (spec_decode_cut_app _ _ _ E) as [l' [Hl [_ Ht]]]. exists l'. split; [exact Hl|].
    intros t. cbn [view_body]. rewrite Ht. reflexivity.
  - destruct (spec_fixed n ah) as [p' r'| |] eqn:E; try discriminate. inversion H. subst p' r'.
    destruct (spec_fixed_cut_app _ _ _ _ E) as [Hl Ht]. exists p. split; [exact Hl|].
    intros t. cbn [view_body]. rewrite Ht. reflexivity.
  - inversion H; subst. exists []. split; [reflexivity|]. intros t. reflexivity.
  - discriminate.
Qed.

Lemma view_body_cut : forall f ah p rest, view_body f ah = BodyOk p rest ->
  exists ah', ah = ah' ++ rest /\ view_body f ah' = BodyOk p [].
Proof.
  intros f ah p rest H. destruct (view_body_cut_app _ _ _ _ H) as [ah' [Hl Ht]].
  exists ah'. split; [exact Hl|]. specialize (Ht []). rewrite app_nil_r in Ht. exact Ht.
Qed.

(* ------------------------------------------------------------------ sanity checks *)
Example cut_example :
  spec_decode (bs "3" ++ CRLF ++ bs "abc" ++ CRLF ++ bs "0" ++ CRLF ++ bs "T: v" ++ CRLF ++ CRLF ++ bs "GET /")
  = Valid (bs "abc") (bs "GET /") /\
  spec_decode (bs "3" ++ CRLF ++ bs "abc" ++ CRLF ++ bs "0" ++ CRLF ++ bs "T: v" ++ CRLF ++ CRLF)
  = Valid (bs "abc") [].
Proof. split; vm_compute; reflexivity. Qed.

Print Assumptions spec_decode_cut.
Print Assumptions spec_fixed_cut.
Print Assumptions view_body_cut.
Print Assumptions spec_decode_nonempty.
Print Assumptions view_body_cut_app.
