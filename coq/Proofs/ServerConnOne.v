(* C07 — one request on a connection: responses, keep-alive decision and the position of the inbound
   stream afterwards, against the sequential specification (Spec/ConnSpec.v). *)
From KV Require Import Lib.Bytes Model.Headers Model.Parser Model.Body Model.Server
  Spec.HeaderStore Spec.HttpGrammar Spec.ChunkedSpec Spec.Framing Spec.ConnSpec Spec.ConnKnown
  Proofs.Headers Proofs.ParserSound Proofs.ParserSafe Proofs.BodyBase Proofs.BodyBaseChunk
  Proofs.ServerFraming Proofs.ServerConnBase Proofs.ServerConnSrc Proofs.ServerConnBody Proofs.ServerConnHead
  Proofs.ServerHead.

(* ------------------------------------------------------------------ the close token of an accepted head *)
Lemma sc_headers_of_hrun_gen : forall fs h,
  fold_left (fun h nv => add h (fst nv) (snd nv)) fs h =
  fold_left hstep (map (fun nv => OAdd (fst nv) (snd nv)) fs) h.
Proof. induction fs as [|f fs IH]; intros h; [reflexivity|]. cbn [fold_left map hstep]. apply IH. Qed.

Lemma sc_spec_stored_adds_gen : forall fs acc,
  fold_left store_step (map (fun nv => OAdd (fst nv) (snd nv)) fs) acc =
  acc ++ filter (fun f => negb (is_cl (fst f))) fs.
Proof.
  induction fs as [|f fs IH]; intros acc.
  - cbn [map fold_left filter]. rewrite app_nil_r. reflexivity.
  - cbn [map fold_left filter store_step]. rewrite IH.
    destruct (is_cl (fst f)) eqn:E; cbn [negb].
    + reflexivity.
    + rewrite <- app_assoc. cbn [List.app]. destruct f as [n v]. reflexivity.
Qed.

Lemma sc_close_fields fs : connection_close (headers_of fs) = eval_close fs.
Proof.
  unfold headers_of. rewrite sc_headers_of_hrun_gen. fold (hrun (map (fun nv => OAdd (fst nv) (snd nv)) fs)).
  destruct (headers_inv (map (fun nv => OAdd (fst nv) (snd nv)) fs)) as [Hs [_ [Hc _]]].
  rewrite Hc, Hs. unfold spec_stored. rewrite sc_spec_stored_adds_gen. cbn [List.app].
  unfold eval_close. apply (eval_filter_other (bs "connection") (bs "close") (bs "content-length")).
  vm_compute. reflexivity.
Qed.

Lemma close_agrees s r : parse_request s = Ok r -> connection_close (q_hdrs r) = eval_close (raw_fields s).
Proof.
  intros H. apply request_sound in H. destruct H as [sh [Hs [_ [_ [_ Hh]]]]].
  unfold raw_fields. rewrite Hs, Hh. apply sc_close_fields.
Qed.

(* ------------------------------------------------------------------ the reader the server builds *)
Definition cut_src (leftover : bytes) (unread later : list bytes) (tk : option N) : src :=
  {| bbuf := []; lo := leftover; segs := unread;
     sfuel := 4 * S (length leftover + length (concat (unread ++ later))) + 8; stake := tk |}.

Lemma cut_src_Bound leftover unread later tk : Bound (cut_src leftover unread later tk).
Proof.
  unfold Bound, cut_src, reach. cbn [bbuf lo segs sfuel stake List.app].
  pose proof (length_tail3_le leftover unread tk) as H. rewrite app_length in H.
  rewrite concat_app, app_length. lia.
Qed.

Lemma init_VB later leftover unread h payload :
  server_framing' h <> FReject ->
  view_body (server_framing' h) (leftover ++ concat unread) = BodyOk payload [] ->
  exists b0, from_request leftover (unread ++ later) h = bext later b0 /\ VB b0 [] payload /\
             Full (body_src b0) /\ segs (body_src b0) = unread.
Proof.
  intros Hne Hv. rewrite (reader_of_framing _ _ _ Hne).
  destruct (server_framing' h) as [|n| |] eqn:Ef; cbn [view_body] in Hv.
  - destruct (spec_decode (leftover ++ concat unread)) as [p rest|w|] eqn:Es; try discriminate.
    inversion Hv. subst p rest.
    exists (BChunked {| c_src := cut_src leftover unread later None; c_state := CSize; c_remaining := 0 |}).
    split; [reflexivity|]. split; [|split; [exact I|reflexivity]].
    cbn [VB]. split; [apply cut_src_Bound|]. exact Es.
  - destruct (spec_fixed n (leftover ++ concat unread)) as [p rest|w|] eqn:Es; try discriminate.
    inversion Hv. subst p rest. unfold spec_fixed in Es.
    destruct (take_n n (leftover ++ concat unread)) as [[d x]|] eqn:Et; [|discriminate]. inversion Es. subst d x.
    exists (BFixed {| f_src := cut_src leftover unread later (Some n); f_remaining := n |}).
    split; [reflexivity|]. split; [|split; [|reflexivity]].
    + cbn [VB f_src f_remaining]. split; [apply cut_src_Bound|]. exists payload. split; [|reflexivity].
      exact (take_n_firstnN _ _ _ _ Et).
    + unfold Full. cbn [body_src f_src cut_src stake lo segs].
      apply take_n_some in Et. destruct Et as [E1 E2]. rewrite E1, app_nil_r, E2. apply N.le_refl.
  - inversion Hv. subst payload.
    exists (BEmpty (cut_src leftover unread later None)).
    split; [reflexivity|]. split; [|split; [exact I|reflexivity]].
    cbn [VB]. split; [apply cut_src_Bound|]. split; [|reflexivity].
    unfold reach, cut_src, tail3. cbn [bbuf lo segs stake List.app]. assumption.
  - contradiction.
Qed.

(* ------------------------------------------------------------------ the specification on a readable body *)
Lemma spec_one_ok a r raw ah payload rest : rfc_framing raw <> FReject ->
  view_body (rfc_framing raw) ah = BodyOk payload rest ->
  spec_one a r raw ah =
  match hook_of a r with
  | HAnswer => ([ev 200 (bs "hook") false], negb (eval_close raw) && true, rest)
  | HAnswerClose => ([ev 200 (bs "hook") true], false, rest)
  | HProceed =>
      match behaviour_of a r with
      | BAll => ([ev 200 (describe a r payload) false], negb (eval_close raw), rest)
      | BReadK k => ([ev 200 (describe a r (firstn_bytes k payload)) false], negb (eval_close raw) && true, rest)
      | BNone st => ([ev st (describe a r []) false], negb (eval_close raw) && true, rest)
      | BFirst => ([ev 200 (describe a r []) false], negb (eval_close raw) && true, rest)
      | BHold => ([ev 200 (describe a r []) false], negb (eval_close raw) && true, rest)
      | BErr => ([], false, [])
      | BErrAfter => ([ev 200 (describe a r []) false], false, [])
      | BClose => ([ev 200 (describe a r []) true], false, rest)
      | BReader n => ([ev 200 (reader_payload n) false], negb (eval_close raw) && true, rest)
      end
  end.
Proof.
  intros Hne Hv. unfold spec_one.
  destruct (rfc_framing raw); try contradiction; rewrite Hv; reflexivity.
Qed.

(* ------------------------------------------------------------------ position after the reader is dropped *)
Lemma drop_pos later reqsegs b0 b' acc p : Full (body_src b0) -> TailOf reqsegs (segs (body_src b0)) ->
  R (body_src b0) (body_src b') -> VB b' acc p ->
  exists pre z, reqsegs = pre ++ z /\ concat z = [] /\ after_drop (bext later b') = z ++ later.
Proof.
  intros Hf Ht [[HR1 HR2] _] HV.
  destruct (after_drop_VB later reqsegs b' acc p HV (HR2 Hf) (TailOf_trans _ _ _ Ht HR1)) as [z [Z1 [Z2 Z3]]].
  destruct (TailOf_empty _ _ Z3 Z2) as [pre Hpre]. exists pre, z. repeat split; assumption.
Qed.

(* ------------------------------------------------------------------ one request *)
Theorem one_request_boundary_gen : forall a N ka reqsegs later r raw,
  parse_request (firstn N (concat reqsegs)) = Ok r ->
  raw = raw_fields (firstn N (concat reqsegs)) ->
  (exists payload, rfc_framing raw <> FReject /\
     view_body (rfc_framing raw) (skipn (q_offset r) (concat reqsegs)) = BodyOk payload []) ->
  let o := handle_one_request a N ka (reqsegs ++ later) in
  let '(resps, keep, _) := spec_one a r raw (skipn (q_offset r) (concat reqsegs)) in
  o_resps o = resps /\ (o_ok o = true -> o_keep o = (keep && ka && negb (existsb rs_close resps))) /\
  (o_ok o = false -> keep = false) /\ o_eof o = false /\
  (* the server stands exactly behind the body: only segments without bytes can be left of this request *)
  exists pre z, reqsegs = pre ++ z /\ concat z = [] /\ o_rest o = z ++ later.
Proof.
  intros a N ka reqsegs later r raw Hparse Hraw [payload [Hnr Hview]].
  destruct (read_request_split (S (length (reqsegs ++ later)) + length (concat (reqsegs ++ later))) N reqsegs later r Hparse)
    as [buf [unread [Hrr [Hcat [Htail [Hlen Hpb]]]]]].
  { rewrite concat_app, !app_length. lia. }
  pose proof (framing_decision _ _ Hparse) as Hfr. rewrite <- Hraw in Hfr.
  pose proof (close_agrees _ _ Hparse) as Hcl. rewrite <- Hraw in Hcl.
  destruct (request_fields_safe _ _ Hpb) as [Hoff _].
  assert (Hah : skipn (q_offset r) (concat reqsegs) = skipn (q_offset r) buf ++ concat unread).
  { rewrite <- Hcat, skipn_app. replace (q_offset r - length buf) with 0 by lia. reflexivity. }
  rewrite Hah in *.
  destruct (init_VB later (skipn (q_offset r) buf) unread (q_hdrs r) payload) as [b0 [Hb0 [HV [Hfull Hsegs]]]].
  { rewrite Hfr. exact Hnr. }
  { rewrite Hfr. exact Hview. }
  assert (Ht0 : TailOf reqsegs (segs (body_src b0))) by (rewrite Hsegs; exact Htail).
  assert (Hlt : length payload < body_fuel b0).
  { destruct (VB_rest _ _ _ HV) as [q [Hq Hl]]. cbn [List.app] in Hq. subst q. exact Hl. }
  rewrite (spec_one_ok a r raw _ payload [] Hnr Hview).
  cbv zeta. unfold handle_one_request.
  match goal with |- context [read_request ?f ?n ?x ?y] =>
    replace (read_request f n x y) with (RParsed buf r, unread ++ later) by (symmetry; exact Hrr) end.
  assert (Hte : te_present (q_hdrs r) && negb (te_final_chunked (q_hdrs r)) = false).
  { destruct (te_present (q_hdrs r) && negb (te_final_chunked (q_hdrs r))) eqn:E; [|reflexivity].
    exfalso. apply Hnr. rewrite <- Hfr. unfold server_framing'. rewrite E. reflexivity. }
  rewrite Hte, Hb0, Hcl.
  destruct (hook_of a r) eqn:Eh.
  - (* the handler runs *)
    unfold run_handler. destruct (behaviour_of a r) as [|k|st| | | | | |n] eqn:Eb.
    + (* BAll *)
      destruct (read_to_end_VB later (body_fuel b0) b0 [] payload payload HV eq_refl Hlt) as [b' [_ [E2 [HV' HR']]]].
      rewrite body_fuel_bext, E2. cbn [o_resps o_keep o_ok o_rest o_eof existsb rs_close ev orb negb]. rewrite ?(located_VB later b' _ _ HV').
      split; [reflexivity|]. split; [intros _; destruct ka, (eval_close raw); reflexivity|]. split; [discriminate|]. split; [reflexivity|].
      exact (drop_pos later reqsegs b0 b' _ _ Hfull Ht0 HR' HV').
    + (* BReadK *)
      destruct (read_k_VB later (body_fuel b0) k b0 [] payload payload HV eq_refl Hlt) as [b' [_ [E2 [HV' HR']]]].
      cbn [List.app] in E2, HV'.
      rewrite body_fuel_bext, E2. cbn [o_resps o_keep o_ok o_rest o_eof existsb rs_close ev orb negb]. rewrite ?(located_VB later b' _ _ HV').
      split; [reflexivity|]. split; [intros _; destruct ka, (eval_close raw); reflexivity|]. split; [discriminate|]. split; [reflexivity|].
      exact (drop_pos later reqsegs b0 b' _ _ Hfull Ht0 HR' HV').
    + (* BNone *)
      cbn [o_resps o_keep o_ok o_rest o_eof existsb rs_close ev orb negb]. rewrite ?(located_VB later b0 _ _ HV).
      split; [reflexivity|]. split; [intros _; destruct ka, (eval_close raw); reflexivity|]. split; [discriminate|]. split; [reflexivity|].
      exact (drop_pos later reqsegs b0 b0 _ _ Hfull Ht0 (R_refl _) HV).
    + (* BFirst *)
      destruct (read_to_end_VB later (body_fuel b0) b0 [] payload payload HV eq_refl Hlt) as [b' [_ [E2 [HV' HR']]]].
      rewrite body_fuel_bext, E2. cbn [o_resps o_keep o_ok o_rest o_eof existsb rs_close ev orb negb]. rewrite ?(located_VB later b' _ _ HV').
      split; [reflexivity|]. split; [intros _; destruct ka, (eval_close raw); reflexivity|]. split; [discriminate|]. split; [reflexivity|].
      exact (drop_pos later reqsegs b0 b' _ _ Hfull Ht0 HR' HV').
    + (* BHold *)
      cbn [o_resps o_keep o_ok o_rest o_eof existsb rs_close ev orb negb]. rewrite ?(located_VB later b0 _ _ HV).
      split; [reflexivity|]. split; [intros _; destruct ka, (eval_close raw); reflexivity|]. split; [discriminate|]. split; [reflexivity|].
      exact (drop_pos later reqsegs b0 b0 _ _ Hfull Ht0 (R_refl _) HV).
    + (* BErr *)
      cbn [o_resps o_keep o_ok o_rest o_eof existsb rs_close ev orb negb]. rewrite ?(located_VB later b0 _ _ HV).
      split; [reflexivity|]. split; [discriminate|]. split; [reflexivity|]. split; [reflexivity|].
      exact (drop_pos later reqsegs b0 b0 _ _ Hfull Ht0 (R_refl _) HV).
    + (* BErrAfter *)
      cbn [o_resps o_keep o_ok o_rest o_eof existsb rs_close ev orb negb]. rewrite ?(located_VB later b0 _ _ HV).
      split; [reflexivity|]. split; [discriminate|]. split; [reflexivity|]. split; [reflexivity|].
      exact (drop_pos later reqsegs b0 b0 _ _ Hfull Ht0 (R_refl _) HV).
    + (* BClose *)
      cbn [o_resps o_keep o_ok o_rest o_eof existsb rs_close ev orb negb]. rewrite ?(located_VB later b0 _ _ HV).
      split; [reflexivity|]. split; [intros _; destruct ka, (eval_close raw); reflexivity|]. split; [discriminate|]. split; [reflexivity|].
      exact (drop_pos later reqsegs b0 b0 _ _ Hfull Ht0 (R_refl _) HV).
    + (* BReader *)
      cbn [o_resps o_keep o_ok o_rest o_eof existsb rs_close ev orb negb]. rewrite ?(located_VB later b0 _ _ HV).
      split; [reflexivity|]. split; [intros _; destruct ka, (eval_close raw); reflexivity|]. split; [discriminate|]. split; [reflexivity|].
      exact (drop_pos later reqsegs b0 b0 _ _ Hfull Ht0 (R_refl _) HV).
  - (* the hook answers *)
    cbn [o_resps o_keep o_ok o_rest o_eof existsb rs_close ev orb negb]. rewrite ?(located_VB later b0 _ _ HV).
    split; [reflexivity|]. split; [intros _; destruct ka, (eval_close raw); reflexivity|]. split; [discriminate|]. split; [reflexivity|].
    exact (drop_pos later reqsegs b0 b0 _ _ Hfull Ht0 (R_refl _) HV).
  - cbn [o_resps o_keep o_ok o_rest o_eof existsb rs_close ev orb negb]. rewrite ?(located_VB later b0 _ _ HV).
    split; [reflexivity|]. split; [intros _; destruct ka, (eval_close raw); reflexivity|]. split; [discriminate|]. split; [reflexivity|].
    exact (drop_pos later reqsegs b0 b0 _ _ Hfull Ht0 (R_refl _) HV).
Qed.

(* (fix F21) the new cause of closing never applies to a well-framed request: whatever the handler reads, the discard of
   the rest reaches the end of the body *)
Theorem wellframed_located : forall a N reqsegs later r raw buf rest,
  parse_request (firstn N (concat reqsegs)) = Ok r ->
  raw = raw_fields (firstn N (concat reqsegs)) ->
  (exists payload, rfc_framing raw <> FReject /\
     view_body (rfc_framing raw) (skipn (q_offset r) (concat reqsegs)) = BodyOk payload []) ->
  read_request (S (length (reqsegs ++ later)) + length (concat (reqsegs ++ later))) N [] (reqsegs ++ later)
    = (RParsed buf r, rest) ->
  let b := from_request (skipn (q_offset r) buf) rest (q_hdrs r) in
  located false b = true /\ end_located a r b = true.
Proof.
  intros a N reqsegs later r raw buf0 rest0 Hparse Hraw [payload [Hnr Hview]] Hrr0.
  destruct (read_request_split (S (length (reqsegs ++ later)) + length (concat (reqsegs ++ later))) N reqsegs later r Hparse)
    as [buf [unread [Hrr [Hcat [Htail [Hlen Hpb]]]]]].
  { rewrite concat_app, !app_length. lia. }
  unfold bytes in *. rewrite Hrr in Hrr0. inversion Hrr0. subst buf0 rest0. clear Hrr0.
  pose proof (framing_decision _ _ Hparse) as Hfr. rewrite <- Hraw in Hfr.
  destruct (request_fields_safe _ _ Hpb) as [Hoff _].
  assert (Hah : skipn (q_offset r) (concat reqsegs) = skipn (q_offset r) buf ++ concat unread).
  { rewrite <- Hcat, skipn_app. replace (q_offset r - length buf) with 0 by lia. reflexivity. }
  rewrite Hah in *.
  destruct (init_VB later (skipn (q_offset r) buf) unread (q_hdrs r) payload) as [b0 [Hb0 [HV [Hfull Hsegs]]]].
  { rewrite Hfr. exact Hnr. }
  { rewrite Hfr. exact Hview. }
  assert (Hlt : length payload < body_fuel b0).
  { destruct (VB_rest _ _ _ HV) as [q [Hq Hl]]. cbn [List.app] in Hq. subst q. exact Hl. }
  cbv zeta. rewrite Hb0. split; [exact (located_VB later b0 _ _ HV)|].
  unfold end_located, reader_after_handler.
  destruct (behaviour_of a r) as [|k|st| | | | | |n]; try exact (located_VB later b0 _ _ HV).
  - destruct (read_to_end_VB later (body_fuel b0) b0 [] payload payload HV eq_refl Hlt) as [b' [_ [E2 [HV' _]]]].
    rewrite body_fuel_bext, E2. cbn [read_failed]. exact (located_VB later b' _ _ HV').
  - destruct (read_k_VB later (body_fuel b0) k b0 [] payload payload HV eq_refl Hlt) as [b' [_ [E2 [HV' _]]]].
    cbn [List.app] in E2, HV'.
    rewrite body_fuel_bext, E2. cbn [read_failed]. exact (located_VB later b' _ _ HV').
  - destruct (read_to_end_VB later (body_fuel b0) b0 [] payload payload HV eq_refl Hlt) as [b' [_ [E2 [HV' _]]]].
    rewrite body_fuel_bext, E2. cbn [read_failed]. exact (located_VB later b' _ _ HV').
Qed.

(* ... so that for a well-framed request the keep-alive decision has exactly the four causes it had before the repair *)
Theorem keep_decision_wellframed : forall a N ka reqsegs later r raw,
  parse_request (firstn N (concat reqsegs)) = Ok r ->
  raw = raw_fields (firstn N (concat reqsegs)) ->
  (exists payload, rfc_framing raw <> FReject /\
     view_body (rfc_framing raw) (skipn (q_offset r) (concat reqsegs)) = BodyOk payload []) ->
  let o := handle_one_request a N ka (reqsegs ++ later) in
  o_keep o = (o_ok o && negb (connection_close (q_hdrs r)) && ka && negb (existsb rs_close (o_resps o))).
Proof.
  intros a N ka reqsegs later r raw Hparse Hraw Hbody.
  destruct (read_request_split (S (length (reqsegs ++ later)) + length (concat (reqsegs ++ later))) N reqsegs later r Hparse)
    as [buf [unread [Hrr _]]].
  { rewrite concat_app, !app_length. lia. }
  destruct (wellframed_located a N reqsegs later r raw buf (unread ++ later) Hparse Hraw Hbody Hrr) as [L1 L2].
  cbv zeta in L1, L2.
  pose proof (framing_decision _ _ Hparse) as Hfr. rewrite <- Hraw in Hfr.
  assert (Hte : te_present (q_hdrs r) && negb (te_final_chunked (q_hdrs r)) = false).
  { destruct (te_present (q_hdrs r) && negb (te_final_chunked (q_hdrs r))) eqn:E; [|reflexivity].
    exfalso. destruct Hbody as [payload [Hnr _]]. apply Hnr. rewrite <- Hfr. unfold server_framing'. rewrite E. reflexivity. }
  cbv zeta. destruct (hook_of a r) eqn:Eh.
  - pose proof (keep_decision a N ka (reqsegs ++ later) buf r (unread ++ later) Hrr Hte Eh) as K. cbv zeta in K.
    rewrite K, L2, andb_true_r. reflexivity.
  - assert (Hh : hook_of a r <> HProceed) by (rewrite Eh; discriminate).
    pose proof (keep_decision_hook a N ka (reqsegs ++ later) buf r (unread ++ later) Hrr Hte Hh) as K. cbv zeta in K.
    rewrite K, L1, andb_true_r.
    assert (Hok : o_ok (handle_one_request a N ka (reqsegs ++ later)) = true).
    { unfold handle_one_request. unfold bytes in *. rewrite Hrr, Hte, Eh. reflexivity. }
    rewrite Hok. reflexivity.
  - assert (Hh : hook_of a r <> HProceed) by (rewrite Eh; discriminate).
    pose proof (keep_decision_hook a N ka (reqsegs ++ later) buf r (unread ++ later) Hrr Hte Hh) as K. cbv zeta in K.
    rewrite K, L1, andb_true_r.
    assert (Hok : o_ok (handle_one_request a N ka (reqsegs ++ later)) = true).
    { unfold handle_one_request. unfold bytes in *. rewrite Hrr, Hte, Eh. reflexivity. }
    rewrite Hok. reflexivity.
Qed.

(* segments without bytes *)
Lemma concat_nil_all (z : list bytes) : concat z = [] -> Forall (fun g => g = []) z.
Proof.
  induction z as [|g z IH]; intros H; [constructor|]. cbn [concat] in H. apply app_eq_nil in H.
  destruct H as [H1 H2]. constructor; [exact H1|exact (IH H2)].
Qed.

Lemma concat_nil_last (z : list bytes) : concat z = [] -> z <> [] -> exists z', z = z' ++ [[]].
Proof.
  intros Hc Hz. exists (removelast z). rewrite (app_removelast_last [] Hz) at 1. f_equal. f_equal.
  apply concat_nil_all in Hc. rewrite Forall_forall in Hc. apply Hc.
  destruct z as [|g z]; [congruence|]. apply (@exists_last _ (g :: z)) in Hz. destruct Hz as [l' [a Hl]].
  rewrite Hl, last_last. apply in_or_app. right. left. reflexivity.
Qed.

(* the pinned statement of C07_one_request needs one more hypothesis: the request's segments do not end
   with a segment without bytes (counterexample: reqsegs = [head; []]: the empty segment stays in front
   of [later]).  This is the weakest such hypothesis. *)
Theorem one_request_boundary_partial : forall a N ka reqsegs later r raw,
  (forall pre, reqsegs <> pre ++ [[]]) ->
  parse_request (firstn N (concat reqsegs)) = Ok r ->
  raw = raw_fields (firstn N (concat reqsegs)) ->
  Forall (fun g => g <> []) later ->
  (exists payload, rfc_framing raw <> FReject /\
     view_body (rfc_framing raw) (skipn (q_offset r) (concat reqsegs)) = BodyOk payload []) ->
  let o := handle_one_request a N ka (reqsegs ++ later) in
  let '(resps, keep, _) := spec_one a r raw (skipn (q_offset r) (concat reqsegs)) in
  o_resps o = resps /\ (o_ok o = true -> o_keep o = (keep && ka && negb (existsb rs_close resps))) /\
  (o_ok o = true -> o_keep o = true -> o_rest o = later).
Proof.
  intros a N ka reqsegs later r raw Hne Hparse Hraw _ Hbody.
  pose proof (one_request_boundary_gen a N ka reqsegs later r raw Hparse Hraw Hbody) as H.
  cbv zeta in H |- *.
  destruct (spec_one a r raw (skipn (q_offset r) (concat reqsegs))) as [[resps keep] rest].
  destruct H as [H1 [H2 [_ [_ [pre [z [Hz1 [Hz2 Hz3]]]]]]]].
  split; [exact H1|]. split; [exact H2|]. intros _ _. rewrite Hz3.
  assert (z = []) as ->; [|reflexivity].
  destruct z as [|g z]; [reflexivity|]. exfalso.
  destruct (concat_nil_last (g :: z) Hz2 ltac:(discriminate)) as [z' Hz'].
  apply (Hne (pre ++ z')). rewrite Hz1, Hz', app_assoc. reflexivity.
Qed.

(* in particular when no segment of the request is empty *)
Corollary one_request_boundary_nonempty : forall a N ka reqsegs later r raw,
  Forall (fun g => g <> []) reqsegs ->
  parse_request (firstn N (concat reqsegs)) = Ok r ->
  raw = raw_fields (firstn N (concat reqsegs)) ->
  Forall (fun g => g <> []) later ->
  (exists payload, rfc_framing raw <> FReject /\
     view_body (rfc_framing raw) (skipn (q_offset r) (concat reqsegs)) = BodyOk payload []) ->
  let o := handle_one_request a N ka (reqsegs ++ later) in
  let '(resps, keep, _) := spec_one a r raw (skipn (q_offset r) (concat reqsegs)) in
  o_resps o = resps /\ (o_ok o = true -> o_keep o = (keep && ka && negb (existsb rs_close resps))) /\
  (o_ok o = true -> o_keep o = true -> o_rest o = later).
Proof.
  intros a N ka reqsegs later r raw Hne. apply one_request_boundary_partial.
  intros pre E. rewrite E in Hne. apply Forall_app in Hne. destruct Hne as [_ Hne].
  inversion Hne as [|g l Hg Hl]. congruence.
Qed.
