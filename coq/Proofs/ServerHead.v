(* Proofs for C10 (request-head size limit) and C09 (keep-alive decision) over Model/Server.v. *)
From Coq Require Import Lia.
From KV Require Import Lib.Bytes Model.Headers Model.Parser Model.Body Model.Server
  Spec.HeaderStore Spec.HttpGrammar
  Proofs.ParserMono Proofs.ParserSafe Proofs.Headers Proofs.BodyBase.

(* ------------------------------------------------------------------ small list facts *)
Lemma is_prefix_app_self p : forall t, is_prefix p (p ++ t) = true.
Proof.
  induction p as [|x p IH]; intros t; [reflexivity|].
  cbn [Datatypes.app is_prefix]. rewrite IH.
  assert (E : Byte.eqb x x = true) by (apply byte_eqb_eq; reflexivity).
  rewrite E. reflexivity.
Qed.

Lemma firstn_app_prefix {A} (n : nat) (p t : list A) : length p <= n ->
  firstn n (p ++ t) = p ++ firstn (n - length p) t.
Proof.
  intros H. rewrite firstn_app. rewrite firstn_all2 by exact H. reflexivity.
Qed.

Lemma lenN_le_nat out n : (lenN out <= N.of_nat n)%N -> length out <= n.
Proof. unfold lenN. lia. Qed.

(* ------------------------------------------------------------------ read_request: the loop invariant *)
(* the classification of the loop's answer by the parse of the first N bytes of the whole stream *)
Definition rr_post (N : nat) (T : bytes) (res : rr) : Prop :=
  match parse_request (firstn N T) with
  | Ok r => exists buf t, res = RParsed buf r /\ T = buf ++ t /\ length buf <= N
  | Err EEof => if Nat.leb N (length T) then res = RTooLarge else res = REof
  | Err _ => res = RInvalid
  | Fault _ => False
  end.

Lemma read_request_inv : forall fuel N filled sg,
  length filled <= N ->
  parse_request filled = Err EEof ->
  length (concat sg) < fuel ->
  rr_post N (filled ++ concat sg) (fst (read_request fuel N filled sg)).
Proof.
  induction fuel as [|fuel IH]; intros N filled sg HlenF HpF Hfuel; [lia|].
  cbn [read_request].
  destruct (Nat.eqb_spec (length filled) N) as [EN|EN].
  - (* the buffer is full *)
    cbn [fst]. unfold rr_post.
    rewrite firstn_app_prefix by lia. rewrite EN, Nat.sub_diag. cbn [firstn]. rewrite app_nil_r, HpF.
    assert (L : Nat.leb N (length (filled ++ concat sg)) = true).
    { apply Nat.leb_le. rewrite app_length. lia. }
    rewrite L. reflexivity.
  - destruct (stream_read (N.of_nat (N - length filled)) sg) as [out sg'] eqn:Esr.
    apply stream_read_spec in Esr. destruct Esr as [Hcat [Hlen Hemp]].
    apply lenN_le_nat in Hlen.
    destruct out as [|x out'].
    + (* the peer closed *)
      cbn [fst]. assert (Hc : concat sg = []) by (apply Hemp; [lia|reflexivity]).
      unfold rr_post. rewrite Hc, app_nil_r. rewrite firstn_all2 by lia. rewrite HpF.
      assert (L : Nat.leb N (length filled) = false) by (apply Nat.leb_gt; lia).
      rewrite L. reflexivity.
    + remember (x :: out') as out eqn:Eout.
      assert (Hne : 0 < length out) by (subst out; cbn [length]; lia).
      assert (HlenB : length (filled ++ out) <= N) by (rewrite app_length; lia).
      assert (HT : filled ++ concat sg = (filled ++ out) ++ concat sg').
      { rewrite Hcat, app_assoc. reflexivity. }
      assert (Hsmall : length (concat sg') < fuel).
      { rewrite Hcat, app_length in Hfuel. lia. }
      destruct (parse_request (filled ++ out)) as [r|e|f] eqn:Ep.
      * cbn [fst]. unfold rr_post. rewrite HT. rewrite firstn_app_prefix by exact HlenB.
        rewrite request_stable by (rewrite Ep; discriminate). rewrite Ep.
        exists (filled ++ out), (concat sg'). repeat split. exact HlenB.
      * destruct e.
        -- cbn [fst]. unfold rr_post. rewrite HT. rewrite firstn_app_prefix by exact HlenB.
           rewrite request_stable by (rewrite Ep; discriminate). rewrite Ep. reflexivity.
        -- cbn [fst]. unfold rr_post. rewrite HT. rewrite firstn_app_prefix by exact HlenB.
           rewrite request_stable by (rewrite Ep; discriminate). rewrite Ep. reflexivity.
        -- cbn [fst]. unfold rr_post. rewrite HT. rewrite firstn_app_prefix by exact HlenB.
           rewrite request_stable by (rewrite Ep; discriminate). rewrite Ep. reflexivity.
        -- rewrite HT. apply IH; assumption.
      * exfalso. exact (proj1 (parsers_never_fault (filled ++ out)) f Ep).
Qed.

Lemma parse_request_nil : parse_request [] = Err EEof.
Proof. vm_compute. reflexivity. Qed.

Lemma read_request_top : forall N segs,
  rr_post N (concat segs) (fst (read_request (S (length segs) + length (concat segs)) N [] segs)).
Proof.
  intros N segs0.
  change (concat segs0) with ([] ++ concat segs0) at 1.
  apply read_request_inv; [cbn [length]; lia|exact parse_request_nil|lia].
Qed.

(* ------------------------------------------------------------------ the C10 statements *)
Theorem read_request_within : forall N segs r, parse_request (firstn N (concat segs)) = Ok r ->
  exists buf, fst (read_request (S (length segs) + length (concat segs)) N [] segs) = RParsed buf r /\
              is_prefix buf (concat segs) = true /\ length buf <= N.
Proof.
  intros N segs0 r H. pose proof (read_request_top N segs0) as P. unfold rr_post in P. rewrite H in P.
  destruct P as [buf [t [P1 [P2 P3]]]]. exists buf. split; [exact P1|]. split; [|exact P3].
  rewrite P2. apply is_prefix_app_self.
Qed.

Theorem read_request_over : forall N segs, parse_request (firstn N (concat segs)) = Err EEof ->
  N <= length (concat segs) ->
  fst (read_request (S (length segs) + length (concat segs)) N [] segs) = RTooLarge.
Proof.
  intros N segs0 H Hle. pose proof (read_request_top N segs0) as P. unfold rr_post in P. rewrite H in P.
  apply Nat.leb_le in Hle. rewrite Hle in P. exact P.
Qed.

Theorem read_request_malformed : forall N segs e, parse_request (firstn N (concat segs)) = Err e -> e <> EEof ->
  fst (read_request (S (length segs) + length (concat segs)) N [] segs) = RInvalid.
Proof.
  intros N segs0 e H He. pose proof (read_request_top N segs0) as P. unfold rr_post in P. rewrite H in P.
  destruct e; try exact P. exfalso. apply He. reflexivity.
Qed.

Theorem read_request_incomplete : forall N segs, parse_request (firstn N (concat segs)) = Err EEof ->
  length (concat segs) < N ->
  fst (read_request (S (length segs) + length (concat segs)) N [] segs) = REof.
Proof.
  intros N segs0 H Hlt. pose proof (read_request_top N segs0) as P. unfold rr_post in P. rewrite H in P.
  apply Nat.leb_gt in Hlt. rewrite Hlt in P. exact P.
Qed.

Theorem read_request_bound : forall fuel N filled segs buf r rest, length filled <= N ->
  read_request fuel N filled segs = (RParsed buf r, rest) -> length buf <= N.
Proof.
  induction fuel as [|fuel IH]; intros N filled sg buf r rest HlenF H.
  - cbn [read_request] in H. discriminate H.
  - cbn [read_request] in H.
    destruct (Nat.eqb_spec (length filled) N) as [EN|EN]; [discriminate H|].
    destruct (stream_read (N.of_nat (N - length filled)) sg) as [out sg'] eqn:Esr.
    apply stream_read_spec in Esr. destruct Esr as [_ [Hlen _]].
    apply lenN_le_nat in Hlen.
    destruct out as [|x out']; [discriminate H|].
    remember (x :: out') as out eqn:Eout.
    assert (HlenB : length (filled ++ out) <= N) by (rewrite app_length; lia).
    destruct (parse_request (filled ++ out)) as [r'|e|f] eqn:Ep.
    + inversion H. subst. exact HlenB.
    + destruct e; try discriminate H. eapply IH; [exact HlenB|exact H].
    + discriminate H.
Qed.

Theorem too_large_answers : forall a N ka segs,
  let o := handle_one_request a N ka segs in
  (fst (read_request (S (length segs) + length (concat segs)) N [] segs) = RTooLarge -> o_resps o = [close_resp 431] /\ o_keep o = false) /\
  (fst (read_request (S (length segs) + length (concat segs)) N [] segs) = RInvalid -> o_resps o = [close_resp 400] /\ o_keep o = false).
Proof.
  intros a N ka segs0 o. subst o. unfold handle_one_request. unfold bytes in *.
  destruct (read_request (S (length segs0) + length (concat segs0)) N [] segs0) as [res sg'].
  cbn [fst]. split; intros H; subst res; split; reflexivity.
Qed.

(* ------------------------------------------------------------------ the C09 statements *)
(* (fix F21) what has become of the body reader when the handler returns: whether one of the handler's reads failed
   (the reader remembers it), and the reader itself.  Same bodies as the definitions Properties/C09.v makes. *)
Definition read_failed {A} (res : A + ioerr) : bool := match res with inr _ => true | inl _ => false end.
Definition reader_after_handler (a : app) (r : request) (b : body) : bool * body :=
  match behaviour_of a r with
  | BAll | BFirst => let '(res, b') := read_to_end (body_fuel b) b [] in (read_failed res, b')
  | BReadK k => let '(res, b') := read_k (body_fuel b) k b [] in (read_failed res, b')
  | _ => (false, b)
  end.
(* the discard of the unread rest of the body, when the reader is dropped, reaches the end of the body *)
Definition end_located (a : app) (r : request) (b : body) : bool :=
  let '(failed, b') := reader_after_handler a r b in located failed b'.

Lemma located_failed b : located true b = false.
Proof. reflexivity. Qed.

Lemma run_handler_located a r b : snd (run_handler a r b) = end_located a r b.
Proof.
  unfold run_handler, end_located, reader_after_handler.
  destruct (behaviour_of a r) as [|k|st| | | | | |n]; try reflexivity.
  - destruct (read_to_end (body_fuel b) b []) as [[data|e] b']; reflexivity.
  - destruct (read_k (body_fuel b) k b []) as [[data|e] b']; reflexivity.
  - destruct (read_to_end (body_fuel b) b []) as [[data|e] b']; reflexivity.
Qed.

Theorem keep_decision : forall a N ka segs buf r rest,
  read_request (S (length segs) + length (concat segs)) N [] segs = (RParsed buf r, rest) ->
  (te_present (q_hdrs r) && negb (te_final_chunked (q_hdrs r))) = false ->
  hook_of a r = HProceed ->
  let o := handle_one_request a N ka segs in
  o_keep o = (o_ok o && negb (connection_close (q_hdrs r)) && ka && negb (existsb rs_close (o_resps o)) &&
              end_located a r (from_request (skipn (q_offset r) buf) rest (q_hdrs r))).
Proof.
  intros a N ka segs0 buf r rest Hrr Hte Hhook o. subst o. unfold handle_one_request. unfold bytes in *.
  rewrite Hrr. rewrite Hte. rewrite Hhook.
  rewrite <- run_handler_located.
  destruct (run_handler a r (from_request (skipn (q_offset r) buf) rest (q_hdrs r))) as [[[resps ok] rest'] loc].
  cbn [o_keep o_ok o_resps snd].
  destruct ok, (connection_close (q_hdrs r)), ka, (existsb rs_close resps), loc; reflexivity.
Qed.

Theorem keep_decision_hook : forall a N ka segs buf r rest,
  read_request (S (length segs) + length (concat segs)) N [] segs = (RParsed buf r, rest) ->
  (te_present (q_hdrs r) && negb (te_final_chunked (q_hdrs r))) = false ->
  hook_of a r <> HProceed ->
  let o := handle_one_request a N ka segs in
  o_keep o = (negb (connection_close (q_hdrs r)) && ka && negb (existsb rs_close (o_resps o)) &&
              located false (from_request (skipn (q_offset r) buf) rest (q_hdrs r))).
Proof.
  intros a N ka segs0 buf r rest Hrr Hte Hhook o. subst o. unfold handle_one_request. unfold bytes in *.
  rewrite Hrr. rewrite Hte.
  destruct (hook_of a r) eqn:Eh.
  - exfalso. apply Hhook. reflexivity.
  - cbn [o_keep o_resps existsb rs_close orb negb].
    destruct (connection_close (q_hdrs r)), ka, (located false _); reflexivity.
  - cbn [o_keep o_resps existsb rs_close orb negb].
    destruct (connection_close (q_hdrs r)), ka, (located false _); reflexivity.
Qed.

Theorem rejected_closes : forall a N ka segs,
  (fst (read_request (S (length segs) + length (concat segs)) N [] segs) = RInvalid \/
   fst (read_request (S (length segs) + length (concat segs)) N [] segs) = RTooLarge) ->
  let o := handle_one_request a N ka segs in
  o_keep o = false /\ forallb rs_close (o_resps o) = true /\ o_resps o <> [].
Proof.
  intros a N ka segs0 H o. subst o. unfold handle_one_request. unfold bytes in *.
  destruct (read_request (S (length segs0) + length (concat segs0)) N [] segs0) as [res sg'].
  cbn [fst] in H. destruct H as [H|H]; subst res; cbn [o_keep o_resps];
    (split; [reflexivity|split; [reflexivity|discriminate]]).
Qed.

(* headers_of as a run of OAdd operations *)
Lemma headers_of_hrun_gen : forall fs h,
  fold_left (fun h nv => add h (fst nv) (snd nv)) fs h =
  fold_left hstep (map (fun nv => OAdd (fst nv) (snd nv)) fs) h.
Proof.
  induction fs as [|f fs IH]; intros h; [reflexivity|].
  cbn [fold_left map hstep]. apply IH.
Qed.

Lemma headers_of_hrun fs : headers_of fs = hrun (map (fun nv => OAdd (fst nv) (snd nv)) fs).
Proof. unfold headers_of, hrun. apply headers_of_hrun_gen. Qed.

Lemma spec_stored_adds_gen : forall fs acc,
  fold_left store_step (map (fun nv => OAdd (fst nv) (snd nv)) fs) acc =
  acc ++ filter (fun f => negb (is_cl (fst f))) fs.
Proof.
  induction fs as [|f fs IH]; intros acc.
  - cbn [map fold_left filter]. rewrite app_nil_r. reflexivity.
  - cbn [map fold_left filter store_step]. rewrite IH.
    destruct (is_cl (fst f)) eqn:E; cbn [negb].
    + reflexivity.
    + rewrite <- app_assoc. cbn [Datatypes.app]. destruct f as [n v]. reflexivity.
Qed.

Lemma spec_stored_adds fs :
  spec_stored (map (fun nv => OAdd (fst nv) (snd nv)) fs) = filter (fun f => negb (is_cl (fst f))) fs.
Proof. unfold spec_stored. rewrite spec_stored_adds_gen. reflexivity. Qed.

Theorem close_token : forall fs,
  connection_close (headers_of fs) = eval_close (filter (fun f => negb (is_cl (fst f))) fs).
Proof.
  intros fs. rewrite headers_of_hrun.
  destruct (headers_inv (map (fun nv => OAdd (fst nv) (snd nv)) fs)) as [Hs [_ [Hc _]]].
  rewrite Hc, Hs, spec_stored_adds. reflexivity.
Qed.

Theorem connection_stops : forall fuel a N ka segs acc n,
  o_keep (handle_one_request a N ka segs) = false ->
  c_resps (handle_connection (S fuel) a N ka segs acc n) = acc ++ o_resps (handle_one_request a N ka segs) /\
  c_rest (handle_connection (S fuel) a N ka segs acc n) = o_rest (handle_one_request a N ka segs).
Proof.
  intros fuel a N ka segs0 acc n Hk. cbn [handle_connection]. rewrite Hk.
  destruct (negb (o_ok (handle_one_request a N ka segs0))); cbn [c_resps c_rest]; split; reflexivity.
Qed.
