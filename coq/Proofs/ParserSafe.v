(* C01: the head parsers never fault; text fields are ASCII substrings of the input; accessors are safe.
   Helper files: ParserSafeBase.v (list facts, parse_method), ParserSafeUri.v (parse_uri). *)
From KV Require Import Lib.Bytes Lib.Swar Model.Headers Model.Parser Spec.Substr Proofs.SwarSpec
  Proofs.ParserSafeBase Proofs.ParserSafeUri.

(* ------------------------------------------------------------------ parse_version *)
Definition ver_ok (buf : bytes) (r : res (N * bytes)) : Prop :=
  match r with Fault _ => False | Err _ => True | Ok (_, rest) => suffix rest buf end.

Lemma parse_version_ok buf : ver_ok buf (parse_version buf).
Proof.
  unfold parse_version. destruct (strip_prefix (bs "HTTP/1.") buf) as [rest|] eqn:H.
  - apply strip_prefix_spec in H. destruct rest as [|c r]; [exact I|].
    destruct c; try exact I; cbn [ver_ok].
    + exists (bs "HTTP/1." ++ [x30]). rewrite H, <- app_assoc. reflexivity.
    + exists (bs "HTTP/1." ++ [x31]). rewrite H, <- app_assoc. reflexivity.
  - destruct (is_prefix (firstn 7 buf) (bs "HTTP/1.")); exact I.
Qed.

(* ------------------------------------------------------------------ headers *)
Definition hline_ok (line : bytes) (r : res (bytes * bytes)) : Prop :=
  match r with
  | Fault _ => False
  | Err _ => True
  | Ok (name, value) => sublist name line /\ sublist value line /\ forallb is_ascii name = true
  end.

Lemma parse_header_line_ok line : hline_ok line (parse_header_line line).
Proof.
  unfold parse_header_line. destruct (find_index (Byte.eqb x3a) line) as [colon|]; [|exact I].
  destruct ((colon =? 0) || negb (forallb is_valid_header_field_byte (firstn colon line))) eqn:E; [exact I|].
  apply orb_false_elim in E. destruct E as [_ E]. apply negb_false_iff in E.
  assert (Ha : forallb is_ascii (firstn colon line) = true)
    by (eapply forallb_impl; [exact field_byte_ascii | exact E]).
  unfold str_unchecked. rewrite Ha. cbn [bind hline_ok].
  split; [apply sublist_firstn|]. split; [|exact Ha].
  unfold trim_start. eapply sublist_suffix; [apply sublist_refl|].
  eapply suffix_trans; [apply drop_while_suffix | apply suffix_skipn].
Qed.

Definition field_ok (s : bytes) (nv : bytes * bytes) : Prop :=
  forallb is_ascii (fst nv) = true /\ sublist (fst nv) s /\ sublist (snd nv) s.

Definition hdrs_ok (s buf : bytes) (h : headers) (r : res (headers * bytes)) : Prop :=
  match r with
  | Fault _ => False
  | Err _ => True
  | Ok (h', rest) => suffix rest buf /\ (Forall (field_ok s) (stored h) -> Forall (field_ok s) (stored h'))
  end.

Lemma stored_add h n v : stored (add h n v) = stored h \/ stored (add h n v) = stored h ++ [(n, v)].
Proof.
  unfold add. destruct (eq_ic n CONTENT_LENGTH); [left; reflexivity|].
  destruct (eq_ic n TRANSFER_ENCODING); [right; reflexivity|].
  destruct (eq_ic n CONNECTION); right; reflexivity.
Qed.

Lemma parse_headers_f_ok s : forall fuel h buf, length buf < fuel -> sublist buf s ->
  hdrs_ok s buf h (parse_headers_f fuel h buf).
Proof.
  induction fuel as [|fuel IH]; intros h buf Hlen Hsub; [lia|].
  cbn [parse_headers_f].
  destruct (strip_prefix [x0d; x0a] buf) as [rest|] eqn:Hsp.
  { apply strip_prefix_spec in Hsp. cbn [hdrs_ok]. split; [exists [x0d; x0a]; exact Hsp | auto]. }
  destruct (find_index (Byte.eqb x0a) buf) as [nl|] eqn:Hnl; [|exact I].
  destruct (find_index_spec _ _ _ Hnl) as [Hnll _].
  destruct (nl =? 0); [exact I|].
  destruct (nth_error buf (nl - 1)) as [c|] eqn:Hc.
  2:{ apply nth_error_None in Hc. lia. }
  destruct (negb (Byte.eqb c x0d)); [exact I|].
  pose proof (parse_header_line_ok (firstn (nl - 1) buf)) as Hline.
  destruct (parse_header_line (firstn (nl - 1) buf)) as [[name value]|e|f]; cbn [bind hline_ok] in *;
    [|exact I|exact Hline].
  destruct Hline as [Hn [Hv Ha]].
  match goal with |- hdrs_ok _ _ _ (if ?c then _ else _) => destruct c end; [exact I|].
  assert (Hlen' : length (skipn (S nl) buf) < fuel) by (rewrite skipn_length; lia).
  assert (Hsub' : sublist (skipn (S nl) buf) s) by (eapply sublist_trans; [apply sublist_skipn | exact Hsub]).
  specialize (IH (add h name value) (skipn (S nl) buf) Hlen' Hsub').
  destruct (parse_headers_f fuel (add h name value) (skipn (S nl) buf)) as [[h' rest]|e|f];
    cbn [hdrs_ok] in *; [|exact I|exact IH].
  destruct IH as [Hsuf Hall]. split; [eapply suffix_trans; [exact Hsuf | apply suffix_skipn]|].
  intros Hh. apply Hall.
  destruct (stored_add h name value) as [E|E]; rewrite E; [exact Hh|].
  apply Forall_app. split; [exact Hh|]. constructor; [|constructor].
  assert (Hfs : sublist (firstn (nl - 1) buf) s) by (eapply sublist_trans; [apply sublist_firstn | exact Hsub]).
  unfold field_ok. cbn [fst snd]. split; [exact Ha|].
  split; eapply sublist_trans; eauto.
Qed.

Lemma parse_headers_ok s buf : sublist buf s -> hdrs_ok s buf new_headers (parse_headers buf).
Proof. intros H. unfold parse_headers. apply parse_headers_f_ok; [lia | exact H]. Qed.

Lemma offset_of_ok buf rest : suffix rest buf ->
  offset_of buf rest = Ok (length buf - length rest).
Proof.
  intros H. apply suffix_length in H. unfold offset_of.
  destruct (Nat.leb (length rest) (length buf)) eqn:E; [reflexivity|]. apply Nat.leb_gt in E. lia.
Qed.

(* ------------------------------------------------------------------ parse_request *)
Definition request_ok (s : bytes) (x : res request) : Prop :=
  match x with
  | Fault _ => False
  | Err _ => True
  | Ok r =>
      q_offset r <= length s /\
      forallb is_ascii (method_str (q_meth r)) = true /\ sublist (method_str (q_meth r)) s /\
      forallb is_ascii (full (q_target r)) = true /\ sublist (full (q_target r)) s /\
      Forall (field_ok s) (stored (q_hdrs r)) /\
      uri_wf (q_target r)
  end.

Lemma parse_request_ok s : request_ok s (parse_request s).
Proof.
  unfold parse_request.
  pose proof (parse_method_ok s) as Hm.
  destruct (parse_method s) as [[m r1]|e|f]; cbn [bind meth_ok] in *; [|exact I|exact Hm].
  destruct Hm as [Hs1 [Hmsub Hmasc]].
  pose proof (parse_uri_ok r1) as Hu.
  destruct (parse_uri r1) as [[u r2]|e|f]; cbn [bind uri_ok] in *; [|exact I|exact Hu].
  destruct Hu as [Hs2 [Husub [Huasc Huwf]]].
  pose proof (parse_version_ok r2) as Hv.
  destruct (parse_version r2) as [[v r3]|e|f]; cbn [bind ver_ok] in *; [|exact I|exact Hv].
  destruct r3 as [|c r3]; [exact I|]. destruct c; try exact I.
  destruct r3 as [|d r4]; [exact I|]. destruct d; try exact I.
  assert (Hs4 : suffix r4 s).
  { eapply suffix_trans; [|exact Hs1]. eapply suffix_trans; [|exact Hs2].
    eapply suffix_trans; [|exact Hv]. eapply suffix_cons, suffix_cons, suffix_refl. }
  pose proof (parse_headers_ok s r4 (suffix_is_sublist _ _ Hs4)) as Hh.
  destruct (parse_headers r4) as [[hs r5]|e|f]; cbn [bind hdrs_ok] in *; [|exact I|exact Hh].
  destruct Hh as [Hs5 Hall].
  assert (Hs5' : suffix r5 s) by (eapply suffix_trans; [exact Hs5 | exact Hs4]).
  rewrite (offset_of_ok s r5 Hs5'). cbn [bind request_ok q_offset q_meth q_target q_hdrs].
  split; [lia|]. split; [exact Hmasc|]. split; [exact Hmsub|]. split; [exact Huasc|].
  split; [eapply sublist_suffix; [exact Husub | exact Hs1]|].
  split; [apply Hall; constructor | exact Huwf].
Qed.

(* ------------------------------------------------------------------ parse_response *)
Lemma digit_at_nf buf i f : digit_at buf i <> Fault f.
Proof.
  unfold digit_at. destruct (nth_error buf i) as [b|]; [|discriminate].
  destruct (is_digit b); discriminate.
Qed.

Lemma reason_scan_cons c d r i :
  reason_scan (c :: d :: r) i =
    if Byte.eqb c x0d && Byte.eqb d x0a then Ok i
    else if is_reason_byte c then reason_scan (d :: r) (S i) else Err EStatus.
Proof. reflexivity. Qed.

Lemma reason_scan_ok l : forall i0,
  match reason_scan l i0 with
  | Fault _ => False
  | Err _ => True
  | Ok i => i0 <= i /\ forallb is_reason_byte (firstn (i - i0) l) = true
  end.
Proof.
  induction l as [|c r IH]; intros i0; [exact I|].
  destruct r as [|d r']; [exact I|]. rewrite reason_scan_cons.
  destruct (Byte.eqb c x0d && Byte.eqb d x0a).
  { rewrite Nat.sub_diag. split; [lia | reflexivity]. }
  destruct (is_reason_byte c) eqn:Hc; [|exact I].
  specialize (IH (S i0)). destruct (reason_scan (d :: r') (S i0)) as [i|e|f]; [|exact I|exact IH].
  destruct IH as [H1 H2]. split; [lia|].
  replace (i - i0) with (S (i - S i0)) by lia. cbn [firstn forallb]. rewrite Hc, H2. reflexivity.
Qed.

Definition status_ok (buf : bytes) (r : res (N * bytes * bytes)) : Prop :=
  match r with
  | Fault _ => False
  | Err _ => True
  | Ok (_, reason, rest) => suffix rest buf /\ sublist reason buf /\ forallb is_ascii reason = true
  end.

Lemma parse_response_status_ok buf : status_ok buf (parse_response_status buf).
Proof.
  unfold parse_response_status.
  destruct (digit_at buf 0) as [h|e|f] eqn:D0; cbn [bind]; [|exact I|exact (digit_at_nf _ _ _ D0)].
  destruct (digit_at buf 1) as [t|e|f] eqn:D1; cbn [bind]; [|exact I|exact (digit_at_nf _ _ _ D1)].
  destruct (digit_at buf 2) as [o|e|f] eqn:D2; cbn [bind]; [|exact I|exact (digit_at_nf _ _ _ D2)].
  destruct (nth_error buf 3) as [sp|]; [|exact I].
  destruct (negb (Byte.eqb sp x20)); [exact I|].
  pose proof (reason_scan_ok (skipn 4 buf) 0) as Hr.
  destruct (reason_scan (skipn 4 buf) 0) as [i|e|f]; cbn [bind]; [|exact I|exact Hr].
  destruct Hr as [_ Hr]. rewrite Nat.sub_0_r in Hr.
  assert (Ha : forallb is_ascii (firstn i (skipn 4 buf)) = true)
    by (eapply forallb_impl; [exact reason_byte_ascii | exact Hr]).
  unfold str_unchecked. rewrite Ha. cbn [bind status_ok].
  split; [eapply suffix_trans; apply suffix_skipn|].
  split; [|exact Ha]. eapply sublist_trans; [apply sublist_firstn | apply sublist_skipn].
Qed.

Definition response_ok (s : bytes) (x : res response) : Prop :=
  match x with
  | Fault _ => False
  | Err _ => True
  | Ok r =>
      r_offset r <= length s /\
      forallb is_ascii (r_reason r) = true /\ sublist (r_reason r) s /\
      Forall (field_ok s) (stored (r_hdrs r))
  end.

Lemma parse_response_ok s : response_ok s (parse_response s).
Proof.
  unfold parse_response.
  pose proof (parse_version_ok s) as Hv.
  destruct (parse_version s) as [[v r1]|e|f]; cbn [bind ver_ok] in *; [|exact I|exact Hv].
  destruct r1 as [|sp r2]; [exact I|].
  destruct (negb (Byte.eqb sp x20)); [exact I|].
  assert (Hs2 : suffix r2 s) by (eapply suffix_cons; exact Hv).
  pose proof (parse_response_status_ok r2) as Hst.
  destruct (parse_response_status r2) as [[[code reason] r3]|e|f]; cbn [bind status_ok] in *;
    [|exact I|exact Hst].
  destruct Hst as [Hs3 [Hrsub Hrasc]].
  assert (Hs3' : suffix r3 s) by (eapply suffix_trans; [exact Hs3 | exact Hs2]).
  pose proof (parse_headers_ok s r3 (suffix_is_sublist _ _ Hs3')) as Hh.
  destruct (parse_headers r3) as [[hs r4]|e|f]; cbn [bind hdrs_ok] in *; [|exact I|exact Hh].
  destruct Hh as [Hs4 Hall].
  assert (Hs4' : suffix r4 s) by (eapply suffix_trans; [exact Hs4 | exact Hs3']).
  rewrite (offset_of_ok s r4 Hs4'). cbn [bind response_ok r_offset r_reason r_hdrs].
  split; [lia|]. split; [exact Hrasc|].
  split; [eapply sublist_suffix; [exact Hrsub | exact Hs2]|].
  apply Hall. constructor.
Qed.

(* ------------------------------------------------------------------ the pinned statements *)
Theorem parsers_never_fault : forall s,
  (forall f, parse_request s <> Fault f) /\ (forall f, parse_response s <> Fault f).
Proof.
  intros s. split; intros f H.
  - pose proof (parse_request_ok s) as Hq. rewrite H in Hq. exact Hq.
  - pose proof (parse_response_ok s) as Hq. rewrite H in Hq. exact Hq.
Qed.

Theorem request_fields_safe : forall s r, parse_request s = Ok r ->
  q_offset r <= length s /\
  forallb is_ascii (method_str (q_meth r)) = true /\ sublist (method_str (q_meth r)) s /\
  forallb is_ascii (full (q_target r)) = true /\ sublist (full (q_target r)) s /\
  Forall (fun nv => forallb is_ascii (fst nv) = true /\ sublist (fst nv) s /\ sublist (snd nv) s)
         (stored (q_hdrs r)).
Proof.
  intros s r H. pose proof (parse_request_ok s) as Hq. rewrite H in Hq. cbn [request_ok] in Hq.
  destruct Hq as [H1 [H2 [H3 [H4 [H5 [H6 _]]]]]]. repeat (split; [assumption|]). exact H6.
Qed.

Theorem response_fields_safe : forall s r, parse_response s = Ok r ->
  r_offset r <= length s /\
  forallb is_ascii (r_reason r) = true /\ sublist (r_reason r) s /\
  Forall (fun nv => forallb is_ascii (fst nv) = true /\ sublist (fst nv) s /\ sublist (snd nv) s)
         (stored (r_hdrs r)).
Proof.
  intros s r H. pose proof (parse_response_ok s) as Hq. rewrite H in Hq. cbn [response_ok] in Hq.
  destruct Hq as [H1 [H2 [H3 H4]]]. repeat (split; [assumption|]). exact H4.
Qed.

(* ------------------------------------------------------------------ accessors *)
Lemma slice_ok l a b : a <= b -> b <= length l ->
  exists x, slice l a b = Ok x /\ sublist x l /\ length x = b - a.
Proof.
  intros H1 H2. exists (firstn (b - a) (skipn a l)). unfold slice.
  destruct (Nat.leb a b) eqn:E1; [|apply Nat.leb_gt in E1; lia].
  destruct (Nat.leb b (length l)) eqn:E2; [|apply Nat.leb_gt in E2; lia].
  split; [reflexivity|]. split.
  - eapply sublist_trans; [apply sublist_firstn | apply sublist_skipn].
  - rewrite firstn_length, skipn_length. lia.
Qed.

Lemma is_prefix_length p : forall l, is_prefix p l = true -> length p <= length l.
Proof.
  induction p as [|x p IH]; intros l H; [cbn [length]; lia|].
  destruct l as [|y l]; cbn [is_prefix] in H; [discriminate|].
  apply andb_true_iff in H. destruct H as [_ H]. apply IH in H. cbn [length]. lia.
Qed.

Lemma find_sub_spec pat l : forall i, find_sub pat l = Some i -> i + length pat <= length l.
Proof.
  induction l as [|a r IH]; intros i H.
  - cbn [find_sub] in H. destruct (is_prefix pat []) eqn:E; [|discriminate].
    inversion H; subst. apply is_prefix_length in E. lia.
  - cbn [find_sub] in H. destruct (is_prefix pat (a :: r)) eqn:E.
    + inversion H; subst. apply is_prefix_length in E. lia.
    + destruct (find_sub pat r) as [j|]; cbn [option_map] in H; [|discriminate].
      inversion H; subst. specialize (IH j eq_refl). cbn [length]. lia.
Qed.

Lemma find_index_lt {A} (p : A -> bool) l i : find_index p l = Some i -> i < length l.
Proof. intros H. apply find_index_spec in H. tauto. Qed.

Definition opt_sub (q : option bytes) (l : bytes) : Prop :=
  match q with Some x => sublist x l | None => True end.

Lemma accessors_wf u : uri_wf u ->
  (exists p, uri_path u = Ok p /\ sublist p (full u)) /\
  (exists q, uri_query u = Ok q /\ opt_sub q (full u)) /\
  (exists q, uri_scheme u = Ok q /\ opt_sub q (full u)) /\
  (exists q, uri_authority u = Ok q /\ opt_sub q (full u)) /\
  (exists p, uri_path_and_query u = Ok p /\ sublist p (full u)).
Proof.
  destruct u as [F ps pe]. unfold uri_wf. cbn [full p_start p_end]. intros [Hw1 Hw2].
  assert (Hsep : length SCHEME_SEP = 3) by reflexivity.
  split; [|split; [|split; [|split]]].
  - (* path *)
    unfold uri_path. cbn [full p_start p_end].
    destruct (slice_ok F ps pe Hw1 Hw2) as [x [Hx [Hsx _]]]. exists x. auto.
  - (* query *)
    unfold uri_query. cbn [full p_start p_end].
    destruct (slice_ok F pe (length F) Hw2 (le_n _)) as [P [HP [HsP _]]]. rewrite HP. cbn [bind].
    destruct (find_index (Byte.eqb x3f) P) as [q|] eqn:Hq.
    + apply find_index_lt in Hq.
      destruct (slice_ok P (S q) (length P) Hq (le_n _)) as [x [Hx [Hsx _]]]. rewrite Hx. cbn [bind].
      eexists. split; [reflexivity|]. cbn [opt_sub]. eapply sublist_trans; eauto.
    + eexists. split; [reflexivity | exact I].
  - (* scheme *)
    unfold uri_scheme. cbn [full].
    destruct (find_sub SCHEME_SEP F) as [idx|] eqn:Hf.
    + apply find_sub_spec in Hf.
      destruct (slice_ok F 0 idx ltac:(lia) ltac:(lia)) as [x [Hx [Hsx _]]]. rewrite Hx. cbn [bind].
      eexists. split; [reflexivity | exact Hsx].
    + eexists. split; [reflexivity | exact I].
  - (* authority *)
    unfold uri_authority. cbn [full p_start].
    assert (HD : exists q,
      match F with
      | x2f :: _ => Ok None
      | _ => match find_index (fun b => Byte.eqb b x2f || Byte.eqb b x3f) F with
             | Some i => s <- slice F 0 i ;; Ok (Some s)
             | None => Ok (Some F)
             end
      end = Ok q /\ opt_sub q F).
    { assert (HD' : exists q,
        match find_index (fun b => Byte.eqb b x2f || Byte.eqb b x3f) F with
        | Some i => s <- slice F 0 i ;; Ok (Some s)
        | None => Ok (Some F)
        end = Ok q /\ opt_sub q F).
      { destruct (find_index (fun b => Byte.eqb b x2f || Byte.eqb b x3f) F) as [i|] eqn:Hi.
        - apply find_index_lt in Hi.
          destruct (slice_ok F 0 i ltac:(lia) ltac:(lia)) as [x [Hx [Hsx _]]]. rewrite Hx. cbn [bind].
          eexists. split; [reflexivity | exact Hsx].
        - eexists. split; [reflexivity | apply sublist_refl]. }
      destruct F as [|c F']; [exact HD'|]. destruct c; try exact HD'.
      eexists. split; [reflexivity | exact I]. }
    destruct (find_sub SCHEME_SEP F) as [si|] eqn:Hf; [|exact HD].
    apply find_sub_spec in Hf. rewrite Hsep in Hf.
    destruct (Nat.eqb ps 0 || Nat.leb (si + 3) ps) eqn:Hc; [|exact HD].
    destruct (Nat.eqb ps 0) eqn:Hz.
    + destruct (slice_ok F (si + 3) (length F) Hf (le_n _)) as [R [HR [HsR _]]]. rewrite HR. cbn [bind].
      destruct (find_index (Byte.eqb x3f) R) as [i|] eqn:Hi.
      * apply find_index_lt in Hi.
        destruct (slice_ok R 0 i ltac:(lia) ltac:(lia)) as [x [Hx [Hsx _]]]. rewrite Hx. cbn [bind].
        eexists. split; [reflexivity|]. cbn [opt_sub]. eapply sublist_trans; eauto.
      * eexists. split; [reflexivity | exact HsR].
    + cbn [orb] in Hc. apply Nat.leb_le in Hc.
      destruct (slice_ok F (si + 3) ps Hc ltac:(lia)) as [x [Hx [Hsx _]]]. rewrite Hx. cbn [bind].
      eexists. split; [reflexivity | exact Hsx].
  - (* path_and_query *)
    unfold uri_path_and_query. cbn [full p_start p_end].
    destruct (negb (Nat.eqb pe 0)).
    + destruct (slice_ok F ps (length F) ltac:(lia) (le_n _)) as [x [Hx [Hsx _]]]. exists x. auto.
    + destruct (find_sub SCHEME_SEP F) as [si|] eqn:Hf.
      * apply find_sub_spec in Hf. rewrite Hsep in Hf.
        destruct (slice_ok F (si + 3) (length F) Hf (le_n _)) as [R [HR [HsR HlR]]]. rewrite HR. cbn [bind].
        destruct (find_index (Byte.eqb x3f) R) as [rq|] eqn:Hi.
        -- apply find_index_lt in Hi.
           destruct (slice_ok F (si + 3 + rq) (length F) ltac:(lia) (le_n _)) as [x [Hx [Hsx _]]].
           exists x. auto.
        -- exists []. split; [reflexivity|]. exists [], F. reflexivity.
      * exists []. split; [reflexivity|]. exists [], F. reflexivity.
Qed.

Theorem accessors_safe : forall s r, parse_request s = Ok r ->
  let u := q_target r in
  (exists p, uri_path u = Ok p /\ sublist p (full u)) /\
  (exists q, uri_query u = Ok q /\ match q with Some x => sublist x (full u) | None => True end) /\
  (exists q, uri_scheme u = Ok q /\ match q with Some x => sublist x (full u) | None => True end) /\
  (exists q, uri_authority u = Ok q /\ match q with Some x => sublist x (full u) | None => True end) /\
  (exists p, uri_path_and_query u = Ok p /\ sublist p (full u)).
Proof.
  intros s r H u. pose proof (parse_request_ok s) as Hq. rewrite H in Hq. cbn [request_ok] in Hq.
  apply (accessors_wf u). tauto.
Qed.
