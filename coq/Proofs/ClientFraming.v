(* The client's choice of body decoder for ARBITRARY accepted responses: whatever head the response
   parser accepts, the reader built by BodyReader::from_response and read to its end (Model/Client.v)
   delivers what the independent decision [resp_framing] over the raw field lines (Spec/ResponseFraming.v)
   and the strict recognisers of Spec/ChunkedSpec.v say - for every split of the bytes behind the head
   between the head buffer and the stream segments and every sequence of positive read sizes that is
   long enough.  (Proofs/ClientRound*.v cover the responses khttp's own printer writes.) *)
From KV Require Import Lib.Bytes Model.Headers Model.Parser Model.Body Model.BodyOps Model.Client
  Spec.HeaderStore Spec.HttpGrammar Spec.StatusGrammar Spec.ChunkedSpec Spec.Framing Spec.ClSpec
  Spec.ResponseFraming
  Proofs.Headers Proofs.ParserSound Proofs.ParserCompleteBase Proofs.ParserCompleteMethod
  Proofs.ParserCompleteHdr Proofs.ParserComplete Proofs.ParserMonoBase Proofs.ParserMonoParts Proofs.ParserMono
  Proofs.ResponseSound Proofs.ResponseComplete Proofs.ServerFraming
  Proofs.BodyBase Proofs.BodyBaseChunk Proofs.BodyRead Proofs.BodyMixed Proofs.BodyMixedPartial
  Proofs.ClientRoundBase.

(* ------------------------------------------------------------------ the head is parsed from its own bytes *)
(* An accepted head is recognised from the bytes before [r_offset] alone: whatever follows them, the
   result is the same.  (Proofs/ParserMono.v has the other direction: extending an accepted input.) *)
Lemma cf_find_index_cut {A} (p : A -> bool) : forall L sk i,
  find_index p (L ++ sk) = Some i -> i < length L -> forall u, find_index p (L ++ u) = Some i.
Proof.
  induction L as [|x L IH]; intros sk i H Hl u; [cbn [length] in Hl; lia|].
  cbn [app find_index] in *. destruct (p x); [exact H|].
  destruct (find_index p (L ++ sk)) as [j|] eqn:E; cbn [option_map] in H; [|discriminate H].
  injection H as <-. rewrite (IH sk j E ltac:(cbn [length] in Hl; lia) u). reflexivity.
Qed.

Lemma cf_strip_crlf_cut L sk u : 2 <= length L ->
  strip_prefix [x0d; x0a] (L ++ sk) = None -> strip_prefix [x0d; x0a] (L ++ u) = None.
Proof.
  intros Hl H. destruct L as [|a [|b L]]; [cbn [length] in Hl; lia|cbn [length] in Hl; lia|].
  cbn [app strip_prefix] in *. destruct (Byte.eqb x0d a); [|reflexivity].
  destruct (Byte.eqb x0a b); [discriminate H|reflexivity].
Qed.

Lemma cf_headers_cut : forall fuel h s hs rest,
  parse_headers_f fuel h s = Ok (hs, rest) ->
  exists X, s = X ++ rest /\ forall t, parse_headers_f fuel h (X ++ t) = Ok (hs, t).
Proof.
  induction fuel as [|fuel IH]; intros h s hs rest H; [discriminate H|].
  cbn [parse_headers_f] in H.
  destruct (strip_prefix [x0d; x0a] s) as [rest0|] eqn:Es.
  { inversion H; subst hs rest0. apply ps_strip_prefix_inv in Es. exists [x0d; x0a]. split; [exact Es|].
    intros t. cbn [parse_headers_f app strip_prefix]. rewrite !pc_eqb_refl. reflexivity. }
  destruct (find_index (Byte.eqb x0a) s) as [nl|] eqn:Ei; [|discriminate H].
  destruct (Nat.eqb nl 0) eqn:Enl; [discriminate H|]. apply Nat.eqb_neq in Enl.
  destruct (nth_error s (nl - 1)) as [c|] eqn:En; [|discriminate H].
  destruct (negb (Byte.eqb c x0d)) eqn:Ec; [discriminate H|].
  destruct (parse_header_line (firstn (nl - 1) s)) as [[name value]| |] eqn:Ep; cbn [bind] in H; try discriminate H.
  match type of H with (if ?c then _ else _) = _ => destruct c eqn:Echk; [discriminate H|] end.
  apply IH in H. destruct H as [X' [HX' Hall]].
  pose proof (find_index_lt _ _ _ Ei) as Lnl.
  remember (firstn (S nl) s) as L eqn:EL.
  remember (skipn (S nl) s) as sk eqn:Esk.
  assert (HL : length L = S nl) by (subst L; rewrite firstn_length; lia).
  assert (Hs : s = L ++ sk) by (subst L sk; symmetry; apply firstn_skipn).
  exists (L ++ X'). split; [rewrite <- app_assoc, <- HX'; exact Hs|].
  intros t. rewrite <- app_assoc. remember (X' ++ t) as u eqn:Eu.
  cbn [parse_headers_f].
  rewrite Hs in Es, Ei, En.
  rewrite (cf_strip_crlf_cut L sk u ltac:(lia) Es).
  rewrite (cf_find_index_cut _ L sk nl Ei ltac:(lia) u).
  apply Nat.eqb_neq in Enl. rewrite Enl.
  rewrite nth_error_app1 in En by lia. rewrite (nth_app_some L u _ _ En), Ec.
  rewrite (firstn_app_le L u (nl - 1)) by lia.
  assert (Hf : firstn (nl - 1) L = firstn (nl - 1) s).
  { subst L. rewrite firstn_firstn. f_equal. lia. }
  rewrite Hf, Ep. cbn [bind]. rewrite Echk.
  rewrite (pc_skipn_mid L u (S nl) (eq_sym HL)). subst u. apply Hall.
Qed.

Lemma cf_fuel_any n m h s v : parse_headers_f n h s = Ok v -> length s < m -> parse_headers_f m h s = Ok v.
Proof.
  intros H Hm. destruct (Nat.le_gt_cases n m) as [Hle|Hgt].
  - rewrite (parse_headers_f_fuel n h s m); [exact H|rewrite H; discriminate|exact Hle].
  - rewrite <- (parse_headers_f_fuel m h s n); [exact H|apply parse_headers_f_enough; exact Hm|lia].
Qed.

(* what an accepted response head is (response_sound), that its Content-Length fields passed the parser's
   check, and that it is recognised from its own bytes *)
Lemma cf_response_anatomy s r : parse_response s = Ok r ->
  exists sh, strict_status_head s = Some (sh, r_offset r) /\
    r_version r = (if ss_minor sh then 1 else 0)%N /\
    r_code r = ss_code sh /\
    r_reason r = ss_reason sh /\
    r_hdrs r = headers_of (sfield_pairs (ss_fields sh)) /\
    cl_ok None (sfield_pairs (ss_fields sh)) = true /\
    forall t, parse_response (firstn (r_offset r) s ++ t) = Ok r.
Proof.
  intros H. unfold parse_response in H.
  destruct (parse_version s) as [[v r1]| |] eqn:Ev; cbn [bind] in H; try discriminate H.
  destruct r1 as [|sp r2]; [discriminate H|].
  destruct (negb (Byte.eqb sp x20)) eqn:Esp; [discriminate H|].
  apply negb_false_iff in Esp. apply byte_eqb_eq in Esp. subst sp.
  destruct (parse_response_status r2) as [[[code reason] r3]| |] eqn:Est; cbn [bind] in H; try discriminate H.
  destruct (parse_headers r3) as [[hs r4]| |] eqn:Eh; cbn [bind] in H; try discriminate H.
  unfold offset_of in H. destruct (Nat.leb (length r4) (length s)); cbn [bind] in H; [|discriminate H].
  inversion H; subst r. clear H. cbn [r_offset r_version r_code r_reason r_hdrs].
  apply parse_version_sound in Ev. destruct Ev as [d [Hv1 Hv2]].
  apply parse_response_status_sound in Est.
  destruct Est as [a [b [c [x [y [z [Hr2 [Ha [Hb [Hc [Hcode Hreason]]]]]]]]]]]. subst r2 code.
  unfold parse_headers in Eh.
  destruct (cf_headers_cut _ _ _ _ _ Eh) as [X [HX Hcut]].
  apply sf_headers_f_cl in Eh. destruct Eh as [fs [Hf1 [Hf2 Hf3]]].
  assert (Hline : take_line (reason ++ x0d :: x0a :: r3) = Some (reason, r3)).
  { apply rs_take_line_app. apply (ps_forallb_impl is_reason_char); [exact rs_reason_char_nlf | exact Hreason]. }
  set (minor := Byte.eqb d x31).
  assert (Hd : (Byte.eqb d x31 || Byte.eqb d x30) = true /\ v = (if minor then 1 else 0)%N /\
               d = (if minor then x31 else x30)).
  { unfold minor. destruct Hv2 as [[-> ->]|[-> ->]]; repeat split; reflexivity. }
  destruct Hd as [Hd1 [Hd2 Hd3]].
  exists {| ss_minor := minor; ss_code := (x * 100 + y * 10 + z)%N; ss_reason := reason; ss_fields := fs |}.
  cbn [ss_minor ss_code ss_reason ss_fields].
  split.
  { unfold strict_status_head, SP. rewrite Hv1, Hd1, (ps_beqb_refl x20). cbn [andb].
    rewrite Ha, Hb, Hc, Hline, Hreason, Hf1. reflexivity. }
  split; [exact Hd2|]. split; [reflexivity|]. split; [reflexivity|]. split; [exact Hf2|]. split; [exact Hf3|].
  (* locality *)
  apply ps_strip_prefix_inv in Hv1.
  apply rs_digit_val_inv in Ha. destruct Ha as [Hx Ea].
  apply rs_digit_val_inv in Hb. destruct Hb as [Hy Eb].
  apply rs_digit_val_inv in Hc. destruct Hc as [Hz Ec].
  set (r2' := fun tl : bytes => digit_byte x :: digit_byte y :: digit_byte z :: x20 :: (reason ++ x0d :: x0a :: (X ++ tl))).
  set (P := bs "HTTP/1." ++ (if minor then x31 else x30) :: x20 :: r2' []).
  assert (HP : forall tl, P ++ tl = bs "HTTP/1." ++ (if minor then x31 else x30) :: x20 :: r2' tl).
  { intros tl. unfold P, r2'. rewrite app_nil_r. repeat (rewrite <- ?app_assoc; cbn [app]). reflexivity. }
  assert (Hs : s = P ++ r4).
  { rewrite HP, Hv1. unfold r2'. rewrite <- Hd3, Ea, Eb, Ec, <- HX. reflexivity. }
  assert (Hoff : length s - length r4 = length P) by (rewrite Hs, app_length; lia).
  rewrite Hoff. replace (firstn (length P) s) with P by (rewrite Hs; symmetry; apply pc_firstn_mid; reflexivity).
  intros t. unfold parse_response.
  assert (Hv' : parse_version (P ++ t) = Ok (v, x20 :: r2' t)).
  { rewrite HP, Hd2. apply pc_parse_version. }
  rewrite Hv'. cbn [bind]. rewrite pc_eqb_refl. cbn [negb].
  apply N.ltb_lt in Hx, Hy, Hz.
  unfold r2'. rewrite (rc_status x y z reason (X ++ t) Hx Hy Hz Hreason). cbn [bind].
  unfold parse_headers. rewrite (cf_fuel_any _ (S (length (X ++ t))) _ _ _ (Hcut t)) by lia. cbn [bind].
  rewrite pc_offset. cbn [bind]. reflexivity.
Qed.

(* ------------------------------------------------------------------ the two framing fields of the collection *)
Lemma cf_chunked_flag fs : Headers.chunked (headers_of fs) = names_chunked fs.
Proof.
  destruct (sf_add_pairs_te fs new_headers) as [_ T2].
  change (add_pairs new_headers fs) with (headers_of fs) in T2. rewrite T2. reflexivity.
Qed.

Lemma cf_cl_values_rfc fs : cl_values_rfc fs = cl_values fs.
Proof.
  unfold cl_values_rfc. rewrite <- sf_cl_values_spec. unfold values_of. rewrite map_map. reflexivity.
Qed.

Lemma cf_declared_length fs : cl_ok None fs = true -> content_length (headers_of fs) = resp_declared_length fs.
Proof.
  intros Hok. unfold resp_declared_length. rewrite cf_cl_values_rfc.
  pose proof (sf_cl_none fs new_headers eq_refl Hok) as K.
  change (add_pairs new_headers fs) with (headers_of fs) in K.
  destruct (cl_values fs) as [|[n|] rest]; [exact K|exact (proj2 K)|destruct K].
Qed.

(* the parser's Content-Length check is RFC 9112 6.3's: every field valid, all equal *)
Lemma cf_cl_ok_rfc fs : cl_ok None fs = cl_consistent_rfc fs.
Proof. rewrite rc_cl_ok_none, cl_consistent_rfc_eq. reflexivity. Qed.

(* the reader chosen by the model, in terms of the decision of the spec (a declared length of 0 gets
   the reader that reads nothing) *)
Definition reader_for (f : rframing) (lo : bytes) (sg : list bytes) : body :=
  match f with
  | RChunked => new_chunked lo sg
  | RFixed n => if N.eqb n 0 then new_empty lo sg else new_fixed lo sg n
  | RToEnd => new_eof lo sg
  end.

Lemma cf_reader_of_framing lo sg fs : cl_ok None fs = true ->
  from_response lo sg (headers_of fs) = reader_for (resp_framing fs) lo sg.
Proof.
  intros Hok. unfold from_response, reader_for, resp_framing. rewrite cf_chunked_flag, (cf_declared_length fs Hok).
  destruct (names_chunked fs); [reflexivity|]. destruct (resp_declared_length fs); reflexivity.
Qed.

(* ------------------------------------------------------------------ the readers, read to the end *)
(* the to-the-end reader: everything the source holds *)
Lemma cf_eof_read_all : forall sizes s acc, positive_sizes sizes -> length (reach s) < length sizes ->
  fst (read_all (BEof s) sizes acc) = (acc ++ reach s, AtEof).
Proof.
  induction sizes as [|k sizes IH]; intros s acc Hpos Hlen; [cbn [length] in Hlen; lia|].
  inversion Hpos as [|k' sz' Hk Hpos']. subst k' sz'.
  cbn [read_all body_read]. destruct (buf_read k s) as [out s'] eqn:Ebr.
  apply buf_read_spec in Ebr. destruct Ebr as [B1 [_ [_ B4]]].
  destruct out as [|o out].
  - rewrite (B4 Hk eq_refl), app_nil_r. reflexivity.
  - rewrite (IH s' (acc ++ o :: out) Hpos').
    + rewrite B1, app_assoc. reflexivity.
    + rewrite B1, app_length in Hlen. cbn [length] in Hlen. lia.
Qed.

Lemma cf_eof_read lo st sizes : positive_sizes sizes -> length (lo ++ concat st) < length sizes ->
  fst (read_all (new_eof lo st) sizes []) = (lo ++ concat st, AtEof).
Proof. intros Hpos Hlen. unfold new_eof. rewrite (cf_eof_read_all sizes _ [] Hpos); [reflexivity|exact Hlen]. Qed.

Lemma cf_empty_read lo st sizes : 0 < length sizes -> fst (read_all (new_empty lo st) sizes []) = ([], AtEof).
Proof. destruct sizes as [|k sizes]; [cbn [length]; lia|reflexivity]. Qed.

(* the longest valid payload prefix is not longer than the encoding *)
Definition len_part (rec : bytes -> bytes -> bytes) : Prop :=
  forall l a, length (rec l a) <= length a + length l.

Lemma cf_part_after_len rec after acc : len_part rec ->
  length (part_after rec after acc) <= length acc + length after.
Proof.
  intros Hrec. destruct after as [|a [|b r]]; cbn [part_after length]; try lia.
  destruct (Byte.eqb a x0d && Byte.eqb b x0a); [|lia]. pose proof (Hrec r acc). lia.
Qed.

Lemma cf_part_data_len rec n l acc : len_part rec -> length (part_data rec n l acc) <= length acc + length l.
Proof.
  intros Hrec. unfold part_data. destruct (take_n n l) as [[d a]|] eqn:E; [|rewrite app_length; lia].
  apply take_n_some in E. destruct E as [E _]. subst l.
  pose proof (cf_part_after_len rec a (acc ++ d) Hrec) as H. rewrite !app_length in *. lia.
Qed.

Lemma cf_part_step_len rec l acc : len_part rec -> length (part_step rec l acc) <= length acc + length l.
Proof.
  intros Hrec. unfold part_step. destruct (line_crlf l) as [[[line|] rest]|] eqn:E; try lia.
  apply line_crlf_shorter in E. destruct (take_while hexdig line) as [sz ext].
  destruct (nonempty sz && wf_ext ext && (hex_value sz <? 2 ^ 64)%N && negb (hex_value sz =? 0)%N); [|lia].
  pose proof (cf_part_data_len rec (hex_value sz) rest acc Hrec). lia.
Qed.

Lemma cf_part_chunks_len f : len_part (part_chunks f).
Proof.
  induction f as [|f IH]; intros l a; [cbn [part_chunks]; lia|].
  rewrite part_chunks_S. apply cf_part_step_len. exact IH.
Qed.

Lemma cf_spec_partial_len l : length (spec_partial l) <= length l.
Proof. unfold spec_partial. pose proof (cf_part_chunks_len (S (length l)) l []) as H. cbn [length] in H. lia. Qed.

Lemma cf_decode_payload_len l p tail : spec_decode l = Valid p tail -> length p <= length l.
Proof. intros H. rewrite <- (spec_partial_valid l p tail H). apply cf_spec_partial_len. Qed.

Lemma cf_fixed_payload_len n l p tail : spec_fixed n l = Valid p tail -> length p <= length l.
Proof.
  unfold spec_fixed. destruct (take_n n l) as [[d a]|] eqn:E; [|discriminate].
  intros H. inversion H. subst d a. apply take_n_some in E. destruct E as [E _]. subst l. rewrite app_length. lia.
Qed.

(* an invalid body is REPORTED as an error by the read-to-end loop (not merely "no normal end") *)
Lemma cf_verdict_err : forall evs acc, (exists o e, In (EvErr o e) evs) ->
  snd (verdict acc evs) <> AtEof -> exists e, snd (verdict acc evs) = Failed e.
Proof.
  induction evs as [|ev evs IH]; intros acc [o [e Hin]] Hne; [destruct Hin|].
  assert (Hrest : ev <> EvErr o e -> snd (verdict (acc ++ ev_bytes ev) evs) <> AtEof ->
                  exists e', snd (verdict (acc ++ ev_bytes ev) evs) = Failed e').
  { intros Hd Hn. apply IH; [|exact Hn]. destruct Hin as [Hin|Hin]; [congruence|]. exists o, e. exact Hin. }
  destruct ev as [k out|sl|n t|o' er|n s]; cbn [verdict] in *.
  - destruct out as [|b out]; [exfalso; apply Hne; reflexivity|]. apply Hrest; [discriminate|exact Hne].
  - destruct sl as [|b sl]; [exfalso; apply Hne; reflexivity|]. apply Hrest; [discriminate|exact Hne].
  - apply Hrest; [discriminate|exact Hne].
  - exists er. reflexivity.
  - apply Hrest; [discriminate|exact Hne].
Qed.

Lemma cf_read_ops_wf b sizes : mwf (mrun0 b (read_ops sizes)).
Proof.
  intros e He. destruct e as [k out|sl|n t|o er|n s]; try reflexivity. exfalso.
  apply mrun_misuse_in in He. apply read_ops_in in He. destruct He as [k [E _]]. discriminate.
Qed.

Lemma cf_chunked_read_error lo st sizes w :
  spec_decode (lo ++ concat st) = Invalid w -> positive_sizes sizes -> length (lo ++ concat st) < length sizes ->
  exists e, snd (fst (read_all (new_chunked lo st) sizes [])) = Failed e.
Proof.
  intros Hs Hpos Hlen. pose proof (chunked_read_invalid lo st sizes w Hs Hpos) as Hne.
  rewrite (read_all_verdict sizes _ [] []) in *. apply cf_verdict_err; [|exact Hne].
  apply (mixed_chunked_invalid_error lo st w (read_ops sizes) Hs (cf_read_ops_wf _ sizes)).
  rewrite (asking_read_ops sizes Hpos). pose proof (cf_spec_partial_len (lo ++ concat st)). lia.
Qed.

Lemma cf_fixed_read_error lo st sizes n w :
  spec_fixed n (lo ++ concat st) = Invalid w -> positive_sizes sizes -> length (lo ++ concat st) < length sizes ->
  exists e, snd (fst (read_all (new_fixed lo st n) sizes [])) = Failed e.
Proof.
  intros Hs Hpos Hlen. pose proof (fixed_read_invalid lo st sizes n w Hs Hpos) as Hne.
  rewrite (read_all_verdict sizes _ [] []) in *. apply cf_verdict_err; [|exact Hne].
  apply (mixed_fixed_invalid_error lo st n w (read_ops sizes) Hs (cf_read_ops_wf _ sizes)).
  rewrite (asking_read_ops sizes Hpos). exact Hlen.
Qed.

(* ------------------------------------------------------------------ what the client observes *)
(* the read-to-end loop of [client_receive_from], with the way it ended: the bytes it collected and
   AtEof (normal end of body) / Failed e (a read returned an error) / More (the sizes ran out) *)
Definition client_body_read (buf : bytes) (stream : list bytes) (sizes : list N) : option (bytes * outcome) :=
  match parse_response buf with
  | Ok r => Some (fst (read_all (from_response (skipn (r_offset r) buf) stream (r_hdrs r)) sizes []))
  | _ => None
  end.

Lemma client_receive_from_read buf stream sizes :
  client_receive_from buf stream sizes =
  match parse_response buf, client_body_read buf stream sizes with
  | Ok r, Some (data, AtEof) => Some (r_code r, r_reason r, r_hdrs r, data)
  | _, _ => None
  end.
Proof.
  unfold client_receive_from, client_body_read. destruct (parse_response buf) as [r|e|f]; try reflexivity.
  cbv zeta. destruct (read_all _ sizes []) as [[data oc] b']. cbn [fst]. destruct oc; reflexivity.
Qed.

(* the client does not obtain a response: the body read ended in an error *)
Definition client_fails (buf : bytes) (stream : list bytes) (sizes : list N) : Prop :=
  client_receive_from buf stream sizes = None /\
  exists d e, client_body_read buf stream sizes = Some (d, Failed e).

Lemma cf_fails_of_read buf stream sizes d e :
  client_body_read buf stream sizes = Some (d, Failed e) -> client_fails buf stream sizes.
Proof.
  intros H. split; [|exists d, e; exact H].
  rewrite client_receive_from_read, H. destruct (parse_response buf); reflexivity.
Qed.

(* ------------------------------------------------------------------ the core: head ++ buffered part | stream *)
Section Core.
Variables (head : bytes) (r : response) (pre : bytes) (stream : list bytes) (sizes : list N) (fs : list (bytes * bytes)).
Hypothesis Hloc : forall t, parse_response (head ++ t) = Ok r.
Hypothesis Hoff : r_offset r = length head.
Hypothesis Hh : r_hdrs r = headers_of fs.
Hypothesis Hok : cl_ok None fs = true.
Hypothesis Hpos : positive_sizes sizes.

Let B := reader_for (resp_framing fs) pre stream.

Lemma cf_core_read : client_body_read (head ++ pre) stream sizes = Some (fst (read_all B sizes [])).
Proof.
  unfold client_body_read. rewrite (Hloc pre), Hoff, (pc_skipn_mid head pre _ eq_refl), Hh.
  rewrite (cf_reader_of_framing pre stream fs Hok). reflexivity.
Qed.

(* a body the spec vouches for: sizes longer than the PAYLOAD are enough *)
Lemma cf_core_body p : resp_body (resp_framing fs) (pre ++ concat stream) = RBody p ->
  length p < length sizes ->
  client_receive_from (head ++ pre) stream sizes = Some (r_code r, r_reason r, r_hdrs r, p).
Proof.
  intros Hb Hlen.
  assert (E : fst (read_all B sizes []) = (p, AtEof)).
  { unfold B. destruct (resp_framing fs) as [|n|]; cbn [resp_body reader_for] in *.
    - destruct (spec_decode (pre ++ concat stream)) as [p' tail|w|] eqn:Es; try discriminate Hb.
      inversion Hb. subst p'. exact (chunked_read_valid pre stream sizes p tail Es Hpos Hlen).
    - destruct (spec_fixed n (pre ++ concat stream)) as [p' tail|w|] eqn:Es; try discriminate Hb.
      inversion Hb. subst p'. destruct (N.eqb_spec n 0) as [E0|E0].
      + subst n. unfold spec_fixed in Es. rewrite take_n_0 in Es. inversion Es. subst p tail.
        apply cf_empty_read. lia.
      + exact (fixed_read_valid pre stream sizes n p tail Es Hpos Hlen).
    - inversion Hb. subst p. exact (cf_eof_read pre stream sizes Hpos Hlen). }
  rewrite client_receive_from_read, (Hloc pre), cf_core_read, E. reflexivity.
Qed.

(* a cut or malformed body: sizes longer than what follows the head are enough to hit the error *)
Lemma cf_core_broken : resp_body (resp_framing fs) (pre ++ concat stream) = RBroken ->
  length (pre ++ concat stream) < length sizes ->
  client_fails (head ++ pre) stream sizes.
Proof.
  intros Hb Hlen.
  assert (E : exists e, snd (fst (read_all B sizes [])) = Failed e).
  { unfold B. destruct (resp_framing fs) as [|n|]; cbn [resp_body reader_for] in *.
    - destruct (spec_decode (pre ++ concat stream)) as [p' tail|w|] eqn:Es; try discriminate Hb.
      exact (cf_chunked_read_error pre stream sizes w Es Hpos Hlen).
    - destruct (spec_fixed n (pre ++ concat stream)) as [p' tail|w|] eqn:Es; try discriminate Hb.
      destruct (N.eqb_spec n 0) as [E0|E0].
      + exfalso. subst n. unfold spec_fixed in Es. rewrite take_n_0 in Es. discriminate Es.
      + exact (cf_fixed_read_error pre stream sizes n w Es Hpos Hlen).
    - discriminate Hb. }
  destruct E as [e E]. destruct (fst (read_all B sizes [])) as [d oc] eqn:Er. cbn [snd] in E. subst oc.
  apply (cf_fails_of_read _ _ _ d e). rewrite cf_core_read, Er. reflexivity.
Qed.
End Core.

(* the payload is never longer than what follows the head *)
Lemma cf_body_len f rest p : resp_body f rest = RBody p -> length p <= length rest.
Proof.
  destruct f as [|n|]; cbn [resp_body].
  - destruct (spec_decode rest) as [p' tail|w|] eqn:Es; try discriminate. intros H. inversion H. subst p'.
    exact (cf_decode_payload_len _ _ _ Es).
  - destruct (spec_fixed n rest) as [p' tail|w|] eqn:Es; try discriminate. intros H. inversion H. subst p'.
    exact (cf_fixed_payload_len _ _ _ _ Es).
  - intros H. inversion H. lia.
Qed.

(* ------------------------------------------------------------------ list splitting *)
Lemma cf_firstn_split {A} (l : list A) a k : a <= k -> a <= length l ->
  firstn k l = firstn a l ++ firstn (k - a) (skipn a l).
Proof.
  intros Hk Ha. transitivity (firstn k (firstn a l ++ skipn a l)); [rewrite firstn_skipn; reflexivity|].
  rewrite firstn_app, firstn_length, (Nat.min_l a (length l) Ha), firstn_firstn, (Nat.min_r k a Hk). reflexivity.
Qed.

Lemma cf_skipn_skipn {A} : forall a b (l : list A), skipn b (skipn a l) = skipn (a + b) l.
Proof.
  induction a as [|a IH]; intros b l; [reflexivity|].
  destruct l as [|x l]; cbn [skipn Nat.add]; [destruct b; reflexivity|apply IH].
Qed.

Lemma cf_rest_split {A} (l : list A) a k : a <= k -> firstn (k - a) (skipn a l) ++ skipn k l = skipn a l.
Proof.
  intros Hk. replace (skipn k l) with (skipn (k - a) (skipn a l)); [apply firstn_skipn|].
  rewrite cf_skipn_skipn. f_equal. lia.
Qed.

(* ------------------------------------------------------------------ client_framing *)
(* [wire] is everything the server sent on the connection; the head buffer holds its first k bytes (at
   least the head), the rest arrives in the segments of [stream]; the caller reads with [sizes]. *)
Section Framing.
Variables (wire : bytes) (r : response) (k : nat) (stream : list bytes).
Hypothesis Hparse : parse_response wire = Ok r.
Hypothesis Hk : r_offset r <= k.
Hypothesis Hstream : concat stream = skipn k wire.

Let raw := resp_raw_fields wire.
Let rest := resp_after_head wire.

Lemma cf_setup :
  (exists sh, strict_status_head wire = Some (sh, r_offset r) /\
     r_version r = (if ss_minor sh then 1 else 0)%N /\ r_code r = ss_code sh /\ r_reason r = ss_reason sh) /\
  r_hdrs r = headers_of raw /\ cl_ok None raw = true /\ rest = skipn (r_offset r) wire /\
  exists pre, firstn k wire = firstn (r_offset r) wire ++ pre /\ pre ++ concat stream = rest /\
    length (firstn (r_offset r) wire) = r_offset r /\
    forall t, parse_response (firstn (r_offset r) wire ++ t) = Ok r.
Proof.
  destruct (cf_response_anatomy wire r Hparse) as [sh [Hsh [Hv [Hc [Hr [Hh [Hok Hloc]]]]]]].
  assert (Eraw : raw = sfield_pairs (ss_fields sh)) by (unfold raw, resp_raw_fields; rewrite Hsh; reflexivity).
  assert (Erest : rest = skipn (r_offset r) wire) by (unfold rest, resp_after_head; rewrite Hsh; reflexivity).
  destruct (strict_status_exact wire sh _ Hsh) as [_ [Hle _]].
  split; [exists sh; repeat split; assumption|].
  rewrite Eraw. split; [exact Hh|]. split; [exact Hok|]. split; [exact Erest|].
  exists (firstn (k - r_offset r) (skipn (r_offset r) wire)).
  split; [apply cf_firstn_split; assumption|].
  split; [rewrite Hstream, Erest; apply cf_rest_split; exact Hk|].
  split; [rewrite firstn_length; lia|exact Hloc].
Qed.

(* a body the spec vouches for: sizes longer than the payload are enough *)
Lemma cf_payload sizes p : positive_sizes sizes ->
  resp_body (resp_framing raw) rest = RBody p -> length p < length sizes ->
  client_receive_from (firstn k wire) stream sizes = Some (r_code r, r_reason r, r_hdrs r, p).
Proof.
  intros Hpos Eb Hlen.
  destruct cf_setup as [_ [Hh [Hok [_ [pre [Hbuf [Hrest [Hoff Hloc]]]]]]]].
  rewrite Hbuf. rewrite <- Hrest in Eb.
  exact (cf_core_body _ r pre stream sizes raw Hloc (eq_sym Hoff) Hh Hok Hpos p Eb Hlen).
Qed.

Lemma cf_body sizes : positive_sizes sizes -> length rest < length sizes ->
  match resp_body (resp_framing raw) rest with
  | RBody p => client_receive_from (firstn k wire) stream sizes = Some (r_code r, r_reason r, r_hdrs r, p)
  | RBroken => client_fails (firstn k wire) stream sizes
  | RUnspec => True
  end.
Proof.
  intros Hpos Hlen. destruct (resp_body (resp_framing raw) rest) as [p| |] eqn:Eb; [| |exact I].
  - apply (cf_payload sizes p Hpos Eb). pose proof (cf_body_len _ _ _ Eb). lia.
  - destruct cf_setup as [_ [Hh [Hok [_ [pre [Hbuf [Hrest [Hoff Hloc]]]]]]]].
    rewrite Hbuf. rewrite <- Hrest in Eb, Hlen.
    exact (cf_core_broken _ r pre stream sizes raw Hloc (eq_sym Hoff) Hh Hok Hpos Eb Hlen).
Qed.
End Framing.

Lemma cf_clauses_of_body raw rest (delivers : bytes -> Prop) (fails : Prop) :
  match resp_body (resp_framing raw) rest with
  | RBody p => delivers p
  | RBroken => fails
  | RUnspec => True
  end -> framing_clauses raw rest delivers fails.
Proof.
  unfold framing_clauses. destruct (resp_framing raw) as [|n|]; cbn [resp_body]; intros H.
  - split; [intros p tail E|intros w E]; rewrite E in H; exact H.
  - split; [intros p tail E|intros w E]; rewrite E in H; exact H.
  - exact H.
Qed.

(* ------------------------------------------------------------------ the theorems *)
(* General split.  [wire]: all bytes of the connection, accepted by the response parser with the head ending
   at [r_offset r]; the head buffer holds the first k bytes of it (the head and possibly more), the remainder
   arrives in the segments of [stream]; [sizes]: the caller's read sizes, positive, more of them than bytes
   follow the head.  The head is the one of [response_sound]; the body is the one the decision
   [resp_framing] over the raw field lines and the strict recognisers determine. *)
Theorem client_framing : forall wire r k stream sizes,
  parse_response wire = Ok r ->
  r_offset r <= k -> concat stream = skipn k wire ->
  positive_sizes sizes -> length (skipn (r_offset r) wire) < length sizes ->
  let raw := resp_raw_fields wire in
  let rest := skipn (r_offset r) wire in
  (exists sh, strict_status_head wire = Some (sh, r_offset r) /\
     r_version r = (if ss_minor sh then 1 else 0)%N /\ r_code r = ss_code sh /\ r_reason r = ss_reason sh) /\
  r_hdrs r = headers_of raw /\
  cl_consistent_rfc raw = true /\
  framing_clauses raw rest
    (fun p => client_receive_from (firstn k wire) stream sizes = Some (r_code r, r_reason r, r_hdrs r, p))
    (client_fails (firstn k wire) stream sizes).
Proof.
  intros wire r k stream sizes Hparse Hk Hstream Hpos Hlen raw rest.
  destruct (cf_setup wire r k stream Hparse Hk Hstream) as [Hsh [Hh [Hok [Hrest _]]]].
  split; [exact Hsh|]. split; [exact Hh|]. split; [rewrite <- cf_cl_ok_rfc; exact Hok|].
  apply cf_clauses_of_body. unfold rest. rewrite <- Hrest.
  apply (cf_body wire r k stream Hparse Hk Hstream sizes Hpos). rewrite Hrest. exact Hlen.
Qed.

(* the same in one formula: the body as [resp_body] reads it *)
Theorem client_framing_body : forall wire r k stream sizes,
  parse_response wire = Ok r ->
  r_offset r <= k -> concat stream = skipn k wire ->
  positive_sizes sizes -> length (resp_after_head wire) < length sizes ->
  resp_after_head wire = skipn (r_offset r) wire /\
  match resp_body (resp_framing (resp_raw_fields wire)) (resp_after_head wire) with
  | RBody p => client_receive_from (firstn k wire) stream sizes = Some (r_code r, r_reason r, r_hdrs r, p)
  | RBroken => client_fails (firstn k wire) stream sizes
  | RUnspec => True
  end.
Proof.
  intros wire r k stream sizes Hparse Hk Hstream Hpos Hlen.
  destruct (cf_setup wire r k stream Hparse Hk Hstream) as [_ [_ [_ [Hrest _]]]].
  split; [exact Hrest|]. exact (cf_body wire r k stream Hparse Hk Hstream sizes Hpos Hlen).
Qed.

(* Everything in one buffer: [client_receive] (the whole response arrives in the one read of
   read_response, then EOF; the caller reads with 8192-byte buffers). *)
Lemma cf_one_read wire : client_receive wire = client_receive_from (firstn (length wire) wire) [] (read_sizes wire).
Proof. rewrite firstn_all. reflexivity. Qed.

Corollary client_framing_one_read : forall wire r,
  parse_response wire = Ok r ->
  let raw := resp_raw_fields wire in
  let rest := skipn (r_offset r) wire in
  (exists sh, strict_status_head wire = Some (sh, r_offset r) /\
     r_version r = (if ss_minor sh then 1 else 0)%N /\ r_code r = ss_code sh /\ r_reason r = ss_reason sh) /\
  r_hdrs r = headers_of raw /\
  cl_consistent_rfc raw = true /\
  framing_clauses raw rest
    (fun p => client_receive wire = Some (r_code r, r_reason r, r_hdrs r, p))
    (client_fails wire [] (read_sizes wire)).
Proof.
  intros wire r Hparse raw rest.
  destruct (cf_response_anatomy wire r Hparse) as [sh [Hsh _]].
  destruct (strict_status_exact wire sh _ Hsh) as [_ [Hle _]].
  pose proof (client_framing wire r (length wire) [] (read_sizes wire) Hparse Hle) as H.
  rewrite firstn_all in H. apply H.
  - rewrite skipn_all. reflexivity.
  - apply read_sizes_positive.
  - unfold read_sizes. rewrite repeat_length, skipn_length. lia.
Qed.

(* In the form of Proofs/ClientRoundBase.v: a response whose body the spec vouches for is [received] - in one
   read, and under every split after the head, every segmentation and all positive read sizes that
   outnumber the PAYLOAD bytes. *)
Corollary client_framing_received : forall wire r p,
  parse_response wire = Ok r ->
  resp_body (resp_framing (resp_raw_fields wire)) (resp_after_head wire) = RBody p ->
  received wire (r_code r, r_reason r, r_hdrs r, p).
Proof.
  intros wire r p Hparse Eb.
  destruct (cf_response_anatomy wire r Hparse) as [sh [Hsh _]].
  destruct (strict_status_exact wire sh _ Hsh) as [_ [Hle _]].
  assert (Erest : resp_after_head wire = skipn (r_offset r) wire) by (unfold resp_after_head; rewrite Hsh; reflexivity).
  pose proof (cf_body_len _ _ _ Eb) as Hp. rewrite Erest, skipn_length in Hp.
  split.
  - rewrite cf_one_read. apply (cf_payload wire r (length wire) [] Hparse Hle).
    + rewrite skipn_all. reflexivity.
    + apply read_sizes_positive.
    + exact Eb.
    + unfold read_sizes. rewrite repeat_length. lia.
  - exists (r_offset r). split; [exact Hle|].
    intros k stream sizes Hk Hst Hpos Hsz. cbn [snd] in Hsz.
    exact (cf_payload wire r k stream Hparse Hk Hst sizes p Hpos Eb Hsz).
Qed.

(* a head the parser accepts never carries invalid or contradictory Content-Length fields (so "the declared
   length" of the spec is well defined on every head the theorems speak about) *)
Theorem accepted_length_consistent : forall wire r, parse_response wire = Ok r ->
  cl_consistent_rfc (resp_raw_fields wire) = true.
Proof.
  intros wire r H. destruct (cf_response_anatomy wire r H) as [sh [Hsh [_ [_ [_ [_ [Hok _]]]]]]].
  unfold resp_raw_fields. rewrite Hsh, <- cf_cl_ok_rfc. exact Hok.
Qed.

(* an accepted head is recognised from its own bytes: the verdict and every reported field are the same
   whatever follows the head *)
Theorem response_head_local : forall wire r, parse_response wire = Ok r ->
  forall t, parse_response (firstn (r_offset r) wire ++ t) = Ok r.
Proof. intros wire r H. destruct (cf_response_anatomy wire r H) as [sh [_ [_ [_ [_ [_ [_ Hloc]]]]]]]. exact Hloc. Qed.

(* the body form for one buffer *)
Corollary client_framing_body_one_read : forall wire r,
  parse_response wire = Ok r ->
  match resp_body (resp_framing (resp_raw_fields wire)) (resp_after_head wire) with
  | RBody p => client_receive wire = Some (r_code r, r_reason r, r_hdrs r, p)
  | RBroken => client_fails wire [] (read_sizes wire)
  | RUnspec => True
  end.
Proof.
  intros wire r Hparse.
  destruct (cf_response_anatomy wire r Hparse) as [sh [Hsh _]].
  destruct (strict_status_exact wire sh _ Hsh) as [_ [Hle _]].
  assert (Erest : resp_after_head wire = skipn (r_offset r) wire) by (unfold resp_after_head; rewrite Hsh; reflexivity).
  pose proof (client_framing_body wire r (length wire) [] (read_sizes wire) Hparse Hle) as H.
  rewrite firstn_all in H. apply H.
  - rewrite skipn_all. reflexivity.
  - apply read_sizes_positive.
  - unfold read_sizes. rewrite repeat_length, Erest, skipn_length. lia.
Qed.

(* ------------------------------------------------------------------ where RFC 9112 6.3 says otherwise *)
(* Every clause of the property holds of the model (above): no clause had to be weakened.  What does NOT
   hold is the statement with RFC 9112 section 6.3's decision [rfc_resp_framing] (Spec/ResponseFraming.v) in
   the place of [resp_framing]: four witnesses, one per difference listed in the spec. *)
Definition cf_crlf : bytes := [x0d; x0a].
Definition cf_show (o : option (N * bytes * headers * bytes)) : option (N * bytes * bytes) :=
  match o with Some (code, reason, _, body) => Some (code, reason, body) | None => None end.

(* 1. chunked is not the final coding: RFC 9112 6.3 rule 4 reads to the end of the stream (the body is the
      gzip coding of a chunked stream); the client chunk-decodes *)
Definition cf_w_chunked_gzip : bytes :=
  bs "HTTP/1.1 200 OK" ++ cf_crlf ++ bs "Transfer-Encoding: chunked, gzip" ++ cf_crlf ++ cf_crlf ++
  bs "5" ++ cf_crlf ++ bs "hello" ++ cf_crlf ++ bs "0" ++ cf_crlf ++ cf_crlf.
Theorem client_framing_rfc_final_chunked_refuted :
  let wire := cf_w_chunked_gzip in
  exists r, parse_response wire = Ok r /\
    rfc_resp_framing (r_code r) (resp_raw_fields wire) = RToEnd /\
    resp_body RToEnd (resp_after_head wire) = RBody (bs "5" ++ cf_crlf ++ bs "hello" ++ cf_crlf ++ bs "0" ++ cf_crlf ++ cf_crlf) /\
    resp_framing (resp_raw_fields wire) = RChunked /\
    cf_show (client_receive wire) = Some (200%N, bs "OK", bs "hello").
Proof. eexists. split; [vm_compute; reflexivity|]. repeat split; vm_compute; reflexivity. Qed.

(* 2. a status that never has a body (304; likewise 1xx, 204, and any response to HEAD), with the
      Content-Length of the omitted representation: RFC 9112 6.3 rule 1 ends the message at the blank
      line; the client waits for 5 bytes and fails at the end of the stream *)
Definition cf_w_304 : bytes :=
  bs "HTTP/1.1 304 Not Modified" ++ cf_crlf ++ bs "Content-Length: 5" ++ cf_crlf ++ bs "ETag: x" ++ cf_crlf ++ cf_crlf.
Theorem client_framing_rfc_no_body_status_refuted :
  let wire := cf_w_304 in
  exists r, parse_response wire = Ok r /\
    resp_body (rfc_resp_framing (r_code r) (resp_raw_fields wire)) (resp_after_head wire) = RBody [] /\
    resp_framing (resp_raw_fields wire) = RFixed 5 /\
    client_receive wire = None /\
    client_body_read wire [] (read_sizes wire) = Some ([], Failed EUnexpectedEof).
Proof. eexists. split; [vm_compute; reflexivity|]. repeat split; vm_compute; reflexivity. Qed.

(* 3. 204 without framing fields on a connection that stays open: RFC: no body, the next response starts
      right behind the blank line; the client reads to the end of the stream and returns the next response
      as the body of this one *)
Definition cf_w_204 : bytes :=
  bs "HTTP/1.1 204 No Content" ++ cf_crlf ++ cf_crlf ++
  bs "HTTP/1.1 200 OK" ++ cf_crlf ++ bs "Content-Length: 2" ++ cf_crlf ++ cf_crlf ++ bs "hi".
Theorem client_framing_rfc_204_refuted :
  let wire := cf_w_204 in
  exists r, parse_response wire = Ok r /\
    resp_body (rfc_resp_framing (r_code r) (resp_raw_fields wire)) (resp_after_head wire) = RBody [] /\
    resp_framing (resp_raw_fields wire) = RToEnd /\
    cf_show (client_receive wire) =
      Some (204%N, bs "No Content", bs "HTTP/1.1 200 OK" ++ cf_crlf ++ bs "Content-Length: 2" ++ cf_crlf ++ cf_crlf ++ bs "hi").
Proof. eexists. split; [vm_compute; reflexivity|]. repeat split; vm_compute; reflexivity. Qed.

(* 4. a Transfer-Encoding without chunked next to a Content-Length: RFC 9112 6.3 rules 3/4 let the
      Transfer-Encoding override (read to the end); the client uses the Content-Length *)
Definition cf_w_te_cl : bytes :=
  bs "HTTP/1.1 200 OK" ++ cf_crlf ++ bs "Transfer-Encoding: gzip" ++ cf_crlf ++ bs "Content-Length: 5" ++ cf_crlf ++ cf_crlf ++
  bs "helloEXTRA".
Theorem client_framing_rfc_te_overrides_refuted :
  let wire := cf_w_te_cl in
  exists r, parse_response wire = Ok r /\
    resp_body (rfc_resp_framing (r_code r) (resp_raw_fields wire)) (resp_after_head wire) = RBody (bs "helloEXTRA") /\
    resp_framing (resp_raw_fields wire) = RFixed 5 /\
    cf_show (client_receive wire) = Some (200%N, bs "OK", bs "hello").
Proof. eexists. split; [vm_compute; reflexivity|]. repeat split; vm_compute; reflexivity. Qed.

(* ------------------------------------------------------------------ instances *)
(* chunked named among other codings, in mixed case with OWS, next to a Content-Length (overridden); chunk
   extension, leading zeros in a size, a trailer field, bytes of a next message behind the body *)
Definition cf_ex1 : bytes :=
  bs "HTTP/1.1 200 OK" ++ cf_crlf ++ bs "Content-Length: 3" ++ cf_crlf ++
  bs "transfer-ENCODING: gzip ," ++ [x09] ++ bs "Chunked " ++ cf_crlf ++ bs "X-Note:" ++ cf_crlf ++ cf_crlf ++
  bs "5;ext=1" ++ cf_crlf ++ bs "hello" ++ cf_crlf ++ bs "007" ++ cf_crlf ++ bs ", world" ++ cf_crlf ++
  bs "0" ++ cf_crlf ++ bs "T: v" ++ cf_crlf ++ cf_crlf ++ bs "NEXT".
Definition cf_ex1_stream : list bytes :=
  [firstn 3 (skipn 90 cf_ex1); []; firstn 11 (skipn 93 cf_ex1); skipn 104 cf_ex1].
Definition cf_ex1_sizes : list N := [1; 2; 3]%N ++ repeat 1%N 43.

Example cf_ex1_spec :
  resp_raw_fields cf_ex1 =
    [(bs "Content-Length", bs "3"); (bs "transfer-ENCODING", bs "gzip ," ++ [x09] ++ bs "Chunked "); (bs "X-Note", [])] /\
  resp_framing (resp_raw_fields cf_ex1) = RChunked /\
  spec_decode (resp_after_head cf_ex1) = Valid (bs "hello, world") (bs "NEXT").
Proof. repeat split; vm_compute; reflexivity. Qed.

(* by the theorem: 7 body bytes in the head buffer, the rest in four segments (one empty), reads of 1, 2, 3, 1, 1, ... bytes *)
Example cf_ex1_by_theorem :
  exists h, client_receive_from (firstn 90 cf_ex1) cf_ex1_stream cf_ex1_sizes = Some (200%N, bs "OK", h, bs "hello, world") /\
            stored h = [(bs "transfer-ENCODING", bs "gzip ," ++ [x09] ++ bs "Chunked "); (bs "X-Note", [])] /\
            content_length h = Some 3%N.
Proof.
  destruct (parse_response cf_ex1) as [r|e|f] eqn:Hr; [|vm_compute in Hr; discriminate Hr|vm_compute in Hr; discriminate Hr].
  assert (Hfacts : r_offset r = 83 /\ r_code r = 200%N /\ r_reason r = bs "OK" /\
                   stored (r_hdrs r) = [(bs "transfer-ENCODING", bs "gzip ," ++ [x09] ++ bs "Chunked "); (bs "X-Note", [])] /\
                   content_length (r_hdrs r) = Some 3%N).
  { vm_compute in Hr. injection Hr as <-. repeat split; reflexivity. }
  destruct Hfacts as [Hoff [Hc [Hre [Hst Hcl]]]].
  destruct (client_framing cf_ex1 r 90 cf_ex1_stream cf_ex1_sizes Hr) as [_ [_ [_ Hcl']]].
  - rewrite Hoff. lia.
  - vm_compute. reflexivity.
  - unfold positive_sizes, cf_ex1_sizes. repeat constructor.
  - rewrite Hoff. vm_compute. lia.
  - unfold framing_clauses in Hcl'. destruct cf_ex1_spec as [_ [Ef Es]]. rewrite Ef in Hcl'. destruct Hcl' as [Hv _].
    unfold resp_after_head in Es.
    assert (Esh : exists sh, strict_status_head cf_ex1 = Some (sh, 83)) by (vm_compute; eexists; reflexivity).
    destruct Esh as [sh Esh]. rewrite Esh in Es. rewrite Hoff in Hv.
    exists (r_hdrs r). rewrite <- Hc, <- Hre. split; [exact (Hv _ _ Es)|]. split; assumption.
Qed.

(* and by computation *)
Example cf_ex1_computed :
  cf_show (client_receive_from (firstn 90 cf_ex1) cf_ex1_stream cf_ex1_sizes) = Some (200%N, bs "OK", bs "hello, world") /\
  cf_show (client_receive cf_ex1) = Some (200%N, bs "OK", bs "hello, world").
Proof. split; vm_compute; reflexivity. Qed.

(* two Content-Length fields that agree ("5", HTAB "005" SP), HTTP/1.0, bytes behind the body: exactly 5 bytes *)
Definition cf_ex2 : bytes :=
  bs "HTTP/1.0 404 Not  Found" ++ cf_crlf ++ bs "Content-Length: 5" ++ cf_crlf ++
  bs "content-length:" ++ [x09] ++ bs "005 " ++ cf_crlf ++ cf_crlf ++ bs "helloEXTRA".
Example cf_ex2_fixed :
  resp_framing (resp_raw_fields cf_ex2) = RFixed 5 /\
  spec_fixed 5 (resp_after_head cf_ex2) = Valid (bs "hello") (bs "EXTRA") /\
  cf_show (client_receive cf_ex2) = Some (404%N, bs "Not  Found", bs "hello") /\
  cf_show (client_receive_from (firstn 70 cf_ex2) [bs "l"; skipn 71 cf_ex2] [2; 2; 2; 2]%N) = Some (404%N, bs "Not  Found", bs "hello").
Proof. repeat split; vm_compute; reflexivity. Qed.

(* "Content-Length: 0" with bytes following: the empty body, whatever follows *)
Definition cf_ex3 : bytes :=
  bs "HTTP/1.1 200 OK" ++ cf_crlf ++ bs "Content-Length: 0" ++ cf_crlf ++ cf_crlf ++ bs "HTTP/1.1 200 OK".
Example cf_ex3_zero :
  resp_framing (resp_raw_fields cf_ex3) = RFixed 0 /\
  spec_fixed 0 (resp_after_head cf_ex3) = Valid [] (bs "HTTP/1.1 200 OK") /\
  cf_show (client_receive cf_ex3) = Some (200%N, bs "OK", []).
Proof. repeat split; vm_compute; reflexivity. Qed.

(* no framing field: everything up to the end of the stream, even what looks like a last chunk *)
Definition cf_ex4 : bytes :=
  bs "HTTP/1.1 200 OK" ++ cf_crlf ++ bs "Connection: close" ++ cf_crlf ++ cf_crlf ++ bs "0" ++ cf_crlf ++ cf_crlf ++ bs "all of it".
Example cf_ex4_to_end :
  resp_framing (resp_raw_fields cf_ex4) = RToEnd /\
  cf_show (client_receive cf_ex4) = Some (200%N, bs "OK", bs "0" ++ cf_crlf ++ cf_crlf ++ bs "all of it") /\
  cf_show (client_receive_from (firstn 40 cf_ex4) [[]; firstn 5 (skipn 40 cf_ex4); skipn 45 cf_ex4] (repeat 3%N 20)) =
    Some (200%N, bs "OK", bs "0" ++ cf_crlf ++ cf_crlf ++ bs "all of it").
Proof. repeat split; vm_compute; reflexivity. Qed.

(* cut short: the last chunk's line is there, the final CRLF is not - by the theorem *)
Definition cf_ex5 : bytes :=
  bs "HTTP/1.1 200 OK" ++ cf_crlf ++ bs "Transfer-Encoding: chunked" ++ cf_crlf ++ cf_crlf ++
  bs "5" ++ cf_crlf ++ bs "hello" ++ cf_crlf ++ bs "0" ++ cf_crlf.
Example cf_ex5_truncated : client_fails cf_ex5 [] (read_sizes cf_ex5).
Proof.
  destruct (parse_response cf_ex5) as [r|e|f] eqn:Hr; [|vm_compute in Hr; discriminate Hr|vm_compute in Hr; discriminate Hr].
  pose proof (client_framing_body_one_read cf_ex5 r Hr) as H.
  assert (E : resp_body (resp_framing (resp_raw_fields cf_ex5)) (resp_after_head cf_ex5) = RBroken) by (vm_compute; reflexivity).
  rewrite E in H. exact H.
Qed.
Example cf_ex5_computed :
  spec_decode (resp_after_head cf_ex5) = Invalid Truncated /\
  client_receive cf_ex5 = None /\
  client_body_read cf_ex5 [] (read_sizes cf_ex5) = Some (bs "hello", Failed EUnexpectedEof).
Proof. repeat split; vm_compute; reflexivity. Qed.

(* fewer bytes than declared, and a chunk size that is not hexadecimal *)
Definition cf_ex6 : bytes := bs "HTTP/1.1 200 OK" ++ cf_crlf ++ bs "Content-Length: 10" ++ cf_crlf ++ cf_crlf ++ bs "hello".
Definition cf_ex7 : bytes :=
  bs "HTTP/1.1 200 OK" ++ cf_crlf ++ bs "Transfer-Encoding: chunked" ++ cf_crlf ++ cf_crlf ++
  bs "+5" ++ cf_crlf ++ bs "hello" ++ cf_crlf ++ bs "0" ++ cf_crlf ++ cf_crlf.
Example cf_ex6_short :
  spec_fixed 10 (resp_after_head cf_ex6) = Invalid Truncated /\
  client_receive cf_ex6 = None /\
  client_body_read cf_ex6 [] (read_sizes cf_ex6) = Some (bs "hello", Failed EUnexpectedEof).
Proof. repeat split; vm_compute; reflexivity. Qed.
Example cf_ex7_bad_size :
  spec_decode (resp_after_head cf_ex7) = Invalid BadSize /\
  client_receive cf_ex7 = None /\
  client_body_read cf_ex7 [] (read_sizes cf_ex7) = Some ([], Failed EInvalidData).
Proof. repeat split; vm_compute; reflexivity. Qed.

(* Content-Length fields that disagree: not an accepted head, the theorems do not speak about it *)
Example cf_ex8_conflict :
  parse_response (bs "HTTP/1.1 200 OK" ++ cf_crlf ++ bs "Content-Length: 5" ++ cf_crlf ++ bs "Content-Length: 6" ++ cf_crlf ++ cf_crlf ++ bs "hello!")
    = Err EHeader.
Proof. vm_compute. reflexivity. Qed.

Print Assumptions client_framing.
Print Assumptions client_framing_body.
Print Assumptions client_framing_one_read.
Print Assumptions client_framing_body_one_read.
Print Assumptions client_framing_received.
Print Assumptions accepted_length_consistent.
Print Assumptions response_head_local.
Print Assumptions client_framing_rfc_final_chunked_refuted.
Print Assumptions client_framing_rfc_no_body_status_refuted.
Print Assumptions client_framing_rfc_204_refuted.
Print Assumptions client_framing_rfc_te_overrides_refuted.
Print Assumptions cf_ex1_by_theorem.
Print Assumptions cf_ex5_truncated.
