(* C08 for ARBITRARY header collections (Spec/PrinterSpecGen.v): what the printer writes for a collection whose
   cached facts agree with its stored fields - every history of add / replace / remove / set_* - is read back by
   the strict decoder of Spec/MessageSpec.v as exactly one message IF AND ONLY IF the collection is [printable]:
   it stores no Transfer-Encoding field, or exactly one whose value is "chunked".  Content-Length declarations
   (several, conflicting, invalid) never break the framing: they are not stored, only the last one counts. *)
From KV Require Import Lib.Bytes Model.Headers Model.Printer Spec.HeaderStore Spec.ChunkedSpec Spec.MessageSpec
  Spec.PrinterSpec Spec.PrinterSpecGen Proofs.Headers Proofs.BodySpec Proofs.PrinterRoundBase Proofs.PrinterRoundHead
  Proofs.PrinterRound.
From KV Require Spec.HttpGrammar.

(* ------------------------------------------------------------------ raw fields: any value without CR / LF *)
Definition plain_name (n : bytes) : bool :=
  forallb (fun b => negb (Byte.eqb b x3a) && negb (Byte.eqb b x0d) && negb (Byte.eqb b x0a)) n.
Definition raw_ok (f : field) : bool :=
  match fst f with [] => false | _ => true end && plain_name (fst f) && no_crlf (snd f).

Lemma tchar_plain b : HttpGrammar.is_tchar b = true ->
  negb (Byte.eqb b x3a) && negb (Byte.eqb b x0d) && negb (Byte.eqb b x0a) = true.
Proof. destruct b; vm_compute; intros H; try reflexivity; discriminate H. Qed.

Lemma name_ok_plain n : name_ok n = true -> match n with [] => false | _ => true end = true /\ plain_name n = true.
Proof.
  unfold name_ok. intros H. apply andb_true_iff in H. destruct H as [H1 H2]. split; [exact H1|].
  unfold plain_name. revert H2. apply forallb_impl. exact tchar_plain.
Qed.

Lemma stored_field_raw f : stored_field_ok f = true -> raw_ok f = true /\ is_clf f = false.
Proof.
  unfold stored_field_ok, raw_ok, value_ok. intros H.
  apply andb_true_iff in H. destruct H as [H H3]. apply andb_true_iff in H. destruct H as [H1 H2].
  destruct (name_ok_plain _ H1) as [N1 N2]. rewrite N1, N2, H2. split; [reflexivity|].
  apply negb_true_iff. exact H3.
Qed.

Lemma wf_field_raw f : wf_field f = true -> raw_ok f = true /\ norm_field f = f.
Proof.
  intros H. destruct (wf_field_inv f H) as (N1 & N2 & V1 & V2). split.
  - unfold raw_ok, plain_name. rewrite N2, V1. destruct (fst f); [contradiction N1; reflexivity | reflexivity].
  - unfold norm_field. rewrite (strip_ows_id _ V2). destruct f; reflexivity.
Qed.

Lemma strip_ows_sp_any v : strip_ows (x20 :: v) = strip_ows v.
Proof. unfold strip_ows. cbn [drop_while is_ows]. reflexivity. Qed.

Lemma dec_fields_render_raw : forall fs fuel rest, forallb raw_ok fs = true -> length fs < fuel ->
  dec_fields fuel (flat_map render_field fs ++ PCRLF ++ rest) = Some (map norm_field fs, rest).
Proof.
  induction fs as [|f fs IH]; intros fuel rest Hwf Hfuel.
  - destruct fuel as [|fuel]; [inversion Hfuel|]. rewrite dec_fields_S. cbn [flat_map app map].
    change (PCRLF ++ rest) with ([] ++ ChunkedSpec.CRLF ++ rest).
    rewrite line_crlf_app by reflexivity. reflexivity.
  - destruct fuel as [|fuel]; [inversion Hfuel|]. cbn [length] in Hfuel.
    cbn [forallb] in Hwf. apply andb_true_iff in Hwf. destruct Hwf as [Hf Hwf].
    unfold raw_ok in Hf. apply andb_true_iff in Hf. destruct Hf as [Hf V1].
    apply andb_true_iff in Hf. destruct Hf as [N1 N2]. unfold plain_name in N2.
    destruct f as [name value]. cbn [fst snd] in *.
    rewrite dec_fields_S. cbn [flat_map map]. rewrite <- app_assoc.
    rewrite (field_line name value _ N2 V1).
    destruct (name ++ x3a :: x20 :: value) as [|l0 lr] eqn:EL.
    { apply app_eq_nil in EL. destruct EL as [_ EL]. discriminate EL. }
    rewrite <- EL. clear EL l0 lr.
    rewrite (find_colon name (x20 :: value) N2).
    rewrite (IH fuel rest Hwf ltac:(lia)).
    rewrite firstn_field, skipn_field, strip_ows_sp_any. reflexivity.
Qed.

(* ------------------------------------------------------------------ the decoder after the head *)
Definition frame_decode (start : bytes) (fs : list field) (r2 : bytes) : option message :=
  let cls := filter (is_name (bs "content-length")) fs in
  let tes := filter (is_name (bs "transfer-encoding")) fs in
  match cls, tes with
  | [cl], [] =>
      match cl_value (snd cl) with
      | Some n => match take_n n r2 with
                  | Some (body, rest) => Some {| m_start := start; m_fields := fs; m_body := body; m_rest := rest |}
                  | None => None
                  end
      | None => None
      end
  | [], [te] =>
      if same_name (snd te) (bs "chunked") then
        match spec_decode r2 with
        | Valid body rest => Some {| m_start := start; m_fields := fs; m_body := body; m_rest := rest |}
        | _ => None
        end
      else None
  | _, _ => None
  end.

Lemma decode_msg_raw start fields payload : nolf start = true -> forallb raw_ok fields = true ->
  line_crlf (start ++ PCRLF ++ flat_map render_field fields ++ PCRLF ++ payload) =
    Some (Some start, flat_map render_field fields ++ PCRLF ++ payload) /\
  dec_fields (S (length (flat_map render_field fields ++ PCRLF ++ payload)))
             (flat_map render_field fields ++ PCRLF ++ payload) = Some (map norm_field fields, payload) /\
  decode_msg (start ++ PCRLF ++ flat_map render_field fields ++ PCRLF ++ payload) =
    frame_decode start (map norm_field fields) payload.
Proof.
  intros Hs Hf.
  assert (line_crlf (start ++ PCRLF ++ flat_map render_field fields ++ PCRLF ++ payload) =
          Some (Some start, flat_map render_field fields ++ PCRLF ++ payload)) as E1
    by apply (line_crlf_app start _ Hs).
  assert (dec_fields (S (length (flat_map render_field fields ++ PCRLF ++ payload)))
            (flat_map render_field fields ++ PCRLF ++ payload) = Some (map norm_field fields, payload)) as E2.
  { apply dec_fields_render_raw; [exact Hf|]. rewrite app_length. pose proof (render_fields_length fields). lia. }
  split; [exact E1|]. split; [exact E2|].
  unfold decode_msg. rewrite E1, E2. reflexivity.
Qed.

(* every decoded message has exactly one framing field, consistent with its body *)
Lemma take_n_length : forall l n b r, take_n n l = Some (b, r) -> N.of_nat (length b) = n.
Proof.
  induction l as [|x l IH]; intros n b r H; cbn [take_n] in H; destruct (N.eqb_spec n 0) as [E|E].
  - injection H as H1 H2. subst b n. reflexivity.
  - discriminate H.
  - injection H as H1 H2. subst b n. reflexivity.
  - destruct (take_n (N.pred n) l) as [[y z]|] eqn:ET; [|discriminate H].
    injection H as H1 H2. subst b r. specialize (IH _ _ _ ET). cbn [length]. lia.
Qed.

Lemma frame_decode_one_framing start fs r2 m : frame_decode start fs r2 = Some m ->
  m_fields m = fs /\ exactly_one_framing (m_fields m) (length (m_body m)).
Proof.
  unfold frame_decode, exactly_one_framing. intros H. cbv zeta in H.
  change (filter (is_name (bs "content-length")) fs) with (filter is_clf fs) in H.
  change (filter (is_name (bs "transfer-encoding")) fs) with (filter is_te fs) in H.
  destruct (filter is_clf fs) as [|cl [|cl2 cls]] eqn:EC; destruct (filter is_te fs) as [|te [|te2 tes]] eqn:ET;
    try discriminate H.
  - destruct (same_name (snd te) (bs "chunked")) eqn:EV; [|discriminate H].
    destruct (spec_decode r2) as [body rest|e|]; try discriminate H.
    injection H as H. subst m. cbn [m_fields m_body]. split; [reflexivity|]. right. exists te. rewrite EC, ET.
    repeat split; try reflexivity. exact EV.
  - destruct (cl_value (snd cl)) as [n|] eqn:EV; [|discriminate H].
    destruct (take_n n r2) as [[body rest]|] eqn:EN; [|discriminate H].
    injection H as H. subst m. cbn [m_fields m_body]. split; [reflexivity|]. left. exists cl. rewrite EC, ET.
    repeat split; try reflexivity. rewrite (take_n_length _ _ _ _ EN). exact EV.
Qed.

Theorem decode_msg_one_framing l m : decode_msg l = Some m ->
  exactly_one_framing (m_fields m) (length (m_body m)).
Proof.
  unfold decode_msg. intros H.
  destruct (line_crlf l) as [[[start|] r1]|]; try discriminate H.
  destruct (dec_fields (S (length r1)) r1) as [[fs r2]|]; [|discriminate H].
  exact (proj2 (frame_decode_one_framing start fs r2 m H)).
Qed.

(* ------------------------------------------------------------------ "chunked" with whitespace around it is found *)
Definition nocomma (l : bytes) : bool := forallb (fun b => negb (Byte.eqb b x2c)) l.

Lemma nocomma_rev l : nocomma (rev l) = nocomma l.
Proof.
  unfold nocomma. induction l as [|a l IH]; [reflexivity|].
  cbn [rev forallb]. rewrite forallb_app, IH. cbn [forallb]. rewrite andb_true_r. apply andb_comm.
Qed.

Lemma nocomma_drop l : nocomma (drop_while is_ows l) = nocomma l.
Proof.
  unfold nocomma. induction l as [|a l IH]; [reflexivity|].
  cbn [drop_while]. destruct (is_ows a) eqn:E; [|reflexivity].
  rewrite IH. cbn [forallb]. replace (negb (Byte.eqb a x2c)) with true; [reflexivity|].
  destruct a; try discriminate E; reflexivity.
Qed.

Lemma nocomma_strip v : nocomma (strip_ows v) = nocomma v.
Proof. unfold strip_ows. rewrite nocomma_rev, nocomma_drop, nocomma_rev, nocomma_drop. reflexivity. Qed.

Lemma lower_nocomma_byte b : negb (Byte.eqb (to_lower b) x2c) = true -> negb (Byte.eqb b x2c) = true.
Proof. destruct b; vm_compute; intros H; try reflexivity; discriminate H. Qed.

Lemma chunked_nocomma s : same_name s (bs "chunked") = true -> nocomma s = true.
Proof.
  intros H. apply same_name_iff in H. unfold lower in H.
  assert (nocomma (map to_lower s) = true) as Q by (rewrite H; vm_compute; reflexivity).
  clear H. unfold nocomma in *. induction s as [|a s IH]; [reflexivity|].
  cbn [map forallb] in Q |- *. apply andb_true_iff in Q. destruct Q as [Q1 Q2].
  rewrite (lower_nocomma_byte a Q1), (IH Q2). reflexivity.
Qed.

Lemma split_on_nocomma v : nocomma v = true -> split_on x2c v = [v].
Proof.
  unfold nocomma. induction v as [|a v IH]; intros H; [reflexivity|].
  cbn [forallb] in H. apply andb_true_iff in H. destruct H as [Ha H]. apply negb_true_iff in Ha.
  cbn [split_on]. rewrite Ha, (IH H). reflexivity.
Qed.

Lemma chunked_token_found v : same_name (strip_ows v) (bs "chunked") = true ->
  existsb (fun t => same_name t (bs "chunked")) (tokens v) = true.
Proof.
  intros H. pose proof (chunked_nocomma _ H) as Hc. rewrite nocomma_strip in Hc.
  unfold tokens. rewrite (split_on_nocomma v Hc). cbn [map existsb]. rewrite H. reflexivity.
Qed.

(* ------------------------------------------------------------------ fresh evaluation and the Transfer-Encoding fields *)
Lemma eval_chunked_no_te st : te_fields_st st = [] -> eval_chunked st = false.
Proof.
  unfold te_fields_st, eval_chunked. induction st as [|f st IH]; intros H; [reflexivity|].
  cbn [filter] in H. destruct (is_te f) eqn:E; [discriminate H|].
  cbn [existsb]. rewrite (IH H), orb_false_r. unfold field_has_token.
  change (same_name (fst f) (bs "transfer-encoding")) with (is_te f). rewrite E. reflexivity.
Qed.

Lemma eval_chunked_te st te : In te (te_fields_st st) -> same_name (strip_ows (snd te)) (bs "chunked") = true ->
  eval_chunked st = true.
Proof.
  unfold te_fields_st, eval_chunked. intros Hin Hv. apply filter_In in Hin. destruct Hin as [Hin Hte].
  apply existsb_exists. exists te. split; [exact Hin|]. unfold field_has_token.
  change (same_name (fst te) (bs "transfer-encoding")) with (is_te te). rewrite Hte. cbn [andb].
  apply chunked_token_found. exact Hv.
Qed.

Lemma printable_cases h : coherent h -> printable h = true ->
  (chunked h = false /\ te_fields h = []) \/
  (chunked h = true /\ exists te, te_fields h = [te] /\ same_name (strip_ows (snd te)) (bs "chunked") = true).
Proof.
  intros (_ & Hc & _) Hp. unfold printable, printable_st in Hp. unfold te_fields.
  destruct (te_fields_st (stored h)) as [|te [|te2 l]] eqn:ET; [left | right | discriminate Hp].
  - split; [|reflexivity]. rewrite Hc. apply eval_chunked_no_te. exact ET.
  - split; [|exists te; split; [reflexivity | exact Hp]].
    rewrite Hc. apply (eval_chunked_te _ te); [rewrite ET; left; reflexivity | exact Hp].
Qed.

Lemma unprintable_te h : printable h = false -> te_fields h <> [].
Proof. unfold printable, printable_st, te_fields. intros Hp C. rewrite C in Hp. discriminate Hp. Qed.

Lemma user_chunked_nil h : te_fields h = [] -> user_chunked h = false.
Proof. unfold user_chunked, user_chunked_st, te_fields. intros H. rewrite H. reflexivity. Qed.
Lemma user_chunked_cons h te l : te_fields h = te :: l -> user_chunked h = true.
Proof. unfold user_chunked, user_chunked_st, te_fields. intros H. rewrite H. reflexivity. Qed.

(* ------------------------------------------------------------------ counting framing fields in the shown fields *)
Lemma filter_norm n l : filter (is_name n) (map norm_field l) = map norm_field (filter (is_name n) l).
Proof.
  induction l as [|a l IH]; [reflexivity|]. cbn [map filter].
  change (is_name n (norm_field a)) with (is_name n a). destruct (is_name n a); cbn [map]; rewrite IH; reflexivity.
Qed.

Lemma filter_forall_neg {A} (p : A -> bool) l : forallb (fun x => negb (p x)) l = true -> filter p l = [].
Proof.
  induction l as [|a l IH]; intros H; [reflexivity|]. cbn [forallb] in H. apply andb_true_iff in H.
  destruct H as [H1 H2]. apply negb_true_iff in H1. cbn [filter]. rewrite H1. apply IH. exact H2.
Qed.

Lemma forallb_impl_gen {A} (p q : A -> bool) l :
  (forall x, p x = true -> q x = true) -> forallb p l = true -> forallb q l = true.
Proof.
  intros Hpq. induction l as [|a l IH]; cbn [forallb]; intros H; [reflexivity|].
  apply andb_true_iff in H. destruct H as [Ha Hl]. rewrite (Hpq a Ha), (IH Hl). reflexivity.
Qed.

Lemma coherent_fields h : coherent h ->
  forallb raw_ok (stored h) = true /\ filter is_clf (stored h) = [].
Proof.
  intros (Hs & _). split.
  - revert Hs. apply forallb_impl_gen. intros f Hf. apply (stored_field_raw f Hf).
  - apply filter_forall_neg. revert Hs. apply forallb_impl_gen. intros f Hf.
    apply negb_true_iff. apply (stored_field_raw f Hf).
Qed.

Definition raw_fields (h : headers) (dv : bytes) : list field :=
  stored h ++ (if print_date h then [(bs "date", dv)] else []).

Lemma head_fields_raw h dv : head_fields h (date_line dv) = flat_map render_field (raw_fields h dv).
Proof.
  unfold head_fields, header_lines, raw_fields. rewrite flat_map_app. f_equal.
  destruct (print_date h); [|reflexivity]. cbn [flat_map]. rewrite app_nil_r. reflexivity.
Qed.

Lemma raw_fields_ok h dv : coherent h -> wf_date_value dv = true -> forallb raw_ok (raw_fields h dv) = true.
Proof.
  intros Hco Hdv. unfold raw_fields. rewrite forallb_app, (proj1 (coherent_fields h Hco)).
  destruct (print_date h); [|reflexivity]. cbn [forallb andb]. unfold wf_date_value in Hdv.
  rewrite (proj1 (wf_field_raw _ Hdv)). reflexivity.
Qed.

Lemma raw_fields_norm h dv : wf_date_value dv = true -> map norm_field (raw_fields h dv) = shown_fields_of h dv.
Proof.
  intros Hdv. unfold raw_fields, shown_fields_of, shown_fields_gen. rewrite map_app. f_equal.
  destruct (print_date h); [|reflexivity]. cbn [map]. unfold wf_date_value in Hdv.
  rewrite (proj2 (wf_field_raw _ Hdv)). reflexivity.
Qed.

Lemma norm_wf_fields F : forallb wf_field F = true -> forallb raw_ok F = true /\ map norm_field F = F.
Proof.
  induction F as [|f F IH]; intros H; [split; reflexivity|].
  cbn [forallb] in H. apply andb_true_iff in H. destruct H as [H1 H2].
  destruct (wf_field_raw f H1) as [R1 R2]. destruct (IH H2) as [I1 I2].
  cbn [forallb map]. rewrite R1, R2, I1, I2. split; reflexivity.
Qed.

Lemma shown_cl_of h dv : coherent h -> filter (is_name CLN) (shown_fields_of h dv) = [].
Proof.
  intros Hco. unfold shown_fields_of, shown_fields_gen. rewrite filter_app, filter_norm.
  change (filter (is_name CLN) (stored h)) with (filter is_clf (stored h)).
  rewrite (proj2 (coherent_fields h Hco)). destruct (print_date h); reflexivity.
Qed.

Lemma shown_te_of h dv : filter (is_name TEN) (shown_fields_of h dv) = map norm_field (te_fields h).
Proof.
  unfold shown_fields_of, shown_fields_gen. rewrite filter_app, filter_norm.
  replace (filter (is_name TEN) (if print_date h then [(bs "date", dv)] else [])) with (@nil field)
    by (destruct (print_date h); reflexivity).
  rewrite app_nil_r. reflexivity.
Qed.

Lemma take_n_all d : take_n (N.of_nat (length d)) d = Some (d, []).
Proof. pose proof (take_n_app d []) as H. rewrite app_nil_r in H. exact H. Qed.

Lemma chunks_decode_nil cs : Forall (fun c => c <> []) cs -> (N.of_nat (length (concat cs)) < 2 ^ 64)%N ->
  spec_decode (flat_map Printer.chunk cs ++ LAST_CHUNK) = Valid (concat cs) [].
Proof. intros H1 H2. pose proof (chunks_decode cs [] H1 H2) as H. rewrite app_nil_r in H. exact H. Qed.

(* ------------------------------------------------------------------ the printed shapes, for one collection *)
Section Shapes.
Variables (start : bytes) (h : headers) (dv : bytes).
Hypothesis Hstart : nolf start = true.
Hypothesis Hco : coherent h.
Hypothesis Hdv : wf_date_value dv = true.

Local Notation S := (shown_fields_of h dv).
Local Notation HF := (head_fields h (date_line dv)).

(* whatever the collection: the decoder reads the head as the shown fields followed by the framing lines F *)
Lemma decode_gen F payload : forallb wf_field F = true ->
  decode_msg (start ++ PCRLF ++ HF ++ flat_map render_field F ++ PCRLF ++ payload) = frame_decode start (S ++ F) payload /\
  parsed_fields (start ++ PCRLF ++ HF ++ flat_map render_field F ++ PCRLF ++ payload) = Some (S ++ F) /\
  parsed_payload (start ++ PCRLF ++ HF ++ flat_map render_field F ++ PCRLF ++ payload) = Some payload.
Proof.
  intros HFw. destruct (norm_wf_fields F HFw) as [F1 F2].
  rewrite head_fields_raw.
  replace (flat_map render_field (raw_fields h dv) ++ flat_map render_field F ++ PCRLF ++ payload)
    with (flat_map render_field (raw_fields h dv ++ F) ++ PCRLF ++ payload)
    by (rewrite render_fields_app, <- app_assoc; reflexivity).
  assert (forallb raw_ok (raw_fields h dv ++ F) = true) as HR
    by (rewrite forallb_app, (raw_fields_ok h dv Hco Hdv), F1; reflexivity).
  destruct (decode_msg_raw start (raw_fields h dv ++ F) payload Hstart HR) as (E1 & E2 & E3).
  rewrite map_app, (raw_fields_norm h dv Hdv), F2 in E2, E3.
  split; [exact E3|]. unfold parsed_fields, parsed_payload. rewrite E1, E2. split; reflexivity.
Qed.

Lemma cl_shape n payload :
  start ++ PCRLF ++ HF ++ content_length_header n ++ PCRLF ++ PCRLF ++ payload =
  start ++ PCRLF ++ HF ++ flat_map render_field [(CLN, dec_of n)] ++ PCRLF ++ payload.
Proof. cbn [flat_map]. rewrite <- cl_line, app_nil_r, <- !app_assoc. reflexivity. Qed.

Lemma te_shape payload :
  start ++ PCRLF ++ HF ++ bs "transfer-encoding: chunked" ++ PCRLF ++ PCRLF ++ payload =
  start ++ PCRLF ++ HF ++ flat_map render_field [(TEN, bs "chunked")] ++ PCRLF ++ payload.
Proof. cbn [flat_map]. rewrite <- te_line, app_nil_r, <- !app_assoc. reflexivity. Qed.

Lemma plain_shape payload :
  start ++ PCRLF ++ HF ++ PCRLF ++ payload = start ++ PCRLF ++ HF ++ flat_map render_field [] ++ PCRLF ++ payload.
Proof. reflexivity. Qed.

Lemma wf_cl_list n : (n < 2 ^ 64)%N -> forallb wf_field [(CLN, dec_of n)] = true.
Proof. intros Hn. cbn [forallb]. rewrite (wf_cl_field n Hn). reflexivity. Qed.
Lemma wf_te_list : forallb wf_field [(TEN, bs "chunked")] = true.
Proof. cbn [forallb]. rewrite wf_te_field. reflexivity. Qed.

(* ---- the framing test of the decoder on shown fields + framing ---- *)
Lemma frame_cl_some n body : te_fields h = [] -> n = N.of_nat (length body) -> (n < 2 ^ 64)%N ->
  frame_decode start (S ++ [(CLN, dec_of n)]) body =
    Some {| m_start := start; m_fields := S ++ [(CLN, dec_of n)]; m_body := body; m_rest := [] |}.
Proof.
  intros HT Hn Hlt. unfold frame_decode. rewrite !filter_app, (shown_cl_of h dv Hco), shown_te_of, HT.
  cbn [map app]. rewrite filter_cl_cl, filter_te_cl. cbn [snd].
  change (cl_value (dec_of n)) with (cl_value (u64_to_ascii n)).
  rewrite (cl_value_u64 n Hlt), Hn, take_n_all. reflexivity.
Qed.

Lemma frame_cl_none n payload : te_fields h <> [] ->
  frame_decode start (S ++ [(CLN, dec_of n)]) payload = None.
Proof.
  intros HT. unfold frame_decode. rewrite !filter_app, (shown_cl_of h dv Hco), shown_te_of.
  destruct (te_fields h) as [|a l]; [contradiction HT; reflexivity|].
  cbn [map app]. rewrite ?filter_cl_cl, ?filter_te_cl. reflexivity.
Qed.

Lemma frame_te_some cs : te_fields h = [] ->
  Forall (fun c => c <> []) cs -> (N.of_nat (length (concat cs)) < 2 ^ 64)%N ->
  frame_decode start (S ++ [(TEN, bs "chunked")]) (flat_map Printer.chunk cs ++ LAST_CHUNK) =
    Some {| m_start := start; m_fields := S ++ [(TEN, bs "chunked")]; m_body := concat cs; m_rest := [] |}.
Proof.
  intros HT Hne Hlt. unfold frame_decode. rewrite !filter_app, (shown_cl_of h dv Hco), shown_te_of, HT.
  cbn [map app]. rewrite filter_cl_te, filter_te_te. cbn [snd].
  replace (same_name (bs "chunked") (bs "chunked")) with true by reflexivity.
  rewrite (chunks_decode_nil cs Hne Hlt). reflexivity.
Qed.

Lemma frame_te_none payload : te_fields h <> [] ->
  frame_decode start (S ++ [(TEN, bs "chunked")]) payload = None.
Proof.
  intros HT. unfold frame_decode. rewrite !filter_app, (shown_cl_of h dv Hco), shown_te_of.
  destruct (te_fields h) as [|a [|b l]]; [contradiction HT; reflexivity| |];
    cbn [map app]; rewrite ?filter_cl_te, ?filter_te_te; reflexivity.
Qed.

Lemma frame_user_some cs te : te_fields h = [te] -> same_name (strip_ows (snd te)) (bs "chunked") = true ->
  Forall (fun c => c <> []) cs -> (N.of_nat (length (concat cs)) < 2 ^ 64)%N ->
  frame_decode start (S ++ []) (flat_map Printer.chunk cs ++ LAST_CHUNK) =
    Some {| m_start := start; m_fields := S ++ []; m_body := concat cs; m_rest := [] |}.
Proof.
  intros HT Hv Hne Hlt. unfold frame_decode. rewrite !filter_app, (shown_cl_of h dv Hco), shown_te_of, HT.
  cbn [map app filter snd norm_field]. rewrite Hv, (chunks_decode_nil cs Hne Hlt). reflexivity.
Qed.

Lemma frame_user_none payload : printable h = false -> frame_decode start (S ++ []) payload = None.
Proof.
  intros Hp. unfold frame_decode. rewrite !filter_app, (shown_cl_of h dv Hco), shown_te_of.
  unfold printable, printable_st in Hp. change (te_fields_st (stored h)) with (te_fields h) in Hp.
  destruct (te_fields h) as [|te [|te2 l]]; [discriminate Hp| |reflexivity].
  cbn [map app filter snd norm_field]. rewrite Hp. reflexivity.
Qed.

(* ---- the three outputs: decoded (printable) or rejected (not printable) ---- *)
Lemma decode_cl_gen n body : te_fields h = [] -> n = N.of_nat (length body) -> (n < 2 ^ 64)%N ->
  decode_msg (start ++ PCRLF ++ HF ++ content_length_header n ++ PCRLF ++ PCRLF ++ body) =
    Some {| m_start := start; m_fields := S ++ [(CLN, dec_of n)]; m_body := body; m_rest := [] |}.
Proof.
  intros HT Hn Hlt. rewrite cl_shape, (proj1 (decode_gen _ body (wf_cl_list n Hlt))).
  apply frame_cl_some; assumption.
Qed.

Lemma none_cl_gen n payload : te_fields h <> [] -> (n < 2 ^ 64)%N ->
  decode_msg (start ++ PCRLF ++ HF ++ content_length_header n ++ PCRLF ++ PCRLF ++ payload) = None.
Proof.
  intros HT Hlt. rewrite cl_shape, (proj1 (decode_gen _ payload (wf_cl_list n Hlt))).
  apply frame_cl_none; assumption.
Qed.

Lemma decode_te_gen cs : te_fields h = [] ->
  Forall (fun c => c <> []) cs -> (N.of_nat (length (concat cs)) < 2 ^ 64)%N ->
  decode_msg (start ++ PCRLF ++ HF ++ bs "transfer-encoding: chunked" ++ PCRLF ++ PCRLF ++
              flat_map Printer.chunk cs ++ LAST_CHUNK) =
    Some {| m_start := start; m_fields := S ++ [(TEN, bs "chunked")]; m_body := concat cs; m_rest := [] |}.
Proof.
  intros HT Hne Hlt. rewrite te_shape, (proj1 (decode_gen _ _ wf_te_list)).
  apply frame_te_some; assumption.
Qed.

Lemma none_te_gen payload : te_fields h <> [] ->
  decode_msg (start ++ PCRLF ++ HF ++ bs "transfer-encoding: chunked" ++ PCRLF ++ PCRLF ++ payload) = None.
Proof.
  intros HT. rewrite te_shape, (proj1 (decode_gen _ _ wf_te_list)). apply frame_te_none; assumption.
Qed.

Lemma decode_user_te_gen cs te : te_fields h = [te] -> same_name (strip_ows (snd te)) (bs "chunked") = true ->
  Forall (fun c => c <> []) cs -> (N.of_nat (length (concat cs)) < 2 ^ 64)%N ->
  decode_msg (start ++ PCRLF ++ HF ++ PCRLF ++ flat_map Printer.chunk cs ++ LAST_CHUNK) =
    Some {| m_start := start; m_fields := S ++ []; m_body := concat cs; m_rest := [] |}.
Proof.
  intros HT Hv Hne Hlt. rewrite plain_shape, (proj1 (decode_gen [] _ eq_refl)).
  apply (frame_user_some cs te); assumption.
Qed.

Lemma none_plain_gen payload : printable h = false ->
  decode_msg (start ++ PCRLF ++ HF ++ PCRLF ++ payload) = None.
Proof.
  intros Hp. rewrite plain_shape, (proj1 (decode_gen [] _ eq_refl)). apply frame_user_none; assumption.
Qed.

(* ---- the framing the printer chose, in the terms of the specification ---- *)
Lemma ffg_added len framing : te_fields h = [] ->
  (framing = [(CLN, dec_of (N.of_nat len))] \/ (content_length h = None /\ framing = [(TEN, bs "chunked")])) ->
  framing_for_gen h len framing.
Proof.
  intros HT H. unfold framing_for_gen, framing_for_st. change (user_chunked_st (stored h)) with (user_chunked h).
  rewrite (user_chunked_nil h HT). exact H.
Qed.

Lemma ffg_user len te l : te_fields h = te :: l -> framing_for_gen h len [].
Proof.
  intros HT. unfold framing_for_gen, framing_for_st. change (user_chunked_st (stored h)) with (user_chunked h).
  rewrite (user_chunked_cons h te l HT). reflexivity.
Qed.

(* ---- fixed bodies ---- *)
Lemma empty_output_gen : printable h = true ->
  exists framing,
    decode_msg (start ++ PCRLF ++ HF ++
                (if Headers.chunked h then PCRLF ++ LAST_CHUNK else bs "content-length: 0" ++ PCRLF ++ PCRLF)) =
      Some {| m_start := start; m_fields := S ++ framing; m_body := []; m_rest := [] |}
    /\ framing_for_gen h 0 framing.
Proof.
  intros Hp. destruct (printable_cases h Hco Hp) as [(Hc & HT)|(Hc & te & HT & Hv)]; rewrite Hc.
  - exists [(CLN, dec_of 0)]. split; [|apply (ffg_added 0 _ HT); left; reflexivity].
    change (bs "content-length: 0" ++ PCRLF ++ PCRLF) with (content_length_header 0 ++ PCRLF ++ PCRLF ++ []).
    apply (decode_cl_gen 0 [] HT); [reflexivity | vm_compute; reflexivity].
  - exists []. split; [|apply (ffg_user 0 te [] HT)].
    change (PCRLF ++ LAST_CHUNK) with (PCRLF ++ flat_map Printer.chunk [] ++ LAST_CHUNK).
    apply (decode_user_te_gen [] te HT Hv); [constructor | vm_compute; reflexivity].
Qed.

Lemma empty_output_none : printable h = false ->
  decode_msg (start ++ PCRLF ++ HF ++
              (if Headers.chunked h then PCRLF ++ LAST_CHUNK else bs "content-length: 0" ++ PCRLF ++ PCRLF)) = None.
Proof.
  intros Hp. destruct (Headers.chunked h).
  - apply none_plain_gen. exact Hp.
  - change (bs "content-length: 0" ++ PCRLF ++ PCRLF) with (content_length_header 0 ++ PCRLF ++ PCRLF ++ []).
    apply none_cl_gen; [apply unprintable_te; exact Hp | vm_compute; reflexivity].
Qed.

Definition bytes_output (body : bytes) (accepted : nat) : wres :=
  if Headers.chunked h then
    WOk ((start ++ PCRLF ++ HF) ++ PCRLF ++ (match body with [] => [] | _ => Printer.chunk body end) ++ LAST_CHUNK)
  else
    WOk (write_vectored_bytes ((start ++ PCRLF ++ HF) ++
           content_length_header (N.of_nat (length body)) ++ PCRLF ++ PCRLF) body accepted).

Lemma bytes_output_gen body accepted : printable h = true -> (N.of_nat (length body) < 2 ^ 64)%N ->
  exists framing,
    decode_msg (out_of (bytes_output body accepted)) =
      Some {| m_start := start; m_fields := S ++ framing; m_body := body; m_rest := [] |}
    /\ framing_for_gen h (length body) framing
    /\ framing = (if user_chunked h then [] else [(CLN, dec_of (N.of_nat (length body)))]).
Proof.
  intros Hp Hlt. unfold bytes_output.
  destruct (printable_cases h Hco Hp) as [(Hc & HT)|(Hc & te & HT & Hv)]; rewrite Hc; cbn [out_of].
  - exists [(CLN, dec_of (N.of_nat (length body)))].
    split; [|split; [apply (ffg_added _ _ HT); left; reflexivity | rewrite (user_chunked_nil h HT); reflexivity]].
    rewrite PrinterRoundBase.vectored_independent, <- !app_assoc.
    apply decode_cl_gen; [exact HT | reflexivity | exact Hlt].
  - exists []. split; [|split; [apply (ffg_user _ te [] HT) | rewrite (user_chunked_cons h te [] HT); reflexivity]].
    rewrite <- !app_assoc.
    destruct body as [|b body].
    + change ([] ++ LAST_CHUNK) with (flat_map Printer.chunk [] ++ LAST_CHUNK).
      apply (decode_user_te_gen [] te HT Hv); [constructor | vm_compute; reflexivity].
    + replace (Printer.chunk (b :: body) ++ LAST_CHUNK) with (flat_map Printer.chunk [b :: body] ++ LAST_CHUNK)
        by (cbn [flat_map]; rewrite app_nil_r; reflexivity).
      rewrite (decode_user_te_gen [b :: body] te HT Hv).
      * cbn [concat]. rewrite !app_nil_r. reflexivity.
      * constructor; [discriminate | constructor].
      * cbn [concat]. rewrite app_nil_r. exact Hlt.
Qed.

Lemma bytes_output_none body accepted : printable h = false -> (N.of_nat (length body) < 2 ^ 64)%N ->
  decode_msg (out_of (bytes_output body accepted)) = None.
Proof.
  intros Hp Hlt. unfold bytes_output. destruct (Headers.chunked h); cbn [out_of].
  - rewrite <- !app_assoc. apply none_plain_gen. exact Hp.
  - rewrite PrinterRoundBase.vectored_independent, <- !app_assoc.
    apply none_cl_gen; [apply unprintable_te; exact Hp | exact Hlt].
Qed.

(* what is on the wire, printable or not: the stored fields, the date, and the framing decided by the cached flag *)
Lemma bytes_output_anatomy body accepted : (N.of_nat (length body) < 2 ^ 64)%N ->
  parsed_fields (out_of (bytes_output body accepted)) =
    Some (S ++ (if Headers.chunked h then [] else [(CLN, dec_of (N.of_nat (length body)))])) /\
  parsed_payload (out_of (bytes_output body accepted)) =
    Some (if Headers.chunked h then (match body with [] => [] | _ => Printer.chunk body end) ++ LAST_CHUNK else body).
Proof.
  intros Hlt. unfold bytes_output. destruct (Headers.chunked h); cbn [out_of].
  - rewrite <- !app_assoc, plain_shape. apply (decode_gen [] _ eq_refl).
  - rewrite PrinterRoundBase.vectored_independent, <- !app_assoc, cl_shape.
    apply (decode_gen _ body (wf_cl_list _ Hlt)).
Qed.

(* ---- the body logic shared by write_response and write_request ---- *)
Lemma with_body_declared_gen pieces accepted d :
  printable h = true -> user_chunked h = false -> content_length h = Some d ->
  (d <= N.of_nat (length (concat pieces)))%N ->
  decode_msg (out_of (with_body (start ++ PCRLF) h (date_line dv) pieces accepted)) =
    Some {| m_start := start; m_fields := S ++ [(CLN, dec_of d)];
            m_body := firstn (N.to_nat d) (concat pieces); m_rest := [] |} /\
  is_ok (with_body (start ++ PCRLF) h (date_line dv) pieces accepted) = true.
Proof.
  intros Hp Hu Hdl Hle. pose proof (proj2 (proj2 Hco) d Hdl) as Hlt.
  destruct (printable_cases h Hco Hp) as [(Hc & HT)|(Hc & te & HT & Hv)];
    [|rewrite (user_chunked_cons h te [] HT) in Hu; discriminate Hu].
  unfold with_body. rewrite Hc, Hdl.
  pose proof (take_all_spec (reader_fuel pieces) (N.to_nat d) pieces [] (reader_fuel_measure pieces)) as TA.
  destruct (take_all (reader_fuel pieces) (N.to_nat d) pieces []) as [buf r2]. cbn [fst app] in TA. subst buf.
  assert (d = N.of_nat (length (firstn (N.to_nat d) (concat pieces)))) as Hlen.
  { rewrite firstn_length. lia. }
  destruct (d <=? N.of_nat PROBE_MAX)%N.
  - rewrite <- Hlen, N.eqb_refl.
    cbn [out_of is_ok]. split; [|reflexivity]. rewrite PrinterRoundBase.vectored_independent, <- !app_assoc.
    apply decode_cl_gen; assumption.
  - rewrite <- Hlen, N.eqb_refl. cbn [out_of is_ok]. split; [|reflexivity]. rewrite <- !app_assoc.
    apply decode_cl_gen; assumption.
Qed.

Lemma with_body_roundtrip_gen pieces accepted :
  printable h = true -> (N.of_nat (length (concat pieces)) < 2 ^ 64)%N ->
  (user_chunked h = true \/ content_length h = None \/
   content_length h = Some (N.of_nat (length (concat pieces)))) ->
  exists framing,
    decode_msg (out_of (with_body (start ++ PCRLF) h (date_line dv) pieces accepted)) =
      Some {| m_start := start; m_fields := S ++ framing; m_body := concat pieces; m_rest := [] |}
    /\ framing_for_gen h (length (concat pieces)) framing
    /\ is_ok (with_body (start ++ PCRLF) h (date_line dv) pieces accepted) = true.
Proof.
  intros Hp Hlt Hdecl.
  destruct (printable_cases h Hco Hp) as [(Hc & HT)|(Hc & te & HT & Hv)].
  - rewrite (user_chunked_nil h HT) in Hdecl. destruct Hdecl as [C|[Hdl|Hdl]]; [discriminate C| |].
    + (* nothing declared: probe *)
      unfold with_body. rewrite Hc, Hdl.
      destruct (probe_body (reader_fuel pieces) pieces []) as [[prefix complete] r'] eqn:EP.
      destruct (probe_body_spec _ _ _ _ _ _ (reader_fuel_measure pieces) EP) as (P1 & P2 & P3).
      cbn [app] in P1. destruct complete.
      * exists [(CLN, dec_of (N.of_nat (length (concat pieces))))].
        rewrite (P2 eq_refl), app_nil_r in P1. subst prefix.
        cbn [out_of is_ok]. split; [|split; [apply (ffg_added _ _ HT); left; reflexivity | reflexivity]].
        rewrite PrinterRoundBase.vectored_independent, <- !app_assoc.
        apply decode_cl_gen; [exact HT | reflexivity | exact Hlt].
      * exists [(TEN, bs "chunked")].
        destruct (write_chunked_spec (reader_fuel r') r' (reader_fuel_measure r')) as (cs & W1 & W2 & W3).
        rewrite W1. cbn [out_of is_ok].
        split; [|split; [apply (ffg_added _ _ HT); right; split; [exact Hdl | reflexivity] | reflexivity]].
        assert (prefix <> []) as Hpne.
        { intros C. subst prefix. specialize (P3 eq_refl). cbn [length] in P3. pose proof PROBE_MAX_pos. lia. }
        replace (Printer.chunk prefix ++ flat_map Printer.chunk cs ++ LAST_CHUNK)
          with (flat_map Printer.chunk (prefix :: cs) ++ LAST_CHUNK)
          by (cbn [flat_map]; rewrite <- app_assoc; reflexivity).
        assert (concat (prefix :: cs) = concat pieces) as Hcc by (cbn [concat]; rewrite W2; symmetry; exact P1).
        rewrite <- !app_assoc, <- Hcc. apply decode_te_gen.
        -- exact HT.
        -- constructor; assumption.
        -- rewrite Hcc. exact Hlt.
    + (* the true length declared *)
      exists [(CLN, dec_of (N.of_nat (length (concat pieces))))].
      destruct (with_body_declared_gen pieces accepted _ Hp (user_chunked_nil h HT) Hdl (N.le_refl _)) as [D1 D2].
      rewrite Nat2N.id, firstn_all in D1.
      split; [exact D1 | split; [apply (ffg_added _ _ HT); left; reflexivity | exact D2]].
  - (* the user's own Transfer-Encoding: chunked; a declared length is ignored *)
    exists []. unfold with_body. rewrite Hc.
    destruct (write_chunked_spec (reader_fuel pieces) pieces (reader_fuel_measure pieces)) as (cs & W1 & W2 & W3).
    rewrite W1. cbn [out_of is_ok]. split; [|split; [apply (ffg_user _ te [] HT) | reflexivity]].
    rewrite <- !app_assoc, <- W2. apply (decode_user_te_gen cs te HT Hv); [exact W3 | rewrite W2; exact Hlt].
Qed.

Lemma with_body_none pieces accepted :
  printable h = false -> (N.of_nat (length (concat pieces)) < 2 ^ 64)%N ->
  decode_msg (out_of (with_body (start ++ PCRLF) h (date_line dv) pieces accepted)) = None.
Proof.
  intros Hp Hlt. unfold with_body. destruct (Headers.chunked h).
  - cbn [out_of]. rewrite <- !app_assoc. apply none_plain_gen. exact Hp.
  - pose proof (unprintable_te h Hp) as HT. destruct (content_length h) as [d|] eqn:Hdl.
    + pose proof (proj2 (proj2 Hco) d Hdl) as Hd.
      destruct (take_all (reader_fuel pieces) (N.to_nat d) pieces []) as [buf r2].
      destruct (d <=? N.of_nat PROBE_MAX)%N.
      * destruct (N.of_nat (length buf) =? d)%N; cbn [out_of]; [|reflexivity].
        rewrite PrinterRoundBase.vectored_independent, <- !app_assoc. apply none_cl_gen; assumption.
      * destruct (N.of_nat (length buf) =? d)%N; cbn [out_of]; rewrite <- !app_assoc; apply none_cl_gen; assumption.
    + destruct (probe_body (reader_fuel pieces) pieces []) as [[prefix complete] r'] eqn:EP.
      destruct (probe_body_spec _ _ _ _ _ _ (reader_fuel_measure pieces) EP) as (P1 & _ & _).
      cbn [app] in P1. destruct complete; cbn [out_of].
      * rewrite PrinterRoundBase.vectored_independent, <- !app_assoc. apply none_cl_gen; [exact HT|].
        rewrite P1, app_length in Hlt. lia.
      * rewrite <- !app_assoc. apply none_te_gen. exact HT.
Qed.

End Shapes.

Lemma with_body_short_gen start' h date pieces accepted d :
  Headers.chunked h = false -> content_length h = Some d ->
  (N.of_nat (length (concat pieces)) < d)%N ->
  is_ok (with_body start' h date pieces accepted) = false /\
  ((d <= N.of_nat PROBE_MAX)%N -> out_of (with_body start' h date pieces accepted) = []).
Proof.
  intros Hc Hdl Hshort. unfold with_body. rewrite Hc, Hdl.
  pose proof (take_all_spec (reader_fuel pieces) (N.to_nat d) pieces [] (reader_fuel_measure pieces)) as TA.
  destruct (take_all (reader_fuel pieces) (N.to_nat d) pieces []) as [data r2]. cbn [fst app] in TA. subst data.
  assert ((N.of_nat (length (firstn (N.to_nat d) (concat pieces))) =? d)%N = false) as E.
  { apply N.eqb_neq. rewrite firstn_length. lia. }
  rewrite E. destruct (N.leb_spec d (N.of_nat PROBE_MAX)) as [C|C]; cbn [is_ok out_of].
  - split; [reflexivity|]. intros _. reflexivity.
  - split; [reflexivity|]. intros C2. lia.
Qed.

(* ------------------------------------------------------------------ every admissible history gives a coherent collection *)
Definition set_pd (b : bool) (h : headers) : headers :=
  {| stored := stored h; content_length := content_length h; Headers.chunked := Headers.chunked h;
     connection_close := connection_close h; print_date := b |}.

Lemma hstep_pd b h o : hstep (set_pd b h) o = set_pd b (hstep h o).
Proof.
  destruct o as [n v|n v|n|l| |]; cbn [hstep].
  - unfold add, set_pd; cbn [stored content_length Headers.chunked connection_close print_date].
    destruct (eq_ic n CONTENT_LENGTH), (eq_ic n TRANSFER_ENCODING), (eq_ic n CONNECTION); reflexivity.
  - unfold replace, add, remove, set_pd; cbn [stored content_length Headers.chunked connection_close print_date].
    destruct (eq_ic n CONTENT_LENGTH), (eq_ic n TRANSFER_ENCODING), (eq_ic n CONNECTION); reflexivity.
  - unfold remove, set_pd; cbn [stored content_length Headers.chunked connection_close print_date].
    destruct (eq_ic n CONTENT_LENGTH), (eq_ic n TRANSFER_ENCODING), (eq_ic n CONNECTION); reflexivity.
  - reflexivity.
  - unfold set_transfer_encoding_chunked. cbn [set_pd Headers.chunked].
    destruct (Headers.chunked h); reflexivity.
  - reflexivity.
Qed.

Lemma fold_pd b ops : forall h, fold_left hstep ops (set_pd b h) = set_pd b (fold_left hstep ops h).
Proof. induction ops as [|o ops IH]; intros h; [reflexivity|]. cbn [fold_left]. rewrite hstep_pd. apply IH. Qed.

Lemma hrun_from_pd dated ops : hrun_from dated ops = set_pd dated (hrun ops).
Proof.
  unfold hrun_from, hrun. rewrite <- fold_pd. destruct dated; reflexivity.
Qed.

Lemma hrun_from_facts dated ops :
  stored (hrun_from dated ops) = spec_stored ops /\
  Headers.chunked (hrun_from dated ops) = eval_chunked (spec_stored ops) /\
  content_length (hrun_from dated ops) = spec_cl ops /\
  print_date (hrun_from dated ops) = dated.
Proof.
  destruct (headers_inv ops) as (Hs & Hc & _ & Hl). rewrite hrun_from_pd.
  cbn [set_pd stored content_length Headers.chunked print_date]. rewrite Hc, Hs. repeat split. exact Hl.
Qed.

Lemma ops_ok_snoc ops o : ops_ok (ops ++ [o]) = ops_ok ops && op_ok o.
Proof. unfold ops_ok. rewrite forallb_app. cbn [forallb]. rewrite andb_true_r. reflexivity. Qed.

Lemma spec_stored_ok ops : ops_ok ops = true -> forallb stored_field_ok (spec_stored ops) = true.
Proof.
  induction ops as [|o ops IH] using rev_ind; intros H; [reflexivity|].
  rewrite ops_ok_snoc in H. apply andb_true_iff in H. destruct H as [H1 H2]. specialize (IH H1).
  rewrite spec_stored_snoc.
  destruct o as [n v|n v|n|l| |]; cbv beta iota zeta delta [store_step].
  - destruct (is_cl n) eqn:E; [exact IH|]. rewrite forallb_app, IH. cbn [forallb op_ok] in *.
    unfold stored_field_ok. cbn [fst snd]. change (is_clf (n, v)) with (is_cl n). rewrite E.
    apply andb_true_iff in H2. destruct H2 as [A B]. rewrite A, B. reflexivity.
  - destruct (is_cl n) eqn:E; [apply forallb_filter; exact IH|].
    rewrite forallb_app, (forallb_filter _ _ _ IH). cbn [forallb op_ok] in *.
    unfold stored_field_ok. cbn [fst snd]. change (is_clf (n, v)) with (is_cl n). rewrite E.
    apply andb_true_iff in H2. destruct H2 as [A B]. rewrite A, B. reflexivity.
  - apply forallb_filter. exact IH.
  - exact IH.
  - destruct (eval_chunked (spec_stored ops)); [exact IH|]. rewrite forallb_app, IH. vm_compute. reflexivity.
  - rewrite forallb_app, IH. vm_compute. reflexivity.
Qed.

Lemma spec_cl_bound ops d : ops_ok ops = true -> spec_cl ops = Some d -> (d < 2 ^ 64)%N.
Proof.
  intros Hok. unfold spec_cl.
  assert (forallb op_ok (rev ops) = true) as Hr.
  { apply forallb_forall. intros o Ho. apply in_rev in Ho. unfold ops_ok in Hok. rewrite forallb_forall in Hok.
    apply Hok. exact Ho. }
  clear Hok. revert Hr. generalize (rev ops) as r. induction r as [|o r IH]; intros Hr H; [discriminate H|].
  cbn [forallb] in Hr. apply andb_true_iff in Hr. destruct Hr as [Ho Hr].
  destruct o as [n v|n v|n|l| |]; cbn [spec_cl_rev] in H.
  - destruct (is_cl n); [apply (cl_value_lt v d H) | apply IH; assumption].
  - destruct (is_cl n); [apply (cl_value_lt v d H) | apply IH; assumption].
  - destruct (is_cl n); [discriminate H | apply IH; assumption].
  - subst l. cbn [op_ok] in Ho. apply N.ltb_lt. exact Ho.
  - apply IH; assumption.
  - apply IH; assumption.
Qed.

Theorem hrun_coherent dated ops : ops_ok ops = true -> coherent (hrun_from dated ops).
Proof.
  intros Hok. destruct (hrun_from_facts dated ops) as (F1 & F2 & F3 & _). unfold coherent.
  rewrite F1, F2, F3. split; [apply spec_stored_ok; exact Hok|]. split; [reflexivity|].
  intros d Hd. apply (spec_cl_bound ops d Hok Hd).
Qed.

(* histories without a Transfer-Encoding operation are printable, whatever they do with Content-Length *)
Lemma filter_nil_filter {A} (p q : A -> bool) l : filter p l = [] -> filter p (filter q l) = [].
Proof.
  induction l as [|a l IH]; intros H; [reflexivity|]. cbn [filter] in H.
  destruct (p a) eqn:E; [discriminate H|]. cbn [filter]. destruct (q a); [cbn [filter]; rewrite E|]; apply IH; exact H.
Qed.

Lemma te_free_no_te ops : te_free ops = true -> te_fields_st (spec_stored ops) = [].
Proof.
  unfold te_fields_st.
  induction ops as [|o ops IH] using rev_ind; intros H; [reflexivity|].
  unfold te_free in H. rewrite forallb_app in H. cbn [forallb] in H. rewrite andb_true_r in H.
  apply andb_true_iff in H. destruct H as [H1 H2]. specialize (IH H1). apply negb_true_iff in H2.
  rewrite spec_stored_snoc.
  destruct o as [n v|n v|n|l| |]; cbv beta iota zeta delta [store_step]; cbn [adds_te] in H2.
  - destruct (is_cl n); [exact IH|]. rewrite filter_app, IH. cbn [filter].
    change (is_te (n, v)) with (same_name n (bs "transfer-encoding")). rewrite H2. reflexivity.
  - destruct (is_cl n); [apply filter_nil_filter; exact IH|]. rewrite filter_app, (filter_nil_filter _ _ _ IH).
    cbn [filter]. change (is_te (n, v)) with (same_name n (bs "transfer-encoding")). rewrite H2. reflexivity.
  - apply filter_nil_filter. exact IH.
  - exact IH.
  - discriminate H2.
  - rewrite filter_app, IH. reflexivity.
Qed.

Theorem te_free_printable ops : te_free ops = true -> printable_st (spec_stored ops) = true.
Proof. intros H. unfold printable_st. rewrite (te_free_no_te ops H). reflexivity. Qed.

(* histories whose Transfer-Encoding field comes only from set_transfer_encoding_chunked (called any number of times,
   mixed with remove / replace of other names) are printable: the call is idempotent *)
Lemma filter_te_without_other n (fs : list field) : same_name n (bs "transfer-encoding") = false ->
  filter is_te (filter (fun f => negb (same_name (fst f) n)) fs) = filter is_te fs.
Proof.
  intros Hn. induction fs as [|f fs IH]; [reflexivity|]. cbn [filter].
  destruct (same_name (fst f) n) eqn:E; cbn [negb filter]; rewrite IH; [|reflexivity].
  unfold is_te at 2. rewrite (same_name_trans_false _ _ _ E Hn). reflexivity.
Qed.

Lemma filter_te_without_te n (fs : list field) : same_name n (bs "transfer-encoding") = true ->
  filter is_te (filter (fun f => negb (same_name (fst f) n)) fs) = [].
Proof.
  intros Hn. induction fs as [|f fs IH]; [reflexivity|]. cbn [filter].
  destruct (same_name (fst f) n) eqn:E; cbn [negb filter]; [exact IH|].
  replace (is_te f) with false; [exact IH|]. symmetry. unfold is_te.
  destruct (same_name (fst f) (bs "transfer-encoding")) eqn:E2; [|reflexivity].
  apply same_name_iff in E2. apply same_name_iff in Hn.
  assert (same_name (fst f) n = true) as C by (apply same_name_iff; congruence). congruence.
Qed.

Lemma te_by_set_only_fields ops : te_by_set_only ops = true ->
  te_fields_st (spec_stored ops) = [] \/ te_fields_st (spec_stored ops) = [(bs "transfer-encoding", bs "chunked")].
Proof.
  unfold te_fields_st.
  induction ops as [|o ops IH] using rev_ind; intros H; [left; reflexivity|].
  unfold te_by_set_only in H. rewrite forallb_app in H. cbn [forallb] in H. rewrite andb_true_r in H.
  apply andb_true_iff in H. destruct H as [H1 H2]. specialize (IH H1).
  rewrite spec_stored_snoc.
  destruct o as [n v|n v|n|l| |]; cbv beta iota zeta delta [store_step].
  - apply negb_true_iff in H2. destruct (is_cl n); [exact IH|]. rewrite filter_app. cbn [filter].
    change (is_te (n, v)) with (same_name n (bs "transfer-encoding")). rewrite H2, app_nil_r. exact IH.
  - apply negb_true_iff in H2. destruct (is_cl n).
    + rewrite (filter_te_without_other n _ H2). exact IH.
    + rewrite filter_app, (filter_te_without_other n _ H2). cbn [filter].
      change (is_te (n, v)) with (same_name n (bs "transfer-encoding")). rewrite H2, app_nil_r. exact IH.
  - destruct (same_name n (bs "transfer-encoding")) eqn:E.
    + left. apply filter_te_without_te. exact E.
    + rewrite (filter_te_without_other n _ E). exact IH.
  - exact IH.
  - destruct (eval_chunked (spec_stored ops)) eqn:E; [exact IH|]. destruct IH as [IH|IH].
    + right. rewrite filter_app, IH. reflexivity.
    + exfalso. assert (eval_chunked (spec_stored ops) = true) as C; [|congruence].
      apply (eval_chunked_te _ (bs "transfer-encoding", bs "chunked")); [|reflexivity].
      unfold te_fields_st. rewrite IH. left. reflexivity.
  - rewrite filter_app. cbn [filter]. rewrite app_nil_r. exact IH.
Qed.

Theorem te_by_set_only_printable ops : te_by_set_only ops = true -> printable_st (spec_stored ops) = true.
Proof.
  intros H. unfold printable_st. destruct (te_by_set_only_fields ops H) as [E|E]; rewrite E; reflexivity.
Qed.

(* ================================================================== the theorems, for any coherent collection *)
Theorem empty_roundtrip_gen : forall code reason h dv,
  status_ok code reason -> coherent h -> wf_date_value dv = true -> printable h = true ->
  exists framing,
    decode_msg (out_of (write_response_empty code reason h (date_line dv))) =
      Some {| m_start := response_start code reason; m_fields := shown_fields_of h dv ++ framing; m_body := []; m_rest := [] |}
    /\ framing_for_gen h 0 framing
    /\ exactly_one_framing (shown_fields_of h dv ++ framing) 0.
Proof.
  intros code reason h dv (Hc & Hr) Hco Hdv Hp.
  unfold write_response_empty. cbn [out_of]. rewrite (status_line_start code reason Hc), <- !app_assoc.
  destruct (empty_output_gen (response_start code reason) h dv (response_start_nolf code reason Hc Hr) Hco Hdv Hp)
    as (framing & D & Fr).
  exists framing. split; [exact D|]. split; [exact Fr|]. exact (decode_msg_one_framing _ _ D).
Qed.

Theorem empty_unprintable : forall code reason h dv,
  status_ok code reason -> coherent h -> wf_date_value dv = true -> printable h = false ->
  decode_msg (out_of (write_response_empty code reason h (date_line dv))) = None.
Proof.
  intros code reason h dv (Hc & Hr) Hco Hdv Hp.
  unfold write_response_empty. cbn [out_of]. rewrite (status_line_start code reason Hc), <- !app_assoc.
  apply (empty_output_none (response_start code reason) h dv (response_start_nolf code reason Hc Hr) Hco Hdv Hp).
Qed.

Lemma write_response_bytes_shape code reason h dv body accepted : (100 <= code <= 999)%N ->
  write_response_bytes code reason h (date_line dv) body accepted =
  bytes_output (response_start code reason) h dv body accepted.
Proof.
  intros Hc. unfold write_response_bytes, bytes_output. rewrite (status_line_start code reason Hc).
  rewrite <- (app_assoc (response_start code reason) PCRLF). reflexivity.
Qed.

Theorem bytes_roundtrip_gen : forall code reason h dv body accepted,
  status_ok code reason -> coherent h -> wf_date_value dv = true -> printable h = true ->
  (N.of_nat (length body) < 2 ^ 64)%N ->
  exists framing,
    decode_msg (out_of (write_response_bytes code reason h (date_line dv) body accepted)) =
      Some {| m_start := response_start code reason; m_fields := shown_fields_of h dv ++ framing; m_body := body; m_rest := [] |}
    /\ framing_for_gen h (length body) framing
    /\ exactly_one_framing (shown_fields_of h dv ++ framing) (length body)
    /\ framing = (if user_chunked h then [] else [(bs "content-length", dec_of (N.of_nat (length body)))]).
Proof.
  intros code reason h dv body accepted (Hc & Hr) Hco Hdv Hp Hlt.
  rewrite (write_response_bytes_shape code reason h dv body accepted Hc).
  destruct (bytes_output_gen (response_start code reason) h dv (response_start_nolf code reason Hc Hr) Hco Hdv
              body accepted Hp Hlt) as (framing & D & Fr & Fx).
  exists framing. split; [exact D|]. split; [exact Fr|]. split; [exact (decode_msg_one_framing _ _ D) | exact Fx].
Qed.

(* the side condition is needed: without it NO body is framed correctly *)
Theorem bytes_unprintable : forall code reason h dv body accepted,
  status_ok code reason -> coherent h -> wf_date_value dv = true -> printable h = false ->
  (N.of_nat (length body) < 2 ^ 64)%N ->
  decode_msg (out_of (write_response_bytes code reason h (date_line dv) body accepted)) = None.
Proof.
  intros code reason h dv body accepted (Hc & Hr) Hco Hdv Hp Hlt.
  rewrite (write_response_bytes_shape code reason h dv body accepted Hc).
  apply (bytes_output_none (response_start code reason) h dv (response_start_nolf code reason Hc Hr) Hco Hdv
           body accepted Hp Hlt).
Qed.

Theorem bytes_printable_iff : forall code reason h dv body accepted,
  status_ok code reason -> coherent h -> wf_date_value dv = true -> (N.of_nat (length body) < 2 ^ 64)%N ->
  ((exists m, decode_msg (out_of (write_response_bytes code reason h (date_line dv) body accepted)) = Some m)
   <-> printable h = true).
Proof.
  intros code reason h dv body accepted Hst Hco Hdv Hlt. split.
  - intros (m & D). destruct (printable h) eqn:Hp; [reflexivity|].
    rewrite (bytes_unprintable code reason h dv body accepted Hst Hco Hdv Hp Hlt) in D. discriminate D.
  - intros Hp. destruct (bytes_roundtrip_gen code reason h dv body accepted Hst Hco Hdv Hp Hlt) as (framing & D & _).
    eexists. exact D.
Qed.

(* what is on the wire in every case: the stored fields (values as a peer reads them), the date, then - decided by the
   cached flag alone - either nothing more and a chunked body, or a Content-Length line and the body *)
Theorem bytes_anatomy : forall code reason h dv body accepted,
  status_ok code reason -> coherent h -> wf_date_value dv = true -> (N.of_nat (length body) < 2 ^ 64)%N ->
  parsed_fields (out_of (write_response_bytes code reason h (date_line dv) body accepted)) =
    Some (shown_fields_of h dv ++
          (if Headers.chunked h then [] else [(bs "content-length", dec_of (N.of_nat (length body)))])) /\
  parsed_payload (out_of (write_response_bytes code reason h (date_line dv) body accepted)) =
    Some (if Headers.chunked h then (match body with [] => [] | _ => Printer.chunk body end) ++ LAST_CHUNK else body).
Proof.
  intros code reason h dv body accepted (Hc & Hr) Hco Hdv Hlt.
  rewrite (write_response_bytes_shape code reason h dv body accepted Hc).
  apply (bytes_output_anatomy (response_start code reason) h dv (response_start_nolf code reason Hc Hr) Hco Hdv
           body accepted Hlt).
Qed.

(* ---- a reader delivering the body in arbitrary pieces ---- *)
Theorem reader_roundtrip_gen : forall code reason h dv pieces accepted,
  status_ok code reason -> coherent h -> wf_date_value dv = true -> printable h = true ->
  (N.of_nat (length (concat pieces)) < 2 ^ 64)%N ->
  (user_chunked h = true \/ content_length h = None \/ content_length h = Some (N.of_nat (length (concat pieces)))) ->
  exists framing,
    decode_msg (out_of (write_response code reason h (date_line dv) pieces accepted)) =
      Some {| m_start := response_start code reason; m_fields := shown_fields_of h dv ++ framing;
              m_body := concat pieces; m_rest := [] |}
    /\ framing_for_gen h (length (concat pieces)) framing
    /\ exactly_one_framing (shown_fields_of h dv ++ framing) (length (concat pieces))
    /\ is_ok (write_response code reason h (date_line dv) pieces accepted) = true.
Proof.
  intros code reason h dv pieces accepted (Hc & Hr) Hco Hdv Hp Hlt Hdecl.
  unfold write_response. rewrite (status_line_start code reason Hc).
  destruct (with_body_roundtrip_gen (response_start code reason) h dv (response_start_nolf code reason Hc Hr) Hco Hdv
              pieces accepted Hp Hlt Hdecl) as (framing & D & Fr & Ok).
  exists framing. split; [exact D|]. split; [exact Fr|]. split; [exact (decode_msg_one_framing _ _ D) | exact Ok].
Qed.

Theorem reader_unprintable : forall code reason h dv pieces accepted,
  status_ok code reason -> coherent h -> wf_date_value dv = true -> printable h = false ->
  (N.of_nat (length (concat pieces)) < 2 ^ 64)%N ->
  decode_msg (out_of (write_response code reason h (date_line dv) pieces accepted)) = None.
Proof.
  intros code reason h dv pieces accepted (Hc & Hr) Hco Hdv Hp Hlt.
  unfold write_response. rewrite (status_line_start code reason Hc).
  apply (with_body_none (response_start code reason) h dv (response_start_nolf code reason Hc Hr) Hco Hdv
           pieces accepted Hp Hlt).
Qed.

(* a declared Content-Length (the LAST declaration of the history) is never exceeded on the wire ... *)
Theorem declared_not_exceeded_gen : forall code reason h dv pieces accepted d,
  status_ok code reason -> coherent h -> wf_date_value dv = true -> printable h = true ->
  user_chunked h = false -> content_length h = Some d -> (d <= N.of_nat (length (concat pieces)))%N ->
  decode_msg (out_of (write_response code reason h (date_line dv) pieces accepted)) =
    Some {| m_start := response_start code reason;
            m_fields := shown_fields_of h dv ++ [(bs "content-length", dec_of d)];
            m_body := firstn (N.to_nat d) (concat pieces); m_rest := [] |}.
Proof.
  intros code reason h dv pieces accepted d (Hc & Hr) Hco Hdv Hp Hu Hdl Hle.
  unfold write_response. rewrite (status_line_start code reason Hc).
  apply (with_body_declared_gen (response_start code reason) h dv (response_start_nolf code reason Hc Hr) Hco Hdv
           pieces accepted d Hp Hu Hdl Hle).
Qed.

(* ... and a reader that is too short for the declared length is an error; for a small declared length (the body is
   collected before the head is written) nothing at all is written *)
Theorem declared_short_error_gen : forall code reason h date pieces accepted d,
  Headers.chunked h = false -> content_length h = Some d ->
  (N.of_nat (length (concat pieces)) < d)%N ->
  is_ok (write_response code reason h date pieces accepted) = false /\
  ((d <= N.of_nat PROBE_MAX)%N -> out_of (write_response code reason h date pieces accepted) = []).
Proof.
  intros code reason h date pieces accepted d Hc Hdl Hshort. unfold write_response.
  apply (with_body_short_gen _ h date pieces accepted d Hc Hdl Hshort).
Qed.

(* ---- requests ---- *)
Theorem request_roundtrip_gen : forall method uri h dv pieces accepted,
  no_crlf method = true -> no_crlf uri = true -> coherent h -> wf_date_value dv = true -> printable h = true ->
  (N.of_nat (length (concat pieces)) < 2 ^ 64)%N ->
  (user_chunked h = true \/ content_length h = None \/ content_length h = Some (N.of_nat (length (concat pieces)))) ->
  exists framing,
    decode_msg (out_of (write_request method uri h (date_line dv) pieces accepted)) =
      Some {| m_start := request_start method uri; m_fields := shown_fields_of h dv ++ framing;
              m_body := concat pieces; m_rest := [] |}
    /\ framing_for_gen h (length (concat pieces)) framing
    /\ exactly_one_framing (shown_fields_of h dv ++ framing) (length (concat pieces)).
Proof.
  intros method uri h dv pieces accepted Hm Hu Hco Hdv Hp Hlt Hdecl.
  unfold write_request. rewrite request_line_start.
  destruct (with_body_roundtrip_gen (request_start method uri) h dv (request_start_nolf method uri Hm Hu) Hco Hdv
              pieces accepted Hp Hlt Hdecl) as (framing & D & Fr & _).
  exists framing. split; [exact D|]. split; [exact Fr | exact (decode_msg_one_framing _ _ D)].
Qed.

Theorem request_unprintable : forall method uri h dv pieces accepted,
  no_crlf method = true -> no_crlf uri = true -> coherent h -> wf_date_value dv = true -> printable h = false ->
  (N.of_nat (length (concat pieces)) < 2 ^ 64)%N ->
  decode_msg (out_of (write_request method uri h (date_line dv) pieces accepted)) = None.
Proof.
  intros method uri h dv pieces accepted Hm Hu Hco Hdv Hp Hlt.
  unfold write_request. rewrite request_line_start.
  apply (with_body_none (request_start method uri) h dv (request_start_nolf method uri Hm Hu) Hco Hdv
           pieces accepted Hp Hlt).
Qed.

(* ================================================================== the same for operation histories, in the terms of
   the independent list semantics of Spec/HeaderStore.v: [spec_stored ops] are the stored fields, [spec_cl ops] the
   declared length (the most recent length-affecting operation) *)
Lemma ops_view dated ops : ops_ok ops = true ->
  coherent (hrun_from dated ops) /\
  stored (hrun_from dated ops) = spec_stored ops /\
  content_length (hrun_from dated ops) = spec_cl ops /\
  print_date (hrun_from dated ops) = dated /\
  printable (hrun_from dated ops) = printable_st (spec_stored ops) /\
  user_chunked (hrun_from dated ops) = user_chunked_st (spec_stored ops).
Proof.
  intros Hok. destruct (hrun_from_facts dated ops) as (F1 & _ & F3 & F4).
  split; [apply hrun_coherent; exact Hok|]. unfold printable, user_chunked. rewrite F1. repeat split; assumption.
Qed.

Lemma hrun_is_hrun_from ops : hrun ops = hrun_from true ops.
Proof. reflexivity. Qed.

Theorem empty_roundtrip_ops : forall code reason dated ops dv,
  status_ok code reason -> ops_ok ops = true -> wf_date_value dv = true -> printable_st (spec_stored ops) = true ->
  exists framing,
    decode_msg (out_of (write_response_empty code reason (hrun_from dated ops) (date_line dv))) =
      Some {| m_start := response_start code reason; m_fields := shown_fields_gen (spec_stored ops) dated dv ++ framing;
              m_body := []; m_rest := [] |}
    /\ framing_for_st (spec_stored ops) (spec_cl ops) 0 framing
    /\ exactly_one_framing (shown_fields_gen (spec_stored ops) dated dv ++ framing) 0.
Proof.
  intros code reason dated ops dv Hst Hok Hdv Hp.
  destruct (ops_view dated ops Hok) as (Hco & F1 & F3 & F4 & FP & _). rewrite <- FP in Hp.
  destruct (empty_roundtrip_gen code reason _ dv Hst Hco Hdv Hp) as (framing & D & Fr & Ex).
  unfold shown_fields_of in D, Ex. unfold framing_for_gen in Fr. rewrite F1, F4 in D, Ex. rewrite F1, F3 in Fr.
  exists framing. split; [exact D|]. split; [exact Fr | exact Ex].
Qed.

Theorem bytes_roundtrip_ops : forall code reason dated ops dv body accepted,
  status_ok code reason -> ops_ok ops = true -> wf_date_value dv = true -> printable_st (spec_stored ops) = true ->
  (N.of_nat (length body) < 2 ^ 64)%N ->
  exists framing,
    decode_msg (out_of (write_response_bytes code reason (hrun_from dated ops) (date_line dv) body accepted)) =
      Some {| m_start := response_start code reason; m_fields := shown_fields_gen (spec_stored ops) dated dv ++ framing;
              m_body := body; m_rest := [] |}
    /\ framing_for_st (spec_stored ops) (spec_cl ops) (length body) framing
    /\ exactly_one_framing (shown_fields_gen (spec_stored ops) dated dv ++ framing) (length body)
    /\ framing = (if user_chunked_st (spec_stored ops) then []
                  else [(bs "content-length", dec_of (N.of_nat (length body)))]).
Proof.
  intros code reason dated ops dv body accepted Hst Hok Hdv Hp Hlt.
  destruct (ops_view dated ops Hok) as (Hco & F1 & F3 & F4 & FP & FU). rewrite <- FP in Hp.
  destruct (bytes_roundtrip_gen code reason _ dv body accepted Hst Hco Hdv Hp Hlt) as (framing & D & Fr & Ex & Fx).
  unfold shown_fields_of in D, Ex. unfold framing_for_gen in Fr. rewrite F1, F4 in D, Ex. rewrite F1, F3 in Fr.
  rewrite FU in Fx.
  exists framing. split; [exact D|]. split; [exact Fr|]. split; [exact Ex | exact Fx].
Qed.

(* the side condition is the weakest possible: a history that violates it is never framed correctly, whatever the body *)
Theorem bytes_unprintable_ops : forall code reason dated ops dv body accepted,
  status_ok code reason -> ops_ok ops = true -> wf_date_value dv = true -> printable_st (spec_stored ops) = false ->
  (N.of_nat (length body) < 2 ^ 64)%N ->
  decode_msg (out_of (write_response_bytes code reason (hrun_from dated ops) (date_line dv) body accepted)) = None.
Proof.
  intros code reason dated ops dv body accepted Hst Hok Hdv Hp Hlt.
  destruct (ops_view dated ops Hok) as (Hco & _ & _ & _ & FP & _). rewrite <- FP in Hp.
  apply (bytes_unprintable code reason _ dv body accepted Hst Hco Hdv Hp Hlt).
Qed.

Theorem bytes_printable_iff_ops : forall code reason dated ops dv body accepted,
  status_ok code reason -> ops_ok ops = true -> wf_date_value dv = true -> (N.of_nat (length body) < 2 ^ 64)%N ->
  ((exists m, decode_msg (out_of (write_response_bytes code reason (hrun_from dated ops) (date_line dv) body accepted)) = Some m)
   <-> printable_st (spec_stored ops) = true).
Proof.
  intros code reason dated ops dv body accepted Hst Hok Hdv Hlt.
  destruct (ops_view dated ops Hok) as (Hco & _ & _ & _ & FP & _). rewrite <- FP.
  apply (bytes_printable_iff code reason _ dv body accepted Hst Hco Hdv Hlt).
Qed.

Theorem reader_roundtrip_ops : forall code reason dated ops dv pieces accepted,
  status_ok code reason -> ops_ok ops = true -> wf_date_value dv = true -> printable_st (spec_stored ops) = true ->
  (N.of_nat (length (concat pieces)) < 2 ^ 64)%N ->
  (user_chunked_st (spec_stored ops) = true \/ spec_cl ops = None \/
   spec_cl ops = Some (N.of_nat (length (concat pieces)))) ->
  exists framing,
    decode_msg (out_of (write_response code reason (hrun_from dated ops) (date_line dv) pieces accepted)) =
      Some {| m_start := response_start code reason; m_fields := shown_fields_gen (spec_stored ops) dated dv ++ framing;
              m_body := concat pieces; m_rest := [] |}
    /\ framing_for_st (spec_stored ops) (spec_cl ops) (length (concat pieces)) framing
    /\ exactly_one_framing (shown_fields_gen (spec_stored ops) dated dv ++ framing) (length (concat pieces))
    /\ is_ok (write_response code reason (hrun_from dated ops) (date_line dv) pieces accepted) = true.
Proof.
  intros code reason dated ops dv pieces accepted Hst Hok Hdv Hp Hlt Hdecl.
  destruct (ops_view dated ops Hok) as (Hco & F1 & F3 & F4 & FP & FU). rewrite <- FP in Hp. rewrite <- FU, <- F3 in Hdecl.
  destruct (reader_roundtrip_gen code reason _ dv pieces accepted Hst Hco Hdv Hp Hlt Hdecl) as (framing & D & Fr & Ex & Ok).
  unfold shown_fields_of in D, Ex. unfold framing_for_gen in Fr. rewrite F1, F4 in D, Ex. rewrite F1, F3 in Fr.
  exists framing. split; [exact D|]. split; [exact Fr|]. split; [exact Ex | exact Ok].
Qed.

Theorem reader_unprintable_ops : forall code reason dated ops dv pieces accepted,
  status_ok code reason -> ops_ok ops = true -> wf_date_value dv = true -> printable_st (spec_stored ops) = false ->
  (N.of_nat (length (concat pieces)) < 2 ^ 64)%N ->
  decode_msg (out_of (write_response code reason (hrun_from dated ops) (date_line dv) pieces accepted)) = None.
Proof.
  intros code reason dated ops dv pieces accepted Hst Hok Hdv Hp Hlt.
  destruct (ops_view dated ops Hok) as (Hco & _ & _ & _ & FP & _). rewrite <- FP in Hp.
  apply (reader_unprintable code reason _ dv pieces accepted Hst Hco Hdv Hp Hlt).
Qed.

Theorem declared_not_exceeded_ops : forall code reason dated ops dv pieces accepted d,
  status_ok code reason -> ops_ok ops = true -> wf_date_value dv = true -> printable_st (spec_stored ops) = true ->
  user_chunked_st (spec_stored ops) = false -> spec_cl ops = Some d -> (d <= N.of_nat (length (concat pieces)))%N ->
  decode_msg (out_of (write_response code reason (hrun_from dated ops) (date_line dv) pieces accepted)) =
    Some {| m_start := response_start code reason;
            m_fields := shown_fields_gen (spec_stored ops) dated dv ++ [(bs "content-length", dec_of d)];
            m_body := firstn (N.to_nat d) (concat pieces); m_rest := [] |}.
Proof.
  intros code reason dated ops dv pieces accepted d Hst Hok Hdv Hp Hu Hdl Hle.
  destruct (ops_view dated ops Hok) as (Hco & F1 & F3 & F4 & FP & FU). rewrite <- FP in Hp. rewrite <- FU in Hu.
  rewrite <- F3 in Hdl.
  pose proof (declared_not_exceeded_gen code reason _ dv pieces accepted d Hst Hco Hdv Hp Hu Hdl Hle) as D.
  unfold shown_fields_of in D. rewrite F1, F4 in D. exact D.
Qed.

Theorem declared_short_error_ops : forall code reason dated ops date pieces accepted d,
  eval_chunked (spec_stored ops) = false -> spec_cl ops = Some d ->
  (N.of_nat (length (concat pieces)) < d)%N ->
  is_ok (write_response code reason (hrun_from dated ops) date pieces accepted) = false /\
  ((d <= N.of_nat PROBE_MAX)%N -> out_of (write_response code reason (hrun_from dated ops) date pieces accepted) = []).
Proof.
  intros code reason dated ops date pieces accepted d Hc Hdl Hshort.
  destruct (hrun_from_facts dated ops) as (_ & F2 & F3 & _). rewrite <- F2 in Hc. rewrite <- F3 in Hdl.
  apply (declared_short_error_gen code reason _ date pieces accepted d Hc Hdl Hshort).
Qed.

Theorem request_roundtrip_ops : forall method uri dated ops dv pieces accepted,
  no_crlf method = true -> no_crlf uri = true -> ops_ok ops = true -> wf_date_value dv = true ->
  printable_st (spec_stored ops) = true -> (N.of_nat (length (concat pieces)) < 2 ^ 64)%N ->
  (user_chunked_st (spec_stored ops) = true \/ spec_cl ops = None \/
   spec_cl ops = Some (N.of_nat (length (concat pieces)))) ->
  exists framing,
    decode_msg (out_of (write_request method uri (hrun_from dated ops) (date_line dv) pieces accepted)) =
      Some {| m_start := request_start method uri; m_fields := shown_fields_gen (spec_stored ops) dated dv ++ framing;
              m_body := concat pieces; m_rest := [] |}
    /\ framing_for_st (spec_stored ops) (spec_cl ops) (length (concat pieces)) framing
    /\ exactly_one_framing (shown_fields_gen (spec_stored ops) dated dv ++ framing) (length (concat pieces)).
Proof.
  intros method uri dated ops dv pieces accepted Hm Hu Hok Hdv Hp Hlt Hdecl.
  destruct (ops_view dated ops Hok) as (Hco & F1 & F3 & F4 & FP & FU). rewrite <- FP in Hp. rewrite <- FU, <- F3 in Hdecl.
  destruct (request_roundtrip_gen method uri _ dv pieces accepted Hm Hu Hco Hdv Hp Hlt Hdecl) as (framing & D & Fr & Ex).
  unfold shown_fields_of in D, Ex. unfold framing_for_gen in Fr. rewrite F1, F4 in D, Ex. rewrite F1, F3 in Fr.
  exists framing. split; [exact D|]. split; [exact Fr | exact Ex].
Qed.

Theorem request_unprintable_ops : forall method uri dated ops dv pieces accepted,
  no_crlf method = true -> no_crlf uri = true -> ops_ok ops = true -> wf_date_value dv = true ->
  printable_st (spec_stored ops) = false -> (N.of_nat (length (concat pieces)) < 2 ^ 64)%N ->
  decode_msg (out_of (write_request method uri (hrun_from dated ops) (date_line dv) pieces accepted)) = None.
Proof.
  intros method uri dated ops dv pieces accepted Hm Hu Hok Hdv Hp Hlt.
  destruct (ops_view dated ops Hok) as (Hco & _ & _ & _ & FP & _). rewrite <- FP in Hp.
  apply (request_unprintable method uri _ dv pieces accepted Hm Hu Hco Hdv Hp Hlt).
Qed.

(* Case 1 in general: whatever a history does with Content-Length - several declarations, conflicting or invalid values,
   set / remove in any order - as long as it introduces no Transfer-Encoding field the message is framed correctly *)
Corollary cl_histories_roundtrip : forall code reason dated ops dv body accepted,
  status_ok code reason -> ops_ok ops = true -> wf_date_value dv = true -> te_free ops = true ->
  (N.of_nat (length body) < 2 ^ 64)%N ->
  decode_msg (out_of (write_response_bytes code reason (hrun_from dated ops) (date_line dv) body accepted)) =
    Some {| m_start := response_start code reason;
            m_fields := shown_fields_gen (spec_stored ops) dated dv ++ [(bs "content-length", dec_of (N.of_nat (length body)))];
            m_body := body; m_rest := [] |}.
Proof.
  intros code reason dated ops dv body accepted Hst Hok Hdv Hte Hlt.
  destruct (bytes_roundtrip_ops code reason dated ops dv body accepted Hst Hok Hdv (te_free_printable ops Hte) Hlt)
    as (framing & D & _ & _ & Fx).
  unfold user_chunked_st in Fx. rewrite (te_free_no_te ops Hte) in Fx. subst framing. exact D.
Qed.

(* ================================================================== the cases, settled on concrete histories
   All with Headers::new_nodate() (no Date line), status 200 OK.  [resp ops body] are the bytes of write_response_bytes,
   [resp_rd ops pieces] those of write_response with a reader, [req_rd ops pieces] those of write_request. *)
Module Witness.
Definition crlf : bytes := [x0d; x0a].
Definition TE := bs "Transfer-Encoding".
Definition CL := bs "Content-Length".
Definition resp (ops : list hop) (body : bytes) : bytes :=
  out_of (write_response_bytes 200 (bs "OK") (hrun_from false ops) (date_line []) body 0).
Definition resp_rd (ops : list hop) (pieces : list bytes) : wres :=
  write_response 200 (bs "OK") (hrun_from false ops) (date_line []) pieces 0.
Definition req_rd (ops : list hop) (pieces : list bytes) : wres :=
  write_request (bs "POST") (bs "/u") (hrun_from false ops) (date_line []) pieces 0.
Definition msg (fields : list field) (body : bytes) : option message :=
  Some {| m_start := bs "HTTP/1.1 200 OK"; m_fields := fields; m_body := body; m_rest := [] |}.

Ltac vm_conj := repeat match goal with |- _ /\ _ => split end; vm_compute; reflexivity.

(* ---------------- 1. Content-Length: several fields, invalid values.  Never stored, the last declaration counts,
   an invalid value is "nothing declared"; the framing is always correct ([cl_histories_roundtrip]). *)
Example cl_values :
  map (fun v => content_length (hrun [OAdd CL v]))
      [bs "abc"; bs "+5"; bs " 5 "; bs "05"; bs "5"; bs ""; bs "18446744073709551616"]
  = [None; None; Some 5%N; Some 5%N; Some 5%N; None; None].
Proof. vm_compute. reflexivity. Qed.

Example cl_twice_equal :
  ops_ok [OAdd CL (bs "5"); OAdd CL (bs "5")] = true /\
  spec_cl [OAdd CL (bs "5"); OAdd CL (bs "5")] = Some 5%N /\
  resp [OAdd CL (bs "5"); OAdd CL (bs "5")] (bs "hello") =
    bs "HTTP/1.1 200 OK" ++ crlf ++ bs "content-length: 5" ++ crlf ++ crlf ++ bs "hello" /\
  decode_msg (resp [OAdd CL (bs "5"); OAdd CL (bs "5")] (bs "hello")) = msg [(bs "content-length", bs "5")] (bs "hello").
Proof. vm_conj. Qed.

(* different values: the last one is the declaration; the bytes entry point ignores it and writes the true length, the
   reader entry point sends exactly the declared prefix *)
Example cl_twice_different :
  spec_cl [OAdd CL (bs "9"); OAdd CL (bs "3")] = Some 3%N /\
  decode_msg (resp [OAdd CL (bs "9"); OAdd CL (bs "3")] (bs "hello")) = msg [(bs "content-length", bs "5")] (bs "hello") /\
  resp_rd [OAdd CL (bs "9"); OAdd CL (bs "3")] [bs "he"; bs "llo"] =
    WOk (bs "HTTP/1.1 200 OK" ++ crlf ++ bs "content-length: 3" ++ crlf ++ crlf ++ bs "hel") /\
  decode_msg (out_of (resp_rd [OAdd CL (bs "9"); OAdd CL (bs "3")] [bs "he"; bs "llo"])) =
    msg [(bs "content-length", bs "3")] (bs "hel").
Proof. vm_conj. Qed.

Example cl_invalid_is_undeclared :
  spec_cl [OAdd CL (bs "5"); OAdd CL (bs "abc")] = None /\
  decode_msg (out_of (resp_rd [OAdd CL (bs "5"); OAdd CL (bs "abc")] [bs "he"; bs "llo"])) =
    msg [(bs "content-length", bs "5")] (bs "hello").
Proof. vm_conj. Qed.

(* ---------------- 2. Transfer-Encoding values *)
(* "Chunked" and " chunked ": printable; the peer reads the value without the whitespace *)
Example te_Chunked :
  printable_st (spec_stored [OAdd TE (bs "Chunked")]) = true /\
  decode_msg (resp [OAdd TE (bs "Chunked")] (bs "hi")) = msg [(TE, bs "Chunked")] (bs "hi").
Proof. vm_conj. Qed.

Example te_ows_chunked :
  printable_st (spec_stored [OAdd TE (bs " chunked ")]) = true /\
  resp [OAdd TE (bs " chunked ")] (bs "hi") =
    bs "HTTP/1.1 200 OK" ++ crlf ++ bs "Transfer-Encoding:  chunked " ++ crlf ++ crlf ++
    bs "2" ++ crlf ++ bs "hi" ++ crlf ++ bs "0" ++ crlf ++ crlf /\
  decode_msg (resp [OAdd TE (bs " chunked ")] (bs "hi")) = msg [(TE, bs "chunked")] (bs "hi").
Proof. vm_conj. Qed.

(* "gzip" alone: the cached flag is false, so a Content-Length line is added NEXT TO the Transfer-Encoding field *)
Theorem te_gzip_refuted : exists ops body,
  ops_ok ops = true /\ printable_st (spec_stored ops) = false /\
  resp ops body = bs "HTTP/1.1 200 OK" ++ crlf ++ bs "Transfer-Encoding: gzip" ++ crlf ++
                  bs "content-length: 2" ++ crlf ++ crlf ++ bs "hi" /\
  parsed_fields (resp ops body) = Some [(TE, bs "gzip"); (bs "content-length", bs "2")] /\
  decode_msg (resp ops body) = None.
Proof. exists [OAdd TE (bs "gzip")], (bs "hi"). vm_conj. Qed.

(* the same through the reader entry points, responses and requests *)
Theorem te_gzip_reader_refuted : exists ops pieces,
  ops_ok ops = true /\
  resp_rd ops pieces = WOk (bs "HTTP/1.1 200 OK" ++ crlf ++ bs "Transfer-Encoding: gzip" ++ crlf ++
                            bs "content-length: 2" ++ crlf ++ crlf ++ bs "hi") /\
  decode_msg (out_of (resp_rd ops pieces)) = None /\
  req_rd ops pieces = WOk (bs "POST /u HTTP/1.1" ++ crlf ++ bs "Transfer-Encoding: gzip" ++ crlf ++
                           bs "content-length: 2" ++ crlf ++ crlf ++ bs "hi") /\
  decode_msg (out_of (req_rd ops pieces)) = None.
Proof. exists [OAdd TE (bs "gzip")], [bs "h"; bs "i"]. vm_conj. Qed.

(* ... and with a body beyond the probe limit the printer appends its own "transfer-encoding: chunked": two fields *)
Theorem te_gzip_autochunked_refuted : exists ops pieces,
  ops_ok ops = true /\ length (concat pieces) = PROBE_MAX /\
  parsed_fields (out_of (resp_rd ops pieces)) = Some [(TE, bs "gzip"); (bs "transfer-encoding", bs "chunked")] /\
  decode_msg (out_of (resp_rd ops pieces)) = None.
Proof. exists [OAdd TE (bs "gzip")], [repeat x61 PROBE_MAX]. vm_conj. Qed.

(* "gzip, chunked": the flag is true, the body is chunked and there is ONE Transfer-Encoding field - whose value is not
   "chunked", so the strict decoder of the specification does not accept it as the framing field *)
Theorem te_gzip_chunked_refuted : exists ops body,
  ops_ok ops = true /\ printable_st (spec_stored ops) = false /\
  resp ops body = bs "HTTP/1.1 200 OK" ++ crlf ++ bs "Transfer-Encoding: gzip, chunked" ++ crlf ++ crlf ++
                  bs "2" ++ crlf ++ bs "hi" ++ crlf ++ bs "0" ++ crlf ++ crlf /\
  parsed_fields (resp ops body) = Some [(TE, bs "gzip, chunked")] /\
  decode_msg (resp ops body) = None.
Proof. exists [OAdd TE (bs "gzip, chunked")], (bs "hi"). vm_conj. Qed.

(* "chunked, gzip": the flag is true (a "chunked" token somewhere), the body is chunked, but chunked is not the final coding *)
Theorem te_chunked_gzip_refuted : exists ops body,
  ops_ok ops = true /\ printable_st (spec_stored ops) = false /\
  resp ops body = bs "HTTP/1.1 200 OK" ++ crlf ++ bs "Transfer-Encoding: chunked, gzip" ++ crlf ++ crlf ++
                  bs "2" ++ crlf ++ bs "hi" ++ crlf ++ bs "0" ++ crlf ++ crlf /\
  decode_msg (resp ops body) = None.
Proof. exists [OAdd TE (bs "chunked, gzip")], (bs "hi"). vm_conj. Qed.

(* two Transfer-Encoding fields: both are printed *)
Theorem te_two_fields_refuted : exists ops body,
  ops_ok ops = true /\ printable_st (spec_stored ops) = false /\
  resp ops body = bs "HTTP/1.1 200 OK" ++ crlf ++ bs "Transfer-Encoding: gzip" ++ crlf ++
                  bs "Transfer-Encoding: chunked" ++ crlf ++ crlf ++
                  bs "2" ++ crlf ++ bs "hi" ++ crlf ++ bs "0" ++ crlf ++ crlf /\
  parsed_fields (resp ops body) = Some [(TE, bs "gzip"); (TE, bs "chunked")] /\
  decode_msg (resp ops body) = None.
Proof. exists [OAdd TE (bs "gzip"); OAdd TE (bs "chunked")], (bs "hi"). vm_conj. Qed.

(* ---------------- 3. Content-Length and Transfer-Encoding: chunked together, either order: printable; chunked wins,
   the declared length is neither printed nor enforced *)
Example cl_then_te :
  printable_st (spec_stored [OAdd CL (bs "3"); OAdd TE (bs "chunked")]) = true /\
  spec_cl [OAdd CL (bs "3"); OAdd TE (bs "chunked")] = Some 3%N /\
  resp [OAdd CL (bs "3"); OAdd TE (bs "chunked")] (bs "hello") =
    bs "HTTP/1.1 200 OK" ++ crlf ++ bs "Transfer-Encoding: chunked" ++ crlf ++ crlf ++
    bs "5" ++ crlf ++ bs "hello" ++ crlf ++ bs "0" ++ crlf ++ crlf /\
  decode_msg (resp [OAdd CL (bs "3"); OAdd TE (bs "chunked")] (bs "hello")) = msg [(TE, bs "chunked")] (bs "hello") /\
  decode_msg (out_of (resp_rd [OAdd CL (bs "3"); OAdd TE (bs "chunked")] [bs "he"; bs "llo"])) =
    msg [(TE, bs "chunked")] (bs "hello").
Proof. vm_conj. Qed.

Example te_then_cl :
  printable_st (spec_stored [OAdd TE (bs "chunked"); OAdd CL (bs "3")]) = true /\
  resp [OAdd TE (bs "chunked"); OAdd CL (bs "3")] (bs "hello") = resp [OAdd CL (bs "3"); OAdd TE (bs "chunked")] (bs "hello") /\
  resp_rd [OAdd TE (bs "chunked"); OAdd CL (bs "3")] [bs "he"; bs "llo"] =
    resp_rd [OAdd CL (bs "3"); OAdd TE (bs "chunked")] [bs "he"; bs "llo"].
Proof. vm_conj. Qed.

(* ---------------- 4. histories *)
Example hist_add_remove_cl :
  spec_cl [OAdd CL (bs "5"); ORemove (bs "content-length")] = None /\
  spec_cl [OSetCL (Some 5%N); OAdd CL (bs "7")] = Some 7%N /\
  spec_cl [OAdd CL (bs "7"); OSetCL None] = None /\
  spec_cl [OAdd CL (bs "7"); OSetCL (Some 3%N)] = Some 3%N /\
  spec_cl [OAdd CL (bs "7"); OReplace CL (bs "x")] = None /\
  decode_msg (out_of (resp_rd [OSetCL (Some 5%N); OAdd CL (bs "7"); OSetCL (Some 3%N)] [bs "hello"])) =
    msg [(bs "content-length", bs "3")] (bs "hel").
Proof. vm_conj. Qed.

Example hist_te_repaired :
  printable_st (spec_stored [OSetChunked; ORemove (bs "transfer-encoding")]) = true /\
  decode_msg (resp [OSetChunked; ORemove (bs "transfer-encoding")] (bs "hi")) = msg [(bs "content-length", bs "2")] (bs "hi") /\
  printable_st (spec_stored [OAdd TE (bs "gzip"); OReplace TE (bs "chunked")]) = true /\
  decode_msg (resp [OAdd TE (bs "gzip"); OReplace TE (bs "chunked")] (bs "hi")) = msg [(TE, bs "chunked")] (bs "hi") /\
  printable_st (spec_stored [OSetChunked; OAdd (bs "X-A") (bs "1"); OReplace TE (bs "chunked")]) = true /\
  decode_msg (resp [OSetChunked; OAdd (bs "X-A") (bs " 1"); OReplace TE (bs "chunked")] (bs "hi")) =
    msg [(bs "X-A", bs "1"); (TE, bs "chunked")] (bs "hi").
Proof. vm_conj. Qed.

(* set_transfer_encoding_chunked is idempotent (fix F34) and respects what add stored before; in general
   [te_by_set_only_printable] *)
Example set_chunked_twice_ok :
  ops_ok [OSetChunked; OSetChunked] = true /\ printable_st (spec_stored [OSetChunked; OSetChunked]) = true /\
  resp [OSetChunked; OSetChunked] (bs "hi") =
    bs "HTTP/1.1 200 OK" ++ crlf ++ bs "transfer-encoding: chunked" ++ crlf ++ crlf ++
    bs "2" ++ crlf ++ bs "hi" ++ crlf ++ bs "0" ++ crlf ++ crlf /\
  decode_msg (resp [OSetChunked; OSetChunked] (bs "hi")) = msg [(bs "transfer-encoding", bs "chunked")] (bs "hi").
Proof. vm_conj. Qed.

Example add_then_set_chunked_ok :
  ops_ok [OAdd TE (bs "chunked"); OSetChunked] = true /\
  printable_st (spec_stored [OAdd TE (bs "chunked"); OSetChunked]) = true /\
  resp [OAdd TE (bs "chunked"); OSetChunked] (bs "hi") =
    bs "HTTP/1.1 200 OK" ++ crlf ++ bs "Transfer-Encoding: chunked" ++ crlf ++ crlf ++
    bs "2" ++ crlf ++ bs "hi" ++ crlf ++ bs "0" ++ crlf ++ crlf /\
  decode_msg (resp [OAdd TE (bs "chunked"); OSetChunked] (bs "hi")) = msg [(TE, bs "chunked")] (bs "hi").
Proof. vm_conj. Qed.

(* the call does nothing once the flag is set - also when the flag was set by a value that is not exactly "chunked"
   (witness te_gzip_chunked_refuted stays as it is), and it appends next to a stored "gzip" (te_two_fields_refuted) *)
Example set_chunked_after_user_te :
  resp [OAdd TE (bs "gzip, chunked"); OSetChunked] (bs "hi") = resp [OAdd TE (bs "gzip, chunked")] (bs "hi") /\
  resp [OAdd TE (bs "gzip"); OSetChunked] (bs "hi") = resp [OAdd TE (bs "gzip"); OAdd (bs "transfer-encoding") (bs "chunked")] (bs "hi") /\
  decode_msg (resp [OAdd TE (bs "gzip"); OSetChunked] (bs "hi")) = None.
Proof. vm_conj. Qed.

(* removing the gzip field afterwards does not help if chunked was a SEPARATE field: remove drops both and clears the flag -
   printable again, but now length-delimited *)
Example hist_remove_clears_all :
  decode_msg (resp [OAdd TE (bs "gzip"); OSetChunked; ORemove TE] (bs "hi")) = msg [(bs "content-length", bs "2")] (bs "hi").
Proof. vm_conj. Qed.

(* ---------------- a declared length that the reader cannot fill is an error (fix F35 for declared lengths of at most
   PROBE_MAX: nothing is written; in general [declared_short_error_ops]) *)
Example small_declared_short_reader_is_error :
  ops_ok [OAdd CL (bs "7")] = true /\ printable_st (spec_stored [OAdd CL (bs "7")]) = true /\
  resp_rd [OAdd CL (bs "7")] [bs "hello"] = WErr [] /\
  req_rd [OAdd CL (bs "7")] [bs "hel"; bs "lo"] = WErr [].
Proof. vm_conj. Qed.

End Witness.
