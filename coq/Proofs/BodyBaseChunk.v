(* Shared material for C06, chunked reader: the recogniser unfolded one step, fuel independence,
   the size line, the trailer section, the abstract position [st_dec] of a reader state and the
   refinement of [advance] and of data delivery. *)
From KV Require Import Lib.Bytes Lib.Utf8 Model.Body Spec.ChunkedSpec Proofs.BodyBase.

Local Open Scope N_scope.

(* ------------------------------------------------------------------ byte classes *)
Lemma is_hexdigit_hexdig b : is_hexdigit b = hexdig b.
Proof. destruct b; vm_compute; reflexivity. Qed.

Lemma hexval_hexdig b : hexdig b = true -> hexval b = hexdig_val b.
Proof. destruct b; vm_compute; intros H; (reflexivity || discriminate). Qed.

Lemma hexdig_ascii b : hexdig b = true -> is_ascii b = true.
Proof. destruct b; vm_compute; intros H; (reflexivity || discriminate). Qed.

Lemma text_ascii b : text_byte b = true -> is_ascii b = true.
Proof. destruct b; vm_compute; intros H; (reflexivity || discriminate). Qed.

Lemma hexdig_not_semi b : hexdig b = true -> Byte.eqb b x3b = false.
Proof. destruct b; vm_compute; intros H; (reflexivity || discriminate). Qed.

Lemma text_not_lf b : text_byte b = true -> Byte.eqb b x0a = false.
Proof. destruct b; vm_compute; intros H; (reflexivity || discriminate). Qed.

Lemma utf8_ascii l : forallb is_ascii l = true -> utf8_valid l = true.
Proof.
  induction l as [|b r IH]; intros H; [reflexivity|].
  cbn [forallb] in H. apply andb_true_iff in H. destruct H as [H1 H2].
  cbn [utf8_valid]. unfold is_ascii in H1. rewrite H1. apply IH. exact H2.
Qed.

Lemma forallb_impl {A} (p q : A -> bool) l : (forall x, p x = true -> q x = true) ->
  forallb p l = true -> forallb q l = true.
Proof.
  intros Hpq. induction l as [|x r IH]; intros H; [reflexivity|].
  cbn [forallb] in *. apply andb_true_iff in H. destruct H as [H1 H2].
  rewrite (Hpq _ H1), (IH H2). reflexivity.
Qed.

Lemma bytes_eqb_eq a b : bytes_eqb a b = true <-> a = b.
Proof.
  revert b. induction a as [|x a IH]; intros b; destruct b as [|y b]; cbn [bytes_eqb];
    try (split; (discriminate || reflexivity)).
  rewrite andb_true_iff, byte_eqb_eq, IH. split.
  - intros [H1 H2]. subst. reflexivity.
  - intros H. inversion H. split; reflexivity.
Qed.

(* ------------------------------------------------------------------ take_while *)
Lemma take_while_spec p l sz ext : take_while p l = (sz, ext) ->
  l = sz ++ ext /\ forallb p sz = true /\ match ext with [] => True | b :: _ => p b = false end.
Proof.
  revert sz ext. induction l as [|b r IH]; intros sz ext H.
  - cbn [take_while] in H. inversion H. subst. repeat split.
  - cbn [take_while] in H. destruct (p b) eqn:Ep.
    + destruct (take_while p r) as [x y] eqn:E. inversion H. subst.
      destruct (IH _ _ eq_refl) as [H1 [H2 H3]]. subst r. split; [reflexivity|]. split; [|exact H3].
      cbn [forallb]. rewrite Ep, H2. reflexivity.
    + inversion H. subst. split; [reflexivity|]. split; [reflexivity|exact Ep].
Qed.

(* ------------------------------------------------------------------ line_crlf *)
Lemma line_crlf_none l : line_crlf l = None -> to_lf l = None.
Proof.
  rewrite line_crlf_unfold. destruct (to_lf l) as [[bf r]|]; [|reflexivity].
  intros H. exfalso. destruct (rev bf) as [|x rb]; [discriminate|]. destruct x; discriminate.
Qed.

Lemma line_crlf_some l line rest : line_crlf l = Some (Some line, rest) ->
  to_lf l = Some (line ++ [x0d], rest).
Proof.
  rewrite line_crlf_unfold. destruct (to_lf l) as [[bf r]|]; [|discriminate].
  destruct (rev bf) as [|x rb] eqn:Er; [discriminate|].
  intros H. assert (Hx : x = x0d /\ line = rev rb /\ rest = r).
  { destruct x; try discriminate. inversion H. repeat split. }
  destruct Hx as [Hx [Hl Hr]]. subst x line rest.
  assert (Hbf : bf = rev rb ++ [x0d]).
  { rewrite <- (rev_involutive bf), Er. reflexivity. }
  rewrite Hbf. reflexivity.
Qed.

Lemma line_crlf_shorter l o rest : line_crlf l = Some (o, rest) -> (length rest < length l)%nat.
Proof.
  rewrite line_crlf_unfold. destruct (to_lf l) as [[bf r]|] eqn:E; [|discriminate].
  apply to_lf_shorter in E. intros H.
  assert (rest = r).
  { destruct (rev bf) as [|x rb]; [inversion H; reflexivity|]. destruct x; inversion H; reflexivity. }
  subst. exact E.
Qed.

(* ------------------------------------------------------------------ the recogniser, one step *)
Definition after_data (rec : bytes -> bytes -> dres) (after acc' : bytes) : dres :=
  match after with
  | x0d :: x0a :: rest' => rec rest' acc'
  | [] | [x0d] => Invalid Truncated
  | _ => Invalid BadChunkEnd
  end.

Definition trailers_res (rest acc : bytes) (t : option (option bytes)) : dres :=
  match t with
  | None => Invalid Truncated
  | Some None => Unspecified
  | Some (Some rest') => Valid acc rest'
  end.

Definition data_res (rec : bytes -> bytes -> dres) (n : N) (rest acc : bytes) : dres :=
  match take_n n rest with
  | None => Invalid Truncated
  | Some (data, after) => after_data rec after (acc ++ data)
  end.

Definition dec_step (rec : bytes -> bytes -> dres) (l acc : bytes) : dres :=
  match line_crlf l with
  | None =>
      let '(sz, after) := take_while hexdig l in
      match after with
      | [] => Invalid Truncated
      | b :: _ => if Byte.eqb b x3b || Byte.eqb b x0d then Invalid Truncated else Invalid BadSize
      end
  | Some (None, _) => Unspecified
  | Some (Some line, rest) =>
      let '(sz, ext) := take_while hexdig line in
      match sz with
      | [] => Invalid BadSize
      | _ =>
          match ext with
          | [] | x3b :: _ =>
              if negb (wf_ext ext) then Unspecified
              else if negb (hex_value sz <? 2 ^ 64)%N then Invalid BadSize
              else if N.eqb (hex_value sz) 0 then
                trailers_res rest acc (dec_trailers (S (length rest)) rest)
              else data_res rec (hex_value sz) rest acc
          | _ => Invalid BadSize
          end
      end
  end.

Lemma dec_chunks_S f l acc : dec_chunks (S f) l acc = dec_step (dec_chunks f) l acc.
Proof. reflexivity. Qed.

Lemma after_data_cases rec after acc' :
  (exists r, after = x0d :: x0a :: r /\ after_data rec after acc' = rec r acc') \/
  ((forall r, after <> x0d :: x0a :: r) /\ exists w, after_data rec after acc' = Invalid w).
Proof.
  destruct after as [|a t].
  - right. split; [intros r; discriminate|]. exists Truncated. reflexivity.
  - destruct (Byte.byte_eq_dec a x0d) as [Ea|Ea].
    + subst a. destruct t as [|b r].
      * right. split; [intros r; discriminate|]. exists Truncated. reflexivity.
      * destruct (Byte.byte_eq_dec b x0a) as [Eb|Eb].
        -- subst b. left. exists r. split; reflexivity.
        -- right. split; [intros r' H; inversion H; congruence|].
           exists BadChunkEnd. destruct b; try reflexivity. congruence.
    + right. split; [intros r H; inversion H; congruence|].
      exists BadChunkEnd. destruct a; try reflexivity. congruence.
Qed.

Lemma after_data_ext r1 r2 after acc' :
  (forall l a, (length l < length after)%nat -> r1 l a = r2 l a) ->
  after_data r1 after acc' = after_data r2 after acc'.
Proof.
  intros H. destruct (after_data_cases r1 after acc') as [[r [E1 E2]]|[N1 [w E2]]].
  - subst after. cbn [after_data]. apply H. cbn [length]. lia.
  - destruct (after_data_cases r2 after acc') as [[r [E1' E2']]|[N1' [w' E2']]].
    + exfalso. exact (N1 r E1').
    + destruct after as [|a t]; [reflexivity|].
      destruct (Byte.byte_eq_dec a x0d) as [Ea|Ea].
      * subst a. destruct t as [|b r]; [reflexivity|].
        destruct (Byte.byte_eq_dec b x0a) as [Eb|Eb]; [subst b; exfalso; exact (N1 r eq_refl)|].
        destruct b; try reflexivity. congruence.
      * destruct a; try reflexivity. congruence.
Qed.

Lemma data_res_ext r1 r2 n rest acc :
  (forall l a, (length l < S (length rest))%nat -> r1 l a = r2 l a) ->
  data_res r1 n rest acc = data_res r2 n rest acc.
Proof.
  intros H. unfold data_res. destruct (take_n n rest) as [[d a]|] eqn:E; [|reflexivity].
  apply take_n_some in E. destruct E as [E _]. apply after_data_ext.
  intros l a' Hl. apply H. subst rest. rewrite app_length. lia.
Qed.

Lemma dec_step_ext r1 r2 l acc :
  (forall l' a, (length l' < length l)%nat -> r1 l' a = r2 l' a) ->
  dec_step r1 l acc = dec_step r2 l acc.
Proof.
  intros H. unfold dec_step. destruct (line_crlf l) as [[[line|] rest]|] eqn:E; try reflexivity.
  apply line_crlf_shorter in E.
  destruct (take_while hexdig line) as [sz ext]. destruct sz as [|s0 sz]; [reflexivity|].
  assert (Hd : data_res r1 (hex_value (s0 :: sz)) rest acc = data_res r2 (hex_value (s0 :: sz)) rest acc).
  { apply data_res_ext. intros l' a Hl. apply H. lia. }
  destruct ext as [|e0 ext].
  - rewrite Hd. reflexivity.
  - destruct e0; try reflexivity. rewrite Hd. reflexivity.
Qed.

Lemma dec_chunks_fuel f1 : forall f2 l acc, (length l < f1)%nat -> (length l < f2)%nat ->
  dec_chunks f1 l acc = dec_chunks f2 l acc.
Proof.
  induction f1 as [|f1 IH]; intros f2 l acc H1 H2; [lia|].
  destruct f2 as [|f2]; [lia|].
  rewrite !dec_chunks_S. apply dec_step_ext. intros l' a Hl. apply IH; lia.
Qed.

Definition decU (l acc : bytes) : dres := dec_chunks (S (length l)) l acc.

Lemma decU_unfold l acc : decU l acc = dec_step decU l acc.
Proof.
  unfold decU at 1. rewrite dec_chunks_S. apply dec_step_ext.
  intros l' a Hl. unfold decU. apply dec_chunks_fuel; lia.
Qed.

(* trailers *)
Definition dect (l : bytes) : option (option bytes) := dec_trailers (S (length l)) l.

Definition dect_step (rec : bytes -> option (option bytes)) (l : bytes) : option (option bytes) :=
  match line_crlf l with
  | None => None
  | Some (None, _) => Some None
  | Some (Some [], rest) => Some (Some rest)
  | Some (Some t, rest) => if forallb text_byte t then rec rest else Some None
  end.

Lemma dec_trailers_S f l : dec_trailers (S f) l = dect_step (dec_trailers f) l.
Proof. reflexivity. Qed.

Lemma dect_step_ext r1 r2 l : (forall l', (length l' < length l)%nat -> r1 l' = r2 l') ->
  dect_step r1 l = dect_step r2 l.
Proof.
  intros H. unfold dect_step. destruct (line_crlf l) as [[[line|] rest]|] eqn:E; try reflexivity.
  apply line_crlf_shorter in E. destruct line as [|t0 t]; [reflexivity|].
  rewrite (H rest E). reflexivity.
Qed.

Lemma dec_trailers_fuel f1 : forall f2 l, (length l < f1)%nat -> (length l < f2)%nat ->
  dec_trailers f1 l = dec_trailers f2 l.
Proof.
  induction f1 as [|f1 IH]; intros f2 l H1 H2; [lia|].
  destruct f2 as [|f2]; [lia|].
  rewrite !dec_trailers_S. apply dect_step_ext. intros l' Hl. apply IH; lia.
Qed.

Lemma dect_unfold l : dect l = dect_step dect l.
Proof.
  unfold dect at 1. rewrite dec_trailers_S. apply dect_step_ext.
  intros l' Hl. unfold dect. apply dec_trailers_fuel; lia.
Qed.

(* ------------------------------------------------------------------ the size line, model side *)
Definition hd_split (l : bytes) : bytes := match split_on x3b l with h :: _ => h | [] => [] end.

Lemma hd_split_nil : hd_split [] = [].
Proof. reflexivity. Qed.

Lemma hd_split_cons x r : hd_split (x :: r) = if Byte.eqb x x3b then [] else x :: hd_split r.
Proof.
  unfold hd_split. cbn [split_on]. destruct (Byte.eqb x x3b); [reflexivity|].
  destruct (split_on x3b r); reflexivity.
Qed.

Lemma hd_split_hex sz ext : forallb hexdig sz = true -> hd_split (sz ++ ext) = sz ++ hd_split ext.
Proof.
  induction sz as [|b sz IH]; intros H; [reflexivity|].
  cbn [forallb] in H. apply andb_true_iff in H. destruct H as [H1 H2].
  cbn [app]. rewrite hd_split_cons, (hexdig_not_semi b H1), (IH H2). reflexivity.
Qed.

Definition parse_size_line (line : bytes) : ioerr + N :=
  match line with
  | [] => inl EUnexpectedEof
  | _ =>
      match strip_suffix_byte x0a line with
      | None => inl EUnexpectedEof
      | Some l1 =>
          let l2 := match strip_suffix_byte x0d l1 with Some x => x | None => l1 end in
          match hd_split l2 with
          | [] => inl EInvalidData
          | hex =>
              if forallb is_hexdigit hex then
                match parse_hex 0 hex with
                | None => inl EInvalidData
                | Some n => inr n
                end
              else inl EInvalidData
          end
      end
  end.

Definition size_state (n : N) : cstate := if N.eqb n 0 then CTrailer else CData.

Lemma read_chunk_size_eq c :
  read_chunk_size c =
  let '(r, s') := read_line (c_src c) in
  match r with
  | inr e => RErr e {| c_src := s'; c_state := c_state c; c_remaining := c_remaining c |}
  | inl line =>
      match parse_size_line line with
      | inl e => RErr e {| c_src := s'; c_state := c_state c; c_remaining := c_remaining c |}
      | inr n => ROk [] {| c_src := s'; c_state := size_state n; c_remaining := n |}
      end
  end.
Proof.
  unfold read_chunk_size, parse_size_line, hd_split, size_state.
  destruct (read_line (c_src c)) as [r s']. destruct r as [line|e]; [|reflexivity].
  destruct line as [|b line]; [reflexivity|].
  destruct (strip_suffix_byte x0a (b :: line)) as [l1|]; [|reflexivity].
  cbv zeta.
  remember (match strip_suffix_byte x0d l1 with Some x => x | None => l1 end) as l2 eqn:El2.
  destruct (split_on x3b l2) as [|hx tl]; [reflexivity|].
  destruct hx as [|h0 hex]; [reflexivity|].
  destruct (forallb is_hexdigit (h0 :: hex)); [|reflexivity].
  destruct (parse_hex 0 (h0 :: hex)); reflexivity.
Qed.

Lemma strip_suffix_app c l : strip_suffix_byte c (l ++ [c]) = Some l.
Proof.
  unfold strip_suffix_byte. rewrite rev_app_distr. cbn [rev app].
  rewrite byte_eqb_refl, rev_involutive. reflexivity.
Qed.

Lemma strip_suffix_some c l r : strip_suffix_byte c l = Some r -> l = r ++ [c].
Proof.
  unfold strip_suffix_byte. destruct (rev l) as [|x t] eqn:E; [discriminate|].
  destruct (Byte.eqb x c) eqn:Ex; [|discriminate]. intros H. inversion H. subst r.
  apply byte_eqb_eq in Ex. subst x. rewrite <- (rev_involutive l), E. reflexivity.
Qed.

Lemma to_lf_has_lf r t : to_lf (r ++ x0a :: t) <> None.
Proof.
  induction r as [|b r IH]; cbn [app to_lf].
  - discriminate.
  - destruct (Byte.eqb b x0a); [discriminate|].
    destruct (to_lf (r ++ x0a :: t)) as [[x y]|]; [discriminate|congruence].
Qed.

Lemma parse_size_line_nolf U : to_lf U = None -> parse_size_line U = inl EUnexpectedEof.
Proof.
  intros H. unfold parse_size_line. destruct U as [|b U]; [reflexivity|].
  destruct (strip_suffix_byte x0a (b :: U)) as [l1|] eqn:E; [|reflexivity].
  exfalso. apply strip_suffix_some in E. rewrite E in H. exact (to_lf_has_lf _ _ H).
Qed.

Lemma parse_size_line_crlf line :
  parse_size_line ((line ++ [x0d]) ++ [x0a]) =
  match hd_split line with
  | [] => inl EInvalidData
  | hex =>
      if forallb is_hexdigit hex then
        match parse_hex 0 hex with None => inl EInvalidData | Some n => inr n end
      else inl EInvalidData
  end.
Proof.
  unfold parse_size_line. rewrite !strip_suffix_app.
  destruct ((line ++ [x0d]) ++ [x0a]) as [|b t] eqn:E; [|reflexivity].
  exfalso. destruct (line ++ [x0d]); discriminate.
Qed.

(* hexadecimal value *)
Definition hexf (a : N) (b : byte) : N := a * 16 + hexdig_val b.

Lemma fold_hex_ge l : forall a, a <= fold_left hexf l a.
Proof.
  induction l as [|b l IH]; intros a; cbn [fold_left]; [lia|].
  specialize (IH (hexf a b)). unfold hexf in *. lia.
Qed.

Lemma parse_hex_spec l : forall a, a <= USIZE_MAX -> forallb hexdig l = true ->
  parse_hex a l = if fold_left hexf l a <=? USIZE_MAX then Some (fold_left hexf l a) else None.
Proof.
  induction l as [|b l IH]; intros a Ha H.
  - cbn [parse_hex fold_left]. destruct (N.leb_spec a USIZE_MAX); [reflexivity|lia].
  - cbn [forallb] in H. apply andb_true_iff in H. destruct H as [H1 H2].
    cbn [parse_hex fold_left]. rewrite (hexval_hexdig b H1). fold (hexf a b).
    destruct (N.leb_spec (hexf a b) USIZE_MAX) as [L|L].
    + apply IH; assumption.
    + pose proof (fold_hex_ge l (hexf a b)) as G.
      destruct (N.leb_spec (fold_left hexf l (hexf a b)) USIZE_MAX); [lia|reflexivity].
Qed.

Lemma hex_value_fold sz : hex_value sz = fold_left hexf sz 0.
Proof. reflexivity. Qed.

Lemma usize_lt n : (n <? 2 ^ 64) = (n <=? USIZE_MAX).
Proof.
  assert (E : 2 ^ 64 = N.succ USIZE_MAX) by (vm_compute; reflexivity). rewrite E.
  destruct (N.ltb_spec n (N.succ USIZE_MAX)); destruct (N.leb_spec n USIZE_MAX); try reflexivity; lia.
Qed.

Lemma parse_hex_value sz : forallb hexdig sz = true ->
  parse_hex 0 sz = if hex_value sz <? 2 ^ 64 then Some (hex_value sz) else None.
Proof.
  intros H. rewrite usize_lt, hex_value_fold. apply parse_hex_spec; [|exact H].
  unfold USIZE_MAX. lia.
Qed.

(* ------------------------------------------------------------------ the size line, spec side *)
Definition ext_ok (ext : bytes) : bool := match ext with [] => true | b :: _ => Byte.eqb b x3b end.

Definition size_good (rec : bytes -> bytes -> dres) (sz ext rest acc : bytes) : dres :=
  if negb (wf_ext ext) then Unspecified
  else if negb (hex_value sz <? 2 ^ 64) then Invalid BadSize
  else if N.eqb (hex_value sz) 0 then trailers_res rest acc (dect rest)
  else data_res rec (hex_value sz) rest acc.

Lemma dec_step_line rec l acc line rest sz ext :
  line_crlf l = Some (Some line, rest) -> take_while hexdig line = (sz, ext) ->
  dec_step rec l acc =
  if nonempty sz && ext_ok ext then size_good rec sz ext rest acc else Invalid BadSize.
Proof.
  intros H1 H2. unfold dec_step, size_good, dect. rewrite H1, H2.
  destruct sz as [|s0 sz]; [reflexivity|].
  destruct ext as [|b t]; [reflexivity|].
  destruct b; reflexivity.
Qed.

Lemma dec_step_noline rec l acc : line_crlf l = None -> exists w, dec_step rec l acc = Invalid w.
Proof.
  intros H. unfold dec_step. rewrite H. destruct (take_while hexdig l) as [sz after].
  destruct after as [|b t]; [eexists; reflexivity|].
  destruct (Byte.eqb b x3b || Byte.eqb b x0d); eexists; reflexivity.
Qed.

Lemma ext_ok_ascii ext : ext_ok ext = true -> wf_ext ext = true -> forallb is_ascii ext = true.
Proof.
  destruct ext as [|b t]; [reflexivity|]. cbn [ext_ok]. intros Hb Hw.
  apply byte_eqb_eq in Hb. subst b. cbn [wf_ext] in Hw. cbn [forallb].
  rewrite (forallb_impl _ _ _ text_ascii Hw). reflexivity.
Qed.

Lemma hd_split_ext_ok ext : ext_ok ext = true -> hd_split ext = [].
Proof.
  destruct ext as [|b t]; [reflexivity|]. cbn [ext_ok]. intros Hb.
  rewrite hd_split_cons, Hb. reflexivity.
Qed.

(* the model's size-line parser against the recogniser's view of the line *)
Lemma parse_size_line_bad line sz ext : take_while hexdig line = (sz, ext) ->
  nonempty sz && ext_ok ext = false -> exists e, parse_size_line ((line ++ [x0d]) ++ [x0a]) = inl e.
Proof.
  intros Ht Hbad. apply take_while_spec in Ht. destruct Ht as [Hl [Hsz Hext]]. subst line.
  rewrite parse_size_line_crlf, (hd_split_hex sz ext Hsz).
  destruct ext as [|b t].
  - (* then sz = [] *)
    cbn [ext_ok] in Hbad. rewrite andb_true_r in Hbad. destruct sz; [|discriminate].
    cbn [app]. rewrite hd_split_nil. eexists; reflexivity.
  - rewrite hd_split_cons. cbn [ext_ok] in Hbad.
    destruct (Byte.eqb b x3b) eqn:Eb.
    + rewrite andb_true_r in Hbad. destruct sz; [|discriminate]. cbn [app]. eexists; reflexivity.
    + assert (Hf : forallb is_hexdigit (sz ++ b :: hd_split t) = false).
      { rewrite forallb_app. cbn [forallb]. rewrite is_hexdigit_hexdig, Hext.
        cbn [andb]. apply andb_false_r. }
      destruct (sz ++ b :: hd_split t) as [|h0 hx]; [eexists; reflexivity|].
      cbv beta iota zeta. rewrite Hf. eexists; reflexivity.
Qed.

Lemma parse_size_line_good line sz ext : take_while hexdig line = (sz, ext) ->
  nonempty sz && ext_ok ext = true ->
  parse_size_line ((line ++ [x0d]) ++ [x0a]) =
  if hex_value sz <? 2 ^ 64 then inr (hex_value sz) else inl EInvalidData.
Proof.
  intros Ht Hok. apply andb_true_iff in Hok. destruct Hok as [Hne Hok].
  apply take_while_spec in Ht. destruct Ht as [Hl [Hsz Hext]]. subst line.
  rewrite parse_size_line_crlf, (hd_split_hex sz ext Hsz), (hd_split_ext_ok ext Hok), app_nil_r.
  destruct sz as [|s0 sz]; [discriminate|].
  cbv beta iota zeta. rewrite (forallb_impl hexdig is_hexdigit (s0 :: sz)); [|intros x Hx; rewrite is_hexdigit_hexdig; exact Hx|exact Hsz].
  rewrite (parse_hex_value _ Hsz). destruct (hex_value (s0 :: sz) <? 2 ^ 64); reflexivity.
Qed.

Lemma size_line_utf8 line sz ext : take_while hexdig line = (sz, ext) ->
  ext_ok ext = true -> wf_ext ext = true -> utf8_valid ((line ++ [x0d]) ++ [x0a]) = true.
Proof.
  intros Ht Hok Hwf. apply take_while_spec in Ht. destruct Ht as [Hl [Hsz Hext]]. subst line.
  apply utf8_ascii. rewrite !forallb_app.
  rewrite (forallb_impl _ _ _ hexdig_ascii Hsz), (ext_ok_ascii ext Hok Hwf). reflexivity.
Qed.

(* ------------------------------------------------------------------ abstract position of a reader *)
Definition st_dec (c : chunked) (acc : bytes) : dres :=
  let U := reach (c_src c) in
  match c_state c with
  | CSize => decU U acc
  | CData => data_res decU (c_remaining c) U acc
  | CCrlf => after_data decU U acc
  | CTrailer => trailers_res U acc (dect U)
  | CDone => Valid acc U
  end.

Definition CB (c : chunked) : Prop := Bound (c_src c).

(* outcome of one model step against the abstract position D it started from:
   unspecified input, or an error on an invalid input, or progress preserving the position *)
Definition step_ok (D : dres) (r : rres chunked) (acc : bytes) (P : chunked -> Prop) : Prop :=
  D = Unspecified \/
  (exists e c', r = RErr e c' /\ exists w, D = Invalid w) \/
  (exists c', r = ROk [] c' /\ st_dec c' acc = D /\ CB c' /\ P c').

Lemma rcs_err c L s' : read_line (c_src c) = ((if utf8_valid L then inl L else inr EInvalidData), s') ->
  (exists e, parse_size_line L = inl e) -> exists e c', read_chunk_size c = RErr e c'.
Proof.
  intros Hrl [e He]. rewrite read_chunk_size_eq, Hrl.
  destruct (utf8_valid L); [rewrite He|]; eexists; eexists; reflexivity.
Qed.

Lemma read_chunk_size_spec c acc : CB c -> c_state c = CSize ->
  step_ok (st_dec c acc) (read_chunk_size c) acc
          (fun c' => (c_state c' = CTrailer \/ (c_state c' = CData /\ c_remaining c' <> 0))).
Proof.
  intros Hb Hst. unfold st_dec. rewrite Hst. cbv zeta. rewrite decU_unfold.
  destruct (read_line_spec (c_src c) Hb) as [L [s' [Hrl [Hfu Hlo]]]].
  pose proof (line_of_shrink _ _ _ Hlo) as Hsplit.
  assert (Hb' : Bound s') by (apply (Bound_split (c_src c) s' L); assumption).
  unfold line_of in Hlo.
  destruct (line_crlf (reach (c_src c))) as [[[line|] rest]|] eqn:Elc.
  - (* a CRLF-terminated line *)
    pose proof (line_crlf_some _ _ _ Elc) as Etl. rewrite Etl in Hlo. destruct Hlo as [HL Hrest].
    destruct (take_while hexdig line) as [sz ext] eqn:Etw.
    rewrite (dec_step_line decU _ acc line rest sz ext Elc Etw).
    destruct (nonempty sz && ext_ok ext) eqn:Eok.
    + unfold size_good.
      destruct (wf_ext ext) eqn:Ewf; cbn [negb]; [|left; reflexivity].
      pose proof (parse_size_line_good line sz ext Etw Eok) as Hps. rewrite <- HL in Hps.
      apply andb_true_iff in Eok. destruct Eok as [_ Eok].
      pose proof (size_line_utf8 line sz ext Etw Eok Ewf) as Hu. rewrite <- HL in Hu.
      destruct (hex_value sz <? 2 ^ 64) eqn:Elt; cbn [negb].
      * right. right. rewrite read_chunk_size_eq, Hrl, Hu, Hps.
        eexists. split; [reflexivity|]. unfold st_dec, CB, size_state. cbn [c_src c_state c_remaining].
        rewrite Hrest. destruct (N.eqb_spec (hex_value sz) 0) as [E0|E0].
        -- split; [reflexivity|]. split; [exact Hb'|]. left. reflexivity.
        -- split; [reflexivity|]. split; [exact Hb'|]. right. split; [reflexivity|exact E0].
      * right. left. destruct (rcs_err c L s' Hrl) as [e [c' He]]; [rewrite Hps; eexists; reflexivity|].
        exists e, c'. split; [exact He|]. eexists; reflexivity.
    + right. left. destruct (rcs_err c L s' Hrl) as [e [c' He]].
      * rewrite HL. exact (parse_size_line_bad line sz ext Etw Eok).
      * exists e, c'. split; [exact He|]. eexists; reflexivity.
  - (* bare LF *)
    left. unfold dec_step. rewrite Elc. reflexivity.
  - (* no LF at all *)
    right. left. pose proof (line_crlf_none _ Elc) as Etl. rewrite Etl in Hlo. destruct Hlo as [HL _].
    destruct (rcs_err c L s' Hrl) as [e [c' He]].
    + rewrite HL, (parse_size_line_nolf _ Etl). eexists; reflexivity.
    + exists e, c'. split; [exact He|]. exact (dec_step_noline decU _ acc Elc).
Qed.

(* ------------------------------------------------------------------ trailers *)
Lemma trailer_loop_empty fuel : forall s, Bound s -> reach s = [] ->
  exists e s', trailer_loop fuel s = (Some e, s').
Proof.
  induction fuel as [|fuel IH]; intros s Hb Hs; [eexists; eexists; reflexivity|].
  cbn [trailer_loop]. destruct (read_line_spec s Hb) as [L [s' [Hrl [Hfu Hlo]]]].
  unfold line_of in Hlo. rewrite Hs in Hlo. cbn [to_lf] in Hlo. destruct Hlo as [HL _]. subst L.
  rewrite Hrl. cbn [utf8_valid]. eexists; eexists; reflexivity.
Qed.

Lemma trailer_loop_spec fuel : forall s, Bound s -> (length (reach s) < fuel)%nat ->
  match dect (reach s) with
  | None => exists e s', trailer_loop fuel s = (Some e, s')
  | Some None => True
  | Some (Some rest) => exists s', trailer_loop fuel s = (None, s') /\ reach s' = rest /\ Bound s'
  end.
Proof.
  induction fuel as [|fuel IH]; intros s Hb Hf; [lia|].
  rewrite dect_unfold. unfold dect_step. cbn [trailer_loop].
  destruct (read_line_spec s Hb) as [L [s' [Hrl [Hfu Hlo]]]].
  pose proof (line_of_shrink _ _ _ Hlo) as Hsplit.
  assert (Hb' : Bound s') by (apply (Bound_split s s' L); assumption).
  unfold line_of in Hlo. rewrite Hrl.
  destruct (line_crlf (reach s)) as [[[line|] rest]|] eqn:Elc.
  - pose proof (line_crlf_some _ _ _ Elc) as Etl. rewrite Etl in Hlo. destruct Hlo as [HL Hrest].
    destruct line as [|t0 t].
    + subst L. cbn [app utf8_valid N.ltb]. cbn. exists s'. repeat split; assumption.
    + destruct (forallb text_byte (t0 :: t)) eqn:Etx; [|exact I].
      assert (Hu : utf8_valid L = true).
      { subst L. apply utf8_ascii. rewrite !forallb_app.
        rewrite (forallb_impl _ _ _ text_ascii Etx). reflexivity. }
      rewrite Hu.
      assert (HL2 : L = t0 :: (t ++ [x0d]) ++ [x0a]) by (subst L; reflexivity).
      assert (Hnb : bytes_eqb L [x0d; x0a] || bytes_eqb L [x0a] = false).
      { apply orb_false_iff. split.
        - destruct (bytes_eqb L [x0d; x0a]) eqn:E; [|reflexivity]. apply bytes_eqb_eq in E.
          rewrite E in HL2. inversion HL2 as [[H1 H2]]. apply (f_equal (@length byte)) in H2.
          rewrite !app_length in H2. cbn [length] in H2. lia.
        - destruct (bytes_eqb L [x0a]) eqn:E; [|reflexivity]. apply bytes_eqb_eq in E.
          rewrite E in HL2. inversion HL2 as [[H1 H2]]. apply (f_equal (@length byte)) in H2.
          rewrite !app_length in H2. cbn [length] in H2. lia. }
      rewrite HL2. rewrite <- HL2. rewrite Hnb.
      assert (Hlen : (length (reach s') < fuel)%nat).
      { rewrite Hsplit, app_length, HL2 in Hf. cbn [length] in Hf. lia. }
      specialize (IH s' Hb' Hlen). rewrite Hrest in IH. exact IH.
  - exact I.
  - pose proof (line_crlf_none _ Elc) as Etl. rewrite Etl in Hlo. destruct Hlo as [HL Hrest].
    destruct (utf8_valid L); [|eexists; eexists; reflexivity].
    destruct L as [|l0 L]; [eexists; eexists; reflexivity|].
    assert (Hnb : bytes_eqb (l0 :: L) [x0d; x0a] || bytes_eqb (l0 :: L) [x0a] = false).
    { apply orb_false_iff. split.
      - destruct (bytes_eqb (l0 :: L) [x0d; x0a]) eqn:E; [|reflexivity]. apply bytes_eqb_eq in E.
        rewrite <- HL, E in Etl. discriminate.
      - destruct (bytes_eqb (l0 :: L) [x0a]) eqn:E; [|reflexivity]. apply bytes_eqb_eq in E.
        rewrite <- HL, E in Etl. discriminate. }
    rewrite Hnb. apply trailer_loop_empty; assumption.
Qed.

(* ------------------------------------------------------------------ advance *)
Definition rank (c : chunked) : nat :=
  match c_state c with
  | CData => if N.eqb (c_remaining c) 0 then 6 else 1
  | CCrlf => 5
  | CSize => 4
  | CTrailer => 2
  | CDone => 1
  end.

Definition ready (c : chunked) : Prop :=
  c_state c = CDone \/ (c_state c = CData /\ c_remaining c <> 0).

Lemma step_ok_D D D' r acc P : D = D' -> step_ok D' r acc P -> step_ok D r acc P.
Proof. intros ->. exact (fun H => H). Qed.

Lemma advance_spec fuel : forall c acc, (rank c <= fuel)%nat -> CB c ->
  step_ok (st_dec c acc) (advance fuel c) acc ready.
Proof.
  induction fuel as [|fuel IH]; intros c acc Hr Hb.
  - exfalso. unfold rank in Hr. destruct (c_state c); try lia. destruct (c_remaining c =? 0); lia.
  - cbn [advance]. destruct (c_state c) eqn:Est.
    + (* CSize *)
      destruct (read_chunk_size_spec c acc Hb Est) as [HU|[[e [c' [He [w Hw]]]]|[c' [Hc' [Hd [Hb' Hst']]]]]].
      * left. exact HU.
      * right. left. rewrite He. exists e, c'. split; [reflexivity|]. exists w. exact Hw.
      * rewrite Hc'. rewrite <- Hd. apply IH; [|exact Hb'].
        unfold rank in *. rewrite Est in Hr. destruct Hst' as [H1|[H1 H2]]; rewrite H1.
        -- lia.
        -- destruct (N.eqb_spec (c_remaining c') 0); [contradiction|lia].
    + (* CData *)
      destruct (N.eqb_spec (c_remaining c) 0) as [E0|E0].
      * eapply step_ok_D; [|apply IH].
        -- unfold st_dec. rewrite Est. cbn [c_src c_state c_remaining]. cbv zeta.
           unfold data_res. rewrite E0, take_n_0, app_nil_r. reflexivity.
        -- unfold rank in *. rewrite Est, E0 in Hr. cbn [c_state]. cbn in Hr. lia.
        -- exact Hb.
      * right. right. exists c. split; [reflexivity|]. split; [reflexivity|]. split; [exact Hb|].
        right. split; assumption.
    + (* CCrlf *)
      pose proof (read_exact_spec 2 (c_src c)) as Hre.
      assert (HD : st_dec c acc = after_data decU (reach (c_src c)) acc) by (unfold st_dec; rewrite Est; reflexivity).
      destruct (read_exact 2 (c_src c)) as [[crlf s']|].
      * destruct Hre as [R1 [R2 R3]].
        destruct (bytes_eqb crlf [x0d; x0a]) eqn:Ecr.
        -- apply bytes_eqb_eq in Ecr. subst crlf.
           eapply step_ok_D; [|apply IH].
           ++ rewrite HD, R1. unfold st_dec. cbn [c_src c_state app after_data]. reflexivity.
           ++ unfold rank in *. rewrite Est in Hr. cbn [c_state]. lia.
           ++ unfold CB. cbn [c_src]. apply (Bound_split (c_src c) s' [x0d; x0a]); assumption.
        -- right. left. eexists. eexists. split; [reflexivity|]. rewrite HD.
           destruct (after_data_cases decU (reach (c_src c)) acc) as [[r [E1 E2]]|[N1 [w E2]]].
           ++ exfalso. rewrite E1 in R1. destruct crlf as [|a [|b [|c0 t]]];
                rewrite ?lenN_cons, ?lenN_nil in R2; try lia.
              cbn [app] in R1. inversion R1. subst a b.
              cbn [bytes_eqb] in Ecr. rewrite !byte_eqb_refl in Ecr. discriminate.
           ++ exists w. exact E2.
      * right. left. eexists. eexists. split; [reflexivity|]. rewrite HD.
        destruct (after_data_cases decU (reach (c_src c)) acc) as [[r [E1 E2]]|[N1 [w E2]]].
        -- exfalso. rewrite E1, !lenN_cons in Hre. lia.
        -- exists w. exact E2.
    + (* CTrailer *)
      assert (HD : st_dec c acc = trailers_res (reach (c_src c)) acc (dect (reach (c_src c))))
        by (unfold st_dec; rewrite Est; reflexivity).
      pose proof (trailer_loop_spec (sfuel (c_src c)) (c_src c) Hb (proj1 (Bound_fuel _ Hb))) as Ht.
      destruct (dect (reach (c_src c))) as [[rest|]|].
      * destruct Ht as [s' [T1 [T2 T3]]]. rewrite T1.
        eapply step_ok_D; [|apply IH].
        -- rewrite HD. unfold st_dec. cbn [c_src c_state trailers_res]. rewrite T2. reflexivity.
        -- unfold rank. cbn [c_state]. unfold rank in Hr. rewrite Est in Hr. lia.
        -- exact T3.
      * left. exact HD.
      * destruct Ht as [e [s' T1]]. rewrite T1. right. left. eexists. eexists.
        split; [reflexivity|]. exists Truncated. exact HD.
    + (* CDone *)
      right. right. exists c. split; [reflexivity|]. split; [reflexivity|]. split; [exact Hb|].
      left. exact Est.
Qed.

Lemma rank_le c : (rank c <= 6)%nat.
Proof. unfold rank. destruct (c_state c); try lia. destruct (c_remaining c =? 0); lia. Qed.

Lemma advance_ok c acc : CB c -> step_ok (st_dec c acc) (advance (adv_fuel c) c) acc ready.
Proof.
  intros Hb. apply advance_spec; [|exact Hb].
  pose proof (rank_le c). pose proof (Bound_fuel _ Hb) as [_ H12]. unfold adv_fuel. lia.
Qed.

(* ------------------------------------------------------------------ chunk data *)
Lemma data_step c c' acc out : c_state c = CData -> c_state c' = CData ->
  reach (c_src c) = out ++ reach (c_src c') -> lenN out <= c_remaining c ->
  c_remaining c' = c_remaining c - lenN out -> st_dec c' (acc ++ out) = st_dec c acc.
Proof.
  intros H1 H2 H3 H4 H5. unfold st_dec. rewrite H1, H2. cbv zeta. unfold data_res.
  rewrite H3, take_n_app by exact H4. rewrite H5.
  destruct (take_n (c_remaining c - lenN out) (reach (c_src c'))) as [[d a]|]; [|reflexivity].
  rewrite app_assoc. reflexivity.
Qed.

Lemma data_eof c acc : c_state c = CData -> c_remaining c <> 0 -> reach (c_src c) = [] ->
  st_dec c acc = Invalid Truncated.
Proof.
  intros H1 H2 H3. unfold st_dec. rewrite H1. cbv zeta. unfold data_res.
  rewrite H3, take_n_nil by exact H2. reflexivity.
Qed.

Lemma done_dec c acc : c_state c = CDone -> st_dec c acc = Valid acc (reach (c_src c)).
Proof. intros H. unfold st_dec. rewrite H. reflexivity. Qed.

(* ------------------------------------------------------------------ the payload extends acc *)
Definition ext_acc (rec : bytes -> bytes -> dres) : Prop :=
  forall l a p rest, rec l a = Valid p rest -> exists q, p = a ++ q.

Lemma after_data_prefix rec after acc p rest : ext_acc rec ->
  after_data rec after acc = Valid p rest -> exists q, p = acc ++ q.
Proof.
  intros Hrec H. destruct (after_data_cases rec after acc) as [[r [E1 E2]]|[N1 [w E2]]].
  - rewrite E2 in H. exact (Hrec _ _ _ _ H).
  - rewrite E2 in H. discriminate.
Qed.

Lemma data_res_prefix rec n l acc p rest : ext_acc rec ->
  data_res rec n l acc = Valid p rest -> exists q, p = acc ++ q.
Proof.
  intros Hrec. unfold data_res. destruct (take_n n l) as [[d a]|]; [|discriminate].
  intros H. destruct (after_data_prefix rec a (acc ++ d) p rest Hrec H) as [q Hq].
  exists (d ++ q). rewrite Hq, app_assoc. reflexivity.
Qed.

Lemma trailers_res_prefix l acc t p rest : trailers_res l acc t = Valid p rest -> p = acc.
Proof. destruct t as [[r|]|]; cbn [trailers_res]; intros H; inversion H; reflexivity. Qed.

Lemma dec_step_prefix rec l acc p rest : ext_acc rec ->
  dec_step rec l acc = Valid p rest -> exists q, p = acc ++ q.
Proof.
  intros Hrec H. destruct (line_crlf l) as [[[line|] r]|] eqn:Elc.
  - destruct (take_while hexdig line) as [sz ext] eqn:Etw.
    rewrite (dec_step_line rec l acc line r sz ext Elc Etw) in H.
    destruct (nonempty sz && ext_ok ext); [|discriminate].
    unfold size_good in H. destruct (negb (wf_ext ext)); [discriminate|].
    destruct (negb (hex_value sz <? 2 ^ 64)); [discriminate|].
    destruct (hex_value sz =? 0).
    + apply trailers_res_prefix in H. exists []. rewrite app_nil_r. exact H.
    + exact (data_res_prefix rec _ _ _ _ _ Hrec H).
  - unfold dec_step in H. rewrite Elc in H. discriminate.
  - destruct (dec_step_noline rec l acc Elc) as [w Hw]. rewrite Hw in H. discriminate.
Qed.

Lemma dec_chunks_prefix f : ext_acc (dec_chunks f).
Proof.
  induction f as [|f IH]; intros l a p rest H; [discriminate|].
  rewrite dec_chunks_S in H. exact (dec_step_prefix _ _ _ _ _ IH H).
Qed.

Lemma decU_prefix : ext_acc decU.
Proof. intros l a p rest H. exact (dec_chunks_prefix _ _ _ _ _ H). Qed.

Lemma st_dec_prefix c acc p rest : st_dec c acc = Valid p rest -> exists q, p = acc ++ q.
Proof.
  unfold st_dec. destruct (c_state c); cbv zeta; intros H.
  - exact (decU_prefix _ _ _ _ H).
  - exact (data_res_prefix decU _ _ _ _ _ decU_prefix H).
  - exact (after_data_prefix decU _ _ _ _ decU_prefix H).
  - apply trailers_res_prefix in H. exists []. rewrite app_nil_r. exact H.
  - inversion H. exists []. rewrite app_nil_r. reflexivity.
Qed.

Lemma st_dec_new lo st acc :
  st_dec {| c_src := mk_src lo st; c_state := CSize; c_remaining := 0 |} acc = decU (lo ++ concat st) acc.
Proof. reflexivity. Qed.

Lemma step_ok_inv D r acc P : step_ok D r acc P -> D <> Unspecified ->
  (exists e c', r = RErr e c' /\ exists w, D = Invalid w) \/
  (exists c', r = ROk [] c' /\ st_dec c' acc = D /\ CB c' /\ P c').
Proof. intros [H|[H|H]] HD; [contradiction|left; exact H|right; exact H]. Qed.
