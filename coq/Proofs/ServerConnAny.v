(* C07 for ARBITRARY segmentations (after the repair of F20c: the bytes a body reader holds beyond the end of
   the body are carried over to the next read_request).  The invariant of the connection is simply: the
   concatenation of what is left of the stream is the suffix of the byte stream where the sequential
   specification stands.  Body layer: a reader positioned inside a valid body ([GB]) delivers the payload
   whatever the segmentation, and when it is dropped the carry followed by the unread segments is exactly the
   specification's [rest]. *)
From KV Require Import Lib.Bytes Lib.Utf8 Model.Headers Model.Parser Model.Body Model.Server
  Spec.HeaderStore Spec.HttpGrammar Spec.ChunkedSpec Spec.Framing Spec.ConnSpec
  Proofs.ParserSound Proofs.ParserSafe Proofs.BodyBase Proofs.BodyBaseChunk Proofs.BodyRead
  Proofs.ServerFraming Proofs.ServerConnBase Proofs.ServerConnSrc Proofs.ServerConnBody Proofs.ServerConnHead
  Proofs.ServerConnCut Proofs.ServerConnOne Proofs.ServerConn.

Local Open Scope N_scope.

(* ------------------------------------------------------------------ everything still unread: [src_rest] *)
Lemma take_read_all k s out l' sg' tk : take_read k s = (out, l', sg', tk) ->
  lo s ++ concat (segs s) = out ++ l' ++ concat sg'.
Proof.
  unfold take_read. destruct (stake s) as [lim|].
  - destruct (N.eqb lim 0).
    + intros H. inversion H. subst. reflexivity.
    + destruct (inner_read (N.min k lim) (lo s) (segs s)) as [[o l1] sg1] eqn:E. intros H. inversion H. subst.
      apply inner_read_spec in E. apply E.
  - destruct (inner_read k (lo s) (segs s)) as [[o l1] sg1] eqn:E. intros H. inversion H. subst.
    apply inner_read_spec in E. apply E.
Qed.

Lemma fill_buf_all s : src_rest (fill_buf s) = src_rest s.
Proof.
  unfold fill_buf. destruct (bbuf s) as [|x b] eqn:Eb; [|reflexivity].
  destruct (take_read BUF_SIZE s) as [[[out l'] sg'] tk] eqn:E. apply take_read_all in E.
  unfold src_rest. cbn [bbuf lo segs]. rewrite Eb, E. reflexivity.
Qed.

Lemma consume_all k s : src_rest s = firstnN k (bbuf s) ++ src_rest (consume k s).
Proof.
  unfold src_rest, consume. cbn [bbuf lo segs]. rewrite (app_assoc (firstnN k (bbuf s))), firstnN_skipnN. reflexivity.
Qed.

Lemma buf_read_all k s out s' : buf_read k s = (out, s') -> src_rest s = out ++ src_rest s'.
Proof.
  unfold buf_read. destruct (bbuf s) as [|x b] eqn:Eb.
  - destruct (N.leb BUF_SIZE k).
    + destruct (take_read k s) as [[[o l'] sg'] tk] eqn:E. intros H. inversion H. subst.
      apply take_read_all in E. unfold src_rest. cbn [bbuf lo segs]. rewrite Eb, E. reflexivity.
    + intros H. injection H as H1 H2. subst out s'. rewrite <- (fill_buf_all s). apply consume_all.
  - rewrite <- Eb. intros H. injection H as H1 H2. subst out s'. apply consume_all.
Qed.

Lemma concat_with_carry c sg : concat (with_carry c sg) = c ++ concat sg.
Proof. destruct c; reflexivity. Qed.

Lemma concat_carry s : concat (with_carry (carry_of s) (segs s)) = src_rest s.
Proof. rewrite concat_with_carry. unfold carry_of, src_rest. rewrite app_assoc. reflexivity. Qed.

(* ------------------------------------------------------------------ a reader inside a valid body *)
(* [acc] = payload already delivered, [p] = the whole payload, [rest] = the bytes of the stream that follow
   the body (whether they have been taken from the connection already or not) *)
Definition GB (b : body) (acc p rest : bytes) : Prop :=
  match b with
  | BFixed r => Bound (f_src r) /\
                (exists d, take_n (f_remaining r) (reach (f_src r)) = Some (d, []) /\ p = acc ++ d) /\
                src_rest (f_src r) = reach (f_src r) ++ rest
  | BChunked c => CB c /\ st_dec c acc = Valid p rest /\ Full (c_src c)
  | BEmpty s => Bound s /\ p = acc /\ src_rest s = rest
  | BEof _ => False
  end.

Lemma GB_rest b acc p rest : GB b acc p rest -> exists q, p = acc ++ q /\ (length q < body_fuel b)%nat.
Proof.
  unfold body_fuel. destruct b as [r|c|s|s]; cbn [GB body_src].
  - intros [Hb [[d [Ht Hp]] _]]. exists d. split; [exact Hp|].
    apply take_n_some in Ht. destruct Ht as [Ht _]. apply Bound_fuel in Hb. destruct Hb as [Hb _].
    rewrite Ht, app_nil_r in Hb. exact Hb.
  - intros [Hb [HD _]]. destruct (st_dec_prefix _ _ _ _ HD) as [q Hq]. exists q. split; [exact Hq|].
    apply st_dec_len in HD. apply Bound_fuel in Hb. destruct Hb as [Hb _].
    rewrite Hq, app_length in HD. lia.
  - intros [].
  - intros [Hb [Hp _]]. exists []. rewrite app_nil_r. split; [exact Hp|].
    apply Bound_fuel in Hb. cbn [length]. lia.
Qed.

Lemma body_read_GB k b acc p rest : 0 < k -> GB b acc p rest ->
  exists out b', body_read k b = ROk out b' /\ GB b' (acc ++ out) p rest /\ lenN out <= k /\
    (out = [] -> p = acc /\ src_rest (body_src b') = rest).
Proof.
  intros Hk. destruct b as [r|c|s|s]; cbn [GB].
  - intros [Hb [[d [Ht Hp]] Hall]]. cbn [body_read]. rewrite (fixed_read_pos k r Hk).
    destruct (N.eqb_spec (f_remaining r) 0) as [E|E].
    + exists [], (BFixed r). cbn [lift]. rewrite E, take_n_0 in Ht. injection Ht as Hd Hreach. subst d.
      rewrite app_nil_r in Hp. subst p. rewrite app_nil_r, lenN_nil.
      split; [reflexivity|]. split.
      * cbn [GB]. split; [exact Hb|]. split; [|exact Hall].
        exists []. rewrite E, take_n_0, Hreach, app_nil_r. split; reflexivity.
      * split; [lia|]. intros _. split; [reflexivity|]. cbn [body_src]. rewrite Hall, Hreach. reflexivity.
    + destruct (buf_read (N.min (f_remaining r) k) (f_src r)) as [out s'] eqn:Ebr.
      pose proof (buf_read_all _ _ _ _ Ebr) as Hall'.
      apply buf_read_spec in Ebr. destruct Ebr as [B1 [B2 [B3 B4]]].
      destruct out as [|o out].
      * exfalso. rewrite B4 in Ht by (lia || reflexivity). rewrite take_n_nil in Ht by exact E. discriminate.
      * remember (o :: out) as O eqn:EO.
        exists O, (BFixed {| f_src := s'; f_remaining := f_remaining r - lenN O |}).
        rewrite EO. cbn [lift]. rewrite <- EO.
        split; [reflexivity|].
        rewrite B1, take_n_app in Ht by lia.
        destruct (take_n (f_remaining r - lenN O) (reach s')) as [[d' x]|] eqn:Et; [|discriminate].
        inversion Ht. subst d x. split.
        -- cbn [GB f_src f_remaining]. split; [apply (Bound_split (f_src r) s' O); assumption|]. split.
           ++ exists d'. split; [exact Et|]. rewrite Hp, app_assoc. reflexivity.
           ++ apply (app_inv_head O). rewrite <- Hall', Hall, B1, app_assoc. reflexivity.
        -- split; [lia|]. intros C. subst O. discriminate.
  - intros [Hb [HD Hfull]]. cbn [body_read].
    assert (HU : Valid p rest <> Unspecified) by discriminate.
    pose proof (chunked_read_R k c) as HR.
    destruct (chunked_read_spec k c acc _ Hk Hb HD HU)
      as [[e [c' [He [w Hw]]]]|[out [c' [Ho [Hd' [Hb' Hnil]]]]]]; [discriminate|].
    rewrite Ho in HR. cbn [rst] in HR. destruct HR as [[_ HF] _]. specialize (HF Hfull).
    exists out, (BChunked c'). rewrite Ho. cbn [lift].
    split; [reflexivity|]. split; [cbn [GB]; repeat split; assumption|].
    split; [exact (proj1 (chunked_read_len _ _ _ _ Ho))|].
    intros C. subst out. rewrite (done_dec c' _ (Hnil eq_refl)), app_nil_r in Hd'. inversion Hd'.
    split; [reflexivity|]. cbn [body_src]. symmetry. apply Full_reach. exact HF.
  - intros [].
  - intros [Hb [Hp Hall]]. exists [], (BEmpty s). cbn [body_read]. rewrite app_nil_r, lenN_nil.
    split; [reflexivity|]. split; [cbn [GB]; repeat split; assumption|].
    split; [lia|]. intros _. split; [exact Hp|exact Hall].
Qed.

(* ------------------------------------------------------------------ read_to_end, read_k *)
Lemma read_to_end_GB fuel : forall b acc p rest q, GB b acc p rest -> p = acc ++ q -> (length q < fuel)%nat ->
  exists b', read_to_end fuel b acc = (inl p, b') /\ GB b' p p rest.
Proof.
  induction fuel as [|fuel IH]; intros b acc p rest q HV Hp Hf; [lia|].
  cbn [read_to_end].
  destruct (body_read_GB 8192 b acc p rest ltac:(lia) HV) as [out [b1 [H1 [HV1 [Hlen Hnil]]]]].
  rewrite H1. destruct out as [|o out].
  - destruct (Hnil eq_refl) as [Hpa _]. subst acc. rewrite app_nil_r in HV1.
    exists b1. split; [reflexivity|exact HV1].
  - remember (o :: out) as O eqn:EO.
    destruct (GB_rest _ _ _ _ HV1) as [q' [Hq' _]].
    assert (Hqq : q = O ++ q').
    { apply (app_inv_head acc). rewrite <- Hp, Hq', app_assoc. reflexivity. }
    destruct (IH b1 (acc ++ O) p rest q' HV1 Hq') as [b' [R1 R2]].
    { rewrite Hqq, app_length in Hf. subst O. cbn [length] in Hf. lia. }
    exists b'. rewrite EO. rewrite <- EO. split; [exact R1|exact R2].
Qed.

Lemma read_k_GB fuel : forall k b acc p rest q, GB b acc p rest -> p = acc ++ q -> (length q < fuel)%nat ->
  exists b', read_k fuel k b acc = (inl (acc ++ firstn_bytes k q), b') /\
             GB b' (acc ++ firstn_bytes k q) p rest.
Proof.
  induction fuel as [|fuel IH]; intros k b acc p rest q HV Hp Hf; [lia|].
  cbn [read_k]. destruct (N.eqb_spec k 0) as [Ek|Ek].
  - subst k. rewrite firstn_bytes_0, app_nil_r. exists b. split; [reflexivity|assumption].
  - destruct (body_read_GB k b acc p rest ltac:(lia) HV) as [out [b1 [H1 [HV1 [Hlen Hnil]]]]].
    rewrite H1. destruct out as [|o out].
    + destruct (Hnil eq_refl) as [Hpa _].
      assert (q = []). { apply (app_inv_head acc). rewrite <- Hp, app_nil_r. exact Hpa. }
      subst q. rewrite firstn_bytes_nil. rewrite app_nil_r in *. exists b1. split; [reflexivity|assumption].
    + remember (o :: out) as O eqn:EO.
      destruct (GB_rest _ _ _ _ HV1) as [q' [Hq' _]].
      assert (Hqq : q = O ++ q').
      { apply (app_inv_head acc). rewrite <- Hp, Hq', app_assoc. reflexivity. }
      destruct (IH (k - lenN O) b1 (acc ++ O) p rest q' HV1 Hq') as [b' [R1 R2]].
      { rewrite Hqq, app_length in Hf. subst O. cbn [length] in Hf. lia. }
      exists b'. rewrite EO. rewrite <- EO. rewrite Hqq, (firstn_bytes_app k O q' Hlen), app_assoc.
      split; [exact R1|exact R2].
Qed.

(* ------------------------------------------------------------------ drain on drop *)
Lemma drain_GB fuel : forall b acc p rest q, GB b acc p rest -> p = acc ++ q -> (length q < fuel)%nat ->
  src_rest (body_src (drain fuel b)) = rest /\ drain_ok fuel b = true.
Proof.
  induction fuel as [|fuel IH]; intros b acc p rest q HV Hp Hf; [lia|].
  destruct b as [r|c|s|s].
  - destruct (body_read_GB 1024 (BFixed r) acc p rest ltac:(lia) HV) as [out [b1 [H1 [HV1 [Hlen Hnil]]]]].
    rewrite drain_step, drain_ok_step by exact I. rewrite H1. destruct out as [|o out].
    + split; [apply (Hnil eq_refl)|reflexivity].
    + remember (o :: out) as O eqn:EO.
      destruct (GB_rest _ _ _ _ HV1) as [q' [Hq' _]].
      assert (Hqq : q = O ++ q').
      { apply (app_inv_head acc). rewrite <- Hp, Hq', app_assoc. reflexivity. }
      apply (IH b1 (acc ++ O) p rest q' HV1 Hq').
      rewrite Hqq, app_length in Hf. subst O. cbn [length] in Hf. lia.
  - destruct (body_read_GB 1024 (BChunked c) acc p rest ltac:(lia) HV) as [out [b1 [H1 [HV1 [Hlen Hnil]]]]].
    rewrite drain_step, drain_ok_step by exact I. rewrite H1. destruct out as [|o out].
    + split; [apply (Hnil eq_refl)|reflexivity].
    + remember (o :: out) as O eqn:EO.
      destruct (GB_rest _ _ _ _ HV1) as [q' [Hq' _]].
      assert (Hqq : q = O ++ q').
      { apply (app_inv_head acc). rewrite <- Hp, Hq', app_assoc. reflexivity. }
      apply (IH b1 (acc ++ O) p rest q' HV1 Hq').
      rewrite Hqq, app_length in Hf. subst O. cbn [length] in Hf. lia.
  - destruct HV.
  - cbn [drain drain_ok body_src]. split; [apply HV|reflexivity].
Qed.

(* where the stream stands once the reader is dropped: the carry and the unread segments are exactly the
   bytes that follow the body *)
Lemma after_drop_GB b acc p rest : GB b acc p rest -> concat (after_drop b) = rest.
Proof.
  intros HV. destruct (GB_rest _ _ _ _ HV) as [q [Hq Hlen]].
  unfold after_drop. cbv zeta. rewrite concat_carry.
  exact (proj1 (drain_GB (body_fuel b) b acc p rest q HV Hq Hlen)).
Qed.

Lemma located_GB b acc p rest : GB b acc p rest -> located false b = true.
Proof.
  intros HV. destruct (GB_rest _ _ _ _ HV) as [q [Hq Hlen]].
  unfold located. cbn [negb andb]. exact (proj2 (drain_GB (body_fuel b) b acc p rest q HV Hq Hlen)).
Qed.

(* ------------------------------------------------------------------ the reader the server builds *)
Lemma init_GB leftover sg h payload rest :
  server_framing' h <> FReject ->
  view_body (server_framing' h) (leftover ++ concat sg) = BodyOk payload rest ->
  GB (from_request leftover sg h) [] payload rest.
Proof.
  intros Hne Hv. rewrite (reader_of_framing _ _ _ Hne).
  destruct (server_framing' h) as [|n| |] eqn:Ef; cbn [view_body] in Hv.
  - destruct (spec_decode (leftover ++ concat sg)) as [p x|w|] eqn:Es; try discriminate.
    inversion Hv. subst p x. unfold new_chunked. cbn [GB].
    split; [apply Bound_mk|]. split; [|exact I].
    rewrite st_dec_new, <- spec_decode_decU. exact Es.
  - destruct (spec_fixed n (leftover ++ concat sg)) as [p x|w|] eqn:Es; try discriminate.
    inversion Hv. subst p x. unfold spec_fixed in Es.
    destruct (take_n n (leftover ++ concat sg)) as [[d x]|] eqn:Et; [|discriminate]. inversion Es. subst d x.
    unfold new_fixed. cbn [GB f_src f_remaining]. split; [apply Bound_mk_take|]. rewrite reach_mk_take. split.
    + exists payload. split; [exact (take_n_firstnN _ _ _ _ Et)|reflexivity].
    + apply take_n_some in Et. destruct Et as [E1 E2]. unfold src_rest, mk_src_take. cbn [bbuf lo segs List.app].
      rewrite E1, <- E2, firstnN_app_len. reflexivity.
  - inversion Hv. subst payload rest. unfold new_empty. cbn [GB].
    split; [apply Bound_mk|]. split; reflexivity.
  - contradiction.
Qed.

Local Close Scope N_scope.

(* ------------------------------------------------------------------ one request, any segmentation *)
(* the request at the front of the stream, well-framed, however its bytes and the bytes behind it are
   segmented: exactly the specification's responses and decision, and what is left of the stream - the carry
   first - is exactly the bytes that follow the body *)
Theorem one_request_any : forall a N ka sg r raw payload rest,
  parse_request (firstn N (concat sg)) = Ok r ->
  raw = raw_fields (firstn N (concat sg)) ->
  rfc_framing raw <> FReject ->
  view_body (rfc_framing raw) (skipn (q_offset r) (concat sg)) = BodyOk payload rest ->
  let o := handle_one_request a N ka sg in
  let '(resps, keep, _) := spec_one a r raw (skipn (q_offset r) (concat sg)) in
  o_resps o = resps /\ (o_ok o = true -> o_keep o = (keep && ka && negb (existsb rs_close resps))) /\
  (o_ok o = false -> keep = false) /\ o_eof o = false /\
  concat (o_rest o) = rest.
Proof.
  intros a N ka sg r raw payload rest Hparse Hraw Hnr Hview.
  destruct (read_parsed N sg r Hparse) as [buf [unread [Hrr [Hcat Hoff]]]].
  pose proof (framing_decision _ _ Hparse) as Hfr. rewrite <- Hraw in Hfr.
  pose proof (close_agrees _ _ Hparse) as Hcl. rewrite <- Hraw in Hcl.
  assert (Hah : skipn (q_offset r) (concat sg) = skipn (q_offset r) buf ++ concat unread).
  { rewrite <- Hcat, skipn_app. replace (q_offset r - length buf) with 0 by lia. reflexivity. }
  rewrite Hah in *.
  assert (HV : GB (from_request (skipn (q_offset r) buf) unread (q_hdrs r)) [] payload rest).
  { apply init_GB; rewrite Hfr; assumption. }
  set (b0 := from_request (skipn (q_offset r) buf) unread (q_hdrs r)) in *.
  assert (Hlt : length payload < body_fuel b0).
  { destruct (GB_rest _ _ _ _ HV) as [q [Hq Hl]]. cbn [List.app] in Hq. subst q. exact Hl. }
  rewrite (spec_one_ok a r raw _ payload rest Hnr Hview).
  cbv zeta. unfold handle_one_request. fold (hfuel sg). rewrite Hrr.
  assert (Hte : te_present (q_hdrs r) && negb (te_final_chunked (q_hdrs r)) = false).
  { destruct (te_present (q_hdrs r) && negb (te_final_chunked (q_hdrs r))) eqn:E; [|reflexivity].
    exfalso. apply Hnr. rewrite <- Hfr. unfold server_framing'. rewrite E. reflexivity. }
  rewrite Hte, Hcl. fold b0.
  destruct (hook_of a r) eqn:Eh.
  - (* the handler runs *)
    unfold run_handler. destruct (behaviour_of a r) as [|k|st| | | | | |n] eqn:Eb.
    + (* BAll *)
      destruct (read_to_end_GB (body_fuel b0) b0 [] payload rest payload HV eq_refl Hlt) as [b' [E2 HV']].
      rewrite E2. cbn [o_resps o_keep o_ok o_rest o_eof existsb rs_close ev orb negb]. rewrite (located_GB b' _ _ _ HV').
      split; [reflexivity|]. split; [intros _; destruct ka, (eval_close raw); reflexivity|]. split; [discriminate|]. split; [reflexivity|].
      exact (after_drop_GB b' _ _ _ HV').
    + (* BReadK *)
      destruct (read_k_GB (body_fuel b0) k b0 [] payload rest payload HV eq_refl Hlt) as [b' [E2 HV']].
      cbn [List.app] in E2, HV'.
      rewrite E2. cbn [o_resps o_keep o_ok o_rest o_eof existsb rs_close ev orb negb]. rewrite (located_GB b' _ _ _ HV').
      split; [reflexivity|]. split; [intros _; destruct ka, (eval_close raw); reflexivity|]. split; [discriminate|]. split; [reflexivity|].
      exact (after_drop_GB b' _ _ _ HV').
    + (* BNone *)
      cbn [o_resps o_keep o_ok o_rest o_eof existsb rs_close ev orb negb]. rewrite (located_GB b0 _ _ _ HV).
      split; [reflexivity|]. split; [intros _; destruct ka, (eval_close raw); reflexivity|]. split; [discriminate|]. split; [reflexivity|].
      exact (after_drop_GB b0 _ _ _ HV).
    + (* BFirst *)
      destruct (read_to_end_GB (body_fuel b0) b0 [] payload rest payload HV eq_refl Hlt) as [b' [E2 HV']].
      rewrite E2. cbn [o_resps o_keep o_ok o_rest o_eof existsb rs_close ev orb negb]. rewrite (located_GB b' _ _ _ HV').
      split; [reflexivity|]. split; [intros _; destruct ka, (eval_close raw); reflexivity|]. split; [discriminate|]. split; [reflexivity|].
      exact (after_drop_GB b' _ _ _ HV').
    + (* BHold *)
      cbn [o_resps o_keep o_ok o_rest o_eof existsb rs_close ev orb negb]. rewrite (located_GB b0 _ _ _ HV).
      split; [reflexivity|]. split; [intros _; destruct ka, (eval_close raw); reflexivity|]. split; [discriminate|]. split; [reflexivity|].
      exact (after_drop_GB b0 _ _ _ HV).
    + (* BErr *)
      cbn [o_resps o_keep o_ok o_rest o_eof existsb rs_close ev orb negb].
      split; [reflexivity|]. split; [discriminate|]. split; [reflexivity|]. split; [reflexivity|].
      exact (after_drop_GB b0 _ _ _ HV).
    + (* BErrAfter *)
      cbn [o_resps o_keep o_ok o_rest o_eof existsb rs_close ev orb negb].
      split; [reflexivity|]. split; [discriminate|]. split; [reflexivity|]. split; [reflexivity|].
      exact (after_drop_GB b0 _ _ _ HV).
    + (* BClose *)
      cbn [o_resps o_keep o_ok o_rest o_eof existsb rs_close ev orb negb]. rewrite (located_GB b0 _ _ _ HV).
      split; [reflexivity|]. split; [intros _; destruct ka, (eval_close raw); reflexivity|]. split; [discriminate|]. split; [reflexivity|].
      exact (after_drop_GB b0 _ _ _ HV).
    + (* BReader *)
      cbn [o_resps o_keep o_ok o_rest o_eof existsb rs_close ev orb negb]. rewrite (located_GB b0 _ _ _ HV).
      split; [reflexivity|]. split; [intros _; destruct ka, (eval_close raw); reflexivity|]. split; [discriminate|]. split; [reflexivity|].
      exact (after_drop_GB b0 _ _ _ HV).
  - (* the hook answers *)
    cbn [o_resps o_keep o_ok o_rest o_eof existsb rs_close ev orb negb]. rewrite (located_GB b0 _ _ _ HV).
    split; [reflexivity|]. split; [intros _; destruct ka, (eval_close raw); reflexivity|]. split; [discriminate|]. split; [reflexivity|].
    exact (after_drop_GB b0 _ _ _ HV).
  - cbn [o_resps o_keep o_ok o_rest o_eof existsb rs_close ev orb negb].
    split; [reflexivity|]. split; [intros _; destruct ka, (eval_close raw); reflexivity|]. split; [discriminate|]. split; [reflexivity|].
    exact (after_drop_GB b0 _ _ _ HV).
Qed.

(* ------------------------------------------------------------------ the connection *)
Section ConnAny.
Variable a : app.
Variable N : nat.
Hypothesis Npos : 0 < N.

(* the request at the front of the stream, its body readable: one step of both sides *)
Lemma conn_step_any sg r payload rest :
  parse_request (firstn N (concat sg)) = Ok r ->
  rfc_framing (raw_fields (firstn N (concat sg))) <> FReject ->
  view_body (rfc_framing (raw_fields (firstn N (concat sg)))) (skipn (q_offset r) (concat sg)) = BodyOk payload rest ->
  let o := handle_one_request a N true sg in
  let '(resps, keep, rest') := spec_one a r (raw_fields (firstn N (concat sg))) (skipn (q_offset r) (concat sg)) in
  o_resps o = resps /\ o_eof o = false /\
  (o_ok o = false -> keep = false) /\
  (o_ok o = true -> o_keep o = keep) /\
  (keep = true -> existsb rs_close resps = false /\ rest' = rest /\
     concat (o_rest o) = rest /\ length rest < length (concat sg)).
Proof.
  intros Hp Hne Hv. set (s := concat sg) in *.
  set (raw := raw_fields (firstn N s)) in *.
  pose proof (offset_pos _ _ Hp) as Hoff0.
  destruct (view_suffix _ _ _ _ Hv) as [ah' Hah].
  pose proof (one_request_any a N true sg r raw payload rest Hp eq_refl Hne Hv) as G. cbv zeta in G |- *.
  fold s in G.
  destruct (spec_one a r raw (skipn (q_offset r) s)) as [[resps keep] rest'] eqn:Esp.
  destruct G as [G1 [G2 [G3 [G4 G5]]]].
  split; [exact G1|]. split; [exact G4|]. split; [exact G3|]. split.
  { intros Hok. rewrite (G2 Hok). destruct keep eqn:Ek; [|reflexivity].
    destruct (spec_keep_no_close a r raw _ payload rest resps true rest' Hne Hv Esp eq_refl) as [Hc _].
    rewrite Hc. reflexivity. }
  intros Hk. subst keep.
  destruct (spec_keep_no_close a r raw _ payload rest resps true rest' Hne Hv Esp eq_refl) as [Hc Hr].
  split; [exact Hc|]. split; [exact Hr|]. split; [exact G5|].
  rewrite <- (firstn_skipn (q_offset r) s), Hah, !app_length.
  destruct (request_fields_safe _ _ Hp) as [Hoff1 _]. rewrite firstn_length in Hoff1.
  rewrite firstn_length. lia.
Qed.

Lemma conn_gen_any : forall F1 sg acc F2 nreq,
  length (concat sg) < F1 -> length (concat sg) < F2 ->
  snd (spec_conn_f F1 a N (concat sg) acc) <> EUnspec ->
  c_resps (handle_connection F2 a N true sg acc nreq) = fst (spec_conn_f F1 a N (concat sg) acc) /\
  (c_waiting (handle_connection F2 a N true sg acc nreq) = true <-> snd (spec_conn_f F1 a N (concat sg) acc) = EWaiting).
Proof.
  induction F1 as [|F1 IH]; intros sg acc F2 nreq HF1 HF2 Hun; [lia|].
  destruct F2 as [|F2]; [lia|].
  assert (Hhf : length (concat sg) < hfuel sg) by (unfold hfuel; lia).
  cbn [spec_conn_f] in Hun |- *.
  destruct (concat sg) as [|x s'] eqn:Es.
  - (* nothing more to read *)
    assert (Hr : fst (read_request (hfuel sg) N [] sg) = REof).
    { apply read_request_eof; rewrite ?Es; cbn [firstn length]; try lia.
      destruct N; [lia|]. reflexivity. }
    destruct (hor_eof a N true sg Hr) as [O1 [O2 [O3 O4]]].
    destruct (hc_stop F2 a N true sg acc nreq O3 O2) as [C1 C2].
    rewrite C1, C2, O1, O4, app_nil_r. cbn [fst snd]. split; [reflexivity|]. split; reflexivity.
  - assert (Hsne : concat sg <> []) by (rewrite Es; discriminate).
    rewrite <- Es in *. clear Es x s'.
    set (s := concat sg) in *.
    destruct (parse_request (firstn N s)) as [r|e|f] eqn:Ep.
    + (* a head *)
      set (raw := raw_fields (firstn N s)) in *.
      assert (Hcase : rfc_framing raw = FReject \/ rfc_framing raw <> FReject)
        by (destruct (rfc_framing raw); (left; reflexivity) || (right; discriminate)).
      destruct Hcase as [Ef|Hne].
      { (* cannot be framed *)
        rewrite (unspec_reject a r raw _ Ef) in Hun |- *.
        destruct (hor_reject a N true sg r Ep Ef) as [O1 [O2 [O3 O4]]].
        destruct (hc_stop F2 a N true sg acc nreq O3 O2) as [C1 C2].
        unfold spec_one. rewrite Ef. cbn [fst snd].
        rewrite C1, C2, O1, O4. split; [reflexivity|]. split; discriminate. }
      rewrite (unspec_framed a r raw _ Hne) in Hun |- *.
      destruct (view_body (rfc_framing raw) (skipn (q_offset r) s)) as [payload rest| |] eqn:Ev;
        [ | | exfalso; apply Hun; reflexivity ].
      * (* readable body *)
        pose proof (conn_step_any sg r payload rest Ep Hne Ev) as St. cbv zeta in St. fold s raw in St.
        destruct (spec_one a r raw (skipn (q_offset r) s)) as [[resps keep] rest'] eqn:Esp.
        destruct St as [S1 [S2 [S4 [S5 S6]]]].
        destruct (o_ok (handle_one_request a N true sg)) eqn:Eok.
        -- destruct keep.
           ++ (* kept *)
              destruct (S6 eq_refl) as [Hc [Hr' [L2 L5]]].
              destruct (hc_cont F2 a N true sg acc nreq Eok (S5 eq_refl)) as [n' Hcont].
              rewrite Hcont, S1, Hc. cbn [negb andb]. subst rest'. rewrite <- L2 in Hun |- *.
              apply IH; [rewrite L2; lia|rewrite L2; lia|exact Hun].
           ++ (* not kept *)
              destruct (hc_stop F2 a N true sg acc nreq Eok (S5 eq_refl)) as [C1 C2].
              rewrite C1, C2, S1, S2. cbn [fst snd]. split; [reflexivity|]. split; discriminate.
        -- (* handler error *)
           rewrite (S4 eq_refl) in *.
           destruct (hc_err F2 a N true sg acc nreq Eok) as [C1 C2].
           rewrite C1, C2, S1. cbn [fst snd]. split; [reflexivity|]. split; discriminate.
      * (* unreadable body (fix F21): answered once, then the connection ends - on both sides *)
        assert (Hcov : match hook_of a r, behaviour_of a r with HProceed, BReadK _ => false | _, _ => true end = true).
        { destruct (hook_of a r); [destruct (behaviour_of a r)| |]; try reflexivity. exfalso. apply Hun. reflexivity. }
        assert (Hnu : match hook_of a r, behaviour_of a r with HProceed, BReadK _ => true | _, _ => false end = false).
        { destruct (hook_of a r); [destruct (behaviour_of a r)| |]; try reflexivity. discriminate Hcov. }
        rewrite Hnu in Hun |- *.
        destruct (hor_bad_body a N true sg r Ep Hne Ev Hcov) as [O1 [O2 [O3|[O3 O4]]]].
        -- destruct (hc_err F2 a N true sg acc nreq O3) as [C1 C2].
           destruct (spec_one_bad a r raw _ Hne Ev) as [rest' Esp]. rewrite Esp.
           cbn [fst snd]. rewrite C1, C2, O1. split; [reflexivity|]. split; discriminate.
        -- destruct (hc_stop F2 a N true sg acc nreq O3 O4) as [C1 C2].
           destruct (spec_one_bad a r raw _ Hne Ev) as [rest' Esp]. rewrite Esp.
           cbn [fst snd]. rewrite C1, C2, O1, O2. split; [reflexivity|]. split; discriminate.
    + (* no head *)
      assert (He : e = EEof \/ e <> EEof) by (destruct e; (left; reflexivity) || (right; discriminate)).
      destruct He as [He|He].
      * subst e. destruct (Nat.leb N (length s)) eqn:El.
        -- apply Nat.leb_le in El.
           pose proof (read_request_too_large (hfuel sg) N sg Ep El Hhf) as Hr.
           destruct (hor_too_large a N true sg Hr) as [O1 [O2 [O3 O4]]].
           destruct (hc_stop F2 a N true sg acc nreq O3 O2) as [C1 C2].
           rewrite C1, C2, O1, O4. cbn [fst snd]. split; [reflexivity|]. split; discriminate.
        -- apply Nat.leb_gt in El.
           pose proof (read_request_eof (hfuel sg) N sg Ep El Hhf) as Hr.
           destruct (hor_eof a N true sg Hr) as [O1 [O2 [O3 O4]]].
           destruct (hc_stop F2 a N true sg acc nreq O3 O2) as [C1 C2].
           rewrite C1, C2, O1, O4, app_nil_r. cbn [fst snd]. split; [reflexivity|]. split; reflexivity.
      * assert (Hr : fst (read_request (hfuel sg) N [] sg) = RInvalid).
        { apply read_request_invalid; [intros r0; fold s; rewrite Ep; discriminate|fold s; rewrite Ep; congruence|exact Hhf]. }
        destruct (hor_invalid a N true sg Hr) as [O1 [O2 [O3 O4]]].
        destruct (hc_stop F2 a N true sg acc nreq O3 O2) as [C1 C2].
        rewrite C1, C2, O1, O4. destruct e; try congruence; cbn [fst snd]; (split; [reflexivity|]; split; discriminate).
    + exfalso. destruct (parsers_never_fault (firstn N s)) as [Hq _]. exact (Hq f Ep).
Qed.

End ConnAny.

(* ------------------------------------------------------------------ the pinned statement, C07_transcript_any *)
(* every history, however the bytes are segmented (segments without bytes included: a read skips them), gives
   exactly the sequential transcript *)
Theorem conn_transcript_any : forall a N segs,
  0 < N ->
  snd (spec_conn a N (concat segs)) <> EUnspec ->
  c_resps (serve_conn a N segs) = fst (spec_conn a N (concat segs)) /\
  (c_waiting (serve_conn a N segs) = true <-> snd (spec_conn a N (concat segs)) = EWaiting).
Proof.
  intros a N segs HN Hun. unfold serve_conn, spec_conn in *.
  apply (conn_gen_any a N HN); try assumption; lia.
Qed.

Print Assumptions one_request_any.
Print Assumptions conn_transcript_any.
