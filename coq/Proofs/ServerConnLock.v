(* List-level lemmas about the decidable predicates of Spec/ConnKnown.v (req_infos, boundaries,
   lockstep): peel off the first request of a connection. *)
From KV Require Import Lib.Bytes Model.Headers Model.Parser Model.Body Model.Server
  Spec.HeaderStore Spec.HttpGrammar Spec.ChunkedSpec Spec.Framing Spec.ConnSpec Spec.ConnKnown.
From KV Require Import Proofs.ParserSafe.

(* ------------------------------------------------------------------ generic list facts *)
Lemma app_eq_len {A} : forall (x y u v : list A),
  x ++ y = u ++ v -> length x = length u -> x = u /\ y = v.
Proof.
  induction x as [|c x IH]; intros y u v H HL; destruct u as [|d u]; cbn [length] in HL; try discriminate.
  - cbn [List.app] in H. auto.
  - cbn [List.app] in H. injection H as -> H. destruct (IH y u v H) as [-> ->]; [lia|]. auto.
Qed.

(* ------------------------------------------------------------------ boundaries *)
Lemma boundaries_shift : forall sg p, boundaries sg p = map (Nat.add p) (boundaries sg 0).
Proof.
  induction sg as [|g sg IH]; intros p; cbn [boundaries map]; [reflexivity|].
  rewrite (IH (p + length g)), (IH (0 + length g)), map_map.
  replace (p + (0 + length g)) with (p + length g) by lia. f_equal.
  apply map_ext. intros; lia.
Qed.

Lemma boundaries_app : forall x y p,
  boundaries (x ++ y) p = boundaries x p ++ boundaries y (p + length (concat x)).
Proof.
  induction x as [|g x IH]; intros y p; cbn [List.app boundaries concat length].
  - rewrite Nat.add_0_r. reflexivity.
  - f_equal. rewrite IH. f_equal. f_equal. rewrite app_length. lia.
Qed.

Lemma boundaries_le : forall x p n, In n (boundaries x p) -> n <= p + length (concat x).
Proof.
  induction x as [|g x IH]; intros p n H; cbn [boundaries concat] in *; [destruct H|].
  rewrite app_length. destruct H as [H|H]; [lia|]. apply IH in H. lia.
Qed.

Lemma boundaries_last : forall sg p, sg <> [] -> In (p + length (concat sg)) (boundaries sg p).
Proof.
  induction sg as [|g sg IH]; intros p H; [congruence|].
  cbn [boundaries concat]. rewrite app_length. destruct sg as [|g' sg].
  - left. cbn [concat length]. lia.
  - right. replace (p + (length g + length (concat (g' :: sg)))) with ((p + length g) + length (concat (g' :: sg))) by lia.
    apply IH. discriminate.
Qed.

(* the shortest prefix of the segments whose concatenation has a given boundary length *)
Lemma boundary_split : forall sg n, In n (boundaries sg 0) -> 0 < n ->
  exists r l, sg = r ++ l /\ length (concat r) = n /\ (forall pre, r <> pre ++ [[]]).
Proof.
  induction sg as [|g sg IH]; intros n Hin Hn; cbn [boundaries] in Hin; [destruct Hin|].
  destruct (Nat.eq_dec n (length g)) as [E|E].
  - exists [g], sg. split; [reflexivity|]. split; [cbn [concat]; rewrite app_nil_r; auto|].
    intros pre Hp. destruct pre as [|x pre]; cbn [List.app] in Hp.
    + injection Hp as ->. cbn [length] in E. lia.
    + injection Hp as _ Hp. destruct pre; discriminate.
  - destruct Hin as [Hin|Hin]; [lia|]. rewrite boundaries_shift in Hin.
    apply in_map_iff in Hin. destruct Hin as [m [Hm Hin]].
    destruct (IH m Hin ltac:(lia)) as [r [l [H1 [H2 H3]]]].
    exists (g :: r), l. split; [cbn [List.app]; f_equal; auto|].
    split; [cbn [concat]; rewrite app_length; lia|].
    intros pre Hp. destruct pre as [|x pre]; cbn [List.app] in Hp; injection Hp as Hg Hr.
    + subst r. cbn [concat length] in H2. lia.
    + exact (H3 _ Hr).
Qed.

Definition shift_ri (p : nat) (ri : reqinfo) : reqinfo :=
  {| ri_end := p + ri_end ri; ri_chunked := ri_chunked ri; ri_readable := ri_readable ri;
     ri_reads_body := ri_reads_body ri |}.

Section Lock.
(* the rest reported by the body recogniser is a suffix of its input *)
Hypothesis view_suffix : forall f ah p rest, view_body f ah = BodyOk p rest -> exists ah', ah = ah' ++ rest.
(* an accepted head is not empty *)
Hypothesis offset_pos : forall s r, parse_request s = Ok r -> 0 < q_offset r.
Variable a : app.
Variable N : nat.

(* every request consumes at least its head *)
Lemma body_rest_lt : forall s r f p rest,
  parse_request (firstn N s) = Ok r ->
  view_body f (skipn (q_offset r) s) = BodyOk p rest ->
  length rest + q_offset r <= length s /\ length rest < length s.
Proof.
  intros s r f p rest Hp Hv.
  pose proof (offset_pos _ _ Hp) as H0.
  destruct (request_fields_safe _ _ Hp) as [H1 _].
  rewrite firstn_length in H1.
  destruct (view_suffix _ _ _ _ Hv) as [ah' E].
  apply (f_equal (@length _)) in E. rewrite skipn_length, app_length in E. lia.
Qed.

(* unfolding lemmas *)
Lemma req_infos_ok : forall fuel s pos r p rest,
  s <> [] ->
  parse_request (firstn N s) = Ok r ->
  rfc_framing (raw_fields (firstn N s)) <> FReject ->
  view_body (rfc_framing (raw_fields (firstn N s))) (skipn (q_offset r) s) = BodyOk p rest ->
  req_infos (S fuel) a N s pos =
  {| ri_end := pos + (length s - length rest);
     ri_chunked := match rfc_framing (raw_fields (firstn N s)) with FChunked => true | _ => false end;
     ri_readable := true; ri_reads_body := reads_body a r |}
  :: req_infos fuel a N rest (pos + (length s - length rest)).
Proof.
  intros fuel s pos r p rest Hne Hp Hf Hv. cbn [req_infos].
  destruct s as [|b s]; [congruence|]. rewrite Hp. cbv zeta.
  destruct (rfc_framing (raw_fields (firstn N (b :: s)))) eqn:Ef; try congruence; rewrite Hv; reflexivity.
Qed.

Lemma req_infos_bad : forall fuel s pos r,
  s <> [] ->
  parse_request (firstn N s) = Ok r ->
  rfc_framing (raw_fields (firstn N s)) <> FReject ->
  view_body (rfc_framing (raw_fields (firstn N s))) (skipn (q_offset r) s) = BodyBad ->
  req_infos (S fuel) a N s pos =
  [{| ri_end := pos + length s;
      ri_chunked := match rfc_framing (raw_fields (firstn N s)) with FChunked => true | _ => false end;
      ri_readable := false; ri_reads_body := reads_body a r |}].
Proof.
  intros fuel s pos r Hne Hp Hf Hv. cbn [req_infos].
  destruct s as [|b s]; [congruence|]. rewrite Hp. cbv zeta.
  destruct (rfc_framing (raw_fields (firstn N (b :: s)))) eqn:Ef; try congruence; rewrite Hv; reflexivity.
Qed.

(* fuel independence and position shift of req_infos *)
Lemma req_infos_fuel : forall f1 f2 s pos, length s < f1 -> length s < f2 ->
  req_infos f1 a N s pos = req_infos f2 a N s pos.
Proof.
  induction f1 as [|f1 IH]; intros f2 s pos H1 H2; [lia|]. destruct f2 as [|f2]; [lia|].
  cbn [req_infos]. destruct s as [|b s]; [reflexivity|].
  destruct (parse_request (firstn N (b :: s))) as [r|e|e] eqn:Hp; try reflexivity. cbv zeta.
  destruct (rfc_framing (raw_fields (firstn N (b :: s)))) eqn:Ef; try reflexivity;
    (destruct (view_body _ (skipn (q_offset r) (b :: s))) as [p rest| |] eqn:Hv; try reflexivity;
     f_equal; destruct (body_rest_lt _ _ _ _ _ Hp Hv) as [_ Hlt]; apply IH; lia).
Qed.

Lemma req_infos_shift_ri : forall f s pos,
  req_infos f a N s pos = map (shift_ri pos) (req_infos f a N s 0).
Proof.
  induction f as [|f IH]; intros s pos; [reflexivity|].
  cbn [req_infos]. destruct s as [|b s]; [reflexivity|].
  destruct (parse_request (firstn N (b :: s))) as [r|e|e] eqn:Hp; try reflexivity. cbv zeta.
  destruct (rfc_framing (raw_fields (firstn N (b :: s)))) eqn:Ef; try reflexivity;
    (destruct (view_body _ (skipn (q_offset r) (b :: s))) as [p rest| |] eqn:Hv; try reflexivity;
     cbn [map shift_ri ri_end ri_chunked ri_readable ri_reads_body];
     f_equal;
     rewrite (IH rest (pos + _)), (IH rest (0 + _)), map_map; apply map_ext;
     intros ri; unfold shift_ri; cbn [ri_end ri_chunked ri_readable ri_reads_body]; f_equal; lia).
Qed.

Lemma req_infos_shift : forall f s pos,
  req_infos f a N s pos =
  map (fun ri => {| ri_end := pos + ri_end ri; ri_chunked := ri_chunked ri; ri_readable := ri_readable ri; ri_reads_body := ri_reads_body ri |})
      (req_infos f a N s 0).
Proof. exact req_infos_shift_ri. Qed.

(* every request ends strictly after its start *)
Lemma req_infos_end_pos : forall f s pos ri, In ri (req_infos f a N s pos) -> pos < ri_end ri.
Proof.
  induction f as [|f IH]; intros s pos ri Hin; [destruct Hin|].
  cbn [req_infos] in Hin. destruct s as [|b s]; [destruct Hin|].
  destruct (parse_request (firstn N (b :: s))) as [r|e|e] eqn:Hp; try (destruct Hin; fail). cbv zeta in Hin.
  destruct (rfc_framing (raw_fields (firstn N (b :: s)))) eqn:Ef; try (destruct Hin; fail);
    (destruct (view_body _ (skipn (q_offset r) (b :: s))) as [p rest| |] eqn:Hv; try (destruct Hin; fail);
     [ destruct (body_rest_lt _ _ _ _ _ Hp Hv) as [_ Hlt];
       destruct Hin as [<-|Hin]; [cbn [ri_end]; lia | apply IH in Hin; lia]
     | destruct Hin as [<-|[]]; cbn [ri_end length]; lia ]).
Qed.

(* the infos after the first request, re-based at the start of the rest *)
Lemma req_infos_tail : forall L rest p, length rest < L ->
  req_infos L a N rest p = map (shift_ri p) (req_infos (S (length rest)) a N rest 0).
Proof.
  intros L rest p H. rewrite (req_infos_fuel L (S (length rest))) by lia. apply req_infos_shift_ri.
Qed.

(* peel off the first request when its body is readable: the stream splits at a segment boundary *)
Lemma lockstep_split : forall sg r payload rest pfx,
  concat sg = pfx ++ rest -> pfx <> [] ->
  parse_request (firstn N (concat sg)) = Ok r ->
  rfc_framing (raw_fields (firstn N (concat sg))) <> FReject ->
  view_body (rfc_framing (raw_fields (firstn N (concat sg)))) (skipn (q_offset r) (concat sg)) = BodyOk payload rest ->
  lockstep a N sg = true ->
  exists reqsegs later, sg = reqsegs ++ later /\ concat reqsegs = pfx /\ concat later = rest /\
    (forall pre, reqsegs <> pre ++ [[]]) /\
    lockstep a N later = true.
Proof.
  intros sg r payload rest pfx Hs Hne Hp Hf Hv Hl.
  unfold lockstep in Hl. cbv zeta in Hl.
  assert (Hsne : concat sg <> []). { rewrite Hs. destruct pfx; [congruence|discriminate]. }
  assert (Hpl : 0 < length pfx). { destruct pfx; [congruence|cbn [length]; lia]. }
  assert (HL : length (concat sg) = length pfx + length rest) by (rewrite Hs, app_length; lia).
  rewrite (req_infos_ok (length (concat sg)) (concat sg) 0 r payload rest Hsne Hp Hf Hv) in *.
  replace (0 + (length (concat sg) - length rest)) with (length pfx) in * by lia.
  rewrite (req_infos_tail (length (concat sg)) rest (length pfx)) in * by lia.
  cbn [forallb ri_end] in Hl. apply andb_true_iff in Hl. destruct Hl as [Hl0 Hl1].
  assert (Hb : In (length pfx) (boundaries sg 0)).
  { apply orb_true_iff in Hl0. destruct Hl0 as [Hl0|Hl0].
    - apply Nat.leb_le in Hl0. replace (length pfx) with (0 + length (concat sg)) by lia.
      apply boundaries_last. intro; subst sg; apply Hsne; reflexivity.
    - apply existsb_exists in Hl0. destruct Hl0 as [x [Hx1 Hx2]]. apply Nat.eqb_eq in Hx2. subst x; auto. }
  destruct (boundary_split sg (length pfx) Hb Hpl) as [rs [lt [H1 [H2 H3]]]].
  assert (Hc : concat rs = pfx /\ concat lt = rest).
  { apply app_eq_len; auto. pose proof Hs as Hs2. rewrite H1, concat_app in Hs2. exact Hs2. }
  destruct Hc as [Hc1 Hc2].
  exists rs, lt. split; [exact H1|]. split; [exact Hc1|]. split; [exact Hc2|]. split; [exact H3|].
  unfold lockstep. rewrite Hc2. apply forallb_forall. intros ri Hri.
  rewrite forallb_forall in Hl1. specialize (Hl1 (shift_ri (length pfx) ri) (in_map _ _ _ Hri)).
  pose proof (req_infos_end_pos _ _ _ _ Hri) as Hpos.
  cbn [shift_ri ri_end] in Hl1. apply orb_true_iff in Hl1. apply orb_true_iff.
  destruct Hl1 as [Hl1|Hl1].
  + left. apply Nat.leb_le in Hl1. apply Nat.leb_le. lia.
  + right. apply existsb_exists in Hl1. destruct Hl1 as [x [Hx1 Hx2]]. apply Nat.eqb_eq in Hx2. subst x.
    rewrite H1, boundaries_app in Hx1. apply in_app_or in Hx1. destruct Hx1 as [Hx1|Hx1].
    * apply boundaries_le in Hx1. lia.
    * rewrite boundaries_shift in Hx1. apply in_map_iff in Hx1. destruct Hx1 as [m [Hm Hin]].
      apply existsb_exists. exists m. split; [exact Hin|]. apply Nat.eqb_eq. lia.
Qed.
End Lock.

Print Assumptions lockstep_split.
Print Assumptions req_infos_fuel.
Print Assumptions req_infos_shift.
