(* Completeness of the RESPONSE-head parser: every rendered well-formed status head
   ([rfc_status_head], Spec/StatusGrammar.v), followed by any bytes, is accepted and decoded exactly.
   The header section is the one of requests ([parse_headers] is shared): Proofs/ParserCompleteHdr.v.
   As for requests, the head must not carry invalid or conflicting Content-Length fields
   ([cl_consistent]): [parse_headers] rejects those (RFC 9112 6.3), see [response_complete_cl_refuted]. *)
From KV Require Import Lib.Bytes Model.Headers Model.Parser Spec.HttpGrammar Spec.StatusGrammar
  Spec.HeaderStore Spec.ClSpec
  Proofs.ParserCompleteBase Proofs.ParserCompleteMethod Proofs.ParserCompleteHdr Proofs.ParserComplete.

(* ------------------------------------------------------------------ byte classes, digits *)
Lemma rc_reason_char_byte : forall b, is_reason_char b = true -> is_reason_byte b = true.
Proof. pc_bytes. Qed.
Lemma rc_reason_char_ncr : forall b, is_reason_char b = true -> Byte.eqb b x0d = false.
Proof. pc_bytes. Qed.
Lemma rc_reason_char_ascii : forall b, is_reason_char b = true -> is_ascii b = true.
Proof. pc_bytes. Qed.

Lemma rc_digit d : (d <? 10)%N = true ->
  is_digit (digit_byte d) = true /\ (b2n (digit_byte d) - 48)%N = d.
Proof.
  intros H. apply N.ltb_lt in H.
  assert (Hd : d = 0%N \/ d = 1%N \/ d = 2%N \/ d = 3%N \/ d = 4%N \/ d = 5%N \/ d = 6%N \/ d = 7%N \/
               d = 8%N \/ d = 9%N) by lia.
  repeat (destruct Hd as [Hd|Hd]; [subst d; vm_compute; split; reflexivity|]).
  subst d. vm_compute. split; reflexivity.
Qed.

(* ------------------------------------------------------------------ the reason phrase *)
Lemma rc_reason_scan_cons c d q i :
  reason_scan (c :: d :: q) i =
  if Byte.eqb c x0d && Byte.eqb d x0a then Ok i
  else if is_reason_byte c then reason_scan (d :: q) (S i) else Err EStatus.
Proof. reflexivity. Qed.

Lemma rc_reason_scan : forall reason i more, forallb is_reason_char reason = true ->
  reason_scan (reason ++ x0d :: x0a :: more) i = Ok (i + length reason).
Proof.
  induction reason as [|c r IH]; intros i more H.
  - cbn [app length]. rewrite rc_reason_scan_cons, !pc_eqb_refl. cbn [andb]. rewrite Nat.add_0_r. reflexivity.
  - cbn [forallb] in H. apply andb_true_iff in H. destruct H as [Hc H].
    cbn [app]. destruct (r ++ x0d :: x0a :: more) as [|d q] eqn:E.
    { destruct r; discriminate E. }
    rewrite rc_reason_scan_cons, (rc_reason_char_ncr c Hc), (rc_reason_char_byte c Hc). cbn [andb].
    rewrite <- E, (IH (S i) more H). cbn [length]. f_equal. lia.
Qed.

(* ------------------------------------------------------------------ the status line *)
Lemma rc_status h t o reason more :
  (h <? 10)%N = true -> (t <? 10)%N = true -> (o <? 10)%N = true ->
  forallb is_reason_char reason = true ->
  parse_response_status (digit_byte h :: digit_byte t :: digit_byte o :: x20 :: (reason ++ x0d :: x0a :: more)) =
  Ok ((h * 100 + t * 10 + o)%N, reason, more).
Proof.
  intros Hh Ht Ho Hr.
  destruct (rc_digit h Hh) as [Dh Vh]. destruct (rc_digit t Ht) as [Dt Vt]. destruct (rc_digit o Ho) as [Do Vo].
  unfold parse_response_status, digit_at. cbn [nth_error].
  rewrite Dh, Dt, Do. cbn [bind]. rewrite Vh, Vt, Vo.
  rewrite pc_eqb_refl. cbn [negb skipn].
  rewrite (rc_reason_scan reason 0 more Hr). cbn [bind Nat.add].
  rewrite (pc_firstn_mid reason (x0d :: x0a :: more) _ eq_refl).
  unfold str_unchecked. rewrite (pc_forallb_impl _ _ _ rc_reason_char_ascii Hr). cbn [bind].
  replace (skipn (length reason + 2) (reason ++ x0d :: x0a :: more)) with more; [reflexivity|].
  change (reason ++ x0d :: x0a :: more) with (reason ++ [x0d; x0a] ++ more).
  rewrite app_assoc. symmetry. apply pc_skipn_mid. rewrite app_length. reflexivity.
Qed.

Lemma rc_render_shape h t :
  render_status h ++ t =
  bs "HTTP/1." ++ (if t_minor h then x31 else x30) :: x20 ::
    digit_byte (t_hundreds h) :: digit_byte (t_tens h) :: digit_byte (t_ones h) :: x20 ::
      (t_reason h ++ x0d :: x0a :: (flat_map render_field (t_fields h) ++ x0d :: x0a :: t)).
Proof. unfold render_status, SP, CRLF. repeat rewrite <- app_assoc. reflexivity. Qed.

(* ------------------------------------------------------------------ response_complete *)
Theorem response_complete : forall h t,
  rfc_status_head h = true -> cl_consistent (status_field_pairs h) = true ->
  exists r, parse_response (render_status h ++ t) = Ok r /\
    r_version r = (if t_minor h then 1 else 0)%N /\
    r_code r = status_code h /\
    r_reason r = t_reason h /\
    r_hdrs r = headers_of (status_field_pairs h) /\
    r_offset r = length (render_status h).
Proof.
  intros h t Hh Hcl. unfold rfc_status_head in Hh.
  apply andb_true_iff in Hh. destruct Hh as [Hh Hfs].
  apply andb_true_iff in Hh. destruct Hh as [Hh Hreason].
  apply andb_true_iff in Hh. destruct Hh as [Hh H3].
  apply andb_true_iff in Hh. destruct Hh as [H1 H2].
  set (r3 := flat_map render_field (t_fields h) ++ x0d :: x0a :: t).
  set (r2 := digit_byte (t_hundreds h) :: digit_byte (t_tens h) :: digit_byte (t_ones h) :: x20 ::
             (t_reason h ++ x0d :: x0a :: r3)).
  pose proof (pc_parse_version (t_minor h) (x20 :: r2)) as Hv.
  pose proof (rc_status _ _ _ (t_reason h) r3 H1 H2 H3 Hreason) as Hst. fold r2 in Hst.
  change (status_field_pairs h) with (map pair_of (t_fields h)) in Hcl |- *.
  pose proof (pc_parse_headers (t_fields h) t Hfs Hcl) as Hhd. fold r3 in Hhd.
  exists {| r_version := (if t_minor h then 1 else 0)%N; r_code := status_code h; r_reason := t_reason h;
            r_hdrs := headers_of (map pair_of (t_fields h)); r_offset := length (render_status h) |}.
  split.
  - unfold parse_response.
    assert (Hv' : parse_version (render_status h ++ t) = Ok ((if t_minor h then 1 else 0)%N, x20 :: r2)).
    { rewrite rc_render_shape. exact Hv. }
    rewrite Hv'. cbn [bind]. rewrite pc_eqb_refl. cbn [negb]. rewrite Hst. cbn [bind].
    rewrite Hhd. cbn [bind]. rewrite pc_offset. cbn [bind]. reflexivity.
  - cbn [r_version r_code r_reason r_hdrs r_offset]. repeat split; reflexivity.
Qed.

(* the same with the Content-Length condition stated by the independent value grammar of
   Spec/HeaderStore.v (OWS 1*DIGIT OWS below 2^64) rather than by the model's parser *)
Theorem response_complete_rfc : forall h t,
  rfc_status_head h = true -> cl_consistent_rfc (status_field_pairs h) = true ->
  exists r, parse_response (render_status h ++ t) = Ok r /\
    r_version r = (if t_minor h then 1 else 0)%N /\
    r_code r = status_code h /\
    r_reason r = t_reason h /\
    r_hdrs r = headers_of (status_field_pairs h) /\
    r_offset r = length (render_status h).
Proof. intros h t Hr Hc. rewrite cl_consistent_rfc_eq in Hc. exact (response_complete h t Hr Hc). Qed.

(* ------------------------------------------------------------------ the side condition is needed *)
(* Without [cl_consistent] the statement is false, exactly as for requests: a well-formed head whose
   Content-Length fields disagree, or whose Content-Length is not a number, is rejected. *)
Definition rc_cl_conflict : status_head :=
  {| t_minor := true; t_hundreds := 2; t_tens := 0; t_ones := 0; t_reason := bs "OK";
     t_fields := [ {| f_name := bs "Content-Length"; f_ows := bs " "; f_value := bs "5" |};
                   {| f_name := bs "content-length"; f_ows := bs " "; f_value := bs "6" |} ] |}.
Definition rc_cl_invalid : status_head :=
  {| t_minor := true; t_hundreds := 2; t_tens := 0; t_ones := 0; t_reason := bs "OK";
     t_fields := [ {| f_name := bs "Content-Length"; f_ows := bs " "; f_value := bs "5, 5" |} ] |}.

Theorem response_complete_cl_refuted :
  exists h t, rfc_status_head h = true /\ cl_consistent (status_field_pairs h) = false /\
              parse_response (render_status h ++ t) = Err EHeader.
Proof. exists rc_cl_conflict, (bs "hello"). vm_compute. repeat split; reflexivity. Qed.

Theorem response_complete_cl_invalid_refuted :
  exists h t, rfc_status_head h = true /\ cl_consistent (status_field_pairs h) = false /\
              parse_response (render_status h ++ t) = Err EHeader.
Proof. exists rc_cl_invalid, (bs "hello"). vm_compute. repeat split; reflexivity. Qed.

(* ------------------------------------------------------------------ the side condition is exact *)
(* [cl_consistent] is not merely sufficient: a well-formed head that violates it is always rejected with
   EHeader, whatever follows.  So [rfc_status_head h && cl_consistent (status_field_pairs h)] is exactly
   the set of generated heads the parser accepts. *)
Lemma rc_cl_ok_some n fs : cl_ok (Some n) fs = all_eq n (cl_values fs).
Proof.
  induction fs as [|nv r IH]; [reflexivity|].
  rewrite pc_cl_values_cons. cbn [cl_ok].
  destruct (eq_ic (fst nv) CONTENT_LENGTH); [|exact IH].
  unfold all_eq. cbn [forallb]. fold (all_eq n (cl_values r)).
  destruct (parse_content_length (snd nv)) as [x|]; [|reflexivity].
  destruct (N.eqb x n) eqn:E; [|reflexivity]. apply N.eqb_eq in E. subst x. cbn [andb]. exact IH.
Qed.

Lemma rc_cl_ok_none fs : cl_ok None fs = cl_consistent fs.
Proof.
  unfold cl_consistent. induction fs as [|nv r IH]; [reflexivity|].
  rewrite pc_cl_values_cons. cbn [cl_ok].
  destruct (eq_ic (fst nv) CONTENT_LENGTH); [|exact IH].
  destruct (parse_content_length (snd nv)) as [x|]; [|reflexivity].
  apply rc_cl_ok_some.
Qed.

(* one iteration of the header loop on a rendered field line *)
Lemma rc_headers_step f fs fuel acc t :
  rfc_field f = true ->
  parse_headers_f (S fuel) acc (flat_map render_field (f :: fs) ++ x0d :: x0a :: t) =
  if eq_ic (f_name f) CONTENT_LENGTH &&
     match parse_content_length (f_value f), content_length acc with
     | None, _ => true
     | Some n, Some m => negb (N.eqb n m)
     | Some _, None => false
     end
  then Err EHeader
  else parse_headers_f fuel (add acc (f_name f) (f_value f)) (flat_map render_field fs ++ x0d :: x0a :: t).
Proof.
  intros Hf. cbn [flat_map].
  set (more := flat_map render_field fs ++ x0d :: x0a :: t).
  set (line := f_name f ++ x3a :: f_ows f ++ f_value f).
  assert (Ebuf : (render_field f ++ flat_map render_field fs) ++ x0d :: x0a :: t
                 = (line ++ [x0d]) ++ x0a :: more).
  { unfold render_field, CRLF, line, more. rewrite <- !app_assoc. cbn [app].
    rewrite <- !app_assoc. cbn [app]. reflexivity. }
  rewrite Ebuf. clear Ebuf.
  cbn [parse_headers_f].
  assert (Estrip : strip_prefix [x0d; x0a] ((line ++ [x0d]) ++ x0a :: more) = None).
  { unfold line. pose proof Hf as Hf'. unfold rfc_field in Hf'.
    apply andb_true_iff in Hf'. destruct Hf' as [Hf' _].
    apply andb_true_iff in Hf'. destruct Hf' as [Hf' _].
    apply andb_true_iff in Hf'. destruct Hf' as [Hf' _].
    apply andb_true_iff in Hf'. destruct Hf' as [Hne Hname].
    destruct (f_name f) as [|c nm]; [discriminate Hne|].
    cbn [forallb] in Hname. apply andb_true_iff in Hname. destruct Hname as [Hc _].
    cbn [app strip_prefix]. rewrite (pc_tchar_ncr c Hc). reflexivity. }
  rewrite Estrip. clear Estrip.
  rewrite (pc_find_index_skip (Byte.eqb x0a) (line ++ [x0d]) x0a more (pc_line_nlf f Hf) (pc_eqb_refl x0a)).
  rewrite app_length. cbn [length]. rewrite Nat.add_1_r.
  cbn [Nat.eqb Nat.sub]. rewrite Nat.sub_0_r.
  rewrite <- app_assoc. cbn [app].
  rewrite (pc_nth_mid line x0d (x0a :: more) _ eq_refl).
  rewrite pc_eqb_refl. cbn [negb].
  rewrite (pc_firstn_mid line (x0d :: x0a :: more) _ eq_refl).
  unfold line at 1. rewrite (pc_header_line f Hf). cbn [bind].
  replace (skipn (S (S (length line))) (line ++ x0d :: x0a :: more)) with more; [reflexivity|].
  change (line ++ x0d :: x0a :: more) with (line ++ [x0d] ++ x0a :: more).
  rewrite app_assoc. symmetry. apply pc_skipn_S_mid. rewrite app_length. cbn [length]. lia.
Qed.

Lemma rc_headers_loop_bad : forall fs fuel acc t,
  forallb rfc_field fs = true ->
  cl_ok (content_length acc) (map pair_of fs) = false ->
  length fs < fuel ->
  parse_headers_f fuel acc (flat_map render_field fs ++ x0d :: x0a :: t) = Err EHeader.
Proof.
  induction fs as [|f fs IH]; intros fuel acc t Hfs Hcl Hfuel; [discriminate Hcl|].
  destruct fuel as [|fuel]; [cbn [length] in Hfuel; lia|].
  cbn [forallb] in Hfs. apply andb_true_iff in Hfs. destruct Hfs as [Hf Hfs].
  rewrite (rc_headers_step f fs fuel acc t Hf).
  cbn [map cl_ok pair_of fst snd] in Hcl. fold pair_of in Hcl.
  assert (Hlen : length fs < fuel) by (cbn [length] in Hfuel; lia).
  destruct (eq_ic (f_name f) CONTENT_LENGTH) eqn:En; cbn [andb].
  - destruct (parse_content_length (f_value f)) as [x|] eqn:Ex; [|reflexivity].
    destruct (content_length acc) as [m|] eqn:Em.
    + destruct (N.eqb x m); cbn [andb negb] in Hcl |- *; [|reflexivity].
      apply IH; [exact Hfs| |exact Hlen]. rewrite pc_add_cl, En, Ex. exact Hcl.
    + apply IH; [exact Hfs| |exact Hlen]. rewrite pc_add_cl, En, Ex. exact Hcl.
  - apply IH; [exact Hfs| |exact Hlen]. rewrite pc_add_cl, En. exact Hcl.
Qed.

Theorem response_cl_inconsistent_rejected : forall h t,
  rfc_status_head h = true -> cl_consistent (status_field_pairs h) = false ->
  parse_response (render_status h ++ t) = Err EHeader.
Proof.
  intros h t Hh Hcl. unfold rfc_status_head in Hh.
  apply andb_true_iff in Hh. destruct Hh as [Hh Hfs].
  apply andb_true_iff in Hh. destruct Hh as [Hh Hreason].
  apply andb_true_iff in Hh. destruct Hh as [Hh H3].
  apply andb_true_iff in Hh. destruct Hh as [H1 H2].
  set (r3 := flat_map render_field (t_fields h) ++ x0d :: x0a :: t).
  set (r2 := digit_byte (t_hundreds h) :: digit_byte (t_tens h) :: digit_byte (t_ones h) :: x20 ::
             (t_reason h ++ x0d :: x0a :: r3)).
  pose proof (pc_parse_version (t_minor h) (x20 :: r2)) as Hv.
  pose proof (rc_status _ _ _ (t_reason h) r3 H1 H2 H3 Hreason) as Hst. fold r2 in Hst.
  change (status_field_pairs h) with (map pair_of (t_fields h)) in Hcl.
  rewrite <- rc_cl_ok_none in Hcl.
  assert (Hhd : parse_headers r3 = Err EHeader).
  { unfold parse_headers, r3. apply rc_headers_loop_bad; [exact Hfs|exact Hcl|].
    rewrite app_length. pose proof (pc_fields_length (t_fields h)). lia. }
  unfold parse_response. rewrite rc_render_shape. fold r3. fold r2. rewrite Hv. cbn [bind].
  rewrite pc_eqb_refl. cbn [negb]. rewrite Hst. cbn [bind]. rewrite Hhd. reflexivity.
Qed.

(* ------------------------------------------------------------------ the two halves agree on generated heads *)
(* the strict recogniser accepts what the generator renders, with the same tokens: the two
   descriptions of the grammar are consistent with each other (via the parser, by soundness) *)
From KV Require Import Proofs.ResponseSound.
Corollary strict_status_head_render : forall h t,
  rfc_status_head h = true -> cl_consistent (status_field_pairs h) = true ->
  exists sh, strict_status_head (render_status h ++ t) = Some (sh, length (render_status h)) /\
    ss_minor sh = t_minor h /\ ss_code sh = status_code h /\ ss_reason sh = t_reason h /\
    headers_of (sfield_pairs (ss_fields sh)) = headers_of (status_field_pairs h).
Proof.
  intros h t Hh Hcl. destruct (response_complete h t Hh Hcl) as [r [Hp [Hv [Hc [Hr [Hhd Ho]]]]]].
  destruct (response_sound _ _ Hp) as [sh [Hs [Sv [Sc [Sr Sh]]]]].
  exists sh. rewrite <- Ho. split; [exact Hs|].
  split.
  - rewrite Hv in Sv. destruct (ss_minor sh), (t_minor h); (reflexivity || discriminate Sv).
  - split; [congruence|]. split; [congruence|]. congruence.
Qed.

(* ------------------------------------------------------------------ instances *)
Definition rc_ex_head : status_head :=
  {| t_minor := false; t_hundreds := 4; t_tens := 0; t_ones := 4;
     t_reason := bs "Not  Found (see /x?y=~)" ++ [x09];
     t_fields := [ {| f_name := bs "Server"; f_ows := bs " "; f_value := bs "khttp/0.1" |};
                   {| f_name := bs "Content-Length"; f_ows := [x09; x20]; f_value := bs "0042 " |};
                   {| f_name := bs "X-Empty"; f_ows := []; f_value := [] |};
                   {| f_name := bs "content-length"; f_ows := []; f_value := bs "42" |};
                   {| f_name := bs "Connection"; f_ows := bs "  "; f_value := bs "keep-alive, Close" |} ] |}.

Example rc_ex_wf : rfc_status_head rc_ex_head = true /\ cl_consistent (status_field_pairs rc_ex_head) = true.
Proof. vm_compute. split; reflexivity. Qed.

Example rc_ex_parse :
  match parse_response (render_status rc_ex_head ++ bs "body bytes") with
  | Ok r => N.eqb (r_version r) 0 && N.eqb (r_code r) 404 && bytes_eqb (r_reason r) (t_reason rc_ex_head) &&
            Nat.eqb (r_offset r) (length (render_status rc_ex_head)) &&
            match content_length (r_hdrs r) with Some n => N.eqb n 42 | None => false end &&
            Nat.eqb (length (stored (r_hdrs r))) 3 && connection_close (r_hdrs r)   (* a content length is kept as a number, not stored *)
  | _ => false
  end = true.
Proof. vm_compute. reflexivity. Qed.

(* empty reason, no fields, nothing behind the head *)
Example rc_ex_minimal :
  let h := {| t_minor := true; t_hundreds := 2; t_tens := 0; t_ones := 4; t_reason := []; t_fields := [] |} in
  rfc_status_head h = true /\ render_status h = bs "HTTP/1.1 204 " ++ [x0d; x0a; x0d; x0a] /\
  match parse_response (render_status h) with
  | Ok r => N.eqb (r_code r) 204 && bytes_eqb (r_reason r) [] && Nat.eqb (r_offset r) 17
  | _ => false
  end = true.
Proof. vm_compute. repeat split; reflexivity. Qed.

(* leading zeros of the code are kept on the wire and decoded *)
Example rc_ex_code_007 :
  let h := {| t_minor := true; t_hundreds := 0; t_tens := 0; t_ones := 7; t_reason := bs "Bond"; t_fields := [] |} in
  rfc_status_head h = true /\
  match parse_response (render_status h) with Ok r => N.eqb (r_code r) 7 | _ => false end = true.
Proof. vm_compute. split; reflexivity. Qed.

(* what the generator excludes: a digit above 9, a control byte or obs-text in the reason *)
Example rc_ex_not_wf :
  rfc_status_head {| t_minor := true; t_hundreds := 10; t_tens := 0; t_ones := 0; t_reason := []; t_fields := [] |} = false /\
  rfc_status_head {| t_minor := true; t_hundreds := 2; t_tens := 0; t_ones := 0; t_reason := [x0d]; t_fields := [] |} = false /\
  rfc_status_head {| t_minor := true; t_hundreds := 2; t_tens := 0; t_ones := 0; t_reason := [xe9]; t_fields := [] |} = false.
Proof. vm_compute. repeat split; reflexivity. Qed.

Print Assumptions response_complete.
Print Assumptions response_complete_rfc.
Print Assumptions response_complete_cl_refuted.
Print Assumptions response_complete_cl_invalid_refuted.
Print Assumptions response_cl_inconsistent_rejected.
Print Assumptions strict_status_head_render.
