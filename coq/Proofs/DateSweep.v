(* C18: machinery for the finite-domain proof that the code's day-number arithmetic ([civil]) agrees
   with the calendar successor function on every day 1970-01-01 .. 9999-12-31.  The domain is
   finite (2 932 897 days); it is cut into segments, each checked by one [vm_compute] (files
   DateShard_*.v) and glued here by [seg_ok_app]. *)
From KV Require Import Lib.Bytes Model.Date Spec.Calendar.
Local Open Scope Z_scope.

Definition valid (st : cdate) : bool :=
  let '(y, m, d, w) := st in
  (1970 <=? y) && (y <=? 9999) && (1 <=? m) && (m <=? 12) && (1 <=? d) && (d <=? 31) &&
  (1 <=? w) && (w <=? 7).

Definition eq4 (a b : cdate) : bool :=
  let '(a1, a2, a3, a4) := a in
  let '(b1, b2, b3, b4) := b in
  (a1 =? b1) && (a2 =? b2) && (a3 =? b3) && (a4 =? b4).

Lemma eq4_true a b : eq4 a b = true -> a = b.
Proof.
  destruct a as [[[a1 a2] a3] a4], b as [[[b1 b2] b3] b4]; unfold eq4.
  rewrite !andb_true_iff, !Z.eqb_eq. intros [[[-> ->] ->] ->]. reflexivity.
Qed.

Definition sstate := (Z * cdate * bool)%type.
Definition sstep (s : sstate) : sstate :=
  let '(d, st, ok) := s in (d + 1, next st, ok && eq4 (civil d) st && valid st).

(* run [n] days starting at day number [d0] with expected civil date [st0] *)
Definition sweep (n : N) (d0 : Z) (st0 : cdate) : sstate := N.iter n sstep (d0, st0, true).

(* what a successful segment establishes *)
Definition seg_ok (d : Z) (n : nat) (c c' : cdate) : Prop :=
  (forall k : nat, (k < n)%nat ->
     civil (d + Z.of_nat k) = Nat.iter k next c /\ valid (Nat.iter k next c) = true) /\
  Nat.iter n next c = c'.

Lemma iter_S {A} (f : A -> A) n x : Nat.iter (S n) f x = f (Nat.iter n f x).
Proof. reflexivity. Qed.

Lemma sweep_nat n d0 st0 :
  let '(d, st, ok) := Nat.iter n sstep (d0, st0, true) in
  d = d0 + Z.of_nat n /\ st = Nat.iter n next st0 /\
  (ok = true -> forall k, (k < n)%nat ->
     civil (d0 + Z.of_nat k) = Nat.iter k next st0 /\ valid (Nat.iter k next st0) = true).
Proof.
  induction n as [|n IH].
  - cbv [Nat.iter nat_rect]. split; [lia|]. split; [reflexivity|]. intros _ k Hk. lia.
  - rewrite !iter_S. destruct (Nat.iter n sstep (d0, st0, true)) as [[d st] ok].
    destruct IH as (Hd & Hst & Hok). unfold sstep. cbv beta iota.
    split; [lia|]. split; [rewrite Hst; reflexivity|].
    intros H k Hk. rewrite !andb_true_iff in H. destruct H as [[H1 H2] H3].
    destruct (Nat.eq_dec k n) as [->|Hne].
    + rewrite <- Hst, <- Hd. split; [apply eq4_true; exact H2 | exact H3].
    + apply Hok; [exact H1 | lia].
Qed.

Lemma sweep_sound (n : N) d0 st0 d1 st1 :
  sweep n d0 st0 = (d1, st1, true) -> seg_ok d0 (N.to_nat n) st0 st1.
Proof.
  unfold sweep. rewrite N2Nat.inj_iter. intros H.
  pose proof (sweep_nat (N.to_nat n) d0 st0) as S. rewrite H in S.
  destruct S as (_ & Hst & Hok). split; [apply Hok; reflexivity | symmetry; exact Hst].
Qed.

Lemma iter_plus {A} (f : A -> A) n m x : Nat.iter (n + m) f x = Nat.iter m f (Nat.iter n f x).
Proof.
  induction m as [|m IH].
  - rewrite Nat.add_0_r. reflexivity.
  - rewrite Nat.add_succ_r, !iter_S, IH. reflexivity.
Qed.

Lemma seg_ok_app d n m c c' c'' :
  seg_ok d n c c' -> seg_ok (d + Z.of_nat n) m c' c'' -> seg_ok d (n + m) c c''.
Proof.
  intros [A1 A2] [B1 B2]. split.
  - intros k Hk. destruct (Nat.lt_ge_cases k n) as [Hlt|Hge].
    + apply A1; exact Hlt.
    + replace k with (n + (k - n))%nat by lia. rewrite iter_plus, A2.
      replace (d + Z.of_nat (n + (k - n))) with (d + Z.of_nat n + Z.of_nat (k - n)) by lia.
      apply B1. lia.
  - rewrite iter_plus, A2. exact B2.
Qed.
