(* C08 groundwork: numerals printed by the printer read back as the numbers they stand for, partial
   vectored writes do not matter, the reader-consuming loops deliver the reader's whole content, and
   the printer's chunked output is a well-formed generated encoding (Spec/ChunkedSpec.v). *)
From KV Require Import Lib.Bytes Model.Headers Model.Printer Spec.HeaderStore Spec.ChunkedSpec Proofs.BodySpec.

(* ------------------------------------------------------------------ bytes and numbers *)
Lemma b2n_n2b m : (m < 256)%N -> b2n (n2b m) = m.
Proof.
  intros Hm. unfold b2n, n2b. rewrite N.mod_small by exact Hm.
  destruct (Byte.of_N m) as [b|] eqn:E.
  - apply Byte.to_of_N. exact E.
  - apply Byte.of_N_None_iff in E. lia.
Qed.

Lemma digit_is_digit d : (d < 10)%N -> is_digit (n2b (48 + d)) = true.
Proof.
  intros Hd. unfold is_digit. rewrite b2n_n2b by lia.
  apply andb_true_iff. split; apply N.leb_le; lia.
Qed.

Lemma digit_value d : (d < 10)%N -> (b2n (n2b (48 + d)) - 48 = d)%N.
Proof. intros Hd. rewrite b2n_n2b by lia. lia. Qed.

Lemma is_digit_plain b : is_digit b = true ->
  is_ows b = false /\ Byte.eqb b x0d = false /\ Byte.eqb b x0a = false.
Proof. intros H. destruct b; try discriminate H; repeat split; reflexivity. Qed.

(* ---- decimal *)
Lemma dec_value_app x : forall a y, dec_value a (x ++ y) = dec_value (dec_value a x) y.
Proof. induction x as [|b x IH]; intros a y; cbn [app dec_value]; [reflexivity|]. apply IH. Qed.

Lemma dec_digits_spec : forall fuel n acc, (n < 10 ^ N.of_nat fuel)%N ->
  exists pre, dec_digits fuel n acc = pre ++ acc /\ dec_value 0 pre = n /\ forallb is_digit pre = true /\
              (n <> 0%N -> pre <> []).
Proof.
  induction fuel as [|f IH]; intros n acc Hn.
  - exists []. cbn [dec_digits app dec_value forallb]. change (10 ^ N.of_nat 0)%N with 1%N in Hn.
    repeat split; try reflexivity; lia.
  - cbn [dec_digits]. destruct (N.eqb_spec n 0) as [E|E].
    + exists []. subst n. cbn [app dec_value forallb]. repeat split; try reflexivity. intros C; contradiction.
    + assert (n / 10 < 10 ^ N.of_nat f)%N as Hq.
      { rewrite Nat2N.inj_succ, N.pow_succ_r' in Hn. apply N.div_lt_upper_bound; lia. }
      destruct (IH (n / 10)%N (digit n :: acc) Hq) as (pre & E1 & E2 & E3 & _).
      exists (pre ++ [digit n]). rewrite E1, <- app_assoc. split; [reflexivity|].
      assert (n mod 10 < 10)%N as Hm by (apply N.mod_lt; lia).
      split; [|split].
      * rewrite dec_value_app, E2. cbn [dec_value]. unfold digit. rewrite digit_value by exact Hm.
        pose proof (N.div_mod n 10). lia.
      * rewrite forallb_app, E3. cbn [forallb]. unfold digit. rewrite digit_is_digit by exact Hm. reflexivity.
      * intros _ C. apply app_eq_nil in C. destruct C as [_ C]. discriminate C.
Qed.

Lemma u64_digits n : (n < 2 ^ 64)%N ->
  dec_value 0 (u64_to_ascii n) = n /\ forallb is_digit (u64_to_ascii n) = true /\ u64_to_ascii n <> [].
Proof.
  intros Hn. unfold u64_to_ascii. destruct (N.eqb_spec n 0) as [E|E].
  - subst n. repeat split; try reflexivity. intros C; discriminate C.
  - assert (n < 10 ^ N.of_nat 20)%N as Hb.
    { eapply N.lt_trans; [exact Hn|]. apply N.ltb_lt. vm_compute. reflexivity. }
    destruct (dec_digits_spec 20 n [] Hb) as (pre & E1 & E2 & E3 & E4).
    rewrite E1, app_nil_r. repeat split; [exact E2 | exact E3 | exact (E4 E)].
Qed.

(* a value without outer whitespace is its own OWS-stripped form *)
Definition no_outer_ows (v : bytes) : Prop :=
  match v with [] => True | b :: _ => is_ows b = false end /\
  match rev v with [] => True | b :: _ => is_ows b = false end.

Lemma drop_while_head (v : bytes) : match v with [] => True | b :: _ => is_ows b = false end ->
  drop_while is_ows v = v.
Proof. destruct v as [|b r]; intros H; [reflexivity|]. cbn [drop_while]. rewrite H. reflexivity. Qed.

Lemma strip_ows_id v : no_outer_ows v -> strip_ows v = v.
Proof.
  intros [H1 H2]. unfold strip_ows. rewrite (drop_while_head v H1), (drop_while_head (rev v) H2).
  apply rev_involutive.
Qed.

Lemma strip_ows_sp v : no_outer_ows v -> strip_ows (x20 :: v) = v.
Proof.
  intros H. unfold strip_ows. cbn [drop_while is_ows]. apply (strip_ows_id v H).
Qed.

Lemma digits_no_outer v : forallb is_digit v = true -> no_outer_ows v.
Proof.
  intros H. assert (forall b, In b v -> is_ows b = false) as K.
  { intros b Hb. rewrite forallb_forall in H. apply (is_digit_plain b (H b Hb)). }
  split.
  - destruct v as [|b r]; [exact I|]. apply K. left. reflexivity.
  - destruct (rev v) as [|b r] eqn:E; [exact I|]. apply K. apply in_rev. rewrite E. left. reflexivity.
Qed.

Lemma cl_value_digits v n : forallb is_digit v = true -> v <> [] -> dec_value 0 v = n -> (n < 2 ^ 64)%N ->
  cl_value v = Some n.
Proof.
  intros Hd Hne Hv Hn. unfold cl_value. rewrite (strip_ows_id v (digits_no_outer v Hd)).
  destruct v as [|b r]; [contradiction Hne; reflexivity|].
  rewrite Hd, Hv. apply N.ltb_lt in Hn. rewrite Hn. reflexivity.
Qed.

Lemma cl_value_u64 n : (n < 2 ^ 64)%N -> cl_value (u64_to_ascii n) = Some n.
Proof.
  intros Hn. destruct (u64_digits n Hn) as (E1 & E2 & E3). apply cl_value_digits; assumption.
Qed.

Lemma cl_value_lt v n : cl_value v = Some n -> (n < 2 ^ 64)%N.
Proof.
  unfold cl_value. destruct (strip_ows v) as [|b r]; [discriminate|].
  destruct (forallb is_digit (b :: r)); cbn [andb]; [|discriminate].
  destruct (N.ltb_spec (dec_value 0 (b :: r)) (2 ^ 64)) as [H|H]; [|discriminate].
  intros E. injection E as E. subst n. exact H.
Qed.

(* ---- hexadecimal *)
Lemma hexdigit_upper_ok d : (d < 16)%N ->
  hexdig (hexdigit_upper d) = true /\ hexdig_val (hexdigit_upper d) = d.
Proof.
  intros Hd.
  assert (d = 0 \/ d = 1 \/ d = 2 \/ d = 3 \/ d = 4 \/ d = 5 \/ d = 6 \/ d = 7 \/ d = 8 \/ d = 9 \/ d = 10 \/
          d = 11 \/ d = 12 \/ d = 13 \/ d = 14 \/ d = 15)%N as C by lia.
  repeat (destruct C as [C|C]; [subst d; split; vm_compute; reflexivity|]).
  subst d; split; vm_compute; reflexivity.
Qed.

Lemma hex_value_app x y : hex_value (x ++ y) = fold_left (fun a b => a * 16 + hexdig_val b)%N y (hex_value x).
Proof. unfold hex_value. apply fold_left_app. Qed.

Lemma hex_digits_spec : forall fuel n acc, (n < 16 ^ N.of_nat fuel)%N ->
  exists pre, hex_digits fuel n acc = pre ++ acc /\ hex_value pre = n /\ forallb hexdig pre = true /\
              (n <> 0%N -> pre <> []).
Proof.
  induction fuel as [|f IH]; intros n acc Hn.
  - exists []. cbn [hex_digits app forallb]. change (16 ^ N.of_nat 0)%N with 1%N in Hn.
    repeat split; try reflexivity; try lia. unfold hex_value. cbn [fold_left]. lia.
  - cbn [hex_digits]. destruct (N.eqb_spec n 0) as [E|E].
    + exists []. subst n. cbn [app forallb]. repeat split; try reflexivity. intros C; contradiction.
    + assert (n / 16 < 16 ^ N.of_nat f)%N as Hq.
      { rewrite Nat2N.inj_succ, N.pow_succ_r' in Hn. apply N.div_lt_upper_bound; lia. }
      destruct (IH (n / 16)%N (hexdigit_upper (n mod 16) :: acc) Hq) as (pre & E1 & E2 & E3 & _).
      exists (pre ++ [hexdigit_upper (n mod 16)]). rewrite E1, <- app_assoc. split; [reflexivity|].
      assert (n mod 16 < 16)%N as Hm by (apply N.mod_lt; lia).
      destruct (hexdigit_upper_ok _ Hm) as [K1 K2].
      split; [|split].
      * rewrite hex_value_app, E2. cbn [fold_left]. rewrite K2. pose proof (N.div_mod n 16). lia.
      * rewrite forallb_app, E3. cbn [forallb]. rewrite K1. reflexivity.
      * intros _ C. apply app_eq_nil in C. destruct C as [_ C]. discriminate C.
Qed.

Lemma hex_upper_ok n : (n < 2 ^ 64)%N ->
  hex_value (hex_upper n) = n /\ forallb hexdig (hex_upper n) = true /\ hex_upper n <> [].
Proof.
  intros Hn. unfold hex_upper. destruct (N.eqb_spec n 0) as [E|E].
  - subst n. repeat split; try reflexivity. intros C; discriminate C.
  - assert (n < 16 ^ N.of_nat 16)%N as Hb.
    { eapply N.lt_le_trans; [exact Hn|]. apply N.leb_le. vm_compute. reflexivity. }
    destruct (hex_digits_spec 16 n [] Hb) as (pre & E1 & E2 & E3 & E4).
    rewrite E1, app_nil_r. repeat split; [exact E2 | exact E3 | exact (E4 E)].
Qed.

(* ------------------------------------------------------------------ partial vectored writes *)
Theorem vectored_independent : forall head body accepted,
  write_vectored_bytes head body accepted = head ++ body.
Proof.
  intros head body accepted. unfold write_vectored_bytes.
  destruct (Nat.ltb (length body) INLINE_COPY_MAX); [reflexivity|].
  set (n := Nat.min accepted (length head + length body)).
  rewrite <- (firstn_skipn n (head ++ body)) at 2. f_equal.
  rewrite skipn_app. destruct (Nat.ltb_spec n (length head)) as [H|H].
  - replace (n - length head) with 0 by lia. reflexivity.
  - rewrite (skipn_all2 head) by exact H. reflexivity.
Qed.

(* ------------------------------------------------------------------ readers *)
Definition measure (r : reader) : nat := length r + length (concat r).

Lemma reader_fuel_measure r : measure r < reader_fuel r.
Proof. unfold reader_fuel, measure. lia. Qed.

Lemma rd_spec k : 0 < k -> forall r out r', rd k r = (out, r') ->
  concat r = out ++ concat r' /\ length out <= k /\ (out = [] -> concat r = []) /\
  (out <> [] -> measure r' < measure r).
Proof.
  intros Hk. induction r as [|p rest IH]; intros out r' E.
  - cbn [rd] in E. injection E as E1 E2. subst out r'. cbn [concat app length].
    split; [reflexivity|]. split; [lia|]. split; [reflexivity|]. intros C. contradiction C. reflexivity.
  - destruct p as [|b p].
    + cbn [rd] in E. destruct (IH out r' E) as (A1 & A2 & A3 & A4).
      cbn [concat app]. repeat split; try assumption.
      intros Hne. specialize (A4 Hne). unfold measure in *. cbn [length concat app]. lia.
    + cbn [rd] in E.
      pose proof (firstn_skipn k (b :: p)) as FS.
      assert (length (firstn k (b :: p)) <= k) as FL by apply firstn_le_length.
      assert (firstn k (b :: p) <> []) as FN.
      { destruct k as [|k']; [lia|]. cbn [firstn]. discriminate. }
      assert (length (skipn k (b :: p)) < length (b :: p)) as SL.
      { rewrite skipn_length. cbn [length]. lia. }
      destruct (skipn k (b :: p)) as [|c q] eqn:ES; injection E as E1 E2; subst out r'.
      * rewrite app_nil_r in FS. cbn [concat]. rewrite FS.
        repeat split; try reflexivity; try (rewrite <- FS; exact FL).
        -- intros C. rewrite <- FS in C. contradiction.
        -- intros _. unfold measure. cbn [length concat]. rewrite app_length. cbn [length]. lia.
      * cbn [concat]. rewrite <- FS at 1. rewrite <- app_assoc.
        repeat split; try reflexivity; try exact FL.
        -- intros C. contradiction.
        -- intros _. unfold measure. cbn [concat]. rewrite !app_length. cbn [length] in *. lia.
Qed.

Lemma firstn_app_le {A} n (a b : list A) : length a <= n -> firstn n (a ++ b) = a ++ firstn (n - length a) b.
Proof. intros H. rewrite firstn_app, (firstn_all2 a) by exact H. reflexivity. Qed.

Lemma take_all_spec : forall fuel limit r acc, measure r < fuel ->
  fst (take_all fuel limit r acc) = acc ++ firstn limit (concat r).
Proof.
  induction fuel as [|f IH]; intros limit r acc Hf; [lia|].
  cbn [take_all]. destruct (Nat.eqb_spec limit 0) as [E|E].
  - subst limit. cbn [fst firstn]. rewrite app_nil_r. reflexivity.
  - destruct (rd limit r) as [out r'] eqn:ER.
    destruct (rd_spec limit ltac:(lia) r out r' ER) as (A1 & A2 & A3 & A4).
    destruct out as [|b o].
    + cbn [fst]. rewrite (A3 eq_refl). destruct limit; cbn [firstn]; rewrite app_nil_r; reflexivity.
    + assert (measure r' < measure r) as Hm by (apply A4; discriminate).
      rewrite IH by lia. rewrite A1, firstn_app_le by exact A2. rewrite <- app_assoc. reflexivity.
Qed.

Lemma PROBE_MAX_pos : 0 < PROBE_MAX.
Proof. unfold PROBE_MAX. lia. Qed.
Lemma CHUNK_BUF_pos : 0 < CHUNK_BUF.
Proof. unfold CHUNK_BUF. lia. Qed.

Lemma probe_body_spec : forall fuel r acc p c r', measure r < fuel ->
  probe_body fuel r acc = (p, c, r') ->
  acc ++ concat r = p ++ concat r' /\ (c = true -> concat r' = []) /\ (c = false -> PROBE_MAX <= length p).
Proof.
  induction fuel as [|f IH]; intros r acc p c r' Hf E; [lia|].
  cbn [probe_body] in E. destruct (Nat.leb_spec PROBE_MAX (length acc)) as [HL|HL].
  - injection E as E1 E2 E3. subst p c r'. repeat split; try reflexivity; try discriminate. intros _. exact HL.
  - destruct (rd (PROBE_MAX - length acc) r) as [out r1] eqn:ER.
    destruct (rd_spec (PROBE_MAX - length acc) ltac:(lia) r out r1 ER) as (A1 & A2 & A3 & A4).
    destruct out as [|b o].
    + injection E as E1 E2 E3. subst p c r'. rewrite (A3 eq_refl) in *. cbn [app] in A1.
      repeat split; try discriminate.
      * rewrite <- A1. reflexivity.
      * intros _. symmetry. exact A1.
    + assert (measure r1 < measure r) as Hm by (apply A4; discriminate).
      destruct (IH r1 (acc ++ b :: o) p c r' ltac:(lia) E) as (B1 & B2 & B3).
      repeat split; try assumption. rewrite A1, app_assoc. exact B1.
Qed.

(* write_chunked emits one chunk per non-empty read and then the last chunk *)
Lemma write_chunked_spec : forall fuel r, measure r < fuel ->
  exists cs, write_chunked fuel r = flat_map Printer.chunk cs ++ LAST_CHUNK /\ concat cs = concat r /\
             Forall (fun c => c <> []) cs.
Proof.
  induction fuel as [|f IH]; intros r Hf; [lia|].
  cbn [write_chunked]. destruct (rd CHUNK_BUF r) as [out r'] eqn:ER.
  destruct (rd_spec CHUNK_BUF CHUNK_BUF_pos r out r' ER) as (A1 & A2 & A3 & A4).
  destruct out as [|b o].
  - exists []. cbn [flat_map app concat]. rewrite (A3 eq_refl). repeat split. constructor.
  - assert (measure r' < measure r) as Hm by (apply A4; discriminate).
    destruct (IH r' ltac:(lia)) as (cs & B1 & B2 & B3).
    exists ((b :: o) :: cs). rewrite B1. cbn [flat_map concat]. rewrite <- app_assoc, B2, A1.
    repeat split. constructor; [discriminate | exact B3].
Qed.

(* ------------------------------------------------------------------ the chunked output as a generated encoding *)
Definition mk_chunk (d : bytes) : ChunkedSpec.chunk :=
  {| k_size := hex_upper (N.of_nat (length d)); k_ext := []; k_data := d |}.
Definition mk_cbody (cs : list bytes) : cbody :=
  {| cb_chunks := map mk_chunk cs; cb_zeros := bs "0"; cb_ext := []; cb_trailers := [] |}.

Lemma enc_mk_cbody cs : enc_chunked (mk_cbody cs) = flat_map Printer.chunk cs ++ LAST_CHUNK.
Proof.
  unfold enc_chunked, mk_cbody. cbn [cb_chunks cb_zeros cb_ext cb_trailers flat_map app].
  f_equal. induction cs as [|c cs IH]; [reflexivity|].
  cbn [map flat_map]. rewrite IH. reflexivity.
Qed.

Lemma payload_mk_cbody cs : payload_of (mk_cbody cs) = concat cs.
Proof.
  unfold payload_of, mk_cbody. cbn [cb_chunks]. induction cs as [|c cs IH]; [reflexivity|].
  cbn [map flat_map concat k_data mk_chunk]. rewrite IH. reflexivity.
Qed.

Lemma wf_mk_chunk d : d <> [] -> (N.of_nat (length d) < 2 ^ 64)%N -> wf_chunk (mk_chunk d) = true.
Proof.
  intros Hne Hlt. destruct (hex_upper_ok _ Hlt) as (H1 & H2 & H3).
  unfold wf_chunk, mk_chunk. cbn [k_size k_ext k_data wf_ext]. rewrite H1, H2.
  apply N.ltb_lt in Hlt. rewrite Hlt, N.eqb_refl.
  destruct (hex_upper (N.of_nat (length d))) as [|x y]; [contradiction H3; reflexivity|].
  destruct d as [|a d]; [contradiction Hne; reflexivity|]. reflexivity.
Qed.

Lemma wf_mk_cbody cs : Forall (fun c => c <> []) cs -> (N.of_nat (length (concat cs)) < 2 ^ 64)%N ->
  wf_cbody (mk_cbody cs) = true.
Proof.
  intros Hne Hlt. unfold wf_cbody, mk_cbody. cbn [cb_chunks cb_zeros cb_ext cb_trailers].
  replace (forallb wf_chunk (map mk_chunk cs)) with true; [vm_compute; reflexivity|].
  symmetry. induction Hne as [|c cs Hc Hcs IH]; [reflexivity|].
  cbn [concat] in Hlt. rewrite app_length in Hlt.
  cbn [map forallb]. rewrite wf_mk_chunk by (try exact Hc; lia). apply IH. lia.
Qed.

Theorem chunks_decode cs rest : Forall (fun c => c <> []) cs -> (N.of_nat (length (concat cs)) < 2 ^ 64)%N ->
  spec_decode ((flat_map Printer.chunk cs ++ LAST_CHUNK) ++ rest) = Valid (concat cs) rest.
Proof.
  intros Hne Hlt. rewrite <- enc_mk_cbody, <- payload_mk_cbody.
  apply spec_decode_enc. apply wf_mk_cbody; assumption.
Qed.
