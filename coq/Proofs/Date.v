(* C18: format_http_date = IMF-fixdate of the calendar date, for every second 1970..9999, and the
   per-thread cache returns the formatted reading on every call. *)
From KV Require Import Lib.Bytes Model.Date Spec.Calendar Proofs.DateSweep Proofs.DateChain.
Local Open Scope Z_scope.

Lemma bytes_eqb_true a : forall b, bytes_eqb a b = true -> a = b.
Proof.
  induction a as [|x a IH]; intros [|y b] H; cbn [bytes_eqb] in H; try discriminate; [reflexivity|].
  apply andb_true_iff in H. destruct H as [H1 H2].
  apply byte_eqb_eq in H1. subst. f_equal. apply IH, H2.
Qed.

Lemma z_range_sweep (f : Z -> bool) (n : nat) :
  forallb f (map Z.of_nat (seq 0 n)) = true -> forall v, 0 <= v < Z.of_nat n -> f v = true.
Proof.
  intros H v Hv. rewrite forallb_forall in H. apply H.
  replace v with (Z.of_nat (Z.to_nat v)) by lia. apply in_map, in_seq. lia.
Qed.

Lemma write_2d_dec v : 0 <= v < 100 -> write_2d v = dec 2 v.
Proof.
  intros Hv. apply bytes_eqb_true.
  apply (z_range_sweep (fun v => bytes_eqb (write_2d v) (dec 2 v)) 100); [vm_compute; reflexivity | lia].
Qed.

Lemma write_4d_dec v : 0 <= v < 10000 -> write_4d v = dec 4 v.
Proof.
  intros Hv. apply bytes_eqb_true.
  apply (z_range_sweep (fun v => bytes_eqb (write_4d v) (dec 4 v)) (N.to_nat 10000));
    [vm_compute; reflexivity | rewrite N_nat_Z; lia].
Qed.

Lemma wday_name w : 1 <= w <= 7 -> slice3 WDAY_STRS ((w - 1) * 3) = day_name w.
Proof.
  intros H.
  assert (w = 1 \/ w = 2 \/ w = 3 \/ w = 4 \/ w = 5 \/ w = 6 \/ w = 7) as C by lia.
  repeat (destruct C as [-> | C]; [vm_compute; reflexivity|]). subst. vm_compute. reflexivity.
Qed.

Lemma mon_name m : 1 <= m <= 12 -> slice3 MON_STRS ((m - 1) * 3) = month_name m.
Proof.
  intros H.
  assert (m = 1 \/ m = 2 \/ m = 3 \/ m = 4 \/ m = 5 \/ m = 6 \/ m = 7 \/ m = 8 \/ m = 9 \/ m = 10 \/
          m = 11 \/ m = 12) as C by lia.
  repeat (destruct C as [-> | C]; [vm_compute; reflexivity|]). subst. vm_compute. reflexivity.
Qed.

Lemma time_parts s : 0 <= s < 86400 ->
  0 <= s / 3600 < 100 /\ (s mod 3600) / 60 = (s / 60) mod 60 /\ 0 <= (s / 60) mod 60 < 100 /\
  (s mod 3600) mod 60 = s mod 60 /\ 0 <= s mod 60 < 100.
Proof.
  intros H. repeat split; Z.div_mod_to_equations; lia.
Qed.

(* every day of the domain: the code's arithmetic gives the calendar date, and it is in range *)
Lemma civil_correct n : (n < N.to_nat 2932897)%nat ->
  civil (Z.of_nat n) = date_of_day n /\ valid (date_of_day n) = true.
Proof.
  intros Hn. destruct all_days as [H _]. specialize (H n Hn). rewrite Z.add_0_l in H. exact H.
Qed.

Theorem format_correct secs : 0 <= secs <= MAX_SECS ->
  format_http_date secs =
  imf_fixdate_line (date_of_day (Z.to_nat (secs / 86400))) (secs mod 86400).
Proof.
  unfold MAX_SECS. intros Hs.
  assert (0 <= secs / 86400 < 2932897) as Hd by (Z.div_mod_to_equations; lia).
  assert (0 <= secs mod 86400 < 86400) as Hm by (apply Z.mod_pos_bound; lia).
  destruct (civil_correct (Z.to_nat (secs / 86400))) as [Hc Hv]; [lia|].
  rewrite Z2Nat.id in Hc by lia.
  unfold format_http_date, SECS_PER_DAY. rewrite Hc.
  destruct (date_of_day (Z.to_nat (secs / 86400))) as [[[y m] d] w].
  unfold valid in Hv. rewrite !andb_true_iff, !Z.leb_le in Hv.
  destruct Hv as [[[[[[[Y1 Y2] M1] M2] D1] D2] W1] W2].
  unfold imf_fixdate_line.
  destruct (time_parts (secs mod 86400) Hm) as (T1 & T2 & T3 & T4 & T5).
  rewrite wday_name, mon_name by lia.
  rewrite (write_2d_dec d), (write_4d_dec y), (write_2d_dec (secs mod 86400 / 3600)) by lia.
  rewrite T2, T4. rewrite (write_2d_dec ((secs mod 86400 / 60) mod 60)), (write_2d_dec ((secs mod 86400) mod 60)) by lia.
  reflexivity.
Qed.

(* ---- cache ---- *)
Definition cache_inv (c : cache) : Prop := snd c = I64_MIN \/ fst c = format_http_date (snd c).

Lemma get_date_now_spec c t : cache_inv c -> t <> I64_MIN ->
  snd (get_date_now c t) = format_http_date t /\ cache_inv (fst (get_date_now c t)).
Proof.
  destruct c as [buf last]. unfold cache_inv, get_date_now. cbn [fst snd]. intros Hinv Ht.
  destruct (Z.eqb_spec last t) as [->|Hne]; cbn [fst snd].
  - destruct Hinv as [H|H]; [contradiction|]. split; [exact H | right; exact H].
  - split; [reflexivity | right; reflexivity].
Qed.

Theorem cache_correct readings : Forall (fun t => t <> I64_MIN) readings ->
  cache_run cache_init readings = map format_http_date readings.
Proof.
  assert (forall c, cache_inv c -> Forall (fun t => t <> I64_MIN) readings ->
            cache_run c readings = map format_http_date readings) as G.
  { induction readings as [|t r IH]; intros c Hc HF; [reflexivity|].
    inversion HF as [|? ? Ht Hr]; subst.
    cbn [cache_run map]. destruct (get_date_now_spec c t Hc Ht) as [H1 H2].
    destruct (get_date_now c t) as [c' out]. cbn [fst snd] in *. rewrite H1. f_equal. apply IH; assumption. }
  apply G. left. reflexivity.
Qed.
