(* Server round trip, groundwork: the request parser reads a printed request head (request line,
   rendered field lines, blank line) back exactly, under the side conditions the parser really
   needs - and only under them: server_method_ok and server_uri_ok are exact; the body reader chosen
   by BodyReader::from_request returns the payload of a length-delimited or a chunked body, however
   the bytes behind the head are split between the head buffer and the stream; the framing gate of
   handle_one_request lets a head with at most one Transfer-Encoding field "chunked" pass.
   The reader-side and header-loop lemmas are those of Proofs/ClientRoundBase.v. *)
From KV Require Import Lib.Bytes Lib.Swar Model.Headers Model.Parser Model.Body Model.Printer Model.Client
  Model.ServerRecv
  Spec.HeaderStore Spec.ChunkedSpec Spec.MessageSpec Spec.PrinterSpec
  Proofs.Headers Proofs.BodySpec Proofs.PrinterRoundBase Proofs.PrinterRoundHead
  Proofs.SwarSpec Proofs.ParserCompleteBase Proofs.ParserCompleteMethod Proofs.ParserCompleteUri
  Proofs.ParserCompleteHdr Proofs.BodyRead Proofs.ClientRoundBase.
From KV Require Model.Server Spec.HttpGrammar Spec.Framing Proofs.ParserSound Proofs.ServerFraming.

(* Model/Server.v is not imported: its record [app] would hide List.app *)
Notation render_query := HttpGrammar.render_query.
Notation te_tokens := Server.te_tokens.
Notation te_present := Server.te_present.
Notation te_final_chunked := Server.te_final_chunked.
Notation from_request := Server.from_request.
Notation read_to_end := Server.read_to_end.

(* ------------------------------------------------------------------ the side conditions *)
(* what parse_method accepts and reports back unchanged: a non-empty alphabetic word (the eight
   known methods are such words; anything else becomes Method::Custom) *)
Definition server_method_ok (m : bytes) : bool := HttpGrammar.nonempty m && forallb is_alpha m.

(* what parse_uri accepts and reports back unchanged as RequestUri::full: "*" alone; or a target
   starting with '/' made of visible ASCII; or a target whose bytes up to the place where step 2 of
   parse_uri stops (the first '/' that is not part of the first "://", or the first '?', or the end)
   are URI bytes, the rest being visible ASCII *)
Definition server_uri_ok (u : bytes) : bool :=
  match u with
  | [] => false
  | first :: t =>
      if Byte.eqb first x2a then match t with [] => true | _ :: _ => false end
      else if Byte.eqb first x2f then forallb is_vchar u
      else match step2 false (u ++ [x20]) 0 with
           | S2Err => false
           | S2Path i | S2End i => forallb is_vchar (skipn i u)
           end
  end.

(* a simple sufficient form: every byte is one of RFC 3986's characters (URI_BYTE_MASK), and a
   target that starts with '*' is "*" *)
Definition uri_bytes_ok (u : bytes) : bool :=
  match u with
  | [] => false
  | first :: t =>
      if Byte.eqb first x2a then match t with [] => true | _ :: _ => false end
      else forallb is_valid_uri_byte u
  end.

(* field names of the bytes parse_header_line accepts: the condition of the response parser *)
Notation server_field_ok := client_field_ok.

(* ------------------------------------------------------------------ small facts *)
Lemma forallb_skipn {A} (p : A -> bool) : forall i l, forallb p l = true -> forallb p (skipn i l) = true.
Proof.
  induction i as [|i IH]; intros l H; [exact H|]. destruct l as [|x l]; [reflexivity|].
  cbn [forallb] in H. apply andb_true_iff in H. destruct H as [_ H]. cbn [skipn]. apply IH. exact H.
Qed.

Lemma vchar_not_qsp b : is_vchar b = true -> Byte.eqb b x3f = false -> is_q_or_sp b = false.
Proof.
  intros Hb E. destruct b; try reflexivity; [vm_compute in Hb; discriminate Hb | vm_compute in E; discriminate E].
Qed.

(* a run of visible bytes is a '?'-free part, then nothing or '?' and more visible bytes *)
Lemma split_query : forall p, forallb is_vchar p = true ->
  exists p1 q, p = p1 ++ render_query q /\ forallb is_vchar p1 = true /\
    forallb (fun y => negb (is_q_or_sp y)) p1 = true /\ forallb is_vchar (render_query q) = true.
Proof.
  induction p as [|b p IH]; intros H.
  - exists [], None. repeat split; reflexivity.
  - cbn [forallb] in H. apply andb_true_iff in H. destruct H as [Hb Hp].
    destruct (Byte.eqb b x3f) eqn:E.
    + apply byte_eqb_eq in E. subst b. exists [], (Some p).
      cbn [HttpGrammar.render_query app forallb]. rewrite Hp. repeat split; reflexivity.
    + destruct (IH Hp) as (p1 & q & E1 & H1 & H2 & H3). exists (b :: p1), q.
      cbn [app forallb]. rewrite <- E1, Hb, H1, H2, H3, (vchar_not_qsp b Hb E). repeat split; reflexivity.
Qed.

Lemma vchar_ascii_all l : forallb is_vchar l = true -> forallb is_ascii l = true.
Proof. apply pc_forallb_impl. exact pc_vchar_ascii. Qed.

(* ------------------------------------------------------------------ the two branches of parse_uri on visible bytes *)
Lemma sr_path_branch pre p q rest :
  forallb is_ascii pre = true -> forallb is_vchar p = true ->
  forallb (fun y => negb (is_q_or_sp y)) p = true -> forallb is_vchar (render_query q) = true ->
  path_branch (pre ++ p ++ render_query q ++ x20 :: rest) (length pre) =
  Ok ({| full := pre ++ p ++ render_query q; p_start := length pre; p_end := length pre + length p |}, rest).
Proof.
  intros Hpre Hpv Hnq Hqv.
  unfold path_branch. cbv zeta.
  rewrite match_path_vectored_spec, !match_uri_vectored_spec.
  rewrite (pc_skipn_mid pre _ _ eq_refl).
  assert (Ept : path_tail (p ++ render_query q ++ x20 :: rest) = length p).
  { destruct q as [s|]; cbn [HttpGrammar.render_query app]; apply pc_path_tail_run; try reflexivity; exact Hnq. }
  rewrite Ept.
  replace (length pre + length p - length pre) with (length p) by lia.
  rewrite (pc_firstn_mid p _ _ eq_refl).
  rewrite (pc_uri_tail_all p Hpv). rewrite Nat.ltb_irrefl.
  set (buf := pre ++ p ++ render_query q ++ x20 :: rest).
  destruct q as [s|].
  - (* with a query *)
    cbn [HttpGrammar.render_query] in *. cbn [forallb] in Hqv. apply andb_true_iff in Hqv. destruct Hqv as [_ Hsv].
    assert (E1 : buf = (pre ++ p) ++ x3f :: (s ++ x20 :: rest)).
    { unfold buf. rewrite <- !app_assoc. reflexivity. }
    assert (E2 : buf = (pre ++ p ++ x3f :: s) ++ x20 :: rest).
    { unfold buf. rewrite <- !app_assoc. cbn [app]. reflexivity. }
    assert (N1 : nth_error buf (length pre + length p) = Some x3f).
    { rewrite E1. apply pc_nth_mid. pc_len. }
    assert (S1 : skipn (S (length pre + length p)) buf = s ++ x20 :: rest).
    { rewrite E1. apply pc_skipn_S_mid. pc_len. }
    rewrite N1. cbv iota. rewrite S1. rewrite (pc_uri_tail_run s rest Hsv).
    assert (N2 : nth_error buf (S (length pre + length p) + length s) = Some x20).
    { rewrite E2. apply pc_nth_mid. pc_len. }
    rewrite N2. cbv iota.
    unfold finish_uri.
    assert (F1 : firstn (S (length pre + length p) + length s) buf = pre ++ p ++ x3f :: s).
    { rewrite E2. apply pc_firstn_mid. pc_len. }
    assert (S2 : skipn (S (S (length pre + length p) + length s)) buf = rest).
    { rewrite E2. apply pc_skipn_S_mid. pc_len. }
    rewrite F1, S2. unfold str_unchecked.
    rewrite !forallb_app. cbn [forallb]. rewrite Hpre, (vchar_ascii_all p Hpv), (vchar_ascii_all s Hsv).
    reflexivity.
  - (* no query *)
    cbn [HttpGrammar.render_query app] in *.
    assert (E1 : buf = (pre ++ p) ++ x20 :: rest).
    { unfold buf. rewrite <- !app_assoc. reflexivity. }
    assert (N1 : nth_error buf (length pre + length p) = Some x20).
    { rewrite E1. apply pc_nth_mid. pc_len. }
    rewrite N1. cbv iota.
    unfold finish_uri.
    assert (F1 : firstn (length pre + length p) buf = pre ++ p).
    { rewrite E1. apply pc_firstn_mid. pc_len. }
    assert (S2 : skipn (S (length pre + length p)) buf = rest).
    { rewrite E1. apply pc_skipn_S_mid. pc_len. }
    rewrite F1, S2. unfold str_unchecked.
    rewrite !forallb_app. rewrite Hpre, (vchar_ascii_all p Hpv). rewrite app_nil_r.
    reflexivity.
Qed.

Lemma sr_end_branch pre p rest :
  HttpGrammar.nonempty (pre ++ p) = true -> forallb is_ascii pre = true -> forallb is_vchar p = true ->
  end_branch (pre ++ p ++ x20 :: rest) (length pre) =
  Ok ({| full := pre ++ p; p_start := 0; p_end := 0 |}, rest).
Proof.
  intros Hne Hpre Hpv.
  unfold end_branch. cbv zeta. rewrite match_uri_vectored_spec.
  rewrite (pc_skipn_mid pre _ _ eq_refl).
  rewrite (pc_uri_tail_run _ rest Hpv).
  set (buf := pre ++ p ++ x20 :: rest).
  assert (E1 : buf = (pre ++ p) ++ x20 :: rest).
  { unfold buf. rewrite <- app_assoc. reflexivity. }
  assert (N1 : nth_error buf (length pre + length p) = Some x20).
  { rewrite E1. apply pc_nth_mid. pc_len. }
  rewrite N1. cbv iota.
  assert (Z1 : Nat.eqb (length pre + length p) 0 = false).
  { destruct pre as [|c pre']; [|reflexivity]. destruct p as [|c p']; [discriminate Hne|reflexivity]. }
  rewrite Z1.
  unfold finish_uri.
  assert (F1 : firstn (length pre + length p) buf = pre ++ p).
  { rewrite E1. apply pc_firstn_mid. pc_len. }
  assert (S2 : skipn (S (length pre + length p)) buf = rest).
  { rewrite E1. apply pc_skipn_S_mid. pc_len. }
  rewrite F1, S2. unfold str_unchecked.
  rewrite forallb_app, Hpre, (vchar_ascii_all _ Hpv). reflexivity.
Qed.

(* ------------------------------------------------------------------ step 2 looks no further than the SP *)
Lemma strip2_local r :
  (exists r0, r = x2f :: x2f :: r0 /\ forall t, strip_prefix [x2f; x2f] (r ++ x20 :: t) = Some (r0 ++ x20 :: t)) \/
  (forall t, strip_prefix [x2f; x2f] (r ++ x20 :: t) = None).
Proof.
  destruct r as [|c [|d r0]].
  - right. intros t. reflexivity.
  - right. intros t. cbn [app strip_prefix]. destruct (Byte.eqb x2f c); reflexivity.
  - destruct (Byte.eqb x2f c) eqn:E1.
    + destruct (Byte.eqb x2f d) eqn:E2.
      * apply byte_eqb_eq in E1. apply byte_eqb_eq in E2. subst c d. left. exists r0.
        split; [reflexivity|]. intros t. reflexivity.
      * right. intros t. cbn [app strip_prefix]. rewrite E1, E2. reflexivity.
    + right. intros t. cbn [app strip_prefix]. rewrite E1. reflexivity.
Qed.

Lemma step2_local : forall n l seen i t, length l <= n ->
  step2 seen (l ++ x20 :: t) i = step2 seen (l ++ [x20]) i.
Proof.
  induction n as [|n IH]; intros l seen i t Hl.
  - destruct l as [|b r]; [reflexivity | cbn [length] in Hl; lia].
  - destruct l as [|b r]; [reflexivity|]. cbn [length] in Hl.
    change ((b :: r) ++ x20 :: t) with (b :: (r ++ x20 :: t)).
    change ((b :: r) ++ [x20]) with (b :: (r ++ [x20])).
    rewrite !ParserSound.ps_step2_eq.
    destruct (strip2_local r) as [(r0 & Er & Hs)|Hs]; rewrite (Hs t), (Hs []).
    + assert (length r0 <= n) as L0 by (rewrite Er in Hl; cbn [length] in Hl; lia).
      rewrite (IH r seen (i + 1) t) by lia. rewrite (IH r0 true (i + 3) t L0). reflexivity.
    + rewrite (IH r seen (i + 1) t) by lia. reflexivity.
Qed.

(* where step 2 stops, everything before is visible ASCII and inside the target *)
Lemma scan_within u k : forallb is_vchar (firstn k (u ++ [x20])) = true ->
  k <= length u /\ forallb is_vchar (firstn k u) = true.
Proof.
  intros H. destruct (Nat.le_gt_cases k (length u)) as [L|G].
  - split; [exact L|]. rewrite firstn_app in H. replace (k - length u) with 0 in H by lia.
    cbn [firstn] in H. rewrite app_nil_r in H. exact H.
  - exfalso. rewrite firstn_all2 in H by (rewrite app_length; cbn [length]; lia).
    rewrite forallb_app in H. apply andb_true_iff in H. destruct H as [_ H]. vm_compute in H. discriminate H.
Qed.

Lemma step2_stop u seen i :
  step2 seen (u ++ [x20]) 0 = S2Path i \/ step2 seen (u ++ [x20]) 0 = S2End i ->
  i <= length u /\ forallb is_vchar (firstn i u) = true.
Proof.
  intros H.
  pose proof (ParserSound.ps_step2_ok (length (u ++ [x20])) (u ++ [x20]) seen 0 (le_n _)) as SK.
  destruct H as [H|H]; rewrite H in SK; cbn [ParserSound.scan_ok] in SK;
    destruct SK as (k & Ek & Hk); cbn [Nat.add] in Ek; subst k; exact (scan_within u i Hk).
Qed.

(* ------------------------------------------------------------------ the target *)
Lemma sr_parse_uri u rest : server_uri_ok u = true ->
  exists t, parse_uri (u ++ x20 :: rest) = Ok (t, rest) /\ full t = u.
Proof.
  intros H. destruct u as [|first tl]; [discriminate H|]. unfold server_uri_ok in H.
  destruct (Byte.eqb first x2a) eqn:Ea.
  { apply byte_eqb_eq in Ea. subst first. destruct tl as [|c tl]; [|discriminate H].
    exists {| full := [x2a]; p_start := 0; p_end := 1 |}. split; reflexivity. }
  change ((first :: tl) ++ x20 :: rest) with (first :: (tl ++ x20 :: rest)).
  rewrite (pc_parse_uri_unfold first _ Ea).
  change (first :: (tl ++ x20 :: rest)) with ((first :: tl) ++ x20 :: rest).
  assert (Hne : HttpGrammar.nonempty (first :: tl) = true) by reflexivity.
  remember (first :: tl) as u eqn:Eu.
  destruct (Byte.eqb first x2f) eqn:Es.
  - (* a target that starts with '/' *)
    destruct (split_query u H) as (p1 & q & E & H1 & H2 & H3).
    exists {| full := [] ++ p1 ++ render_query q; p_start := length (@nil byte); p_end := length (@nil byte) + length p1 |}.
    split; [|cbn [full app]; symmetry; exact E].
    pose proof (sr_path_branch [] p1 q rest eq_refl H1 H2 H3) as PB.
    cbn [app length] in PB |- *. rewrite E, <- app_assoc. exact PB.
  - (* step 2 runs *)
    rewrite (step2_local (length u) u false 0 rest (le_n _)).
    revert H. destruct (step2 false (u ++ [x20]) 0) as [|i|i] eqn:E2; intros H; [discriminate H| |].
    + destruct (step2_stop u false i (or_introl E2)) as [Li Hpre].
      destruct (split_query (skipn i u) H) as (p1 & q & E & H1 & H2 & H3).
      assert (Elen : length (firstn i u) = i) by (apply firstn_length_le; exact Li).
      assert (Eu2 : u = firstn i u ++ p1 ++ render_query q) by (rewrite <- E; symmetry; apply firstn_skipn).
      exists {| full := firstn i u ++ p1 ++ render_query q; p_start := length (firstn i u);
                p_end := length (firstn i u) + length p1 |}.
      split; [|cbn [full]; symmetry; exact Eu2].
      pose proof (sr_path_branch (firstn i u) p1 q rest (vchar_ascii_all _ Hpre) H1 H2 H3) as PB.
      rewrite Elen in PB at 1. rewrite Eu2 at 1. rewrite <- !app_assoc. exact PB.
    + destruct (step2_stop u false i (or_intror E2)) as [Li Hpre].
      assert (Elen : length (firstn i u) = i) by (apply firstn_length_le; exact Li).
      assert (Eu2 : u = firstn i u ++ skipn i u) by (symmetry; apply firstn_skipn).
      exists {| full := firstn i u ++ skipn i u; p_start := 0; p_end := 0 |}.
      split; [|cbn [full]; symmetry; exact Eu2].
      pose proof (sr_end_branch (firstn i u) (skipn i u) rest) as EB.
      rewrite <- Eu2 in EB at 1. specialize (EB Hne (vchar_ascii_all _ Hpre) H).
      rewrite Elen in EB. rewrite Eu2 at 1. rewrite <- app_assoc. exact EB.
Qed.

(* the converse: a target reported back unchanged satisfies server_uri_ok *)
Lemma sr_parse_uri_inv u rest t r2 :
  parse_uri (u ++ x20 :: rest) = Ok (t, r2) -> full t = u -> server_uri_ok u = true.
Proof.
  intros H Ef.
  destruct (ParserSound.parse_uri_sound _ _ _ H) as (_ & Hn & Hv). rewrite Ef in Hv, Hn.
  destruct u as [|first tl]; [discriminate Hn|].
  unfold server_uri_ok.
  change ((first :: tl) ++ x20 :: rest) with (first :: (tl ++ x20 :: rest)) in H.
  destruct (Byte.eqb first x2a) eqn:Ea.
  { destruct tl as [|c tl]; [reflexivity|]. exfalso.
    apply byte_eqb_eq in Ea. subst first. unfold parse_uri in H.
    change (Byte.eqb x2a x2a) with true in H. cbn [app nth_error] in H. cbv iota in H.
    cbn [forallb] in Hv. apply andb_true_iff in Hv. destruct Hv as [_ Hv].
    apply andb_true_iff in Hv. destruct Hv as [Hc _].
    destruct c; try discriminate H. vm_compute in Hc. discriminate Hc. }
  destruct (Byte.eqb first x2f) eqn:Es; [exact Hv|].
  rewrite (pc_parse_uri_unfold first _ Ea), Es in H.
  change (first :: (tl ++ x20 :: rest)) with ((first :: tl) ++ x20 :: rest) in H.
  rewrite (step2_local (length (first :: tl)) (first :: tl) false 0 rest (le_n _)) in H.
  destruct (step2 false ((first :: tl) ++ [x20]) 0) as [|i|i]; [discriminate H| |]; apply forallb_skipn; exact Hv.
Qed.

Theorem server_uri_ok_exact u rest :
  server_uri_ok u = true <-> exists t r2, parse_uri (u ++ x20 :: rest) = Ok (t, r2) /\ full t = u.
Proof.
  split.
  - intros H. destruct (sr_parse_uri u rest H) as (t & E1 & E2). exists t, rest. split; assumption.
  - intros (t & r2 & E1 & E2). exact (sr_parse_uri_inv u rest t r2 E1 E2).
Qed.

(* URI bytes only: step 2 cannot fail *)
Lemma step2_valid : forall n l seen i, length l <= n -> forallb is_valid_uri_byte l = true ->
  step2 seen (l ++ [x20]) i <> S2Err.
Proof.
  induction n as [|n IH]; intros l seen i Hl Hv.
  - destruct l as [|b r]; [cbn [app step2]; discriminate | cbn [length] in Hl; lia].
  - destruct l as [|b r]; [cbn [app step2]; discriminate|]. cbn [length] in Hl.
    cbn [forallb] in Hv. apply andb_true_iff in Hv. destruct Hv as [Hb Hr].
    change ((b :: r) ++ [x20]) with (b :: (r ++ [x20])). rewrite ParserSound.ps_step2_eq.
    destruct (Byte.eqb b x3a).
    + destruct (strip2_local r) as [(r0 & Er & Hs)|Hs]; rewrite (Hs []).
      * destruct seen; [apply IH; [lia|exact Hr]|].
        apply IH; [rewrite Er in Hl; cbn [length] in Hl; lia|].
        rewrite Er in Hr. cbn [forallb] in Hr. apply andb_true_iff in Hr. destruct Hr as [_ Hr].
        apply andb_true_iff in Hr. destruct Hr as [_ Hr]. exact Hr.
      * apply IH; [lia|exact Hr].
    + destruct (Byte.eqb b x2f); [discriminate|].
      destruct (Byte.eqb b x20 || Byte.eqb b x3f); [discriminate|].
      rewrite Hb. apply IH; [lia|exact Hr].
Qed.

Lemma uri_bytes_server_ok u : uri_bytes_ok u = true -> server_uri_ok u = true.
Proof.
  destruct u as [|first tl]; [intros H; exact H|]. unfold uri_bytes_ok, server_uri_ok.
  destruct (Byte.eqb first x2a); [intros H; exact H|]. intros H.
  pose proof (pc_forallb_impl _ _ _ ParserSound.ps_uri_byte_vchar H) as Hv.
  destruct (Byte.eqb first x2f); [exact Hv|].
  pose proof (step2_valid (length (first :: tl)) (first :: tl) false 0 (le_n _) H) as NE.
  destruct (step2 false ((first :: tl) ++ [x20]) 0) as [|i|i]; [contradiction NE; reflexivity| |];
    apply forallb_skipn; exact Hv.
Qed.

(* ------------------------------------------------------------------ the method *)
Lemma sr_parse_method_inv s m r1 : parse_method s = Ok (m, r1) -> server_method_ok (method_str m) = true.
Proof.
  unfold parse_method. intros H.
  destruct (strip_prefix (bs "GET ") s); [inversion H; reflexivity|].
  destruct (strip_prefix (bs "POST ") s); [inversion H; reflexivity|].
  destruct (find_index (Byte.eqb x20) s) as [i|]; [|discriminate H]. cbv zeta in H.
  destruct (bytes_eqb (firstn i s) (bs "HEAD")); [inversion H; reflexivity|].
  destruct (bytes_eqb (firstn i s) (bs "PUT")); [inversion H; reflexivity|].
  destruct (bytes_eqb (firstn i s) (bs "PATCH")); [inversion H; reflexivity|].
  destruct (bytes_eqb (firstn i s) (bs "DELETE")); [inversion H; reflexivity|].
  destruct (bytes_eqb (firstn i s) (bs "OPTIONS")); [inversion H; reflexivity|].
  destruct (bytes_eqb (firstn i s) (bs "TRACE")); [inversion H; reflexivity|].
  destruct (Nat.eqb (length (firstn i s)) 0 || negb (forallb is_alpha (firstn i s))) eqn:Ec; [discriminate H|].
  apply orb_false_iff in Ec. destruct Ec as [Ec1 Ec2]. apply negb_false_iff in Ec2.
  destruct (str_unchecked (firstn i s)) as [s'| |] eqn:Eu; cbn [bind] in H; try discriminate H.
  apply ParserSound.ps_str_unchecked_inv in Eu. inversion H; subst. cbn [method_str].
  unfold server_method_ok. rewrite (ParserSound.ps_nonempty_length _ Ec1), Ec2. reflexivity.
Qed.

(* ------------------------------------------------------------------ the whole head *)
Definition request_line (method uri : bytes) : bytes :=
  method ++ [x20] ++ uri ++ [x20] ++ bs "HTTP/1.1" ++ PCRLF.

Definition printed_request_head (method uri : bytes) (fields : list (bytes * bytes)) : bytes :=
  request_line method uri ++ flat_map render_field fields ++ PCRLF.

Lemma request_head_shape method uri fields t :
  printed_request_head method uri fields ++ t =
  method ++ x20 :: (uri ++ x20 :: (bs "HTTP/1." ++ x31 :: x0d :: x0a ::
    (flat_map render_field fields ++ x0d :: x0a :: t))).
Proof. unfold printed_request_head, request_line, Printer.CRLF. rewrite <- !app_assoc. reflexivity. Qed.

Theorem parse_printed_request method uri fields t :
  server_method_ok method = true -> server_uri_ok uri = true ->
  forallb wf_field fields = true -> forallb server_field_ok fields = true ->
  HttpGrammar.cl_consistent fields = true ->
  exists r, parse_request (printed_request_head method uri fields ++ t) = Ok r /\
    method_str (q_meth r) = method /\ full (q_target r) = uri /\ q_version r = 1%N /\
    q_hdrs r = headers_of fields /\ q_offset r = length (printed_request_head method uri fields).
Proof.
  intros Hm Hu Hwf Hok Hcl. unfold server_method_ok in Hm. apply andb_true_iff in Hm. destruct Hm as [Hne Ha].
  set (r3 := flat_map render_field fields ++ x0d :: x0a :: t).
  set (r2 := bs "HTTP/1." ++ x31 :: x0d :: x0a :: r3).
  set (r1 := uri ++ x20 :: r2).
  destruct (pc_parse_method method r1 Hne Ha) as [mm [Em Ems]].
  destruct (sr_parse_uri uri r2 Hu) as [u [Eu Efull]]. fold r1 in Eu.
  assert (Ev : parse_version r2 = Ok (1%N, x0d :: x0a :: r3)) by exact (pc_parse_version true _).
  pose proof (cr_parse_headers fields t Hwf Hok Hcl) as Eh. fold r3 in Eh.
  exists {| q_meth := mm; q_target := u; q_version := 1; q_hdrs := headers_of fields;
            q_offset := length (printed_request_head method uri fields) |}.
  split.
  - unfold parse_request.
    assert (Em' : parse_method (printed_request_head method uri fields ++ t) = Ok (mm, r1)).
    { rewrite request_head_shape. exact Em. }
    rewrite Em'. cbn [bind]. rewrite Eu. cbn [bind]. rewrite Ev. cbn [bind].
    rewrite Eh. cbn [bind]. rewrite cr_offset. cbn [bind]. reflexivity.
  - cbn [q_meth q_target q_version q_hdrs q_offset]. repeat split; assumption.
Qed.

(* ------------------------------------------------------------------ what is reported satisfies the side conditions *)
Theorem parse_request_reports s r : parse_request s = Ok r ->
  server_method_ok (method_str (q_meth r)) = true /\ server_uri_ok (full (q_target r)) = true /\
  exists rest, s = method_str (q_meth r) ++ x20 :: full (q_target r) ++ x20 :: rest.
Proof.
  intros H. unfold parse_request in H.
  destruct (parse_method s) as [[m r1]| |] eqn:Em; cbn [bind] in H; try discriminate H.
  destruct (parse_uri r1) as [[u r2]| |] eqn:Eu; cbn [bind] in H; try discriminate H.
  destruct (parse_version r2) as [[v r3]| |] eqn:Ev; cbn [bind] in H; try discriminate H.
  apply ParserSound.ps_crlf_match in H. destruct H as [r4 [Hr3 H]]. subst r3.
  destruct (parse_headers r4) as [[hs r5]| |] eqn:Eh; cbn [bind] in H; try discriminate H.
  destruct (offset_of s r5) as [off| |]; cbn [bind] in H; try discriminate H.
  inversion H; subst r. clear H. cbn [q_meth q_target].
  pose proof (sr_parse_method_inv _ _ _ Em) as Hm.
  destruct (ParserSound.parse_method_sound _ _ _ Em) as [Sm _]. apply ParserSound.ps_split_at_inv in Sm.
  destruct (ParserSound.parse_uri_sound _ _ _ Eu) as [Su _]. apply ParserSound.ps_split_at_inv in Su.
  split; [exact Hm|]. split.
  - rewrite Su in Eu. exact (sr_parse_uri_inv _ _ _ _ Eu eq_refl).
  - exists r2. rewrite Sm, Su. reflexivity.
Qed.

(* ------------------------------------------------------------------ the framing gate *)
Lemma te_tokens_headers_of X : te_tokens (headers_of X) = Framing.te_codings X.
Proof.
  change (headers_of X) with (ParserSound.add_pairs new_headers X).
  destruct (ServerFraming.sf_add_pairs_te X new_headers) as [E _]. rewrite E. reflexivity.
Qed.

Lemma chunked_value_plain v : same_name v (bs "chunked") = true ->
  forallb (fun b => negb (Byte.eqb b x2c) && negb (is_ows b)) v = true.
Proof.
  intros H. apply same_name_iff in H. unfold lower in H.
  assert (forallb (fun b => negb (Byte.eqb b x2c) && negb (is_ows b)) (map to_lower v) = true) as Q
    by (rewrite H; vm_compute; reflexivity).
  clear H. induction v as [|a v IH]; [reflexivity|].
  cbn [map forallb] in Q |- *. apply andb_true_iff in Q. destruct Q as [Q1 Q2].
  rewrite (lower_plain_byte a Q1), (IH Q2). reflexivity.
Qed.

(* at most one Transfer-Encoding field, and that one spelled "chunked": the gate
   `te_present && !te_final_chunked` of handle_one_request does not reject *)
Lemma gate_passes X :
  (filter is_te X = [] \/ exists te, filter is_te X = [te] /\ same_name (snd te) (bs "chunked") = true) ->
  te_present (headers_of X) && negb (te_final_chunked (headers_of X)) = false.
Proof.
  intros HT. unfold Server.te_present, Server.te_final_chunked. rewrite te_tokens_headers_of.
  unfold Framing.te_codings, Framing.values_of.
  change (filter (fun f : bytes * bytes => same_name (fst f) (bs "transfer-encoding")) X) with (filter is_te X).
  destruct HT as [HT|(te & HT & Hv)]; rewrite HT; [reflexivity|].
  cbn [map flat_map]. rewrite app_nil_r. unfold tokens.
  pose proof (chunked_value_plain _ Hv) as P.
  rewrite (split_on_plain _ P). cbn [map rev app].
  rewrite (strip_ows_id _ (plain_no_outer _ P)), eq_ic_same, Hv. reflexivity.
Qed.

(* ------------------------------------------------------------------ reading the body *)
Section Receive.
Variables (method uri : bytes) (fields : list (bytes * bytes)).
Hypothesis Hm : server_method_ok method = true.
Hypothesis Hu : server_uri_ok uri = true.
Hypothesis Hwf : forallb wf_field fields = true.
Hypothesis Hok : forallb server_field_ok fields = true.
Hypothesis Hcl : HttpGrammar.cl_consistent fields = true.

Let Hd := printed_request_head method uri fields.
Let h := headers_of fields.

(* length-delimited: [pre] is what the head buffer holds behind the head *)
Lemma srv_receive_cl pre stream sizes body :
  Headers.chunked h = false -> content_length h = Some (N.of_nat (length body)) ->
  pre ++ concat stream = body -> positive_sizes sizes -> length body < length sizes ->
  server_receive_from (Hd ++ pre) stream sizes = Some (method, uri, h, body).
Proof.
  intros Hch Hlen Hpre Hpos Hsz. unfold server_receive_from, Hd.
  destruct (parse_printed_request method uri fields pre Hm Hu Hwf Hok Hcl) as (r & Er & E1 & E2 & _ & E4 & E5).
  rewrite Er. cbv zeta. rewrite E1, E2, E4, E5. fold h.
  rewrite (pc_skipn_mid (printed_request_head method uri fields) pre _ eq_refl).
  unfold Server.from_request. rewrite Hch, Hlen.
  destruct (N.eqb_spec (N.of_nat (length body)) 0) as [E|E].
  - destruct body as [|b body]; [|cbn [length] in E; lia].
    destruct sizes as [|k sizes]; [cbn [length] in Hsz; lia|].
    unfold new_empty. cbn [read_all body_read]. reflexivity.
  - assert (spec_fixed (N.of_nat (length body)) (pre ++ concat stream) = Valid body []) as Hs.
    { rewrite Hpre. unfold spec_fixed. pose proof (BodySpec.take_n_app body []) as T.
      rewrite app_nil_r in T. rewrite T. reflexivity. }
    pose proof (fixed_read_valid pre stream sizes _ body [] Hs Hpos Hsz) as R.
    destruct (read_all (new_fixed pre stream (N.of_nat (length body))) sizes []) as [[data oc] b'].
    cbn [fst] in R. injection R as R1 R2. subst data oc. reflexivity.
Qed.

(* chunked: the printer's chunks, then the last chunk *)
Lemma srv_receive_chunks pre stream sizes cs :
  Headers.chunked h = true ->
  pre ++ concat stream = flat_map Printer.chunk cs ++ LAST_CHUNK ->
  Forall (fun c => c <> []) cs -> (N.of_nat (length (concat cs)) < 2 ^ 64)%N ->
  positive_sizes sizes -> length (concat cs) < length sizes ->
  server_receive_from (Hd ++ pre) stream sizes = Some (method, uri, h, concat cs).
Proof.
  intros Hch Hpre Hne Hlt Hpos Hsz. unfold server_receive_from, Hd.
  destruct (parse_printed_request method uri fields pre Hm Hu Hwf Hok Hcl) as (r & Er & E1 & E2 & _ & E4 & E5).
  rewrite Er. cbv zeta. rewrite E1, E2, E4, E5. fold h.
  rewrite (pc_skipn_mid (printed_request_head method uri fields) pre _ eq_refl).
  unfold Server.from_request. rewrite Hch.
  assert (spec_decode (pre ++ concat stream) = Valid (concat cs) []) as Hs.
  { rewrite Hpre. pose proof (chunks_decode cs [] Hne Hlt) as D. rewrite app_nil_r in D. exact D. }
  pose proof (chunked_read_valid pre stream sizes _ [] Hs Hpos Hsz) as R.
  destruct (read_all (new_chunked pre stream) sizes []) as [[data oc] b'].
  cbn [fst] in R. injection R as R1 R2. subst data oc. reflexivity.
Qed.

End Receive.

(* ------------------------------------------------------------------ one read, or any segmentation *)
(* [server_received wire res]: the server obtains [res] when the whole request arrives in the one
   read of read_request, and also whenever the head buffer holds at least the head and the rest
   arrives over the stream in arbitrary segments and is read with arbitrary non-empty buffers *)
Definition server_received (wire : bytes) (res : bytes * bytes * headers * bytes) : Prop :=
  server_receive wire = Some res /\
  exists head_len, head_len <= length wire /\
    forall k stream sizes, head_len <= k -> concat stream = skipn k wire ->
      positive_sizes sizes -> length (snd res) < length sizes ->
      server_receive_from (firstn k wire) stream sizes = Some res.

Lemma server_received_of_shape Hd B res :
  (forall pre stream sizes, pre ++ concat stream = B -> positive_sizes sizes ->
     length (snd res) < length sizes -> server_receive_from (Hd ++ pre) stream sizes = Some res) ->
  length (snd res) <= length B ->
  server_received (Hd ++ B) res.
Proof.
  intros H Hlen. split.
  - unfold server_receive. apply H.
    + cbn [concat]. apply app_nil_r.
    + apply read_sizes_positive.
    + unfold read_sizes. rewrite repeat_length, app_length. lia.
  - exists (length Hd). split; [rewrite app_length; lia|].
    intros k stream sizes Hk Hst Hpos Hsz.
    rewrite (firstn_app_le k Hd B Hk). apply H; [|exact Hpos|exact Hsz].
    rewrite Hst, skipn_app, (skipn_all2 Hd Hk). cbn [app]. apply firstn_skipn.
Qed.

(* the handler's read_to_end (Model/Server.v) returns what the READ_SIZE-buffer reads of
   server_receive return *)
Lemma read_to_end_read_all : forall n b acc data b' fuel,
  read_all b (repeat READ_SIZE n) acc = (data, AtEof, b') -> n <= fuel ->
  read_to_end fuel b acc = (inl data, b').
Proof.
  induction n as [|n IH]; intros b acc data b' fuel H Hf; [discriminate H|].
  destruct fuel as [|fuel]; [lia|].
  cbn [repeat read_all] in H. cbn [Server.read_to_end]. change 8192%N with READ_SIZE.
  destruct (body_read READ_SIZE b) as [out b1|e b1]; [|discriminate H].
  destruct out as [|o out]; [inversion H; reflexivity|].
  apply (IH b1 (acc ++ o :: out) data b' fuel H). lia.
Qed.
