(* Proofs for C13: the thread-pool transition system of Model/Pool.v.
   One invariant [Inv n s] over reachable states (job accounting by occurrence counts), plus a
   potential function for the step bound. *)
From KV Require Import Lib.Bytes Model.Pool.

Local Notation cnt := (count_occ Nat.eq_dec).

(* ---------- lists: set_nth, find_index, counting ---------- *)

Lemma length_set_nth : forall A (l : list A) i x, length (set_nth l i x) = length l.
Proof.
  intros A l. induction l as [|y r IH]; intros i x.
  - reflexivity.
  - destruct i as [|k]; cbn [set_nth length].
    + reflexivity.
    + rewrite IH. reflexivity.
Qed.

Lemma nth_set_same : forall A (l : list A) i x, i < length l -> nth_error (set_nth l i x) i = Some x.
Proof.
  intros A l. induction l as [|y r IH]; intros i x Hi.
  - cbn [length] in Hi. lia.
  - destruct i as [|k]; cbn [set_nth nth_error].
    + reflexivity.
    + apply IH. cbn [length] in Hi. lia.
Qed.

Lemma nth_set_other : forall A (l : list A) i k x, k <> i -> nth_error (set_nth l i x) k = nth_error l k.
Proof.
  intros A l. induction l as [|y r IH]; intros i k x Hne.
  - reflexivity.
  - destruct i as [|i']; destruct k as [|k']; cbn [set_nth nth_error].
    + congruence.
    + reflexivity.
    + reflexivity.
    + apply IH. congruence.
Qed.

Lemma nth_error_lt : forall A (l : list A) i x, nth_error l i = Some x -> i < length l.
Proof.
  intros A l i x H. apply nth_error_Some. congruence.
Qed.

(* what a lookup in the updated list can return *)
Lemma nth_set_cases : forall A (l : list A) i k x y,
  nth_error (set_nth l i x) k = Some y -> (k = i /\ y = x) \/ (k <> i /\ nth_error l k = Some y).
Proof.
  intros A l i k x y H. destruct (Nat.eq_dec k i) as [He|Hne].
  - left. split; [exact He|]. subst k.
    assert (Hlt : i < length l).
    { apply nth_error_lt in H. rewrite length_set_nth in H. exact H. }
    rewrite nth_set_same in H by exact Hlt. congruence.
  - right. split; [exact Hne|]. rewrite nth_set_other in H by exact Hne. exact H.
Qed.

Lemma cnt_snoc : forall l a j, cnt (l ++ [a]) j = cnt l j + (if Nat.eq_dec a j then 1 else 0).
Proof.
  intros l a j. rewrite count_occ_app. cbn [count_occ]. destruct (Nat.eq_dec a j); reflexivity.
Qed.

Lemma cnt_flat_set : forall (f : wstate -> list nat) l w old x j, nth_error l w = Some old ->
  cnt (flat_map f (set_nth l w x)) j + cnt (f old) j = cnt (flat_map f l) j + cnt (f x) j.
Proof.
  intros f l. induction l as [|y r IH]; intros w old x j Hn.
  - destruct w; discriminate.
  - destruct w as [|k]; cbn [set_nth flat_map nth_error] in *.
    + inversion Hn; subst y. rewrite !count_occ_app. lia.
    + rewrite !count_occ_app. specialize (IH k old x j Hn). lia.
Qed.

Lemma find_index_some : forall A (p : A -> bool) l w, find_index p l = Some w ->
  exists x, nth_error l w = Some x /\ p x = true.
Proof.
  intros A p l. induction l as [|y r IH]; intros w H.
  - discriminate.
  - cbn [find_index] in H. destruct (p y) eqn:Hp.
    + inversion H; subst w. exists y. split; [reflexivity|exact Hp].
    + destruct (find_index p r) as [k|] eqn:Hf; cbn [option_map] in H; [|discriminate].
      inversion H; subst w. destruct (IH k eq_refl) as [x [Hx Hpx]].
      exists x. split; [exact Hx|exact Hpx].
Qed.

Lemma find_index_exists : forall A (p : A -> bool) l w x, nth_error l w = Some x -> p x = true ->
  exists w', find_index p l = Some w'.
Proof.
  intros A p l. induction l as [|y r IH]; intros w x Hn Hp.
  - destruct w; discriminate.
  - cbn [find_index]. destruct (p y) eqn:Hpy.
    + exists 0. reflexivity.
    + destruct w as [|k]; cbn [nth_error] in Hn.
      * inversion Hn; subst y. congruence.
      * destruct (IH k x Hn Hp) as [w' Hw']. rewrite Hw'. exists (S w'). reflexivity.
Qed.

(* ---------- job accounting ---------- *)

Definition gj (x : wstate) : list nat := match x with WGot j => [j] | _ => [] end.
Definition rj (x : wstate) : list nat := match x with WRunning j => [j] | _ => [] end.
Definition gjobs (ws : list wstate) : list nat := flat_map gj ws.
Definition rjobs (ws : list wstate) : list nat := flat_map rj ws.
Definition dead (x : wstate) : bool := match x with WDisc | WExited => true | _ => false end.

Lemma in_gjobs : forall ws j, In j (gjobs ws) -> exists w, nth_error ws w = Some (WGot j).
Proof.
  intros ws j H. unfold gjobs in H. apply in_flat_map in H. destruct H as [x [Hx Hj]].
  destruct x; cbn [gj In] in Hj; try contradiction.
  destruct Hj as [Hj|[]]. subst j0. apply In_nth_error. exact Hx.
Qed.

Lemma in_rjobs : forall ws j, In j (rjobs ws) -> exists w, nth_error ws w = Some (WRunning j).
Proof.
  intros ws j H. unfold rjobs in H. apply in_flat_map in H. destruct H as [x [Hx Hj]].
  destruct x; cbn [rj In] in Hj; try contradiction.
  destruct Hj as [Hj|[]]. subst j0. apply In_nth_error. exact Hx.
Qed.

Lemma cnt_pos_in : forall l j, cnt l j <> 0 -> In j l.
Proof.
  intros l j H. apply (count_occ_In Nat.eq_dec). lia.
Qed.

Lemma cnt_notin : forall l j, ~ In j l -> cnt l j = 0.
Proof.
  intros l j H. apply count_occ_not_In. exact H.
Qed.

(* ---------- the invariant ---------- *)

Record Inv (n : nat) (s : pstate) : Prop := {
  inv_len : length (p_workers s) = n;
  inv_count : forall j,
    cnt (p_queue s) j + cnt (gjobs (p_workers s)) j + cnt (rjobs (p_workers s)) j + cnt (p_done s) j
    = if j <? p_sent s then 1 else 0;
  inv_starts : forall j, cnt (p_starts s) j = cnt (rjobs (p_workers s)) j + cnt (p_done s) j;
  inv_lock : forall w, p_lock s = Some w -> nth_error (p_workers s) w = Some WLocked;
  inv_sender : p_sender s = match p_main s with MSubmitting => true | _ => false end;
  inv_join : match p_main s with
             | MSubmitting => True
             | MJoining i => i <= n /\ forall k, k < i -> nth_error (p_workers s) k = Some WExited
             | MReturned => forall k, k < n -> nth_error (p_workers s) k = Some WExited
             end;
  inv_dead : forall w x, nth_error (p_workers s) w = Some x -> dead x = true ->
             p_queue s = [] /\ p_sender s = false
}.

Lemma repeat_idle_nth : forall n k x, nth_error (repeat WIdle n) k = Some x -> x = WIdle.
Proof.
  intros n k x H. apply nth_error_In in H. apply repeat_spec in H. exact H.
Qed.

Lemma flat_repeat_nil : forall (f : wstate -> list nat) n, f WIdle = [] -> flat_map f (repeat WIdle n) = [].
Proof.
  intros f n Hf. induction n as [|n IH]; cbn [repeat flat_map].
  - reflexivity.
  - rewrite Hf, IH. reflexivity.
Qed.

Lemma inv_init : forall n, Inv n (pool_init n).
Proof.
  intros n. constructor; cbn [pool_init p_workers p_queue p_sent p_sender p_lock p_main p_starts p_done].
  - apply repeat_length.
  - intros j. unfold gjobs, rjobs. rewrite !flat_repeat_nil by reflexivity. reflexivity.
  - intros j. unfold rjobs. rewrite flat_repeat_nil by reflexivity. reflexivity.
  - intros w H. discriminate.
  - reflexivity.
  - exact I.
  - intros w x H Hd. apply repeat_idle_nth in H. subst x. discriminate.
Qed.

(* preservation of "workers below i have exited" when a non-exited worker changes *)
Lemma exited_kept : forall (l : list wstate) w old x i, nth_error l w = Some old -> old <> WExited ->
  (forall k, k < i -> nth_error l k = Some WExited) ->
  forall k, k < i -> nth_error (set_nth l w x) k = Some WExited.
Proof.
  intros l w old x i Hn Hne Hall k Hk.
  destruct (Nat.eq_dec k w) as [He|Hkw].
  - subst k. rewrite (Hall w Hk) in Hn. congruence.
  - rewrite nth_set_other by exact Hkw. apply Hall. exact Hk.
Qed.

Lemma join_kept : forall n m (l : list wstate) w old x, nth_error l w = Some old -> old <> WExited ->
  match m with
  | MSubmitting => True
  | MJoining i => i <= n /\ forall k, k < i -> nth_error l k = Some WExited
  | MReturned => forall k, k < n -> nth_error l k = Some WExited
  end ->
  match m with
  | MSubmitting => True
  | MJoining i => i <= n /\ forall k, k < i -> nth_error (set_nth l w x) k = Some WExited
  | MReturned => forall k, k < n -> nth_error (set_nth l w x) k = Some WExited
  end.
Proof.
  intros n m l w old x Hn Hne H. destruct m as [|i|].
  - exact I.
  - destruct H as [Hi Hall]. split; [exact Hi|]. exact (exited_kept l w old x i Hn Hne Hall).
  - exact (exited_kept l w old x n Hn Hne H).
Qed.

(* a lock holder stays WLocked when another worker changes *)
Lemma lock_kept : forall (l : list wstate) w old x lk, nth_error l w = Some old -> old <> WLocked ->
  (forall v, lk = Some v -> nth_error l v = Some WLocked) ->
  forall v, lk = Some v -> nth_error (set_nth l w x) v = Some WLocked.
Proof.
  intros l w old x lk Hn Hne Hlk v Hv.
  destruct (Nat.eq_dec v w) as [He|Hvw].
  - subst v. rewrite (Hlk w Hv) in Hn. congruence.
  - rewrite nth_set_other by exact Hvw. apply Hlk. exact Hv.
Qed.

(* a dead worker in the updated list was already there, unless it is the new one *)
Lemma dead_kept : forall (l : list wstate) w x (P : Prop), dead x = false ->
  (forall v y, nth_error l v = Some y -> dead y = true -> P) ->
  forall v y, nth_error (set_nth l w x) v = Some y -> dead y = true -> P.
Proof.
  intros l w x P Hx Hold v y Hn Hd.
  apply nth_set_cases in Hn. destruct Hn as [[_ Hy]|[_ Hn]].
  - subst y. congruence.
  - exact (Hold v y Hn Hd).
Qed.

Ltac projs := cbn [p_workers p_queue p_sent p_sender p_lock p_main p_starts p_done] in *.

Lemma step_inv : forall n s l s', Inv n s -> step s l = Some s' -> Inv n s'.
Proof.
  intros n s l s' HI Hs. destruct HI as [Hlen Hcnt Hst Hlk Hsd Hjn Hdd].
  destruct l as [| | | |w|w|w|j w|j]; cbn [step] in Hs.
  - (* LSend *)
    destruct (p_main s) eqn:Hm; try discriminate.
    destruct (p_sender s) eqn:Hse; try discriminate.
    inversion Hs; subst s'; clear Hs. constructor; projs.
    + exact Hlen.
    + intros j. specialize (Hcnt j). rewrite cnt_snoc.
      destruct (Nat.eq_dec (p_sent s) j) as [He|Hne].
      * subst j. rewrite Nat.ltb_irrefl in Hcnt.
        assert (Hlt : (p_sent s <? S (p_sent s)) = true) by (apply Nat.ltb_lt; lia).
        rewrite Hlt. lia.
      * destruct (j <? p_sent s) eqn:Hl.
        -- apply Nat.ltb_lt in Hl.
           assert (Hlt : (j <? S (p_sent s)) = true) by (apply Nat.ltb_lt; lia).
           rewrite Hlt. lia.
        -- apply Nat.ltb_ge in Hl.
           assert (Hlt : (j <? S (p_sent s)) = false) by (apply Nat.ltb_ge; lia).
           rewrite Hlt. lia.
    + exact Hst.
    + exact Hlk.
    + reflexivity.
    + exact I.
    + intros w x Hn Hd. destruct (Hdd w x Hn Hd) as [_ Hf]. congruence.
  - (* LDropSender *)
    destruct (p_main s) eqn:Hm; try discriminate.
    inversion Hs; subst s'; clear Hs. constructor; projs.
    + exact Hlen.
    + exact Hcnt.
    + exact Hst.
    + exact Hlk.
    + reflexivity.
    + split; [lia|]. intros k Hk. lia.
    + intros w x Hn Hd. destruct (Hdd w x Hn Hd) as [Hq _]. split; [exact Hq|reflexivity].
  - (* LJoined *)
    destruct (p_main s) as [|i|] eqn:Hm; try discriminate.
    destruct (nth_error (p_workers s) i) as [x|] eqn:Hi; try discriminate.
    destruct x; try discriminate.
    inversion Hs; subst s'; clear Hs. constructor; projs.
    + exact Hlen.
    + exact Hcnt.
    + exact Hst.
    + exact Hlk.
    + exact Hsd.
    + destruct Hjn as [Hle Hall]. apply nth_error_lt in Hi as Hlt. split; [lia|].
      intros k Hk. destruct (Nat.eq_dec k i) as [He|Hne].
      * subst k. exact Hi.
      * apply Hall. lia.
    + exact Hdd.
  - (* LReturned *)
    destruct (p_main s) as [|i|] eqn:Hm; try discriminate.
    destruct (Nat.eqb i (length (p_workers s))) eqn:He; try discriminate.
    apply Nat.eqb_eq in He.
    inversion Hs; subst s'; clear Hs. constructor; projs.
    + exact Hlen.
    + exact Hcnt.
    + exact Hst.
    + exact Hlk.
    + exact Hsd.
    + destruct Hjn as [Hle Hall]. intros k Hk. apply Hall. lia.
    + exact Hdd.
  - (* LLock w *)
    destruct (nth_error (p_workers s) w) as [x|] eqn:Hw; try discriminate.
    destruct x; try discriminate.
    destruct (p_lock s) eqn:Hl; try discriminate.
    inversion Hs; subst s'; clear Hs. unfold upd. constructor; projs.
    + rewrite length_set_nth. exact Hlen.
    + intros j. specialize (Hcnt j).
      pose proof (cnt_flat_set gj _ _ _ WLocked j Hw) as Hg.
      pose proof (cnt_flat_set rj _ _ _ WLocked j Hw) as Hr.
      unfold gjobs, rjobs in *. cbn [gj rj count_occ] in Hg, Hr. lia.
    + intros j. specialize (Hst j).
      pose proof (cnt_flat_set rj _ _ _ WLocked j Hw) as Hr.
      unfold rjobs in *. cbn [rj count_occ] in Hr. lia.
    + intros v Hv. inversion Hv; subst v. apply nth_set_same. apply nth_error_lt in Hw. exact Hw.
    + exact Hsd.
    + apply (join_kept n _ _ w WIdle WLocked Hw); [discriminate|exact Hjn].
    + apply (dead_kept _ w WLocked); [reflexivity|exact Hdd].
  - (* LUnlock w *)
    destruct (nth_error (p_workers s) w) as [x|] eqn:Hw; try discriminate.
    destruct x; try discriminate.
    destruct (p_queue s) as [|j q] eqn:Hq.
    + destruct (p_sender s) eqn:Hse; try discriminate.
      inversion Hs; subst s'; clear Hs. unfold upd. constructor; projs.
      * rewrite length_set_nth. exact Hlen.
      * intros j. specialize (Hcnt j).
        pose proof (cnt_flat_set gj _ _ _ WDisc j Hw) as Hg.
        pose proof (cnt_flat_set rj _ _ _ WDisc j Hw) as Hr.
        unfold gjobs, rjobs in *. cbn [gj rj count_occ] in Hg, Hr, Hcnt |- *. lia.
      * intros j. specialize (Hst j).
        pose proof (cnt_flat_set rj _ _ _ WDisc j Hw) as Hr.
        unfold rjobs in *. cbn [rj count_occ] in Hr. lia.
      * intros v Hv. discriminate.
      * exact Hsd.
      * apply (join_kept n _ _ w WLocked WDisc Hw); [discriminate|exact Hjn].
      * intros v y Hn Hd. split; reflexivity.
    + inversion Hs; subst s'; clear Hs. unfold upd. constructor; projs.
      * rewrite length_set_nth. exact Hlen.
      * intros j0. specialize (Hcnt j0).
        pose proof (cnt_flat_set gj _ _ _ (WGot j) j0 Hw) as Hg.
        pose proof (cnt_flat_set rj _ _ _ (WGot j) j0 Hw) as Hr.
        unfold gjobs, rjobs in *. cbn [gj rj count_occ] in Hg, Hr, Hcnt.
        destruct (Nat.eq_dec j j0); lia.
      * intros j0. specialize (Hst j0).
        pose proof (cnt_flat_set rj _ _ _ (WGot j) j0 Hw) as Hr.
        unfold rjobs in *. cbn [rj count_occ] in Hr. lia.
      * intros v Hv. discriminate.
      * exact Hsd.
      * apply (join_kept n _ _ w WLocked (WGot j) Hw); [discriminate|exact Hjn].
      * apply (dead_kept _ w (WGot j)); [reflexivity|].
        intros v y Hn Hd. destruct (Hdd v y Hn Hd) as [Hq' _]. discriminate.
  - (* LExit w *)
    destruct (nth_error (p_workers s) w) as [x|] eqn:Hw; try discriminate.
    destruct x; try discriminate.
    inversion Hs; subst s'; clear Hs. unfold upd. constructor; projs.
    + rewrite length_set_nth. exact Hlen.
    + intros j. specialize (Hcnt j).
      pose proof (cnt_flat_set gj _ _ _ WExited j Hw) as Hg.
      pose proof (cnt_flat_set rj _ _ _ WExited j Hw) as Hr.
      unfold gjobs, rjobs in *. cbn [gj rj count_occ] in Hg, Hr. lia.
    + intros j. specialize (Hst j).
      pose proof (cnt_flat_set rj _ _ _ WExited j Hw) as Hr.
      unfold rjobs in *. cbn [rj count_occ] in Hr. lia.
    + apply (lock_kept _ w WDisc WExited _ Hw); [discriminate|exact Hlk].
    + exact Hsd.
    + apply (join_kept n _ _ w WDisc WExited Hw); [discriminate|exact Hjn].
    + intros v y Hn Hd. exact (Hdd w WDisc Hw eq_refl).
  - (* LJobStart j w *)
    destruct (nth_error (p_workers s) w) as [x|] eqn:Hw; try discriminate.
    destruct x as [| |j'| | |]; try discriminate.
    destruct (Nat.eqb j j') eqn:He; try discriminate.
    apply Nat.eqb_eq in He. subst j'.
    inversion Hs; subst s'; clear Hs. unfold upd. constructor; projs.
    + rewrite length_set_nth. exact Hlen.
    + intros j0. specialize (Hcnt j0).
      pose proof (cnt_flat_set gj _ _ _ (WRunning j) j0 Hw) as Hg.
      pose proof (cnt_flat_set rj _ _ _ (WRunning j) j0 Hw) as Hr.
      unfold gjobs, rjobs in *. cbn [gj rj count_occ] in Hg, Hr.
      destruct (Nat.eq_dec j j0); lia.
    + intros j0. specialize (Hst j0). rewrite cnt_snoc.
      pose proof (cnt_flat_set rj _ _ _ (WRunning j) j0 Hw) as Hr.
      unfold rjobs in *. cbn [rj count_occ] in Hr.
      destruct (Nat.eq_dec j j0); lia.
    + apply (lock_kept _ w (WGot j) (WRunning j) _ Hw); [discriminate|exact Hlk].
    + exact Hsd.
    + apply (join_kept n _ _ w (WGot j) (WRunning j) Hw); [discriminate|exact Hjn].
    + apply (dead_kept _ w (WRunning j)); [reflexivity|exact Hdd].
  - (* LJobEnd j *)
    destruct (find_index _ (p_workers s)) as [w|] eqn:Hf; try discriminate.
    apply find_index_some in Hf. destruct Hf as [x [Hw Hp]].
    destruct x as [| | |j'| |]; try discriminate.
    apply Nat.eqb_eq in Hp. subst j'.
    inversion Hs; subst s'; clear Hs. unfold upd. constructor; projs.
    + rewrite length_set_nth. exact Hlen.
    + intros j0. specialize (Hcnt j0). rewrite cnt_snoc.
      pose proof (cnt_flat_set gj _ _ _ WIdle j0 Hw) as Hg.
      pose proof (cnt_flat_set rj _ _ _ WIdle j0 Hw) as Hr.
      unfold gjobs, rjobs in *. cbn [gj rj count_occ] in Hg, Hr.
      destruct (Nat.eq_dec j j0); lia.
    + intros j0. specialize (Hst j0). rewrite cnt_snoc.
      pose proof (cnt_flat_set rj _ _ _ WIdle j0 Hw) as Hr.
      unfold rjobs in *. cbn [rj count_occ] in Hr.
      destruct (Nat.eq_dec j j0); lia.
    + apply (lock_kept _ w (WRunning j) WIdle _ Hw); [discriminate|exact Hlk].
    + exact Hsd.
    + apply (join_kept n _ _ w (WRunning j) WIdle Hw); [discriminate|exact Hjn].
    + apply (dead_kept _ w WIdle); [reflexivity|exact Hdd].
Qed.

Lemma run_inv : forall n tr s s', Inv n s -> run s tr = Some s' -> Inv n s'.
Proof.
  intros n tr. induction tr as [|l r IH]; intros s s' HI Hr; cbn [run] in Hr.
  - inversion Hr; subst s'. exact HI.
  - destruct (step s l) as [s1|] eqn:Hs; [|discriminate].
    apply (IH s1 s'); [|exact Hr]. exact (step_inv n s l s1 HI Hs).
Qed.

Lemma reach_inv : forall n tr s, run (pool_init n) tr = Some s -> Inv n s.
Proof.
  intros n tr s Hr. exact (run_inv n tr (pool_init n) s (inv_init n) Hr).
Qed.

(* ---------- C13 lemmas ---------- *)

Lemma at_most_once : forall n tr s, run (pool_init n) tr = Some s ->
  NoDup (p_starts s) /\ (forall j, In j (p_starts s) -> j < p_sent s) /\
  NoDup (p_done s) /\ (forall j, In j (p_done s) -> In j (p_starts s)).
Proof.
  intros n tr s Hr. apply reach_inv in Hr. destruct Hr as [Hlen Hcnt Hst Hlk Hsd Hjn Hdd].
  assert (Hle : forall j, (if j <? p_sent s then 1 else 0) <= 1).
  { intros j. destruct (j <? p_sent s); lia. }
  split; [|split; [|split]].
  - apply (NoDup_count_occ Nat.eq_dec). intros j.
    specialize (Hcnt j). specialize (Hst j). specialize (Hle j). lia.
  - intros j Hin. apply (count_occ_In Nat.eq_dec) in Hin.
    specialize (Hcnt j). specialize (Hst j).
    destruct (j <? p_sent s) eqn:Hl.
    + apply Nat.ltb_lt. exact Hl.
    + lia.
  - apply (NoDup_count_occ Nat.eq_dec). intros j.
    specialize (Hcnt j). specialize (Hle j). lia.
  - intros j Hin. apply (count_occ_In Nat.eq_dec) in Hin.
    apply (count_occ_In Nat.eq_dec). specialize (Hst j). lia.
Qed.

(* a state in which some worker has exited or seen Disconnected, and no worker holds an unstarted job:
   every submitted job is running or done *)
Lemma settled : forall n s j, Inv n s ->
  (exists w x, nth_error (p_workers s) w = Some x /\ dead x = true) ->
  (forall w j', nth_error (p_workers s) w <> Some (WGot j')) ->
  j < p_sent s -> (exists w, nth_error (p_workers s) w = Some (WRunning j)) \/ In j (p_done s).
Proof.
  intros n s j HI [w [x [Hw Hd]]] Hng Hj. destruct HI as [Hlen Hcnt Hst Hlk Hsd Hjn Hdd].
  destruct (Hdd w x Hw Hd) as [Hq _].
  specialize (Hcnt j). rewrite Hq in Hcnt. cbn [count_occ] in Hcnt.
  apply Nat.ltb_lt in Hj. rewrite Hj in Hcnt.
  assert (Hg : cnt (gjobs (p_workers s)) j = 0).
  { apply cnt_notin. intros Hin. apply in_gjobs in Hin. destruct Hin as [v Hv]. exact (Hng v j Hv). }
  destruct (Nat.eq_dec (cnt (rjobs (p_workers s)) j) 0) as [Hr0|Hr1].
  - right. apply cnt_pos_in. lia.
  - left. apply in_rjobs. apply cnt_pos_in. exact Hr1.
Qed.

(* FALSE for n = 0: run (pool_init 0) [LSend; LDropSender; LReturned] ends in MReturned with job 0
   still queued.  Proved under the minimal extra hypothesis 0 < n. *)
Lemma drained_partial : forall n tr s, 0 < n -> run (pool_init n) tr = Some s -> p_main s = MReturned ->
  forall j, j < p_sent s -> In j (p_done s).
Proof.
  intros n tr s Hn Hr Hm j Hj. apply reach_inv in Hr.
  pose proof (inv_join n s Hr) as Hjn. rewrite Hm in Hjn.
  pose proof (inv_len n s Hr) as Hlen.
  assert (Hall : forall w x, nth_error (p_workers s) w = Some x -> x = WExited).
  { intros w x Hw. apply nth_error_lt in Hw as Hlt. rewrite Hlen in Hlt.
    rewrite (Hjn w Hlt) in Hw. congruence. }
  destruct (settled n s j Hr) as [[w Hw]|Hd].
  - exists 0, WExited. split; [apply Hjn; exact Hn|reflexivity].
  - intros w j' Hw. apply Hall in Hw. discriminate.
  - exact Hj.
  - apply Hall in Hw. discriminate.
  - exact Hd.
Qed.

Example drained_false_at_0 :
  exists tr s, run (pool_init 0) tr = Some s /\ p_main s = MReturned /\ 0 < p_sent s /\ ~ In 0 (p_done s).
Proof.
  exists [LSend; LDropSender; LReturned].
  eexists. split; [vm_compute; reflexivity|]. cbn. split; [reflexivity|]. split; [lia|]. intros [].
Qed.

Lemma lock_scope : forall n tr s w, run (pool_init n) tr = Some s -> p_lock s = Some w ->
  nth_error (p_workers s) w = Some WLocked.
Proof.
  intros n tr s w Hr Hl. apply reach_inv in Hr. exact (inv_lock n s Hr w Hl).
Qed.

(* enabledness of the worker steps *)
Lemma en_unlock : forall s w, nth_error (p_workers s) w = Some WLocked -> p_sender s = false ->
  exists s', step s (LUnlock w) = Some s'.
Proof.
  intros s w Hw Hs. cbn [step]. rewrite Hw, Hs. destruct (p_queue s); eexists; reflexivity.
Qed.

Lemma en_lock : forall n s w, Inv n s -> nth_error (p_workers s) w = Some WIdle -> p_sender s = false ->
  exists l s', step s l = Some s' /\ (forall j, l <> LJobEnd j).
Proof.
  intros n s w HI Hw Hs. destruct (p_lock s) as [v|] eqn:Hl.
  - pose proof (inv_lock n s HI v Hl) as Hv. destruct (en_unlock s v Hv Hs) as [s' Hs'].
    exists (LUnlock v), s'. split; [exact Hs'|]. intros j. discriminate.
  - exists (LLock w). cbn [step]. rewrite Hw, Hl. eexists. split; [reflexivity|]. intros j. discriminate.
Qed.

Lemma en_start : forall s w j, nth_error (p_workers s) w = Some (WGot j) ->
  exists s', step s (LJobStart j w) = Some s'.
Proof.
  intros s w j Hw. cbn [step]. rewrite Hw, Nat.eqb_refl. eexists. reflexivity.
Qed.

Lemma en_end : forall s w j, nth_error (p_workers s) w = Some (WRunning j) ->
  exists s', step s (LJobEnd j) = Some s'.
Proof.
  intros s w j Hw. cbn [step].
  destruct (find_index_exists _ (fun ws => match ws with WRunning j' => Nat.eqb j j' | _ => false end)
              (p_workers s) w (WRunning j) Hw (Nat.eqb_refl j)) as [w' Hf].
  rewrite Hf. eexists. reflexivity.
Qed.

Lemma en_exit : forall s w, nth_error (p_workers s) w = Some WDisc -> exists s', step s (LExit w) = Some s'.
Proof.
  intros s w Hw. cbn [step]. rewrite Hw. eexists. reflexivity.
Qed.

Lemma progress : forall n tr s, 0 < n -> run (pool_init n) tr = Some s -> p_main s <> MReturned ->
  exists l s', step s l = Some s'.
Proof.
  intros n tr s _ Hr Hm. apply reach_inv in Hr.
  pose proof (inv_sender n s Hr) as Hsd. pose proof (inv_join n s Hr) as Hjn.
  pose proof (inv_len n s Hr) as Hlen.
  destruct (p_main s) as [|i|] eqn:Hmain.
  - exists LSend. cbn [step]. rewrite Hmain, Hsd. eexists. reflexivity.
  - destruct Hjn as [Hle _]. destruct (Nat.eq_dec i n) as [He|Hne].
    + exists LReturned. cbn [step]. rewrite Hmain, Hlen. subst i. rewrite Nat.eqb_refl. eexists. reflexivity.
    + assert (Hi : i < length (p_workers s)) by lia.
      destruct (nth_error (p_workers s) i) as [x|] eqn:Hx.
      2:{ apply nth_error_None in Hx. lia. }
      destruct x as [| |j|j| |].
      * destruct (en_lock n s i Hr Hx Hsd) as [l [s' [Hs' _]]]. exists l, s'. exact Hs'.
      * destruct (en_unlock s i Hx Hsd) as [s' Hs']. exists (LUnlock i), s'. exact Hs'.
      * destruct (en_start s i j Hx) as [s' Hs']. exists (LJobStart j i), s'. exact Hs'.
      * destruct (en_end s i j Hx) as [s' Hs']. exists (LJobEnd j), s'. exact Hs'.
      * destruct (en_exit s i Hx) as [s' Hs']. exists (LExit i), s'. exact Hs'.
      * exists LJoined. cbn [step]. rewrite Hmain, Hx. eexists. reflexivity.
  - congruence.
Qed.

(* ---------- the step bound ---------- *)

Definition wpot (x : wstate) : nat :=
  match x with WIdle => 3 | WLocked => 2 | WGot _ => 5 | WRunning _ => 4 | WDisc => 1 | WExited => 0 end.
Fixpoint wsum (l : list wstate) : nat := match l with [] => 0 | x :: r => wpot x + wsum r end.
Definition mpot (m : mstate) (n : nat) : nat :=
  match m with MSubmitting => n + 2 | MJoining i => n - i + 1 | MReturned => 0 end.
Definition pot (s : pstate) : nat :=
  mpot (p_main s) (length (p_workers s)) + wsum (p_workers s) + 4 * length (p_queue s).
Definition is_send (l : label) : bool := match l with LSend => true | _ => false end.
Definition nsends (tr : list label) : nat :=
  length (filter (fun l => match l with LSend => true | _ => false end) tr).

Lemma wsum_set : forall l w old x, nth_error l w = Some old -> wsum (set_nth l w x) + wpot old = wsum l + wpot x.
Proof.
  intros l. induction l as [|y r IH]; intros w old x Hn.
  - destruct w; discriminate.
  - destruct w as [|k]; cbn [set_nth wsum nth_error] in *.
    + inversion Hn; subst y. lia.
    + specialize (IH k old x Hn). lia.
Qed.

Lemma wsum_repeat : forall n, wsum (repeat WIdle n) = 3 * n.
Proof.
  induction n as [|n IH]; cbn [repeat wsum wpot].
  - reflexivity.
  - rewrite IH. lia.
Qed.

Lemma step_pot : forall s l s', step s l = Some s' ->
  pot s' + 1 <= pot s + (if is_send l then 5 else 0).
Proof.
  intros s l s' Hs. unfold pot.
  destruct l as [| | | |w|w|w|j w|j]; cbn [step] in Hs; cbn [is_send].
  - destruct (p_main s) eqn:Hm; try discriminate.
    destruct (p_sender s) eqn:Hse; try discriminate.
    inversion Hs; subst s'; clear Hs. projs. rewrite app_length. cbn [length mpot]. lia.
  - destruct (p_main s) eqn:Hm; try discriminate.
    inversion Hs; subst s'; clear Hs. projs. cbn [mpot]. lia.
  - destruct (p_main s) as [|i|] eqn:Hm; try discriminate.
    destruct (nth_error (p_workers s) i) as [x|] eqn:Hi; try discriminate.
    destruct x; try discriminate.
    inversion Hs; subst s'; clear Hs. projs. apply nth_error_lt in Hi. cbn [mpot]. lia.
  - destruct (p_main s) as [|i|] eqn:Hm; try discriminate.
    destruct (Nat.eqb i (length (p_workers s))) eqn:He; try discriminate.
    inversion Hs; subst s'; clear Hs. projs. cbn [mpot]. lia.
  - destruct (nth_error (p_workers s) w) as [x|] eqn:Hw; try discriminate.
    destruct x; try discriminate.
    destruct (p_lock s) eqn:Hl; try discriminate.
    inversion Hs; subst s'; clear Hs. unfold upd. projs. rewrite length_set_nth.
    pose proof (wsum_set _ _ _ WLocked Hw) as Hp. cbn [wpot] in Hp. lia.
  - destruct (nth_error (p_workers s) w) as [x|] eqn:Hw; try discriminate.
    destruct x; try discriminate.
    destruct (p_queue s) as [|j q] eqn:Hq.
    + destruct (p_sender s) eqn:Hse; try discriminate.
      inversion Hs; subst s'; clear Hs. unfold upd. projs. rewrite length_set_nth.
      pose proof (wsum_set _ _ _ WDisc Hw) as Hp. cbn [wpot] in Hp. cbn [length]. lia.
    + inversion Hs; subst s'; clear Hs. unfold upd. projs. rewrite length_set_nth.
      pose proof (wsum_set _ _ _ (WGot j) Hw) as Hp. cbn [wpot] in Hp. cbn [length]. lia.
  - destruct (nth_error (p_workers s) w) as [x|] eqn:Hw; try discriminate.
    destruct x; try discriminate.
    inversion Hs; subst s'; clear Hs. unfold upd. projs. rewrite length_set_nth.
    pose proof (wsum_set _ _ _ WExited Hw) as Hp. cbn [wpot] in Hp. lia.
  - destruct (nth_error (p_workers s) w) as [x|] eqn:Hw; try discriminate.
    destruct x as [| |j'| | |]; try discriminate.
    destruct (Nat.eqb j j') eqn:He; try discriminate.
    inversion Hs; subst s'; clear Hs. unfold upd. projs. rewrite length_set_nth.
    pose proof (wsum_set _ _ _ (WRunning j) Hw) as Hp. cbn [wpot] in Hp. lia.
  - destruct (find_index _ (p_workers s)) as [w|] eqn:Hf; try discriminate.
    apply find_index_some in Hf. destruct Hf as [x [Hw Hp0]].
    destruct x as [| | |j'| |]; try discriminate.
    inversion Hs; subst s'; clear Hs. unfold upd. projs. rewrite length_set_nth.
    pose proof (wsum_set _ _ _ WIdle Hw) as Hp. cbn [wpot] in Hp. lia.
Qed.

Lemma run_pot : forall tr s s', run s tr = Some s' -> length tr + pot s' <= pot s + 5 * nsends tr.
Proof.
  intros tr. induction tr as [|l r IH]; intros s s' Hr; cbn [run] in Hr.
  - inversion Hr; subst s'. cbn [length]. lia.
  - destruct (step s l) as [s1|] eqn:Hs; [|discriminate].
    specialize (IH s1 s' Hr). apply step_pot in Hs.
    unfold nsends in *. cbn [filter length].
    destruct l; cbn [is_send length] in *; lia.
Qed.

Lemma bounded_runs : forall n tr s K, run (pool_init n) tr = Some s ->
  length (filter (fun l => match l with LSend => true | _ => false end) tr) <= K ->
  length tr <= 5 * K + 4 * n + 2.
Proof.
  intros n tr s K Hr HK. apply run_pot in Hr. fold (nsends tr) in HK.
  assert (Hp : pot (pool_init n) = 4 * n + 2).
  { unfold pot, pool_init. projs. rewrite repeat_length, wsum_repeat. cbn [mpot length]. lia. }
  rewrite Hp in Hr. lia.
Qed.

(* ---------- parallelism ---------- *)

Lemma rjobs_length_all : forall ws, (forall w x, nth_error ws w = Some x -> exists j, x = WRunning j) ->
  length (rjobs ws) = length ws.
Proof.
  intros ws. induction ws as [|y r IH]; intros Hall.
  - reflexivity.
  - unfold rjobs in *. cbn [flat_map]. rewrite app_length.
    destruct (Hall 0 y eq_refl) as [j Hy]. subst y. cbn [rj length].
    rewrite IH; [reflexivity|]. intros w x Hw. exact (Hall (S w) x Hw).
Qed.

(* if no worker is dead-or-other, all are running: classical-free search for a non-running worker *)
Lemma find_nonrunning : forall ws : list wstate,
  (forall w x, nth_error ws w = Some x -> exists j, x = WRunning j) \/
  (exists w x, nth_error ws w = Some x /\ forall j, x <> WRunning j).
Proof.
  intros ws. induction ws as [|y r IH].
  - left. intros w x Hw. destruct w; discriminate.
  - assert (Hy : (exists j, y = WRunning j) \/ (forall j, y <> WRunning j)).
    { destruct y; try (right; intros j0; discriminate). left. exists j. reflexivity. }
    destruct Hy as [[j Hy]|Hy].
    + destruct IH as [Hall|[w [x [Hw Hx]]]].
      * left. intros w x Hw. destruct w as [|k]; cbn [nth_error] in Hw.
        -- inversion Hw; subst x. exists j. exact Hy.
        -- exact (Hall k x Hw).
      * right. exists (S w), x. split; [exact Hw|exact Hx].
    + right. exists 0, y. split; [reflexivity|exact Hy].
Qed.

Lemma parallel : forall n tr s B, run (pool_init n) tr = Some s -> NoDup B -> length B < n ->
  (forall l s', step s l = Some s' -> exists j, l = LJobEnd j /\ In j B) ->
  forall j, j < p_sent s -> In j B \/ In j (p_done s).
Proof.
  intros n tr s B Hr HB HlenB Hobl j Hj.
  destruct (p_main s) as [|i|] eqn:Hmain.
  - (* Submitting: LSend is enabled *)
    apply reach_inv in Hr. pose proof (inv_sender n s Hr) as Hsd. rewrite Hmain in Hsd.
    assert (Hen : exists s', step s LSend = Some s').
    { cbn [step]. rewrite Hmain, Hsd. eexists. reflexivity. }
    destruct Hen as [s' Hs']. destruct (Hobl _ _ Hs') as [j0 [Hl _]]. discriminate.
  - pose proof (reach_inv n tr s Hr) as HI.
    pose proof (inv_sender n s HI) as Hsd. rewrite Hmain in Hsd.
    pose proof (inv_len n s HI) as Hlen.
    (* every worker is running a job of B, or has exited *)
    assert (Hws : forall w x, nth_error (p_workers s) w = Some x ->
                  (exists j0, x = WRunning j0 /\ In j0 B) \/ x = WExited).
    { intros w x Hw. destruct x as [| |j0|j0| |].
      - destruct (en_lock n s w HI Hw Hsd) as [l [s' [Hs' Hnj]]].
        destruct (Hobl _ _ Hs') as [j1 [Hl _]]. exfalso. exact (Hnj j1 Hl).
      - destruct (en_unlock s w Hw Hsd) as [s' Hs']. destruct (Hobl _ _ Hs') as [j1 [Hl _]]. discriminate.
      - destruct (en_start s w j0 Hw) as [s' Hs']. destruct (Hobl _ _ Hs') as [j1 [Hl _]]. discriminate.
      - destruct (en_end s w j0 Hw) as [s' Hs']. destruct (Hobl _ _ Hs') as [j1 [Hl Hin]].
        inversion Hl; subst j1. left. exists j0. split; [reflexivity|exact Hin].
      - destruct (en_exit s w Hw) as [s' Hs']. destruct (Hobl _ _ Hs') as [j1 [Hl _]]. discriminate.
      - right. reflexivity. }
    assert (Hone : forall j0, cnt (rjobs (p_workers s)) j0 <= 1).
    { intros j0. pose proof (inv_count n s HI j0) as Hc. destruct (j0 <? p_sent s); lia. }
    destruct (find_nonrunning (p_workers s)) as [Hall|[w [x [Hw Hx]]]].
    + (* all n workers run distinct jobs of B: impossible, B is too small *)
      exfalso.
      assert (Hl : length (rjobs (p_workers s)) = n).
      { rewrite (rjobs_length_all _ Hall). exact Hlen. }
      assert (Hnd : NoDup (rjobs (p_workers s))).
      { apply (NoDup_count_occ Nat.eq_dec). exact Hone. }
      assert (Hincl : incl (rjobs (p_workers s)) B).
      { intros j0 Hin. apply in_rjobs in Hin. destruct Hin as [w Hw].
        destruct (Hws w _ Hw) as [[j1 [He Hin]]|He].
        - inversion He; subst j1. exact Hin.
        - discriminate. }
      pose proof (NoDup_incl_length Hnd Hincl) as Hle. lia.
    + (* some worker has exited: the queue is empty *)
      assert (Hex : x = WExited).
      { destruct (Hws w x Hw) as [[j1 [He _]]|He].
        - exfalso. exact (Hx j1 He).
        - exact He. }
      subst x.
      destruct (settled n s j HI) as [[v Hv]|Hd].
      * exists w, WExited. split; [exact Hw|reflexivity].
      * intros v j' Hv. destruct (Hws v _ Hv) as [[j1 [He _]]|He]; discriminate.
      * exact Hj.
      * left. destruct (Hws v _ Hv) as [[j1 [He Hin]]|He].
        -- inversion He; subst j1. exact Hin.
        -- discriminate.
      * right. exact Hd.
  - right. apply (drained_partial n tr s); [lia|exact Hr|exact Hmain|exact Hj].
Qed.
