(* C07 — the whole connection: every lock-step history gives exactly the sequential transcript
   (the statement for arbitrary segmentations, of which this one is a corollary, is in Proofs/ServerConnAny.v).
   Re-exports the one-request theorems of Proofs/ServerConnOne.v. *)
From KV Require Import Lib.Bytes Model.Headers Model.Parser Model.Body Model.Server
  Spec.HeaderStore Spec.HttpGrammar Spec.ChunkedSpec Spec.Framing Spec.ConnSpec Spec.ConnKnown
  Proofs.ParserSound Proofs.ParserSafe Proofs.BodyBase Proofs.BodyBaseChunk
  Proofs.ServerFraming Proofs.ServerConnBase Proofs.ServerConnSrc Proofs.ServerConnBody Proofs.ServerConnHead
  Proofs.ServerConnCut Proofs.ServerConnLock Proofs.ServerConnLocal.
From KV Require Export Proofs.ServerConnOne.

(* ------------------------------------------------------------------ small facts *)
Lemma offset_pos : forall s r, parse_request s = Ok r -> 0 < q_offset r.
Proof.
  intros s r H. apply request_sound in H. destruct H as [sh [Hs _]].
  apply strict_head_exact in Hs. destruct Hs as [Hs _].
  apply (f_equal (@length byte)) in Hs. rewrite !app_length in Hs. cbn [length] in Hs.
  pose proof (firstn_le_length (q_offset r) s). lia.
Qed.

Lemma view_suffix : forall f ah p rest, view_body f ah = BodyOk p rest -> exists ah', ah = ah' ++ rest.
Proof. intros f ah p rest H. destruct (view_body_cut f ah p rest H) as [ah' [E _]]. exists ah'. exact E. Qed.

(* ------------------------------------------------------------------ handle_one_request by outcome of the head *)
Definition hfuel (sg : list bytes) : nat := S (length sg) + length (concat sg).

Lemma hor_eof a N ka sg : fst (read_request (hfuel sg) N [] sg) = REof ->
  let o := handle_one_request a N ka sg in
  o_resps o = [] /\ o_keep o = false /\ o_ok o = true /\ o_eof o = true.
Proof.
  unfold hfuel, handle_one_request. destruct (read_request _ N [] sg) as [res sg']. cbn [fst]. intros ->.
  cbv zeta. repeat split.
Qed.

Lemma hor_too_large a N ka sg : fst (read_request (hfuel sg) N [] sg) = RTooLarge ->
  let o := handle_one_request a N ka sg in
  o_resps o = [ev 431 [] true] /\ o_keep o = false /\ o_ok o = true /\ o_eof o = false.
Proof.
  unfold hfuel, handle_one_request. destruct (read_request _ N [] sg) as [res sg']. cbn [fst]. intros ->.
  cbv zeta. repeat split.
Qed.

Lemma hor_invalid a N ka sg : fst (read_request (hfuel sg) N [] sg) = RInvalid ->
  let o := handle_one_request a N ka sg in
  o_resps o = [ev 400 [] true] /\ o_keep o = false /\ o_ok o = true /\ o_eof o = false.
Proof.
  unfold hfuel, handle_one_request. destruct (read_request _ N [] sg) as [res sg']. cbn [fst]. intros ->.
  cbv zeta. repeat split.
Qed.

(* ------------------------------------------------------------------ handle_connection, one step *)
Lemma hc_stop f a N ka sg acc n : o_ok (handle_one_request a N ka sg) = true ->
  o_keep (handle_one_request a N ka sg) = false ->
  c_resps (handle_connection (S f) a N ka sg acc n) = acc ++ o_resps (handle_one_request a N ka sg) /\
  c_waiting (handle_connection (S f) a N ka sg acc n) = o_eof (handle_one_request a N ka sg).
Proof. intros H1 H2. cbn [handle_connection]. cbv zeta. rewrite H1, H2. cbn [negb]. split; reflexivity. Qed.

Lemma hc_err f a N ka sg acc n : o_ok (handle_one_request a N ka sg) = false ->
  c_resps (handle_connection (S f) a N ka sg acc n) = acc ++ o_resps (handle_one_request a N ka sg) /\
  c_waiting (handle_connection (S f) a N ka sg acc n) = false.
Proof. intros H1. cbn [handle_connection]. cbv zeta. rewrite H1. cbn [negb]. split; reflexivity. Qed.

Lemma hc_cont f a N ka sg acc n : o_ok (handle_one_request a N ka sg) = true ->
  o_keep (handle_one_request a N ka sg) = true ->
  exists n', handle_connection (S f) a N ka sg acc n =
    handle_connection f a N (ka && negb (existsb rs_close (o_resps (handle_one_request a N ka sg))))
      (o_rest (handle_one_request a N ka sg)) (acc ++ o_resps (handle_one_request a N ka sg)) n'.
Proof. intros H1 H2. cbn [handle_connection]. cbv zeta. rewrite H1, H2. cbn [negb]. eexists. reflexivity. Qed.

(* ------------------------------------------------------------------ the specification: keep implies no close *)
Lemma spec_keep_no_close a r raw ah payload rest resps keep rest' : rfc_framing raw <> FReject ->
  view_body (rfc_framing raw) ah = BodyOk payload rest ->
  spec_one a r raw ah = (resps, keep, rest') -> keep = true -> existsb rs_close resps = false /\ rest' = rest.
Proof.
  intros Hne Hv. rewrite (spec_one_ok a r raw ah payload rest Hne Hv).
  destruct (hook_of a r); [destruct (behaviour_of a r)| |]; intros E; inversion E; subst;
    intros Hk; try discriminate; split; reflexivity.
Qed.

Lemma spec_one_rest_indep a r raw ah1 ah2 payload rest1 rest2 : rfc_framing raw <> FReject ->
  view_body (rfc_framing raw) ah1 = BodyOk payload rest1 ->
  view_body (rfc_framing raw) ah2 = BodyOk payload rest2 ->
  fst (spec_one a r raw ah1) = fst (spec_one a r raw ah2).
Proof.
  intros Hne H1 H2. rewrite (spec_one_ok a r raw ah1 payload rest1 Hne H1), (spec_one_ok a r raw ah2 payload rest2 Hne H2).
  destruct (hook_of a r); [destruct (behaviour_of a r)| |]; reflexivity.
Qed.

(* the responses to a request whose body is cut short or malformed: the connection is never kept *)
Definition bad_resps (a : app) (r : request) : list response_ev :=
  match hook_of a r with
  | HAnswer => [ev 200 (bs "hook") false]
  | HAnswerClose => [ev 200 (bs "hook") true]
  | HProceed =>
      match behaviour_of a r with
      | BAll | BErr => []
      | BReadK k => [ev 200 (describe a r (firstn_bytes k [])) false]
      | BNone st => [ev st (describe a r []) false]
      | BFirst | BHold | BErrAfter => [ev 200 (describe a r []) false]
      | BClose => [ev 200 (describe a r []) true]
      | BReader n => [ev 200 (reader_payload n) false]
      end
  end.

Lemma spec_one_bad a r raw ah : rfc_framing raw <> FReject -> view_body (rfc_framing raw) ah = BodyBad ->
  exists rest', spec_one a r raw ah = (bad_resps a r, false, rest').
Proof.
  intros Hne Hv. unfold spec_one, bad_resps.
  destruct (rfc_framing raw); try contradiction; rewrite Hv;
    (destruct (hook_of a r); [destruct (behaviour_of a r)| |]); rewrite ?andb_false_r; eexists; reflexivity.
Qed.

(* [body_unspecified_for] once the framing is known *)
Lemma unspec_reject a r raw ah : rfc_framing raw = FReject -> body_unspecified_for a r raw ah = false.
Proof. intros H. unfold body_unspecified_for. rewrite H. reflexivity. Qed.

Lemma unspec_framed a r raw ah : rfc_framing raw <> FReject ->
  body_unspecified_for a r raw ah =
  match view_body (rfc_framing raw) ah with
  | BodyUnspec => true
  | BodyBad => match hook_of a r, behaviour_of a r with HProceed, BReadK _ => true | _, _ => false end
  | BodyOk _ _ => false
  end.
Proof. intros H. unfold body_unspecified_for. destruct (rfc_framing raw); try contradiction; reflexivity. Qed.

(* ------------------------------------------------------------------ a head that was read *)
Lemma read_parsed N sg r : parse_request (firstn N (concat sg)) = Ok r ->
  exists buf unread, read_request (hfuel sg) N [] sg = (RParsed buf r, unread) /\
    buf ++ concat unread = concat sg /\ q_offset r <= length buf.
Proof.
  intros Hp. destruct (read_request_split (hfuel sg) N sg [] r Hp) as [buf [unread [H1 [H2 [_ [_ H5]]]]]].
  { unfold hfuel. lia. }
  rewrite !app_nil_r in H1. exists buf, unread. split; [exact H1|]. split; [exact H2|].
  apply (request_fields_safe _ _ H5).
Qed.

(* a request that cannot be framed: 400 *)
Lemma hor_reject a N ka sg r : parse_request (firstn N (concat sg)) = Ok r ->
  rfc_framing (raw_fields (firstn N (concat sg))) = FReject ->
  let o := handle_one_request a N ka sg in
  o_resps o = [ev 400 [] true] /\ o_keep o = false /\ o_ok o = true /\ o_eof o = false.
Proof.
  intros Hp Hr. destruct (read_parsed N sg r Hp) as [buf [unread [H1 _]]].
  pose proof (framing_decision _ _ Hp) as Hfr. rewrite Hr in Hfr.
  unfold handle_one_request. fold (hfuel sg). rewrite H1. cbv zeta.
  unfold server_framing' in Hfr.
  destruct (te_present (q_hdrs r) && negb (te_final_chunked (q_hdrs r))).
  - repeat split.
  - exfalso. destruct (Headers.chunked (q_hdrs r)); [discriminate|].
    destruct (content_length (q_hdrs r)) as [n|]; [destruct (N.eqb n 0)|]; discriminate.
Qed.

(* the reader the server builds on a body that is cut short or malformed *)
Lemma init_IB lo unread h : server_framing' h <> FReject ->
  view_body (server_framing' h) (lo ++ concat unread) = BodyBad ->
  IB (from_request lo unread h) [] /\
  length (reach (body_src (from_request lo unread h))) < body_fuel (from_request lo unread h).
Proof.
  intros Hne Hv. rewrite (reader_of_framing _ _ _ Hne).
  destruct (server_framing' h) as [|n| |] eqn:Ef; cbn [view_body] in Hv.
  - destruct (spec_decode (lo ++ concat unread)) as [p rest|w|] eqn:Es; try discriminate. split.
    + cbn [IB new_chunked]. split; [apply Bound_mk|]. exists w. exact Es.
    + unfold body_fuel, new_chunked. cbn [body_src c_src]. apply (Bound_fuel _ (Bound_mk lo unread)).
  - destruct (spec_fixed n (lo ++ concat unread)) as [p rest|w|] eqn:Es; try discriminate.
    unfold spec_fixed in Es. destruct (take_n n (lo ++ concat unread)) as [[d x]|] eqn:Et; [discriminate|].
    apply take_n_none in Et. split.
    + cbn [IB new_fixed f_src f_remaining]. rewrite reach_mk_take.
      pose proof (lenN_firstnN_le_len n (lo ++ concat unread)). lia.
    + unfold body_fuel, new_fixed. cbn [body_src f_src]. apply (Bound_fuel _ (Bound_mk_take lo unread n)).
  - discriminate.
  - contradiction.
Qed.

(* a request whose body is cut short or malformed: it is answered as the specification says, and either the handler's
   error is propagated or (fix F21) the connection is not kept - the failed discard of the body is noticed.
   (A handler that reads part of such a body is not covered: [body_unspecified_for].) *)
Lemma hor_bad_body a N ka sg r : parse_request (firstn N (concat sg)) = Ok r ->
  rfc_framing (raw_fields (firstn N (concat sg))) <> FReject ->
  view_body (rfc_framing (raw_fields (firstn N (concat sg)))) (skipn (q_offset r) (concat sg)) = BodyBad ->
  match hook_of a r, behaviour_of a r with HProceed, BReadK _ => false | _, _ => true end = true ->
  let o := handle_one_request a N ka sg in
  o_resps o = bad_resps a r /\ o_eof o = false /\ (o_ok o = false \/ (o_ok o = true /\ o_keep o = false)).
Proof.
  intros Hp Hne Hv Hcov. destruct (read_parsed N sg r Hp) as [buf [unread [H1 [H2 H3]]]].
  pose proof (framing_decision _ _ Hp) as Hfr.
  assert (Hah : skipn (q_offset r) (concat sg) = skipn (q_offset r) buf ++ concat unread).
  { rewrite <- H2, skipn_app. replace (q_offset r - length buf) with 0 by lia. reflexivity. }
  rewrite Hah, <- Hfr in Hv. rewrite <- Hfr in Hne.
  unfold handle_one_request. fold (hfuel sg). rewrite H1. cbv zeta.
  assert (Hte : te_present (q_hdrs r) && negb (te_final_chunked (q_hdrs r)) = false).
  { destruct (te_present (q_hdrs r) && negb (te_final_chunked (q_hdrs r))) eqn:E; [|reflexivity].
    exfalso. apply Hne. unfold server_framing'. rewrite E. reflexivity. }
  rewrite Hte.
  destruct (init_IB (skipn (q_offset r) buf) unread (q_hdrs r) Hne Hv) as [HI Hfu].
  set (b0 := from_request (skipn (q_offset r) buf) unread (q_hdrs r)) in *.
  pose proof (located_invalid false b0 [] HI) as Hloc.
  unfold bad_resps. destruct (hook_of a r) eqn:Eh.
  - unfold run_handler. destruct (behaviour_of a r) as [|k|st| | | | | |n] eqn:Eb.
    + destruct (read_to_end_invalid (body_fuel b0) b0 [] HI Hfu) as [e [b' Hinv]]. rewrite Hinv.
      cbn [o_resps o_keep o_ok o_eof]. split; [reflexivity|]. split; [reflexivity|]. left. reflexivity.
    + discriminate Hcov.
    + rewrite Hloc. cbn [o_resps o_keep o_ok o_eof]. rewrite andb_false_r.
      split; [reflexivity|]. split; [reflexivity|]. right. split; reflexivity.
    + destruct (read_to_end_invalid (body_fuel b0) b0 [] HI Hfu) as [e [b' Hinv]]. rewrite Hinv.
      cbn [o_resps o_keep o_ok o_eof located negb andb]. rewrite andb_false_r.
      split; [reflexivity|]. split; [reflexivity|]. right. split; reflexivity.
    + rewrite Hloc. cbn [o_resps o_keep o_ok o_eof]. rewrite andb_false_r.
      split; [reflexivity|]. split; [reflexivity|]. right. split; reflexivity.
    + cbn [o_resps o_keep o_ok o_eof]. split; [reflexivity|]. split; [reflexivity|]. left. reflexivity.
    + cbn [o_resps o_keep o_ok o_eof]. split; [reflexivity|]. split; [reflexivity|]. left. reflexivity.
    + rewrite Hloc. cbn [o_resps o_keep o_ok o_eof]. rewrite andb_false_r.
      split; [reflexivity|]. split; [reflexivity|]. right. split; reflexivity.
    + rewrite Hloc. cbn [o_resps o_keep o_ok o_eof]. rewrite andb_false_r.
      split; [reflexivity|]. split; [reflexivity|]. right. split; reflexivity.
  - rewrite Hloc. cbn [o_resps o_keep o_ok o_eof]. rewrite andb_false_r.
    split; [reflexivity|]. split; [reflexivity|]. right. split; reflexivity.
  - cbn [o_resps o_keep o_ok o_eof].
    split; [reflexivity|]. split; [reflexivity|]. right. split; reflexivity.
Qed.

(* ------------------------------------------------------------------ the connection *)
Section Conn.
Variable a : app.
Variable N : nat.
Hypothesis Npos : 0 < N.

(* provided by Proofs/ServerConnLocal.v and Proofs/ServerConnLock.v *)
Hypothesis H_head_prefix : forall s r k, parse_request s = Ok r -> q_offset r <= k ->
  parse_request (firstn k s) = Ok r /\ raw_fields (firstn k s) = raw_fields s.
Hypothesis H_lockstep_split : forall sg r payload rest pfx,
  concat sg = pfx ++ rest -> pfx <> [] ->
  parse_request (firstn N (concat sg)) = Ok r ->
  rfc_framing (raw_fields (firstn N (concat sg))) <> FReject ->
  view_body (rfc_framing (raw_fields (firstn N (concat sg)))) (skipn (q_offset r) (concat sg)) = BodyOk payload rest ->
  lockstep a N sg = true ->
  exists reqsegs later, sg = reqsegs ++ later /\ concat reqsegs = pfx /\ concat later = rest /\
    (forall pre, reqsegs <> pre ++ [[]]) /\
    lockstep a N later = true.

(* the request at the front of a lock-step stream, its body readable: one step of both sides *)
Lemma conn_step_ok sg r payload rest :
  parse_request (firstn N (concat sg)) = Ok r ->
  rfc_framing (raw_fields (firstn N (concat sg))) <> FReject ->
  view_body (rfc_framing (raw_fields (firstn N (concat sg)))) (skipn (q_offset r) (concat sg)) = BodyOk payload rest ->
  lockstep a N sg = true ->
  let o := handle_one_request a N true sg in
  let '(resps, keep, rest') := spec_one a r (raw_fields (firstn N (concat sg))) (skipn (q_offset r) (concat sg)) in
  o_resps o = resps /\ o_eof o = false /\ rest' = (if keep then rest else rest') /\
  (o_ok o = false -> keep = false) /\
  (o_ok o = true -> o_keep o = keep) /\
  (keep = true -> existsb rs_close resps = false /\
     exists later, o_rest o = later /\ concat later = rest /\ lockstep a N later = true /\
                   length rest < length (concat sg)).
Proof.
  intros Hp Hne Hv Hls. set (s := concat sg) in *.
  set (raw := raw_fields (firstn N s)) in *.
  pose proof (offset_pos _ _ Hp) as Hoff0.
  destruct (request_fields_safe _ _ Hp) as [Hoff1 _].
  rewrite firstn_length in Hoff1.
  destruct (view_body_cut _ _ _ _ Hv) as [ah' [Hah Hv']].
  set (pfx := firstn (q_offset r) s ++ ah').
  assert (Hs : s = pfx ++ rest).
  { unfold pfx. rewrite <- app_assoc, <- Hah. symmetry. apply firstn_skipn. }
  assert (Hlen1 : length (firstn (q_offset r) s) = q_offset r) by (apply firstn_length_le; lia).
  assert (Hpfx : pfx <> []).
  { unfold pfx. intro C. apply (f_equal (@length byte)) in C. rewrite app_length, Hlen1 in C. cbn [length] in C. lia. }
  destruct (H_lockstep_split sg r payload rest pfx Hs Hpfx Hp Hne Hv Hls)
    as [reqsegs [later [Hsg [Hcr [Hcl [Hnt Hls']]]]]].
  assert (Hfp : firstn N pfx = firstn (Nat.min N (length pfx)) (firstn N s)).
  { rewrite firstn_firstn. replace (Nat.min (Nat.min N (length pfx)) N) with (Nat.min N (length pfx)) by lia.
    rewrite <- (firstn_firstn s N (length pfx)). f_equal. rewrite Hs, firstn_app, Nat.sub_diag, firstn_all.
    cbn [firstn]. rewrite app_nil_r. reflexivity. }
  assert (Hlp : q_offset r <= Nat.min N (length pfx)).
  { unfold pfx. rewrite app_length, Hlen1. lia. }
  destruct (H_head_prefix (firstn N s) r (Nat.min N (length pfx)) Hp Hlp) as [Hp' Hraw'].
  rewrite <- Hfp in Hp', Hraw'.
  assert (Hskip : skipn (q_offset r) pfx = ah').
  { unfold pfx. rewrite skipn_app, Hlen1, Nat.sub_diag. cbn [skipn].
    rewrite <- Hlen1 at 1. rewrite skipn_all. reflexivity. }
  pose proof (one_request_boundary_gen a N true reqsegs later r raw) as G.
  rewrite Hcr, Hskip in G. specialize (G Hp' (eq_sym Hraw')).
  assert (Hbody : exists payload0, rfc_framing raw <> FReject /\ view_body (rfc_framing raw) ah' = BodyOk payload0 []).
  { exists payload. split; assumption. }
  specialize (G Hbody). cbv zeta in G. rewrite <- Hsg in G.
  pose proof (spec_one_rest_indep a r raw ah' (skipn (q_offset r) s) payload [] rest Hne Hv' Hv) as Hfst.
  cbv zeta.
  destruct (spec_one a r raw ah') as [[resps1 keep1] rest1].
  destruct (spec_one a r raw (skipn (q_offset r) s)) as [[resps keep] rest'] eqn:Esp.
  cbn [fst] in Hfst. inversion Hfst. subst resps1 keep1.
  destruct G as [G1 [G2 [G3 [G4 [pre [z [Gz1 [Gz2 Gz3]]]]]]]].
  assert (Hz : z = []).
  { destruct z as [|g z]; [reflexivity|]. exfalso.
    destruct (concat_nil_last (g :: z) Gz2 ltac:(discriminate)) as [z' Hz'].
    apply (Hnt (pre ++ z')). rewrite Gz1, Hz', app_assoc. reflexivity. }
  subst z. cbn [List.app] in Gz3.
  split; [exact G1|]. split; [exact G4|]. split.
  { destruct keep eqn:Ek; [|reflexivity]. apply (spec_keep_no_close a r raw _ payload rest resps true rest' Hne Hv Esp eq_refl). }
  split; [exact G3|]. split.
  { intros Hok. rewrite (G2 Hok). destruct keep eqn:Ek; [|reflexivity].
    destruct (spec_keep_no_close a r raw _ payload rest resps true rest' Hne Hv Esp eq_refl) as [Hc _].
    rewrite Hc. reflexivity. }
  intros Hk. subst keep.
  destruct (spec_keep_no_close a r raw _ payload rest resps true rest' Hne Hv Esp eq_refl) as [Hc _].
  split; [exact Hc|]. exists later. split; [exact Gz3|]. split; [exact Hcl|]. split; [exact Hls'|].
  rewrite Hs, app_length. destruct pfx; [congruence|]. cbn [length]. lia.
Qed.

Lemma conn_gen : forall F1 sg acc F2 nreq,
  length (concat sg) < F1 -> length (concat sg) < F2 ->
  lockstep a N sg = true ->
  snd (spec_conn_f F1 a N (concat sg) acc) <> EUnspec ->
  c_resps (handle_connection F2 a N true sg acc nreq) = fst (spec_conn_f F1 a N (concat sg) acc) /\
  (c_waiting (handle_connection F2 a N true sg acc nreq) = true <-> snd (spec_conn_f F1 a N (concat sg) acc) = EWaiting).
Proof.
  induction F1 as [|F1 IH]; intros sg acc F2 nreq HF1 HF2 Hls Hun; [lia|].
  destruct F2 as [|F2]; [lia|].
  assert (Hhf : length (concat sg) < hfuel sg) by (unfold hfuel; lia).
  cbn [spec_conn_f] in Hun |- *.
  destruct (concat sg) as [|x s'] eqn:Es.
  - (* nothing more to read *)
    assert (Hr : fst (read_request (hfuel sg) N [] sg) = REof).
    { apply read_request_eof; rewrite ?Es; cbn [firstn length]; try lia.
      destruct N; [lia|]. reflexivity. }
    destruct (hor_eof a N true sg Hr) as [O1 [O2 [O3 O4]]].
    destruct (hc_stop F2 a N true sg acc nreq O3 O2) as [C1 C2].
    rewrite C1, C2, O1, O4, app_nil_r. cbn [fst snd]. split; [reflexivity|]. split; reflexivity.
  - assert (Hsne : concat sg <> []) by (rewrite Es; discriminate).
    rewrite <- Es in *. clear Es x s'.
    set (s := concat sg) in *.
    destruct (parse_request (firstn N s)) as [r|e|f] eqn:Ep.
    + (* a head *)
      set (raw := raw_fields (firstn N s)) in *.
      assert (Hcase : rfc_framing raw = FReject \/ rfc_framing raw <> FReject)
        by (destruct (rfc_framing raw); (left; reflexivity) || (right; discriminate)).
      destruct Hcase as [Ef|Hne].
      { (* cannot be framed *)
        rewrite (unspec_reject a r raw _ Ef) in Hun |- *.
        destruct (hor_reject a N true sg r Ep Ef) as [O1 [O2 [O3 O4]]].
        destruct (hc_stop F2 a N true sg acc nreq O3 O2) as [C1 C2].
        unfold spec_one. rewrite Ef. cbn [fst snd].
        rewrite C1, C2, O1, O4. split; [reflexivity|]. split; discriminate. }
      rewrite (unspec_framed a r raw _ Hne) in Hun |- *.
      destruct (view_body (rfc_framing raw) (skipn (q_offset r) s)) as [payload rest| |] eqn:Ev;
        [ | | exfalso; apply Hun; reflexivity ].
      * (* readable body *)
        pose proof (conn_step_ok sg r payload rest Ep Hne Ev Hls) as St. cbv zeta in St. fold s raw in St.
        destruct (spec_one a r raw (skipn (q_offset r) s)) as [[resps keep] rest'] eqn:Esp.
        destruct St as [S1 [S2 [S3 [S4 [S5 S6]]]]].
        destruct (o_ok (handle_one_request a N true sg)) eqn:Eok.
        -- destruct keep.
           ++ (* kept *)
              destruct (S6 eq_refl) as [Hc [later [L1 [L2 [L3 L5]]]]].
              destruct (hc_cont F2 a N true sg acc nreq Eok (S5 eq_refl)) as [n' Hcont].
              rewrite Hcont, S1, Hc, L1. cbn [negb andb]. subst rest'. rewrite <- L2.
              apply IH; rewrite ?L2; try assumption; try lia;
                rewrite <- L2 in Hun; exact Hun.
           ++ (* not kept *)
              destruct (hc_stop F2 a N true sg acc nreq Eok (S5 eq_refl)) as [C1 C2].
              rewrite C1, C2, S1, S2. cbn [fst snd]. split; [reflexivity|]. split; discriminate.
        -- (* handler error *)
           rewrite (S4 eq_refl) in *.
           destruct (hc_err F2 a N true sg acc nreq Eok) as [C1 C2].
           rewrite C1, C2, S1. cbn [fst snd]. split; [reflexivity|]. split; discriminate.
      * (* unreadable body (fix F21): answered once, then the connection ends - on both sides *)
        assert (Hcov : match hook_of a r, behaviour_of a r with HProceed, BReadK _ => false | _, _ => true end = true).
        { destruct (hook_of a r); [destruct (behaviour_of a r)| |]; try reflexivity. exfalso. apply Hun. reflexivity. }
        assert (Hnu : match hook_of a r, behaviour_of a r with HProceed, BReadK _ => true | _, _ => false end = false).
        { destruct (hook_of a r); [destruct (behaviour_of a r)| |]; try reflexivity. discriminate Hcov. }
        rewrite Hnu in Hun |- *.
        destruct (hor_bad_body a N true sg r Ep Hne Ev Hcov) as [O1 [O2 [O3|[O3 O4]]]].
        -- destruct (hc_err F2 a N true sg acc nreq O3) as [C1 C2].
           destruct (spec_one_bad a r raw _ Hne Ev) as [rest' Esp]. rewrite Esp.
           cbn [fst snd]. rewrite C1, C2, O1. split; [reflexivity|]. split; discriminate.
        -- destruct (hc_stop F2 a N true sg acc nreq O3 O4) as [C1 C2].
           destruct (spec_one_bad a r raw _ Hne Ev) as [rest' Esp]. rewrite Esp.
           cbn [fst snd]. rewrite C1, C2, O1, O2. split; [reflexivity|]. split; discriminate.
    + (* no head *)
      assert (He : e = EEof \/ e <> EEof) by (destruct e; (left; reflexivity) || (right; discriminate)).
      destruct He as [He|He].
      * subst e. destruct (Nat.leb N (length s)) eqn:El.
        -- apply Nat.leb_le in El.
           pose proof (read_request_too_large (hfuel sg) N sg Ep El Hhf) as Hr.
           destruct (hor_too_large a N true sg Hr) as [O1 [O2 [O3 O4]]].
           destruct (hc_stop F2 a N true sg acc nreq O3 O2) as [C1 C2].
           rewrite C1, C2, O1, O4. cbn [fst snd]. split; [reflexivity|]. split; discriminate.
        -- apply Nat.leb_gt in El.
           pose proof (read_request_eof (hfuel sg) N sg Ep El Hhf) as Hr.
           destruct (hor_eof a N true sg Hr) as [O1 [O2 [O3 O4]]].
           destruct (hc_stop F2 a N true sg acc nreq O3 O2) as [C1 C2].
           rewrite C1, C2, O1, O4, app_nil_r. cbn [fst snd]. split; [reflexivity|]. split; reflexivity.
      * assert (Hr : fst (read_request (hfuel sg) N [] sg) = RInvalid).
        { apply read_request_invalid; [intros r0; fold s; rewrite Ep; discriminate|fold s; rewrite Ep; congruence|exact Hhf]. }
        destruct (hor_invalid a N true sg Hr) as [O1 [O2 [O3 O4]]].
        destruct (hc_stop F2 a N true sg acc nreq O3 O2) as [C1 C2].
        rewrite C1, C2, O1, O4. destruct e; try congruence; cbn [fst snd]; (split; [reflexivity|]; split; discriminate).
    + exfalso. destruct (parsers_never_fault (firstn N s)) as [Hq _]. exact (Hq f Ep).
Qed.

End Conn.

(* ------------------------------------------------------------------ the pinned statement, C07_transcript *)
(* The statement of C07_transcript needs one more hypothesis: with a head limit N = 0 and no input at
   all the server answers 431 at once while the specification is still waiting
   (counterexample: N = 0, segs = []).  [N = 0 -> concat segs <> []] is the weakest such hypothesis. *)
Theorem conn_transcript_partial : forall a N segs,
  (N = 0 -> concat segs <> []) ->
  lockstep a N segs = true ->
  snd (spec_conn a N (concat segs)) <> EUnspec ->
  c_resps (serve_conn a N segs) = fst (spec_conn a N (concat segs)) /\
  (c_waiting (serve_conn a N segs) = true <-> snd (spec_conn a N (concat segs)) = EWaiting).
Proof.
  intros a N segs HN Hls Hun. unfold serve_conn, spec_conn in *.
  destruct N as [|N].
  - specialize (HN eq_refl). cbn [spec_conn_f]. destruct (concat segs) as [|x s'] eqn:Es; [congruence|].
    rewrite <- Es. cbn [firstn]. rewrite parse_request_nil. cbn [Nat.leb fst snd].
    assert (Hr : fst (read_request (hfuel segs) 0 [] segs) = RTooLarge).
    { apply read_request_too_large; [cbn [firstn]; apply parse_request_nil|lia|unfold hfuel; lia]. }
    destruct (hor_too_large a 0 true segs Hr) as [O1 [O2 [O3 O4]]].
    destruct (hc_stop (length segs + length (concat segs)) a 0 true segs [] 0 O3 O2) as [C1 C2].
    change (S (length segs) + length (concat segs)) with (S (length segs + length (concat segs))).
    rewrite C1, C2, O1, O4. split; [reflexivity|]. split; discriminate.
  - apply (conn_gen a (S N) ltac:(lia) head_prefix
             (ServerConnLock.lockstep_split view_suffix offset_pos a (S N)));
      try assumption; lia.
Qed.

Corollary conn_transcript_pos : forall a N segs, 0 < N ->
  lockstep a N segs = true ->
  snd (spec_conn a N (concat segs)) <> EUnspec ->
  c_resps (serve_conn a N segs) = fst (spec_conn a N (concat segs)) /\
  (c_waiting (serve_conn a N segs) = true <-> snd (spec_conn a N (concat segs)) = EWaiting).
Proof. intros a N segs HN. apply conn_transcript_partial. lia. Qed.
