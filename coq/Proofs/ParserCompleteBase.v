(* C02 helpers: list lemmas and byte-class inclusions used by the completeness proof. *)
From KV Require Import Lib.Bytes Lib.Swar Model.Headers Model.Parser Spec.HttpGrammar.

(* ------------------------------------------------------------------ lists *)
Lemma pc_eqb_refl x : Byte.eqb x x = true.
Proof. apply byte_eqb_eq. reflexivity. Qed.

Lemma pc_strip_prefix_app p : forall r, strip_prefix p (p ++ r) = Some r.
Proof.
  induction p as [|x p IH]; intros r; cbn [strip_prefix app].
  - reflexivity.
  - rewrite pc_eqb_refl. apply IH.
Qed.

Lemma pc_find_index_skip {A} (p : A -> bool) l x r :
  forallb (fun y => negb (p y)) l = true -> p x = true -> find_index p (l ++ x :: r) = Some (length l).
Proof.
  induction l as [|y l IH]; cbn [forallb app find_index length]; intros Hl Hx.
  - rewrite Hx. reflexivity.
  - apply andb_true_iff in Hl. destruct Hl as [Hy Hl]. apply negb_true_iff in Hy. rewrite Hy.
    rewrite (IH Hl Hx). reflexivity.
Qed.

Lemma pc_find_index_none {A} (p : A -> bool) l :
  forallb (fun y => negb (p y)) l = true -> find_index p l = None.
Proof.
  induction l as [|y l IH]; cbn [forallb find_index]; intros Hl.
  - reflexivity.
  - apply andb_true_iff in Hl. destruct Hl as [Hy Hl]. apply negb_true_iff in Hy. rewrite Hy.
    rewrite (IH Hl). reflexivity.
Qed.

Lemma pc_firstn_mid {A} (l r : list A) n : n = length l -> firstn n (l ++ r) = l.
Proof.
  intros ->. induction l as [|x l IH]; cbn [length app firstn].
  - destruct r; reflexivity.
  - rewrite IH. reflexivity.
Qed.

Lemma pc_skipn_mid {A} (l r : list A) n : n = length l -> skipn n (l ++ r) = r.
Proof. intros ->. induction l as [|x l IH]; cbn [length app skipn]; [reflexivity | exact IH]. Qed.

Lemma pc_skipn_S_mid {A} (l : list A) x r n : n = length l -> skipn (S n) (l ++ x :: r) = r.
Proof. intros ->. induction l as [|y l IH]; cbn [length app skipn]; [reflexivity | exact IH]. Qed.

Lemma pc_nth_mid {A} (l : list A) x r n : n = length l -> nth_error (l ++ x :: r) n = Some x.
Proof. intros ->. induction l as [|y l IH]; cbn [length app nth_error]; [reflexivity | exact IH]. Qed.

Lemma pc_forallb_impl {A} (p q : A -> bool) l :
  (forall x, p x = true -> q x = true) -> forallb p l = true -> forallb q l = true.
Proof.
  intros Hpq. induction l as [|x l IH]; cbn [forallb]; intros H; [reflexivity|].
  apply andb_true_iff in H. destruct H as [Hx Hl]. rewrite (Hpq x Hx), (IH Hl). reflexivity.
Qed.

Lemma pc_firstn_all {A} (l : list A) n : n = length l -> firstn n l = l.
Proof. intros ->. apply firstn_all. Qed.

(* ------------------------------------------------------------------ byte classes *)
Ltac pc_bytes :=
  let b := fresh "b" in let H := fresh "H" in
  intros b H; destruct b; vm_compute in H |- *; first [reflexivity | discriminate H].

(* "no byte c": the negated search predicate of find_index (Byte.eqb c) *)
Definition nb (c : byte) : byte -> bool := fun y => negb (Byte.eqb c y).

Lemma pc_alpha_ascii : forall b, is_alpha b = true -> is_ascii b = true.
Proof. pc_bytes. Qed.
Lemma pc_alpha_nsp : forall b, is_alpha b = true -> nb x20 b = true.
Proof. pc_bytes. Qed.

Lemma pc_path_vchar : forall b, is_path_char b = true -> is_vchar b = true.
Proof. pc_bytes. Qed.
Lemma pc_query_vchar : forall b, is_query_char b = true -> is_vchar b = true.
Proof. pc_bytes. Qed.
Lemma pc_vchar_ascii : forall b, is_vchar b = true -> is_ascii b = true.
Proof. pc_bytes. Qed.
Lemma pc_path_nqs : forall b, is_path_char b = true -> negb (is_q_or_sp b) = true.
Proof. pc_bytes. Qed.
Lemma pc_path_nq : forall b, is_path_char b = true -> nb x3f b = true.
Proof. pc_bytes. Qed.

(* bytes that step2 walks over without any special treatment *)
Definition plain (b : byte) : bool :=
  is_valid_uri_byte b && negb (is_q_or_sp b) && negb (Byte.eqb b x2f) && negb (Byte.eqb b x3a).
Definition aplain (b : byte) : bool := plain b || Byte.eqb b x3a.

Lemma pc_scheme_plain : forall b, is_scheme_char b = true -> plain b = true.
Proof. pc_bytes. Qed.
Lemma pc_scheme_ascii : forall b, is_scheme_char b = true -> is_ascii b = true.
Proof. pc_bytes. Qed.
Lemma pc_scheme_nq : forall b, is_scheme_char b = true -> nb x3f b = true.
Proof. pc_bytes. Qed.
Lemma pc_auth_aplain : forall b, is_authority_char b = true -> aplain b = true.
Proof. pc_bytes. Qed.
Lemma pc_auth_ascii : forall b, is_authority_char b = true -> is_ascii b = true.
Proof. pc_bytes. Qed.
Lemma pc_auth_nq : forall b, is_authority_char b = true -> nb x3f b = true.
Proof. pc_bytes. Qed.
Lemma pc_auth_vchar : forall b, is_authority_char b = true -> is_vchar b = true.
Proof. pc_bytes. Qed.
Definition is_authform_char (b : byte) : bool := is_unreserved b || is_subdelim b || in_set (bs ":%[]") b.
Lemma pc_authform_auth : forall b, is_authform_char b = true -> is_authority_char b = true.
Proof. pc_bytes. Qed.
Lemma pc_aplain_nslash : forall b, aplain b = true -> b <> x2f.
Proof. intros b H E. subst b. vm_compute in H. discriminate H. Qed.
Lemma pc_aplain_cases : forall b, aplain b = true -> b = x3a \/ plain b = true.
Proof.
  intros b H. unfold aplain in H. apply orb_true_iff in H. destruct H as [H|H]; [right; exact H|left].
  apply byte_eqb_eq. exact H.
Qed.

Lemma pc_tchar_field : forall b, is_tchar b = true -> is_valid_header_field_byte b = true.
Proof. pc_bytes. Qed.
Lemma pc_tchar_ascii : forall b, is_tchar b = true -> is_ascii b = true.
Proof. pc_bytes. Qed.
Lemma pc_tchar_nlf : forall b, is_tchar b = true -> nb x0a b = true.
Proof. pc_bytes. Qed.
Lemma pc_tchar_ncolon : forall b, is_tchar b = true -> nb x3a b = true.
Proof. pc_bytes. Qed.
Lemma pc_tchar_ncr : forall b, is_tchar b = true -> Byte.eqb x0d b = false.
Proof. pc_bytes. Qed.
Lemma pc_ows_nlf : forall b, is_ows b = true -> nb x0a b = true.
Proof. pc_bytes. Qed.
Lemma pc_ows_ws : forall b, is_ows b = true -> is_ascii_ws b = true.
Proof. pc_bytes. Qed.
Lemma pc_fv_nlf : forall b, is_field_vchar b = true -> nb x0a b = true.
Proof. pc_bytes. Qed.
Lemma pc_fv_ws : forall b, is_field_vchar b = true -> negb (is_ows b) = true -> is_ascii_ws b = false.
Proof.
  intros b H1 H2. destruct b; vm_compute in H1, H2 |- *;
    first [reflexivity | discriminate H1 | discriminate H2].
Qed.
