(* C02 helpers: parse_method and parse_version on rendered input. *)
From KV Require Import Lib.Bytes Lib.Swar Model.Headers Model.Parser Spec.HttpGrammar
  Proofs.Headers Proofs.ParserCompleteBase.

(* a keyword followed by SP matches a SP-free word followed by SP only if they are equal *)
Lemma pc_strip_kw k : forall m rest r,
  forallb (nb x20) k = true -> forallb (nb x20) m = true ->
  strip_prefix (k ++ [x20]) (m ++ x20 :: rest) = Some r -> m = k /\ r = rest.
Proof.
  induction k as [|c k IH]; intros m rest r Hk Hm H.
  - destruct m as [|b m].
    + cbn [app strip_prefix] in H. rewrite pc_eqb_refl in H. inversion H. split; reflexivity.
    + cbn [app strip_prefix] in H. cbn [forallb] in Hm. apply andb_true_iff in Hm. destruct Hm as [Hb _].
      unfold nb in Hb. apply negb_true_iff in Hb. rewrite Hb in H. discriminate H.
  - cbn [forallb] in Hk. apply andb_true_iff in Hk. destruct Hk as [Hc Hk].
    destruct m as [|b m].
    + cbn [app strip_prefix] in H. destruct (Byte.eqb c x20) eqn:E.
      * apply byte_eqb_eq in E. subst c. vm_compute in Hc. discriminate Hc.
      * discriminate H.
    + cbn [app strip_prefix] in H. cbn [forallb] in Hm. apply andb_true_iff in Hm. destruct Hm as [_ Hm].
      destruct (Byte.eqb c b) eqn:E; [|discriminate H].
      apply byte_eqb_eq in E. subst b.
      destruct (IH m rest r Hk Hm H) as [-> ->]. split; reflexivity.
Qed.

Lemma pc_parse_method m rest :
  nonempty m = true -> forallb is_alpha m = true ->
  exists mm, parse_method (m ++ x20 :: rest) = Ok (mm, rest) /\ method_str mm = m.
Proof.
  intros Hne Ha.
  assert (Hsp : forallb (nb x20) m = true) by (exact (pc_forallb_impl _ _ m pc_alpha_nsp Ha)).
  assert (Hasc : forallb is_ascii m = true) by (exact (pc_forallb_impl _ _ m pc_alpha_ascii Ha)).
  unfold parse_method.
  change (bs "GET ") with (bs "GET" ++ [x20]). change (bs "POST ") with (bs "POST" ++ [x20]).
  destruct (strip_prefix (bs "GET" ++ [x20]) (m ++ x20 :: rest)) as [r|] eqn:EG.
  { apply pc_strip_kw in EG; [|reflexivity|exact Hsp]. destruct EG as [-> ->].
    exists MGet. split; reflexivity. }
  destruct (strip_prefix (bs "POST" ++ [x20]) (m ++ x20 :: rest)) as [r|] eqn:EP.
  { apply pc_strip_kw in EP; [|reflexivity|exact Hsp]. destruct EP as [-> ->].
    exists MPost. split; reflexivity. }
  rewrite (pc_find_index_skip (Byte.eqb x20) m x20 rest Hsp (pc_eqb_refl x20)).
  cbv zeta.
  rewrite (pc_firstn_mid m (x20 :: rest) (length m) eq_refl).
  rewrite (pc_skipn_S_mid m x20 rest (length m) eq_refl).
  destruct (bytes_eqb m (bs "HEAD")) eqn:E1.
  { apply bytes_eqb_iff in E1. subst m. exists MHead. split; reflexivity. }
  destruct (bytes_eqb m (bs "PUT")) eqn:E2.
  { apply bytes_eqb_iff in E2. subst m. exists MPut. split; reflexivity. }
  destruct (bytes_eqb m (bs "PATCH")) eqn:E3.
  { apply bytes_eqb_iff in E3. subst m. exists MPatch. split; reflexivity. }
  destruct (bytes_eqb m (bs "DELETE")) eqn:E4.
  { apply bytes_eqb_iff in E4. subst m. exists MDelete. split; reflexivity. }
  destruct (bytes_eqb m (bs "OPTIONS")) eqn:E5.
  { apply bytes_eqb_iff in E5. subst m. exists MOptions. split; reflexivity. }
  destruct (bytes_eqb m (bs "TRACE")) eqn:E6.
  { apply bytes_eqb_iff in E6. subst m. exists MTrace. split; reflexivity. }
  rewrite Ha. cbn [negb orb].
  destruct m as [|b m']; [discriminate Hne|].
  cbn [length Nat.eqb orb].
  unfold str_unchecked. rewrite Hasc. cbn [bind].
  exists (MCustom (b :: m')). split; reflexivity.
Qed.

Lemma pc_parse_version (minor : bool) rest :
  parse_version (bs "HTTP/1." ++ (if minor then x31 else x30) :: rest) =
  Ok ((if minor then 1 else 0)%N, rest).
Proof.
  unfold parse_version. rewrite pc_strip_prefix_app. destruct minor; reflexivity.
Qed.
