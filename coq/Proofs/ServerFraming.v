(* C05 — the server's framing decision on an accepted head equals RFC 9112 section 6.3 over the raw
   field lines; a head with invalid / contradictory Content-Length fields is not accepted. *)
From KV Require Import Lib.Bytes Model.Headers Model.Parser Model.Body Model.Server
  Spec.HeaderStore Spec.HttpGrammar Spec.Framing Spec.ConnSpec
  Proofs.Headers Proofs.ParserSound Proofs.ParserSafe Proofs.ParserCompleteHdr.

(* identical to Properties/C05.server_framing (defined there after this file is imported) *)
Definition server_framing' (h : headers) : framing :=
  if te_present h && negb (te_final_chunked h) then FReject
  else if Headers.chunked h then FChunked
  else match content_length h with
       | Some n => if N.eqb n 0 then FEmpty else FFixed n
       | None => FEmpty
       end.

(* ------------------------------------------------------------------ acceptance implies the CL check *)
Lemma sf_headers_f_cl : forall fuel h0 buf hs r5, parse_headers_f fuel h0 buf = Ok (hs, r5) ->
  exists fs, strict_fields fuel buf = Some (fs, r5) /\ hs = add_pairs h0 (sfield_pairs fs) /\
             cl_ok (content_length h0) (sfield_pairs fs) = true.
Proof.
  induction fuel as [|fuel IH]; intros h0 buf hs r5 H; [discriminate H|].
  cbn [parse_headers_f] in H. rewrite ps_strict_fields_eq.
  destruct (strip_prefix [x0d; x0a] buf) as [rest|] eqn:Es.
  { inversion H; subst. exists []. repeat split; reflexivity. }
  destruct (find_index (Byte.eqb x0a) buf) as [nl|] eqn:Ei; [|discriminate H].
  destruct (Nat.eqb nl 0) eqn:Enl; [discriminate H|]. apply Nat.eqb_neq in Enl.
  destruct (nth_error buf (nl - 1)) as [c|] eqn:En; [|discriminate H].
  destruct (negb (Byte.eqb c x0d)) eqn:Ec; [discriminate H|].
  apply negb_false_iff in Ec. apply byte_eqb_eq in Ec. subst c.
  destruct (parse_header_line (firstn (nl - 1) buf)) as [[name value]| |] eqn:Ep; cbn [bind] in H; try discriminate H.
  match type of H with (if ?c then _ else _) = _ => destruct c eqn:Echk; [discriminate H|] end.
  apply IH in H. destruct H as [fs [Hfs [Hhs Hcl]]].
  apply parse_header_line_sound in Ep. destruct Ep as [raw [Hsp [Hval Hname]]].
  exists ({| s_name := name; s_raw := raw |} :: fs). unfold strict_fields_body.
  rewrite (ps_take_line_intro _ _ Ei Enl En), Hsp, Hname, Hfs. split; [reflexivity|].
  subst hs value. split; [reflexivity|].
  cbn [sfield_pairs map s_name s_raw cl_ok fst snd]. fold (sfield_pairs fs).
  rewrite pc_add_cl in Hcl.
  destruct (eq_ic name CONTENT_LENGTH); cbn [andb] in Echk; [|exact Hcl].
  destruct (parse_content_length (field_value raw)) as [x|]; [|discriminate Echk].
  destruct (content_length h0) as [m|]; [|exact Hcl].
  apply negb_false_iff in Echk. rewrite Echk. exact Hcl.
Qed.

Lemma sf_request_sound_cl : forall s r, parse_request s = Ok r ->
  exists sh, strict_head s = Some (sh, q_offset r) /\
    q_hdrs r = headers_of (sfield_pairs (s_fields sh)) /\
    cl_ok None (sfield_pairs (s_fields sh)) = true.
Proof.
  intros s r H. unfold parse_request in H.
  destruct (parse_method s) as [[m r1]| |] eqn:Em; cbn [bind] in H; try discriminate H.
  destruct (parse_uri r1) as [[u r2]| |] eqn:Eu; cbn [bind] in H; try discriminate H.
  destruct (parse_version r2) as [[v r3]| |] eqn:Ev; cbn [bind] in H; try discriminate H.
  apply ps_crlf_match in H. destruct H as [r4 [Hr3 H]]. subst r3.
  destruct (parse_headers r4) as [[hs r5]| |] eqn:Eh; cbn [bind] in H; try discriminate H.
  unfold offset_of in H. destruct (Nat.leb (length r5) (length s)); cbn [bind] in H; [|discriminate H].
  inversion H; subst r. clear H. cbn [q_offset q_meth q_target q_version q_hdrs].
  apply parse_method_sound in Em. destruct Em as [Hm1 Hm2].
  apply parse_uri_sound in Eu. destruct Eu as [Hu1 [Hu2 Hu3]].
  apply parse_version_sound in Ev. destruct Ev as [d [Hv1 Hv2]].
  unfold parse_headers in Eh. apply sf_headers_f_cl in Eh. destruct Eh as [fs [Hf1 [Hf2 Hf3]]].
  unfold strict_head, SP. rewrite Hm1, Hm2. cbn [negb]. rewrite Hu1, Hu2, Hu3. cbn [andb negb].
  rewrite Hv1, Hf1.
  destruct Hv2 as [[Hd Hv]|[Hd Hv]]; subst d v; cbn [Byte.eqb orb];
    (eexists; split; [reflexivity|]); cbn [s_method s_target s_minor s_fields]; split; [exact Hf2|exact Hf3|exact Hf2|exact Hf3].
Qed.

(* ------------------------------------------------------------------ the store after adding fields *)
Definition is_te (n : bytes) : bool := same_name n (bs "transfer-encoding").
Definition is_chunked_tok (t : bytes) : bool := same_name t (bs "chunked").

Lemma sf_token_values_snoc st nv :
  flat_map (fun kv : bytes * bytes => map trim_ows (split_on x2c (snd kv)))
           (filter (fun kv => eq_ic (fst kv) TRANSFER_ENCODING) (st ++ [nv])) =
  flat_map (fun kv : bytes * bytes => map trim_ows (split_on x2c (snd kv)))
           (filter (fun kv => eq_ic (fst kv) TRANSFER_ENCODING) st) ++
  (if is_te (fst nv) then tokens (snd nv) else []).
Proof.
  rewrite filter_app, flat_map_app. f_equal. cbn [filter]. rewrite eq_ic_same.
  unfold is_te, TRANSFER_ENCODING. destruct (same_name (fst nv) (bs "transfer-encoding")); [|reflexivity].
  cbn [flat_map]. rewrite app_nil_r. reflexivity.
Qed.

Lemma sf_add_te h n v :
  te_tokens (add h n v) = te_tokens h ++ (if is_te n then tokens v else []) /\
  Model.Headers.chunked (add h n v) = Model.Headers.chunked h || (if is_te n then existsb is_chunked_tok (tokens v) else false).
Proof.
  unfold add, te_tokens, token_values, get_all, is_te. rewrite !eq_ic_same.
  unfold CONTENT_LENGTH, TRANSFER_ENCODING, CONNECTION.
  destruct (name_cases n) as [(A & B & C)|[(A & B & C)|[(A & B & C)|(A & B & C)]]]; rewrite A, ?B, ?C;
    cbn [stored Model.Headers.chunked].
  - rewrite app_nil_r, orb_false_r. split; reflexivity.
  - pose proof (sf_token_values_snoc (stored h) (n, v)) as K. unfold is_te, TRANSFER_ENCODING in K.
    cbn [fst snd] in K. rewrite B in K. rewrite K. split; [reflexivity|].
    rewrite has_token_loop_spec. reflexivity.
  - pose proof (sf_token_values_snoc (stored h) (n, v)) as K. unfold is_te, TRANSFER_ENCODING in K.
    cbn [fst snd] in K. rewrite B in K. rewrite K, orb_false_r. split; reflexivity.
  - pose proof (sf_token_values_snoc (stored h) (n, v)) as K. unfold is_te, TRANSFER_ENCODING in K.
    cbn [fst snd] in K. rewrite B in K. rewrite K, orb_false_r. split; reflexivity.
Qed.

Lemma sf_te_codings_cons nv fs :
  te_codings (nv :: fs) = (if is_te (fst nv) then tokens (snd nv) else []) ++ te_codings fs.
Proof.
  unfold te_codings, values_of, is_te. cbn [filter].
  destruct (same_name (fst nv) (bs "transfer-encoding")); reflexivity.
Qed.

Lemma sf_add_pairs_te : forall fs h,
  te_tokens (add_pairs h fs) = te_tokens h ++ te_codings fs /\
  Model.Headers.chunked (add_pairs h fs) = Model.Headers.chunked h || existsb is_chunked_tok (te_codings fs).
Proof.
  induction fs as [|nv fs IH]; intros h.
  - unfold add_pairs. cbn [fold_left]. unfold te_codings, values_of. cbn [filter map flat_map existsb].
    rewrite app_nil_r, orb_false_r. split; reflexivity.
  - unfold add_pairs. cbn [fold_left]. fold (add_pairs (add h (fst nv) (snd nv)) fs).
    destruct (IH (add h (fst nv) (snd nv))) as [I1 I2]. destruct (sf_add_te h (fst nv) (snd nv)) as [A1 A2].
    rewrite I1, I2, A1, A2, sf_te_codings_cons, existsb_app, <- app_assoc, <- orb_assoc.
    split; [reflexivity|]. destruct (is_te (fst nv)); reflexivity.
Qed.

(* ------------------------------------------------------------------ content length after adding fields *)
Lemma sf_add_pairs_cons h nv fs : add_pairs h (nv :: fs) = add_pairs (add h (fst nv) (snd nv)) fs.
Proof. reflexivity. Qed.

Lemma sf_cl_some : forall fs h n, content_length h = Some n -> cl_ok (Some n) fs = true ->
  all_eq n (cl_values fs) = true /\ content_length (add_pairs h fs) = Some n.
Proof.
  induction fs as [|nv fs IH]; intros h n Hh Hok.
  - split; [reflexivity|exact Hh].
  - rewrite sf_add_pairs_cons, pc_cl_values_cons. cbn [cl_ok] in Hok.
    pose proof (pc_add_cl h (fst nv) (snd nv)) as Ha.
    destruct (eq_ic (fst nv) CONTENT_LENGTH).
    + destruct (parse_content_length (snd nv)) as [x|]; [|discriminate Hok].
      apply andb_true_iff in Hok. destruct Hok as [Hx Hok]. apply N.eqb_eq in Hx. subst x.
      destruct (IH _ n Ha Hok) as [I1 I2]. split; [|exact I2].
      unfold all_eq in *. cbn [forallb]. rewrite N.eqb_refl, I1. reflexivity.
    + rewrite Hh in Ha. apply (IH _ n Ha Hok).
Qed.

Lemma sf_cl_none : forall fs h, content_length h = None -> cl_ok None fs = true ->
  match cl_values fs with
  | [] => content_length (add_pairs h fs) = None
  | None :: _ => False
  | Some n :: rest => all_eq n rest = true /\ content_length (add_pairs h fs) = Some n
  end.
Proof.
  induction fs as [|nv fs IH]; intros h Hh Hok.
  - exact Hh.
  - rewrite sf_add_pairs_cons, pc_cl_values_cons. cbn [cl_ok] in Hok.
    pose proof (pc_add_cl h (fst nv) (snd nv)) as Ha.
    destruct (eq_ic (fst nv) CONTENT_LENGTH).
    + destruct (parse_content_length (snd nv)) as [x|]; [|discriminate Hok].
      apply (sf_cl_some fs _ x Ha Hok).
    + rewrite Hh in Ha. apply (IH _ Ha Hok).
Qed.

Lemma sf_cl_values_spec fs : map cl_value (values_of (bs "content-length") fs) = cl_values fs.
Proof.
  unfold values_of, cl_values, CONTENT_LENGTH. rewrite map_map.
  rewrite (filter_ext (fun nv : bytes * bytes => eq_ic (fst nv) (bs "content-length"))
                      (fun f => same_name (fst f) (bs "content-length"))) by (intros a; apply eq_ic_same).
  apply map_ext. intros a. symmetry. apply parse_content_length_spec.
Qed.

Lemma sf_cl_decision fs : cl_ok None fs = true ->
  cl_decision (values_of (bs "content-length") fs) =
  match content_length (headers_of fs) with
  | Some n => if N.eqb n 0 then FEmpty else FFixed n
  | None => FEmpty
  end.
Proof.
  intros Hok. unfold cl_decision. rewrite sf_cl_values_spec.
  pose proof (sf_cl_none fs new_headers eq_refl Hok) as K. fold (headers_of fs) in K.
  change (add_pairs new_headers fs) with (headers_of fs) in K.
  destruct (cl_values fs) as [|[n|] rest].
  - rewrite K. reflexivity.
  - destruct K as [K1 K2]. unfold all_eq in K1. rewrite K1, K2. reflexivity.
  - destruct K.
Qed.

Lemma sf_cl_decision_ok fs : cl_ok None fs = true ->
  cl_decision (values_of (bs "content-length") fs) <> FReject.
Proof.
  intros Hok. rewrite (sf_cl_decision fs Hok).
  destruct (content_length (headers_of fs)) as [n|]; [destruct (N.eqb n 0)|]; discriminate.
Qed.

(* ------------------------------------------------------------------ the decision *)
Lemma sf_last_exists cs : last_is_chunked cs = true -> existsb is_chunked_tok cs = true.
Proof.
  unfold last_is_chunked. intros H. destruct (rev cs) as [|c r] eqn:E; [discriminate H|].
  apply existsb_exists. exists c. split; [|exact H].
  apply in_rev. rewrite E. left. reflexivity.
Qed.

Lemma sf_framing_fields fs : cl_ok None fs = true ->
  server_framing' (headers_of fs) = rfc_framing fs.
Proof.
  intros Hok. unfold server_framing', rfc_framing, te_present, te_final_chunked.
  destruct (sf_add_pairs_te fs new_headers) as [T1 T2].
  change (add_pairs new_headers fs) with (headers_of fs) in T1, T2.
  change (te_tokens new_headers) with (@nil bytes) in T1. change (Model.Headers.chunked new_headers) with false in T2.
  cbn [List.app orb] in T1, T2. rewrite T1, T2.
  destruct (te_codings fs) as [|c cs] eqn:Ecs.
  - cbn [rev andb existsb]. symmetry. apply sf_cl_decision. exact Hok.
  - cbn [andb]. fold (last_is_chunked (c :: cs)).
    replace (match rev (c :: cs) with t :: _ => eq_ic t (bs "chunked") | [] => false end)
      with (last_is_chunked (c :: cs)).
    2:{ unfold last_is_chunked. destruct (rev (c :: cs)); [reflexivity|]. symmetry. apply eq_ic_same. }
    destruct (last_is_chunked (c :: cs)) eqn:El; cbn [negb]; [|reflexivity].
    rewrite (sf_last_exists _ El). reflexivity.
Qed.

Theorem framing_decision : forall s r, parse_request s = Ok r ->
  server_framing' (q_hdrs r) = rfc_framing (raw_fields s).
Proof.
  intros s r H. apply sf_request_sound_cl in H. destruct H as [sh [Hs [Hh Hok]]].
  unfold raw_fields. rewrite Hs, Hh. apply sf_framing_fields. exact Hok.
Qed.

Theorem bad_length_rejected : forall s sh n,
  strict_head s = Some (sh, n) ->
  cl_decision (values_of (bs "content-length") (sfield_pairs (s_fields sh))) = FReject ->
  exists e, parse_request s = Err e.
Proof.
  intros s sh n Hs Hrej. destruct (parse_request s) as [r|e|f] eqn:Ep.
  - exfalso. apply sf_request_sound_cl in Ep. destruct Ep as [sh' [Hs' [_ Hok]]].
    rewrite Hs in Hs'. inversion Hs'; subst sh'.
    exact (sf_cl_decision_ok _ Hok Hrej).
  - exists e. reflexivity.
  - exfalso. destruct (parsers_never_fault s) as [Hq _]. exact (Hq f Ep).
Qed.

Theorem reader_of_framing : forall lo sg h, server_framing' h <> FReject ->
  from_request lo sg h =
  match server_framing' h with
  | FChunked => new_chunked lo sg
  | FFixed n => new_fixed lo sg n
  | _ => new_empty lo sg
  end.
Proof.
  intros lo sg h Hne. unfold server_framing' in *. unfold from_request.
  destruct (te_present h && negb (te_final_chunked h)); [exfalso; apply Hne; reflexivity|].
  destruct (Model.Headers.chunked h); [reflexivity|].
  destruct (content_length h) as [n|]; [|reflexivity].
  destruct (N.eqb n 0); reflexivity.
Qed.

Theorem reject_answer : forall a mx ka segs buf r rest,
  read_request (S (length segs) + length (concat segs)) mx [] segs = (RParsed buf r, rest) ->
  server_framing' (q_hdrs r) = FReject ->
  let o := handle_one_request a mx ka segs in o_resps o = [close_resp 400] /\ o_keep o = false.
Proof.
  intros a mx ka segs buf r rest Hrr Hrej. cbv zeta. unfold handle_one_request. 
  match goal with |- context [read_request ?f ?m ?x ?y] =>
    assert (E : read_request f m x y = (RParsed buf r, rest)) by exact Hrr; rewrite E end. cbv zeta.
  unfold server_framing' in Hrej.
  destruct (te_present (q_hdrs r) && negb (te_final_chunked (q_hdrs r))).
  - split; reflexivity.
  - exfalso. destruct (Model.Headers.chunked (q_hdrs r)); [discriminate Hrej|].
    destruct (content_length (q_hdrs r)) as [n|]; [|discriminate Hrej].
    destruct (N.eqb n 0); discriminate Hrej.
Qed.
